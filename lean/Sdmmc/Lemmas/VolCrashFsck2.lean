/-
Bridge `CrashInv` → `Spec.Fs.fsck g d [] false`, part 2 (layer F5 of the `VolInv` bridge, `VolFsck5`/`VolFsck6`,
restated over `TreeLoose` / `CrashCore`):

* the shape of the directory tree: a parent ranks below its child, the ancestors of a directory form a chain, two
  children of one directory have disjoint sub-trees (`Under`, `rank` are those of `VolFsck5`);
* who claims which chain: `Home v d gh x h` — token `x` (first cluster of a chain) belongs to directory `h`, as its own
  chain or as what a file entry of `h` names (RAW on-disk field: there are no open files);  `SubTok`, `Region`, `Tok`
  as in `VolFsck6`.
-/
import Sdmmc.Lemmas.VolCrashFsck

namespace Sdmmc.Lemmas.VolCrash.Fsck
open Sdmmc.Model Sdmmc.Model.Fat Sdmmc.Spec.Volume
open Sdmmc.Spec hiding NoFault Coherent
open Sdmmc.Lemmas.VolTree Sdmmc.Lemmas.VolMed Sdmmc.Lemmas.VolBase
open Sdmmc.Lemmas.VolFsck

/-! ### The shape of the tree -/

section
variable {ft : FatType} {root : List Nat} {G : List (List Nat)} {dirs : List (Nat × Nat)} {slots : Nat → List Slot}

/-- A sub-directory has one parent. -/
theorem parent_fun (hT : TreeLoose ft root G dirs slots) (hG : HeadsOK G) {h p p' : Nat} (hp : (h, p) ∈ dirs)
    (hp' : (h, p') ∈ dirs) : p = p' := by
  have := List.inj_on_of_nodup_map (dirHeads_nodup hT hG) hp hp' rfl
  exact (Prod.mk.inj this).2

theorem rank_parent_lt (hT : TreeLoose ft root G dirs slots) (hG : HeadsOK G) {h p : Nat} (hp : (h, p) ∈ dirs) :
    rank dirs p < rank dirs h := by
  have hnd := dirIds_nodup hT hG
  obtain ⟨i, hi⟩ := List.getElem?_of_mem hp
  obtain ⟨hil, hie⟩ := List.getElem?_eq_some_iff.1 hi
  have hlen : (dirIds dirs).length = dirs.length + 1 := by simp [dirIds]
  have hrh : rank dirs h = i + 1 := by
    have h1 : (dirIds dirs)[i + 1]'(by omega) = h := by
      simp only [dirIds, List.getElem_cons_succ, List.getElem_map, hie]
    unfold rank
    rw [← h1]
    exact hnd.idxOf_getElem (i + 1) (by omega)
  rw [hrh]
  rcases hT.order i h p hi with h0 | hm
  · subst h0
    unfold rank dirIds
    rw [List.idxOf_cons]
    simp
  · obtain ⟨⟨q, p'⟩, hq, hqe⟩ := List.mem_map.1 hm
    obtain ⟨j, hj, hje⟩ := List.mem_take_iff_getElem.1 hq
    have hj' : j < i := by
      have := hj
      rw [Nat.lt_min] at this
      exact this.1
    have hjl : j < dirs.length := by omega
    have h1 : (dirIds dirs)[j + 1]'(by omega) = p := by
      simp only [dirIds, List.getElem_cons_succ, List.getElem_map, hje]
      exact hqe
    have : rank dirs p = j + 1 := by
      unfold rank
      rw [← h1]
      exact hnd.idxOf_getElem (j + 1) (by omega)
    omega

theorem under_rank_le (hT : TreeLoose ft root G dirs slots) (hG : HeadsOK G) {a x : Nat} (h : Under dirs a x) :
    rank dirs a ≤ rank dirs x := by
  induction h with
  | refl => exact Nat.le_refl _
  | step hp _ ih => exact Nat.le_of_lt (Nat.lt_of_le_of_lt ih (rank_parent_lt hT hG hp))

/-- A proper descendant lies below its ancestor's rank; so `Under` is antisymmetric. -/
theorem under_proper (hT : TreeLoose ft root G dirs slots) (hG : HeadsOK G) {a x : Nat} (h : Under dirs a x) :
    a = x ∨ rank dirs a < rank dirs x := by
  cases h with
  | refl => exact .inl rfl
  | step hp hu => exact .inr (Nat.lt_of_le_of_lt (under_rank_le hT hG hu) (rank_parent_lt hT hG hp))

/-- The ancestors of a directory form a chain. -/
theorem under_chain (hT : TreeLoose ft root G dirs slots) (hG : HeadsOK G) {a b x : Nat} (ha : Under dirs a x) :
    Under dirs b x → rank dirs a ≤ rank dirs b → Under dirs a b := by
  induction ha with
  | refl =>
    intro hb hr
    rcases under_proper hT hG hb with e | hlt
    · subst e; exact .refl
    · omega
  | step hp hu ih =>
    intro hb hr
    cases hb with
    | refl => exact .step hp hu
    | step hp' hu' =>
      have := parent_fun hT hG hp hp'
      subst this
      exact ih hu' hr

/-- A child's sub-tree does not contain its parent. -/
theorem under_child_not (hT : TreeLoose ft root G dirs slots) (hG : HeadsOK G) {h c : Nat} (hc : (c, h) ∈ dirs) :
    ¬ Under dirs c h := by
  intro hu
  have := under_rank_le hT hG hu
  have := rank_parent_lt hT hG hc
  omega

/-- Two children of one directory have disjoint sub-trees. -/
theorem under_siblings (hT : TreeLoose ft root G dirs slots) (hG : HeadsOK G) {h c c' x : Nat} (hc : (c, h) ∈ dirs)
    (hc' : (c', h) ∈ dirs) (hu : Under dirs c x) (hu' : Under dirs c' x) : c = c' := by
  have key : ∀ {c c' : Nat}, (c, h) ∈ dirs → (c', h) ∈ dirs → Under dirs c x → Under dirs c' x →
      rank dirs c ≤ rank dirs c' → c = c' := by
    intro c c' hc hc' hu hu' hr
    have h1 := under_chain hT hG hu hu' hr
    cases h1 with
    | refl => rfl
    | step hp hq =>
      have := parent_fun hT hG hp hc'
      subst this
      exact absurd hq (under_child_not hT hG hc)
  rcases Nat.le_total (rank dirs c) (rank dirs c') with hr | hr
  · exact key hc hc' hu hu' hr
  · exact (key hc' hc hu' hu hr).symm

end

/-! ### Who claims which chain -/

/-- Token `x` (first cluster of a chain) belongs to directory `h`: its own chain, or a file entry's. -/
def Home (v : FatVolume) (d : Disk) (gh : Ghost) (x h : Nat) : Prop :=
  h ∈ dirIds gh.dirs ∧ ((¬ isFixedRoot v h ∧ x = dirHead v h) ∨
    x ∈ fileRefs v.fatType [] (objects h (dirSlots v d gh.G h)))

/-- Token `x` belongs to a directory of the sub-tree of `a`. -/
def SubTok (v : FatVolume) (d : Disk) (gh : Ghost) (a x : Nat) : Prop := ∃ h, Under gh.dirs a h ∧ Home v d gh x h

/-- Cluster `c` lies on the chain of a token of the sub-tree of `a`. -/
def Region (v : FatVolume) (d : Disk) (gh : Ghost) (a c : Nat) : Prop := ∃ x, SubTok v d gh a x ∧ c ∈ chainOf gh.G x

/-- The tokens an object of a directory stands for. -/
def Tok (v : FatVolume) (d : Disk) (gh : Ghost) (o : Slot) (x : Nat) : Prop :=
  if isDirE o = true then SubTok v d gh (sCluster v.fatType o) x
  else (x = sCluster v.fatType o ∧ x ≠ 0)

section
variable {v : FatVolume} {d : Disk} {gh : Ghost}

theorem dirHead_cases {h : Nat} (hh : h ∈ dirIds gh.dirs) (hf : ¬ isFixedRoot v h) :
    dirHead v h ∈ rootHead v ∨ dirHead v h ∈ gh.dirs.map Prod.fst := by
  unfold dirHead
  by_cases h0 : h = 0
  · rw [if_pos h0]
    exact .inl (root_mem_rootHead (fat32_of_not_fixed h0 hf))
  · rw [if_neg h0]
    rcases mem_dirIds.1 hh with e | ⟨p, hp⟩
    · exact absurd e h0
    · exact .inr (List.mem_map.2 ⟨(h, p), hp, rfl⟩)

/-- Membership in the raw file references. -/
theorem mem_rawRefs {os : List Slot} {c : Nat} :
    c ∈ fileRefs v.fatType [] os ↔ c ≠ 0 ∧ ∃ o, o ∈ os ∧ isDirE o = false ∧ sCluster v.fatType o = c := mem_fileRefs

theorem dirHead_not_fileRef (hC : CrashCore v d gh) {h h' : Nat} (hh : h ∈ dirIds gh.dirs) (hf : ¬ isFixedRoot v h)
    (hh' : h' ∈ dirIds gh.dirs) :
    dirHead v h ∉ fileRefs v.fatType [] (objects h' (dirSlots v d gh.G h')) := by
  intro hm
  obtain ⟨hne, o, ho, hd, he⟩ := mem_rawRefs.1 hm
  have := fileRef_not_dir hC.tree (lheads hC) hh' ho hd (he ▸ hne)
  rw [he] at this
  rcases dirHead_cases hh hf with h1 | h1
  · exact this.1 h1
  · exact this.2 h1

theorem home_mem_heads (hC : CrashCore v d gh) {x h : Nat} (hx : Home v d gh x h) : x ∈ heads gh.G := by
  obtain ⟨hh, ⟨hf, rfl⟩ | hm⟩ := hx
  · exact dirHead_mem hC hh hf
  · apply hC.tree.allRefs.subset
    apply List.mem_append_right
    rw [List.mem_flatMap]
    exact ⟨h, hh, hm⟩

/-- A token belongs to one directory. -/
theorem home_unique (hC : CrashCore v d gh) {x h h' : Nat} (hx : Home v d gh x h) (hx' : Home v d gh x h') : h = h' := by
  have hG := lheads hC
  obtain ⟨hh, h1⟩ := hx
  obtain ⟨hh', h2⟩ := hx'
  rcases h1 with ⟨hf, e⟩ | hm
  · rcases h2 with ⟨hf', e'⟩ | hm'
    · by_contra hne
      exact dirHead_inj hC hh hh' hf hf' hne (e.symm.trans e')
    · rw [e] at hm'
      exact absurd hm' (dirHead_not_fileRef hC hh hf hh')
  · rcases h2 with ⟨hf', e'⟩ | hm'
    · rw [e'] at hm
      exact absurd hm (dirHead_not_fileRef hC hh' hf' hh)
    · by_contra hne
      have hnd := refList_nodup hC.tree hG
      have h3 := (List.nodup_append.1 hnd).2.1
      have hp := (List.nodup_flatMap.1 h3).2
      have := pairwise_sym_mem (R := Function.onFun List.Disjoint fun h =>
          fileRefs v.fatType [] (objects h (dirSlots v d gh.G h)))
        (fun a b hab y hy1 hy2 => hab hy2 hy1) hp h hh h' hh' hne
      exact this hm hm'

/-- Chains of different tokens share no cluster. -/
theorem chains_disjoint (hC : CrashCore v d gh) {x x' : Nat} (hx : x ∈ heads gh.G) (hx' : x' ∈ heads gh.G) (hne : x ≠ x') :
    ∀ c, c ∈ chainOf gh.G x → c ∉ chainOf gh.G x' := by
  have hG := lheads hC
  obtain ⟨m1, e1⟩ := chainOf_spec hG hx
  obtain ⟨m2, e2⟩ := chainOf_spec hG hx'
  apply ldisjoint hC m1 m2
  rw [headD_of_head? e1, headD_of_head? e2]
  exact hne

theorem subTok_mem_heads (hC : CrashCore v d gh) {a x : Nat} (hx : SubTok v d gh a x) : x ∈ heads gh.G := by
  obtain ⟨h, _, hh⟩ := hx
  exact home_mem_heads hC hh

/-- The sub-tree of a child lies in the sub-tree of its parent. -/
theorem subTok_child {h c x : Nat} (hc : (c, h) ∈ gh.dirs) (hx : SubTok v d gh c x) : SubTok v d gh h x := by
  obtain ⟨h', hu, hh⟩ := hx
  exact ⟨h', under_trans (under_child hc) hu, hh⟩

theorem subTok_self {h x : Nat} (hx : Home v d gh x h) : SubTok v d gh h x := ⟨h, .refl, hx⟩

/-! ### Objects of one directory -/

theorem tok_file {o : Slot} (hd : isDirE o = false) (x : Nat) :
    Tok v d gh o x ↔ (x = sCluster v.fatType o ∧ x ≠ 0) := by
  unfold Tok; rw [hd]; simp

theorem tok_dir {o : Slot} (hd : isDirE o = true) (x : Nat) :
    Tok v d gh o x ↔ SubTok v d gh (sCluster v.fatType o) x := by
  unfold Tok; rw [if_pos hd]

/-- A token of an object of directory `h` belongs to the sub-tree of `h`. -/
theorem tok_subTok (hC : CrashCore v d gh) {h : Nat} (hh : h ∈ dirIds gh.dirs) {o : Slot}
    (ho : o ∈ objects h (dirSlots v d gh.G h)) {x : Nat} (hx : Tok v d gh o x) : SubTok v d gh h x := by
  cases hd : isDirE o with
  | true =>
    rw [tok_dir hd] at hx
    exact subTok_child (hC.tree.subdirs h hh o ho hd) hx
  | false =>
    rw [tok_file hd] at hx
    exact subTok_self ⟨hh, .inr (mem_rawRefs.2 ⟨hx.2, o, ho, hd, hx.1.symm⟩)⟩

theorem nodup_pieces (hC : CrashCore v d gh) {h : Nat} (hh : h ∈ dirIds gh.dirs) :
    (subdirRefs v.fatType (objects h (dirSlots v d gh.G h))).Nodup ∧
    (fileRefs v.fatType [] (objects h (dirSlots v d gh.G h))).Nodup := by
  have hG := lheads hC
  constructor
  · have := (hC.tree.dirRefs.nodup_iff).2 (dirHeads_nodup hC.tree hG)
    exact (List.nodup_flatMap.1 this).1 h hh
  · have hnd := refList_nodup hC.tree hG
    exact (List.nodup_flatMap.1 (List.nodup_append.1 hnd).2.1).1 h hh

/-- Distinct objects of a directory stand for disjoint sets of tokens. -/
theorem tok_pairwise (hC : CrashCore v d gh) {h : Nat} (hh : h ∈ dirIds gh.dirs) :
    ∀ (os : List Slot), (∀ o, o ∈ os → o ∈ objects h (dirSlots v d gh.G h)) →
      (subdirRefs v.fatType os).Nodup → (fileRefs v.fatType [] os).Nodup →
      os.Pairwise fun o o' => ∀ x, Tok v d gh o x → ¬ Tok v d gh o' x
  | [], _, _, _ => List.Pairwise.nil
  | o :: os, hsub, hnd1, hnd2 => by
    have hG := lheads hC
    have hT := hC.tree
    rw [subdirRefs_cons, List.nodup_append] at hnd1
    rw [fileRefs_cons, List.nodup_append] at hnd2
    rw [List.pairwise_cons]
    refine ⟨?_, tok_pairwise hC hh os (fun o' ho' => hsub o' (List.mem_cons_of_mem _ ho')) hnd1.2.1 hnd2.2.1⟩
    intro o' ho' x hx hx'
    have hoO := hsub o List.mem_cons_self
    have hoO' := hsub o' (List.mem_cons_of_mem _ ho')
    cases hd : isDirE o with
    | true =>
      rw [tok_dir hd] at hx
      have hc := hT.subdirs h hh o hoO hd
      cases hd' : isDirE o' with
      | true =>
        rw [tok_dir hd'] at hx'
        have hc' := hT.subdirs h hh o' hoO' hd'
        obtain ⟨h1, hu1, hh1⟩ := hx
        obtain ⟨h2, hu2, hh2⟩ := hx'
        have := home_unique hC hh1 hh2
        subst this
        have heq := under_siblings hT hG hc hc' hu1 hu2
        have hm1 : sCluster v.fatType o ∈ subdirRefs v.fatType [o] := by
          rw [subdirRefs_single, if_pos hd]; exact List.mem_singleton.2 rfl
        have hm2 : sCluster v.fatType o' ∈ subdirRefs v.fatType os := mem_subdirRefs.2 ⟨o', ho', hd', rfl⟩
        exact hnd1.2.2 _ hm1 _ hm2 heq
      | false =>
        rw [tok_file hd'] at hx'
        obtain ⟨h1, hu1, hh1⟩ := hx
        have hh2 : Home v d gh x h := ⟨hh, .inr (mem_rawRefs.2 ⟨hx'.2, o', hoO', hd', hx'.1.symm⟩)⟩
        have := home_unique hC hh1 hh2
        subst this
        exact under_child_not hT hG hc hu1
    | false =>
      rw [tok_file hd] at hx
      cases hd' : isDirE o' with
      | true =>
        rw [tok_dir hd'] at hx'
        have hc' := hT.subdirs h hh o' hoO' hd'
        obtain ⟨h2, hu2, hh2⟩ := hx'
        have hh1 : Home v d gh x h := ⟨hh, .inr (mem_rawRefs.2 ⟨hx.2, o, hoO, hd, hx.1.symm⟩)⟩
        have := home_unique hC hh2 hh1
        subst this
        exact under_child_not hT hG hc' hu2
      | false =>
        rw [tok_file hd'] at hx'
        have hm1 : x ∈ fileRefs v.fatType [] [o] := mem_rawRefs.2 ⟨hx.2, o, List.mem_singleton.2 rfl, hd, hx.1.symm⟩
        have hm2 : x ∈ fileRefs v.fatType [] os := mem_rawRefs.2 ⟨hx'.2, o', ho', hd', hx'.1.symm⟩
        exact hnd2.2.2 _ hm1 _ hm2 rfl

theorem objects_tok_pairwise (hC : CrashCore v d gh) {h : Nat} (hh : h ∈ dirIds gh.dirs) :
    (objects h (dirSlots v d gh.G h)).Pairwise fun o o' => ∀ x, Tok v d gh o x → ¬ Tok v d gh o' x :=
  tok_pairwise hC hh _ (fun _ ho => ho) (nodup_pieces hC hh).1 (nodup_pieces hC hh).2

/-- The chain of directory `h` itself is claimed by none of its objects. -/
theorem dirHead_not_tok (hC : CrashCore v d gh) {h : Nat} (hh : h ∈ dirIds gh.dirs) (hf : ¬ isFixedRoot v h) {o : Slot}
    (ho : o ∈ objects h (dirSlots v d gh.G h)) : ¬ Tok v d gh o (dirHead v h) := by
  have hG := lheads hC
  intro hx
  have hh0 : Home v d gh (dirHead v h) h := ⟨hh, .inl ⟨hf, rfl⟩⟩
  cases hd : isDirE o with
  | true =>
    rw [tok_dir hd] at hx
    obtain ⟨h1, hu1, hh1⟩ := hx
    have := home_unique hC hh1 hh0
    subst this
    exact under_child_not hC.tree hG (hC.tree.subdirs h1 hh o ho hd) hu1
  | false =>
    rw [tok_file hd] at hx
    exact dirHead_not_fileRef hC hh hf hh (mem_rawRefs.2 ⟨hx.2, o, ho, hd, hx.1.symm⟩)

end

end Sdmmc.Lemmas.VolCrash.Fsck
