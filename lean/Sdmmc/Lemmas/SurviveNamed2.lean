/-
C09 over whole histories, part 8: `licence_notNamed` — every licence `LicenceFor` allows for a call that does not
target the file object `x` is `NotNamed` for it, and names no FAT entry of a non-last cluster of its directory's
chain.  Constructor by constructor.
-/
import Sdmmc.Lemmas.SurviveNamed

namespace Sdmmc.Lemmas.Survive
open Sdmmc.Model Sdmmc.Model.Fat Sdmmc.Spec.Volume Sdmmc.Lemmas.VolBase Sdmmc.Lemmas.VolTree
open Sdmmc.Spec hiding NoFault Coherent
open Sdmmc.Lemmas.VolDisk Sdmmc.Lemmas.VolMed Sdmmc.Lemmas.VolEng
open Sdmmc.Lemmas.WriteSetInv
open Sdmmc.Lemmas.WriteSet (flushLicence infoLicence writeLicence DirBlock FreeAt)

theorem last_not_dropLast {l : List Nat} (hnd : l.Nodup) {a : Nat} (h : l.getLast? = some a) : a ∉ l.dropLast := by
  obtain ⟨ys, rfl⟩ := List.getLast?_eq_some_iff.1 h
  rw [List.dropLast_concat]
  rw [List.nodup_append] at hnd
  exact fun hm => hnd.2.2 a hm a (List.mem_singleton.2 rfl) rfl

section
variable {s : Mgr} {gh : Ghost} {h : Nat} {x : Slot}

/-- The chains of different directories share no cluster. -/
theorem dirChains_disj (hI : VolInv s gh) {h h' : Nat} (hh : h ∈ dirIds gh.dirs) (hh' : h' ∈ dirIds gh.dirs) (hne : h ≠ h') :
    ∀ c, c ∈ dirChain gh.vol gh.G h → c ∉ dirChain gh.vol gh.G h' := by
  have hM := medX_of_med hI.med
  intro c hc hc'
  have hf : ¬ isFixedRoot gh.vol h := fun hf => by unfold dirChain at hc; rw [if_pos hf] at hc; cases hc
  have hf' : ¬ isFixedRoot gh.vol h' := fun hf => by unfold dirChain at hc'; rw [if_pos hf] at hc'; cases hc'
  exact chainOf_disj hM (dirHead_inj hM hh hh' hf hf' hne) c (dirChain_sub hM hc) (dirChain_sub hM hc')

theorem dirChain_nodup (hI : VolInv s gh) {h : Nat} (hh : h ∈ dirIds gh.dirs) : (dirChain gh.vol gh.G h).Nodup := by
  have hM := medX_of_med hI.med
  unfold dirChain
  split
  · exact List.nodup_nil
  · next hf => exact med_chain_nodup hM (dirChain_spec hM hh hf).1

/-- The chain of an open file and the chain of a directory share no cluster. -/
theorem file_not_dir (hI : VolInv s gh) {f : FileInfo} (hf : f ∈ s.files) {h : Nat} (hh : h ∈ dirIds gh.dirs) :
    ∀ c, c ∈ chainOf gh.G f.entry.cluster → c ∉ dirChain gh.vol gh.G h := by
  have hM := medX_of_med hI.med
  intro c hc hc'
  obtain ⟨h', hh', A, o, B, hO, hpo, hod, _, _, hp⟩ := file_object hM.tree hf
  have ho : o ∈ objects h' (dirSlots gh.vol s.dev.disk gh.G h') := by rw [hO]; simp
  have hne : f.entry.cluster ≠ 0 := by
    intro e
    rw [e, chainOf_lt_two (med_heads hM) (by decide)] at hc
    cases hc
  have hfx : ¬ isFixedRoot gh.vol h := fun hf => by unfold dirChain at hc'; rw [if_pos hf] at hc'; cases hc'
  have := dirHead_ne_fileRef hM hh' ho hod (by rw [effCluster_of_pend hp]; exact hne) hh hfx
  rw [effCluster_of_pend hp] at this
  exact chainOf_disj hM this.symm c hc (dirChain_sub hM hc')

/-- A free cluster is no cluster of the object's chain, holds no block of its slot, and is no cluster of its
directory. -/
theorem Obj.free_ok (hI : VolInv s gh) (hx : Obj s gh h x) {c : Nat} (hr : InRange gh.vol c) (hf : isFree gh.vol s.dev.disk c) :
    c ∉ chainOf gh.G (sCluster gh.vol.fatType x) ∧ ¬ InCluster gh.vol c x.1 ∧ c ∉ dirChain gh.vol gh.G h := by
  have hM := medX_of_med hI.med
  have hnf := free_not_flat hM hf
  refine ⟨fun hc => hnf (chainOf_sub_flat hM hc), fun hc => ?_, fun hc => hnf (chainOf_sub_flat hM (dirChain_sub hM hc))⟩
  exact hnf (chainOf_sub_flat hM (dirChain_sub hM (slot_cluster hM hx.dir hx.memSlots hr hc)))

/-- The last cluster of a directory's chain is no cluster of the object's chain and no non-last cluster of the
chain of the object's directory. -/
theorem Obj.last_ok (hI : VolInv s gh) (hx : Obj s gh h x) {dc : Nat} (hv : ValidDir gh.dirs dc) {last : Nat}
    (hl : (dirChainOf gh dc).getLast? = some last) :
    last ∉ chainOf gh.G (sCluster gh.vol.fatType x) ∧ last ∉ (dirChain gh.vol gh.G h).dropLast := by
  have hM := medX_of_med hI.med
  obtain ⟨hh', _⟩ := validDir_id hM hv
  have hm : last ∈ dirChain gh.vol gh.G (dirIdOf dc) := List.mem_of_getLast? hl
  refine ⟨fun hc => hx.not_dir hI hh' last hc hm, fun hc => ?_⟩
  by_cases he : dirIdOf dc = h
  · rw [← he] at hc
    exact last_not_dropLast (dirChain_nodup hI hh') hl hc
  · exact dirChains_disj hI hh' hx.dir he last hm (List.dropLast_subset _ hc)

/-- No cluster of the object's chain holds a block of a directory. -/
theorem Obj.block_ok (hI : VolInv s gh) (hx : Obj s gh h x) {dc : Nat} (hv : ValidDir gh.dirs dc) {b : Nat}
    (hb : DirBlock gh.vol dc (dirChainOf gh dc) b) : ∀ c, c ∈ chainOf gh.G (sCluster gh.vol.fatType x) → ¬ InCluster gh.vol c b := by
  have hM := medX_of_med hI.med
  obtain ⟨hh', _⟩ := validDir_id hM hv
  intro c hc hic
  exact hx.not_dir hI hh' c hc (dirBlock_cluster hM hv hb (chainOf_inRange hM hc) hic)

theorem Obj.slotblock_ok (hI : VolInv s gh) (hx : Obj s gh h x) {h' : Nat} (hh' : h' ∈ dirIds gh.dirs) {o : Slot}
    (ho : o ∈ dirSlots gh.vol s.dev.disk gh.G h') : ∀ c, c ∈ chainOf gh.G (sCluster gh.vol.fatType x) → ¬ InCluster gh.vol c o.1 := by
  have hM := medX_of_med hI.med
  intro c hc hic
  exact hx.not_dir hI hh' c hc (slot_cluster hM hh' ho (chainOf_inRange hM hc) hic)

/-- A closed file object elsewhere: its chain, its slot. -/
theorem Obj.other_ok (hI : VolInv s gh) (hx : Obj s gh h x) {h' : Nat} (hh' : h' ∈ dirIds gh.dirs) {o : Slot}
    (ho : o ∈ objects h' (dirSlots gh.vol s.dev.disk gh.G h')) (hod : isDirE o = false) (hcl : pendOf s.files o = none)
    (hp : spos o ≠ spos x) :
    NotNamed gh.vol { fatClusters := chainOf gh.G (sCluster gh.vol.fatType o), slots := [(o.1, o.2.1)] } x.1 x.2.1
      (chainOf gh.G (sCluster gh.vol.fatType x)) ∧
    ∀ c, c ∈ (dirChain gh.vol gh.G h).dropLast → c ∉ chainOf gh.G (sCluster gh.vol.fatType o) := by
  have hM := medX_of_med hI.med
  have hoO : Obj s gh h' o := ⟨hh', ho, hod, fun f hf hk => absurd hk ((pendOf_none_iff s.files o).1 hcl f hf)⟩
  refine ⟨⟨fun c hc => hx.not_object hI hh' ho hod hcl hp c hc, (fun c hc => nomatch hc), ?_, (fun r hr => nomatch hr)⟩, ?_⟩
  · intro p hp'
    rw [List.mem_singleton] at hp'
    subst hp'
    exact ⟨hp, hx.slotblock_ok hI hh' (mem_of_mem_objects ho)⟩
  · intro c hc hc'
    exact hoO.not_dir hI hx.dir c hc' (List.dropLast_subset _ hc)

/-- **Every licence of a call that does not target the object leaves it alone.** -/
theorem licence_notNamed {op : Op} {L : Licence} (hI : VolInv s gh) (hx : Obj s gh h x) (hn : ¬ Targets s h (sName x) (spos x) op)
    (hrf : ¬ Reflush s (spos x) op) (hl : LicenceFor gh s.files s.dirs s.dev.disk op L) :
    NotNamed gh.vol L x.1 x.2.1 (chainOf gh.G (sCluster gh.vol.fatType x)) ∧
    ∀ c, c ∈ (dirChain gh.vol gh.G h).dropLast → c ∉ L.fatClusters := by
  have hM := medX_of_med hI.med
  cases hl with
  | nothing => exact ⟨⟨(fun c _ hc => nomatch hc), (fun c hc => nomatch hc), (fun p hp => nomatch hp), (fun r hr => nomatch hr)⟩,
      (fun c _ hc => nomatch hc)⟩
  | write hd data f hf hh cs' k hpre hk hin hmode hnew =>
    have hkey : fkey f ≠ spos x := fun e => hn ⟨f, hf, hh, e, hmode⟩
    obtain ⟨t, ht⟩ := hpre
    have hdrop : cs'.drop (chainOf gh.G f.entry.cluster).length = t := by rw [← ht, List.drop_left]
    rw [hdrop] at hnew
    have hfat : ∀ c, c ∈ (writeLicence (chainOf gh.G f.entry.cluster) cs' f.currentOffset k).fatClusters →
        c ∈ chainOf gh.G f.entry.cluster ∨ c ∈ t := by
      intro c hc
      unfold writeLicence at hc
      rw [hdrop] at hc
      rcases List.mem_append.1 hc with h1 | h1
      · exact .inl (List.mem_of_getLast? (Option.mem_toList.1 h1))
      · exact .inr h1
    have hcs' : ∀ c, c ∈ cs' → c ∈ chainOf gh.G f.entry.cluster ∨ c ∈ t := by
      intro c hc; rw [← ht] at hc; exact List.mem_append.1 hc
    have key : ∀ c, c ∈ chainOf gh.G f.entry.cluster ∨ c ∈ t →
        c ∉ chainOf gh.G (sCluster gh.vol.fatType x) ∧ c ∉ dirChain gh.vol gh.G h := by
      intro c hc
      rcases hc with h1 | h1
      · exact ⟨fun h2 => hx.not_file hI hf hkey c h2 h1, file_not_dir hI hf hx.dir c h1⟩
      · exact ⟨fun h2 => hnew c h1 (chainOf_sub_flat hM h2), fun h2 => hnew c h1 (chainOf_sub_flat hM (dirChain_sub hM h2))⟩
    refine ⟨⟨fun c hc hc' => (key c (hfat c hc')).1 hc, (fun c hc => nomatch hc), (fun p hp => nomatch hp), ?_⟩,
      fun c hc hc' => (key c (hfat c hc')).2 (List.dropLast_subset _ hc)⟩
    intro r hr c hc
    have hr' : r = (cs', f.currentOffset, f.currentOffset + k) := by
      unfold writeLicence at hr
      exact List.mem_singleton.1 hr
    subst hr'
    have h2 := key c (hcs' c hc)
    exact ⟨h2.1, fun hic => h2.2 (slot_cluster hM hx.dir hx.memSlots (hin c hc) hic)⟩
  | flush hd f hf hh hdirty i hidx hfi =>
    have hkey : fkey f ≠ spos x := fun e => hrf ⟨i, f, hidx, hfi, e, hdirty⟩
    obtain ⟨h', hh', A, o, B, hO, hpo, _, _, _, _⟩ := file_object hM.tree hf
    have ho : o ∈ objects h' (dirSlots gh.vol s.dev.disk gh.G h') := by rw [hO]; simp
    refine ⟨⟨(fun c _ hc => nomatch hc), (fun c hc => nomatch hc), ?_, (fun r hr => nomatch hr)⟩, (fun c _ hc => nomatch hc)⟩
    intro p hp
    have hp' : p = fkey f := List.mem_singleton.1 hp
    subst hp'
    refine ⟨hkey, ?_⟩
    have hb : (fkey f).1 = o.1 := by rw [← hpo]
    rw [hb]
    exact hx.slotblock_ok hI hh' (mem_of_mem_objects ho)
  | closeFile hd f hf hh hdirty i hidx hfi =>
    have hkey : fkey f ≠ spos x := fun e => hrf ⟨i, f, hidx, hfi, e, hdirty⟩
    obtain ⟨h', hh', A, o, B, hO, hpo, _, _, _, _⟩ := file_object hM.tree hf
    have ho : o ∈ objects h' (dirSlots gh.vol s.dev.disk gh.G h') := by rw [hO]; simp
    refine ⟨⟨(fun c _ hc => nomatch hc), (fun c hc => nomatch hc), ?_, (fun r hr => nomatch hr)⟩, (fun c _ hc => nomatch hc)⟩
    intro p hp
    have hp' : p = fkey f := List.mem_singleton.1 hp
    subst hp'
    refine ⟨hkey, ?_⟩
    have hb : (fkey f).1 = o.1 := by rw [← hpo]
    rw [hb]
    exact hx.slotblock_ok hI hh' (mem_of_mem_objects ho)
  | closeVolume vh => exact ⟨⟨(fun c _ hc => nomatch hc), (fun c hc => nomatch hc), (fun p hp => nomatch hp), (fun r hr => nomatch hr)⟩,
      (fun c _ hc => nomatch hc)⟩
  | delete dh name sfn dir o hdir hdh hsfn ho hname hfile hclosed =>
    obtain ⟨hh', _⟩ := validDir_id hM (hI.openDirs dir hdir)
    have hp : spos o ≠ spos x := by
      intro e
      obtain ⟨e1, e2⟩ := AbsFs.slot_unique hM hh' hx.dir (mem_of_mem_objects ho) (mem_of_mem_objects hx.mem) e
      subst e2
      exact hn ⟨by rw [hname]; exact hsfn, dir, hdir, hdh, e1⟩
    exact hx.other_ok hI hh' ho hfile hclosed hp
  | truncate dh name mode sfn dir o hdir hdh hsfn hm ho hname hfile hclosed =>
    obtain ⟨hh', _⟩ := validDir_id hM (hI.openDirs dir hdir)
    have hp : spos o ≠ spos x := by
      intro e
      obtain ⟨e1, e2⟩ := AbsFs.slot_unique hM hh' hx.dir (mem_of_mem_objects ho) (mem_of_mem_objects hx.mem) e
      subst e2
      exact hn ⟨hm, by rw [hname]; exact hsfn, dir, hdir, hdh, e1⟩
    exact hx.other_ok hI hh' ho hfile hclosed hp
  | createSlot dh name mode dir hdir hdh b off hb ho hal hfs =>
    refine ⟨⟨(fun c _ hc => nomatch hc), (fun c hc => nomatch hc), ?_, (fun r hr => nomatch hr)⟩, (fun c _ hc => nomatch hc)⟩
    intro p hp
    have hp' : p = (b, off) := List.mem_singleton.1 hp
    subst hp'
    refine ⟨fun e => ?_, hx.block_ok hI (hI.openDirs dir hdir) hb⟩
    obtain ⟨e1, e2⟩ := Prod.mk.inj e
    exact hx.live hI (by rw [← e1, ← e2]; exact hfs)
  | createGrow dh name mode dir hdir hdh last c hl hr hfree =>
    obtain ⟨f1, f2, f3⟩ := hx.free_ok hI hr hfree
    obtain ⟨l1, l2⟩ := hx.last_ok hI (hI.openDirs dir hdir) hl
    refine ⟨⟨?_, ?_, (fun p hp => nomatch hp), (fun r hr => nomatch hr)⟩, ?_⟩
    · intro c' hc' hm
      rcases List.mem_cons.1 hm with e | hm
      · subst e; exact l1 hc'
      · rw [List.mem_singleton] at hm; subst hm; exact f1 hc'
    · intro c' hm
      rw [List.mem_singleton] at hm; subst hm
      exact ⟨f1, f2⟩
    · intro c' hc' hm
      rcases List.mem_cons.1 hm with e | hm
      · subst e; exact l2 hc'
      · rw [List.mem_singleton] at hm; subst hm; exact f3 (List.dropLast_subset _ hc')
  | mkdirSlot dh name dir hdir hdh cn hrn hfn b off hb ho hal hfs =>
    obtain ⟨f1, f2, f3⟩ := hx.free_ok hI hrn hfn
    refine ⟨⟨?_, ?_, ?_, (fun r hr => nomatch hr)⟩, ?_⟩
    · intro c' hc' hm
      rw [List.mem_singleton] at hm; subst hm; exact f1 hc'
    · intro c' hm
      rw [List.mem_singleton] at hm; subst hm
      exact ⟨f1, f2⟩
    · intro p hp
      have hp' : p = (b, off) := List.mem_singleton.1 hp
      subst hp'
      refine ⟨fun e => ?_, hx.block_ok hI (hI.openDirs dir hdir) hb⟩
      obtain ⟨e1, e2⟩ := Prod.mk.inj e
      exact hx.live hI (by rw [← e1, ← e2]; exact hfs)
    · intro c' hc' hm
      rw [List.mem_singleton] at hm; subst hm; exact f3 (List.dropLast_subset _ hc')
  | mkdirGrow dh name dir hdir hdh cn hrn hfn last c hl hr hfc =>
    obtain ⟨f1, f2, f3⟩ := hx.free_ok hI hrn hfn
    obtain ⟨g1, g2, g3⟩ := hx.free_ok hI hr hfc
    obtain ⟨l1, l2⟩ := hx.last_ok hI (hI.openDirs dir hdir) hl
    refine ⟨⟨?_, ?_, (fun p hp => nomatch hp), (fun r hr => nomatch hr)⟩, ?_⟩
    · intro c' hc' hm
      rcases List.mem_cons.1 hm with e | hm
      · subst e; exact f1 hc'
      · rcases List.mem_cons.1 hm with e | hm
        · subst e; exact l1 hc'
        · rw [List.mem_singleton] at hm; subst hm; exact g1 hc'
    · intro c' hm
      rcases List.mem_cons.1 hm with e | hm
      · subst e; exact ⟨f1, f2⟩
      · rw [List.mem_singleton] at hm; subst hm; exact ⟨g1, g2⟩
    · intro c' hc' hm
      rcases List.mem_cons.1 hm with e | hm
      · subst e; exact f3 (List.dropLast_subset _ hc')
      · rcases List.mem_cons.1 hm with e | hm
        · subst e; exact l2 hc'
        · rw [List.mem_singleton] at hm; subst hm; exact g3 (List.dropLast_subset _ hc')
  | mkdirFull dh name cn hrn hfn =>
    obtain ⟨f1, f2, f3⟩ := hx.free_ok hI hrn hfn
    refine ⟨⟨?_, ?_, (fun p hp => nomatch hp), (fun r hr => nomatch hr)⟩, ?_⟩
    · intro c' hc' hm
      rw [List.mem_singleton] at hm; subst hm; exact f1 hc'
    · intro c' hm
      rw [List.mem_singleton] at hm; subst hm
      exact ⟨f1, f2⟩
    · intro c' hc' hm
      rw [List.mem_singleton] at hm; subst hm; exact f3 (List.dropLast_subset _ hc')

end

end Sdmmc.Lemmas.Survive
