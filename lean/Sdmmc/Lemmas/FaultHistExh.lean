/-
C11 over histories, part 5 — THE EXHAUSTED SCHEDULE: once every scheduled index lies behind the device-call counter
(`Exhausted`), no device call fails any more, the schedule stays exhausted, and every call is the call without any
fault scheduled (`step_exhausted`).
-/
import Sdmmc.Lemmas.FaultHistRun

namespace Sdmmc.Lemmas.FaultHist
open Sdmmc.Model Sdmmc.Model.Fat Sdmmc.Spec.Volume
open Sdmmc.Spec hiding NoFault Coherent
open Sdmmc.Lemmas.Retry Sdmmc.Lemmas.Fault

/-- Every scheduled fault lies in the past. -/
def Exhausted (d : Dev) : Prop := ∀ i, i ∈ d.faults → i < d.calls

theorem exhausted_contains {d : Dev} (h : Exhausted d) : d.faults.contains d.calls = false := by
  cases hc : d.faults.contains d.calls with
  | false => rfl
  | true =>
    have := h d.calls (by simpa using hc)
    omega

/-- An exhausted schedule stays exhausted and `failed` does not move. -/
def QE (s s' : FS) : Prop := Exhausted s.dev → Exhausted s'.dev ∧ s'.dev.failed = s.dev.failed
instance : RelOK QE := ⟨fun _ h => ⟨h, rfl⟩, fun h1 h2 h => ⟨(h2 (h1 h).1).1, (h2 (h1 h).1).2.trans (h1 h).2⟩⟩
instance : DevOnly QE := ⟨fun s s' hd h => by rw [hd]; exact ⟨h, rfl⟩⟩

theorem QE.devRead (idx : Nat) : F.Inv QE (devRead idx) := by
  intro s h
  have hf := exhausted_contains h
  unfold Model.devRead
  simp only [hf]
  exact ⟨fun i hi => Nat.lt_succ_of_lt (h i hi), rfl⟩

theorem QE.devWrite (idx : Nat) : F.Inv QE (devWrite idx) := by
  intro s h
  have hf := exhausted_contains h
  unfold Model.devWrite
  simp only [hf]
  exact ⟨fun i hi => Nat.lt_succ_of_lt (h i hi), rfl⟩

theorem QE.cacheRead (idx : Nat) : F.Inv QE (cacheRead idx) := by
  intro s h
  unfold Model.cacheRead
  split
  · exact ⟨h, rfl⟩
  · have := QE.devRead idx { s with cache := { s.cache with tag := none } } h
    split
    · next s' heq => rw [heq] at this; exact this
    · next r s' _ heq => rw [heq] at this; exact this

theorem QE.writeBack : F.Inv QE writeBack := by
  intro s h
  cases ht : s.cache.tag with
  | none => rw [writeBack_none ht]; exact ⟨h, rfl⟩
  | some i =>
    rw [writeBack_tagged ht]
    show Exhausted (untagIfErr _).2.dev ∧ (untagIfErr _).2.dev.failed = _
    rw [untagIfErr_dev]; exact QE.devWrite i s h

theorem QE.writeBackWithDuplicate (dup : Nat) : F.Inv QE (writeBackWithDuplicate dup) := by
  intro s h
  cases ht : s.cache.tag with
  | none => rw [writeBackDup_none dup ht]; exact ⟨h, rfl⟩
  | some i =>
    rw [writeBackDup_tagged dup ht]
    show Exhausted (untagIfErr _).2.dev ∧ (untagIfErr _).2.dev.failed = _
    rw [untagIfErr_dev]
    exact F.Inv.bind (R := QE) (QE.devWrite i) (fun _ => QE.devWrite dup) s h

instance : ReadOK QE := { cacheRead := QE.cacheRead }
instance : WriteOK QE := { writeBack := QE.writeBack, writeBackWithDuplicate := QE.writeBackWithDuplicate }

def MQE (s s' : Mgr) : Prop := Exhausted s.dev → Exhausted s'.dev ∧ s'.dev.failed = s.dev.failed
instance : RelOK MQE := ⟨fun _ h => ⟨h, rfl⟩, fun h1 h2 h => ⟨(h2 (h1 h).1).1, (h2 (h1 h).1).2.trans (h1 h).2⟩⟩
instance : MDev MQE QE where
  of_dev_eq := fun s s' hd _ h => by rw [hd]; exact ⟨h, rfl⟩
  of_fs := fun s fs fs' vs hd _ hr h => by
    have := hr (by rw [hd]; exact h)
    rw [hd] at this
    exact this

/-- **With an exhausted schedule a call is the call without any fault scheduled**, and the schedule stays exhausted. -/
theorem step_exhausted (s : Mgr) (op : Op) (h : Exhausted s.dev) :
    Exhausted (step s op).1.dev ∧ (step s op).1.dev.failed = s.dev.failed ∧
    (step (mclr s) op).2 = (step s op).2 ∧ (step (mclr s) op).1 = mclr (step s op).1 := by
  have key : Exhausted (step s op).1.dev ∧ (step s op).1.dev.failed = s.dev.failed := by
    unfold Model.step
    by_cases hl : s.locked = true
    · rw [if_pos hl]; split <;> exact ⟨h, rfl⟩
    · rw [if_neg hl]
      exact runOp_inv (R := MQE) op { s with dev := { s.dev with wlog := [], rlog := [] } } h
  exact ⟨key.1, key.2, step_erase s op key.2⟩

end Sdmmc.Lemmas.FaultHist
