/-
Lemmas for C12, part 18 (end-to-end): the driver model run against the specification card
`Sdmmc.Spec.Card` as the bus.
-/
import Sdmmc.Spec.Card
import Sdmmc.Lemmas.SdFrame
import Sdmmc.Lemmas.SdBasic

namespace Sdmmc.Lemmas.SdCardSim
open Sdmmc.Model Sdmmc.Spec.Card Sdmmc.Model.Sd Sdmmc.Lemmas.Sd Sdmmc.Gen

def setOut (c : Card) (o : List UInt8) : Card := { c with out := o }

@[simp] theorem setOut_out (c : Card) (o) : (setOut c o).out = o := rfl
@[simp] theorem setOut_setOut (c : Card) (o o') : setOut (setOut c o) o' = setOut c o' := rfl
@[simp] theorem setOut_self (c : Card) : setOut c c.out = c := rfl

/-- Nothing in flight: no partial frame, no data phase, no streaming read, not busy. -/
structure Quiet (c : Card) : Prop where
  cmdBuf : c.cmdBuf = []
  phase : c.phase = .ready
  streaming : c.streaming = none
  busy : c.busyLeft = 0

theorem Quiet.setOut {c : Card} (h : Quiet c) (o) : Quiet (setOut c o) := ⟨h.1, h.2, h.3, h.4⟩

theorem step_ff_quiet (c : Card) (h : Quiet c) :
    step c 0xFF = (setOut c c.out.tail, c.out.headD 0xFF) := by
  obtain ⟨h1, h2, h3, h4⟩ := h
  rcases c with ⟨kind, mem, csd, cap, ncr, nac, busy, initPolls, idle, spiMode, crcOn, appCmd, cmd8Seen,
    initLeft, initialised, out, busyLeft, cmdBuf, phase, streaming, preErase, violations, commands⟩
  simp only at h1 h2 h3 h4
  subst h1 h2 h3 h4
  cases out <;> simp [step, setOut]

theorem run_ff_quiet (k : Nat) : ∀ (c : Card), Quiet c →
    run c (List.replicate k 0xFF) =
      (setOut c (c.out.drop k), c.out.take k ++ List.replicate (k - c.out.length) 0xFF) := by
  induction k with
  | zero => intro c _; simp [run]
  | succ k ih =>
    intro c h
    rw [List.replicate_succ, run, step_ff_quiet c h]
    simp only
    rw [ih _ (h.setOut _)]
    cases hout : c.out with
    | nil => simp [List.replicate_succ]
    | cons b rest => simp

def setBuf (c : Card) (b : List UInt8) : Card := { c with cmdBuf := b }
@[simp] theorem setBuf_cmdBuf (c : Card) (b) : (setBuf c b).cmdBuf = b := rfl
@[simp] theorem setBuf_out (c : Card) (b) : (setBuf c b).out = c.out := rfl
@[simp] theorem setBuf_busyLeft (c : Card) (b) : (setBuf c b).busyLeft = c.busyLeft := rfl
@[simp] theorem setBuf_setBuf (c : Card) (b b') : setBuf (setBuf c b) b' = setBuf c b' := rfl

theorem step_start (c : Card) (hb : c.cmdBuf = []) (hp : c.phase = .ready) (ho : c.out = []) (hz : c.busyLeft = 0)
    (x : UInt8) (hx : x.toNat / 64 = 1) : step c x = (setBuf c [x], 0xFF) := by
  rcases c with ⟨kind, mem, csd, cap, ncr, nac, busy, initPolls, idle, spiMode, crcOn, appCmd, cmd8Seen,
    initLeft, initialised, out, busyLeft, cmdBuf, phase, streaming, preErase, violations, commands⟩
  simp only at hb hp ho hz
  subst hb hp ho hz
  simp [step, setBuf, hx]

theorem step_mid (c : Card) (y : UInt8) (ys : List UInt8) (hb : c.cmdBuf = y :: ys) (ho : c.out = [])
    (hz : c.busyLeft = 0) (x : UInt8) (hl : (y :: ys ++ [x]).length ≠ 6) :
    step c x = (setBuf c (y :: ys ++ [x]), 0xFF) := by
  rcases c with ⟨kind, mem, csd, cap, ncr, nac, busy, initPolls, idle, spiMode, crcOn, appCmd, cmd8Seen,
    initLeft, initialised, out, busyLeft, cmdBuf, phase, streaming, preErase, violations, commands⟩
  simp only at hb ho hz
  subst hb ho hz
  simp only [step, setBuf]
  simp at hl ⊢
  intro h; omega

theorem step_last (c : Card) (y : UInt8) (ys : List UInt8) (hb : c.cmdBuf = y :: ys) (ho : c.out = [])
    (hz : c.busyLeft = 0) (x : UInt8) (hl : (y :: ys ++ [x]).length = 6) :
    step c x = (frameDone (setBuf c []) (y :: ys ++ [x]), 0xFF) := by
  rcases c with ⟨kind, mem, csd, cap, ncr, nac, busy, initPolls, idle, spiMode, crcOn, appCmd, cmd8Seen,
    initLeft, initialised, out, busyLeft, cmdBuf, phase, streaming, preErase, violations, commands⟩
  simp only at hb ho hz
  subst hb ho hz
  simp only [step, setBuf]
  simp at hl ⊢
  intro h; omega

theorem frame_six (cmd arg : Nat) : ∃ x0 x1 x2 x3 x4 x5 : UInt8, frame cmd arg = [x0, x1, x2, x3, x4, x5] :=
  ⟨_, _, _, _, _, _, rfl⟩

theorem be32_drop (f : List UInt8) : be32 (f.drop 1) = frameArg f := by
  cases f with
  | nil => rfl
  | cons x rest => simp [be32, frameArg]

/-- A frame built by the driver passes the card's checks (end bit, CRC-7) and is executed. -/
theorem frameDone_frame (c : Card) (cmd arg : Nat) (hc : cmd < 64) (ha : arg < 4294967296) :
    frameDone c (frame cmd arg) = execCommand c cmd arg := by
  obtain ⟨hl, h0, harg, h5, _, hodd⟩ := frame_layout cmd arg hc ha
  have hcrc : crc7Of ((frame cmd arg).take 5) = ((frame cmd arg).getD 5 0).toNat := by
    have := congrArg BitVec.toNat h5
    simp only [toBV8, BitVec.toNat_ofNat] at this
    rw [Nat.mod_eq_of_lt (by simpa using UInt8.toNat_lt _)] at this
    rw [this]; rfl
  have hidx : ((frame cmd arg).getD 0 0).toNat % 64 = cmd := cmdIdx_frame cmd arg hc
  have hbe : be32 ((frame cmd arg).drop 1) = arg := by
    rw [be32_drop, harg]
  unfold frameDone
  simp only [hidx, hbe, hodd, hcrc, if_true]
  simp

/-- Receiving a whole frame of the driver on a quiet card with nothing queued: the command is
executed, and the card answered 0xFF throughout. -/
theorem run_frame (c : Card) (hb : c.cmdBuf = []) (hp : c.phase = .ready) (ho : c.out = []) (hz : c.busyLeft = 0)
    (cmd arg : Nat) (hc : cmd < 64) (ha : arg < 4294967296) :
    run c (frame cmd arg) = (execCommand c cmd arg, List.replicate 6 0xFF) := by
  have hfd := frameDone_frame (setBuf c []) cmd arg hc ha
  obtain ⟨_, h0, _⟩ := frame_layout cmd arg hc ha
  obtain ⟨x0, x1, x2, x3, x4, x5, hf⟩ := frame_six cmd arg
  rw [hf] at hfd h0 ⊢
  have hx0 : x0.toNat / 64 = 1 := by
    simp at h0; rw [h0]; simp; omega
  have hself : setBuf c [] = c := by rw [← hb]; rfl
  simp only [run]
  rw [step_start c hb hp ho hz x0 hx0]
  simp only []
  rw [step_mid (setBuf c [x0]) x0 [] rfl ho hz x1 (by simp)]
  simp only [setBuf_setBuf, List.cons_append, List.nil_append]
  rw [step_mid (setBuf c _) x0 [x1] rfl ho hz x2 (by simp)]
  simp only [setBuf_setBuf, List.cons_append, List.nil_append]
  rw [step_mid (setBuf c _) x0 [x1, x2] rfl ho hz x3 (by simp)]
  simp only [setBuf_setBuf, List.cons_append, List.nil_append]
  rw [step_mid (setBuf c _) x0 [x1, x2, x3] rfl ho hz x4 (by simp)]
  simp only [setBuf_setBuf, List.cons_append, List.nil_append]
  rw [step_last (setBuf c _) x0 [x1, x2, x3, x4] rfl ho hz x5 (by simp)]
  simp only [setBuf_setBuf, List.cons_append, List.nil_append]
  rw [hfd, hself]
  rfl

/-- The card after accepting READ_SINGLE_BLOCK for block `idx`: response delay, R1 = 0, then the
data block. -/
def afterRead (c : Card) (idx : Nat) : Card :=
  { c with commands := c.commands + 1, appCmd := false,
           out := List.replicate c.ncr 0xFF ++ [0x00] ++ dataBlock c (getBlock c idx) }

theorem exec17 (c : Card) (hk : c.kind = .SDHC) (hi : c.initialised = true) (hs : c.streaming = none)
    (idx : Nat) (hidx : idx < c.capacity) : execCommand c 17 idx = afterRead c idx := by
  rcases c with ⟨kind, mem, csd, cap, ncr, nac, busy, initPolls, idle, spiMode, crcOn, appCmd, cmd8Seen,
    initLeft, initialised, out, busyLeft, cmdBuf, phase, streaming, preErase, violations, commands⟩
  simp only at hk hi hs hidx
  subst hk hi hs
  unfold execCommand
  simp [afterRead, blockOfArg, hidx, dataBlock, getBlock]

/-- The specification card as an SPI bus: a transaction clocks the bytes through `Card.run`;
it never fails; waiting does nothing.  Same body as `Sdmmc.Props.C12.cardBus`. -/
def cardBus : BusOps Card where
  xfer := fun c out => let (c', ys) := Sdmmc.Spec.Card.run c out; (c', some ys)
  delay := id

theorem readByte_card (s : St Card) (h : Quiet s.bus) :
    readByte cardBus s = (.ok (s.bus.out.headD 0xFF).toNat,
      { s with bus := setOut s.bus s.bus.out.tail, events := .poll (s.bus.out.headD 0xFF).toNat :: s.events }) := by
  simp [readByte, cardBus, run, step_ff_quiet s.bus h]

theorem delayTick_card (s : St Card) :
    delayTick cardBus s = (.ok (), { s with delays := s.delays + 1 }) := rfl

/-- Same state up to the ghost fields (`events`, `delays`) with the given card. -/
def StAt (s : St Card) (c : Card) (s' : St Card) : Prop :=
  s'.bus = c ∧ s'.cardType = s.cardType ∧ s'.useCrc = s.useCrc ∧ s'.acquireRetries = s.acquireRetries

theorem setOut_tail_nil (c : Card) (ho : c.out = []) : setOut c c.out.tail = c := by
  rw [ho]; show setOut c [] = c; rw [← ho]; rfl

theorem waitNotBusy_card (n : Nat) (s : St Card) (h : Quiet s.bus) (ho : s.bus.out = []) :
    ∃ s', waitNotBusy cardBus n s = (.ok (), s') ∧ StAt s s.bus s' := by
  cases n with
  | zero =>
    simp only [waitNotBusy, bind_apply, readByte_card s h, setOut_tail_nil s.bus ho]
    simp only [ho]
    exact ⟨_, rfl, by simp [StAt]⟩
  | succ n =>
    simp only [waitNotBusy, bind_apply, readByte_card s h, setOut_tail_nil s.bus ho]
    simp only [ho]
    exact ⟨_, rfl, by simp [StAt]⟩

theorem waitResponse_card (cmd : Nat) (n : Nat) : ∀ (k : Nat) (s : St Card), Quiet s.bus →
    ∀ (r : UInt8) (rest : List UInt8), s.bus.out = List.replicate k 0xFF ++ r :: rest →
    r.toNat / 128 % 2 = 0 → k ≤ n →
    ∃ s', waitResponse cardBus cmd n s = (.ok r.toNat, s') ∧ StAt s (setOut s.bus rest) s' := by
  induction n with
  | zero =>
    intro k s h r rest ho hr hk
    have : k = 0 := by omega
    subst this
    simp only [List.replicate_zero, List.nil_append] at ho
    simp only [waitResponse, bind_apply, readByte_card s h, ho, List.headD_cons, List.tail_cons, hr, if_true]
    exact ⟨_, rfl, by simp [StAt]⟩
  | succ n ih =>
    intro k s h r rest ho hr hk
    cases k with
    | zero =>
      simp only [List.replicate_zero, List.nil_append] at ho
      simp only [waitResponse, bind_apply, readByte_card s h, ho, List.headD_cons, List.tail_cons, hr, if_true]
      exact ⟨_, rfl, by simp [StAt]⟩
    | succ k =>
      rw [List.replicate_succ, List.cons_append] at ho
      have hff : (255 : UInt8).toNat / 128 % 2 = 0 ↔ False := by decide
      simp only [waitResponse, bind_apply, readByte_card s h, ho, List.headD_cons, List.tail_cons, hff, if_false,
        delayTick_card]
      obtain ⟨s', h1, h2⟩ := ih k ⟨setOut s.bus (List.replicate k 255 ++ r :: rest), s.cardType, s.useCrc,
        s.acquireRetries, Event.poll (UInt8.toNat 255) :: s.events, s.delays + 1⟩
        (h.setOut _) r rest (by simp) hr (by omega)
      exact ⟨s', h1, by simpa [StAt] using h2⟩

theorem waitToken_card (n : Nat) : ∀ (k : Nat) (s : St Card), Quiet s.bus →
    ∀ (t : UInt8) (rest : List UInt8), s.bus.out = List.replicate k 0xFF ++ t :: rest →
    t.toNat ≠ 255 → k ≤ n →
    ∃ s', waitToken cardBus n s = (.ok t.toNat, s') ∧ StAt s (setOut s.bus rest) s' := by
  induction n with
  | zero =>
    intro k s h t rest ho ht hk
    have : k = 0 := by omega
    subst this
    simp only [List.replicate_zero, List.nil_append] at ho
    simp only [waitToken, bind_apply, readByte_card s h, ho, List.headD_cons, List.tail_cons, ne_eq, ht,
      not_false_eq_true, if_true]
    exact ⟨_, rfl, by simp [StAt]⟩
  | succ n ih =>
    intro k s h t rest ho ht hk
    cases k with
    | zero =>
      simp only [List.replicate_zero, List.nil_append] at ho
      simp only [waitToken, bind_apply, readByte_card s h, ho, List.headD_cons, List.tail_cons, ne_eq, ht,
        not_false_eq_true, if_true]
      exact ⟨_, rfl, by simp [StAt]⟩
    | succ k =>
      rw [List.replicate_succ, List.cons_append] at ho
      have hff : (255 : UInt8).toNat ≠ 255 ↔ False := by decide
      simp only [waitToken, bind_apply, readByte_card s h, ho, List.headD_cons, List.tail_cons, hff, if_false,
        delayTick_card]
      obtain ⟨s', h1, h2⟩ := ih k ⟨setOut s.bus (List.replicate k 255 ++ t :: rest), s.cardType, s.useCrc,
        s.acquireRetries, Event.poll (UInt8.toNat 255) :: s.events, s.delays + 1⟩
        (h.setOut _) t rest (by simp) ht (by omega)
      exact ⟨s', h1, by simpa [StAt] using h2⟩

theorem xferEv_dataIn_card (m : Nat) (s : St Card) (h : Quiet s.bus) :
    ∃ s', xferEv cardBus (.dataIn m) s =
      (.ok (s.bus.out.take m ++ List.replicate (m - s.bus.out.length) 0xFF), s') ∧
      StAt s (setOut s.bus (s.bus.out.drop m)) s' := by
  simp only [xferEv, cardBus, Event.bytes, run_ff_quiet m s.bus h]
  exact ⟨_, rfl, by simp [StAt]⟩

theorem xferEv_cmd_card (cmd arg : Nat) (hc : cmd < 64) (ha : arg < 4294967296) (s : St Card)
    (h : Quiet s.bus) (ho : s.bus.out = []) :
    ∃ s', xferEv cardBus (.cmd (frame cmd arg)) s = (.ok (List.replicate 6 0xFF), s') ∧
      StAt s (execCommand s.bus cmd arg) s' := by
  simp only [xferEv, cardBus, Event.bytes, run_frame s.bus h.cmdBuf h.phase ho h.busy cmd arg hc ha]
  exact ⟨_, rfl, by simp [StAt]⟩

theorem StAt.trans {s s1 s2 : St Card} {c1 c2 : Card} (h1 : StAt s c1 s1) (h2 : StAt s1 c2 s2) : StAt s c2 s2 :=
  ⟨h2.1, h2.2.1.trans h1.2.1, h2.2.2.1.trans h1.2.2.1, h2.2.2.2.trans h1.2.2.2⟩

theorem crc_bytes_roundtrip (x : Nat) (hx : x < 65536) :
    (UInt8.ofNat (x / 256)).toNat * 256 + (UInt8.ofNat (x % 256)).toNat = x := by
  simp; omega

theorem crc16Of_lt (p : List UInt8) : crc16Of p < 65536 := by
  unfold crc16Of; exact BitVec.isLt _

/-- `card_command(CMD17, idx)` against a ready, initialised high-capacity card: answered with 0,
and the card has the data block queued. -/
theorem cardCommand17_card (s : St Card) (hk : s.bus.kind = .SDHC) (hinit : s.bus.initialised = true)
    (hq : Quiet s.bus) (hout : s.bus.out = []) (hncr : s.bus.ncr ≤ DEFAULT_COMMAND_RETRIES)
    (idx : Nat) (hidx : idx < s.bus.capacity) (h32 : idx < 4294967296) :
    ∃ s', cardCommand cardBus CMD17 idx s = (.ok 0, s') ∧
      StAt s (setOut (afterRead s.bus idx) (dataBlock s.bus (getBlock s.bus idx))) s' := by
  obtain ⟨s1, h1, a1⟩ := waitNotBusy_card DEFAULT_COMMAND_RETRIES s hq hout
  have hq1 : Quiet s1.bus := by rw [a1.1]; exact hq
  obtain ⟨s2, h2, a2⟩ := xferEv_cmd_card CMD17 idx (by decide) h32 s1 hq1 (by rw [a1.1]; exact hout)
  rw [a1.1, show CMD17 = 17 from rfl, exec17 s.bus hk hinit hq.streaming idx hidx] at a2
  have hq2 : Quiet s2.bus := by rw [a2.1]; exact ⟨hq.1, hq.2, hq.3, hq.4⟩
  obtain ⟨s3, h3, a3⟩ := waitResponse_card CMD17 DEFAULT_COMMAND_RETRIES s.bus.ncr s2 hq2 0
    (dataBlock s.bus (getBlock s.bus idx)) (by rw [a2.1]; simp [afterRead]) (by decide) hncr
  refine ⟨s3, ?_, (a1.trans a2).trans (by rw [a2.1] at a3; exact a3)⟩
  unfold cardCommand
  dsimp only
  rw [if_pos (show CMD17 ≠ CMD0 ∧ CMD17 ≠ CMD12 by decide), bind_ok h1, bind_ok h2,
    if_neg (show ¬ (CMD17 = CMD12) by decide)]
  exact h3

/-- `read_data(512)` against a card that has a data block queued: the payload, in either CRC mode. -/
theorem readData_card (s : St Card) (hq : Quiet s.bus) (c0 : Card) (payload : List UInt8)
    (hlen : payload.length = 512) (hnac : c0.nac ≤ DEFAULT_READ_RETRIES)
    (hout : s.bus.out = dataBlock c0 payload) :
    ∃ s', readData cardBus 512 s = (.ok payload, s') ∧ StAt s (setOut s.bus []) s' := by
  have hdb : dataBlock c0 payload = List.replicate c0.nac 0xFF ++ 0xFE ::
      (payload ++ [UInt8.ofNat (crc16Of payload / 256), UInt8.ofNat (crc16Of payload % 256)]) := by
    simp [dataBlock]
  obtain ⟨s1, h1, a1⟩ := waitToken_card DEFAULT_READ_RETRIES c0.nac s hq 0xFE _ (hout.trans hdb) (by decide) hnac
  have hq1 : Quiet s1.bus := by rw [a1.1]; exact hq.setOut _
  obtain ⟨s2, h2, a2⟩ := xferEv_dataIn_card 512 s1 hq1
  have hq2 : Quiet s2.bus := by rw [a2.1]; exact hq1.setOut _
  obtain ⟨s3, h3, a3⟩ := xferEv_dataIn_card 2 s2 hq2
  have hbuf : s1.bus.out.take 512 ++ List.replicate (512 - s1.bus.out.length) 0xFF = payload := by
    rw [a1.1, setOut_out, List.take_left' hlen, List.length_append, hlen]; simp
  have hcrc : s2.bus.out.take 2 ++ List.replicate (2 - s2.bus.out.length) 0xFF =
      [UInt8.ofNat (crc16Of payload / 256), UInt8.ofNat (crc16Of payload % 256)] := by
    rw [a2.1, setOut_out, a1.1, setOut_out, List.drop_left' hlen]; simp
  rw [hbuf] at h2
  rw [hcrc] at h3
  have hfin : StAt s (setOut s.bus []) s3 := by
    refine (a1.trans a2).trans ?_
    have : setOut s2.bus (List.drop 2 s2.bus.out) = setOut s.bus [] := by
      rw [a2.1, setOut_out, a1.1, setOut_out, List.drop_left' hlen]; simp
    rw [this] at a3; exact a3
  refine ⟨s3, ?_, hfin⟩
  unfold readData
  rw [bind_ok h1]
  simp only [show ¬ ((0xFE : UInt8).toNat ≠ DATA_START_BLOCK) from by decide, if_false]
  rw [bind_ok h2, bind_ok h3, bind_ok (get_apply s3)]
  have hck : (List.getD [UInt8.ofNat (crc16Of payload / 256), UInt8.ofNat (crc16Of payload % 256)] 0 0).toNat * 256 +
      (List.getD [UInt8.ofNat (crc16Of payload / 256), UInt8.ofNat (crc16Of payload % 256)] 1 0).toNat =
      crc16Nat payload := by
    simp only [List.getD_cons_zero, List.getD_cons_succ]
    exact crc_bytes_roundtrip _ (crc16Of_lt payload)
  split
  · rw [if_neg (by rw [hck]; simp)]; rfl
  · rfl

/-- End to end: a single-block read of block `idx` from a ready, initialised high-capacity
specification card returns exactly the block the card stores there. -/
theorem read_single_correct_sdhc (s : St Card) (hct : s.cardType = some .SDHC)
    (hk : s.bus.kind = .SDHC) (hinit : s.bus.initialised = true) (hq : Quiet s.bus) (hout : s.bus.out = [])
    (hncr : s.bus.ncr ≤ DEFAULT_COMMAND_RETRIES) (hnac : s.bus.nac ≤ DEFAULT_READ_RETRIES)
    (idx : Nat) (hidx : idx < s.bus.capacity) (h32 : idx < 4294967296)
    (hlen : (getBlock s.bus idx).length = 512) :
    ∃ s', Sd.read cardBus 1 idx s = (.ok [getBlock s.bus idx], s') ∧
      StAt s { s.bus with commands := s.bus.commands + 1, appCmd := false } s' := by
  obtain ⟨s1, h1, a1⟩ := cardCommand17_card s hk hinit hq hout hncr idx hidx h32
  have hq1 : Quiet s1.bus := by rw [a1.1]; exact ⟨hq.1, hq.2, hq.3, hq.4⟩
  obtain ⟨s2, h2, a2⟩ := readData_card s1 hq1 s.bus (getBlock s.bus idx) hlen hnac (by rw [a1.1]; rfl)
  refine ⟨s2, ?_, ?_⟩
  · unfold Sd.read
    rw [bind_ok (get_apply s), hct, bind_ok (show S.lift (startIdx (some CardType.SDHC) idx) s = (.ok idx, s) from rfl)]
    simp only [if_true]
    rw [bind_ok h1, bind_ok h2]
    rfl
  · have := a1.trans a2
    rw [a1.1] at this
    have he : setOut (setOut (afterRead s.bus idx) (dataBlock s.bus (getBlock s.bus idx))) [] =
        { s.bus with commands := s.bus.commands + 1, appCmd := false } := by
      simp only [setOut, afterRead, hout]
    rw [he] at this; exact this

end Sdmmc.Lemmas.SdCardSim
