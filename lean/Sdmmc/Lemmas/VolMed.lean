/-
Volume invariant (C03), layer 1b: the medium.  The chain of a directory (`dirChain`), what `MedInv`
says about directory chains (members of `G`, pairwise disjoint), positions of all slots of all
directories distinct (`allPos_nodup`, `objPos_nodup`), and the congruence lemma `med_congr`: `MedInv`
depends on the medium only through the FAT entries and the slot lists of the directories.
-/
import Sdmmc.Lemmas.VolTreeSlots2
import Sdmmc.Lemmas.VolDisk
import Sdmmc.Lemmas.WriteRefinesBytes

namespace Sdmmc.Lemmas.VolMed
open Sdmmc.Model Sdmmc.Model.Fat Sdmmc.Spec Sdmmc.Spec.Volume Sdmmc.Lemmas.VolBase Sdmmc.Lemmas.VolTree
open Sdmmc.Lemmas.VolDisk

/-! ### The chain of a directory -/

/-- The first cluster of directory `h` (meaningless for the FAT16 root). -/
def dirHead (v : FatVolume) (h : Nat) : Nat := if h = 0 then v.firstRootDirCluster else h

/-- The directory `h` is the FAT16 fixed root region. -/
def isFixedRoot (v : FatVolume) (h : Nat) : Prop := h = 0 ∧ v.fatType = .fat16

instance (v : FatVolume) (h : Nat) : Decidable (isFixedRoot v h) := by unfold isFixedRoot; infer_instance

/-- The chain of directory `h` (`[]` for the FAT16 root). -/
def dirChain (v : FatVolume) (G : List (List Nat)) (h : Nat) : List Nat :=
  if isFixedRoot v h then [] else chainOf G (dirHead v h)

theorem dirSlots_eq (v : FatVolume) (d : Disk) (G : List (List Nat)) (h : Nat) :
    dirSlots v d G h = if isFixedRoot v h then fixedRootSlots v d else chainSlots v d (dirChain v G h) := by
  unfold dirSlots dirChain isFixedRoot dirHead
  by_cases h0 : h = 0
  · subst h0
    simp only [if_true, true_and]
    split <;> rename_i hft <;> simp [hft]
  · simp [h0]

theorem dirSlots_fixed {v : FatVolume} {d : Disk} {G : List (List Nat)} {h : Nat} (hf : isFixedRoot v h) :
    dirSlots v d G h = fixedRootSlots v d := by rw [dirSlots_eq, if_pos hf]

theorem dirSlots_chain {v : FatVolume} {d : Disk} {G : List (List Nat)} {h : Nat} (hf : ¬ isFixedRoot v h) :
    dirSlots v d G h = chainSlots v d (chainOf G (dirHead v h)) := by
  rw [dirSlots_eq, if_neg hf]; unfold dirChain; rw [if_neg hf]

theorem dirSlots_sameGeom {v v' : FatVolume} (hs : SameGeom v v') (d : Disk) (G : List (List Nat)) (h : Nat) :
    dirSlots v' d G h = dirSlots v d G h := by
  have hft := hs.fatType
  have hfr : isFixedRoot v' h ↔ isFixedRoot v h := by unfold isFixedRoot; rw [hft]
  have hdh : dirHead v' h = dirHead v h := by
    obtain ⟨a, b, rfl⟩ := hs; rfl
  by_cases hf : isFixedRoot v h
  · rw [dirSlots_fixed hf, dirSlots_fixed (hfr.2 hf), fixedRootSlots_sameGeom hs]
  · rw [dirSlots_chain hf, dirSlots_chain (fun h' => hf (hfr.1 h')), hdh, chainSlots_sameGeom hs]

/-! ### `MedInv` with extra, not yet referenced chains

`MedX v d files gh X` is `MedInv` except that the medium carries the additional chains `X` which no
directory entry names yet (a cluster just allocated for a directory being made).  `MedInv` is `MedX`
with `X = []`. -/

structure MedX (v : FatVolume) (d : Disk) (files : List FileInfo) (gh : Ghost) (X : List (List Nat)) : Prop where
  blocksOK : BlocksOK d
  geom : WFGeom v
  hint : HintOK v
  owns : Owns v d (gh.G ++ X)
  tree : TreeOK v.fatType (clusterBytesLen v) (rootHead v) gh.G gh.dirs (dirSlots v d gh.G) files
  fileOK : ∀ f, f ∈ files → FileOK v d f (chainOf gh.G f.entry.cluster) ∧
    (chainOf gh.G f.entry.cluster = [] → f.curCluster < 2)

theorem medX_of_med {v : FatVolume} {d : Disk} {files : List FileInfo} {gh : Ghost} (h : MedInv v d files gh) :
    MedX v d files gh [] :=
  ⟨h.blocksOK, h.geom, h.hint, by rw [List.append_nil]; exact h.owns, h.tree, h.fileOK⟩

theorem med_of_medX {v : FatVolume} {d : Disk} {files : List FileInfo} {gh : Ghost} (h : MedX v d files gh []) :
    MedInv v d files gh :=
  ⟨h.blocksOK, h.geom, h.hint, by have := h.owns; rwa [List.append_nil] at this, h.tree, h.fileOK⟩

/-! ### What `MedX` says about chains -/

section
variable {v : FatVolume} {d : Disk} {files : List FileInfo} {gh : Ghost} {X : List (List Nat)}

theorem heads_left {G X : List (List Nat)} (h : HeadsOK (G ++ X)) : HeadsOK G :=
  ⟨fun cs hcs => h.ne cs (List.mem_append_left _ hcs), fun cs hcs => h.ge cs (List.mem_append_left _ hcs), by
    have := h.nodup
    unfold heads at this
    rw [List.map_append, List.nodup_append] at this
    exact this.1⟩

theorem med_headsAll (hM : MedX v d files gh X) : HeadsOK (gh.G ++ X) := heads_of_owns hM.owns

theorem med_heads (hM : MedX v d files gh X) : HeadsOK gh.G := heads_left (med_headsAll hM)

theorem med_chain (hM : MedX v d files gh X) {cs : List Nat} (hcs : cs ∈ gh.G) : Chain v d (cs.headD 0) cs :=
  hM.owns.1 cs (List.mem_append_left _ hcs)

theorem med_inRange (hM : MedX v d files gh X) {cs : List Nat} (hcs : cs ∈ gh.G) {c : Nat} (hc : c ∈ cs) : InRange v c :=
  ChainL.chain_inRange (med_chain hM hcs) c hc

theorem med_chain_nodup (hM : MedX v d files gh X) {cs : List Nat} (hcs : cs ∈ gh.G) : cs.Nodup :=
  ChainL.chain_nodup (med_chain hM hcs)

/-- Two chains of `G` with different first clusters share no cluster. -/
theorem med_disjoint (hM : MedX v d files gh X) {cs cs' : List Nat} (hcs : cs ∈ gh.G ++ X) (hcs' : cs' ∈ gh.G ++ X)
    (hne : cs.headD 0 ≠ cs'.headD 0) : ∀ c, c ∈ cs → c ∉ cs' := by
  have hp := (List.perm_cons_erase hcs).flatten
  have hnd := (hp.nodup_iff).1 hM.owns.2.1
  rw [List.flatten_cons, List.nodup_append] at hnd
  have hm : cs' ∈ (gh.G ++ X).erase cs := (List.mem_erase_of_ne (fun e => hne (by rw [e]))).2 hcs'
  intro c hc hc'
  exact hnd.2.2 c hc c (List.mem_flatten_of_mem hm hc') rfl

/-- The directory numbers other than the FAT16 root name chains of `G`. -/
theorem dirHead_mem (hM : MedX v d files gh X) {h : Nat} (hh : h ∈ dirIds gh.dirs) (hf : ¬ isFixedRoot v h) :
    dirHead v h ∈ heads gh.G := by
  unfold dirHead
  by_cases h0 : h = 0
  · rw [if_pos h0]
    have h32 : v.fatType = .fat32 := by
      cases hft : v.fatType with
      | fat16 => exact absurd ⟨h0, hft⟩ hf
      | fat32 => rfl
    apply root_mem_heads hM.tree
    unfold rootHead; rw [h32]; exact List.mem_singleton.2 rfl
  · rw [if_neg h0]
    rcases mem_dirIds.1 hh with h0' | ⟨p, hp⟩
    · exact absurd h0' h0
    · exact dir_mem_heads hM.tree hp

theorem dirChain_spec (hM : MedX v d files gh X) {h : Nat} (hh : h ∈ dirIds gh.dirs) (hf : ¬ isFixedRoot v h) :
    chainOf gh.G (dirHead v h) ∈ gh.G ∧ (chainOf gh.G (dirHead v h)).head? = some (dirHead v h) :=
  chainOf_spec (med_heads hM) (dirHead_mem hM hh hf)

/-- Different directory numbers have different first clusters. -/
theorem dirHead_inj (hM : MedX v d files gh X) {h h' : Nat} (hh : h ∈ dirIds gh.dirs) (hh' : h' ∈ dirIds gh.dirs)
    (hf : ¬ isFixedRoot v h) (hf' : ¬ isFixedRoot v h') (hne : h ≠ h') : dirHead v h ≠ dirHead v h' := by
  have hG := med_heads hM
  unfold dirHead
  by_cases h0 : h = 0
  · by_cases h0' : h' = 0
    · exact absurd (h0.trans h0'.symm) hne
    · rw [if_pos h0, if_neg h0']
      have h32 : v.fatType = .fat32 := by
        cases hft : v.fatType with
        | fat16 => exact absurd ⟨h0, hft⟩ hf
        | fat32 => rfl
      rcases mem_dirIds.1 hh' with e | ⟨p, hp⟩
      · exact absurd e h0'
      · intro e
        refine root_not_dir hM.tree hG (c := v.firstRootDirCluster) ?_ (e ▸ List.mem_map.2 ⟨(h', p), hp, rfl⟩)
        unfold rootHead; rw [h32]; exact List.mem_singleton.2 rfl
  · by_cases h0' : h' = 0
    · rw [if_neg h0, if_pos h0']
      have h32 : v.fatType = .fat32 := by
        cases hft : v.fatType with
        | fat16 => exact absurd ⟨h0', hft⟩ hf'
        | fat32 => rfl
      rcases mem_dirIds.1 hh with e | ⟨p, hp⟩
      · exact absurd e h0
      · intro e
        refine root_not_dir hM.tree hG (c := v.firstRootDirCluster) ?_ (e ▸ List.mem_map.2 ⟨(h, p), hp, rfl⟩)
        unfold rootHead; rw [h32]; exact List.mem_singleton.2 rfl
    · rw [if_neg h0, if_neg h0']; exact hne

/-! ### Positions -/

/-- The positions of the slots of one directory are distinct. -/
theorem dirSlots_pos_nodup (hM : MedX v d files gh X) {h : Nat} (hh : h ∈ dirIds gh.dirs) (d' : Disk) :
    ((dirSlots v d' gh.G h).map spos).Nodup := by
  by_cases hf : isFixedRoot v h
  · rw [dirSlots_fixed hf]; exact runSlots_pos_nodup _ _ _
  · rw [dirSlots_chain hf]
    obtain ⟨hm, _⟩ := dirChain_spec hM hh hf
    exact chainSlots_pos_nodup hM.geom (med_chain_nodup hM hm) (fun c hc => med_inRange hM hm hc)

/-- Slots of different directories sit at different positions (even on different media). -/
theorem dirSlots_pos_disjoint (hM : MedX v d files gh X) {h h' : Nat} (hh : h ∈ dirIds gh.dirs)
    (hh' : h' ∈ dirIds gh.dirs) (hne : h ≠ h') (d1 d2 : Disk) {s t : Slot} (hs : s ∈ dirSlots v d1 gh.G h)
    (ht : t ∈ dirSlots v d2 gh.G h') : spos s ≠ spos t := by
  by_cases hf : isFixedRoot v h
  · have hf' : ¬ isFixedRoot v h' := fun hf' => hne (hf.1.trans hf'.1.symm)
    rw [dirSlots_fixed hf] at hs
    rw [dirSlots_chain hf'] at ht
    obtain ⟨hm, _⟩ := dirChain_spec hM hh' hf'
    exact fixedRoot_chain_pos_disjoint hM.geom hf.2 (fun c hc => med_inRange hM hm hc) hs ht
  · by_cases hf' : isFixedRoot v h'
    · rw [dirSlots_chain hf] at hs
      rw [dirSlots_fixed hf'] at ht
      obtain ⟨hm, _⟩ := dirChain_spec hM hh hf
      exact (fixedRoot_chain_pos_disjoint hM.geom hf'.2 (fun c hc => med_inRange hM hm hc) ht hs).symm
    · rw [dirSlots_chain hf] at hs
      rw [dirSlots_chain hf'] at ht
      obtain ⟨hm, hhd⟩ := dirChain_spec hM hh hf
      obtain ⟨hm', hhd'⟩ := dirChain_spec hM hh' hf'
      refine chainSlots_pos_disjoint hM.geom (fun c hc => med_inRange hM hm hc) (fun c hc => med_inRange hM hm' hc)
        (med_disjoint hM (List.mem_append_left _ hm) (List.mem_append_left _ hm') ?_) hs ht
      rw [headD_of_head? hhd, headD_of_head? hhd']
      exact dirHead_inj hM hh hh' hf hf' hne

theorem objects_sublist (h : Nat) (ss : List Slot) : (objects h ss).Sublist ss := by
  have he : (entries ss).Sublist ss := by
    unfold entries live beforeEnd
    exact (List.filter_sublist.trans List.filter_sublist).trans (List.takeWhile_sublist _)
  unfold objects
  split
  · exact he
  · exact (List.drop_sublist 2 _).trans he

theorem mem_of_mem_objects {h : Nat} {ss : List Slot} {o : Slot} (ho : o ∈ objects h ss) : o ∈ ss :=
  (objects_sublist h ss).subset ho

/-- No two objects of the volume sit at the same position. -/
theorem objPos_nodup (hM : MedX v d files gh X) : (objPos gh.dirs (dirSlots v d gh.G)).Nodup := by
  have hids := dirIds_nodup hM.tree (med_heads hM)
  rw [List.nodup_flatMap]
  constructor
  · intro h hh
    exact List.Nodup.sublist ((objects_sublist h _).map spos) (dirSlots_pos_nodup hM hh d)
  · apply hids.pairwise_of_forall_ne
    intro a ha b hb hab k hk1 hk2
    obtain ⟨s, hs, rfl⟩ := List.mem_map.1 hk1
    obtain ⟨t, ht, hte⟩ := List.mem_map.1 hk2
    exact dirSlots_pos_disjoint hM ha hb hab d d (mem_of_mem_objects hs) (mem_of_mem_objects ht) hte.symm

/-! ### Congruence -/

/-- A directory's slots only depend on the blocks its slots live in. -/
theorem dirSlots_congr {G : List (List Nat)} {h : Nat} {d' : Disk}
    (hsame : ∀ s, s ∈ dirSlots v d G h → d'.get s.1 = d.get s.1) : dirSlots v d' G h = dirSlots v d G h := by
  by_cases hf : isFixedRoot v h
  · rw [dirSlots_fixed hf] at hsame ⊢
    rw [dirSlots_fixed hf]
    apply runSlots_congr
    intro j hj
    have hpos : 0 < 16 := by decide
    have : ((v.lbaStart + v.firstRootDirBlock + j, 32 * 0,
        ((d.get (v.lbaStart + v.firstRootDirBlock + j)).drop (32 * 0)).take 32) : Slot) ∈ fixedRootSlots v d :=
      mem_runSlots.2 ⟨j, 0, hj, hpos, rfl⟩
    exact hsame _ this
  · rw [dirSlots_chain hf] at hsame ⊢
    rw [dirSlots_chain hf]
    apply chainSlots_congr
    intro c hc j hj
    have hpos : 0 < 16 := by decide
    have : ((clusterToBlock v c + j, 32 * 0, ((d.get (clusterToBlock v c + j)).drop (32 * 0)).take 32) : Slot) ∈
        chainSlots v d (chainOf G (dirHead v h)) :=
      mem_chainSlots.2 ⟨c, hc, mem_runSlots.2 ⟨j, 0, hj, hpos, rfl⟩⟩
    exact hsame _ this

/-- The block of a directory slot is not a FAT block. -/
theorem dirSlot_not_fat (hM : MedX v d files gh X) {h : Nat} (hh : h ∈ dirIds gh.dirs) {d' : Disk} {s : Slot}
    (hs : s ∈ dirSlots v d' gh.G h) : regionOf v s.1 = .data ∨ regionOf v s.1 = .root := by
  by_cases hf : isFixedRoot v h
  · rw [dirSlots_fixed hf] at hs
    exact .inr (fixedRootSlots_region hM.geom hf.2 hs)
  · rw [dirSlots_chain hf] at hs
    obtain ⟨hm, _⟩ := dirChain_spec hM hh hf
    exact .inl (chainSlots_region hM.geom (fun c hc => med_inRange hM hm hc) hs)

theorem fileOK_congr {v v' : FatVolume} {d d' : Disk} {f : FileInfo} {cs : List Nat} (hs : SameGeom v v')
    (hok : FileOK v d f cs) (hch : cs ≠ [] → Chain v' d' f.entry.cluster cs) : FileOK v' d' f cs := by
  refine ⟨?_, ?_, hok.pos_le, ?_⟩
  · rcases hok.chain with h | h
    · exact .inl h
    · exact .inr (hch (ChainL.chain_ne_nil h))
  · rw [WriteRefines.sameGeom_clusterBytesLen hs]; exact hok.size_fits
  · rw [WriteRefines.sameGeom_clusterBytesLen hs]; exact hok.cursor

/-- **`MedInv` depends on the medium only through the FAT and the slot lists of the directories**, and
on the volume record only through its geometry. -/
theorem med_congr {v' : FatVolume} {d' : Disk} (hM : MedX v d files gh X) (hs : SameGeom v v') (hh : HintOK v')
    (hb : BlocksOK d') (hfat : ∀ c, c < endCluster v → d'.get (fatBlock v c) = d.get (fatBlock v c))
    (hslots : ∀ h, h ∈ dirIds gh.dirs → dirSlots v d' gh.G h = dirSlots v d gh.G h) :
    MedX v' d' files gh X := by
  have hown : Owns v' d' (gh.G ++ X) := WriteRefines.owns_sameGeom hs (WriteRefines.owns_of_fat_eq hfat hM.owns)
  refine ⟨hb, hs.wfGeom hM.geom, hh, hown, ?_, ?_⟩
  · rw [hs.fatType, WriteRefines.sameGeom_clusterBytesLen hs]
    have hr : rootHead v' = rootHead v := by
      obtain ⟨a, b, rfl⟩ := hs; rfl
    rw [hr]
    apply tree_same_entries hM.tree (med_heads hM)
    · intro x hx; rw [dirSlots_sameGeom hs, hslots x hx]
    · intro x hx; rw [dirSlots_sameGeom hs, hslots x hx]; exact hM.tree.cleanTail x hx
    · intro x p hxp
      have hx : x ∈ dirIds gh.dirs := mem_dirIds.2 (.inr ⟨p, hxp⟩)
      rw [dirSlots_sameGeom hs, hslots x hx]; exact hM.tree.dots x p hxp
    · intro a; rfl
    · intro c _ _ _; exact Nat.le_refl _
  · intro f hf
    obtain ⟨hok, hcur⟩ := hM.fileOK f hf
    refine ⟨fileOK_congr hs hok ?_, hcur⟩
    intro hne
    have hm : chainOf gh.G f.entry.cluster ∈ gh.G ∧ _ :=
      chainOf_spec (med_heads hM) ((chainOf_ne_nil_iff (med_heads hM)).1 hne)
    have := hown.1 _ (List.mem_append_left _ hm.1)
    rwa [headD_of_head? hm.2] at this

end

end Sdmmc.Lemmas.VolMed
