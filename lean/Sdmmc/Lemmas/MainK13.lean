/-
Bridging lemmas for `Props/C13Main.lean`: the traffic bound of a whole session, a failed
`acquire` seen from the public call, what a successful single-block `read` went through, and
recovery after `mark_card_uninit` on the conforming card.
-/
import Sdmmc.Lemmas.SdSessBase
import Sdmmc.Props.C13
import Sdmmc.Props.C12EndToEnd

namespace Sdmmc.Lemmas.MainK13
open Sdmmc.Model Sdmmc.Model.Sd Sdmmc.Gen Sdmmc.Spec.SdSession Sdmmc.Lemmas.Sd
open Sdmmc.Spec.Card (Card Kind getBlock)
open Sdmmc.Props.C12 (cardBus)
open Sdmmc.Props.C12EndToEnd (Quiescent Settled Addressable typeOfKind)

variable {σ : Type} (B : BusOps σ)

/-- The sum of the per-call bounds of a session. -/
def sessionBound (cs : List Call) (retries : Nat) : Nat := (cs.map fun c => Props.C13.callBound c retries).sum
def sessionDelayBound (cs : List Call) (retries : Nat) : Nat :=
  (cs.map fun c => Props.C13.callDelayBound c retries).sum

theorem session_traffic_bound (cs : List Call) (s : St σ) :
    Props.C13.traffic (runCalls B cs s) ≤ Props.C13.traffic s + sessionBound cs s.acquireRetries ∧
    (runCalls B cs s).delays ≤ s.delays + sessionDelayBound cs s.acquireRetries := by
  induction cs generalizing s with
  | nil => simp [runCalls, sessionBound, sessionDelayBound]
  | cons c cs ih =>
    obtain ⟨h1, h2⟩ := Props.C13.call_traffic_bound B c s
    obtain ⟨g1, g2⟩ := ih (call B c s).2
    rw [(call_events_extend B c s).2.2] at g1 g2
    simp only [runCalls, sessionBound, sessionDelayBound, List.map_cons, List.sum_cons] at *
    omega

/-- A call whose `acquire` failed leaves the card marked uninitialised and fails itself
(`get_card_type`, which has no error channel, answers "none"). -/
theorem call_failed_init (c : Call) (s : St σ) (hs : s.cardType = none) (hc : c ≠ .markUninit)
    (e : SdErr) (he : (acquire B s).1 = .err e) :
    (call B c s).2.cardType = none ∧ (call B c s).2 = (acquire B s).2 := by
  have hci := checkInit_of_none B s hs
  have hm : isMarkUninit c = false := by cases c <;> first | rfl | exact absurd rfl hc
  rcases hacq : acquire B s with ⟨r, s1⟩
  rw [hacq] at he
  simp only at he
  subst he
  have := call_of_checkInit_err B c s s1 e (hci.trans hacq) hm
  rw [this]
  exact ⟨failed_init_leaves_uninit B s s1 e hacq, rfl⟩

/-- A single-block `read` that succeeds went through an accepted CMD17 and a successful
`read_data` of 512 bytes, which produced the block returned. -/
theorem read1_ok_inv (idx : Nat) (s s' : St σ) (bs : List Bytes) (h : Sd.read B 1 idx s = (.ok bs, s')) :
    ∃ start r1 s1 b, startIdx s.cardType idx = .ok start ∧ cardCommand B CMD17 start s = (.ok r1, s1) ∧
      readData B 512 s1 = (.ok b, s') ∧ bs = [b] := by
  unfold Sd.read at h
  rw [bind_ok (get_apply s)] at h
  cases hst : startIdx s.cardType idx with
  | ok start =>
    rw [bind_ok (show S.lift (startIdx s.cardType idx) s = (.ok start, s) by rw [hst]; rfl), if_pos rfl] at h
    rcases hc : cardCommand B CMD17 start s with ⟨r1, s1⟩
    cases r1 with
    | ok r1 =>
      rw [bind_ok hc] at h
      rcases hr : readData B 512 s1 with ⟨rb, s2⟩
      cases rb with
      | ok b =>
        rw [bind_ok hr] at h
        simp only [pure_apply, Prod.mk.injEq, SRes.ok.injEq] at h
        exact ⟨start, r1, s1, b, rfl, hc, by rw [← h.2, hr], h.1.symm⟩
      | err e => rw [bind_err hr] at h; cases h
      | panic p => rw [bind_panic hr] at h; cases h
    | err e => rw [bind_err hc] at h; cases h
    | panic p => rw [bind_panic hc] at h; cases h
  | err e =>
    rw [bind_err (show S.lift (startIdx s.cardType idx) s = (.err e, s) by rw [hst]; rfl)] at h; cases h
  | panic p =>
    rw [bind_panic (show S.lift (startIdx s.cardType idx) s = (.panic p, s) by rw [hst]; rfl)] at h; cases h

/-- Recovery on the conforming card: whatever the driver state, once the card is quiescent (it
responds again) and the driver has been marked uninitialised, the next `read` call identifies the
card (correct kind) and returns the block the card stores. -/
theorem reinit_and_read (s : St Card) (hq : Quiescent s.bus)
    (hncr : s.bus.ncr ≤ DEFAULT_COMMAND_RETRIES) (hpolls : s.bus.initPolls ≤ DEFAULT_COMMAND_RETRIES)
    (hnac : s.bus.nac ≤ DEFAULT_READ_RETRIES)
    (idx : Nat) (hidx : idx < s.bus.capacity)
    (hadr : (s.bus.kind = .SDHC ∧ idx < 4294967296) ∨ (s.bus.kind ≠ .SDHC ∧ idx < 8388608))
    (hlen : (getBlock s.bus idx).length = 512) :
    ∃ s', call cardBus (.read 1 idx) (call cardBus .markUninit s).2 = (.ok (.blocks [getBlock s.bus idx]), s') ∧
      s'.cardType = some (typeOfKind s.bus.kind) ∧ s'.bus.mem = s.bus.mem ∧
      s'.bus.violations = s.bus.violations := by
  let s0 : St Card := (call cardBus .markUninit s).2
  have hs0 : s0.cardType = none := rfl
  have hb0 : s0.bus = s.bus := rfl
  obtain ⟨s1, h0, hc1, hS1, hbl1, _, hk1, hcap1, _, hncr1, hnac1, _, hmem1, hv1, _, _⟩ :=
    Props.C12EndToEnd.acquire_correct s0 hq hncr hpolls
  have hadr1 : Addressable s1.cardType s1.bus.kind idx := by
    rw [hc1, hk1, hb0]
    rcases hadr with ⟨hk, h⟩ | ⟨hk, h⟩
    · rw [hk]; exact Or.inl ⟨rfl, rfl, h⟩
    · cases hkk : s.bus.kind
      · exact Or.inr ⟨Or.inl rfl, Or.inl rfl, h⟩
      · exact Or.inr ⟨Or.inr rfl, Or.inr rfl, h⟩
      · exact absurd hkk hk
  have hgb : getBlock s1.bus idx = getBlock s.bus idx := by
    unfold getBlock; rw [hmem1]; rfl
  obtain ⟨s2, hr, hm2, _, hv2, _, _, hct2, _⟩ :=
    Props.C12EndToEnd.read_single_correct s1 hS1 (by rw [hbl1]; exact Nat.zero_le _) (by rw [hncr1]; exact hncr)
      (by rw [hnac1]; exact hnac) idx hadr1 (by rw [hcap1]; exact hidx) (by rw [hgb]; exact hlen)
  have hci : checkInit cardBus s0 = (.ok (), s1) := (checkInit_of_none cardBus s0 hs0).trans h0
  refine ⟨s2, ?_, by rw [hct2, hc1]; rfl, by rw [hm2, hmem1]; rfl, by rw [hv2, hv1]; rfl⟩
  show (do checkInit cardBus; let bs ← Sd.read cardBus 1 idx; pure (Answer.blocks bs) : S Card Answer) s0 = _
  rw [bind_ok hci, bind_ok hr, hgb]; rfl

end Sdmmc.Lemmas.MainK13
