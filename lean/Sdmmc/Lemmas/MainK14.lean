/-
Bridging lemmas for `Props/C14Main.lean`: the data phase of a `write` CALL (with `check_init` in
front), from the data phase of the `write` function.
-/
import Sdmmc.Lemmas.SdSessFinal

namespace Sdmmc.Lemmas.Sd
open Sdmmc.Model Sdmmc.Model.Sd Sdmmc.Gen Sdmmc.Spec.SdSession

variable {σ : Type} {α β : Type} (B : BusOps σ)

theorem bind_pure_snd (m : S σ α) (g : α → β) (s : St σ) :
    ((m >>= fun a => (pure (g a) : S σ β)) s).2 = (m s).2 := by
  simp only [bind_apply]
  rcases m s with ⟨r, s'⟩
  cases r <;> rfl

theorem bind_pure_ok (m : S σ α) (g : α → β) (s : St σ) (b : β)
    (h : ((m >>= fun a => (pure (g a) : S σ β)) s).1 = .ok b) : ∃ a, (m s).1 = .ok a := by
  simp only [bind_apply] at h
  rcases hm : m s with ⟨r, s'⟩
  rw [hm] at h
  cases r with
  | ok a => exact ⟨a, rfl⟩
  | err e => cases h
  | panic p => cases h

/-- The events of a `write` call split into the events of `acquire` (identification commands
only; none when a card type is recorded) and the events of `write` proper, whose data phase is
framed as `WriteFraming` says. -/
theorem call_write_framing (blocks : List Bytes) (idx : Nat) (s : St σ) :
    ∃ pfx eo r, evsNew s (call B (.write blocks idx) s).2 = pfx ++ eo ∧ IdentOnly pfx ∧
      WriteFraming s.useCrc blocks r (dataEvs eo) ∧
      ((∃ a, (call B (.write blocks idx) s).1 = .ok a) → ∃ u, r = .ok u) := by
  have hop : ∀ s1 : St σ, opOf B (.write blocks idx) s1 =
      ((write B blocks idx >>= fun _ => (pure Answer.unit : S σ Answer)) s1) := fun _ => rfl
  cases hct : s.cardType with
  | some ct =>
    have hci := checkInit_of_some B s (by simp [hct])
    have hcall := call_of_checkInit_ok B (.write blocks idx) s s hci rfl
    obtain ⟨eo, g1, _, _, g4⟩ := write_dataSeq B s.useCrc blocks idx s rfl
    refine ⟨[], eo, (write B blocks idx s).1, ?_, Local.nil, g4, fun ⟨a, ha⟩ => ?_⟩
    · rw [hcall, hop, bind_pure_snd]
      exact evsNew_of_eq (by simpa using g1)
    · rw [hcall, hop] at ha
      obtain ⟨u, hu⟩ := bind_pure_ok _ _ _ _ ha
      exact ⟨u, hu⟩
  | none =>
    have hci := checkInit_of_none B s hct
    obtain ⟨ea, h1, h2, _, h4⟩ := acquire_identOnly B s
    rcases hacq : acquire B s with ⟨r, s1⟩
    rw [hacq] at h1 h2
    simp only at h1 h2
    cases r with
    | ok u =>
      have hcall := call_of_checkInit_ok B (.write blocks idx) s s1 (hci.trans hacq) rfl
      obtain ⟨eo, g1, _, _, g4⟩ := write_dataSeq B s.useCrc blocks idx s1 h2
      refine ⟨ea, eo, (write B blocks idx s1).1, ?_, h4, g4, fun ⟨a, ha⟩ => ?_⟩
      · rw [hcall, hop, bind_pure_snd]
        exact evsNew_of_eq (by rw [g1, h1]; simp)
      · rw [hcall, hop] at ha
        obtain ⟨u, hu⟩ := bind_pure_ok _ _ _ _ ha
        exact ⟨u, hu⟩
    | err e =>
      have hcall : call B (.write blocks idx) s = (.err e, s1) := by
        simp only [call]; rw [bind_err (hci.trans hacq)]
      refine ⟨ea, [], .err e, ?_, h4, ⟨Or.inl List.nil_prefix, fun ⟨_, h⟩ => by cases h⟩, fun ⟨a, ha⟩ => ?_⟩
      · rw [hcall]; exact evsNew_of_eq (by simpa using h1)
      · rw [hcall] at ha; cases ha
    | panic p =>
      have := acquire_nopanic B s p
      rw [hacq] at this
      exact absurd rfl this

end Sdmmc.Lemmas.Sd
