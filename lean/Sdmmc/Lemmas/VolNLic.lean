/-
Several open volumes: the LICENCES of C04 (`Lemmas.WriteSetInv`: `LicenceFor`, `AllLicensed`) for one call of a
multi-volume manager (`Props/C04Multi.lean`).

* `licensed_of_target` — a call addressed to volume record `i` is licensed by a licence described from the ghost of
  volume `i`, the open files / directories OF THAT VOLUME and the medium before the call (through the simulation lemma
  `step_sim` and the one-volume theorem `WriteSetInv.step_callOK` on the projection; `label`, for which the simulation
  needs a hypothesis, is read-only and is treated by `Fault.step_readonly_nowrite`);
* `untargeted_nowrite` — a call that works on no volume record and is not `close_volume` writes nothing;
* `closeVolume_step` — `close_volume v` writes nothing, or exactly one block: the FAT32 info sector of the record
  carrying the handle `v`, bytes 488 … 495 patched (`InfoWrite`); `closeVolume_licensed` — the licence form;
* `mrun_getElem` — the `k`-th output of a history is the output of the `k`-th call in the state the first `k` calls
  leave.
-/
import Sdmmc.Lemmas.VolNStep
import Sdmmc.Lemmas.VolNTab
import Sdmmc.Lemmas.VolNVol
import Sdmmc.Lemmas.VolNFrame
import Sdmmc.Lemmas.VolNInv
import Sdmmc.Lemmas.WriteSetInvWf
import Sdmmc.Lemmas.NameE5

namespace Sdmmc.Lemmas.VolN
open Sdmmc.Model Sdmmc.Model.Fat Sdmmc.Spec.Volume
open Sdmmc.Spec hiding NoFault Coherent run step
open Sdmmc.Lemmas.MHoare Sdmmc.Lemmas.VolMed
open Sdmmc.Lemmas.WriteSetInv (LicenceFor NameCovered)
open Sdmmc.Lemmas.WriteSet (infoLicence)

/-! ### A call addressed to a volume record -/

/-- No name is excluded (`Lemmas.NameE5`): the short form `create_from_str` answers never starts with 0xE5. -/
theorem nameCovered_all (op : Op) : NameCovered op := by
  cases op <;> first | exact trivial | exact fun _ h => NameE5.createFromStr_first_byte h

/-- **The licence of a call addressed to volume record `i`.** -/
theorem licensed_of_target {s : Mgr} {ghs : List Ghost} (hI : VolInvN s ghs) (hm : MirrorN s ghs) (op : Op) {i : Nat}
    {vi : VolInfo} {gh : Ghost} (ht : target s op = some i) (hvi : s.vols[i]? = some vi) (hgh : ghs[i]? = some gh) :
    ∃ L, LicenceFor gh (volFiles s vi.rawVolume) (volDirs s vi.rawVolume) s.dev.disk op L ∧
      AllLicensed gh.vol s.dev.disk L (step s op).2.writes ∧
      ∀ b, (step s op).1.dev.disk.get b = (s.dev.disk.applyWrites (step s op).2.writes).get b := by
  by_cases hro : Fault.readOnlyOp op = true
  · obtain ⟨hd, hw⟩ := Fault.step_readonly_nowrite s op hro
    exact ⟨Licence.none, .nothing op, by rw [hw]; trivial, fun b => by rw [hw, hd]; rfl⟩
  · have hf : LabelFresh s op := by cases op <;> trivial
    have hsim := step_sim hI.unlocked (findIdx?_of_nodup hI.handles hvi) op ht hf
    have hP : VolInv (projH vi.rawVolume i s) gh := volInv_proj hI hvi hgh
    have hPm : Mirror gh.vol (projH vi.rawVolume i s).dev.disk := hm gh (List.mem_of_getElem? hgh)
    obtain ⟨L, h⟩ := WriteSetInv.step_callOK hP hPm op (nameCovered_all op)
    refine ⟨L, h.lic, ?_, fun b => ?_⟩
    · rw [← hsim.out]; exact h.all
    · rw [← hsim.rel.dev, ← hsim.out]; exact h.disk b

/-! ### The calls that work on no volume record -/

/-- A call that works on no volume record and is not `close_volume` writes nothing and leaves the medium alone. -/
theorem untargeted_nowrite {s : Mgr} {ghs : List Ghost} (hI : VolInvN s ghs) (op : Op) (ht : target s op = none)
    (hncl : ∀ v, op ≠ .closeVolume v) : (step s op).2.writes = [] ∧ (step s op).1.dev.disk = s.dev.disk := by
  by_cases hro : Fault.readOnlyOp op = true
  · exact ⟨(Fault.step_readonly_nowrite s op hro).2, (Fault.step_readonly_nowrite s op hro).1⟩
  · have hst : (runOp op (resetLogs s)).2 = resetLogs s :=
      untargeted_state (volInvN_resetLogs hI) op (by exact ht) (fun _ e => hro (by rw [e]; rfl)) hncl
        (fun _ e => hro (by rw [e]; rfl)) (fun _ e => hro (by rw [e]; rfl)) (fun e => hro (by rw [e]; rfl))
    rw [step_unlocked s op hI.unlocked]
    simp only
    rw [hst]
    exact ⟨rfl, rfl⟩

/-! ### `close_volume` -/

/-- `close_volume v` on the level of the API function: the write log and the medium are untouched, or the log grows by
one write — the info sector of the FAT32 volume record carrying the handle `v`, with bytes 488 … 495 patched. -/
theorem closeVolume_wlog {s : Mgr} {ghs : List Ghost} (hI : VolInvN s ghs) (v : Nat) :
    ((closeVolume v s).2.dev.wlog = s.dev.wlog ∧ (closeVolume v s).2.dev.disk = s.dev.disk) ∨
    ∃ (k : Nat) (vi : VolInfo) (blk : Block), s.vols.findIdx? (·.rawVolume = v) = some k ∧ s.vols[k]? = some vi ∧
      vi.vol.fatType = .fat32 ∧ (closeVolume v s).2.dev.wlog = (vi.vol.infoLocation, blk) :: s.dev.wlog ∧
      (closeVolume v s).2.dev.disk = s.dev.disk.set vi.vol.infoLocation blk ∧
      InfoWrite vi.vol s.dev.disk (infoLicence vi.vol) (vi.vol.infoLocation, blk) ∧
      regionOf vi.vol vi.vol.infoLocation = .info := by
  unfold closeVolume
  rw [get_bind]
  by_cases hfa : (s.files.any (·.rawVolume = v)) = true
  · rw [if_pos hfa]; exact .inl ⟨rfl, rfl⟩
  rw [if_neg hfa]
  by_cases hda : (s.dirs.any (·.rawVolume = v)) = true
  · rw [if_pos hda]; exact .inl ⟨rfl, rfl⟩
  rw [if_neg hda]
  cases hv : s.vols.findIdx? (·.rawVolume = v) with
  | none => rw [bind_err (getVolumeById_bad hv)]; exact .inl ⟨rfl, rfl⟩
  | some k =>
    obtain ⟨vi, hvi, _⟩ := findIdx?_some_get hv
    rw [bind_ok (getVolumeById_ok hv)]
    have hklt : k < s.vols.length := (List.getElem?_eq_some_iff.1 hvi).1
    obtain ⟨gh, hgh⟩ : ∃ gh, ghs[k]? = some gh := ⟨_, List.getElem?_eq_getElem (by rw [hI.len]; exact hklt)⟩
    have hmed := hI.med k vi gh hvi hgh
    have hvol := hI.vols k vi gh hvi hgh
    have hg : WFGeom vi.vol := by rw [hvol]; exact hmed.geom
    have hw := DirMgr.withVol_eq k updateInfoSector s vi hvi
    by_cases h : vi.vol.fatType = .fat16 ∨ (vi.vol.freeClustersCount = none ∧ vi.vol.nextFreeCluster = none)
    · rw [FatOps.updateInfoSector_idle { dev := s.dev, cache := s.cache, vol := vi.vol } h] at hw
      rw [bind_ok hw, modify_run]
      exact .inl ⟨rfl, rfl⟩
    · have hft : vi.vol.fatType = .fat32 := by
        cases hf : vi.vol.fatType with
        | fat16 => exact absurd (.inl hf) h
        | fat32 => rfl
      obtain ⟨s1, h1, _, _, _, hd1, hw1⟩ :=
        DirEntryIO.updateInfoSector_state32 { dev := s.dev, cache := s.cache, vol := vi.vol } hI.noFault hI.coherent hft
          (fun h' => h (.inr h'))
      obtain ⟨a, b, _, _⟩ := FatOps.infoPatch_facts vi.vol (s.dev.disk.get vi.vol.infoLocation) (hmed.blocksOK _)
      rw [h1] at hw
      rw [bind_ok hw, modify_run]
      exact .inr ⟨k, vi, _, rfl, hvi, hft, hw1, hd1,
        ⟨by show decide (vi.vol.fatType = .fat32) = true; rw [hft]; rfl, hft, rfl, a, b⟩,
        FatLens.info_block_in_info_region vi.vol hg hft (Reopen.fatStart_le_numBlocks vi.vol hg)⟩

/-- **`close_volume` through `step`**: it writes nothing and leaves the medium alone, or it writes exactly one block —
the info sector of the FAT32 volume record carrying the handle, bytes 488 … 495 patched. -/
theorem closeVolume_step {s : Mgr} {ghs : List Ghost} (hI : VolInvN s ghs) (v : Nat) :
    ((step s (.closeVolume v)).2.writes = [] ∧ (step s (.closeVolume v)).1.dev.disk = s.dev.disk) ∨
    ∃ (k : Nat) (vi : VolInfo) (blk : Block), s.vols.findIdx? (·.rawVolume = v) = some k ∧ s.vols[k]? = some vi ∧
      vi.vol.fatType = .fat32 ∧ (step s (.closeVolume v)).2.writes = [(vi.vol.infoLocation, blk)] ∧
      (step s (.closeVolume v)).1.dev.disk = s.dev.disk.set vi.vol.infoLocation blk ∧
      InfoWrite vi.vol s.dev.disk (infoLicence vi.vol) (vi.vol.infoLocation, blk) ∧
      regionOf vi.vol vi.vol.infoLocation = .info := by
  rw [step_unlocked s _ hI.unlocked]
  simp only
  rw [WriteSet.runOp_closeVolume]
  rcases closeVolume_wlog (volInvN_resetLogs hI) v with ⟨h1, h2⟩ | ⟨k, vi, blk, h1, h2, h3, h4, h5, h6, h7⟩
  · left
    rw [h1, h2]
    exact ⟨rfl, rfl⟩
  · right
    refine ⟨k, vi, blk, h1, h2, h3, ?_, h5, h6, h7⟩
    rw [h4]
    rfl

/-- **The licence of `close_volume`**, for the record `i` carrying the handle: `infoLicence` — on FAT32 the two
counters of the info sector of THAT volume. -/
theorem closeVolume_licensed {s : Mgr} {ghs : List Ghost} (hI : VolInvN s ghs) (v : Nat) {i : Nat} {vi : VolInfo} {gh : Ghost}
    (hv : s.vols.findIdx? (·.rawVolume = v) = some i) (hvi : s.vols[i]? = some vi) (hgh : ghs[i]? = some gh) :
    AllLicensed gh.vol s.dev.disk (infoLicence gh.vol) (step s (.closeVolume v)).2.writes ∧
    (∀ b, (step s (.closeVolume v)).1.dev.disk.get b = (s.dev.disk.applyWrites (step s (.closeVolume v)).2.writes).get b) ∧
    ∀ w, w ∈ (step s (.closeVolume v)).2.writes → gh.vol.fatType = .fat32 ∧ w.1 = gh.vol.infoLocation ∧ regionOf gh.vol w.1 = .info := by
  have hvol := hI.vols i vi gh hvi hgh
  rcases closeVolume_step hI v with ⟨h1, h2⟩ | ⟨k, vk, blk, h1, h2, h3, h4, h5, h6, h7⟩
  · rw [h1, h2]
    exact ⟨trivial, fun _ => rfl, fun _ h => nomatch h⟩
  · have hk : k = i := Option.some.inj (h1.symm.trans hv)
    subst hk
    have hvk : vk = vi := Option.some.inj (h2.symm.trans hvi)
    subst hvk
    rw [h4, h5, ← hvol]
    refine ⟨⟨.inr (.inr (.inr (.inl h6))), trivial⟩, fun _ => rfl, fun w hw => ?_⟩
    have hw' : w = (vk.vol.infoLocation, blk) := by simpa using hw
    rw [hw']
    exact ⟨h3, rfl, h7⟩

/-- `close_volume` with a handle no open volume carries writes nothing. -/
theorem closeVolume_bad_nowrite {s : Mgr} {ghs : List Ghost} (hI : VolInvN s ghs) (v : Nat)
    (hv : s.vols.findIdx? (·.rawVolume = v) = none) :
    (step s (.closeVolume v)).2.writes = [] ∧ (step s (.closeVolume v)).1.dev.disk = s.dev.disk := by
  rcases closeVolume_step hI v with h | ⟨k, _, _, h1, _⟩
  · exact h
  · rw [hv] at h1; cases h1

/-! ### Histories -/

theorem mrun_cons (s : Mgr) (op : Op) (ops : List Op) :
    run s (op :: ops) = ((run (step s op).1 ops).1, (step s op).2 :: (run (step s op).1 ops).2) := rfl

/-- The `k`-th output of a history is the output of its `k`-th call, issued in the state the first `k` calls leave. -/
theorem mrun_getElem : ∀ (ops : List Op) (s : Mgr) (k : Nat) (hk : k < ops.length),
    (run s ops).2[k]? = some (step (run s (ops.take k)).1 ops[k]).2
  | [], _, _, hk => nomatch hk
  | op :: ops, s, 0, _ => by rw [mrun_cons]; rfl
  | op :: ops, s, k + 1, hk => by
    rw [mrun_cons, List.take_succ_cons, mrun_cons]
    simp only [List.getElem?_cons_succ, List.getElem_cons_succ]
    exact mrun_getElem ops (step s op).1 k (Nat.lt_of_succ_lt_succ hk)

theorem mrun_length : ∀ (ops : List Op) (s : Mgr), (run s ops).2.length = ops.length
  | [], _ => rfl
  | op :: ops, s => by rw [mrun_cons]; simp only [List.length_cons]; rw [mrun_length ops]

end Sdmmc.Lemmas.VolN
