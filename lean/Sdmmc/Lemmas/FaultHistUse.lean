/-
C11 over histories, part 8 — AFTER THE FAULTS: handles stay usable, the medium mounts, a failed read-only call can be
retried.

* `closeFile_ok_or_fault`: `close_file` of an open file answers `Ok` unless a device call of it fails; the handle is gone
  in either case;
* `drain_exhausted`: once the schedule is exhausted, closing the files, the directories and the volume — in that order —
  answers `Ok` every time, empties the tables, keeps the invariant, and the medium still mounts;
* `retry_F`: a read-only call that failed, issued again once the schedule is exhausted, answers what the call answers
  without any fault from the state it was first issued in;
* `faultInv_of_volInvF`: the strong invariant implies the weak one (no lost chain).
-/
import Sdmmc.Lemmas.FaultHistLic
import Sdmmc.Spec.VolumeFault
import Sdmmc.Lemmas.Tables

namespace Sdmmc.Lemmas.FaultHist
open Sdmmc.Model Sdmmc.Model.Fat Sdmmc.Spec.Volume
open Sdmmc.Spec hiding NoFault Coherent
open Sdmmc.Lemmas.VolApi Sdmmc.Lemmas.MHoare Sdmmc.Lemmas.FaultInv Sdmmc.Lemmas.Retry
open Sdmmc.Lemmas.WriteSetInv Sdmmc.Lemmas.WriteSet

theorem clearFaults_eq (s : Mgr) : clearFaults s = mclr s := rfl

/-! ### Exhausted schedules -/

theorem failsOnlyIn_of_exhausted (P : Op → Bool) : ∀ (ops : List Op) (s : Mgr), Exhausted s.dev → FailsOnlyIn P s ops
  | [], _, _ => trivial
  | op :: ops, s, h => by
    obtain ⟨h1, h2, _, _⟩ := step_exhausted s op h
    exact ⟨fun hne => absurd h2 hne, failsOnlyIn_of_exhausted P ops _ h1⟩

theorem coveredRunF_of_all : ∀ (ops : List Op) (s : Mgr), (∀ op, op ∈ ops → ∀ t, FCovered t op) → CoveredRunF s ops
  | [], _, _ => trivial
  | op :: ops, s, h =>
    ⟨h op List.mem_cons_self s, coveredRunF_of_all ops _ fun op' ho => h op' (List.mem_cons_of_mem _ ho)⟩

/-! ### `close_file` under a pending schedule -/

/-- `close_file` of an open file, from the invariant up to the schedule, whatever is scheduled: it answers `Ok` unless a
device call of it fails (and then an error); in either case one handle has left the table, the directory handles are
untouched and the volume handles are the same. -/
theorem closeFile_ok_or_fault {s : Mgr} {gh : Ghost} (hI : VolInv (mclr s) gh) {file : Nat}
    (hf : file ∈ s.files.map (·.rawFile)) :
    ((step s (.closeFile file)).2.result = .ok .unit ∨
      ((step s (.closeFile file)).1.dev.failed ≠ s.dev.failed ∧ ∃ e, (step s (.closeFile file)).2.result = .err e)) ∧
    (step s (.closeFile file)).1.files.length + 1 = s.files.length ∧
    (step s (.closeFile file)).1.dirs = s.dirs ∧
    (step s (.closeFile file)).1.vols.map (·.rawVolume) = s.vols.map (·.rawVolume) := by
  have hl : s.locked = false := hI.unlocked
  refine ⟨?_, ?_⟩
  · by_cases hq : (step s (.closeFile file)).1.dev.failed = s.dev.failed
    · left
      obtain ⟨e1, _⟩ := FaultHist.step_erase s (.closeFile file) hq
      rw [← e1]
      obtain ⟨i, x, hi, hx, hk⟩ := findIdx?_some_of_mem (mclr s).files (·.rawFile) file hf
      exact (step_closeFile_ok hI hi).1
    · exact .inr ⟨hq, Fault.step_reported s _ hq⟩
  · obtain ⟨i, x, hx, hk, hc⟩ := Tables.closeFile_open (s := resetLogs s) hf
    have hfr := Tables.resp_flushFile file (resetLogs s)
    have hr : (runOp (.closeFile file) (resetLogs s)).2 =
        { (flushFile file (resetLogs s)).2 with files := swapRemove (flushFile file (resetLogs s)).2.files i } := by
      show ((closeFile file >>= fun _ => pure Payload.unit) (resetLogs s)).2 = _
      rw [bind_def, hc]
      cases (flushFile file (resetLogs s)).1 <;> rfl
    rw [MHoare.step_unlocked s _ hl]
    show (runOp (.closeFile file) (resetLogs s)).2.files.length + 1 = _ ∧
      (runOp _ (resetLogs s)).2.dirs = _ ∧ (runOp _ (resetLogs s)).2.vols.map _ = _
    rw [hr]
    have hi : i < (flushFile file (resetLogs s)).2.files.length := by
      rcases Nat.lt_or_ge i (flushFile file (resetLogs s)).2.files.length with h | h
      · exact h
      · have : (flushFile file (resetLogs s)).2.files[i]? = none := by simp [h]
        rw [this] at hx; cases hx
    refine ⟨?_, hfr.dirs, hfr.volHandles⟩
    show (swapRemove _ i).length + 1 = _
    rw [Tables.swapRemove_length _ i hi, hfr.files_length]
    have : 0 < (resetLogs s).files.length := by rw [← hfr.files_length]; omega
    show (resetLogs s).files.length - 1 + 1 = (resetLogs s).files.length
    omega

/-! ### Closing everything once the schedule is exhausted -/

def isCloseOp : Op → Bool
  | .closeFile _ | .closeDir _ | .closeVolume _ => true
  | _ => false

theorem fcovered_close {op : Op} (h : isCloseOp op = true) (t : Mgr) : FCovered t op := by
  cases op <;> trivial

/-- **Closing everything** from the invariant up to an EXHAUSTED schedule: the files, then the directories, then the
volume.  Every call answers `Ok`; afterwards all three tables are empty and `has_open_handles` is `false`; the invariant
(up to the schedule) holds at the end, no device call failed; and if the medium mounted before, it mounts afterwards. -/
theorem drain_exhausted {s : Mgr} {gh : Ghost} (hI : VolInv (mclr s) gh) (hm : Mirror gh.vol s.dev.disk)
    (hx : Exhausted s.dev) :
    ∃ (fs ds vs : List Nat), fs.Perm (s.files.map (·.rawFile)) ∧ ds.Perm (s.dirs.map (·.rawDirectory)) ∧
      vs = s.vols.map (·.rawVolume) ∧
      let ops := fs.map Op.closeFile ++ ds.map Op.closeDir ++ vs.map Op.closeVolume
      (∀ o, o ∈ (run s ops).2 → o.result = .ok .unit) ∧
      (run s ops).1.files = [] ∧ (run s ops).1.dirs = [] ∧ (run s ops).1.vols = [] ∧
      hasOpenHandles (run s ops).1 = false ∧
      (run s ops).1.dev.failed = s.dev.failed ∧
      (∃ gh', VolInv (mclr (run s ops).1) gh' ∧ SameGeom gh.vol gh'.vol) ∧
      ∀ (idx : Nat) (vm : FatVolume), mountPure (s.dev.disk.get 0) idx s.dev.disk.get = .ok vm → SameGeom vm gh.vol →
        ∃ w, mountPure ((run s ops).1.dev.disk.get 0) idx (run s ops).1.dev.disk.get = .ok w ∧ SameGeom gh.vol w := by
  obtain ⟨fs, ds, vs, hpf, hpd, hvs, h⟩ := drain hI
  refine ⟨fs, ds, vs, hpf, hpd, hvs, ?_⟩
  intro ops
  obtain ⟨hok, hf, hd, hv, _, gh', hI', hg'⟩ := h
  obtain ⟨_, k2, k3, k4⟩ := run_exhausted ops s hx
  have hok' : ∀ o, o ∈ (run (mclr s) ops).2 → o.result = .ok .unit := hok
  have hf' : (run (mclr s) ops).1.files = [] := hf
  have hd' : (run (mclr s) ops).1.dirs = [] := hd
  have hv' : (run (mclr s) ops).1.vols = [] := hv
  have hI'' : VolInv (run (mclr s) ops).1 gh' := hI'
  rw [k3] at hok'
  rw [k4] at hf' hd' hv' hI''
  have hf2 : (run s ops).1.files = [] := hf'
  have hd2 : (run s ops).1.dirs = [] := hd'
  refine ⟨hok', hf2, hd2, hv', by simp [hasOpenHandles, hf2, hd2], k2, ⟨gh', hI'', hg'⟩, ?_⟩
  intro idx vm hmt hsg
  have hcov : CoveredRunF s ops := coveredRunF_of_all ops s fun op ho t => by
    apply fcovered_close
    rcases List.mem_append.1 ho with ho | ho
    · rcases List.mem_append.1 ho with ho | ho
      · obtain ⟨_, _, rfl⟩ := List.mem_map.1 ho; rfl
      · obtain ⟨_, _, rfl⟩ := List.mem_map.1 ho; rfl
    · obtain ⟨_, _, rfl⟩ := List.mem_map.1 ho; rfl
  obtain ⟨Ls, hR, _⟩ := runLicF_of_classA gh.vol ops hI hm (SameGeom.refl _) hcov (failsOnlyIn_of_exhausted classA ops s hx)
  exact runLicF_mounts hI.med.geom hR hI.med.blocksOK idx vm hmt hsg

/-! ### Retry -/

/-- **Retry once the schedule is exhausted.**  From the invariant up to the schedule (a volume open), a read-only call
`op` during which a device call failed, issued AGAIN from the state the failed call left — in which every scheduled fault
lies in the past —, answers exactly what `op` answers WITHOUT ANY FAULT from the state it was first issued in. -/
theorem retry_F {s : Mgr} {gh : Ghost} (hI : VolInv (mclr s) gh) (hvol : s.vols ≠ []) (op : Op)
    (hop : FaultInv.retryOp op = true) (hfail : (step s op).1.dev.failed ≠ s.dev.failed)
    (hx : Exhausted (step s op).1.dev) :
    (step (step s op).1 op).2.result = (step (mclr s) op).2.result := by
  have h := retry_step hI s.dev.faults op hop hvol (by rw [withFaults_mclr]; exact hfail)
  rw [withFaults_mclr] at h
  obtain ⟨_, _, e, _⟩ := step_exhausted (step s op).1 op hx
  rw [← e]
  exact h

/-! ### The weak invariant -/

theorem fileLoose_of_fileOK {v : FatVolume} {d : Disk} {f : FileInfo} {cs : List Nat} (h : FileOK v d f cs) :
    FileLoose v d f cs := by
  exact ⟨h.chain, h.pos_le, h.cursor⟩

/-- The invariant up to the schedule implies the weak invariant, without lost chains. -/
theorem faultInv_of_volInvF {s : Mgr} {gh : Ghost} (h : VolInvF s gh) : Spec.Volume.FaultInv s gh [] := by
  have hI : VolInv (mclr s) gh := h
  refine ⟨hI.coherent, hI.unlocked, hI.maxVols, hI.vols, ?_, hI.fileVols, hI.openDirs⟩
  have hM := hI.med
  refine ⟨hM.blocksOK, hM.geom, hM.hint, by rw [List.append_nil]; exact hM.owns, ⟨_, hM.tree⟩, fun f hf => ?_⟩
  exact ⟨fileLoose_of_fileOK (hM.fileOK f hf).1, (hM.fileOK f hf).2⟩

end Sdmmc.Lemmas.FaultHist
