/-
Several open volumes, refinement: every call that is NOT addressed to a volume record (`target s op = none`: the five
table calls and the calls whose handle leads to no open volume), in one statement.
-/
import Sdmmc.Lemmas.VolNAbsV

namespace Sdmmc.Lemmas.VolN
open Sdmmc.Model Sdmmc.Model.Fat Sdmmc.Spec.Volume
open Sdmmc.Spec hiding NoFault Coherent run step
open Sdmmc.Spec.AbsFs (AbsFsN coreStepN openRootN closeDirN closeVolumeN)
open Sdmmc.Lemmas.MHoare

/-- **A call that is not addressed to a volume record is a step of the abstract file system** (the tables in the
order of the manager), and the invariant and the abstraction relation hold afterwards.  `hnew`: the hypothesis on a
successful `open_volume` of `openVolume_multi`. -/
theorem runOp_core_none {s : Mgr} {ghs : List Ghost} {B : AbsFsN} (hI : VolInvN s ghs) (hm : MirrorN s ghs)
    (hB : AbsNx s ghs B) (op : Op) (ht : target s op = none)
    (hnew : ∀ idx, op = .openVolume idx → ∀ h s', openRawVolume idx s = (.ok h, s') → ∀ vi, s'.vols.getLast? = some vi →
      h ∉ s.vols.map (·.rawVolume) ∧ (∀ w, w ∈ s.vols → PartDisjoint w.vol vi.vol ∧ PartDisjoint vi.vol w.vol) ∧
      ∃ gh, gh.vol = vi.vol ∧ MedInv vi.vol s.dev.disk [] gh ∧ Mirror vi.vol s.dev.disk) :
    ∃ ghs' A', VolInvN (runOp op s).2 ghs' ∧ MirrorN (runOp op s).2 ghs' ∧ AbsN (runOp op s).2 ghs' A' ∧
      coreStepN B op (A', (runOp op s).1) := by
  have hgen : (∀ i, op ≠ .openVolume i) → (∀ v, op ≠ .closeVolume v) → (∀ v, op ≠ .openRoot v) → (∀ d, op ≠ .closeDir d) →
      op ≠ .hasOpen → ∃ ghs' A', VolInvN (runOp op s).2 ghs' ∧ MirrorN (runOp op s).2 ghs' ∧ AbsN (runOp op s).2 ghs' A' ∧
        coreStepN B op (A', (runOp op s).1) := by
    intro h1 h2 h3 h4 h5
    obtain ⟨hc, hs⟩ := untargeted_core hI hB op ht h1 h2 h3 h4 h5
    rw [hs]
    exact ⟨ghs, B, hI, hm, hB.toAbsN, hc⟩
  cases op with
  | openVolume idx =>
    obtain ⟨ghs', B', h1, h2, h3, h4⟩ := openVolume_core hI hm hB idx (hnew idx rfl)
    exact ⟨ghs', B', h1, h2, h4.toAbsN, h3⟩
  | closeVolume v =>
    obtain ⟨ghs', h1, h2, h3, h4⟩ := closeVolume_core hI hm hB v
    exact ⟨ghs', _, h1, h2, h4.toAbsN, h3⟩
  | openRoot v =>
    obtain ⟨h3, h4⟩ := openRoot_core hB v
    obtain ⟨a, b⟩ := openRoot_multi hI v
    have hst : (runOp (.openRoot v) s).2 = (openRootDir v s).2 := VolApi.map_state _ _ _
    rw [← hst] at a b
    exact ⟨ghs, _, a, mirrorN_frame hm (by rw [b]), h4.toAbsN, h3⟩
  | closeDir d =>
    obtain ⟨h3, h4⟩ := closeDir_core hB d
    obtain ⟨a, b⟩ := closeDir_multi hI d
    have hst : (runOp (.closeDir d) s).2 = (closeDir d s).2 := VolApi.seq_state _ _ _
    rw [← hst] at a b
    exact ⟨ghs, _, a, mirrorN_frame hm (by rw [b]), h4.toAbsN, h3⟩
  | hasOpen =>
    obtain ⟨h3, h4⟩ := hasOpen_core hB
    rw [h4]
    exact ⟨ghs, B, hI, hm, hB.toAbsN, h3⟩
  | openDir d n => exact hgen (fun _ h => by cases h) (fun _ h => by cases h) (fun _ h => by cases h) (fun _ h => by cases h) (fun h => by cases h)
  | openFile d n m => exact hgen (fun _ h => by cases h) (fun _ h => by cases h) (fun _ h => by cases h) (fun _ h => by cases h) (fun h => by cases h)
  | read f n => exact hgen (fun _ h => by cases h) (fun _ h => by cases h) (fun _ h => by cases h) (fun _ h => by cases h) (fun h => by cases h)
  | write f b => exact hgen (fun _ h => by cases h) (fun _ h => by cases h) (fun _ h => by cases h) (fun _ h => by cases h) (fun h => by cases h)
  | seekStart f n => exact hgen (fun _ h => by cases h) (fun _ h => by cases h) (fun _ h => by cases h) (fun _ h => by cases h) (fun h => by cases h)
  | seekCur f n => exact hgen (fun _ h => by cases h) (fun _ h => by cases h) (fun _ h => by cases h) (fun _ h => by cases h) (fun h => by cases h)
  | seekEnd f n => exact hgen (fun _ h => by cases h) (fun _ h => by cases h) (fun _ h => by cases h) (fun _ h => by cases h) (fun h => by cases h)
  | flush f => exact hgen (fun _ h => by cases h) (fun _ h => by cases h) (fun _ h => by cases h) (fun _ h => by cases h) (fun h => by cases h)
  | closeFile f => exact hgen (fun _ h => by cases h) (fun _ h => by cases h) (fun _ h => by cases h) (fun _ h => by cases h) (fun h => by cases h)
  | delete d n => exact hgen (fun _ h => by cases h) (fun _ h => by cases h) (fun _ h => by cases h) (fun _ h => by cases h) (fun h => by cases h)
  | mkdir d n => exact hgen (fun _ h => by cases h) (fun _ h => by cases h) (fun _ h => by cases h) (fun _ h => by cases h) (fun h => by cases h)
  | find d n => exact hgen (fun _ h => by cases h) (fun _ h => by cases h) (fun _ h => by cases h) (fun _ h => by cases h) (fun h => by cases h)
  | list d => exact hgen (fun _ h => by cases h) (fun _ h => by cases h) (fun _ h => by cases h) (fun _ h => by cases h) (fun h => by cases h)
  | listLfn d n => exact hgen (fun _ h => by cases h) (fun _ h => by cases h) (fun _ h => by cases h) (fun _ h => by cases h) (fun h => by cases h)
  | length f => exact hgen (fun _ h => by cases h) (fun _ h => by cases h) (fun _ h => by cases h) (fun _ h => by cases h) (fun h => by cases h)
  | offset f => exact hgen (fun _ h => by cases h) (fun _ h => by cases h) (fun _ h => by cases h) (fun _ h => by cases h) (fun h => by cases h)
  | eof f => exact hgen (fun _ h => by cases h) (fun _ h => by cases h) (fun _ h => by cases h) (fun _ h => by cases h) (fun h => by cases h)
  | label v => exact hgen (fun _ h => by cases h) (fun _ h => by cases h) (fun _ h => by cases h) (fun _ h => by cases h) (fun h => by cases h)

end Sdmmc.Lemmas.VolN
