/-
Bridging lemmas for `Props/C09Main.lean`: the two cases of `Props/C09Hist.lean` (`close_file`, `flush_file` with the handle
left open) under ONE criterion (`Untouched`), with clause (b) of `flushed_file_survives` kept, and the link between "the
flushed contents" and the bytes of the file in the abstract file system of `Props/C01Fs.lean`.
-/
import Sdmmc.Props.C09Hist

namespace Sdmmc.Lemmas.MainC09
open Sdmmc.Model Sdmmc.Model.Fat Sdmmc.Spec.Volume
open Sdmmc.Spec hiding run step NoFault Coherent
open Sdmmc.Props
open Sdmmc.Props.C03Inv (Covered CoveredAll CoveredAllRun)
open Sdmmc.Props.C09Hist (FreshReads)
open Sdmmc.Lemmas.Survive (HistCrash FlushedOn Kept Untouched NeverNames PathOn)
open Sdmmc.Lemmas.VolTree (fkey spos)

/-- What a crash point `dk` shows of the file with flushed entry `e`, chain `cs`, in directory `h` reached through `ys`;
`d0` is the medium the flushed contents are read off. -/
def Shows (v0 : FatVolume) (e : DirEntry) (cs : List Nat) (ys : List Slot) (h : Nat) (d0 : Disk) (idx : Nat) (dk : Disk) : Prop :=
  (BlocksOK dk ∧ slice (dk.get e.entryBlock) e.entryOffset 32 = e.serialize v0.fatType ∧
    ((e.cluster < 2 ∧ cs = [] ∧ e.size = 0) ∨ Chain v0 dk e.cluster cs) ∧
    ∀ n, fileContent v0 dk cs n = fileContent v0 d0 cs n) ∧
  (∃ ghk, CrashInv v0 dk ghk ∧ PathOn v0.fatType ghk.dirs (dirSlots v0 dk ghk.G) 0 ys h ∧
    Lemmas.Reopen.FirstHit (dirSlots v0 dk ghk.G h) e.name
      (e.entryBlock, e.entryOffset, slice (dk.get e.entryBlock) e.entryOffset 32)) ∧
  FreshReads v0 e cs ys d0 idx dk

/-- `Props.C09Hist.reads_back_of_kept` with clause (b) kept. -/
theorem shows_of_kept (v0 : FatVolume) (s : Mgr) (gh : Ghost) (hI : VolInvC s gh) (h0 : SameGeom v0 gh.vol)
    (op : Op) (hcov : CoveredAll v0 s op) (f : FileInfo) (hfm : f ∈ s.files) (ys : List Slot)
    (h : Nat) (gh1 : Ghost) (hK1 : Kept v0 f.entry (chainOf gh.G f.entry.cluster) ys h (step s op).1 gh1)
    (hcont : ∀ n, fileContent gh.vol (step s op).1.dev.disk (chainOf gh.G f.entry.cluster) n =
      fileContent gh.vol s.dev.disk (chainOf gh.G f.entry.cluster) n)
    (ops : List Op) (hc : CoveredAllRun v0 (step s op).1 ops)
    (hu : Untouched h f.entry.name (f.entry.entryBlock, f.entry.entryOffset) (step s op).1 ops)
    (idx : Nat) (vm : FatVolume) (hm : mountPure (s.dev.disk.get 0) idx s.dev.disk.get = .ok vm) (hsg : SameGeom vm v0)
    (dk : Disk) (hk : HistCrash (step s op).1 ops dk) :
    Shows v0 f.entry (chainOf gh.G f.entry.cluster) ys h s.dev.disk idx dk := by
  obtain ⟨hst, _⟩ := Lemmas.Survive.file_entry_facts hI.inv hfm
  have hst0 : Lemmas.Reopen.Storable v0.fatType f.entry := by rw [← h0.fatType]; exact hst
  obtain ⟨w1, hw1, hsw1⟩ := C10Inv.history_mounts v0 [op] s gh hI h0 ⟨hcov, trivial⟩ idx vm hm hsg
  have hw1' : mountPure ((step s op).1.dev.disk.get 0) idx (step s op).1.dev.disk.get = .ok w1 := hw1
  have hcont0 : ∀ n, fileContent v0 (step s op).1.dev.disk (chainOf gh.G f.entry.cluster) n =
      fileContent v0 s.dev.disk (chainOf gh.G f.entry.cluster) n := by
    intro n
    rw [← Lemmas.WriteRefines.sameGeom_fileContent h0, ← Lemmas.WriteRefines.sameGeom_fileContent h0]
    exact hcont n
  obtain ⟨⟨r1, r2, r3, r4⟩, r5, r6⟩ :=
    C09Hist.flushed_file_survives v0 _ gh1 f.entry _ ys h hK1 hst0 ops hc hu idx w1 hw1' hsw1.symm dk hk
  exact ⟨⟨r1, r2, r3, fun n => (r4 n).trans (hcont0 n)⟩, r5, C09Hist.FreshReads.congr r6 hcont0⟩

/-- **The two cases under one criterion.**  `call` is `close_file hd`, or `flush_file hd` of a file that owns a cluster;
the criterion is `Untouched`, or — for `close_file` — the purely syntactic `NeverNames`. -/
theorem flush_or_close_survives (v0 : FatVolume) (s : Mgr) (gh : Ghost) (hI : VolInvC s gh) (h0 : SameGeom v0 gh.vol)
    (hd i : Nat) (f : FileInfo) (hidx : s.files.findIdx? (·.rawFile = hd) = some i) (hf : s.files[i]? = some f)
    (hdirty : f.dirty = true) (h : Nat) (ys : List Slot)
    (hdir : ∃ o, o ∈ objects h (dirSlots gh.vol s.dev.disk gh.G h) ∧ spos o = fkey f)
    (hpath : PathOn gh.vol.fatType gh.dirs (dirSlots gh.vol s.dev.disk gh.G) 0 ys h)
    (hnames : ∀ y, y ∈ ys → sName y ≠ Sfn.thisDir ∧ sName y ≠ Sfn.parentDir)
    (idx : Nat) (vm : FatVolume) (hm : mountPure (s.dev.disk.get 0) idx s.dev.disk.get = .ok vm) (hsg : SameGeom vm v0)
    (call : Op) (hcall : call = .closeFile hd ∨ (call = .flush hd ∧ f.entry.cluster ≠ 0)) :
    (step s call).2.result = .ok .unit ∧
    ∀ ops, CoveredAllRun v0 s (call :: ops) →
      (Untouched h f.entry.name (f.entry.entryBlock, f.entry.entryOffset) (step s call).1 ops ∨
        (call = .closeFile hd ∧ NeverNames f.entry.name ops)) →
      ∀ dk, HistCrash (step s call).1 ops dk →
        Shows v0 f.entry (chainOf gh.G f.entry.cluster) ys h s.dev.disk idx dk := by
  have hfm : f ∈ s.files := List.mem_of_getElem? hf
  have hM := Lemmas.VolMed.medX_of_med hI.inv.med
  obtain ⟨o0, ho0, hpo0⟩ := hdir
  rcases hcall with rfl | ⟨rfl, hcl⟩
  · obtain ⟨hres, h', ⟨o, hoo, hpo⟩, hh, hall⟩ := Lemmas.Survive.close_kept hI.inv hI.mirror hI.raw h0 hidx hf hdirty
    obtain ⟨rfl, _⟩ := Lemmas.AbsFs.slot_unique hM hh hpath.end_mem (Lemmas.VolMed.mem_of_mem_objects hoo)
      (Lemmas.VolMed.mem_of_mem_objects ho0) (hpo.trans hpo0.symm)
    obtain ⟨gh1, hK1, hnone⟩ := hall ys hpath hnames
    refine ⟨hres, fun ops hc hcrit dk hk => ?_⟩
    obtain ⟨hst, _⟩ := Lemmas.Survive.file_entry_facts hI.inv hfm
    have hst0 : Lemmas.Reopen.Storable v0.fatType f.entry := by rw [← h0.fatType]; exact hst
    obtain ⟨_, _, hcont⟩ := Lemmas.Survive.close_step_flushed hI.inv hidx hf hdirty
    have hu : Untouched h' f.entry.name (f.entry.entryBlock, f.entry.entryOffset) (step s (.closeFile hd)).1 ops := by
      rcases hcrit with hu | ⟨_, hn⟩
      · exact hu
      · exact C09Hist.untouched_of_never_opened v0 f.entry _ ys h' _ gh1 hK1 hst0 ops hc.2
          (fun g hg hkey => absurd hkey (hnone g hg)) (C09Hist.never_opened_of_never_names h' f.entry.name ops _ hn)
    exact shows_of_kept v0 s gh hI h0 (.closeFile hd) hc.1 f hfm ys h' gh1 hK1 hcont ops hc.2 hu idx vm hm hsg dk hk
  · obtain ⟨hres, h', ⟨o, hoo, hpo⟩, hh, hall⟩ := Lemmas.Survive.flush_kept hI.inv hI.mirror hI.raw h0 hidx hf hdirty hcl
    obtain ⟨rfl, _⟩ := Lemmas.AbsFs.slot_unique hM hh hpath.end_mem (Lemmas.VolMed.mem_of_mem_objects hoo)
      (Lemmas.VolMed.mem_of_mem_objects ho0) (hpo.trans hpo0.symm)
    obtain ⟨gh1, hK1⟩ := hall ys hpath hnames
    refine ⟨hres, fun ops hc hcrit dk hk => ?_⟩
    obtain ⟨_, _, hcont⟩ := Lemmas.Survive.flush_step_flushed hI.inv hidx hf hdirty
    have hu : Untouched h' f.entry.name (f.entry.entryBlock, f.entry.entryOffset) (step s (.flush hd)).1 ops := by
      rcases hcrit with hu | ⟨e, _⟩
      · exact hu
      · cases e
    exact shows_of_kept v0 s gh hI h0 (.flush hd) hc.1 f hfm ys h' gh1 hK1 hcont ops hc.2 hu idx vm hm hsg dk hk

/-- **"The flushed contents" are the file's bytes in the abstract file system** (`Props/C01Fs.lean`): in every abstract
counterpart `a` of `s`, the record of handle `hd` designates a file slot whose bytes are the contents of the file's chain
on the medium of `s`, cut at the pending size — the bytes `read` returns through the handle
(`Props.C01Fs.read_returns_model_bytes`) and every `write` so far has stored (`Props.C01Fs.fs_step_refines`). -/
theorem flushed_contents_are_model_bytes (v0 : FatVolume) {s : Mgr} {gh : Ghost} {a : Lemmas.AbsFs.AState} (hI : VolInv s gh)
    (h0 : SameGeom v0 gh.vol) (hA : Lemmas.AbsFs.Abs s gh a) {hd i : Nat} {f : FileInfo}
    (hidx : s.files.findIdx? (·.rawFile = hd) = some i) (hf : s.files[i]? = some f) :
    ∃ af m, Spec.AbsFs.fileOf a hd = some (i, af) ∧
      (a.slots af.dir)[af.idx]? = some (.file m (fileContent v0 s.dev.disk (chainOf gh.G f.entry.cluster) f.entry.size)) := by
  obtain ⟨af, haf, hrel⟩ := Lemmas.AbsFs.forall₂_right hA.files hf
  obtain ⟨o, _, _, _, _, _, _, hsl⟩ := Lemmas.AbsFs.handle_slot hI hA (List.mem_of_getElem? hf) hrel
  refine ⟨af, Lemmas.AbsFs.metaOf gh.vol.fatType o, ?_, ?_⟩
  · unfold Spec.AbsFs.fileOf
    rw [Lemmas.AbsFs.fileIdx_abs hA hd]
    have : (s.files.findIdx? fun x => decide (x.rawFile = hd)) = some i := hidx
    rw [this]
    show (a.files[i]?).map _ = _
    rw [haf]; rfl
  · rw [Lemmas.WriteRefines.sameGeom_fileContent h0] at hsl
    exact hsl

end Sdmmc.Lemmas.MainC09
