/-
C11 under the invariant, part 19 (API): a faulted CALL is a truncated fault-free call (`step_faulted`, from `MPre`),
hence every device write of a failed call is licensed by the licence of the fault-free call (`faulted_licensed`) and
every file / directory that licence does not name is intact on the medium the failed call leaves
(`others_intact_prefix`).
-/
import Sdmmc.Lemmas.FaultMPre
import Sdmmc.Lemmas.FaultInvStep
import Sdmmc.Lemmas.WriteSetInvWf

namespace Sdmmc.Lemmas.FaultInv
open Sdmmc.Model Sdmmc.Model.Fat Sdmmc.Spec.Volume Sdmmc.Lemmas.VolBase Sdmmc.Lemmas.VolTree
open Sdmmc.Spec hiding NoFault Coherent
open Sdmmc.Lemmas.VolDisk Sdmmc.Lemmas.VolMed Sdmmc.Lemmas.VolApi Sdmmc.Lemmas.VolEng
open Sdmmc.Lemmas.FBasic (NoFault Coherent)
open Sdmmc.Lemmas.CrashBase Sdmmc.Lemmas.Retry Sdmmc.Lemmas.FaultPre Sdmmc.Lemmas.MHoare
open Sdmmc.Lemmas.WriteSetInv Sdmmc.Lemmas.WriteSet

theorem mclr_withFaults {s0 : Mgr} (hn : s0.dev.faults = []) (L : List Nat) : mclr (withFaults L s0) = s0 := by
  cases s0 with
  | mk dev cache nextId vols dirs files maxVols maxDirs maxFiles clock locked =>
    cases dev with
    | mk disk calls faults failed wlog rlog =>
      simp only at hn
      subst hn
      rfl

theorem reverse_append_nil {α} (l : List α) : (l.reverse ++ []).reverse = l := by
  rw [List.append_nil, List.reverse_reverse]

/-- **A faulted call is a truncated fault-free call.**  `s0` has no fault scheduled; under ANY schedule `L`, a call
of `prefixOp` (all but `mkdir`, `read`, `write`, `openVolume`, `label`) either hits no fault — then it IS the
fault-free call: same answer, same writes, same reads, same state up to the schedule — or answers `DeviceError`,
its device writes are a PREFIX of the fault-free call's, the medium is the old medium with exactly these writes
applied, and the cache is UNTAGGED. -/
theorem step_faulted {s0 : Mgr} (hl : s0.locked = false) (hn : s0.dev.faults = []) (L : List Nat) (op : Op)
    (hop : prefixOp op = true) :
    ((step (withFaults L s0) op).1.dev.failed = s0.dev.failed ∧ (step (withFaults L s0) op).2 = (step s0 op).2 ∧
      mclr (step (withFaults L s0) op).1 = (step s0 op).1) ∨
    ((step (withFaults L s0) op).1.dev.failed ≠ s0.dev.failed ∧ (step (withFaults L s0) op).2.result = .err .DeviceError ∧
      ∃ ws', (step s0 op).2.writes = (step (withFaults L s0) op).2.writes ++ ws' ∧
        (step (withFaults L s0) op).1.dev.disk = s0.dev.disk.applyWrites (step (withFaults L s0) op).2.writes ∧
        (step (withFaults L s0) op).1.cache.tag = none) := by
  rw [MHoare.step_unlocked (withFaults L s0) op hl, MHoare.step_unlocked s0 op hl, resetLogs_withFaults]
  have hc : mclr (withFaults L (resetLogs s0)) = resetLogs s0 := mclr_withFaults (s0 := resetLogs s0) hn L
  obtain ⟨_, _, hag, hhit⟩ := runOp_mpre op hop (withFaults L (resetLogs s0))
  rw [hc] at hag hhit
  by_cases hq : (runOp op (withFaults L (resetLogs s0))).2.dev.failed = s0.dev.failed
  · left
    have h := hag hq
    rcases hrun : runOp op (withFaults L (resetLogs s0)) with ⟨r, t⟩
    rw [hrun] at h hq
    rw [h]
    exact ⟨hq, rfl, rfl⟩
  · right
    obtain ⟨he, ⟨wa, wb, hta, htb, hca⟩⟩ := hhit hq
    have hw1 : (runOp op (withFaults L (resetLogs s0))).2.dev.wlog.reverse = wa := by
      have := hta.wlog
      show (mfs (runOp op (withFaults L (resetLogs s0))).2).dev.wlog.reverse = wa
      rw [this]; exact reverse_append_nil wa
    have hw2 : (runOp op (resetLogs s0)).2.dev.wlog.reverse = wa ++ wb := by
      have := htb.wlog
      show (mfs (runOp op (resetLogs s0)).2).dev.wlog.reverse = wa ++ wb
      rw [this]; exact reverse_append_nil _
    refine ⟨hq, he, wb, ?_, ?_, ?_⟩
    · show (runOp op (resetLogs s0)).2.dev.wlog.reverse = (runOp op (withFaults L (resetLogs s0))).2.dev.wlog.reverse ++ wb
      rw [hw1, hw2]
    · show (runOp op (withFaults L (resetLogs s0))).2.dev.disk =
        s0.dev.disk.applyWrites (runOp op (withFaults L (resetLogs s0))).2.dev.wlog.reverse
      rw [hw1]; exact hta.disk
    · exact hca

/-! ### Licences -/

theorem allLicensed_blocksOK {v : FatVolume} {L : Licence} : ∀ (ws : List (Nat × Block)) (d : Disk), BlocksOK d →
    AllLicensed v d L ws → BlocksOK (d.applyWrites ws)
  | [], _, hb, _ => hb
  | w :: ws, d, hb, h => by
    rw [FBasic.Disk.applyWrites_cons]
    refine allLicensed_blocksOK ws _ ?_ h.2
    intro i
    by_cases hi : w.1 = i
    · subst hi
      rw [FBasic.Disk.get_set_self]
      rcases h.1 with h1 | h1 | h1 | h1 | h1
      · exact h1.2.1
      · exact h1.1
      · exact h1.2.1
      · exact h1.2.2.2.1
      · exact h1.1
    · rw [FBasic.Disk.get_set_ne _ _ _ _ hi]; exact hb i

/-- An object the licence spares is unchanged by a list of licensed writes. -/
theorem spared_unchanged {v : FatVolume} {L : Licence} {d : Disk} {ws : List (Nat × Block)} (hb : BlocksOK d)
    (ha : AllLicensed v d L ws) (sb so c : Nat) (cs : List Nat) (hch : Chain v d c cs) (hsp : Spares v L sb so cs) :
    slice ((d.applyWrites ws).get sb) so 32 = slice (d.get sb) so 32 ∧ Chain v (d.applyWrites ws) c cs ∧
    chainBytes v (d.applyWrites ws) cs = chainBytes v d cs := by
  have hb' := allLicensed_blocksOK ws d hb ha
  refine ⟨?_, ?_, ?_⟩
  · refine DirSlots.slice_congr _ _ so 32 (by rw [hb' sb, hb sb]) fun i h1 h2 => ?_
    exact allLicensed_frame (hsp.1 i h1 h2) ws d ha
  · refine ForestBase.chain_transfer hch rfl fun x hx => ?_
    refine ForestBase.nextOf_congr rfl ?_
    unfold fatRaw
    refine DirFrames.rawFatEntry_congr _ _ _ _ fun i h1 h2 => ?_
    exact allLicensed_frame (hsp.2.1 x hx i h1 h2) ws d ha
  · refine WriteRefines.chainBytes_congr v _ _ cs fun x hx j hj => ?_
    refine block_ext hb hb' _ fun i => ?_
    exact allLicensed_frame (hsp.2.2 x hx j hj i) ws d ha

/-- **The writes of a failed call are licensed by the licence of the fault-free call.** -/
theorem faulted_licensed {s0 : Mgr} {gh : Ghost} (hI : VolInv s0 gh) (hm : Mirror gh.vol s0.dev.disk) (L : List Nat) (op : Op)
    (hop : prefixOp op = true) (hc : NameCovered op) :
    ∃ Lic, LicenceFor gh s0.files s0.dirs s0.dev.disk op Lic ∧
      AllLicensed gh.vol s0.dev.disk Lic (step (withFaults L s0) op).2.writes ∧
      ∀ i, (step (withFaults L s0) op).1.dev.disk.get i =
        (s0.dev.disk.applyWrites (step (withFaults L s0) op).2.writes).get i := by
  obtain ⟨Lic, hS⟩ := step_callOK hI hm op hc
  refine ⟨Lic, hS.lic, ?_⟩
  rcases step_faulted hI.unlocked hI.noFault L op hop with ⟨_, ho, hs⟩ | ⟨_, _, ws', hw, hd, _⟩
  · rw [ho]
    refine ⟨hS.all, fun i => ?_⟩
    rw [← hS.disk i, ← hs]; rfl
  · have := hS.all
    rw [hw, allLicensed_append] at this
    exact ⟨this.1, fun i => by rw [hd]⟩

/-- **Files and directories not involved in a failed call are intact on the medium.**  `Lic` is a licence
`LicenceFor` describes for the call in the state before it (the licence of the FAULT-FREE call).  Every object of the
start medium — its directory slot at byte `so` of block `sb`, its cluster chain `cs` from cluster `c` — that `Lic`
does not name has, on the medium the call leaves under ANY fault schedule, the same 32 slot bytes, the same chain and
the same bytes along the chain. -/
theorem others_intact_prefix {s0 : Mgr} {gh : Ghost} (hI : VolInv s0 gh) (hm : Mirror gh.vol s0.dev.disk) (L : List Nat) (op : Op)
    (hop : prefixOp op = true) (hc : NameCovered op) :
    ∃ Lic, LicenceFor gh s0.files s0.dirs s0.dev.disk op Lic ∧
      ∀ (sb so c : Nat) (cs : List Nat), Chain gh.vol s0.dev.disk c cs →
        (regionOf gh.vol sb = .root ∨ regionOf gh.vol sb = .data) → so % 32 = 0 → NotNamed gh.vol Lic sb so cs →
        slice ((step (withFaults L s0) op).1.dev.disk.get sb) so 32 = slice (s0.dev.disk.get sb) so 32 ∧
        Chain gh.vol (step (withFaults L s0) op).1.dev.disk c cs ∧
        chainBytes gh.vol (step (withFaults L s0) op).1.dev.disk cs = chainBytes gh.vol s0.dev.disk cs := by
  obtain ⟨Lic, hlic, hall, hdisk⟩ := faulted_licensed hI hm L op hop hc
  refine ⟨Lic, hlic, fun sb so c cs hch hsreg hso hnn => ?_⟩
  have hsp := spares_of_avoids hI.med.geom (ChainL.chain_inRange hch) hsreg hso (avoids_of (licenceFor_wf hI hlic) hnn)
  obtain ⟨h1, h2, h3⟩ := spared_unchanged hI.med.blocksOK hall sb so c cs hch hsp
  refine ⟨?_, ?_, ?_⟩
  · rw [hdisk sb]; exact h1
  · exact ForestBase.chain_transfer h2 rfl fun x _ => by
      refine ForestBase.nextOf_congr rfl ?_
      unfold fatRaw
      rw [hdisk]
  · rw [← h3]
    exact WriteRefines.chainBytes_congr gh.vol _ _ cs fun x _ j _ => hdisk _

end Sdmmc.Lemmas.FaultInv
