/-
Histories of `write` calls on a manager satisfying the data-plane invariant `DataPlane.DataInv`
(`Props/C01Write.lean`): at every crash point inside any call of the history, every chain of `rest` — the
chains no open file owns: closed files, directories — is still a chain and holds the bytes it held at the
start of the history.
-/
import Sdmmc.Lemmas.CrashWriteSpec
import Sdmmc.Lemmas.WriteRefinesHist

namespace Sdmmc.Lemmas.CrashWriteHist
open Sdmmc.Model Sdmmc.Model.Fat Sdmmc.Spec Sdmmc.Spec.DataPlane
open Sdmmc.Lemmas.FBasic hiding NoFault Coherent
open Sdmmc.Lemmas.FatOps hiding BlocksOK Mirror HintOK
open Sdmmc.Lemmas.ChainL Sdmmc.Lemmas.ForestBase Sdmmc.Lemmas.ForestOwns Sdmmc.Lemmas.ReadRefines
open Sdmmc.Lemmas.WriteRefines Sdmmc.Lemmas.CrashBase Sdmmc.Lemmas.CrashMgr Sdmmc.Lemmas.CrashWriteSpec

theorem runOp_write_state (s : Mgr) (h : Nat) (data : Bytes) : (runOp (.write h data) s).2 = (Model.write h data s).2 := by
  show ((Model.write h data >>= fun _ => pure Payload.unit) s).2 = _
  rw [MHoare.bind_def]
  rcases Model.write h data s with ⟨r, s'⟩
  cases r <;> rfl

theorem crashDisk_same (s s' : Mgr) (hw : s'.dev.wlog = s.dev.wlog) (j : Nat) :
    crashDisk s.dev.disk (newWritesM s s') j = s.dev.disk := by
  unfold crashDisk newWritesM
  rw [hw, Nat.sub_self, List.take_zero, List.reverse_nil, List.take_nil]
  rfl

/-- One `write` call of a history. -/
theorem write_step_crash (s : Mgr) (chains rest : List (List Nat)) (hinv : DataInv s chains rest) (h : Nat) (data : Bytes) :
    ∃ chains', DataInv (Model.write h data s).2 chains' rest ∧ SameGeom (theVol s) (theVol (Model.write h data s).2) ∧
      (∀ X, X ∈ rest → chainBytes (theVol s) (Model.write h data s).2.dev.disk X = chainBytes (theVol s) s.dev.disk X) ∧
      ∀ j X, X ∈ rest →
        Chain (theVol s) (crashDisk s.dev.disk (newWritesM s (Model.write h data s).2) j) (X.headD 0) X ∧
        chainBytes (theVol s) (crashDisk s.dev.disk (newWritesM s (Model.write h data s).2) j) X = chainBytes (theVol s) s.dev.disk X := by
  obtain ⟨chains', hinv', _⟩ := write_ok s chains rest hinv h data
  rw [runOp_write_state] at hinv'
  have hrestChain : ∀ X, X ∈ rest → Chain (theVol s) s.dev.disk (X.headD 0) X := fun X hX =>
    hinv.owns.1 X (List.mem_append_right _ hX)
  have hnothing : (Model.write h data s).2 = s →
      ∃ chains', DataInv (Model.write h data s).2 chains' rest ∧ SameGeom (theVol s) (theVol (Model.write h data s).2) ∧
      (∀ X, X ∈ rest → chainBytes (theVol s) (Model.write h data s).2.dev.disk X = chainBytes (theVol s) s.dev.disk X) ∧
      ∀ j X, X ∈ rest →
        Chain (theVol s) (crashDisk s.dev.disk (newWritesM s (Model.write h data s).2) j) (X.headD 0) X ∧
        chainBytes (theVol s) (crashDisk s.dev.disk (newWritesM s (Model.write h data s).2) j) X = chainBytes (theVol s) s.dev.disk X := fun e => by
    refine ⟨chains', hinv', by rw [e]; exact SameGeom.refl _, fun X _ => by rw [e], fun j X hX => ?_⟩
    rw [crashDisk_same s _ (by rw [e]) j]
    exact ⟨hrestChain X hX, rfl⟩
  cases hh : s.files.findIdx? (·.rawFile = h) with
  | none =>
    have : Model.write h data s = (.err .BadHandle, s) := by
      unfold Model.write; rw [MHoare.bind_err (MHoare.getFileById_bad hh)]
    exact hnothing (by rw [this])
  | some i =>
    obtain ⟨f, cs, v, hf, hc, hvols, htv, hv, hvi, hok, hcur, _, _, _⟩ := inv_slot hinv hh
    by_cases hmode : f.mode = .ReadOnly
    · exact hnothing (by rw [write_readOnly s h i 0 data f hh hf hv hmode])
    · have hg : WFGeom v.vol := by rw [← htv]; exact hinv.geom
      have hhint : HintOK v.vol := by rw [← htv]; exact hinv.hint
      generalize hA : (chains.take i).filter (fun cs => !cs.isEmpty) = A
      generalize hB : (chains.drop (i + 1)).filter (fun cs => !cs.isEmpty) ++ rest = B
      have hown : Owns v.vol s.dev.disk (withChain A cs B) := by
        rw [← hA, ← hB, ← filter_split_self chains rest i cs hc, ← htv]; exact hinv.owns
      have hmemAB : ∀ X, X ∈ rest → X ∈ A ++ B := fun X hX => by
        rw [← hB]; exact List.mem_append_right _ (List.mem_append_right _ hX)
      obtain ⟨k, r, s', v', cs', hrun, _, _, hsg, _, hpts⟩ :=
        write_crash_points s h i 0 data f v cs A B (inv_mok hinv) hh hf hv hvi hmode hg hhint hok hcur hown
      obtain ⟨k2, r2, s2, f2, v2, cs2, hrun2, _, _, heq2, _, hsg2, _, _, _, _, _, _, _, _, hframe2, _⟩ :=
        write_refines_spelled s h i 0 data f v cs A B (inv_mok hinv) hh hf hv hvi hmode hg hhint hok hcur hown
      rw [hrun] at hrun2
      have es : s' = s2 := congrArg Prod.snd hrun2
      subst es
      have hvols' : s'.vols = [v2] := by rw [heq2]; show s.vols.set 0 v2 = _; rw [hvols]; rfl
      rw [hrun, htv]
      refine ⟨chains', by rw [hrun] at hinv'; exact hinv', by rw [theVol_eq hvols']; exact hsg2,
        fun X hX => hframe2 X (hmemAB X hX), fun j X hX => ((hpts j).2.1 X (hmemAB X hX))⟩

/-- **Histories of `write` calls.** -/
theorem write_history_crash (ws : List (Nat × Bytes)) : ∀ (s : Mgr) (chains rest : List (List Nat)), DataInv s chains rest →
    ∀ (n : Nat) (w : Nat × Bytes), ws[n]? = some w → ∀ j X, X ∈ rest →
      Chain (theVol s) (crashDisk (runWrites s (ws.take n)).dev.disk
        (newWritesM (runWrites s (ws.take n)) (Model.write w.1 w.2 (runWrites s (ws.take n))).2) j) (X.headD 0) X ∧
      chainBytes (theVol s) (crashDisk (runWrites s (ws.take n)).dev.disk
        (newWritesM (runWrites s (ws.take n)) (Model.write w.1 w.2 (runWrites s (ws.take n))).2) j) X =
        chainBytes (theVol s) s.dev.disk X := by
  induction ws with
  | nil => intro s chains rest _ n w hw; cases hw
  | cons w0 ws ih =>
    intro s chains rest hinv n w hw j X hX
    obtain ⟨chains1, hinv1, hsg1, hbytes1, hcr1⟩ := write_step_crash s chains rest hinv w0.1 w0.2
    cases n with
    | zero =>
      simp only [List.getElem?_cons_zero, Option.some.injEq] at hw
      subst hw
      exact hcr1 j X hX
    | succ n =>
      simp only [List.getElem?_cons_succ] at hw
      have := ih (Model.write w0.1 w0.2 s).2 chains1 rest hinv1 n w hw j X hX
      have hrw : runWrites s ((w0 :: ws).take (n + 1)) = runWrites (Model.write w0.1 w0.2 s).2 (ws.take n) := rfl
      rw [hrw]
      obtain ⟨hch, hby⟩ := this
      refine ⟨chain_sameGeom hsg1.symm hch, ?_⟩
      rw [← sameGeom_chainBytes hsg1, hby, sameGeom_chainBytes hsg1, hbytes1 X hX]

end Sdmmc.Lemmas.CrashWriteHist
