/-
Tie of the SD-card driver to the source text, part 6: the closure of `acquire` never panics; `acquire` (the trailing
byte, `result.and(..)`, `card_type = None` on any failure), `check_init`, `mark_card_uninit`.
-/
import Sdmmc.Lemmas.GenSd5
import Sdmmc.Lemmas.GenSdNp

namespace Sdmmc.Lemmas.GenSd
open Sdmmc.Model Sdmmc.Model.Sd Sdmmc.Gen Sdmmc.Lemmas.Sd

variable {σ : Type} (B : BusOps σ)

/-! ### `acquire` never panics before its outcome is inspected -/

theorem np_waitResponse (c n : Nat) : NoPanic (waitResponse B c n) := by
  induction n with
  | zero => exact np_bind (np_readByte B) fun a => np_ite _ (np_pure _) (np_fail _)
  | succ k ih => exact np_bind (np_readByte B) fun a => np_ite _ (np_pure _) (np_bind (np_delayTick B) fun _ => ih)
theorem np_cardCommand (c a : Nat) : NoPanic (cardCommand B c a) := by
  unfold cardCommand
  exact np_ite _
    (np_bind (np_waitNotBusy B _) fun _ => np_bind (np_xferEv B _) fun _ =>
      np_ite _ (np_bind (np_readByte B) fun _ => np_waitResponse B _ _) (np_waitResponse B _ _))
    (np_bind (np_xferEv B _) fun _ =>
      np_ite _ (np_bind (np_readByte B) fun _ => np_waitResponse B _ _) (np_waitResponse B _ _))
theorem np_cardAcmd (c a : Nat) : NoPanic (cardAcmd B c a) := np_bind (np_cardCommand B _ _) fun _ => np_cardCommand B _ _
theorem np_flushBytes (n : Nat) : NoPanic (flushBytes B n) := by
  induction n with
  | zero => exact np_pure _
  | succ k ih => exact np_bind (np_writeByte B _) fun _ => ih
theorem np_enterStep (next : Option (S σ Unit))
    (hk : NoPanic (match next with
      | none => S.fail .CardNotFound
      | some k => delayTick B >>= fun _ => k)) : NoPanic (enterSpiModeStep B next) := by
  unfold enterSpiModeStep
  refine np_attempt_bind (np_cardCommand B _ _) fun r hr => np_bind ?_ fun again => np_ite _ (np_pure _) hk
  cases r with
  | panic q => exact absurd rfl (hr q)
  | ok r1 => exact np_pure _
  | err e =>
    cases e <;> try exact np_fail _
    rename_i c
    rcases c with _ | c
    · exact np_bind (np_flushBytes B _) fun _ => np_pure _
    · exact np_fail _
theorem np_enterSpiMode (n : Nat) : NoPanic (enterSpiMode B n) := by
  induction n with
  | zero => rw [enterSpiMode]; exact np_enterStep B none (np_fail _)
  | succ j ih => rw [enterSpiMode]; exact np_enterStep B _ (np_bind (np_delayTick B) fun _ => ih)
theorem np_versionStep (next : Option (S σ (CardType × Nat)))
    (hk : NoPanic (match next with
      | none => S.fail (.TimeoutCommand CMD8)
      | some k => delayTick B >>= fun _ => k)) : NoPanic (checkVersionStep B next) := by
  unfold checkVersionStep
  exact np_bind (np_cardCommand B _ _) fun _ => np_ite _ (np_pure _) (np_bind (np_xferEv B _) fun _ => np_ite _ (np_pure _) hk)
theorem np_checkVersion (n : Nat) : NoPanic (checkVersion B n) := by
  induction n with
  | zero => rw [checkVersion]; exact np_versionStep B none (np_fail _)
  | succ j ih => rw [checkVersion]; exact np_versionStep B _ (np_bind (np_delayTick B) fun _ => ih)
theorem np_readyStep (arg : Nat) (next : Option (S σ Unit))
    (hk : NoPanic (match next with
      | none => S.fail (.TimeoutACommand ACMD41)
      | some k => delayTick B >>= fun _ => k)) : NoPanic (waitReadyStep B arg next) := by
  unfold waitReadyStep
  exact np_bind (np_cardAcmd B _ _) fun _ => np_ite _ (np_pure _) hk
theorem np_waitReady (arg n : Nat) : NoPanic (waitReady B arg n) := by
  induction n with
  | zero => rw [waitReady]; exact np_readyStep B arg none (np_fail _)
  | succ j ih => rw [waitReady]; exact np_readyStep B arg _ (np_bind (np_delayTick B) fun _ => ih)
theorem np_setCardType (ct : CardType) : NoPanic (setCardType ct : S σ Unit) := fun _ _ h => by cases h
theorem np_acquireBody : NoPanic (acquireBody B) := by
  rw [acquireBody_eq]
  refine np_bind np_get fun s => np_bind (np_enterSpiMode B _) fun _ => ?_
  have tail : NoPanic (checkVersion B DEFAULT_COMMAND_RETRIES >>= fun (x : CardType × Nat) =>
      waitReady B x.2 DEFAULT_COMMAND_RETRIES >>= fun _ =>
      (if x.1 = .SD2 then cardCommand B CMD58 0 >>= fun r => if r ≠ 0 then S.fail .Cmd58Error else
          xferEv B (.dataIn 4) >>= fun buf => if (buf.getD 0 0).toNat / 64 = 3 then pure CardType.SDHC else pure x.1
        else pure x.1 : S σ CardType) >>= fun ct => setCardType ct) :=
    np_bind (np_checkVersion B _) fun x => np_bind (np_waitReady B _ _) fun _ =>
      np_bind (np_ite _ (np_bind (np_cardCommand B _ _) fun _ => np_ite _ (np_fail _)
        (np_bind (np_xferEv B _) fun _ => np_ite _ (np_pure _) (np_pure _))) (np_pure _)) fun _ => np_setCardType _
  exact np_ite _ (np_bind (np_cardCommand B _ _) fun r => np_ite _ (np_bind (np_fail _) fun _ => tail) tail) tail

theorem acquire_eq : FunsSd.acquire B = acquire B := by
  unfold FunsSd.acquire acquire
  rw [acquire_f_eq, read_byte_eq]
  funext s
  simp only [bind_apply, attempt_apply]
  have h1 := np_acquireBody B s
  rcases hb : acquireBody B s with ⟨r, s1⟩
  rw [hb] at h1
  simp only []
  have h2 := np_readByte B s1
  rcases ht : readByte B s1 with ⟨t, s2⟩
  rw [ht] at h2
  cases r with
  | panic q => exact absurd rfl (h1 q)
  | err e => cases t <;> rfl
  | ok u =>
    cases t with
    | panic q => exact absurd rfl (h2 q)
    | ok x => rfl
    | err e => rfl

theorem check_init_eq : FunsSd.check_init B = checkInit B := by
  unfold FunsSd.check_init checkInit
  rw [acquire_eq]
  congr 1
  funext st
  cases st.cardType <;> rfl

theorem mark_card_uninit_eq : FunsSd.mark_card_uninit B = fun s => (.ok (), { s with cardType := none }) := rfl

end Sdmmc.Lemmas.GenSd
