/-
C11, arbitrary fault placement — HANDLES STAY USABLE and RETRY from the invariant up to the schedule WITH LOST CHAINS
(`VolInvX X (mclr s) gh`): `close_file` under a pending schedule, closing everything once the schedule is exhausted,
the retry of a read-only call, and the weak invariant `Spec.Volume.FaultInv s gh X`.
(The statements of `FaultHistUse`, from `VolInvX X`; `drain_exhausted` without the clause about mounting, which rests
on the licence theory of C04 and identical FAT copies.)
-/
import Sdmmc.Lemmas.FaultHistUse
import Sdmmc.Lemmas.FaultXDrain
import Sdmmc.Lemmas.FaultXRetryB
import Sdmmc.Lemmas.FaultXRun

namespace Sdmmc.Lemmas.FaultX
open Sdmmc.Lemmas.FaultHist Sdmmc.Lemmas.VolX
open Sdmmc.Model Sdmmc.Model.Fat Sdmmc.Spec.Volume
open Sdmmc.Spec hiding NoFault Coherent
open Sdmmc.Lemmas.VolApi Sdmmc.Lemmas.MHoare Sdmmc.Lemmas.FaultInv Sdmmc.Lemmas.Retry

variable {X : List (List Nat)}

/-- `close_file` of an open file, from the invariant up to the schedule and lost chains, whatever is scheduled: `Ok`
unless a device call of it fails (then an error); one handle has left the table, the other tables are the same. -/
theorem closeFile_ok_or_fault {s : Mgr} {gh : Ghost} (hI : VolInvX X (mclr s) gh) {file : Nat}
    (hf : file ∈ s.files.map (·.rawFile)) :
    ((step s (.closeFile file)).2.result = .ok .unit ∨
      ((step s (.closeFile file)).1.dev.failed ≠ s.dev.failed ∧ ∃ e, (step s (.closeFile file)).2.result = .err e)) ∧
    (step s (.closeFile file)).1.files.length + 1 = s.files.length ∧
    (step s (.closeFile file)).1.dirs = s.dirs ∧
    (step s (.closeFile file)).1.vols.map (·.rawVolume) = s.vols.map (·.rawVolume) := by
  have hl : s.locked = false := hI.unlocked
  refine ⟨?_, ?_⟩
  · by_cases hq : (step s (.closeFile file)).1.dev.failed = s.dev.failed
    · left
      obtain ⟨e1, _⟩ := FaultHist.step_erase s (.closeFile file) hq
      rw [← e1]
      obtain ⟨i, x, hi, hx, hk⟩ := findIdx?_some_of_mem (mclr s).files (·.rawFile) file hf
      exact (FaultX.step_closeFile_ok hI hi).1
    · exact .inr ⟨hq, Fault.step_reported s _ hq⟩
  · obtain ⟨i, x, hx, hk, hc⟩ := Tables.closeFile_open (s := resetLogs s) hf
    have hfr := Tables.resp_flushFile file (resetLogs s)
    have hr : (runOp (.closeFile file) (resetLogs s)).2 =
        { (flushFile file (resetLogs s)).2 with files := swapRemove (flushFile file (resetLogs s)).2.files i } := by
      show ((closeFile file >>= fun _ => pure Payload.unit) (resetLogs s)).2 = _
      rw [bind_def, hc]
      cases (flushFile file (resetLogs s)).1 <;> rfl
    rw [MHoare.step_unlocked s _ hl]
    show (runOp (.closeFile file) (resetLogs s)).2.files.length + 1 = _ ∧
      (runOp _ (resetLogs s)).2.dirs = _ ∧ (runOp _ (resetLogs s)).2.vols.map _ = _
    rw [hr]
    have hi : i < (flushFile file (resetLogs s)).2.files.length := by
      rcases Nat.lt_or_ge i (flushFile file (resetLogs s)).2.files.length with h | h
      · exact h
      · have : (flushFile file (resetLogs s)).2.files[i]? = none := by simp [h]
        rw [this] at hx; cases hx
    refine ⟨?_, hfr.dirs, hfr.volHandles⟩
    show (swapRemove _ i).length + 1 = _
    rw [Tables.swapRemove_length _ i hi, hfr.files_length]
    have : 0 < (resetLogs s).files.length := by rw [← hfr.files_length]; omega
    show (resetLogs s).files.length - 1 + 1 = (resetLogs s).files.length
    omega

/-- **Closing everything** from the invariant up to an EXHAUSTED schedule and lost chains: the files, then the
directories, then the volume.  Every call answers `Ok`; afterwards all three tables are empty and `has_open_handles` is
`false`; no device call failed; the invariant holds at the end with THE SAME lost chains. -/
theorem drain_exhausted {s : Mgr} {gh : Ghost} (hI : VolInvX X (mclr s) gh) (hx : Exhausted s.dev) :
    ∃ (fs ds vs : List Nat), fs.Perm (s.files.map (·.rawFile)) ∧ ds.Perm (s.dirs.map (·.rawDirectory)) ∧
      vs = s.vols.map (·.rawVolume) ∧
      let ops := fs.map Op.closeFile ++ ds.map Op.closeDir ++ vs.map Op.closeVolume
      (∀ o, o ∈ (run s ops).2 → o.result = .ok .unit) ∧
      (run s ops).1.files = [] ∧ (run s ops).1.dirs = [] ∧ (run s ops).1.vols = [] ∧
      hasOpenHandles (run s ops).1 = false ∧
      (run s ops).1.dev.failed = s.dev.failed ∧
      (∃ gh', VolInvX X (mclr (run s ops).1) gh' ∧ SameGeom gh.vol gh'.vol) := by
  obtain ⟨fs, ds, vs, hpf, hpd, hvs, h⟩ := FaultX.drain hI
  refine ⟨fs, ds, vs, hpf, hpd, hvs, ?_⟩
  intro ops
  obtain ⟨hok, hf, hd, hv, _, gh', hI', hg'⟩ := h
  obtain ⟨_, k2, k3, k4⟩ := run_exhausted ops s hx
  have hok' : ∀ o, o ∈ (run (mclr s) ops).2 → o.result = .ok .unit := hok
  have hf' : (run (mclr s) ops).1.files = [] := hf
  have hd' : (run (mclr s) ops).1.dirs = [] := hd
  have hv' : (run (mclr s) ops).1.vols = [] := hv
  have hI'' : VolInvX X (run (mclr s) ops).1 gh' := hI'
  rw [k3] at hok'
  rw [k4] at hf' hd' hv' hI''
  have hf2 : (run s ops).1.files = [] := hf'
  have hd2 : (run s ops).1.dirs = [] := hd'
  exact ⟨hok', hf2, hd2, hv', by simp [hasOpenHandles, hf2, hd2], k2, ⟨gh', hI'', hg'⟩⟩

/-- **Retry once the schedule is exhausted**, from the invariant up to the schedule and lost chains. -/
theorem retry_F {s : Mgr} {gh : Ghost} (hI : VolInvX X (mclr s) gh) (hvol : s.vols ≠ []) (op : Op)
    (hop : FaultInv.retryOp op = true) (hfail : (step s op).1.dev.failed ≠ s.dev.failed)
    (hx : Exhausted (step s op).1.dev) :
    (step (step s op).1 op).2.result = (step (mclr s) op).2.result := by
  have h := FaultX.retry_step hI s.dev.faults op hop hvol (by rw [withFaults_mclr]; exact hfail)
  rw [withFaults_mclr] at h
  obtain ⟨_, _, e, _⟩ := step_exhausted (step s op).1 op hx
  rw [← e]
  exact h

/-- The invariant up to the schedule with lost chains `X` implies the weak invariant of `Spec/VolumeFault` with the same
lost chains. -/
theorem faultInv_of_volInvX {s : Mgr} {gh : Ghost} (hI : VolInvX X (mclr s) gh) : Spec.Volume.FaultInv s gh X := by
  refine ⟨hI.coherent, hI.unlocked, hI.maxVols, hI.vols, ?_, hI.fileVols, hI.openDirs⟩
  have hM := medX_of_med hI.med
  refine ⟨hM.blocksOK, hM.geom, hM.hint, hM.owns, ⟨_, hM.tree⟩, fun f hf => ?_⟩
  exact ⟨fileLoose_of_fileOK (hM.fileOK f hf).1, (hM.fileOK f hf).2⟩

end Sdmmc.Lemmas.FaultX
