/-
Refinement of the API to the abstract file system, part 13b: `make_dir_in_dir` (`refines_mkdir`).
-/
import Sdmmc.Lemmas.AbsFsMkdirEng
import Sdmmc.Lemmas.AbsFsOpen
import Sdmmc.Lemmas.VolApiMkdir

namespace Sdmmc.Lemmas.AbsFs
open Sdmmc.Model Sdmmc.Model.Fat Sdmmc.Spec.Volume Sdmmc.Lemmas.VolBase Sdmmc.Lemmas.VolTree
open Sdmmc.Spec hiding NoFault Coherent
open Sdmmc.Spec.AbsFs (Meta view storedMeta fatRound OpenFile OpenDir absStep)
open Sdmmc.Lemmas.VolDisk Sdmmc.Lemmas.VolMed Sdmmc.Lemmas.VolApi Sdmmc.Lemmas.VolEng
open Sdmmc.Lemmas.FBasic (NoFault Coherent)
open Sdmmc.Lemmas.MHoare

/-! ### A state whose directories and files read as before -/

theorem abs_afterVol_sameFs {s : Mgr} {gh gh' : Ghost} {a : AState} (hA : Abs s gh a) {vi : VolInfo} (hv : s.vols = [vi]) (fs' : FS)
    (hgd : gh'.dirs = gh.dirs)
    (hF : SameFs s.files gh.dirs gh.vol s.dev.disk gh.G gh'.vol fs'.dev.disk gh'.G) : Abs (afterVol s vi fs') gh' a := by
  refine ⟨hA.nextId, hA.maxDirs, hA.maxFiles, hA.clock, hA.locked, by rw [hA.vols, hv]; rfl, hA.dirs, ?_, by rw [hA.ids, hgd], ?_⟩
  · refine forall₂_mono hA.files fun af f _ h => ⟨h.handle, h.volume, h.mode, h.pos, h.pm, h.dirty, by rw [hgd]; exact h.dirMem, ?_⟩
    obtain ⟨o, ho, hp⟩ := h.slot
    refine ⟨o, ?_, hp⟩
    show (beforeEnd (dirSlots gh'.vol fs'.dev.disk gh'.G af.dir))[af.idx]? = some o
    rw [hF.views _ h.dirMem]; exact ho
  · intro h hh
    rw [hgd] at hh
    rw [hA.slots h hh]
    unfold absSlots
    show _ = (beforeEnd (dirSlots gh'.vol fs'.dev.disk gh'.G h)).map (absSlot gh'.vol.fatType (contentOf gh'.vol fs'.dev.disk gh'.G s.files))
    rw [hF.views h hh, hF.ft]
    apply List.map_congr_left
    intro o ho
    apply absSlot_cont_congr
    intro hk hd
    unfold contentOf
    rw [hF.ft]
    exact (hF.bytes h hh o ho hk hd _).symm

/-! ### Directory slots, abstractly -/

/-- The directory a directory entry leads to. -/
theorem dirTarget {ft : FatType} {o : Slot} {c : Nat} (hsc : sCluster ft o = c) (hd : isDirE o = true) (hne : c ≠ 0xFFFFFFFC) :
    dirIdOf (Listing.decode ft o).cluster = c := by
  rw [(decode_fields ft o).2.2.2.2.2, hsc]
  have hattr : sAttr o / 16 % 2 = 1 := by
    unfold isDirE at hd
    exact of_decide_eq_true hd
  by_cases h0 : c = 0
  · rw [if_pos ⟨h0, hattr⟩, h0]; rfl
  · rw [if_neg (fun h => h0 h.1)]
    unfold dirIdOf
    exact if_neg hne

theorem fits_lt {ft : FatType} {c : Nat} (h : ClusterFits ft c) : c < 4294967296 := by
  unfold ClusterFits at h
  cases ft <;> simp only at h <;> omega

/-- A directory entry made by `make_dir` (the entry in the parent, `.`, `..`), read abstractly. -/
theorem absSlot_newDir (ft : FatType) (cont : Slot → Bytes) (e : DirEntry) (b off : Nat) (hn : e.name.length = 11)
    (ha : e.attributes = 16) (hsz : e.size = 0) (h5 : byteAt e.name 0 ≠ 0xE5) {cl : Nat}
    (hcl : e.cluster = cl) (hc : ClusterFits ft cl) (hne : cl ≠ 0xFFFFFFFC) :
    absSlot ft cont (b, off, DirEntry.serialize ft e) = .dir (storedMeta (view e)) cl := by
  have hd := isDot_serialize ft e b off hn ha hcl hc
  obtain ⟨hsn, hde, hfr, hsc⟩ := hd
  have hfirst : first (b, off, DirEntry.serialize ft e) = byteAt e.name 0 := serialize_first ft e b off hn
  have hk : keep (b, off, DirEntry.serialize ft e) = true := by
    unfold keep
    rw [hfirst, hfr]
    simp [h5]
  rw [absSlot_dir hk hde, dirTarget hsc hde hne,
    metaOf_serialize ft e b off hn (by rw [ha]; decide) (by rw [hsz]; decide) (by rw [hcl]; exact fits_lt hc)]

/-! ### The abstract call, case by case -/

section
variable {a : AState} {d : Nat} {name : List Nat} {od : OpenDir} {sfn : Bytes}

theorem mkdirS_full (h : a.dirs.length ≥ a.maxDirs) : Spec.AbsFs.mkdirS a d name a (.err .TooManyOpenDirs) := by
  unfold Spec.AbsFs.mkdirS
  rw [if_pos h]
  exact ⟨rfl, rfl⟩

theorem mkdirS_bad {e : Err} (hnf : ¬ a.dirs.length ≥ a.maxDirs) (h : Spec.AbsFs.dirCtx a d name = .error e) :
    Spec.AbsFs.mkdirS a d name a (.err e) := by
  unfold Spec.AbsFs.mkdirS
  rw [if_neg hnf, h]
  exact ⟨rfl, rfl⟩

theorem mkdirS_dir {i : Nat} {m : Meta} {t : Nat} (hnf : ¬ a.dirs.length ≥ a.maxDirs)
    (hctx : Spec.AbsFs.dirCtx a d name = .ok (od, sfn))
    (hlk : Spec.AbsFs.lookup (a.slots od.dir) sfn = some i) (hsl : (a.slots od.dir)[i]? = some (.dir m t)) :
    Spec.AbsFs.mkdirS a d name a (.err .DirAlreadyExists) := by
  unfold Spec.AbsFs.mkdirS
  rw [if_neg hnf, hctx]
  dsimp only
  rw [hlk]
  dsimp only
  rw [hsl]
  exact ⟨rfl, rfl⟩

theorem mkdirS_file {i : Nat} {m : Meta} {bytes : Bytes} (hnf : ¬ a.dirs.length ≥ a.maxDirs)
    (hctx : Spec.AbsFs.dirCtx a d name = .ok (od, sfn))
    (hlk : Spec.AbsFs.lookup (a.slots od.dir) sfn = some i) (hsl : (a.slots od.dir)[i]? = some (.file m bytes)) :
    Spec.AbsFs.mkdirS a d name a (.err .FileAlreadyExists) := by
  unfold Spec.AbsFs.mkdirS
  rw [if_neg hnf, hctx]
  dsimp only
  rw [hlk]
  dsimp only
  rw [hsl]
  exact ⟨rfl, rfl⟩

theorem mkdirS_nospace (hnf : ¬ a.dirs.length ≥ a.maxDirs) (hctx : Spec.AbsFs.dirCtx a d name = .ok (od, sfn))
    (hlk : Spec.AbsFs.lookup (a.slots od.dir) sfn = none) : Spec.AbsFs.mkdirS a d name a (.err .NotEnoughSpace) := by
  unfold Spec.AbsFs.mkdirS
  rw [if_neg hnf, hctx]
  dsimp only
  rw [hlk]
  exact .inl ⟨rfl, rfl⟩

theorem mkdirS_ok (hnf : ¬ a.dirs.length ≥ a.maxDirs) (hctx : Spec.AbsFs.dirCtx a d name = .ok (od, sfn))
    (hlk : Spec.AbsFs.lookup (a.slots od.dir) sfn = none) (c : Nat) (hc : c ∉ a.ids) :
    Spec.AbsFs.mkdirS a d name { Spec.AbsFs.setSlot a od.dir (Spec.AbsFs.freeIdx (a.slots od.dir)) (.dir (storedMeta (Spec.AbsFs.newMeta sfn Gen.ATTR_DIRECTORY a.clock)) c) with ids := a.ids ++ [c], slots := fun x => if x = c then [.dir { storedMeta (Spec.AbsFs.newMeta sfn Gen.ATTR_DIRECTORY a.clock) with name := Sfn.thisDir } c, .dir { storedMeta (Spec.AbsFs.newMeta sfn Gen.ATTR_DIRECTORY a.clock) with name := Sfn.parentDir } od.dir] else (Spec.AbsFs.setSlot a od.dir (Spec.AbsFs.freeIdx (a.slots od.dir)) (.dir (storedMeta (Spec.AbsFs.newMeta sfn Gen.ATTR_DIRECTORY a.clock)) c)).slots x }
      (.ok .unit) := by
  unfold Spec.AbsFs.mkdirS
  rw [if_neg hnf, hctx]
  dsimp only
  rw [hlk]
  exact .inr ⟨c, hc, rfl, rfl⟩

end

/-! ### `make_dir_in_dir` -/

theorem dirIds_append (dirs : List (Nat × Nat)) (c p : Nat) : dirIds (dirs ++ [(c, p)]) = dirIds dirs ++ [c] := by
  unfold dirIds
  rw [List.map_append]
  rfl

theorem refines_mkdir (d : Nat) (name : List Nat) {s : Mgr} {gh : Ghost} {a : AState} (hI : VolInv s gh) (hA : Abs s gh a)
    (hname : ∀ sfn, Sfn.createFromStr name = .ok sfn → sfn.head? ≠ some 0xE5) : Refines (.mkdir d name) s gh a := by
  have hl : a.locked = false := hA.locked.trans hI.unlocked
  unfold Refines
  rw [show runOp (.mkdir d name) s = (makeDirInDir d name >>= fun _ => pure Payload.unit) s from rfl, run_seq]
  have hgoal : ∀ (a' : AState) (r : Res Payload), absStep a (.mkdir d name) (a', r) ↔ Spec.AbsFs.mkdirS a d name a' r := by
    intro a' r
    unfold absStep
    rw [if_neg (by rw [hl]; exact Bool.false_ne_true)]
  unfold makeDirInDir
  rw [get_bind]
  by_cases hfull : s.dirs.length ≥ s.maxDirs
  · rw [if_pos hfull]
    refine ⟨gh, a, hI, SameGeom.refl _, hA, (hgoal a _).2 (mkdirS_full ?_)⟩
    rw [hA.dirs, hA.maxDirs, List.length_map]; exact hfull
  rw [if_neg hfull]
  have hnf : ¬ a.dirs.length ≥ a.maxDirs := by rw [hA.dirs, hA.maxDirs, List.length_map]; exact hfull
  cases hidx : s.dirs.findIdx? (·.rawDirectory = d) with
  | none =>
    rw [bind_err (getDirById_bad hidx)]
    exact ⟨gh, a, hI, SameGeom.refl _, hA, (hgoal a _).2 (mkdirS_bad hnf (dirCtx_bad (dirOf_none hA hidx)))⟩
  | some i =>
    obtain ⟨di, hdi, hdim, hdo⟩ := dirOf_some hA hidx
    rw [bind_ok (getDirById_ok hidx), bind_ok (getDir_ok hdi)]
    cases hva : (s.vols.any fun x => decide (x.rawVolume = di.rawVolume)) with
    | false =>
      rw [bind_err (getVolumeById_bad (volume_missing hva))]
      rw [hva] at hdo
      exact ⟨gh, a, hI, SameGeom.refl _, hA, (hgoal a _).2 (mkdirS_bad hnf (dirCtx_bad hdo))⟩
    | true =>
      obtain ⟨vi, hvs, hvol, hraw, hvfind⟩ := volume_found hI hva
      rw [bind_ok (getVolumeById_ok hvfind)]
      rw [hva] at hdo
      have hdo' : Spec.AbsFs.dirOf a d = .ok (absDir di) := hdo
      cases hs : Sfn.createFromStr name with
      | error e =>
        rw [bind_err (Modes.toSfn_err hs s)]
        exact ⟨gh, a, hI, SameGeom.refl _, hA, (hgoal a _).2 (mkdirS_bad hnf (dirCtx_name hdo' hs))⟩
      | ok sfn =>
        rw [bind_ok (Modes.toSfn_ok hs s)]
        have hctx := dirCtx_ok hdo' hs
        have hdv := hI.openDirs di hdim
        have hM := medX_of_med hI.med
        obtain ⟨hid, _⟩ := validDir_id hM hdv
        obtain ⟨r, fs', hlk, hdisk, hvol', h1, hcase⟩ := lookup_found hI hvs hvol hdv sfn (hname sfn hs)
        have hA1 : Abs (afterVol s vi fs') gh a := abs_afterVol hA hvs fs' hdisk
        have hvs1 : (afterVol s vi fs').vols = [{ vi with vol := fs'.vol }] := rfl
        have hsl : a.slots (dirIdOf di.cluster) = absSlots (afterVol s vi fs') gh (dirIdOf di.cluster) := hA1.slots _ hid
        rw [attempt_bind, hlk]
        set s1 := afterVol s vi fs' with hs1
        rcases hcase with ⟨hr, hfresh⟩ | ⟨e, o, hr, hF⟩
        swap
        · -- the name exists
          subst hr
          obtain ⟨j, hlkj, hoj, hkeep⟩ := found_index h1 hdv hF (contOf s1 gh)
          have hlkA : Spec.AbsFs.lookup (a.slots (absDir di).dir) sfn = some j := by
            show Spec.AbsFs.lookup (a.slots (dirIdOf di.cluster)) sfn = some j
            rw [hsl, absSlots_eq]; exact hlkj
          have hslotA : (a.slots (absDir di).dir)[j]? = some (absSlot gh.vol.fatType (contOf s1 gh) o) := by
            show (a.slots (dirIdOf di.cluster))[j]? = _
            rw [hsl, absSlots_eq, List.getElem?_map, hoj]; rfl
          obtain ⟨hen, hea, hes, heb, heo, hnd⟩ := hF.fields
          by_cases hde : isDirE o = true
          · have hisd : Attr.isDirectory e.attributes = true := by rw [hea]; exact hde
            dsimp only
            rw [if_pos hisd]
            rw [absSlot_dir hkeep hde] at hslotA
            exact ⟨gh, a, h1, SameGeom.refl _, hA1, (hgoal a _).2 (mkdirS_dir hnf hctx hlkA hslotA)⟩
          · have hde' : isDirE o = false := by simpa using hde
            have hdir' : Attr.isDirectory e.attributes = false := by rw [hea]; exact hde'
            dsimp only
            rw [if_neg (by rw [hdir']; exact Bool.false_ne_true)]
            rw [absSlot_file hkeep hde'] at hslotA
            exact ⟨gh, a, h1, SameGeom.refl _, hA1, (hgoal a _).2 (mkdirS_file hnf hctx hlkA hslotA)⟩
        -- the name is fresh: the directory is made
        subst hr
        dsimp only
        have hlkA : Spec.AbsFs.lookup (a.slots (absDir di).dir) sfn = none := by
          show Spec.AbsFs.lookup (a.slots (dirIdOf di.cluster)) sfn = none
          rw [hsl, absSlots_eq]
          exact fresh_lookup (s := s1) (by rw [show s1.dev.disk = s.dev.disk from hdisk]; exact hfresh) _
        rw [withVol_one _ hvs1 hvol']
        obtain ⟨hn1, hc1, hM1⟩ := volInv_fs h1
        have hfresh1 : sfn ∉ (entries (dirSlots (fsOf s1 gh).vol (fsOf s1 gh).dev.disk gh.G (dirIdOf di.cluster))).map sName := by
          show sfn ∉ (entries (dirSlots gh.vol s1.dev.disk gh.G (dirIdOf di.cluster))).map sName
          rw [show s1.dev.disk = s.dev.disk from hdisk]; exact hfresh
        obtain ⟨r2, fs2, hrun2, hn2, hc2, hsg2, hcase2⟩ :=
          makeDir_med_x hM1 hn1 hc1 hdv sfn (sfn_length hs) (sfn_first_nz hs) (first_ne_E5 (hname sfn hs)) hfresh1 s.clock
        rw [hrun2]
        have hsg2' : SameGeom gh.vol fs2.vol := hsg2
        rcases hcase2 with ⟨hr2, hM2, hF2⟩ | ⟨hr2, c, G1, pre, post, old, hMD⟩
        · -- no space
          subst hr2
          have hI2 : VolInv (afterVol s1 { vi with vol := fs'.vol } fs2) { vol := fs2.vol, G := gh.G, dirs := gh.dirs } :=
            volInv_afterVol h1 hvs1 hn2 hc2 rfl hM2 (fun _ h => h)
          exact ⟨_, a, hI2, hsg2', abs_afterVol_sameFs (gh' := { vol := fs2.vol, G := gh.G, dirs := gh.dirs }) hA1 hvs1 fs2 rfl hF2, (hgoal a _).2 (mkdirS_nospace hnf hctx hlkA)⟩
        · -- the directory is made
          subst hr2
          set h := dirIdOf di.cluster with hhdef
          set gh' : Ghost := { vol := fs2.vol, G := G1 ++ [[c]], dirs := gh.dirs ++ [(c, h)] } with hgh'
          set gh'' : Ghost := { vol := fs2.vol, G := G1 ++ [[c]], dirs := gh.dirs } with hgh''
          set s2 := afterVol s1 { vi with vol := fs'.vol } fs2 with hs2
          have hI2 : VolInv s2 gh' := volInv_afterVol h1 hvs1 hn2 hc2 rfl hMD.med (fun _ hc' => validDir_mono hc')
          set new : Slot := (old.1, old.2.1, DirEntry.serialize fs2.vol.fatType (DirEntry.new sfn 16 c s.clock old.1 old.2.1)) with hnew
          have hview' : DirView s2 gh'' h = putL (DirView s1 gh h) pre.length new := hMD.parent
          have hother' : ∀ x, x ∈ dirIds gh.dirs → x ≠ h → DirView s2 gh'' x = DirView s1 gh x := hMD.others
          have hsplitv : beforeEnd (pre ++ old :: post) = DirView s1 gh h := hMD.splitview
          have hidx5 : first old = 0xE5 → (DirView s1 gh h)[pre.length]? = some old := hMD.idx5
          have hidx0 : first old = 0 → (DirView s1 gh h).length = pre.length := hMD.idx0
          have hft : fs2.vol.fatType = gh.vol.fatType := hsg2'.fatType
          have hidx : Spec.AbsFs.freeIdx (a.slots h) = pre.length := by
            rw [hsl, absSlots_eq, ← hsplitv]
            exact freeIdx_abs _ _ rfl hMD.pre_nz hMD.pre_ne5 hMD.free
          have hcsmall : c ≠ 0xFFFFFFFC := by
            have h1' := hMD.lt
            have h2' := hMD.med.geom.count_bound
            cases hft' : fs2.vol.fatType <;> rw [hft'] at h2' <;> simp only at h2' <;> omega
          have hcont : ∀ x, x ∈ dirIds gh.dirs → ∀ k o', (DirView s1 gh x)[k]? = some o' → (x = h → k ≠ pre.length) →
              absSlot gh''.vol.fatType (contOf s2 gh'') o' = absSlot gh.vol.fatType (contOf s1 gh) o' := by
            intro x hx k o' ho' _
            rw [show gh''.vol.fatType = gh.vol.fatType from hft]
            apply absSlot_cont_congr
            intro hk' hd'
            unfold contOf contentOf
            show fileContent fs2.vol fs2.dev.disk (chainOf (G1 ++ [[c]]) (effCluster fs2.vol.fatType s1.files o')) (effSize s1.files o') = _
            rw [hft]
            exact hMD.bytes x hx o' (List.mem_of_getElem? ho') hk' hd' _
          have hnewabs : absSlot gh''.vol.fatType (contOf s2 gh'') new =
              .dir (storedMeta (Spec.AbsFs.newMeta sfn Gen.ATTR_DIRECTORY a.clock)) c := by
            rw [hnew, absSlot_newDir fs2.vol.fatType _ (DirEntry.new sfn 16 c s.clock old.1 old.2.1) old.1 old.2.1 (sfn_length hs) rfl rfl
              (first_ne_E5 (hname sfn hs)) rfl hMD.fits hcsmall, hA.clock]
            rfl
          have hslotsE := slots_edit (s' := s2) (gh' := gh'') hA1 rfl hid hview' hother' hcont
          rw [hnewabs, ← hidx] at hslotsE
          have hnofile : ∀ af1 f1, FileRel s1 gh af1 f1 → f1 ∈ s1.files → af1.dir = h → af1.idx ≠ pre.length := by
            intro af1 f1 hr1 hf1 hd1 hi1
            obtain ⟨o1, ho1, hp1⟩ := hr1.slot
            rw [hd1, hi1] at ho1
            obtain ⟨_, hk1, _⟩ := open_file_object hM1 hf1 hid ho1 hp1
            rcases hMD.free with f0 | f5
            · have hl' := hidx0 f0
              have hlt : pre.length < (DirView s1 gh h).length := (List.getElem?_eq_some_iff.1 ho1).1
              omega
            · have h2' : (DirView s1 gh h)[pre.length]? = some old := hidx5 f5
              have : o1 = old := Option.some.inj (ho1.symm.trans h2')
              rw [this] at hk1
              unfold keep at hk1
              simp [f5] at hk1
          refine ⟨gh', _, hI2, hsg2', ?_, (hgoal _ _).2 (mkdirS_ok hnf hctx hlkA c (by rw [hA.ids]; exact hMD.fresh))⟩
          refine ⟨hA1.nextId, hA1.maxDirs, hA1.maxFiles, hA1.clock, hA1.locked, ?_, hA1.dirs, ?_, ?_, ?_⟩
          · show a.vols = [({ vi with vol := fs2.vol } : VolInfo)].map _
            rw [hA.vols, hvs]; rfl
          · show List.Forall₂ (FileRel s2 gh') a.files s1.files
            refine forall₂_mono hA1.files fun af1 f1 hf1 hr1 => ?_
            have hr2 : FileRel s2 gh'' af1 f1 :=
              fileRel_edit hr1 rfl hview' hother' fun hd1 hi1 => absurd hi1 (hnofile af1 f1 hr1 hf1 hd1)
            refine ⟨hr2.handle, hr2.volume, hr2.mode, hr2.pos, hr2.pm, hr2.dirty, ?_, hr2.slot⟩
            show af1.dir ∈ dirIds (gh.dirs ++ [(c, h)])
            rw [dirIds_append]
            exact List.mem_append_left _ hr1.dirMem
          · show a.ids ++ [c] = dirIds (gh.dirs ++ [(c, h)])
            rw [dirIds_append, hA.ids]
          · intro x hx
            have hx' : x ∈ dirIds gh.dirs ++ [c] := by rw [← dirIds_append gh.dirs c h]; exact hx
            show (if x = c then _ else _) = absSlots s2 gh'' x
            by_cases hxc : x = c
            · rw [if_pos hxc, hxc, absSlots_eq]
              have hchild : DirView s2 gh'' c = _ := hMD.child
              rw [hchild]
              show [_, _] = [_, _]
              rw [absSlot_newDir fs2.vol.fatType _ (DirMake.dotEntry c 16 s.clock (clusterToBlock fs2.vol c)) _ 0 rfl rfl rfl (show byteAt Sfn.thisDir 0 ≠ 0xE5 by decide) rfl
                  hMD.fits hcsmall,
                absSlot_newDir fs2.vol.fatType _ (DirMake.dotdotEntry di.cluster 16 s.clock (clusterToBlock fs2.vol c)) _ 32 rfl rfl rfl
                  (show byteAt Sfn.parentDir 0 ≠ 0xE5 by decide) (cl := h) (by rw [hhdef]; unfold dirIdOf DirMake.dotdotEntry; rfl) hMD.fitsP
                  (by rw [hhdef]; unfold dirIdOf; split <;> [decide; assumption]), hA.clock]
              rfl
            · rw [if_neg hxc]
              rcases List.mem_append.1 hx' with hx'' | hx''
              · exact hslotsE x hx''
              · exact absurd (List.mem_singleton.1 hx'') hxc

end Sdmmc.Lemmas.AbsFs
