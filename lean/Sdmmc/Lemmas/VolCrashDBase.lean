/-
Clause 5 of C10 at API level (`Props/C10Init.lean`): the crash-point predicate `CIXP P` — `CIX` of `VolCrashXBase.lean`
together with `DirClustersInit v P d gh` (`Spec/VolumeInit.lean`): every cluster of every directory of the crash ghost
satisfies `P` (read: was in use before the call) or is an `InitCluster`.

`VolCrashXBase.lean` / `VolCrashXStep.lean` restated for `CIXP P`; every boundary lemma takes the clause for the boundary
state (`hD : DirClustersInit v P d0 gh`) and transfers it to the crash ghost, whose directories, directory chains and
directory blocks are those of the boundary (`cixp_of_record`).
-/
import Sdmmc.Spec.VolumeInit
import Sdmmc.Lemmas.VolCrashXStep

namespace Sdmmc.Lemmas.VolCrashD
open Sdmmc.Model Sdmmc.Model.Fat Sdmmc.Spec.Volume
open Sdmmc.Spec hiding NoFault Coherent run step
open Sdmmc.Lemmas.FBasic
open Sdmmc.Lemmas.VolBase Sdmmc.Lemmas.VolTree Sdmmc.Lemmas.VolMed Sdmmc.Lemmas.VolDisk
open Sdmmc.Lemmas.CrashBase Sdmmc.Lemmas.VolCrash Sdmmc.Lemmas.VolCrashX
open Sdmmc.Lemmas.FatOps (RO)

/-! ### Vocabulary -/

theorem dirClusters_eq (v : FatVolume) (G : List (List Nat)) (h : Nat) : dirClusters v G h = dirChain v G h := by
  unfold dirClusters dirChain isFixedRoot dirHead
  by_cases h0 : h = 0
  · subst h0
    simp only [if_true, true_and]
    split
    · next hft => rw [if_pos hft]
    · next hft => rw [if_neg (by rw [hft]; exact fun e => by cases e)]
  · simp [h0]

/-- `CIX` with the clause on the clusters of the directories. -/
def CIXP (P : Nat → Prop) (v : FatVolume) (d : Disk) : Prop :=
  ∃ gh X, CrashCore v d gh ∧ Owns v d (gh.G ++ X) ∧ EmptyNoCluster v.fatType gh.dirs (dirSlots v d gh.G) ∧
    DirClustersInit v P d gh

theorem CIXP.cix {P : Nat → Prop} {v : FatVolume} {d : Disk} (h : CIXP P v d) : CIX v d := by
  obtain ⟨gh, X, h1, h2, h3, _⟩ := h
  exact ⟨gh, X, h1, h2, h3⟩

theorem initCluster_congr {v : FatVolume} {d d' : Disk} {c : Nat}
    (h : ∀ j, j < v.blocksPerCluster → d'.get (clusterToBlock v c + j) = d.get (clusterToBlock v c + j)) (hpos : 0 < v.blocksPerCluster)
    (hI : InitCluster v d c) : InitCluster v d' c := by
  refine ⟨fun i hi => ?_, fun j h0 hj => ?_⟩
  · have := h 0 hpos
    rw [Nat.add_zero] at this
    rw [this]; exact hI.1 i hi
  · rw [h j hj]; exact hI.2 j h0 hj

theorem initCluster_of_zero {v : FatVolume} {d : Disk} {c : Nat} (hz : ClusterZero v d c) (hpos : 0 < v.blocksPerCluster) :
    InitCluster v d c := by
  refine ⟨fun i _ => ?_, fun j _ hj => hz j hj⟩
  have := hz 0 hpos
  rw [Nat.add_zero] at this
  rw [this]
  unfold byteAt zeroBlock zeros
  by_cases hi : i < 512
  · rw [List.getD_eq_getElem?_getD, List.getElem?_replicate, if_pos hi]; rfl
  · rw [List.getD_eq_getElem?_getD, List.getElem?_replicate, if_neg hi]; rfl

/-- Every directory cluster satisfies `P`: the clause holds whatever the medium. -/
theorem dirInit_of_all {v : FatVolume} {P : Nat → Prop} {d : Disk} {gh : Ghost}
    (h : ∀ x, x ∈ dirIds gh.dirs → ∀ c, c ∈ dirClusters v gh.G x → P c) : DirClustersInit v P d gh :=
  fun x hx c hc => .inl (h x hx c hc)

/-- A block of a cluster of a chained directory is the block of one of its slots. -/
theorem dirCluster_block_slot {v : FatVolume} {d : Disk} {G : List (List Nat)} {h c j : Nat} (hf : ¬ isFixedRoot v h)
    (hc : c ∈ dirChain v G h) (hj : j < v.blocksPerCluster) : ∃ s, s ∈ dirSlots v d G h ∧ s.1 = clusterToBlock v c + j := by
  rw [dirSlots_eq, if_neg hf]
  refine ⟨(clusterToBlock v c + j, 32 * 0, ((d.get (clusterToBlock v c + j)).drop (32 * 0)).take 32), ?_, rfl⟩
  unfold chainSlots
  exact List.mem_flatMap.2 ⟨c, hc, VolDisk.mem_runSlots.2 ⟨j, 0, hj, by decide, rfl⟩⟩

theorem dirClusters_fixed {v : FatVolume} {G : List (List Nat)} {h : Nat} (hf : isFixedRoot v h) : dirClusters v G h = [] := by
  rw [dirClusters_eq]; unfold dirChain; rw [if_pos hf]

/-- The clause moves to a ghost with the same directories and directory chains, on a medium with the same directory
blocks. -/
theorem dirInit_transfer {v : FatVolume} {P : Nat → Prop} {d0 d : Disk} {gh gh' : Ghost} (hpos : 0 < v.blocksPerCluster)
    (hD : DirClustersInit v P d0 gh) (hdirs : gh'.dirs = gh.dirs)
    (hch : ∀ h, h ∈ dirIds gh.dirs → dirClusters v gh'.G h = dirClusters v gh.G h)
    (hblk : ∀ h, h ∈ dirIds gh.dirs → ∀ s, s ∈ dirSlots v d0 gh.G h → d.get s.1 = d0.get s.1) :
    DirClustersInit v P d gh' := by
  intro h hh c hc
  rw [hdirs] at hh
  rw [hch h hh] at hc
  rcases hD h hh c hc with hp | hi
  · exact .inl hp
  · refine .inr (initCluster_congr (fun j hj => ?_) hpos hi)
    by_cases hf : isFixedRoot v h
    · rw [dirClusters_fixed hf] at hc; cases hc
    · rw [dirClusters_eq] at hc
      obtain ⟨s, hs, he⟩ := dirCluster_block_slot (d := d0) hf hc hj
      rw [← he]
      exact hblk h hh s hs

section Bridge
variable {v : FatVolume} {d : Disk} {files : List FileInfo} {gh : Ghost} {X : List (List Nat)} {P : Nat → Prop}

theorem dirClusters_rawChains (hM : MedX v d files gh X) (hR : RawOK v.fatType d files) {h : Nat} (hh : h ∈ dirIds gh.dirs) :
    dirClusters v (rawChains v d gh) h = dirClusters v gh.G h := by
  rw [dirClusters_eq, dirClusters_eq]
  unfold dirChain
  by_cases hf : isFixedRoot v h
  · rw [if_pos hf, if_pos hf]
  · rw [if_neg hf, if_neg hf, chainOf_rawChains hM hR (dirHead_rawRefs hh hf)]

/-- A cluster of a directory is in use. -/
theorem dirCluster_used (hM : MedX v d files gh X) {h c : Nat} (hh : h ∈ dirIds gh.dirs) (hc : c ∈ dirClusters v gh.G h) :
    isUsed v d c := by
  by_cases hf : isFixedRoot v h
  · rw [dirClusters_fixed hf] at hc; cases hc
  · rw [dirClusters_eq] at hc
    unfold dirChain at hc
    rw [if_neg hf] at hc
    obtain ⟨hm, _⟩ := dirChain_spec hM hh hf
    exact (hM.owns.2.2 c).2 (List.mem_flatten_of_mem (List.mem_append_left _ hm) hc)

/-- A cluster of a directory is a cluster of the chains `gh.G`. -/
theorem dirCluster_memG (hM : MedX v d files gh X) {h c : Nat} (hh : h ∈ dirIds gh.dirs) (hc : c ∈ dirClusters v gh.G h) :
    c ∈ gh.G.flatten := by
  by_cases hf : isFixedRoot v h
  · rw [dirClusters_fixed hf] at hc; cases hc
  · rw [dirClusters_eq] at hc
    unfold dirChain at hc
    rw [if_neg hf] at hc
    exact List.mem_flatten_of_mem (dirChain_spec hM hh hf).1 hc

theorem memG_used (hM : MedX v d files gh X) {c : Nat} (hc : c ∈ gh.G.flatten) : isUsed v d c :=
  (hM.owns.2.2 c).2 (by rw [List.flatten_append]; exact List.mem_append_left _ hc)

/-- Every cluster of the chains `gh.G` satisfies `P`: the clause holds (whatever the extra chains `X`). -/
theorem dirInit_of_G (hM : MedX v d files gh X) (hUG : ∀ c, c ∈ gh.G.flatten → P c) : DirClustersInit v P d gh :=
  dirInit_of_all fun _ hh _ hc => hUG _ (dirCluster_memG hM hh hc)

/-- Every cluster in use satisfies `P`: the clause holds. -/
theorem dirInit_of_used (hM : MedX v d files gh X) (hU : ∀ c, isUsed v d c → P c) : DirClustersInit v P d gh :=
  dirInit_of_all fun _ hh _ hc => hU _ (dirCluster_used hM hh hc)

/-- The clusters in use on `d'` are clusters in use on `d`. -/
theorem used_of_sub {d' : Disk} {R R' : List (List Nat)} (hO : Owns v d R) (hO' : Owns v d' R')
    (hsub : ∀ c, c ∈ R'.flatten → c ∈ R.flatten) (hU : ∀ c, isUsed v d c → P c) : ∀ c, isUsed v d' c → P c :=
  fun c hc => hU c ((hO.2.2 c).2 (hsub c ((hO'.2.2 c).1 hc)))

/-- From one boundary state to the next: no cluster came into use. -/
theorem used_of_med {v' : FatVolume} {d' : Disk} {files' : List FileInfo} {gh' : Ghost} {X' : List (List Nat)}
    (hM : MedX v d files gh X) (hs : SameGeom v v') (hM' : MedX v' d' files' gh' X')
    (hsub : ∀ c, c ∈ (gh'.G ++ X').flatten → c ∈ (gh.G ++ X).flatten) (hU : ∀ c, isUsed v d c → P c) :
    ∀ c, isUsed v' d' c → P c := fun c hc =>
  used_of_sub hM.owns (WriteRefines.owns_sameGeom hs.symm hM'.owns) hsub hU c (by rw [hs.isUsed] at hc; exact hc)

/-- The same chains on the next boundary state. -/
theorem used_same {v' : FatVolume} {d' : Disk} {files' : List FileInfo} {gh' : Ghost}
    (hM : MedX v d files gh X) (hv : v' = v) (hM' : MedX v' d' files' gh' X) (hG : gh'.G = gh.G)
    (hU : ∀ c, isUsed v d c → P c) : ∀ c, isUsed v' d' c → P c :=
  used_of_med hM (by rw [hv]; exact SameGeom.refl _) hM' (by rw [hG]; exact fun _ h => h) hU

/-- A write outside the FAT brings no cluster into use. -/
theorem used_set_nonFat (hg : WFGeom v) {b : Nat} {p : Block} (hb : regionOf v b ≠ .fat) {c : Nat}
    (h : isUsed v (d.set b p) c) : isUsed v d c := by
  refine (isUsed_congr_raw (d := d) (d' := d.set b p) ?_).1 h
  have hfr : regionOf v (fatBlock v c) = .fat := (FatLens.fat_blocks_in_fat_region v hg c h.1.2).1
  unfold Spec.fatRaw
  rw [FBasic.Disk.get_set, if_neg (fun e : b = fatBlock v c => hb (e ▸ hfr))]

/-- **The bridge.** -/
theorem cixp_of_medX (hM : MedX v d files gh X) (hR : RawOKX v.fatType d files) (hD : DirClustersInit v P d gh) :
    CIXP P v d := by
  refine ⟨crashGhost v d gh, unrefChains v d gh ++ X, core_of_medX hM hR.raw, ?_, ?_, ?_⟩
  · show Owns v d (rawChains v d gh ++ (unrefChains v d gh ++ X))
    rw [← List.append_assoc]
    exact owns_perm ((filter_perm_append _ gh.G).append_right X) hM.owns
  · show EmptyNoCluster v.fatType gh.dirs (dirSlots v d (rawChains v d gh))
    have := emptyNoCluster_of_medX hM hR.empty
    intro h hh o ho
    rw [dirSlots_rawChains hM hR.raw hh] at ho
    exact this h hh o ho
  · exact dirInit_transfer hM.geom.bpc_pos hD rfl (fun h hh => dirClusters_rawChains hM hR.raw hh) fun _ _ _ _ => rfl

/-- **The interior lemma** (`VolCrashX.cix_of_record` with the clause). -/
theorem cixp_of_record {d0 : Disk} (hM : MedX v d0 files gh X) (hR : RawOKX v.fatType d0 files)
    (hD : DirClustersInit v P d0 gh) {R : List (List Nat)} (hO : Owns v d R)
    (hrefs : ∀ x, x ∈ rawRefs v d0 gh → x ∈ heads R)
    (hdirs : ∀ h, h ∈ dirIds gh.dirs → ¬ isFixedRoot v h → chainOf gh.G (dirHead v h) ∈ R)
    (hblk : ∀ h, h ∈ dirIds gh.dirs → ∀ s, s ∈ dirSlots v d0 gh.G h → d.get s.1 = d0.get s.1) : CIXP P v d := by
  have hOL := ownsLoose_of_owns hO
  have hHR := headsOK_of_ownsLoose hOL
  let p : Nat → Bool := fun x => decide (x ∈ rawRefs v d0 gh)
  let G' := R.filter fun cs => p (cs.headD 0)
  have hO' : OwnsLoose v d G' := ownsLoose_sublist hOL List.filter_sublist
  have hchain : ∀ h, h ∈ dirIds gh.dirs → ¬ isFixedRoot v h → chainOf G' (dirHead v h) = chainOf gh.G (dirHead v h) := by
    intro h hh hf
    have hx := dirHead_rawRefs (d := d0) hh hf
    obtain ⟨_, hhd⟩ := dirChain_spec hM hh hf
    rw [chainOf_filter hHR p (hrefs _ hx) (decide_eq_true hx)]
    exact chainOf_of_mem hHR (hdirs h hh hf) hhd
  have hslots : ∀ h, h ∈ dirIds gh.dirs → dirSlots v d G' h = dirSlots v d0 gh.G h := by
    intro h hh
    by_cases hf : isFixedRoot v h
    · have := dirSlots_congr (v := v) (d := d0) (G := gh.G) (hblk h hh)
      rw [dirSlots_fixed hf, dirSlots_fixed hf] at this
      rw [dirSlots_fixed hf, dirSlots_fixed hf]
      exact this
    · have := dirSlots_congr (v := v) (d := d0) (G := gh.G) (hblk h hh)
      rw [dirSlots_chain hf, dirSlots_chain hf] at this
      rw [dirSlots_chain hf, dirSlots_chain hf, hchain h hh hf]
      exact this
  have hheads : heads G' = (heads R).filter fun x => p x := by
    show List.map _ (List.filter _ R) = _
    rw [List.filter_map]
    rfl
  have hperm : List.Perm (rawRefs v d0 gh) (heads G') := by
    rw [hheads]
    refine (List.perm_ext_iff_of_nodup (rawRefs_nodup hM hR.raw) (hHR.nodup.filter _)).2 fun a => ?_
    rw [List.mem_filter, decide_eq_true_eq]
    exact ⟨fun h => ⟨hrefs a h, h⟩, fun h => h.2⟩
  have hT := hM.tree
  have hbase : TreeLoose v.fatType (rootHead v) G' gh.dirs (dirSlots v d0 gh.G) :=
    ⟨hT.cleanTail, hT.names, hT.order, hT.dots, hT.subdirs, hT.dirRefs, hperm⟩
  refine ⟨{ vol := v, G := G', dirs := gh.dirs }, R.filter fun cs => !p (cs.headD 0),
    ⟨hM.geom, hO', treeLoose_congr hbase hslots⟩, owns_perm (filter_perm_append _ R) hO, ?_, ?_⟩
  · have := emptyNoCluster_of_medX hM hR.empty
    intro h hh o ho
    rw [show dirSlots v d G' h = dirSlots v d0 gh.G h from hslots h hh] at ho
    exact this h hh o ho
  · refine dirInit_transfer hM.geom.bpc_pos hD rfl (fun h hh => ?_) hblk
    show dirClusters v G' h = dirClusters v gh.G h
    rw [dirClusters_eq, dirClusters_eq]
    unfold dirChain
    by_cases hf : isFixedRoot v h
    · rw [if_pos hf, if_pos hf]
    · rw [if_neg hf, if_neg hf, hchain h hh hf]

end Bridge

/-! ### Congruences -/

theorem cixp_view {P : Nat → Prop} {v : FatVolume} {d d' : Disk} (h : CIXP P v d) (hv : View v d d') : CIXP P v d' := by
  obtain ⟨gh, X, hC, hO, hE, hD⟩ := h
  have hblk : ∀ h, h ∈ dirIds gh.dirs → ∀ s, s ∈ dirSlots v d gh.G h → d'.get s.1 = d.get s.1 :=
    fun h hh s hs => hv.nonFat s.1 (crashSlot_not_fat hC hh hs)
  refine ⟨gh, X, core_congr hC (ownsLoose_view hC.owns hv) hblk, owns_view hO hv, ?_, ?_⟩
  · intro h hh o ho
    rw [dirSlots_congr (hblk h hh)] at ho
    exact hE h hh o ho
  · exact dirInit_transfer hC.geom.bpc_pos hD rfl (fun _ _ => rfl) hblk

theorem initCluster_sameGeom {v v' : FatVolume} (hs : SameGeom v v') {d : Disk} {c : Nat} (h : InitCluster v d c) :
    InitCluster v' d c := by
  obtain ⟨a, b, rfl⟩ := hs
  exact h

theorem CIXP.sameGeom {P : Nat → Prop} {v v' : FatVolume} {d : Disk} (hs : SameGeom v v') (h : CIXP P v d) : CIXP P v' d := by
  obtain ⟨gh, X, hC, hO, hE, hD⟩ := h
  refine ⟨gh, X, core_sameGeom hs hC, WriteRefines.owns_sameGeom hs hO, ?_, ?_⟩
  · rw [hs.fatType]
    intro h hh o ho
    rw [dirSlots_sameGeom hs] at ho
    exact hE h hh o ho
  · intro h hh c hc
    have : dirClusters v' gh.G h = dirClusters v gh.G h := by
      obtain ⟨a, b, rfl⟩ := hs; rfl
    rw [this] at hc
    exact (hD h hh c hc).imp id (initCluster_sameGeom hs)

theorem dirInit_sameGeom {P : Nat → Prop} {v v' : FatVolume} (hs : SameGeom v v') {d : Disk} {gh : Ghost}
    (hD : DirClustersInit v P d gh) : DirClustersInit v' P d gh := by
  intro h hh c hc
  have : dirClusters v' gh.G h = dirClusters v gh.G h := by
    obtain ⟨a, b, rfl⟩ := hs; rfl
  rw [this] at hc
  exact (hD h hh c hc).imp id (initCluster_sameGeom hs)

end Sdmmc.Lemmas.VolCrashD
