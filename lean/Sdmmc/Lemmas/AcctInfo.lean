/-
C16 at the API level, part 6 — the FAT32 info sector: what `flush_file` and `close_volume` store
in it (`flush_info`, `closeVolume_spec`), and what mounting reads back (`infoPatch_parse`,
`mount_after_info`): the in-memory pair (free count, next-free hint), with the mount's
normalisation — a stored count `0xFFFFFFFF` reads as unknown, a stored hint `0xFFFFFFFF`, `0` or `1`
reads as unknown — and an unknown in-memory value leaves the stored word as it was.
-/
import Sdmmc.Lemmas.AcctOutcome
import Sdmmc.Lemmas.ReopenMount

namespace Sdmmc.Lemmas.Acct
open Sdmmc.Model Sdmmc.Model.Fat Sdmmc.Spec
open Sdmmc.Lemmas.FBasic hiding NoFault Coherent
open Sdmmc.Lemmas.FatOps hiding BlocksOK Mirror HintOK
open Sdmmc.Lemmas.ReadRefines Sdmmc.Lemmas.WriteRefines

/-! ### What mounting reads from a patched info sector -/

/-- How mounting reads a stored free count. -/
def normCount (n : Nat) : Option Nat := if n = 0xFFFFFFFF then none else some n
/-- How mounting reads a stored next-free hint. -/
def normHint (n : Nat) : Option Nat := if n = 0xFFFFFFFF ∨ n = 0 ∨ n = 1 then none else some n

/-- What mounting reads after `update_info_sector` stored the in-memory pair `(cnt, hint)` over a
sector that read as `(fc0, nf0)`: a known value is stored (and normalised when read), an unknown
one leaves the stored word alone. -/
def storedPair (cnt hint fc0 nf0 : Option Nat) : Option Nat × Option Nat :=
  (match cnt with | some n => normCount n | none => fc0, match hint with | some n => normHint n | none => nf0)

theorem getD_splice_lt (b src : Bytes) (off i : Nat) (h : off + src.length ≤ b.length) (hi : i < off) :
    (splice b off src).getD i 0 = b.getD i 0 := FatLens.splice_getD_outside b src off i h (.inl hi)
theorem getD_splice_ge (b src : Bytes) (off i : Nat) (h : off + src.length ≤ b.length) (hi : off + src.length ≤ i) :
    (splice b off src).getD i 0 = b.getD i 0 := FatLens.splice_getD_outside b src off i h (.inr hi)

theorem infoPatch_count_none (v : FatVolume) (b : Block) (hl : b.length = 512) (hc : v.freeClustersCount = none) :
    readU32 (infoPatch v b) 488 = readU32 b 488 := by
  apply Reopen.readU32_congr
  intro i h1 h2
  unfold infoPatch
  rw [hc]
  cases hnf : v.nextFreeCluster with
  | none => rfl
  | some m =>
    show (splice b 492 (leU32 m)).getD i 0 = _
    exact getD_splice_lt b _ 492 i (by rw [hl, FatLens.leU32_length]; omega) (by omega)

theorem infoPatch_hint_none (v : FatVolume) (b : Block) (hl : b.length = 512) (hh : v.nextFreeCluster = none) :
    readU32 (infoPatch v b) 492 = readU32 b 492 := by
  apply Reopen.readU32_congr
  intro i h1 h2
  unfold infoPatch
  rw [hh]
  cases hf : v.freeClustersCount with
  | none => rfl
  | some k =>
    show (splice b 488 (leU32 k)).getD i 0 = _
    exact getD_splice_ge b _ 488 i (by rw [hl, FatLens.leU32_length]; omega) (by rw [FatLens.leU32_length]; omega)

/-- **The round trip of the free-space record.** -/
theorem infoPatch_parse (v : FatVolume) (b : Block) (hl : b.length = 512) (fc0 nf0 : Option Nat)
    (hp : Info.parse b = .ok (fc0, nf0))
    (hc : ∀ n, v.freeClustersCount = some n → n < 4294967296) (hh : ∀ n, v.nextFreeCluster = some n → n < 4294967296) :
    Info.parse (infoPatch v b) = .ok (storedPair v.freeClustersCount v.nextFreeCluster fc0 nf0) := by
  obtain ⟨_, hout, hcnt, hhint⟩ := infoPatch_facts v b hl
  rw [C15.infoParse_eq] at hp ⊢
  rw [Reopen.readU32_congr (infoPatch v b) b 0 (fun i _ _ => hout i (by omega)),
    Reopen.readU32_congr (infoPatch v b) b 484 (fun i _ _ => hout i (by omega)),
    Reopen.readU32_congr (infoPatch v b) b 508 (fun i _ _ => hout i (by omega))]
  split at hp
  · cases hp
  · split at hp
    · cases hp
    · split at hp
      · cases hp
      · rename_i h1 h2 h3
        rw [if_neg h1, if_neg h2, if_neg h3]
        simp only [Res.ok.injEq, Prod.mk.injEq] at hp
        obtain ⟨e1, e2⟩ := hp
        unfold storedPair
        congr 2
        · cases hcv : v.freeClustersCount with
          | none => rw [infoPatch_count_none v b hl hcv]; exact e1
          | some n => rw [hcnt n hcv (hc n hcv)]; rfl
        · cases hhv : v.nextFreeCluster with
          | none => rw [infoPatch_hint_none v b hl hhv]; exact e2
          | some n => rw [hhint n hhv (hh n hhv)]; rfl

/-! ### `flush_file` -/

/-- The info sector after `flush_file` of a dirty file whose directory slot is not in the info
sector: the old sector patched with the in-memory pair (FAT32 with something to record), the old
sector otherwise. -/
theorem flush_info (s : Mgr) (h i vi : Nat) (f : FileInfo) (v : VolInfo)
    (hs : MgrOK s) (hh : s.files.findIdx? (·.rawFile = h) = some i) (hf : s.files[i]? = some f)
    (hv : s.vols.findIdx? (·.rawVolume = f.rawVolume) = some vi) (hvi : s.vols[vi]? = some v)
    (hd : f.dirty = true) (hassert : ¬ (f.entry.size ≠ 0 ∧ f.entry.cluster = 0))
    (ho : f.entry.entryOffset + 32 ≤ 512) (hname : f.entry.name.length = 11)
    (hne : f.entry.entryBlock ≠ v.vol.infoLocation) :
    ∃ s1, flushFile h s = (.ok (), s1) ∧ s1 = { s with dev := s1.dev, cache := s1.cache } ∧ MgrOK s1 ∧
      (∀ b, b ≠ f.entry.entryBlock → b ≠ v.vol.infoLocation → s1.dev.disk.get b = s.dev.disk.get b) ∧
      s1.dev.disk.get v.vol.infoLocation =
        (if v.vol.fatType = .fat32 ∧ ¬ (v.vol.freeClustersCount = none ∧ v.vol.nextFreeCluster = none)
         then infoPatch v.vol (s.dev.disk.get v.vol.infoLocation) else s.dev.disk.get v.vol.infoLocation) := by
  obtain ⟨hnf, hcoh, hblk, hunl⟩ := hs
  -- the info sector
  have hinfo : ∃ fs1, updateInfoSector (fsOf s v) = (.ok (), fs1) ∧ FBasic.NoFault fs1 ∧ FBasic.Coherent fs1 ∧ fs1.vol = v.vol ∧
      FatOps.BlocksOK fs1.dev.disk ∧ (∀ b, b ≠ v.vol.infoLocation → fs1.dev.disk.get b = s.dev.disk.get b) ∧
      fs1.dev.disk.get v.vol.infoLocation =
        (if v.vol.fatType = .fat32 ∧ ¬ (v.vol.freeClustersCount = none ∧ v.vol.nextFreeCluster = none)
         then infoPatch v.vol (s.dev.disk.get v.vol.infoLocation) else s.dev.disk.get v.vol.infoLocation) := by
    by_cases hcase : v.vol.fatType = .fat32 ∧ ¬ (v.vol.freeClustersCount = none ∧ v.vol.nextFreeCluster = none)
    · obtain ⟨fs1, h1, hn1, hc1, hv1, hd1, _⟩ := DirEntryIO.updateInfoSector_state32 (fsOf s v) hnf hcoh hcase.1 hcase.2
      have hlen := (infoPatch_facts v.vol (s.dev.disk.get v.vol.infoLocation) (hblk _)).1
      refine ⟨fs1, h1, hn1, hc1, hv1, ?_, ?_, ?_⟩
      · rw [hd1]; exact blocksOK_set _ _ _ hblk hlen
      · intro b hb; rw [hd1]; exact Disk.get_set_ne _ _ _ _ (fun e => hb e.symm)
      · rw [if_pos hcase, hd1]; exact Disk.get_set_self _ _ _
    · have hidle : (fsOf s v).vol.fatType = .fat16 ∨
          ((fsOf s v).vol.freeClustersCount = none ∧ (fsOf s v).vol.nextFreeCluster = none) := by
        show v.vol.fatType = .fat16 ∨ _
        cases hft : v.vol.fatType with
        | fat16 => exact .inl rfl
        | fat32 =>
          right
          apply Classical.byContradiction
          intro hnn
          exact hcase ⟨hft, hnn⟩
      exact ⟨fsOf s v, updateInfoSector_idle _ hidle, hnf, hcoh, rfl, hblk, fun _ _ => rfl, by rw [if_neg hcase]; rfl⟩
  obtain ⟨fs1, h1, hn1, hc1, hv1, hb1, hoth1, hinf1⟩ := hinfo
  -- the directory slot
  obtain ⟨fs2, h2, hn2, hc2, hv2, hb2, _, hob, _, _⟩ := DirEntryIO.writeEntry_frame fs1 f.entry hn1 hc1 hb1 ho hname
  have hrun : DirEntryIO.flushF f.entry (fsOf s v) = (.ok (), fs2) := by
    unfold DirEntryIO.flushF
    rw [FBasic.bind_ok h1, h2]
  have hfl := DirMgr.flushFile_dirty h i vi f s (MHoare.getFileById_ok hh) (MHoare.getFile_ok hf) hd
    (MHoare.getVolumeById_ok hv) hassert
  rw [withVol_run vi _ s v hvi, hrun] at hfl
  have hvol : ({ v with vol := fs2.vol } : VolInfo) = v := by rw [hv2, hv1]
  simp only at hfl
  rw [hvol, list_set_self _ _ _ hvi] at hfl
  refine ⟨_, hfl, rfl, ⟨hn2, hc2, hb2, hunl⟩, fun b hbe hbi => ?_, ?_⟩
  · show fs2.dev.disk.get b = _
    rw [hob b hbe]; exact hoth1 b hbi
  · show fs2.dev.disk.get v.vol.infoLocation = _
    rw [hob _ (fun e => hne e.symm)]; exact hinf1

/-! ### `close_volume` -/

/-- **`close_volume`** when no file and no directory of the volume is open: it succeeds, stores the
in-memory pair in the info sector (FAT32 with something to record; nothing otherwise), changes no
other block, and removes the volume's record (`swap_remove`). -/
theorem closeVolume_spec (s : Mgr) (vol vi : Nat) (v : VolInfo) (hs : MgrOK s)
    (hfiles : s.files.any (·.rawVolume = vol) = false) (hdirs : s.dirs.any (·.rawVolume = vol) = false)
    (hv : s.vols.findIdx? (·.rawVolume = vol) = some vi) (hvi : s.vols[vi]? = some v) :
    ∃ s1, closeVolume vol s = (.ok (), s1) ∧
      s1 = { s with dev := s1.dev, cache := s1.cache, vols := swapRemove s.vols vi } ∧ MgrOK s1 ∧
      (∀ b, b ≠ v.vol.infoLocation → s1.dev.disk.get b = s.dev.disk.get b) ∧
      s1.dev.disk.get v.vol.infoLocation =
        (if v.vol.fatType = .fat32 ∧ ¬ (v.vol.freeClustersCount = none ∧ v.vol.nextFreeCluster = none)
         then infoPatch v.vol (s.dev.disk.get v.vol.infoLocation) else s.dev.disk.get v.vol.infoLocation) := by
  obtain ⟨hnf, hcoh, hblk, hunl⟩ := hs
  have hinfo : ∃ fs1, updateInfoSector (fsOf s v) = (.ok (), fs1) ∧ FBasic.NoFault fs1 ∧ FBasic.Coherent fs1 ∧ fs1.vol = v.vol ∧
      FatOps.BlocksOK fs1.dev.disk ∧ (∀ b, b ≠ v.vol.infoLocation → fs1.dev.disk.get b = s.dev.disk.get b) ∧
      fs1.dev.disk.get v.vol.infoLocation =
        (if v.vol.fatType = .fat32 ∧ ¬ (v.vol.freeClustersCount = none ∧ v.vol.nextFreeCluster = none)
         then infoPatch v.vol (s.dev.disk.get v.vol.infoLocation) else s.dev.disk.get v.vol.infoLocation) := by
    by_cases hcase : v.vol.fatType = .fat32 ∧ ¬ (v.vol.freeClustersCount = none ∧ v.vol.nextFreeCluster = none)
    · obtain ⟨fs1, h1, hn1, hc1, hv1, hd1, _⟩ := DirEntryIO.updateInfoSector_state32 (fsOf s v) hnf hcoh hcase.1 hcase.2
      have hlen := (infoPatch_facts v.vol (s.dev.disk.get v.vol.infoLocation) (hblk _)).1
      refine ⟨fs1, h1, hn1, hc1, hv1, ?_, ?_, ?_⟩
      · rw [hd1]; exact blocksOK_set _ _ _ hblk hlen
      · intro b hb; rw [hd1]; exact Disk.get_set_ne _ _ _ _ (fun e => hb e.symm)
      · rw [if_pos hcase, hd1]; exact Disk.get_set_self _ _ _
    · have hidle : (fsOf s v).vol.fatType = .fat16 ∨
          ((fsOf s v).vol.freeClustersCount = none ∧ (fsOf s v).vol.nextFreeCluster = none) := by
        show v.vol.fatType = .fat16 ∨ _
        cases hft : v.vol.fatType with
        | fat16 => exact .inl rfl
        | fat32 =>
          right
          apply Classical.byContradiction
          intro hnn
          exact hcase ⟨hft, hnn⟩
      exact ⟨fsOf s v, updateInfoSector_idle _ hidle, hnf, hcoh, rfl, hblk, fun _ _ => rfl, by rw [if_neg hcase]; rfl⟩
  obtain ⟨fs1, h1, hn1, hc1, hv1, hb1, hoth1, hinf1⟩ := hinfo
  have hwv := withVol_run vi updateInfoSector s v hvi
  rw [h1] at hwv
  have hvol : ({ v with vol := fs1.vol } : VolInfo) = v := by rw [hv1]
  simp only at hwv
  rw [hvol, list_set_self _ _ _ hvi] at hwv
  refine ⟨{ s with dev := fs1.dev, cache := fs1.cache, vols := swapRemove s.vols vi }, ?_, rfl,
    ⟨hn1, hc1, hb1, hunl⟩, hoth1, hinf1⟩
  unfold closeVolume
  rw [MHoare.get_bind, hfiles, hdirs]
  simp only [Bool.false_eq_true, if_false]
  rw [MHoare.bind_ok (MHoare.getVolumeById_ok hv), MHoare.bind_ok hwv]
  rfl

/-! ### Mounting afterwards -/

/-- What mounting can read from an info sector: a count below `0xFFFFFFFF`, a hint in
`[2, 0xFFFFFFFF)`. -/
theorem parse_bounds (b : Bytes) (fc nf : Option Nat) (hp : Info.parse b = .ok (fc, nf)) :
    (∀ n, fc = some n → n < 0xFFFFFFFF) ∧ (∀ n, nf = some n → 2 ≤ n ∧ n < 0xFFFFFFFF) := by
  rw [C15.infoParse_eq] at hp
  have l1 := FatLens.readU32_lt b 488
  have l2 := FatLens.readU32_lt b 492
  split at hp
  · cases hp
  · split at hp
    · cases hp
    · split at hp
      · cases hp
      · simp only [Res.ok.injEq, Prod.mk.injEq] at hp
        obtain ⟨e1, e2⟩ := hp
        constructor
        · intro n hn
          rw [← e1] at hn
          split at hn
          · cases hn
          · cases hn; omega
        · intro n hn
          rw [← e2] at hn
          split at hn
          · cases hn
          · cases hn; omega

/-- Mounting a medium that agrees with a mountable one (FAT32) on block 0 and on the boot sector,
and whose info sector reads as `(fc, nf)`: the same record with that pair. -/
theorem mount_of_info (d d' : Disk) (idx : Nat) (w : FatVolume)
    (hm : mountPure (d.get 0) idx d.get = .ok w) (h32 : w.fatType = .fat32)
    (h0 : d'.get 0 = d.get 0) (hboot : d'.get w.lbaStart = d.get w.lbaStart)
    (fc nf : Option Nat) (hp : Info.parse (d'.get w.infoLocation) = .ok (fc, nf)) :
    mountPure (d'.get 0) idx d'.get = .ok { w with freeClustersCount := fc, nextFreeCluster := nf } := by
  obtain ⟨pt, lba, nb, v0, hpp, hsup, hbpb, hcase⟩ := Reopen.mountPure_ok hm
  have hlba0 := Reopen.parseVolumeBpb_lba hbpb
  rcases hcase with ⟨h16, rfl⟩ | ⟨h32', hpi⟩
  · rw [h16] at h32; cases h32
  · obtain ⟨fc0, nf0, hip, rfl⟩ := Reopen.parseVolumeInfo_ok hpi
    refine Reopen.mountPure_of (by rw [h0]; exact hpp) hsup
      (by rw [← hlba0]; rw [← hlba0] at hbpb; rw [show v0.lbaStart = ({ v0 with freeClustersCount := fc0, nextFreeCluster := nf0 } : FatVolume).lbaStart from rfl, hboot]; exact hbpb)
      (.inr ⟨h32', ?_⟩)
    have hloc : v0.infoLocation = ({ v0 with freeClustersCount := fc0, nextFreeCluster := nf0 } : FatVolume).infoLocation := rfl
    unfold parseVolumeInfo
    rw [hloc, hp]
    rfl

/-- What the mounted record says about the info sector it was read from (FAT32). -/
theorem mount_info (d : Disk) (idx : Nat) (w : FatVolume)
    (hm : mountPure (d.get 0) idx d.get = .ok w) (h32 : w.fatType = .fat32) :
    Info.parse (d.get w.infoLocation) = .ok (w.freeClustersCount, w.nextFreeCluster) := by
  obtain ⟨pt, lba, nb, v0, hpp, hsup, hbpb, hcase⟩ := Reopen.mountPure_ok hm
  rcases hcase with ⟨h16, rfl⟩ | ⟨h32', hpi⟩
  · rw [h16] at h32; cases h32
  · obtain ⟨fc0, nf0, hip, rfl⟩ := Reopen.parseVolumeInfo_ok hpi
    exact hip

/-- Mounting a medium that differs from a mountable one only in the info sector, which was patched
with the record `(cnt, hint)` of `v`: the same record up to the pair, and the pair is
`storedPair`. -/
theorem mount_after_info (d d' : Disk) (idx : Nat) (w : FatVolume) (v : FatVolume)
    (hm : mountPure (d.get 0) idx d.get = .ok w) (h32 : w.fatType = .fat32)
    (hb : (d.get w.infoLocation).length = 512)
    (h0 : d'.get 0 = d.get 0) (hboot : d'.get w.lbaStart = d.get w.lbaStart)
    (hinfo : d'.get w.infoLocation = infoPatch v (d.get w.infoLocation))
    (hc : ∀ n, v.freeClustersCount = some n → n < 4294967296) (hh : ∀ n, v.nextFreeCluster = some n → n < 4294967296) :
    mountPure (d'.get 0) idx d'.get =
      .ok { w with freeClustersCount := (storedPair v.freeClustersCount v.nextFreeCluster w.freeClustersCount w.nextFreeCluster).1,
                   nextFreeCluster := (storedPair v.freeClustersCount v.nextFreeCluster w.freeClustersCount w.nextFreeCluster).2 } :=
  mount_of_info d d' idx w hm h32 h0 hboot _ _
    (by rw [hinfo]; exact infoPatch_parse v _ hb _ _ (mount_info d idx w hm h32) hc hh)

end Sdmmc.Lemmas.Acct
