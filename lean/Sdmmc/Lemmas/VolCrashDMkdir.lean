/-
Clause 5 of C10 at API level: `VolCrashXMkdir.lean` restated for `CIXP P` — `make_dir_in_dir`: the cluster of the new directory is marked, gets its dot entries, then its other blocks are blanked, and only then the parent names it; the parent itself may grow by a blank cluster.
-/
import Sdmmc.Lemmas.VolCrashDApi
import Sdmmc.Lemmas.VolCrashDDir
import Sdmmc.Lemmas.VolCrashDDelete
import Sdmmc.Lemmas.VolCrashXMkdir

namespace Sdmmc.Lemmas.VolCrashD
open Sdmmc.Lemmas.VolCrash Sdmmc.Lemmas.VolCrashX
open Sdmmc.Model Sdmmc.Model.Fat Sdmmc.Spec.Volume
open Sdmmc.Spec hiding NoFault Coherent run step
open Sdmmc.Lemmas.FBasic
open Sdmmc.Lemmas.VolBase Sdmmc.Lemmas.VolTree Sdmmc.Lemmas.VolMed Sdmmc.Lemmas.VolDisk Sdmmc.Lemmas.VolEng
open Sdmmc.Lemmas.VolApi Sdmmc.Lemmas.CrashBase Sdmmc.Lemmas.CrashMgr Sdmmc.Lemmas.MHoare

/-! ### The engine level -/

section
variable {files : List FileInfo} {gh : Ghost}

/-- The cluster of a new directory: the dot block (nothing beyond its first two slots), then blank blocks. -/
theorem initCluster_dots {v : FatVolume} {d : Disk} {c dc : Nat} {now : Timestamp}
    (hB0 : d.get (clusterToBlock v c) = DirMake.dirBlock v.fatType c dc 16 now (clusterToBlock v c))
    (hBz : ∀ i, i < v.blocksPerCluster - 1 → d.get (clusterToBlock v c + 1 + i) = zeroBlock) : InitCluster v d c := by
  refine ⟨fun i hi => ?_, fun j hj0 hj => ?_⟩
  · rw [hB0]
    unfold byteAt
    rw [(DirMake.dirBlock_facts _ _ _ _ _ _).2.2.2 i hi]
    rfl
  · have := hBz (j - 1) (by omega)
    rwa [show clusterToBlock v c + 1 + (j - 1) = clusterToBlock v c + j by omega] at this

/-- The tree gained the directory `c`, whose chain is `[c]`, an `InitCluster`. -/
theorem mkdir_dirInit {P : Nat → Prop} {v1 : FatVolume} {d1 d' : Disk} {G1 : List (List Nat)} {dirs : List (Nat × Nat)} {c q : Nat}
    (hM1 : MedX v1 d1 files { vol := v1, G := G1, dirs := dirs } [[c]])
    (hold : DirClustersInit v1 P d' { vol := v1, G := G1, dirs := dirs }) (hI : InitCluster v1 d' c) :
    DirClustersInit v1 P d' { vol := v1, G := G1 ++ [[c]], dirs := dirs ++ [(c, q)] } := by
  have hHall : HeadsOK (G1 ++ [[c]]) := med_headsAll hM1
  have hcmem : [c] ∈ G1 ++ [[c]] := List.mem_append_right _ (List.mem_singleton.2 rfl)
  have hcR : InRange v1 c := ChainL.chain_inRange (hM1.owns.1 [c] hcmem) c (List.mem_singleton.2 rfl)
  have hcheads : c ∉ heads G1 := by
    have := hHall.nodup
    unfold heads at this
    rw [List.map_append, List.nodup_append] at this
    intro hm
    exact this.2.2 c hm c (List.mem_singleton.2 rfl) rfl
  have hcl : ∀ G' x, ¬ isFixedRoot v1 x → dirClusters v1 G' x = chainOf G' (dirHead v1 x) := fun G' x hfx => by
    rw [dirClusters_eq]; unfold dirChain; rw [if_neg hfx]
  have hOld : ∀ x, x ∈ dirIds dirs → ∀ c', c' ∈ dirClusters v1 (G1 ++ [[c]]) x → P c' ∨ InitCluster v1 d' c' := by
    intro x hx c' hc'
    by_cases hfx : isFixedRoot v1 x
    · rw [dirClusters_fixed hfx] at hc'; cases hc'
    · rw [hcl _ _ hfx, chainOf_append_other hHall (fun e => hcheads (by
        have := dirHead_mem hM1 (show x ∈ dirIds ({ vol := v1, G := G1, dirs := dirs } : Ghost).dirs from hx) hfx
        rw [e] at this
        exact this))] at hc'
      exact hold x hx c' (by rw [hcl _ _ hfx]; exact hc')
  intro x hx c' hc'
  rcases mem_dirIds.1 hx with e0 | ⟨p, hp⟩
  · exact hOld x (mem_dirIds.2 (.inl e0)) c' hc'
  · rcases List.mem_append.1 hp with hp | hp
    · exact hOld x (mem_dirIds.2 (.inr ⟨p, hp⟩)) c' hc'
    · have hxc : x = c := (Prod.mk.inj (List.mem_singleton.1 hp)).1
      subst hxc
      have hfx : ¬ isFixedRoot v1 x := fun h => by have := h.1; have := hcR.1; omega
      have hdh : dirHead v1 x = x := by unfold dirHead; rw [if_neg (by have := hcR.1; omega)]
      rw [hcl _ _ hfx, hdh, chainOf_of_mem hHall hcmem rfl] at hc'
      rw [List.mem_singleton.1 hc']
      exact .inr hI

/-- **The blocks of the new cluster.**  From a boundary state with the unreferenced chain `[c]`: ONE device write of
`B` to the first block of cluster `c` (state `s3`), then the blanking of the other blocks.  Every crash point is
crash-consistent; the state afterwards is a boundary state again. -/
theorem newCluster_cixp {fs1 s3 : FS} {c : Nat} {B : Block}
    (hM1 : MedX fs1.vol fs1.dev.disk files gh [[c]]) (hR1 : RawOKX fs1.vol.fatType fs1.dev.disk files) (hUG : ∀ x, x ∈ gh.G.flatten → P x)
    (hcR : InRange fs1.vol c) (hcG : c ∉ gh.G.flatten) (hB : B.length = 512)
    (hn3 : NoFault s3) (hv3 : s3.vol = fs1.vol)
    (hw3 : s3.dev.wlog = (clusterToBlock fs1.vol c, B) :: fs1.dev.wlog)
    (hd3 : s3.dev.disk = fs1.dev.disk.set (clusterToBlock fs1.vol c) B) {fs4 : FS}
    (h4 : fs4 = (zeroBlocks (fs1.vol.blocksPerCluster - 1) (clusterToBlock fs1.vol c + 1) s3).2) :
    CrashAll (CIXP P fs1.vol) fs1 fs4 ∧ MedX fs1.vol fs4.dev.disk files gh [[c]] ∧ RawOKX fs1.vol.fatType fs4.dev.disk files ∧
      (∀ h, h ∈ dirIds gh.dirs → dirSlots fs1.vol fs4.dev.disk gh.G h = dirSlots fs1.vol fs1.dev.disk gh.G h) ∧
      fs4.dev.disk.get (clusterToBlock fs1.vol c) = B ∧
      ∀ i, i < fs1.vol.blocksPerCluster - 1 → fs4.dev.disk.get (clusterToBlock fs1.vol c + 1 + i) = zeroBlock := by
  have hpos : 0 < fs1.vol.blocksPerCluster := hM1.geom.bpc_pos
  have hci1 := cixp_of_medX hM1 hR1 (dirInit_of_G hM1 hUG)
  -- the dot block
  have hb3 : BlocksOK s3.dev.disk := by
    intro i
    rw [hd3, Disk.get_set]
    split
    · exact hB
    · exact hM1.blocksOK i
  have hsame3 : ∀ i, (∀ j, j < fs1.vol.blocksPerCluster → i ≠ clusterToBlock fs1.vol c + j) →
      s3.dev.disk.get i = fs1.dev.disk.get i := by
    intro i hi
    rw [hd3]
    exact Disk.get_set_ne _ _ _ _ (fun e => hi 0 hpos (by omega))
  obtain ⟨hM3', hsl3⟩ := medX_cluster_write hM1 hcR hcG hb3 hsame3
  have hblk3 : ∀ h, h ∈ dirIds gh.dirs → ∀ s, s ∈ dirSlots fs1.vol fs1.dev.disk gh.G h →
      s3.dev.disk.get s.1 = fs1.dev.disk.get s.1 :=
    fun h hh s hs => hsame3 _ fun j hj => dirSlot_not_cluster hM1 hh hs hcR hcG hj
  have hR3' : RawOKX fs1.vol.fatType s3.dev.disk files := rawOKX_dirBlocks hM1 hR1 hblk3
  have hM3 : MedX s3.vol s3.dev.disk files gh [[c]] := by rw [hv3]; exact hM3'
  have hR3 : RawOKX s3.vol.fatType s3.dev.disk files := by rw [hv3]; exact hR3'
  have c13 : CrashAll (CIXP P fs1.vol) fs1 s3 := single_cixp hw3 hd3 hci1 (cixp_of_medX hM3' hR3' (dirInit_of_G hM3' hUG))
  -- the other blocks
  have c34 : CrashAll (CIXP P fs1.vol) s3 fs4 := by
    have := zeroBlocks_cixp hM3 hR3 (dirInit_of_G hM3 hUG) hn3 (c := c) (by rw [hv3]; exact hcR) hcG
      (n := fs1.vol.blocksPerCluster - 1) (first := clusterToBlock fs1.vol c + 1) (fun i h1 h2 => by
        rw [hv3]; exact ⟨by omega, by omega⟩)
    rw [hv3] at this
    rw [h4]
    exact this
  have hd4 := DirFat.zeroBlocks_disk s3 (fs1.vol.blocksPerCluster - 1) (clusterToBlock fs1.vol c + 1) hn3
  rw [← h4] at hd4
  have hb4 : BlocksOK fs4.dev.disk := by
    intro i
    rw [hd4 i]
    split
    · exact FatOps.zeroBlock_length
    · exact hb3 i
  have hsame4 : ∀ i, (∀ j, j < fs1.vol.blocksPerCluster → i ≠ clusterToBlock fs1.vol c + j) →
      fs4.dev.disk.get i = fs1.dev.disk.get i := by
    intro i hi
    rw [hd4 i, if_neg]
    · exact hsame3 i hi
    · rintro ⟨h1, h2⟩
      exact hi (i - clusterToBlock fs1.vol c) (by omega) (by omega)
  obtain ⟨hM4, hsl4⟩ := medX_cluster_write hM1 hcR hcG hb4 hsame4
  have hblk4 : ∀ h, h ∈ dirIds gh.dirs → ∀ s, s ∈ dirSlots fs1.vol fs1.dev.disk gh.G h →
      fs4.dev.disk.get s.1 = fs1.dev.disk.get s.1 :=
    fun h hh s hs => hsame4 _ fun j hj => dirSlot_not_cluster hM1 hh hs hcR hcG hj
  refine ⟨c13.trans c34, hM4, rawOKX_dirBlocks hM1 hR1 hblk4, hsl4, ?_, ?_⟩
  · rw [hd4, if_neg (by omega), hd3, Disk.get_set_self]
  · intro i hi
    rw [hd4, if_pos ⟨by omega, by omega⟩]

/-- **The entry of the new directory** (and the clean-up when there is no room for it).  From the boundary state
`fs4` with the unreferenced chain `[c]`, whose cluster holds the dot block and blank blocks. -/
theorem newEntry_cixp {fs4 : FS} {c dc : Nat} (hM4 : MedX fs4.vol fs4.dev.disk files gh [[c]])
    (hR4 : RawOKX fs4.vol.fatType fs4.dev.disk files) (hUG : ∀ x, x ∈ gh.G.flatten → P x) (hn4 : NoFault fs4) (hc4 : Coherent fs4)
    (hv : ValidDir gh.dirs dc) (sfn : Bytes) (hlen : sfn.length = 11) (h0 : byteAt sfn 0 ≠ 0) (hE5 : byteAt sfn 0 ≠ 0xE5)
    (hfresh : sfn ∉ (entries (dirSlots fs4.vol fs4.dev.disk gh.G (dirIdOf dc))).map sName) (now : Timestamp)
    (hB0 : fs4.dev.disk.get (clusterToBlock fs4.vol c) =
      DirMake.dirBlock fs4.vol.fatType c dc 16 now (clusterToBlock fs4.vol c))
    (hBz : ∀ i, i < fs4.vol.blocksPerCluster - 1 → fs4.dev.disk.get (clusterToBlock fs4.vol c + 1 + i) = zeroBlock) :
    ∃ r fs5, writeNewDirectoryEntry dc sfn 16 c now fs4 = (r, fs5) ∧
      ((∃ e, r = .ok e ∧ RawOKX fs4.vol.fatType fs5.dev.disk files ∧ CrashAll (CIXP P fs4.vol) fs4 fs5) ∨
       (r = .err .NotEnoughSpace ∧ ∃ fs6, freeClusterChain c fs5 = (.ok (), fs6) ∧
          RawOKX fs4.vol.fatType fs6.dev.disk files ∧ CrashAll (CIXP P fs4.vol) fs4 fs6)) := by
  have hci4 := cixp_of_medX hM4 hR4 (dirInit_of_G hM4 hUG)
  obtain ⟨hh, _⟩ := validDir_id hM4 hv
  have hcmem : [c] ∈ gh.G ++ [[c]] := List.mem_append_right _ (List.mem_singleton.2 rfl)
  have hcR : InRange fs4.vol c := ChainL.chain_inRange (hM4.owns.1 [c] hcmem) c (List.mem_singleton.2 rfl)
  have hpos : 0 < fs4.vol.blocksPerCluster := hM4.geom.bpc_pos
  obtain ⟨r, fs5, hrun, hn5, hc5, hcase⟩ := writeNew_cixp hM4 hR4 hUG hn4 hc4 hv sfn hlen 16 c now
  refine ⟨r, fs5, hrun, ?_⟩
  rcases hcase with ⟨hre, hd5, hv5, hw5⟩ | ⟨v1, d1, G1, pre, post, old, hS, hre, hd', hR1, hDf, hcr⟩
  · -- no room for the entry: the cluster is given back
    right
    refine ⟨hre, ?_⟩
    have hM5 : MedX fs5.vol fs5.dev.disk files gh [[c]] := by rw [hd5, hv5]; exact hM4
    have hR5 : RawOKX fs5.vol.fatType fs5.dev.disk files := by rw [hd5, hv5]; exact hR4
    have c45 : CrashAll (CIXP P fs4.vol) fs4 fs5 := CrashAll.same hw5 hd5 hci4
    obtain ⟨fs6, hrun6, hcr6, _⟩ := free_cixp hM5 hR5 (dirInit_of_G hM5 hUG) hn5 hc5 (A := gh.G) (B := []) (tail := []) (r := c) (by simp)
      (extra_not_rawRef hM5 hR5)
    have hch : Chain fs5.vol fs5.dev.disk c [c] := hM5.owns.1 [c] hcmem
    obtain ⟨fs6', hrun6', _, _, _, _, _, hframe⟩ := ForestTrunc.free_spec fs5 c [] hn5 hc5 hM5.blocksOK hM5.geom hch
    have hfs : fs6' = fs6 := (Prod.mk.inj (hrun6'.symm.trans hrun6)).2
    subst hfs
    have hR6 : RawOKX fs5.vol.fatType fs6'.dev.disk files := by
      refine rawOKX_dirBlocks hM5 hR5 fun h hh' s hs => hframe.nonFat s.1 ?_
      rcases dirSlot_not_fat hM5 hh' hs with h1 | h1 <;> rw [h1] <;> intro e <;> cases e
    rw [hv5] at hR6 hcr6
    exact ⟨fs6', hrun6, hR6, c45.trans hcr6⟩
  · -- the entry is written
    left
    have hsgS := hS.sameGeom
    have hctb : clusterToBlock v1 c = clusterToBlock fs4.vol c := WriteRefines.sameGeom_clusterToBlock hsgS c
    have hbpc : v1.blocksPerCluster = fs4.vol.blocksPerCluster := WriteRefines.sameGeom_bpc hsgS
    have hft : v1.fatType = fs4.vol.fatType := hsgS.fatType
    have hextra : ∀ j, j < fs4.vol.blocksPerCluster →
        d1.get (clusterToBlock fs4.vol c + j) = fs4.dev.disk.get (clusterToBlock fs4.vol c + j) :=
      fun j hj => hS.extra_blocks c j hcR.1 hcR.2 ⟨[c], hcmem, List.mem_singleton.2 rfl⟩ hj
    have hfresh1 : sfn ∉ (entries (dirSlots v1 d1 G1 (dirIdOf dc))).map sName := by
      rw [hS.entries_eq _ hh]
      exact hfresh
    have hfin := mkdir_finish hS.med hv hS.split hS.pre_nz hS.pre_len hS.free sfn hlen h0 hE5 hfresh1 now
      (by
        rw [hctb, hft]
        have := hextra 0 hpos
        rw [Nat.add_zero] at this
        rw [this, hB0])
      (by
        intro i hi
        rw [hbpc] at hi
        rw [hctb]
        have := hextra (1 + i) (by omega)
        rw [← Nat.add_assoc] at this
        rw [this, hBz i hi])
    have hbl : (DirEntry.serialize v1.fatType (DirEntry.new sfn 16 c now old.1 old.2.1)).length = 32 :=
      VolDisk.serialize_length _ _ hlen
    have hRfin := VolCrashX.rawOKX_newEntry hS.med hR1 hh hS.split hS.free _ hbl
    have hold_mem : old ∈ dirSlots v1 d1 G1 (dirIdOf dc) := by rw [hS.split]; simp
    have hcR1 : InRange v1 c := (hsgS.inRange c).2 hcR
    have hcG1 : c ∉ G1.flatten := by
      have := hS.med.owns.2.1
      rw [List.flatten_append, List.nodup_append] at this
      intro hm
      exact this.2.2 c hm c (by simp) rfl
    have hI1 : InitCluster v1 d1 c := initCluster_dots (dc := dc) (now := now)
      (by
        rw [hctb, hft]
        have := hextra 0 hpos
        rw [Nat.add_zero] at this
        rw [this, hB0])
      (by
        intro i hi
        rw [hbpc] at hi
        rw [hctb]
        have := hextra (1 + i) (by omega)
        rw [← Nat.add_assoc] at this
        rw [this, hBz i hi])
    have hI5 : InitCluster v1 fs5.dev.disk c := by
      refine initCluster_congr (fun j hj => ?_) (by rw [hbpc]; exact hpos) hI1
      rw [hd']
      exact Disk.get_set_ne _ _ _ _ (fun e => dirSlot_not_cluster hS.med
        (show dirIdOf dc ∈ dirIds ({ vol := v1, G := G1, dirs := gh.dirs } : Ghost).dirs from hh) hold_mem hcR1 hcG1 hj e)
    rw [← hd'] at hfin hRfin
    have hci5 : CIXP P fs4.vol fs5.dev.disk :=
      (cixp_of_medX hfin hRfin (mkdir_dirInit hS.med hDf hI5)).sameGeom hsgS.symm
    refine ⟨_, hre, by rw [← hft]; exact hRfin, hcr.mono fun d hd => ?_⟩
    rcases hd with hd | rfl
    · exact hd
    · exact hci5

/-- **`make_dir(parent, name, DIRECTORY)`** on a directory of a sound volume, for a name the directory does not hold:
whatever the outcome, every crash point is crash-consistent and `RawOKX` holds at the end. -/
theorem makeDir_cixp {fs : FS} (hM : MedX fs.vol fs.dev.disk files gh []) (hR : RawOKX fs.vol.fatType fs.dev.disk files) (hU : ∀ c, isUsed fs.vol fs.dev.disk c → P c)
    (hn : NoFault fs) (hc : Coherent fs) {dc : Nat} (hv : ValidDir gh.dirs dc) (sfn : Bytes) (hlen : sfn.length = 11)
    (h0 : byteAt sfn 0 ≠ 0) (hE5 : byteAt sfn 0 ≠ 0xE5)
    (hfresh : sfn ∉ (entries (dirSlots fs.vol fs.dev.disk gh.G (dirIdOf dc))).map sName) (now : Timestamp) :
    RawOKX fs.vol.fatType (makeDir dc sfn Gen.ATTR_DIRECTORY now fs).2.dev.disk files ∧
      CrashAll (CIXP P fs.vol) fs (makeDir dc sfn Gen.ATTR_DIRECTORY now fs).2 := by
  show RawOKX fs.vol.fatType (makeDir dc sfn 16 now fs).2.dev.disk files ∧ CrashAll (CIXP P fs.vol) fs (makeDir dc sfn 16 now fs).2
  have hci0 := cixp_of_medX hM hR (dirInit_of_used hM hU)
  have hUG : ∀ x, x ∈ gh.G.flatten → P x := fun x hx => hU x (memG_used hM hx)
  rcases CrashStep.alloc_cases fs none false hn hc with ⟨c, fs1, ha⟩ | ⟨s', ha, ro⟩
  swap
  · -- the volume is full: nothing happened
    have hrun : makeDir dc sfn 16 now fs = (.err .NotEnoughSpace, s') := by unfold makeDir; rw [bind_err ha]
    rw [hrun]
    exact ⟨by rw [ro.disk]; exact hR, CrashAll.of_ro ro hci0⟩
  -- 1. the allocation
  have hr : Ready fs := ⟨hn, hc, hM.blocksOK, hM.geom, hM.hint⟩
  have ho : Owns fs.vol fs.dev.disk gh.G := by have := hM.owns; rwa [List.append_nil] at this
  have hG := med_heads hM
  obtain ⟨hr1, ho1, hsg, _, _⟩ := ForestStep.owns_newChain fs fs1 gh.G false c hr ho ha
  obtain ⟨hcR, _, _, hcG', _⟩ := ForestFinal.alloc_never_returns_used fs fs1 none false c hn hc hM.hint ha
  have hcG : c ∉ gh.G.flatten := hcG' _ ho
  have hpp : ∀ p, (none : Option Nat) = some p → p < endCluster fs.vol := fun p hp => by cases hp
  obtain ⟨hk1, hk2⟩ := alloc_keeps_blocks hn hc hM.blocksOK hM.geom hM.hint hpp ha
  have hblocks1 := dir_blocks_keep hM hcG hk1 hk2
  have hmemOf : ∀ (f : FileInfo) (Y : List (List Nat)),
      chainOf gh.G f.entry.cluster = [] ∨ chainOf gh.G f.entry.cluster ∈ gh.G ++ Y := by
    intro f Y
    by_cases hnil : chainOf gh.G f.entry.cluster = []
    · exact .inl hnil
    · exact .inr (List.mem_append_left _ (chainOf_spec hG ((chainOf_ne_nil_iff hG).1 hnil)).1)
  have hM1 : MedX fs1.vol fs1.dev.disk files { vol := fs1.vol, G := gh.G, dirs := gh.dirs } [[c]] :=
    medX_fat_update hM hsg hr1.hint hr1.blocksOK (G' := gh.G) (X' := [[c]]) ho1 (fun _ _ _ => rfl) hblocks1 rfl hM.tree
      (fun f hf => ⟨fileOK_of_owns hsg (hM.fileOK f hf).1 ho1 (hmemOf f _), (hM.fileOK f hf).2⟩)
  have hsl1 : ∀ h, h ∈ dirIds gh.dirs → dirSlots fs1.vol fs1.dev.disk gh.G h = dirSlots fs.vol fs.dev.disk gh.G h := by
    intro h hh
    rw [dirSlots_sameGeom hsg]
    exact dirSlots_congr (hblocks1 h hh)
  have hcR1 : InRange fs1.vol c := (hsg.inRange c).2 hcR
  have hft1 : fs1.vol.fatType = fs.vol.fatType := hsg.fatType
  have hR1 : RawOKX fs1.vol.fatType fs1.dev.disk files := by rw [hft1]; exact rawOKX_dirBlocks hM hR hblocks1
  have c01 : CrashAll (CIXP P fs.vol) fs fs1 := alloc_cixp hM hR (dirInit_of_used hM hU) hn hc hpp ha ((cixp_of_medX hM1 hR1 (dirInit_of_G hM1 hUG)).sameGeom hsg.symm)
  -- 2. the blocks of the new cluster
  obtain ⟨s3, hn3, _, hv3, hw3, hd3, hn4, hc4, hv4, hsteps⟩ := VolCrashX.makeDir_exposed dc sfn 16 now ha hr1.noFault
  generalize h4 : (zeroBlocks (fs1.vol.blocksPerCluster - 1) (clusterToBlock fs1.vol c + 1) s3).2 = fs4 at hn4 hc4 hv4 hsteps
  obtain ⟨c14, hM4, hR4, hsl4, hB0, hBz⟩ := newCluster_cixp hM1 hR1 hUG hcR1 hcG (DirMake.dirBlock_facts _ _ _ _ _ _).1
    hn3 hv3 hw3 hd3 h4.symm
  -- 3. the entry in the parent
  obtain ⟨hh, _⟩ := validDir_id hM hv
  have hfresh4 : sfn ∉ (entries (dirSlots fs1.vol fs4.dev.disk gh.G (dirIdOf dc))).map sName := by
    rw [hsl4 _ hh, hsl1 _ hh]
    exact hfresh
  rw [← hv4] at hM4 hR4 hfresh4 hB0 hBz
  obtain ⟨r, fs5, hrun, hcase⟩ := newEntry_cixp hM4 hR4 hUG hn4 hc4
    (show ValidDir ({ vol := fs1.vol, G := gh.G, dirs := gh.dirs } : Ghost).dirs dc from hv) sfn hlen h0 hE5 hfresh4 now hB0 hBz
  obtain ⟨hok, herr⟩ := hsteps r fs5 hrun
  have hsg4 : SameGeom fs.vol fs4.vol := hsg.trans (SameGeom.of_eq hv4)
  have c04 : CrashAll (CIXP P fs.vol) fs fs4 := c01.trans (c14.mono fun d hd => hd.sameGeom hsg.symm)
  rcases hcase with ⟨e, hre, hR5, c45⟩ | ⟨hre, fs6, hrun6, hR6, c46⟩
  · rw [hok e hre]
    exact ⟨by rw [← hsg4.fatType]; exact hR5, c04.trans (c45.mono fun d hd => hd.sameGeom hsg4.symm)⟩
  · rw [herr _ hre, hrun6]
    exact ⟨by rw [← hsg4.fatType]; exact hR6, c04.trans (c46.mono fun d hd => hd.sameGeom hsg4.symm)⟩

end

/-! ### The manager level -/

/-- **`make_dir_in_dir`**, whatever it answers (for a name whose short form does not start with 0xE5): every crash
point of the call leaves a crash-consistent medium, and the open files satisfy `RawOKX` afterwards. -/
theorem mkdir_callCXP {s : Mgr} {gh : Ghost} (hI : VolInv s gh) (hR : RawOKX gh.vol.fatType s.dev.disk s.files) (hU : ∀ c, isUsed gh.vol s.dev.disk c → P c)
    (directory : Nat) (name : List Nat) (hname : ∀ sfn, Sfn.createFromStr name = .ok sfn → sfn.head? ≠ some 0xE5) :
    CallCXP P gh.vol s (makeDirInDir directory name s).2 := by
  have hci := cixp_start hI hR hU
  unfold makeDirInDir
  rw [get_bind]
  by_cases hfull : s.dirs.length ≥ s.maxDirs
  · rw [if_pos hfull]; exact callCXP_refl hci hR
  rw [if_neg hfull]
  refine dirPrologue_callCXP directory name _ hI hR hU fun parent volIdx sfn hpm hv hsfn => ?_
  obtain ⟨h0, vi, hvs, hvol, _⟩ := vol_of_handle hI hv
  subst h0
  have hpv := hI.openDirs parent hpm
  rw [attempt_bind]
  have hro := DirMgr.findDirectoryEntry_readOnly parent.cluster sfn
  have h1 := withVol_ro_inv 0 _ hro hI
  have hw := withVol_one (Fat.findDirectoryEntry parent.cluster sfn) hvs hvol
  obtain ⟨hn, hc, hM⟩ := volInv_fs hI
  obtain ⟨fs', hfind, hd', hwl', hv', hn', hc'⟩ := find_spec hM hn hc hpv sfn (hname sfn hsfn)
  rw [hfind] at hw
  rcases hrun : withVol 0 (Fat.findDirectoryEntry parent.cluster sfn) s with ⟨r, s1⟩
  rw [hrun] at h1 hw
  have hr : r = _ := congrArg Prod.fst hw
  have hs1 : s1 = afterVol s vi fs' := congrArg Prod.snd hw
  simp only at hr hs1 ⊢
  -- the lookup leaves the device alone
  have hsame : CallCXP P gh.vol s s1 := by
    rw [hs1]
    exact callCXP_same (s' := afterVol s vi fs') hwl' hd' hci hR
  -- the lookup answered `NotFound`: the directory is made
  have hNF : r = .err .NotFound →
      CallCXP P gh.vol s (withVol 0 (Fat.makeDir parent.cluster sfn Gen.ATTR_DIRECTORY s.clock) s1).2 := by
    intro hrn
    rw [hrn] at hr
    -- the name is fresh
    have hfresh0 : sfn ∉ (entries (dirSlots (fsOf s gh).vol (fsOf s gh).dev.disk gh.G (dirIdOf parent.cluster))).map sName := by
      cases hfo : (entries (dirSlots (fsOf s gh).vol (fsOf s gh).dev.disk gh.G (dirIdOf parent.cluster))).find?
          fun s => decide (sName s = sfn) with
      | some o => rw [hfo] at hr; cases hr
      | none =>
        intro hm
        obtain ⟨o, ho, hoe⟩ := List.mem_map.1 hm
        have := List.find?_eq_none.1 hfo o ho
        simp only [decide_eq_true_eq] at this
        exact this hoe
    -- the engine state the call runs in
    have hvs1 : s1.vols = [{ vi with vol := fs'.vol }] := by rw [hs1]; rfl
    have hvol1 : ({ vi with vol := fs'.vol } : VolInfo).vol = gh.vol := hv'
    have hdisk1 : (fsOf s1 gh).dev.disk = (fsOf s gh).dev.disk := by rw [hs1]; exact hd'
    have hfiles1 : s1.files = s.files := by rw [hs1]; rfl
    obtain ⟨hn1, hc1, hM1⟩ := volInv_fs h1
    have hfresh : sfn ∉ (entries (dirSlots (fsOf s1 gh).vol (fsOf s1 gh).dev.disk gh.G (dirIdOf parent.cluster))).map sName := by
      rw [hdisk1]; exact hfresh0
    have hR1 : RawOKX (fsOf s1 gh).vol.fatType (fsOf s1 gh).dev.disk s1.files := by
      rw [hdisk1, hfiles1]; exact hR
    have hU1 : ∀ c, isUsed (fsOf s1 gh).vol (fsOf s1 gh).dev.disk c → P c := by rw [hdisk1]; exact hU
    obtain ⟨hR2, hcr2⟩ :=
      makeDir_cixp hM1 hR1 hU1 hn1 hc1 hpv sfn (sfn_length hsfn) (sfn_first_nz hsfn) (first_ne_E5 (hname sfn hsfn)) hfresh s.clock
    refine ⟨hsame.crash.trans (withVol_one_crash _ hvs1 hvol1 hcr2), ?_⟩
    rw [withVol_one _ hvs1 hvol1]
    exact hR2
  cases r with
  | ok e =>
    by_cases hdir : Attr.isDirectory e.attributes = true
    · simp only [hdir, if_true]; exact hsame
    · simp only [hdir]; exact hsame
  | panic m => exact hsame
  | diverged => exact hsame
  | err e => cases e <;> first | exact hsame | exact hNF rfl

end Sdmmc.Lemmas.VolCrashD
