/-
Clause 5 of C10 at API level (`Props/C10Init.lean`): `VolCrashXHist.lean` restated for `CIXP P` — every API call
(`runOp_callCXP`, `step_stepCXP`), and the crash-point statement with `P := "in use before the call"`
(`step_dirInit`).
-/
import Sdmmc.Lemmas.VolCrashDRO
import Sdmmc.Lemmas.VolCrashDFlush
import Sdmmc.Lemmas.VolCrashDWrite
import Sdmmc.Lemmas.VolCrashDDelete
import Sdmmc.Lemmas.VolCrashDOpen
import Sdmmc.Lemmas.VolCrashDMkdir
import Sdmmc.Lemmas.VolCrashXHist

namespace Sdmmc.Lemmas.VolCrashD
open Sdmmc.Lemmas.VolCrash Sdmmc.Lemmas.VolCrashX
open Sdmmc.Model Sdmmc.Model.Fat Sdmmc.Spec.Volume
open Sdmmc.Spec hiding NoFault Coherent run step
open Sdmmc.Lemmas.FBasic
open Sdmmc.Lemmas.VolApi Sdmmc.Lemmas.CrashBase Sdmmc.Lemmas.CrashMgr Sdmmc.Lemmas.MHoare
open Sdmmc.Lemmas.WriteSetInv (NameCovered)

variable {P : Nat → Prop}

theorem callCXP_congr {v : FatVolume} {s s' t : Mgr} (h : CallCXP P v s s') (e : t = s') : CallCXP P v s t := e ▸ h

/-- **Every operation**, run on the state with cleared logs. -/
theorem runOp_callCXP {s : Mgr} {gh : Ghost} (hI : VolInv s gh) (hR : RawOKX gh.vol.fatType s.dev.disk s.files)
    (hU : ∀ c, isUsed gh.vol s.dev.disk c → P c) (op : Op) (hc : NameCovered op) : CallCXP P gh.vol s (runOp op s).2 := by
  by_cases hro : Fault.readOnlyOp op = true
  · exact readonly_callCXP hI hR hU op hro
  · cases op with
    | closeVolume v => exact callCXP_congr (closeVolume_callCXP hI hR hU v) (WriteSet.runOp_closeVolume v s)
    | openFile d n m => exact callCXP_congr (openFile_callCXP hI hR hU d n m hc) (WriteSet.runOp_openFile d n m s)
    | write f b => exact callCXP_congr (write_callCXP hI hR hU f b) (WriteSet.runOp_write f b s)
    | flush f => exact callCXP_congr (flush_callCXP hI hR hU f) (WriteSet.runOp_flush f s)
    | closeFile f => exact callCXP_congr (closeFile_callCXP hI hR hU f) (WriteSet.runOp_closeFile f s)
    | delete d n => exact callCXP_congr (delete_callCXP hI hR hU d n hc) (WriteSet.runOp_delete d n s)
    | mkdir d n => exact callCXP_congr (mkdir_callCXP hI hR hU d n hc) (WriteSet.runOp_mkdir d n s)
    | _ => exact absurd rfl hro

/-- **Every operation through `step`.** -/
theorem step_stepCXP {s : Mgr} {gh : Ghost} (hI : VolInv s gh) (hR : RawOKX gh.vol.fatType s.dev.disk s.files)
    (hU : ∀ c, isUsed gh.vol s.dev.disk c → P c) (op : Op) (hc : NameCovered op) : StepCXP P gh.vol s op :=
  stepCXP_of_callCXP hI.unlocked (runOp_callCXP (volInv_resetLogs hI) hR hU op hc)

theorem CIXP.crashInvX {v : FatVolume} {d : Disk} (h : CIXP P v d) (hb : BlocksOK d) :
    ∃ gh X, CrashInvX v d gh X ∧ DirClustersInit v P d gh := by
  obtain ⟨gh, X, hC, hO, hE, hD⟩ := h
  exact ⟨gh, X, ⟨crashInv_iff.2 ⟨hb, hC⟩, hO, hE⟩, hD⟩

/-- **Every crash point of every call**: `CrashInvX` for a tree in which every cluster of every directory was in use
before the call or is an `InitCluster` of the crashed medium. -/
theorem step_dirInit {s : Mgr} {gh : Ghost} (hI : VolInvCX s gh) (op : Op) (hc : NameCovered op) (k : Nat) :
    ∃ gh' X', CrashInvX gh.vol (crashDisk s.dev.disk (Model.step s op).2.writes k) gh' X' ∧
      DirClustersInit gh.vol (isUsed gh.vol s.dev.disk) (crashDisk s.dev.disk (Model.step s op).2.writes k) gh' :=
  ((step_stepCXP hI.inv.inv (rawOKX_of_invCX hI) (fun _ h => h) op hc).crash k).crashInvX
    (step_prefixOK hI.inv.inv hI.inv.mirror op hc k).blocksOK

end Sdmmc.Lemmas.VolCrashD
