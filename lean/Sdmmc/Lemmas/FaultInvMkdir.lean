/-
C11 under the invariant, part 14 (engine): `make_dir` under ANY fault schedule (`makeDir_fault_dirs`).
`make_dir` = allocation of the new cluster, the blocks of the new cluster, `write_new_directory_entry` in the parent,
and — when that fails — the clean-up `free_cluster_chain(new cluster)`, whose outcome is dropped.  The first three
parts are truncated fault-free runs (`Pre`); the clean-up then runs under the rest of the schedule, from an untagged
cache (`FaultInvClean`).
-/
import Sdmmc.Lemmas.FaultInvClean
import Sdmmc.Lemmas.FaultInvLen
import Sdmmc.Lemmas.VolApiMkdir3

namespace Sdmmc.Lemmas.FaultInv
open Sdmmc.Model Sdmmc.Model.Fat Sdmmc.Spec.Volume Sdmmc.Lemmas.VolBase Sdmmc.Lemmas.VolTree
open Sdmmc.Spec hiding NoFault Coherent
open Sdmmc.Lemmas.VolDisk Sdmmc.Lemmas.VolMed Sdmmc.Lemmas.VolApi Sdmmc.Lemmas.VolEng
open Sdmmc.Lemmas.FBasic (NoFault Coherent)
open Sdmmc.Lemmas.CrashBase Sdmmc.Lemmas.Retry Sdmmc.Lemmas.FaultPre

/-! ### The parts of `make_dir` -/

theorem fbind_assoc {α β γ : Type} (m : F α) (f : α → F β) (g : β → F γ) :
    (m >>= f) >>= g = m >>= fun a => f a >>= g := by
  funext s
  simp only [FBasic.bind_apply]
  rcases m s with ⟨r, s'⟩
  cases r <;> rfl

/-- The blocks of the new cluster: the dot block, then zeros. -/
def mdMid (v : FatVolume) (c parent att : Nat) (now : Timestamp) : F Unit := do
  blankMut (clusterToBlock v c)
  cacheModify fun b => splice (splice b 0 (DirEntry.serialize v.fatType
      { name := Sfn.thisDir, mtime := now, ctime := now, attributes := att, cluster := c, size := 0,
        entryBlock := clusterToBlock v c, entryOffset := 0 })) Gen.DIRENT_LEN
    (DirEntry.serialize v.fatType
      { name := Sfn.parentDir, mtime := now, ctime := now, attributes := att,
        cluster := if parent = Gen.CLUSTER_ROOT_DIR then Gen.CLUSTER_EMPTY else parent, size := 0,
        entryBlock := clusterToBlock v c, entryOffset := Gen.DIRENT_LEN })
  writeBack
  zeroBlocks (v.blocksPerCluster - 1) (clusterToBlock v c + 1)

/-- The entry in the parent and, should that fail, the clean-up. -/
def mdTail (parent : Nat) (sfn : Bytes) (att : Nat) (now : Timestamp) (c : Nat) : F Unit := do
  let r ← F.attempt (writeNewDirectoryEntry parent sfn att c now)
  match r with
  | .ok _ => pure ()
  | .err e => do
    let _ ← F.attempt (freeClusterChain c)
    F.fail e
  | other => F.lift (other.bind fun _ => .ok ())

theorem makeDir_eq (parent : Nat) (sfn : Bytes) (att : Nat) (now : Timestamp) :
    makeDir parent sfn att now =
      allocCluster none false >>= fun c => F.getVol >>= fun v => mdMid v c parent att now >>= fun _ => mdTail parent sfn att now c := by
  unfold makeDir mdMid mdTail
  simp only [fbind_assoc]
  rfl

theorem mdMid_pre (v : FatVolume) (c parent att : Nat) (now : Timestamp) : Pre (mdMid v c parent att now) := by
  have := zeroBlocks_pre
  unfold mdMid; pre_auto

theorem mdMid_faults (v : FatVolume) (c parent att : Nat) (now : Timestamp) :
    Fault.F.Inv FaultsSame (mdMid v c parent att now) := by
  have := @Fault.zeroBlocks_inv FaultsSame _
  unfold mdMid; fault_auto

theorem mdMid_len (v : FatVolume) (c parent att : Nat) (now : Timestamp) : Len (mdMid v c parent att now) := by
  unfold mdMid
  refine Len.bind (Len.blankMut _) fun _ => Len.bind (Len.cacheModify _ fun blk hl => ?_) fun _ =>
    Len.bind Len.writeBack fun _ => zeroBlocks_len _ _
  have h1 : (splice blk 0 (DirEntry.serialize v.fatType
      { name := Sfn.thisDir, mtime := now, ctime := now, attributes := att, cluster := c, size := 0,
        entryBlock := clusterToBlock v c, entryOffset := 0 })).length = 512 := by
    rw [FatLens.splice_length _ _ _ (by rw [FatOps.serialize_length _ _ rfl, hl]; omega), hl]
  rw [FatLens.splice_length _ _ _ (by rw [FatOps.serialize_length _ _ rfl, h1]; decide), h1]

/-- The fault-free run of the middle part: the blocks of cluster `c` — and nothing else — are written. -/
theorem mdMid_clean (fs1 : FS) (c parent att : Nat) (now : Timestamp) (hn1 : NoFault fs1) :
    ∃ fs4, mdMid fs1.vol c parent att now fs1 = (.ok (), fs4) ∧ NoFault fs4 ∧ Coherent fs4 ∧ fs4.vol = fs1.vol ∧
      (∀ i, fs4.dev.disk.get i =
        if clusterToBlock fs1.vol c + 1 ≤ i ∧ i < clusterToBlock fs1.vol c + 1 + (fs1.vol.blocksPerCluster - 1) then zeroBlock
        else if clusterToBlock fs1.vol c = i then
          DirMake.dirBlock fs1.vol.fatType c parent att now (clusterToBlock fs1.vol c)
        else fs1.dev.disk.get i) ∧
      CrashAll (fun d => ∀ i, ¬ (clusterToBlock fs1.vol c ≤ i ∧ i < clusterToBlock fs1.vol c + 1 + (fs1.vol.blocksPerCluster - 1)) →
        d.get i = fs1.dev.disk.get i) fs1 fs4 := by
  generalize hsb : clusterToBlock fs1.vol c = sb
  let s2 : FS := { fs1 with cache := { tag := some sb, blk := DirMake.dirBlock fs1.vol.fatType c parent att now sb } }
  have hn2 : NoFault s2 := hn1
  have htag : s2.cache.tag = some sb := rfl
  have hwb : writeBack s2 = (.ok (), (writeBack s2).2) := Prod.ext (FBasic.writeBack_fst s2 sb hn2 htag) rfl
  have hn3 := FBasic.writeBack_noFault s2 sb hn2 htag
  have hc3 := FBasic.writeBack_coherent s2 sb hn2 htag
  have hd3 := FBasic.writeBack_disk s2 sb hn2 htag
  have hw3 := FBasic.writeBack_wlog s2 sb hn2 htag
  have hv3 : (writeBack s2).2.vol = fs1.vol := by rw [FBasic.writeBack_eq s2 sb hn2 htag]
  generalize (writeBack s2).2 = s3 at hwb hn3 hc3 hd3 hv3 hw3
  obtain ⟨hz1, _, hn4, hc4, hv4⟩ := FatOps.zeroBlocks_writes s3 (fs1.vol.blocksPerCluster - 1) (sb + 1) hn3 hc3
  have hzb : zeroBlocks (fs1.vol.blocksPerCluster - 1) (sb + 1) s3 =
      (.ok (), (zeroBlocks (fs1.vol.blocksPerCluster - 1) (sb + 1) s3).2) := Prod.ext hz1 rfl
  have hd4 := DirFat.zeroBlocks_disk s3 (fs1.vol.blocksPerCluster - 1) (sb + 1) hn3
  have hcr4 := CrashAlloc.zeroBlocks_crash (fs1.vol.blocksPerCluster - 1) (sb + 1) s3 hn3
  generalize (zeroBlocks (fs1.vol.blocksPerCluster - 1) (sb + 1) s3).2 = s4 at hzb hn4 hc4 hv4 hd4 hcr4
  refine ⟨s4, ?_, hn4, hc4, hv4.trans hv3, ?_, ?_⟩
  · unfold mdMid
    rw [hsb, FBasic.bind_ok (FBasic.blankMut_apply _ _), FBasic.bind_ok (FBasic.cacheModify_apply _ _)]
    refine (FBasic.bind_ok hwb).trans ?_
    exact hzb
  · intro i
    rw [hd4 i]
    split
    · rfl
    · rw [hd3, FBasic.Disk.get_set]
  · have c1 : CrashAll (fun d => ∀ i, ¬ (sb ≤ i ∧ i < sb + 1 + (fs1.vol.blocksPerCluster - 1)) → d.get i = fs1.dev.disk.get i) fs1 s3 := by
      refine crash_le_one (s := fs1) (s' := s3) (.inr ⟨sb, _, hw3, hd3⟩) (fun _ _ => rfl) ?_
      intro i hi
      rw [hd3, FBasic.Disk.get_set_ne _ _ _ _ (by omega)]
    refine c1.trans (hcr4.mono fun d hd i hi => ?_)
    rw [hd i (by omega), hd3, FBasic.Disk.get_set_ne _ _ _ _ (by omega)]

/-! ### Pieces of the assembly -/

theorem applyWrites_last (d : Disk) (ws : List (Nat × Block)) {i : Nat} {blk : Block} (h : ws.getLast? = some (i, blk)) :
    (d.applyWrites ws).get i = blk := by
  obtain ⟨ys, rfl⟩ := List.getLast?_eq_some_iff.1 h
  rw [FBasic.Disk.applyWrites_append, FBasic.Disk.applyWrites_cons, FBasic.Disk.applyWrites_nil, FBasic.Disk.get_set_self]

theorem trace_unique {s s' : FS} {ws ws' : List (Nat × Block)} (h1 : Trace s s' ws) (h2 : Trace s s' ws') : ws = ws' := by
  rw [← h1.newWrites, h2.newWrites]

/-- The state the clean-up branch of `make_dir` ends in. -/
theorem mdTail_err (parent : Nat) (sfn : Bytes) (att : Nat) (now : Timestamp) (c : Nat) (t t' : FS) (e : Err)
    (h : writeNewDirectoryEntry parent sfn att c now t = (.err e, t')) :
    (mdTail parent sfn att now c t).2 = (freeClusterChain c t').2 := by
  unfold mdTail
  rw [Fault.F.attempt_bind_apply, h]
  rfl

theorem mdTail_ok (parent : Nat) (sfn : Bytes) (att : Nat) (now : Timestamp) (c : Nat) (t t' : FS) (e : DirEntry)
    (h : writeNewDirectoryEntry parent sfn att c now t = (.ok e, t')) :
    (mdTail parent sfn att now c t).2 = t' := by
  unfold mdTail
  rw [Fault.F.attempt_bind_apply, h]
  rfl

/-- **The clean-up after a failed `write_new_directory_entry`**: wherever the entry's writes were cut, and whatever
the cache was left with, freeing the new cluster `c` afterwards (under the rest of the schedule) leaves the
directories sound. -/
theorem cleanup_after_hit {fs4 : FS} (hn4 : NoFault fs4) (hc4 : Coherent fs4) (hb4 : BlocksOK fs4.dev.disk) (hg4 : WFGeom fs4.vol)
    (dc : Nat) (sfn : Bytes) (hlen : sfn.length = 11) (att : Nat) (now : Timestamp) (c : Nat) (L : List Nat)
    {dirs : List (Nat × Nat)}
    (hcrX : CrashAll (RobX fs4.vol dirs [[c]] [c]) fs4 (writeNewDirectoryEntry dc sfn att c now fs4).2)
    (hq : (writeNewDirectoryEntry dc sfn att c now (setFaults L fs4)).2.dev.failed ≠ fs4.dev.failed) :
    DirsP fs4.vol dirs
      (freeClusterChain c (writeNewDirectoryEntry dc sfn att c now (setFaults L fs4)).2).2.dev.disk := by
  have hWp := writeNewDirectoryEntry_pre dc sfn att c now
  obtain ⟨_, ⟨ws, ws', hta, htb, hca⟩⟩ := (hWp (setFaults L fs4)).2.2.2 hq
  rw [clr_setFaults L fs4 hn4] at htb
  generalize ht : (writeNewDirectoryEntry dc sfn att c now (setFaults L fs4)).2 = t at hta hca ⊢
  -- block lengths and the volume record at `t`
  have hlen4 : LenInv (setFaults L fs4) := ⟨hb4, fun i hi => by
    have : fs4.cache.blk = fs4.dev.disk.get i := hc4 i hi
    show fs4.cache.blk.length = 512
    rw [this]; exact hb4 i⟩
  have hlt : LenInv t := by rw [← ht]; exact writeNewDirectoryEntry_len dc sfn hlen att c now _ hlen4
  have hsg : SameGeom fs4.vol t.vol := by rw [← ht]; exact writeNewDirectoryEntry_geo dc sfn att c now (setFaults L fs4)
  have hgt : WFGeom t.vol := SameGeom.wfGeom hsg hg4
  -- the crash points of the fault-free run
  obtain ⟨wsX, htX, hpX⟩ := hcrX
  have hwsX : wsX = ws ++ ws' := trace_unique htX htb
  subst hwsX
  have hdt : t.dev.disk = fs4.dev.disk.applyWrites ws := hta.disk
  have hRk : RobX t.vol dirs [[c]] [c] t.dev.disk := by
    have := hpX ws.length
    rw [List.take_left' rfl, ← hdt] at this
    exact this.sameGeom hsg
  have hchk : Chain t.vol t.dev.disk c [c] := hRk.2 [c] (List.mem_singleton.2 rfl)
  have hfinish : ∀ d, Within t.vol t.dev.disk d [c] clean → DirsP fs4.vol dirs d :=
    fun d hw => (hRk.1 d hw).sameGeom (sameGeom_symm hsg)
  -- the failed call left the cache untagged
  exact hfinish _ (free_any_coh t c hlt.1 hgt hchk fun h => by rw [hca] at h; cases h)

section
variable {files : List FileInfo}

/-- **`make_dir(parent, name, DIRECTORY)` under ANY fault schedule**, for a name the parent does not hold: the
directories (those that existed) are sound on the medium it leaves. -/
theorem makeDir_fault_dirs {gh : Ghost} {fs : FS} (hM : MedX fs.vol fs.dev.disk files gh []) (hn : NoFault fs) (hc : Coherent fs)
    {dc : Nat} (hv : ValidDir gh.dirs dc) (sfn : Bytes) (hlen : sfn.length = 11) (h0 : byteAt sfn 0 ≠ 0)
    (hE5 : byteAt sfn 0 ≠ 0xE5)
    (hfresh : sfn ∉ (entries (dirSlots fs.vol fs.dev.disk gh.G (dirIdOf dc))).map sName) (now : Timestamp) (L : List Nat) :
    DirsP fs.vol gh.dirs (makeDir dc sfn Gen.ATTR_DIRECTORY now (setFaults L fs)).2.dev.disk := by
  show DirsP fs.vol gh.dirs (makeDir dc sfn 16 now (setFaults L fs)).2.dev.disk
  rw [makeDir_eq]
  have h00 : DirsP fs.vol gh.dirs fs.dev.disk := dirsP_of_med hM
  have hAp := allocCluster_pre none false
  -- 1. the allocation
  have hcrA : CrashAll (DirsP fs.vol gh.dirs) fs (allocCluster none false fs).2 := by
    rcases ForestAlloc.alloc_total fs none false hn hc with ⟨c, fs1, ha⟩ | ⟨s', ha, _⟩
    · rw [ha]
      obtain ⟨hcr, _⟩ := CrashAlloc.alloc_crash fs fs1 none false c hn hc hM.blocksOK hM.geom hM.hint (fun p hp => by cases hp) ha
      obtain ⟨_, _, _, hcG', _⟩ := ForestFinal.alloc_never_returns_used fs fs1 none false c hn hc hM.hint ha
      have ho : Owns fs.vol fs.dev.disk gh.G := by have := hM.owns; rwa [List.append_nil] at this
      have hcG : c ∉ gh.G.flatten := hcG' _ ho
      have hW : ∀ d (t : List Nat), (∀ y, y ∈ t → y = c) → Within fs.vol fs.dev.disk d t (CrashAlloc.zeroing fs.vol false c) →
          DirsP fs.vol gh.dirs d := by
        intro d t ht hw
        refine ⟨gh.G, ?_⟩
        have := dirsInv_within hM hw (fun h hh hf x hx hm => by
            rw [ht x hm] at hx
            exact hcG (List.mem_flatten_of_mem (dirChain_spec hM hh hf).1 hx))
          (fun _ _ _ _ hz => by cases hz.1)
        exact ⟨this.geom, this.mem, this.chain, this.cleanTail, this.names, this.dots⟩
      refine hcr.mono fun d hd => ?_
      rcases hd.1 with hA | ⟨hB, _, _⟩ | ⟨hC, _⟩
      · exact hW d [] (fun _ h => by cases h) hA
      · exact hW d [c] (fun _ h => List.mem_singleton.1 h) hB
      · have hfin := hcr.final.1
        rcases hfin with hA | ⟨hB, _, _⟩ | ⟨hC', _⟩
        · exact hW d [] (fun _ h => by cases h) (hA.view hC)
        · exact hW d [c] (fun _ h => List.mem_singleton.1 h) (hB.view hC)
        · -- the medium after the call looks like itself: use the frame of the whole call
          obtain ⟨_, hWfin⟩ := CrashAlloc.alloc_crash fs fs1 none false c hn hc hM.blocksOK hM.geom hM.hint (fun p hp => by cases hp) ha
          exact hW d [c] (fun y h => by simpa using h) (hWfin.view hC)
    · rw [ha]
      obtain ⟨hw, hd⟩ := alloc_err_same fs none false hn hc _ s' ha
      exact CrashAll.same hw hd h00
  by_cases hqa : (allocCluster none false (setFaults L fs)).2.dev.failed = fs.dev.failed
  swap
  · obtain ⟨herr, _⟩ := (hAp (setFaults L fs)).2.2.2 hqa
    rw [Fault.F.bind_err (Prod.ext herr rfl)]
    apply hAp.transfer (setFaults L fs)
    rw [clr_setFaults L fs hn]; exact hcrA
  obtain ⟨hr1, hs1⟩ := Pre.quiet hAp (Fault.allocCluster_inv none false) L fs hn hqa
  rcases ForestAlloc.alloc_total fs none false hn hc with ⟨c, fs1, ha⟩ | ⟨s', ha, hd', _⟩
  swap
  · rw [ha] at hr1 hs1
    have hall : allocCluster none false (setFaults L fs) = (.err .NotEnoughSpace, setFaults L s') := Prod.ext hr1 hs1
    rw [Fault.F.bind_err hall]
    show DirsP fs.vol gh.dirs s'.dev.disk
    rw [hd']; exact h00
  rw [ha] at hr1 hs1
  have hall : allocCluster none false (setFaults L fs) = (.ok c, setFaults L fs1) := Prod.ext hr1 hs1
  rw [Fault.F.bind_ok hall, Fault.F.bind_ok (show F.getVol (setFaults L fs1) = (.ok fs1.vol, setFaults L fs1) from rfl)]
  -- the facts of the fault-free run so far (as in `makeDir_med`)
  have hr : Ready fs := ⟨hn, hc, hM.blocksOK, hM.geom, hM.hint⟩
  have ho : Owns fs.vol fs.dev.disk gh.G := by have := hM.owns; rwa [List.append_nil] at this
  have hG := med_heads hM
  obtain ⟨hrd1, ho1, hsg, _, _⟩ := ForestStep.owns_newChain fs fs1 gh.G false c hr ho ha
  obtain ⟨hcR, _, _, hcG', _⟩ := ForestFinal.alloc_never_returns_used fs fs1 none false c hn hc hM.hint ha
  have hcG : c ∉ gh.G.flatten := hcG' _ ho
  have hpp : ∀ p, (none : Option Nat) = some p → p < endCluster fs.vol := fun p hp => by cases hp
  obtain ⟨hk1, hk2⟩ := alloc_keeps_blocks hn hc hM.blocksOK hM.geom hM.hint hpp ha
  have hblocks1 := dir_blocks_keep hM hcG hk1 hk2
  have hmemOf : ∀ (f : FileInfo) (Y : List (List Nat)),
      chainOf gh.G f.entry.cluster = [] ∨ chainOf gh.G f.entry.cluster ∈ gh.G ++ Y := by
    intro f Y
    by_cases hnil : chainOf gh.G f.entry.cluster = []
    · exact .inl hnil
    · exact .inr (List.mem_append_left _ (chainOf_spec hG ((chainOf_ne_nil_iff hG).1 hnil)).1)
  have hM1 : MedX fs1.vol fs1.dev.disk files { vol := fs1.vol, G := gh.G, dirs := gh.dirs } [[c]] :=
    medX_fat_update hM hsg hrd1.hint hrd1.blocksOK (G' := gh.G) (X' := [[c]]) ho1 (fun _ _ _ => rfl) hblocks1 rfl hM.tree
      (fun f hf => ⟨fileOK_of_owns hsg (hM.fileOK f hf).1 ho1 (hmemOf f _), (hM.fileOK f hf).2⟩)
  have hcR1 : InRange fs1.vol c := (hsg.inRange c).2 hcR
  have hsg1 : SameGeom fs1.vol fs.vol := sameGeom_symm hsg
  have hpos : 0 < fs1.vol.blocksPerCluster := hrd1.geom.bpc_pos
  have hsl1 : ∀ h, h ∈ dirIds gh.dirs → dirSlots fs1.vol fs1.dev.disk gh.G h = dirSlots fs.vol fs.dev.disk gh.G h := by
    intro h hh
    rw [dirSlots_sameGeom hsg]
    exact dirSlots_congr (hblocks1 h hh)
  -- 2. the blocks of the new cluster
  obtain ⟨fs4, hmid, hn4, hc4, hv4, hd4, hcr4⟩ := mdMid_clean fs1 c dc 16 now hrd1.noFault
  have hMp := mdMid_pre fs1.vol c dc 16 now
  have hcrM : CrashAll (DirsP fs.vol gh.dirs) fs1 (mdMid fs1.vol c dc 16 now fs1).2 := by
    rw [hmid]
    refine hcr4.mono fun d hd => ?_
    have hw : Within fs1.vol fs1.dev.disk d [] (CrashAlloc.zeroing fs1.vol true c) :=
      CrashAlloc.within_of_cluster_blocks true hrd1.geom hcR1.1 hcR1.2 fun i hi => hd i (fun hin => hi ⟨rfl, by
        unfold InCluster; omega⟩)
    have := dirsInv_within hM1 hw (fun _ _ _ _ _ hm => by cases hm)
      (fun h hh s hs hz => (dirSlot_place hM1 hh hs).2 c hcR1 hcG hz.2)
    exact (show DirsP fs1.vol gh.dirs d from ⟨gh.G, ⟨this.geom, this.mem, this.chain, this.cleanTail, this.names, this.dots⟩⟩).sameGeom hsg1
  by_cases hqm : (mdMid fs1.vol c dc 16 now (setFaults L fs1)).2.dev.failed = fs1.dev.failed
  swap
  · obtain ⟨herr, _⟩ := (hMp (setFaults L fs1)).2.2.2 hqm
    rw [Fault.F.bind_err (Prod.ext herr rfl)]
    apply hMp.transfer (setFaults L fs1)
    rw [clr_setFaults L fs1 hrd1.noFault]; exact hcrM
  obtain ⟨hr2, hs2⟩ := Pre.quiet hMp (mdMid_faults fs1.vol c dc 16 now) L fs1 hrd1.noFault hqm
  rw [hmid] at hr2 hs2
  have hmall : mdMid fs1.vol c dc 16 now (setFaults L fs1) = (.ok (), setFaults L fs4) := Prod.ext hr2 hs2
  rw [Fault.F.bind_ok hmall]
  -- the state before the entry is written (as in `makeDir_med`)
  have hb4 : BlocksOK fs4.dev.disk := by
    intro i
    rw [hd4 i]
    split
    · exact FatOps.zeroBlock_length
    · split
      · exact (DirMake.dirBlock_facts _ _ _ _ _ _).1
      · exact hrd1.blocksOK i
  have hsame4 : ∀ i, (∀ j, j < fs1.vol.blocksPerCluster → i ≠ clusterToBlock fs1.vol c + j) →
      fs4.dev.disk.get i = fs1.dev.disk.get i := by
    intro i hi
    rw [hd4 i, if_neg, if_neg]
    · intro e
      exact hi 0 hpos (by omega)
    · rintro ⟨h1, h2⟩
      exact hi (i - clusterToBlock fs1.vol c) (by omega) (by omega)
  obtain ⟨hM4', hsl4⟩ := medX_cluster_write hM1 hcR1 hcG hb4 hsame4
  have hM4 : MedX fs4.vol fs4.dev.disk files { vol := fs1.vol, G := gh.G, dirs := gh.dirs } [[c]] := by
    rw [hv4]; exact hM4'
  have hB0 : fs4.dev.disk.get (clusterToBlock fs1.vol c) =
      DirMake.dirBlock fs1.vol.fatType c dc 16 now (clusterToBlock fs1.vol c) := by
    rw [hd4, if_neg (by omega), if_pos rfl]
  have hBz : ∀ i, i < fs1.vol.blocksPerCluster - 1 → fs4.dev.disk.get (clusterToBlock fs1.vol c + 1 + i) = zeroBlock := by
    intro i hi
    rw [hd4, if_pos ⟨by omega, by omega⟩]
  have hsg4 : SameGeom fs4.vol fs.vol := by rw [hv4]; exact hsg1
  have hv' : ValidDir ({ vol := fs1.vol, G := gh.G, dirs := gh.dirs } : Ghost).dirs dc := hv
  obtain ⟨hh, _⟩ := validDir_id hM hv
  -- 3. the entry in the parent: the fault-free run
  obtain ⟨r, fs5, hrun, hn5, hc5, hcase⟩ := writeNew_stage hM4 hn4 hc4 hv' sfn 16 c now
  have hfinX : ∀ e fs', writeNewDirectoryEntry dc sfn 16 c now fs4 = (.ok e, fs') →
      RobX fs4.vol gh.dirs [[c]] [c] fs'.dev.disk := by
    intro e fs' hrun'
    rw [hrun] at hrun'
    obtain ⟨hre, hfs⟩ := Prod.mk.inj hrun'
    subst hfs
    rcases hcase with ⟨hre', _, _⟩ | ⟨v1, d1, G1, pre, post, old, hS, _, hd'⟩
    · rw [hre'] at hre; cases hre
    · have hsgS := hS.sameGeom
      have hctb : clusterToBlock v1 c = clusterToBlock fs1.vol c := by
        rw [WriteRefines.sameGeom_clusterToBlock hsgS, hv4]
      have hbpc : v1.blocksPerCluster = fs1.vol.blocksPerCluster := by rw [WriteRefines.sameGeom_bpc hsgS, hv4]
      have hft : v1.fatType = fs1.vol.fatType := by rw [hsgS.fatType, hv4]
      have hextra : ∀ j, j < fs1.vol.blocksPerCluster →
          d1.get (clusterToBlock fs1.vol c + j) = fs4.dev.disk.get (clusterToBlock fs1.vol c + j) := by
        intro j hj
        have := hS.extra_blocks c j hcR1.1 (by rw [hv4]; exact hcR1.2)
          ⟨[c], List.mem_append_right _ (List.mem_singleton.2 rfl), List.mem_singleton.2 rfl⟩ (by rw [hv4]; exact hj)
        rw [hv4] at this
        exact this
      have hfresh1 : sfn ∉ (entries (dirSlots v1 d1 G1 (dirIdOf dc))).map sName := by
        rw [hS.entries_eq _ hh, hv4, hsl4 _ hh, hsl1 _ hh]
        exact hfresh
      have hfin := mkdir_finish hS.med hv hS.split hS.pre_nz hS.pre_len hS.free sfn hlen h0 hE5 hfresh1 now
        (by
          rw [hctb, hft]
          have := hextra 0 hpos
          rw [Nat.add_zero] at this
          rw [this, hB0])
        (by
          intro i hi
          rw [hbpc] at hi
          rw [hctb]
          have := hextra (1 + i) (by omega)
          rw [← Nat.add_assoc] at this
          rw [this, hBz i hi])
      rw [← hd'] at hfin
      -- the final medium, for the directories that existed
      have hvf : fs5.vol = v1 := hS.vol'
      have hsgf : SameGeom v1 fs4.vol := sameGeom_symm hsgS
      have hGall : HeadsOK (G1 ++ [[c]]) := med_heads hfin
      have hcnot : c ∉ dirIds gh.dirs := by
        intro hm
        rcases mem_dirIds.1 hm with e0 | ⟨p, hp⟩
        · have := hcR1.1; omega
        · have hh' : c ∈ heads gh.G := dir_mem_heads hM.tree hp
          obtain ⟨cs, hcs, he⟩ := List.mem_map.1 hh'
          have hne := hG.ne cs hcs
          cases cs with
          | nil => exact hne rfl
          | cons a l =>
            have : a = c := he
            exact hcG (List.mem_flatten_of_mem hcs (this ▸ List.mem_cons_self))
      have hd0 := dirsInv_of_med hfin
      have hold : ∀ h, h ∈ dirIds gh.dirs → h ∈ dirIds (gh.dirs ++ [(c, dirIdOf dc)]) := by
        intro h hh'
        rcases mem_dirIds.1 hh' with e0 | ⟨p, hp⟩
        · exact mem_dirIds.2 (.inl e0)
        · exact mem_dirIds.2 (.inr ⟨p, List.mem_append_left _ hp⟩)
      -- the directories that existed, in the final record
      have hdold : DirsInv v1 fs5.dev.disk { vol := v1, G := G1 ++ [[c]], dirs := gh.dirs } :=
        ⟨hd0.geom, fun h hh' hf => hd0.mem h (hold h hh') hf, fun h hh' hf => hd0.chain h (hold h hh') hf,
          fun h hh' => hd0.cleanTail h (hold h hh'), fun h hh' => hd0.names h (hold h hh'),
          fun h p hp => hd0.dots h p (List.mem_append_left _ hp)⟩
      have hHall : HeadsOK (G1 ++ [[c]]) := med_headsAll hS.med
      have hcheads : c ∉ heads G1 := by
        have := hHall.nodup
        unfold heads at this
        rw [List.map_append, List.nodup_append] at this
        intro hm
        exact this.2.2 c hm c (List.mem_singleton.2 rfl) rfl
      have hxc : ∀ h, h ∈ dirIds gh.dirs → ¬ isFixedRoot v1 h → ∀ x, x ∈ chainOf (G1 ++ [[c]]) (dirHead v1 h) → x ≠ c := by
        intro h hh' hf x hx e
        have hdm := dirHead_mem hS.med (show h ∈ dirIds ({ vol := v1, G := G1, dirs := gh.dirs } : Ghost).dirs from hh') hf
        have hne : dirHead v1 h ≠ ([c] : List Nat).headD 0 := by
          intro e'
          apply hcheads
          have e'' : dirHead v1 h = c := e'
          rw [← e'']; exact hdm
        rw [chainOf_append_other hHall hne] at hx
        have := dirChain_not_extra hS.med (show h ∈ dirIds ({ vol := v1, G := G1, dirs := gh.dirs } : Ghost).dirs from hh') hf hx
        apply this
        rw [e]; simp
      have hX : RobX v1 gh.dirs [[c]] [c] fs5.dev.disk := by
        refine ⟨fun d' hw => ⟨G1 ++ [[c]], ?_⟩, fun cs hcs => ?_⟩
        · refine hdold.congr (fun h hh' hf x hx => ?_) (fun h hh' s hs => ?_)
          · exact hw.other x (med_inRange hfin (dirChain_spec hfin (hold h hh') hf).1 hx).2
              (by simpa using hxc h hh' hf x hx)
          · exact hw.nonFat _ (dirSlot_place hfin (hold h hh') hs).1 id
        · rw [List.mem_singleton.1 hcs]
          have := med_chain hfin (show [c] ∈ ({ vol := v1, G := G1 ++ [[c]], dirs := gh.dirs ++ [(c, dirIdOf dc)] } : Ghost).G from
            List.mem_append_right _ (List.mem_singleton.2 rfl))
          exact this
      exact hX.sameGeom hsgf
  have hcrX := newEntry_crash_rob hM4 hn4 hc4 hv' sfn hlen 16 c now [c] (by intro x hx; simpa using hx) hfinX
  have hWp := writeNewDirectoryEntry_pre dc sfn 16 c now
  have hconv : ∀ d, DirsP fs4.vol gh.dirs d → DirsP fs.vol gh.dirs d := fun d h => h.sameGeom hsg4
  have hg4 : WFGeom fs4.vol := by rw [hv4]; exact hrd1.geom
  show DirsP fs.vol gh.dirs (mdTail dc sfn 16 now c (setFaults L fs4)).2.dev.disk
  by_cases hq3 : (writeNewDirectoryEntry dc sfn 16 c now (setFaults L fs4)).2.dev.failed = fs4.dev.failed
  · -- no device call of the entry's creation failed
    obtain ⟨hr3, hs3⟩ := Pre.quiet hWp (Fault.writeNewDirectoryEntry_inv dc sfn 16 c now) L fs4 hn4 hq3
    rw [hrun] at hr3 hs3
    have hw5 : writeNewDirectoryEntry dc sfn 16 c now (setFaults L fs4) = (r, setFaults L fs5) := Prod.ext hr3 hs3
    have hfin5 : RobX fs4.vol gh.dirs [[c]] [c] fs5.dev.disk := by
      have := hcrX.final
      rw [hrun] at this
      exact this
    rcases hcase with ⟨hre, hd5, hv5⟩ | ⟨v1, d1, G1, pre, post, old, hS, hre, _⟩
    · -- the parent is full: the new cluster is given back, under the rest of the schedule
      subst hre
      rw [mdTail_err dc sfn 16 now c _ _ _ hw5]
      have hch5 : Chain fs5.vol fs5.dev.disk c [c] := by
        rw [hv5]; exact hfin5.2 [c] (List.mem_singleton.2 rfl)
      have hw := free_any_coh (setFaults L fs5) c (by show BlocksOK fs5.dev.disk; rw [hd5]; exact hb4)
        (by show WFGeom fs5.vol; rw [hv5]; exact hg4) hch5 (fun h => hc5 _ h)
      have hw' : Within fs4.vol fs5.dev.disk (freeClusterChain c (setFaults L fs5)).2.dev.disk [c] clean := by
        have : (setFaults L fs5).vol = fs4.vol := hv5
        rw [← this]; exact hw
      exact hconv _ (hfin5.1 _ hw')
    · subst hre
      rw [mdTail_ok dc sfn 16 now c _ _ _ hw5]
      exact hconv _ hfin5.1.dirsP
  · -- a device call of the entry's creation failed: the clean-up runs from whatever state that left
    obtain ⟨herr, _⟩ := (hWp (setFaults L fs4)).2.2.2 hq3
    have hw5 : writeNewDirectoryEntry dc sfn 16 c now (setFaults L fs4) =
        (.err .DeviceError, (writeNewDirectoryEntry dc sfn 16 c now (setFaults L fs4)).2) := Prod.ext herr rfl
    rw [mdTail_err dc sfn 16 now c _ _ _ hw5]
    exact hconv _ (cleanup_after_hit hn4 hc4 hb4 hg4 dc sfn hlen 16 now c L hcrX hq3)

end

end Sdmmc.Lemmas.FaultInv
