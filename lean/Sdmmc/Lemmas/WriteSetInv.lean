/-
C04 over histories, part 1: the volume invariant with identical FAT copies (`VolInvM`), the licence of a
call described from the state it is issued in (`LicenceFor`), what a call has to deliver (`CallOK`), and the
calls on file and volume handles — `write`, `flush_file`, `close_file`, `close_volume` — under the invariant
(the per-call hypotheses of `WriteSetApi` are discharged from `VolInv`).
-/
import Sdmmc.Lemmas.WriteSetApi
import Sdmmc.Lemmas.VolApiOpen
import Sdmmc.Lemmas.VolApiWrite
import Sdmmc.Lemmas.VolApiMkdir

namespace Sdmmc.Lemmas.WriteSetInv
open Sdmmc.Model Sdmmc.Model.Fat Sdmmc.Spec.Volume Sdmmc.Lemmas.VolBase Sdmmc.Lemmas.VolTree
open Sdmmc.Spec hiding NoFault Coherent
open Sdmmc.Lemmas.VolDisk Sdmmc.Lemmas.VolMed Sdmmc.Lemmas.VolEng Sdmmc.Lemmas.VolApi
open Sdmmc.Lemmas.FBasic (NoFault Coherent)
open Sdmmc.Lemmas.MHoare
open Sdmmc.Lemmas.WriteSet (LicD flushLicence infoLicence writeLicence DirBlock MSound)

/-! ### The invariant, the licences -/

/-- The volume invariant of C03 together with "the FAT copies are identical". -/
def VolInvM (s : Mgr) (gh : Ghost) : Prop := VolInv s gh ∧ Mirror gh.vol s.dev.disk

/-- The cluster chain of the directory an open-directory handle with cluster field `dc` designates (`[]` for
the FAT16 fixed root). -/
def dirChainOf (gh : Ghost) (dc : Nat) : List Nat := dirChain gh.vol gh.G (dirIdOf dc)

/-- **What a call may change**, described from the ghost (volume record, chains), the open files and
directories and the medium BEFORE the call.  `nothing` is the licence of every call that writes nothing
(read-only operations, refused calls, opening an existing file for reading or appending, `NotFound`, …). -/
inductive LicenceFor (gh : Ghost) (files : List FileInfo) (dirs : List DirInfo) (d : Disk) : Op → Licence → Prop
  | nothing (op : Op) : LicenceFor gh files dirs d op Licence.none
  /-- `write h data` on the open file `f`, `k` bytes stored, the chain growing to `cs'`: the FAT entries of the
  last cluster of the old chain and of the new clusters, the bytes `[offset, offset + k)` of the file -/
  | write (h : Nat) (data : Bytes) (f : FileInfo) (hf : f ∈ files) (hh : f.rawFile = h) (cs' : List Nat) (k : Nat)
      (hpre : chainOf gh.G f.entry.cluster <+: cs') (hk : k ≤ data.length) (hin : ∀ c, c ∈ cs' → InRange gh.vol c)
      (hmode : f.mode ≠ .ReadOnly)
      (hnew : ∀ c, c ∈ cs'.drop (chainOf gh.G f.entry.cluster).length → c ∉ gh.G.flatten) :
      LicenceFor gh files dirs d (.write h data) (writeLicence (chainOf gh.G f.entry.cluster) cs' f.currentOffset k)
  /-- `flush h` of the open file `f` — the first record with handle `h` —, which was written to: its slot (and the info
  sector on FAT32) -/
  | flush (h : Nat) (f : FileInfo) (hf : f ∈ files) (hh : f.rawFile = h) (hd : f.dirty = true) (i : Nat)
      (hidx : files.findIdx? (·.rawFile = h) = some i) (hfi : files[i]? = some f) :
      LicenceFor gh files dirs d (.flush h) (flushLicence gh.vol f.entry)
  /-- `closeFile h`: the same -/
  | closeFile (h : Nat) (f : FileInfo) (hf : f ∈ files) (hh : f.rawFile = h) (hd : f.dirty = true) (i : Nat)
      (hidx : files.findIdx? (·.rawFile = h) = some i) (hfi : files[i]? = some f) :
      LicenceFor gh files dirs d (.closeFile h) (flushLicence gh.vol f.entry)
  /-- `closeVolume`: the info sector on FAT32 -/
  | closeVolume (v : Nat) : LicenceFor gh files dirs d (.closeVolume v) (infoLicence gh.vol)
  /-- `delete dh name`: `o` is the file object of the directory with that name — its slot, the FAT entries of
  ITS chain -/
  | delete (dh : Nat) (name : List Nat) (sfn : Bytes) (dir : DirInfo) (o : Slot) (hdir : dir ∈ dirs)
      (hdh : dir.rawDirectory = dh) (hsfn : Sfn.createFromStr name = .ok sfn)
      (ho : o ∈ objects (dirIdOf dir.cluster) (dirSlots gh.vol d gh.G (dirIdOf dir.cluster)))
      (hn : sName o = sfn) (hfile : isDirE o = false) (hclosed : pendOf files o = none) :
      LicenceFor gh files dirs d (.delete dh name)
        { fatClusters := chainOf gh.G (sCluster gh.vol.fatType o), slots := [(o.1, o.2.1)] }
  /-- `openFile dh name mode` truncating the existing file object `o`: the same -/
  | truncate (dh : Nat) (name : List Nat) (mode : Mode) (sfn : Bytes) (dir : DirInfo) (o : Slot) (hdir : dir ∈ dirs)
      (hdh : dir.rawDirectory = dh) (hsfn : Sfn.createFromStr name = .ok sfn)
      (hm : mode = .ReadWriteTruncate ∨ mode = .ReadWriteCreateOrTruncate)
      (ho : o ∈ objects (dirIdOf dir.cluster) (dirSlots gh.vol d gh.G (dirIdOf dir.cluster)))
      (hn : sName o = sfn) (hfile : isDirE o = false) (hclosed : pendOf files o = none) :
      LicenceFor gh files dirs d (.openFile dh name mode)
        { fatClusters := chainOf gh.G (sCluster gh.vol.fatType o), slots := [(o.1, o.2.1)] }
  /-- `openFile` creating: one slot of a block of the directory -/
  | createSlot (dh : Nat) (name : List Nat) (mode : Mode) (dir : DirInfo) (hdir : dir ∈ dirs) (hdh : dir.rawDirectory = dh)
      (b off : Nat) (hb : DirBlock gh.vol dir.cluster (dirChainOf gh dir.cluster) b) (ho : off + 32 ≤ 512) (hal : off % 32 = 0)
      (hfs : WriteSet.FreeAt d b off) :
      LicenceFor gh files dirs d (.openFile dh name mode) { slots := [(b, off)] }
  /-- `openFile` creating in a full chained directory: the free cluster `c` linked behind the directory's last -/
  | createGrow (dh : Nat) (name : List Nat) (mode : Mode) (dir : DirInfo) (hdir : dir ∈ dirs) (hdh : dir.rawDirectory = dh)
      (last c : Nat) (hl : (dirChainOf gh dir.cluster).getLast? = some last) (hr : InRange gh.vol c) (hfree : isFree gh.vol d c) :
      LicenceFor gh files dirs d (.openFile dh name mode) { fatClusters := [last, c], dataClusters := [c] }
  /-- `mkdir`: the free cluster `cn` of the new directory and one slot of a block of the parent -/
  | mkdirSlot (dh : Nat) (name : List Nat) (dir : DirInfo) (hdir : dir ∈ dirs) (hdh : dir.rawDirectory = dh) (cn : Nat)
      (hrn : InRange gh.vol cn) (hfn : isFree gh.vol d cn) (b off : Nat)
      (hb : DirBlock gh.vol dir.cluster (dirChainOf gh dir.cluster) b) (ho : off + 32 ≤ 512) (hal : off % 32 = 0)
      (hfs : WriteSet.FreeAt d b off) :
      LicenceFor gh files dirs d (.mkdir dh name) { fatClusters := [cn], dataClusters := [cn], slots := [(b, off)] }
  /-- `mkdir` into a full chained parent, which grows by the cluster `c` -/
  | mkdirGrow (dh : Nat) (name : List Nat) (dir : DirInfo) (hdir : dir ∈ dirs) (hdh : dir.rawDirectory = dh) (cn : Nat)
      (hrn : InRange gh.vol cn) (hfn : isFree gh.vol d cn) (last c : Nat)
      (hl : (dirChainOf gh dir.cluster).getLast? = some last) (hr : InRange gh.vol c) (hfc : isFree gh.vol d c) :
      LicenceFor gh files dirs d (.mkdir dh name) { fatClusters := [cn, last, c], dataClusters := [cn, c] }
  /-- `mkdir` when the parent has no room: `cn` was taken and freed again -/
  | mkdirFull (dh : Nat) (name : List Nat) (cn : Nat) (hrn : InRange gh.vol cn) (hfn : isFree gh.vol d cn) :
      LicenceFor gh files dirs d (.mkdir dh name) { fatClusters := [cn], dataClusters := [cn] }

/-- What the API function behind `op` has to deliver, from `s` to `s'`: a licence of the call by which every
write is licensed, and identical FAT copies afterwards. -/
def CallOK (gh : Ghost) (s : Mgr) (op : Op) (s' : Mgr) : Prop :=
  ∃ L, LicenceFor gh s.files s.dirs s.dev.disk op L ∧ LicD gh.vol L s.dev s'.dev ∧ Mirror gh.vol s'.dev.disk

theorem callOK_nowrite {gh : Ghost} {s s' : Mgr} (op : Op) (hm : Mirror gh.vol s.dev.disk) (hw : s'.dev.wlog = s.dev.wlog)
    (hd : s'.dev.disk = s.dev.disk) : CallOK gh s op s' :=
  ⟨Licence.none, .nothing op, LicD.same hw hd, by rw [hd]; exact hm⟩

/-- The manager-level standing hypotheses of `WriteSetMgr`, from the invariant. -/
theorem msound_of_inv {s : Mgr} {gh : Ghost} (hI : VolInv s gh) (hm : Mirror gh.vol s.dev.disk) {vi : VolInfo}
    (hvol : vi.vol = gh.vol) : MSound s vi :=
  ⟨⟨hI.noFault, hI.coherent, hI.med.blocksOK, hI.unlocked⟩, by rw [hvol]; exact hI.med.geom, by rw [hvol]; exact hI.med.hint,
    by rw [hvol]; exact hm⟩

/-! ### The slot of an open file -/

/-- The slot an open file sits at: in a directory block, room for 32 bytes, an eleven-byte name; the
`assert!` of `flush_file` does not fire. -/
theorem file_slot_facts {s : Mgr} {gh : Ghost} (hI : VolInv s gh) {f : FileInfo} (hfm : f ∈ s.files) :
    (regionOf gh.vol f.entry.entryBlock = .root ∨ regionOf gh.vol f.entry.entryBlock = .data) ∧
    f.entry.entryOffset + 32 ≤ 512 ∧ f.entry.name.length = 11 ∧ ¬ (f.entry.size ≠ 0 ∧ f.entry.cluster = 0) ∧
    f.entry.entryOffset % 32 = 0 := by
  have hM := medX_of_med hI.med
  obtain ⟨h, hh, A, o, B, hO, hpo, _, hnm, _, _⟩ := file_object hM.tree hfm
  have ho : o ∈ objects h (dirSlots gh.vol s.dev.disk gh.G h) := by rw [hO]; simp
  obtain ⟨pre, post, hsp, _⟩ := object_split hM hh ho
  have hmem : o ∈ dirSlots gh.vol s.dev.disk gh.G h := by rw [hsp]; simp
  obtain ⟨hp1, hp2⟩ := Prod.mk.inj hpo
  have hp1' : o.1 = f.entry.entryBlock := hp1
  have hp2' : o.2.1 = f.entry.entryOffset := hp2
  refine ⟨?_, ?_, ?_, ?_, ?_⟩
  · rw [← hp1']
    rcases dirSlot_not_fat hM hh hmem with h1 | h1
    · exact .inr h1
    · exact .inl h1
  · obtain ⟨i, hi, he⟩ := mem_dirSlots_offset hmem
    rw [← hp2', he]; omega
  · rw [← hnm]; unfold sName; rw [List.length_take, mem_dirSlots_length hM.blocksOK hmem]; rfl
  · rintro ⟨hs, hcl⟩
    obtain ⟨hok, _⟩ := hI.med.fileOK f hfm
    rcases hok.chain with ⟨_, _, h0⟩ | hch
    · exact hs h0
    · have := (ChainL.chain_inRange hch _ (ForestBase.chain_head_mem hch)).1
      omega
  · obtain ⟨i, hi, he⟩ := mem_dirSlots_offset hmem
    rw [← hp2', he]; omega

/-! ### `write` -/

theorem write_callOK {s : Mgr} {gh : Ghost} (hI : VolInv s gh) (hm : Mirror gh.vol s.dev.disk) (file : Nat) (data : Bytes) :
    CallOK gh s (.write file data) (Model.write file data s).2 := by
  cases hidx : s.files.findIdx? (·.rawFile = file) with
  | none =>
    have : Model.write file data s = (.err .BadHandle, s) := by
      unfold Model.write
      rw [bind_err (getFileById_bad hidx)]
    rw [this]; exact callOK_nowrite _ hm rfl rfl
  | some i =>
    obtain ⟨f, hf, hpf⟩ := findIdx?_some_get hidx
    have hfm : f ∈ s.files := List.mem_of_getElem? hf
    obtain ⟨vi, hv, hvol, hrv, _⟩ := vol_of_file hI hfm
    have hvfind : s.vols.findIdx? (·.rawVolume = f.rawVolume) = some 0 := by rw [hv]; simp [hrv]
    by_cases hmode : f.mode = .ReadOnly
    · rw [WriteRefines.write_readOnly s file i 0 data f hidx hf hvfind hmode]
      exact callOK_nowrite _ hm rfl rfl
    · have hvi : s.vols[0]? = some vi := by rw [hv]; rfl
      have hM := medX_of_med hI.med
      have hG : HeadsOK gh.G := med_heads hM
      obtain ⟨hok, hcur⟩ := hI.med.fileOK f hfm
      generalize hcsdef : chainOf gh.G f.entry.cluster = cs at hok hcur
      have hhead : cs ≠ [] → cs ∈ gh.G ∧ cs.head? = some f.entry.cluster := by
        intro hne
        rw [← hcsdef] at hne ⊢
        exact chainOf_spec hG ((chainOf_ne_nil_iff hG).1 hne)
      obtain ⟨A, B, hGeq⟩ : ∃ A B, gh.G = withChain A cs B := by
        by_cases hne : cs = []
        · exact ⟨[], gh.G, by rw [hne, WriteRefines.withChain_nil]; rfl⟩
        · obtain ⟨A, B, h⟩ := List.append_of_mem (hhead hne).1
          exact ⟨A, B, by rw [WriteRefines.withChain_ne hne, h]; simp⟩
      have hmok : WriteRefines.MOK s := by
        show _ ∧ _ ∧ _ ∧ _
        exact ⟨hI.noFault, hI.coherent, hI.med.blocksOK, hI.unlocked⟩
      obtain ⟨k, r, s', f', v', cs', hrun, hk, _, _, _, hsg, _, hok', _, hpre, hown', _, _, _, _, _, hmir', hlic⟩ :=
        WriteSet.write_lic s file i 0 data f vi cs A B hmok hidx hf hvfind hvi hmode (by rw [hvol]; exact hI.med.geom)
          (by rw [hvol]; exact hI.med.hint) (by rw [hvol]; exact hok) hcur (by rw [hvol, ← hGeq]; exact hI.med.owns)
          (by rw [hvol]; exact hm)
      rw [hvol] at hsg hlic
      rw [hrun]
      refine ⟨_, ?_, hlic, (hsg.mirror _).1 hmir'⟩
      have hrf : f.rawFile = file := by simpa using hpf
      have := LicenceFor.write (gh := gh) (files := s.files) (dirs := s.dirs) (d := s.dev.disk) file data f hfm hrf cs' k
        (by rw [hcsdef]; exact hpre) hk (fun c hc => (hsg.inRange c).1 (WriteRefines.fileOK_inRange hok' c hc)) hmode
        (by
          rw [hcsdef, hGeq]
          intro c hc
          obtain ⟨t, ht⟩ := hpre
          have hdrop : cs'.drop cs.length = t := by rw [← ht, List.drop_left]
          rw [hdrop] at hc
          have hnd : (withChain A cs' B).flatten.Nodup := hown'.2.1
          have hcs' : cs' ≠ [] := by rw [← ht]; intro e; rw [List.append_eq_nil_iff] at e; rw [e.2] at hc; cases hc
          rw [WriteRefines.withChain_ne hcs', ← ht] at hnd
          simp only [List.flatten_append, List.flatten_cons, List.flatten_nil, List.append_nil, List.append_assoc] at hnd
          rw [List.nodup_append] at hnd
          obtain ⟨_, hnd2, hAdis⟩ := hnd
          rw [List.nodup_append] at hnd2
          obtain ⟨_, hnd3, hcsdis⟩ := hnd2
          rw [List.nodup_append] at hnd3
          obtain ⟨_, _, htB⟩ := hnd3
          unfold withChain
          simp only [List.flatten_append, List.mem_append, not_or]
          refine ⟨⟨fun hA => hAdis c hA c (List.mem_append_right _ (List.mem_append_left _ hc)) rfl, ?_⟩,
            fun hB => htB c hc c hB rfl⟩
          split
          · simp
          · simp only [List.flatten_cons, List.flatten_nil, List.append_nil]
            exact fun h1 => hcsdis c h1 c (List.mem_append_left _ hc) rfl)
      rw [hcsdef] at this
      exact this

/-! ### `flush_file`, `close_file` -/

theorem flush_callOK {s : Mgr} {gh : Ghost} (hI : VolInv s gh) (hm : Mirror gh.vol s.dev.disk) (file : Nat) :
    CallOK gh s (.flush file) (flushFile file s).2 ∧
    (∀ i f, s.files.findIdx? (·.rawFile = file) = some i → s.files[i]? = some f →
      ∃ s1, flushFile file s = (.ok (), s1) ∧ s1.files = s.files ∧
        LicD gh.vol (flushLicence gh.vol f.entry) s.dev s1.dev ∧ Mirror gh.vol s1.dev.disk) := by
  cases hidx : s.files.findIdx? (·.rawFile = file) with
  | none =>
    have hfl : flushFile file s = (.err .BadHandle, s) := by
      unfold flushFile
      rw [bind_err (getFileById_bad hidx)]
    rw [hfl]
    exact ⟨callOK_nowrite _ hm rfl rfl, fun i f h => by cases h⟩
  | some i =>
    obtain ⟨f, hf, hpf⟩ := findIdx?_some_get hidx
    have hfm : f ∈ s.files := List.mem_of_getElem? hf
    have hrf : f.rawFile = file := by simpa using hpf
    have key : ∃ s1, flushFile file s = (.ok (), s1) ∧ s1.files = s.files ∧
        LicD gh.vol (flushLicence gh.vol f.entry) s.dev s1.dev ∧ Mirror gh.vol s1.dev.disk := by
      by_cases hd : f.dirty = true
      · obtain ⟨vi, hv, hvol, hrv, _⟩ := vol_of_file hI hfm
        have hvfind : s.vols.findIdx? (·.rawVolume = f.rawVolume) = some 0 := by rw [hv]; simp [hrv]
        have hvi : s.vols[0]? = some vi := by rw [hv]; rfl
        obtain ⟨hreg, ho, hname, hassert, _⟩ := file_slot_facts hI hfm
        obtain ⟨s1, hrun, heq, hs1, hl⟩ := WriteSet.flushFile_lic s file i 0 f vi (msound_of_inv hI hm hvol) hidx hf hvfind hvi hd
          hassert (by rw [hvol]; exact hreg) ho hname
        rw [hvol] at hl
        refine ⟨s1, hrun, by rw [heq], hl, ?_⟩
        have := hs1.mirror; rw [hvol] at this; exact this
      · have hd' : f.dirty = false := by simpa using hd
        exact ⟨s, WriteSet.flushFile_clean_nowrite s file i f hidx hf hd', rfl, LicD.refl _ _ _, hm⟩
    obtain ⟨s1, hrun, hfiles, hl, hm1⟩ := key
    refine ⟨?_, fun i' f' hi' hf' => ?_⟩
    · by_cases hd : f.dirty = true
      · rw [hrun]
        exact ⟨_, .flush file f hfm hrf hd i hidx hf, hl, hm1⟩
      · have hd' : f.dirty = false := by simpa using hd
        rw [WriteSet.flushFile_clean_nowrite s file i f hidx hf hd']
        exact callOK_nowrite _ hm rfl rfl
    · cases hi'
      rw [hf] at hf'
      cases hf'
      exact ⟨s1, hrun, hfiles, hl, hm1⟩

theorem closeFile_callOK {s : Mgr} {gh : Ghost} (hI : VolInv s gh) (hm : Mirror gh.vol s.dev.disk) (file : Nat) :
    CallOK gh s (.closeFile file) (closeFile file s).2 := by
  cases hidx : s.files.findIdx? (·.rawFile = file) with
  | none =>
    have hfl : flushFile file s = (.err .BadHandle, s) := by
      unfold flushFile
      rw [bind_err (getFileById_bad hidx)]
    have : closeFile file s = (.err .BadHandle, s) := by
      unfold closeFile
      rw [attempt_bind, hfl]
      simp only
      rw [bind_err (getFileById_bad hidx)]
    rw [this]; exact callOK_nowrite _ hm rfl rfl
  | some i =>
    obtain ⟨f, hf, hpf⟩ := findIdx?_some_get hidx
    have hfm : f ∈ s.files := List.mem_of_getElem? hf
    have hrf : f.rawFile = file := by simpa using hpf
    obtain ⟨s1, hrun, hfiles, hl, hm1⟩ := (flush_callOK hI hm file).2 i f hidx hf
    by_cases hd : f.dirty = true
    · rw [WriteSet.closeFile_of_flush s s1 file i hidx hrun hfiles]
      exact ⟨_, .closeFile file f hfm hrf hd i hidx hf, hl, hm1⟩
    · have hd' : f.dirty = false := by simpa using hd
      have hcl := WriteSet.flushFile_clean_nowrite s file i f hidx hf hd'
      rw [WriteSet.closeFile_of_flush s s file i hidx hcl rfl]
      exact callOK_nowrite _ hm rfl rfl

/-! ### `close_volume` -/

theorem closeVolume_callOK {s : Mgr} {gh : Ghost} (hI : VolInv s gh) (hm : Mirror gh.vol s.dev.disk) (volume : Nat) :
    CallOK gh s (.closeVolume volume) (closeVolume volume s).2 := by
  by_cases hfa : (s.files.any (·.rawVolume = volume)) = true
  · have : closeVolume volume s = (.err .VolumeStillInUse, s) := by
      unfold closeVolume
      rw [get_bind, if_pos hfa]; rfl
    rw [this]; exact callOK_nowrite _ hm rfl rfl
  by_cases hda : (s.dirs.any (·.rawVolume = volume)) = true
  · have : closeVolume volume s = (.err .VolumeStillInUse, s) := by
      unfold closeVolume
      rw [get_bind, if_neg hfa, if_pos hda]; rfl
    rw [this]; exact callOK_nowrite _ hm rfl rfl
  cases hv : s.vols.findIdx? (·.rawVolume = volume) with
  | none =>
    have : closeVolume volume s = (.err .BadHandle, s) := by
      unfold closeVolume
      rw [get_bind, if_neg hfa, if_neg hda, bind_err (getVolumeById_bad hv)]
    rw [this]; exact callOK_nowrite _ hm rfl rfl
  | some volIdx =>
    obtain ⟨h0, vi, hvs, hvol, hraw⟩ := vol_of_handle hI hv
    subst h0
    have hvi : s.vols[0]? = some vi := by rw [hvs]; rfl
    have hsound := (msound_of_inv hI hm hvol).fs
    obtain ⟨fs', hrun, hs', hv', hl, _, _⟩ := WriteSet.updateInfoSector_lic (ReadRefines.fsOf s vi) (infoLicence vi.vol) hsound
      (fun h => by
        have h' : vi.vol.fatType = .fat32 := h
        show decide (vi.vol.fatType = .fat32) = true
        rw [h']; rfl)
    have hw := WriteRefines.withVol_run 0 Fat.updateInfoSector s vi hvi
    rw [hrun] at hw
    have hl' : LicD gh.vol (infoLicence gh.vol) s.dev fs'.dev := by
      have : LicD vi.vol (infoLicence vi.vol) s.dev fs'.dev := hl
      rw [hvol] at this; exact this
    have hmir' : Mirror gh.vol fs'.dev.disk := by
      have := hs'.mirror
      rw [hv'] at this
      have h2 : Mirror vi.vol fs'.dev.disk := this
      rw [hvol] at h2; exact h2
    have hcv : (closeVolume volume s).2.dev = fs'.dev := by
      unfold closeVolume
      rw [get_bind, if_neg hfa, if_neg hda, bind_ok (getVolumeById_ok hv), bind_ok hw, modify_run]
    unfold CallOK
    rw [hcv]
    exact ⟨_, .closeVolume volume, hl', hmir'⟩

end Sdmmc.Lemmas.WriteSetInv
