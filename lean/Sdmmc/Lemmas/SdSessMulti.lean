/-
Lemmas for C14 over sessions, part 4: the shape of the events of every operation, and the
termination of multi-block transfers in every call of a session (also when the call failed).
-/
import Sdmmc.Lemmas.SdSessShape

namespace Sdmmc.Lemmas.Sd
open Sdmmc.Model Sdmmc.Model.Sd Sdmmc.Gen Sdmmc.Spec.SdSession

variable {σ : Type} {α β : Type} (B : BusOps σ)

/-! ### Plumbing -/

theorem Tr.bind_silent {m : S σ α} {f : α → S σ β} {Q : List Event → Prop}
    (hm : Tr m (fun _ evs => evs = [])) (hf : ∀ a, Tr (f a) (fun _ evs => Q evs)) (hnil : Q []) :
    Tr (m >>= f) (fun _ evs => Q evs) :=
  (Tr.bind hm hf).conseq fun r evs h => by
    rcases h with ⟨a, e1, e2, rfl, rfl, h2⟩ | ⟨e, _, rfl⟩ | ⟨p, _, rfl⟩
    · simpa using h2
    · exact hnil
    · exact hnil

theorem Tr.then_silent {m : S σ α} {f : α → S σ β} {Q : List Event → Prop}
    (hm : Tr m (fun _ evs => Q evs)) (hf : ∀ a, Tr (f a) (fun _ evs => evs = [])) :
    Tr (m >>= f) (fun _ evs => Q evs) :=
  (Tr.bind hm hf).conseq fun r evs h => by
    rcases h with ⟨a, e1, e2, rfl, h1, rfl⟩ | ⟨e, _, h⟩ | ⟨p, _, h⟩
    · simpa using h1
    · exact h
    · exact h

theorem get_silent : Tr (S.get : S σ (St σ)) (fun _ evs => evs = []) :=
  fun s => (TrAt.get s).conseq fun _ _ h => h.2

theorem lift_silent (x : SRes α) : Tr (S.lift x : S σ α) (fun _ evs => evs = []) :=
  (Tr.lift x).conseq fun _ _ h => h.2

theorem pure_silent (a : α) : Tr (pure a : S σ α) (fun _ evs => evs = []) :=
  (Tr.pure a).conseq fun _ _ h => h.2

theorem OpShape.mk_cmd {K : Nat} {G : List Event → Prop} {pfx w resp tail : List Event} {arg : Nat} {r : SRes Nat}
    (hpfx : NoMulti pfx) (hw : AllPolls w) (hresp : RespShape r resp) (herr : (∃ e, r = .err e) → tail = [])
    (hok : (∃ v, r = .ok v) → G tail) (ht : NoMulti tail) :
    OpShape K G (pfx ++ (w ++ Event.cmd (frame K arg) :: (resp ++ tail))) :=
  ⟨pfx, _, rfl, hpfx, Or.inr ⟨w, arg, resp, r, tail, rfl, hw, hresp, herr, hok, ht⟩⟩

theorem OpShape.mk_nocmds {K : Nat} {G : List Event → Prop} {pfx R : List Event}
    (hpfx : NoMulti pfx) (hR : NoCmds R) : OpShape K G (pfx ++ R) :=
  ⟨pfx, R, rfl, hpfx, Or.inl hR⟩

theorem not_err_ok {α : Type} {a : α} : ¬ ∃ e, (SRes.ok a : SRes α) = .err e := fun ⟨_, h⟩ => by cases h
theorem not_ok_err {α : Type} {e : SdErr} : ¬ ∃ v, (SRes.err e : SRes α) = .ok v := fun ⟨_, h⟩ => by cases h

/-! ### Operations without a multi-block command -/

theorem read1_noMulti (idx : Nat) : Emits NoMulti (Sd.read B 1 idx) := by
  unfold Sd.read
  refine Emits.bind Emits.get fun s => Emits.bind (Emits.lift _) fun start => ?_
  rw [if_pos rfl]
  emits [cardCommand_noMulti B CMD17 _ (by decide) (by decide) (by decide), readData_emits B _]

theorem write1_noMulti (b : Bytes) (idx : Nat) : Emits NoMulti (write B [b] idx) := by
  unfold write
  refine Emits.bind Emits.get fun s => Emits.bind (Emits.lift _) fun start => ?_
  emits [cardCommand_noMulti B CMD24 _ (by decide) (by decide) (by decide),
    cardCommand_noMulti B CMD13 _ (by decide) (by decide) (by decide),
    writeData_emits B _ _, waitNotBusy_emits B _, readByte_emits B]

theorem readCsd_noMulti : Emits NoMulti (readCsd B) := by
  unfold readCsd
  emits [cardCommand_noMulti B CMD9 _ (by decide) (by decide) (by decide), readData_emits B _]

/-! ### Multi-block read -/

theorem read_multi_shape (n idx : Nat) (hn : n ≠ 1) :
    Tr (Sd.read B n idx) (fun _ eo => OpShape 18 Stop12 eo) := by
  have hnil : OpShape 18 Stop12 [] := opShape_plain Local.nil
  unfold Sd.read
  refine Tr.bind_silent get_silent (fun s => Tr.bind_silent (lift_silent _) (fun start => ?_) hnil) hnil
  rw [if_neg hn]
  refine (Tr.bind (cardCommand_shape B CMD18 start (by decide)) fun _ => readMultiRest_tr B n).conseq ?_
  rintro r evs (⟨a, e1, e2, rfl, h1, pre, post, rfl, hp, hnc⟩ | ⟨e, rfl, h⟩ | ⟨p, rfl, h⟩)
  · rcases h1 with ⟨_, e, he⟩ | ⟨w, resp, rfl, hw, hresp⟩
    · cases he
    · have hs : Stop12 (pre ++ Event.cmd (frame 12 0) :: post) := ⟨pre, post, rfl, hnc, hp⟩
      have := OpShape.mk_cmd (K := 18) (G := Stop12) (pfx := []) (arg := start) Local.nil hw hresp
        (fun h => absurd h not_err_ok) (fun _ => hs) (stop12_noMulti hs)
      simpa [CMD18, CMD12] using this
  · rcases h with ⟨hpolls, _⟩ | ⟨w, resp, rfl, hw, hresp⟩
    · simpa using OpShape.mk_nocmds (K := 18) (G := Stop12) (pfx := []) Local.nil (cmdEvs_polls hpolls)
    · have := OpShape.mk_cmd (K := 18) (G := Stop12) (pfx := []) (arg := start) (tail := []) Local.nil hw hresp
        (fun _ => rfl) (fun h => absurd h not_ok_err) Local.nil
      simpa [CMD18] using this
  · rcases h with ⟨_, e, he⟩ | ⟨w, resp, rfl, hw, hresp⟩
    · cases he
    · rcases hresp with ⟨_, e, he⟩ | ⟨_, _, _, _, (⟨⟨_, he⟩, _⟩ | ⟨⟨_, he⟩, _⟩)⟩ <;> cases he

/-! ### Multi-block write -/

theorem write_multi_eq (blocks : List Bytes) (idx : Nat) (hne : ∀ b, blocks ≠ [b]) :
    write B blocks idx = (do
      let s ← S.get
      let start ← S.lift (startIdx s.cardType idx)
      let _ ← cardAcmd B ACMD23 (blocks.length % 4294967296)
      waitNotBusy B DEFAULT_WRITE_RETRIES
      let _ ← cardCommand B CMD25 start
      writeRest B blocks) := by
  unfold write writeRest
  cases blocks with
  | nil => rfl
  | cons b l =>
    cases l with
    | nil => exact absurd rfl (hne b)
    | cons b2 l2 => rfl

theorem stopTok_of_stop {el st : List Event} {r2 : SRes Unit} (hel : NoCmds el) (hst : StopEvs r2 st) :
    StopTok (el ++ st) ∧ NoCmds (el ++ st) := by
  obtain ⟨polls, rest, rfl, hp, hpne, hcase⟩ := hst
  have hpn : NoCmds polls := cmdEvs_polls hp
  rcases hcase with ⟨_, post, rfl, hpp, _⟩ | ⟨rfl, hl, _⟩
  · have hmid : NoCmds (el ++ polls) := Local.append _ _ hel hpn
    refine ⟨Or.inl ⟨el ++ polls, post, by simp, hmid, hpp⟩, ?_⟩
    have : NoCmds (Event.byte 0xFD :: post) := by
      have h1 : NoCmds [Event.byte 0xFD] := Local.single _ (by simp)
      exact Local.append [_] post h1 (cmdEvs_polls hpp)
    rw [← List.append_assoc]
    exact Local.append _ _ hmid this
  · have hall : NoCmds (el ++ (polls ++ [])) := by simpa using Local.append _ _ hel hpn
    refine ⟨Or.inr ⟨hall, ?_⟩, hall⟩
    rcases List.eq_nil_or_concat polls with rfl | ⟨pre, x, rfl⟩
    · exact absurd rfl hpne
    · have hx : isPoll x = true := hp x (by simp)
      cases x with
      | poll g =>
        refine ⟨g, by simp, ?_⟩
        rintro rfl
        exact hl (by simp)
      | _ => cases hx

theorem writeRest_tr (blocks : List Bytes) :
    Tr (writeRest B blocks) (fun _ evs => StopTok evs ∧ NoCmds evs) := by
  intro s
  refine (writeRest_trAt B blocks s (P := fun _ e => NoCmds e) (writeBlocks_emits (Q := NoCmds) B blocks s)
    (stopWrite_tr B)).conseq ?_
  rintro r evs ⟨r1, r2, e1, e2, rfl, h1, h2, _⟩
  exact stopTok_of_stop h1 h2

theorem cardAcmd23_noMulti (arg : Nat) : Emits NoMulti (cardAcmd B ACMD23 arg) := by
  unfold cardAcmd
  exact Emits.bind (cardCommand_noMulti B _ _ (by decide) (by decide) (by decide)) fun _ =>
    cardCommand_noMulti B _ _ (by decide) (by decide) (by decide)

theorem write_multi_shape (blocks : List Bytes) (idx : Nat) (hne : ∀ b, blocks ≠ [b]) :
    Tr (write B blocks idx) (fun _ eo => OpShape 25 StopTok eo) := by
  have hnil : OpShape 25 StopTok [] := opShape_plain Local.nil
  rw [write_multi_eq B blocks idx hne]
  refine Tr.bind_silent get_silent (fun s => Tr.bind_silent (lift_silent _) (fun start => ?_) hnil) hnil
  refine (Tr.bind (cardAcmd23_noMulti B _) fun _ => Tr.bind (waitNotBusy_tr B _) fun _ =>
    Tr.bind (cardCommand_shape B CMD25 start (by decide)) fun _ => writeRest_tr B blocks).conseq ?_
  rintro r evs (⟨_, ea, e2, rfl, ha, h2⟩ | ⟨e, rfl, h⟩ | ⟨p, rfl, h⟩)
  · rcases h2 with ⟨_, ew, e3, rfl, ⟨hw, _, _⟩, h3⟩ | ⟨e, rfl, hw, _⟩ | ⟨p, rfl, hw, _⟩
    · have hpfx : NoMulti (ea ++ ew) := Local.append _ _ ha (noMulti_of_polls hw)
      rcases h3 with ⟨a, ec, e4, rfl, hc, hst, hnc⟩ | ⟨e, rfl, hc⟩ | ⟨p, rfl, hc⟩
      · rcases hc with ⟨_, e, he⟩ | ⟨w, resp, rfl, hww, hresp⟩
        · cases he
        · have := OpShape.mk_cmd (K := 25) (G := StopTok) (arg := start) hpfx hww hresp
            (fun h => absurd h not_err_ok) (fun _ => hst) (noMulti_of_noCmds hnc)
          simpa [CMD25] using this
      · rcases hc with ⟨hpolls, _⟩ | ⟨w, resp, rfl, hww, hresp⟩
        · simpa using OpShape.mk_nocmds (K := 25) (G := StopTok) hpfx (cmdEvs_polls hpolls)
        · have := OpShape.mk_cmd (K := 25) (G := StopTok) (arg := start) (tail := []) hpfx hww hresp
            (fun _ => rfl) (fun h => absurd h not_ok_err) Local.nil
          simpa [CMD25] using this
      · rcases hc with ⟨_, e, he⟩ | ⟨w, resp, rfl, hww, hresp⟩
        · cases he
        · rcases hresp with ⟨_, e, he⟩ | ⟨_, _, _, _, (⟨⟨_, he⟩, _⟩ | ⟨⟨_, he⟩, _⟩)⟩ <;> cases he
    · exact opShape_plain (Local.append _ _ ha (noMulti_of_polls hw))
    · exact opShape_plain (Local.append _ _ ha (noMulti_of_polls hw))
  · exact opShape_plain h
  · exact opShape_plain h

/-! ### Every operation -/

theorem opOf_shape (c : Call) :
    Tr (opOf B c) (fun _ eo => OpShape 18 Stop12 eo ∨ OpShape 25 StopTok eo) := by
  cases c with
  | read n idx =>
    unfold opOf
    by_cases hn : n = 1
    · subst hn
      exact Tr.then_silent ((read1_noMulti B idx).conseq fun _ _ h => Or.inl (opShape_plain h)) fun _ => pure_silent _
    · exact Tr.then_silent ((read_multi_shape B n idx hn).conseq fun _ _ h => Or.inl h) fun _ => pure_silent _
  | write blocks idx =>
    unfold opOf
    by_cases hb : ∃ b, blocks = [b]
    · obtain ⟨b, rfl⟩ := hb
      exact Tr.then_silent ((write1_noMulti B b idx).conseq fun _ _ h => Or.inl (opShape_plain h)) fun _ => pure_silent _
    · have hne : ∀ b, blocks ≠ [b] := fun b h => hb ⟨b, h⟩
      exact Tr.then_silent ((write_multi_shape B blocks idx hne).conseq fun _ _ h => Or.inr h) fun _ => pure_silent _
  | numBlocks =>
    unfold opOf numBlocks
    exact Tr.then_silent (Tr.then_silent ((readCsd_noMulti B).conseq fun _ _ h => Or.inl (opShape_plain h))
      fun _ => pure_silent _) fun _ => pure_silent _
  | numBytes =>
    unfold opOf numBytes
    exact Tr.then_silent (Tr.then_silent ((readCsd_noMulti B).conseq fun _ _ h => Or.inl (opShape_plain h))
      fun _ => pure_silent _) fun _ => pure_silent _
  | cardType =>
    unfold opOf
    exact Tr.bind_silent get_silent (fun _ => (pure_silent _).conseq fun _ _ h => h ▸ Or.inl (opShape_plain Local.nil))
      (Or.inl (opShape_plain Local.nil))
  | markUninit =>
    unfold opOf
    exact (pure_silent _).conseq fun _ _ h => h ▸ Or.inl (opShape_plain Local.nil)

/-! ### Every call of a session -/

theorem multiTerminated_nil : MultiTerminated [] := by
  intro pre f post tail h
  simp at h

/-- In every call — on every bus, from every state, whatever the call returned — an answered
CMD18 is followed by CMD12 and an answered CMD25 by the stop sequence, with no other command in
between. -/
theorem callMarks_multi (c : Call) (s : St σ) : MultiTerminated (events (callMarks B c s)) := by
  rcases callMarks_cases B c s with ⟨rfl, hm, _⟩ | ⟨_, _, _, hm, _⟩ | ⟨_, _, s1, hacq, _, hm, _⟩ |
    ⟨_, _, e, s1, hacq, hm, _⟩
  · rw [hm]; exact multiTerminated_nil
  · rw [hm]
    simp only [events_call, events_map_ev]
    have := multi_of_shapes (ea := []) Local.nil (opOf_shape B c s).evsNew
    simpa using this
  · rw [hm]
    simp only [events_call, events_append, events_identified, events_map_ev]
    exact multi_of_shapes (noMulti_of_identOnly (acquire_identOnly_at B s s1 _ hacq)) (opOf_shape B c s1).evsNew
  · rw [hm]
    simp only [events_call, events_append, events_reset, events_map_ev, events_nil]
    exact multi_of_shapes (noMulti_of_identOnly (acquire_identOnly_at B s s1 _ hacq))
      (Or.inl (opShape_plain Local.nil))

theorem session_multi (cs : List Call) (s : St σ) :
    ∀ blk ∈ sessionBlocks B cs s, MultiTerminated (events blk) := by
  induction cs generalizing s with
  | nil => intro blk h; simp [sessionBlocks] at h
  | cons c cs ih =>
    intro blk h
    simp only [sessionBlocks, List.mem_cons] at h
    rcases h with rfl | h
    · exact callMarks_multi B c s
    · exact ih _ blk h

/-- Each block of the session log is one call: its `.call` mark first, no other `.call` mark. -/
theorem callMarks_block (c : Call) (s : St σ) :
    ∃ body, callMarks B c s = Mark.call c :: body ∧ ∀ c', Mark.call c' ∉ body := by
  rcases callMarks_cases B c s with ⟨rfl, hm, _⟩ | ⟨_, _, _, hm, _⟩ | ⟨_, _, s1, _, _, hm, _⟩ |
    ⟨_, _, e, s1, _, hm, _⟩
  · exact ⟨_, hm, by simp⟩
  · exact ⟨_, hm, by simp⟩
  · exact ⟨_, hm, by simp⟩
  · exact ⟨_, hm, by simp⟩

theorem session_blocks (cs : List Call) (s : St σ) :
    (sessionBlocks B cs s).length = cs.length ∧
    ∀ i (hi : i < cs.length) (hb : i < (sessionBlocks B cs s).length),
      ∃ body, (sessionBlocks B cs s)[i] = Mark.call cs[i] :: body ∧ ∀ c', Mark.call c' ∉ body := by
  induction cs generalizing s with
  | nil => exact ⟨rfl, fun i hi => by simp at hi⟩
  | cons c cs ih =>
    obtain ⟨h1, h2⟩ := ih (call B c s).2
    refine ⟨by simp [sessionBlocks, h1], fun i hi hb => ?_⟩
    cases i with
    | zero => simpa [sessionBlocks] using callMarks_block B c s
    | succ j =>
      simp only [sessionBlocks, List.getElem_cons_succ]
      exact h2 j (by simpa using hi) (by simpa [sessionBlocks] using hb)

end Sdmmc.Lemmas.Sd
