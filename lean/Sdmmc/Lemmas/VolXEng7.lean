/-
GENERALISATION OF `Lemmas/VolEng7.lean` TO LOST CHAINS: the medium may carry chains `X` that nothing refers to
(`MedX … X` instead of `MedX … []`).  Same statements, same proofs up to the bookkeeping of `X`.
Volume invariant (C03), layer 2 (engine): truncating a closed file (`truncate_med`):
`truncate_cluster_chain(entry.cluster)` followed by `write_entry_to_disk` of the entry with size 0 — what
`open_file_in_dir(.., ReadWriteTruncate)` does before it enters the file in the table.
-/
import Sdmmc.Lemmas.VolEng7

namespace Sdmmc.Lemmas.VolX
open Sdmmc.Lemmas.VolEng
open Sdmmc.Model Sdmmc.Model.Fat Sdmmc.Spec.Volume Sdmmc.Lemmas.VolBase Sdmmc.Lemmas.VolTree
open Sdmmc.Spec hiding NoFault Coherent
open Sdmmc.Lemmas.VolDisk Sdmmc.Lemmas.VolMed Sdmmc.Lemmas.VolWalk
open Sdmmc.Lemmas.FBasic
open Sdmmc.Lemmas.FatOps hiding BlocksOK Mirror HintOK

section
variable {files : List FileInfo} {gh : Ghost} {X : List (List Nat)}

/-- The FAT part of a truncation: the chain starting at `c` (if `c ≠ 0`) is cut behind its first cluster;
nothing outside the FAT changes. -/
theorem truncate_fat {fs : FS} (hM : MedX fs.vol fs.dev.disk files gh X) (hn : NoFault fs) (hc : Coherent fs) {c : Nat}
    (hc0 : c = 0 ∨ (chainOf gh.G c ∈ gh.G ∧ Chain fs.vol fs.dev.disk c (chainOf gh.G c))) :
    ∃ fs1 G', truncateClusterChain c fs = (.ok (), fs1) ∧ NoFault fs1 ∧ Coherent fs1 ∧ BlocksOK fs1.dev.disk ∧
      SameGeom fs.vol fs1.vol ∧ HintOK fs1.vol ∧ Owns fs1.vol fs1.dev.disk (G' ++ X) ∧ heads G' = heads gh.G ∧
      (∀ x, x ≠ c → chainOf G' x = chainOf gh.G x) ∧
      (∀ i, regionOf fs.vol i ≠ .fat → fs1.dev.disk.get i = fs.dev.disk.get i) ∧
      (c ≠ 0 → chainOf G' c = [c]) := by
  have ho : Owns fs.vol fs.dev.disk (gh.G ++ X) := hM.owns
  rcases hc0 with rfl | ⟨hmem, hch⟩
  · refine ⟨fs, gh.G, ?_, hn, hc, hM.blocksOK, SameGeom.refl _, hM.hint, ho, rfl, fun _ _ => rfl, fun _ _ => rfl,
      fun h => absurd rfl h⟩
    unfold truncateClusterChain
    rw [if_pos (by decide)]
    rfl
  · have hG := med_heads hM
    have hhd : (chainOf gh.G c).head? = some c := ChainL.chain_head? hch
    obtain ⟨tail, htail⟩ : ∃ tail, chainOf gh.G c = c :: tail := by
      cases hcs : chainOf gh.G c with
      | nil => rw [hcs] at hhd; cases hhd
      | cons a l =>
        rw [hcs] at hhd
        simp only [List.head?_cons, Option.some.injEq] at hhd
        exact ⟨l, by rw [hhd]⟩
    rw [htail] at hmem hch
    obtain ⟨A, B, hsplit⟩ := List.append_of_mem hmem
    have hr : Ready fs := ⟨hn, hc, hM.blocksOK, hM.geom, hM.hint⟩
    have ho' : Owns fs.vol fs.dev.disk (A ++ [[] ++ c :: tail] ++ (B ++ X)) := by
      rw [hsplit] at ho
      simpa [List.append_assoc] using ho
    obtain ⟨fs1, hrun, hr1, ho1, hsg, _, _⟩ := ForestStep.owns_truncate fs A (B ++ X) [] tail c hr ho'
    obtain ⟨fs1', hrun', _, _, _, _, _, _, hfr, _⟩ :=
      ForestTrunc.truncate_spec fs c c [] tail hn hc hM.blocksOK hM.geom (by simpa using hch)
    have e1 : fs1' = fs1 := by rw [hrun] at hrun'; exact (congrArg Prod.snd hrun').symm
    subst e1
    have ho1' : Owns fs1'.vol fs1'.dev.disk ((A ++ [c] :: B) ++ X) := by simpa [List.append_assoc] using ho1
    have hGs : HeadsOK (A ++ (c :: tail) :: B) := by rw [← hsplit]; exact hG
    have hG1 : HeadsOK (A ++ [c] :: B) := heads_left (heads_of_owns ho1')
    refine ⟨fs1', A ++ [c] :: B, hrun, hr1.noFault, hr1.coherent, hr1.blocksOK, hsg, hr1.hint, ho1', ?_, ?_, hfr.nonFat, ?_⟩
    · rw [hsplit]; exact heads_replace A B _ _ rfl
    · intro x hx
      rw [hsplit]
      exact chainOf_replace_other hGs hG1 rfl (by simpa using hx)
    · intro _
      exact chainOf_replace_self hG1 rfl

theorem rewritten_of_entry {v : FatVolume} {d : Disk} (hM : MedX v d files gh X) {h : Nat} (hh : h ∈ dirIds gh.dirs) {o : Slot}
    (ho : o ∈ objects h (dirSlots v d gh.G h)) (hod : isDirE o = false) (hfree : pendOf files o = none)
    (e : DirEntry) (hnm : e.name = sName o) (hat : e.attributes = sAttr o) (hcl : e.cluster = sCluster v.fatType o)
    (hsz : e.size = 0) : Rewritten v.fatType o (DirEntry.serialize v.fatType e) (sCluster v.fatType o) := by
  have hmem : o ∈ dirSlots v d gh.G h := mem_of_mem_objects ho
  have hol := mem_dirSlots_length hM.blocksOK hmem
  have hname : e.name.length = 11 := by rw [hnm]; unfold sName; rw [List.length_take, hol]; rfl
  have hco := closed_object_chain hM hh ho hod hfree
  have hcb : match v.fatType with | .fat16 => e.cluster < 65536 | .fat32 => e.cluster < 4294967296 := by
    have hbound := hM.geom.count_bound
    have hclt : sCluster v.fatType o < endCluster v ∨ sCluster v.fatType o = 0 := by
      rcases hco with ⟨h1, _, _⟩ | ⟨_, _, h3, _⟩
      · exact .inr h1
      · exact .inl (ChainL.chain_inRange h3 _ (ForestBase.chain_head_mem h3)).2
    rw [hcl]
    have h2 : 2 ≤ endCluster v := by unfold endCluster; show 2 ≤ v.clusterCount + 2; omega
    cases hft : v.fatType <;> rw [hft] at hbound hclt <;> simp only at hbound ⊢ <;> omega
  refine ⟨VolDisk.serialize_length _ _ hname, ?_, ?_, ?_, ?_, ?_⟩
  · rw [serialize_first _ _ _ _ hname, hnm]
    unfold Volume.first sName byteAt
    cases hb : o.2.2 with
    | nil => rfl
    | cons a l => rfl
  · rw [serialize_sAttr _ _ _ _ hname (by rw [hat]; exact sAttr_lt o), hat]
  · rw [serialize_sName _ _ _ _ hname, hnm]
  · rw [serialize_sCluster _ _ _ _ hname hcb, hcl]
  · rw [serialize_sSize _ _ _ _ hname (by rw [hsz]; decide), hsz]

/-- The pure step of a truncation, on the old medium with the slot rewritten: the tree clauses hold for the
cut chain list. -/
theorem rewrite_tree {v : FatVolume} {d dw : Disk} (hM : MedX v d files gh X) {h : Nat} (hh : h ∈ dirIds gh.dirs) {o : Slot}
    (ho : o ∈ objects h (dirSlots v d gh.G h)) (hod : isDirE o = false) (hfree : pendOf files o = none)
    {bytes : Bytes} (hR : Rewritten v.fatType o bytes (sCluster v.fatType o))
    (hdw : dw = d.set o.1 (splice (d.get o.1) o.2.1 bytes)) {G' : List (List Nat)} (hheads : heads G' = heads gh.G)
    (hchains : ∀ x, x ≠ sCluster v.fatType o → chainOf G' x = chainOf gh.G x) :
    TreeOK v.fatType (clusterBytesLen v) (rootHead v) G' gh.dirs (dirSlots v dw gh.G) files ∧
    ((o.1, o.2.1, bytes) : Slot) ∈ objects h (dirSlots v dw gh.G h) ∧ isDirE (o.1, o.2.1, bytes) = false ∧
    pendOf files (o.1, o.2.1, bytes) = none := by
  subst hdw
  have hG := med_heads hM
  obtain ⟨pre, post, hsp, hpre, hlen, hnz, hkeep⟩ := object_split hM hh ho
  have hnewkeep : keep (o.1, o.2.1, bytes) = true := by
    unfold keep isFrag at hkeep ⊢
    rw [hR.first, hR.attr]; exact hkeep
  have hnewdir : isDirE (o.1, o.2.1, bytes) = false := by
    unfold isDirE at hod ⊢; rw [hR.attr]; exact hod
  have hpnew : pendOf files (o.1, o.2.1, bytes) = none := by rw [← hfree]; exact pendOf_pos files _ _ rfl
  have hE := slotEdit_write hM hh hsp hpre hlen bytes hR.len (by rw [hR.first]; exact hnz)
  have hec : effCluster v.fatType files o = sCluster v.fatType o := effCluster_of_none hfree
  refine ⟨?_, ?_, hnewdir, hpnew⟩
  · apply tree_replace hM.tree hG hE ⟨hnz, hkeep⟩ hod hnewkeep hnewdir rfl hR.name
    · intro x _ hx
      rw [hec] at hx
      rw [hchains x hx]
      exact Nat.le_refl _
    · intro a
      rw [fileRefs_single, fileRefs_single, effCluster_of_none hpnew, effCluster_of_none hfree, hR.cluster, hnewdir, hod,
        hheads]
    · unfold SizeOK
      rw [effCluster_of_none hpnew, effSize_of_none hpnew, hR.cluster, hR.size]
      by_cases h0 : sCluster v.fatType o = 0
      · exact .inl ⟨h0, rfl⟩
      · exact .inr ⟨h0, Nat.zero_le _⟩
    · intro g hg _
      rw [hfree] at hg; cases hg
  · obtain ⟨A2, _, hO2, _, _⟩ := hE.objects_eq hM.tree (fun h0 => absurd h0 hnz)
    rw [if_pos hnewkeep] at hO2
    rw [hO2]
    simp

/-- No directory starts at the cluster a closed file object names; no open file owns that chain. -/
theorem closed_object_apart {v : FatVolume} {d : Disk} (hM : MedX v d files gh X) {h : Nat} (hh : h ∈ dirIds gh.dirs) {o : Slot}
    (ho : o ∈ objects h (dirSlots v d gh.G h)) (hod : isDirE o = false) (hfree : pendOf files o = none) :
    (∀ x, x ∈ dirIds gh.dirs → ¬ isFixedRoot v x → dirHead v x ≠ sCluster v.fatType o) ∧
    (∀ f, f ∈ files → f.entry.cluster = sCluster v.fatType o → sCluster v.fatType o = 0) := by
  have hG := med_heads hM
  have hec : effCluster v.fatType files o = sCluster v.fatType o := effCluster_of_none hfree
  obtain ⟨A, B, hAB⟩ := List.append_of_mem ho
  have hO : objects h (dirSlots v d gh.G h) = A ++ [o] ++ B := by rw [hAB]; simp
  constructor
  · intro x hx hfx e'
    by_cases h0 : sCluster v.fatType o = 0
    · have := hG.ge _ (dirChain_spec hM hx hfx).1
      rw [headD_of_head? (dirChain_spec hM hx hfx).2, e', h0] at this
      omega
    · obtain ⟨hnr, hnd⟩ := fileRef_not_dir hM.tree hG hh ho hod (by rw [hec]; exact h0)
      rw [hec] at hnr hnd
      rcases dirHead_cases hx hfx with h1 | h1
      · exact hnr (e' ▸ h1)
      · exact hnd (e' ▸ h1)
  · intro f hf hfe
    by_contra h0
    obtain ⟨x, hx, A', o', B', hO', hpo', hod', _, _, hp'⟩ := file_object hM.tree hf
    have ho'm : o' ∈ objects x (dirSlots v d gh.G x) := by rw [hO']; simp
    have hne : o' ≠ o := by
      rintro rfl
      rw [hfree] at hp'; cases hp'
    refine eff_ne_of_split hM.tree hG hh hO hod x hx o' ho'm ?_ hod' ?_ ?_
    · intro hxh
      subst hxh
      rw [hO] at ho'm
      simp only [List.mem_append, List.mem_singleton] at ho'm ⊢
      tauto
    · rw [effCluster_of_pend hp', hfe]; exact h0
    · rw [effCluster_of_pend hp', hec, hfe]

/-- Assembling the invariant after the FAT changed (`v1`, `d1`, `G'`) and the slot of `o` was rewritten on
top (`d2`). -/
theorem assemble_after_rewrite {v v1 : FatVolume} {d dw d1 d2 : Disk} (hM : MedX v d files gh X) {h : Nat}
    (hh : h ∈ dirIds gh.dirs) {o : Slot} (ho : o ∈ objects h (dirSlots v d gh.G h)) (hod : isDirE o = false)
    (hfree : pendOf files o = none) {bytes : Bytes} (hbl : bytes.length = 32)
    (hdw : dw = d.set o.1 (splice (d.get o.1) o.2.1 bytes)) (hd2 : d2 = d1.set o.1 (splice (d1.get o.1) o.2.1 bytes))
    (hsg : SameGeom v v1) (hh1 : HintOK v1) (hb1 : BlocksOK d1) {G' : List (List Nat)} (ho1 : Owns v1 d1 (G' ++ X))
    (hheads : heads G' = heads gh.G) (hchains : ∀ x, x ≠ sCluster v.fatType o → chainOf G' x = chainOf gh.G x)
    (hnonfat : ∀ i, regionOf v i ≠ .fat → d1.get i = d.get i)
    (htree : TreeOK v.fatType (clusterBytesLen v) (rootHead v) G' gh.dirs (dirSlots v dw gh.G) files) :
    MedX v1 d2 files { vol := v1, G := G', dirs := gh.dirs } X ∧ dirSlots v1 d2 G' h = dirSlots v dw gh.G h := by
  have hG := med_heads hM
  have hmem : o ∈ dirSlots v d gh.G h := mem_of_mem_objects ho
  obtain ⟨hdirne, hfilene⟩ := closed_object_apart hM hh ho hod hfree
  have horeg : regionOf v o.1 ≠ .fat := by
    rcases dirSlot_not_fat hM hh hmem with h1 | h1 <;> rw [h1] <;> intro e' <;> cases e'
  have hblocks : ∀ x, x ∈ dirIds gh.dirs → ∀ s, s ∈ dirSlots v dw gh.G x → d2.get s.1 = dw.get s.1 := by
    intro x hx s hs
    have hreg : regionOf v s.1 ≠ .fat := by
      rcases dirSlot_not_fat hM hx hs with h1 | h1 <;> rw [h1] <;> intro e' <;> cases e'
    rw [hd2, hdw, FBasic.Disk.get_set, FBasic.Disk.get_set]
    split
    · rw [hnonfat _ horeg]
    · exact hnonfat _ hreg
  have hfat2 : ∀ cl, cl < endCluster v1 → d2.get (fatBlock v1 cl) = d1.get (fatBlock v1 cl) := by
    intro cl hcl'
    rw [hd2]
    apply FBasic.Disk.get_set_ne
    intro e'
    have hreg := (FatLens.fat_blocks_in_fat_region v1 (hsg.wfGeom hM.geom) cl hcl').1
    rw [← e', hsg.regionOf] at hreg
    exact horeg hreg
  have hown2 : Owns v1 d2 (G' ++ X) := WriteRefines.owns_of_fat_eq hfat2 ho1
  have hb2 : BlocksOK d2 := by
    rw [hd2]
    apply FatOps.blocksOK_set _ _ _ hb1
    obtain ⟨i, hi, hoffi⟩ := mem_dirSlots_offset hmem
    rw [FatLens.splice_length _ _ _ (by rw [hb1 o.1, hbl, hoffi]; omega)]
    exact hb1 o.1
  have hdirs : ∀ x, x ∈ dirIds gh.dirs → ¬ isFixedRoot v x → chainOf G' (dirHead v x) = chainOf gh.G (dirHead v x) :=
    fun x hx hfx => hchains _ (hdirne x hx hfx)
  constructor
  · apply medX_assemble hM.geom hsg hh1 hb2 hown2 hdirs hblocks htree
    intro f hf
    obtain ⟨hok, hcur⟩ := hM.fileOK f hf
    have hfc : chainOf G' f.entry.cluster = chainOf gh.G f.entry.cluster := by
      by_cases hfe : f.entry.cluster = sCluster v.fatType o
      · have h0 := hfilene f hf hfe
        rw [hfe, h0, chainOf_lt_two hG (by decide)]
        apply chainOf_nil
        rw [hheads]
        intro hm
        exact (chainOf_ne_nil_iff hG).2 hm (chainOf_lt_two hG (by decide))
      · exact hchains _ hfe
    rw [hfc]
    refine ⟨fileOK_of_owns hsg hok hown2 ?_, hcur⟩
    by_cases hnil : chainOf gh.G f.entry.cluster = []
    · exact .inl hnil
    · right
      rw [← hfc]
      have hG1 : HeadsOK G' := heads_left (heads_of_owns ho1)
      exact List.mem_append_left _ (chainOf_spec hG1 (by rw [hheads]; exact (chainOf_ne_nil_iff hG).1 hnil)).1
  · rw [dirSlots_sameGeom hsg]
    by_cases hf : isFixedRoot v h
    · have := dirSlots_congr (G := gh.G) (hblocks h hh)
      rw [dirSlots_fixed hf] at this ⊢
      exact this
    · rw [dirSlots_chain hf, hdirs h hh hf, ← dirSlots_chain hf]
      exact dirSlots_congr (hblocks h hh)

/-- **A closed file is truncated.**  `o` is a file object of directory `h` that no open file sits at; `e` is
its entry with size 0 (any time stamps). -/
theorem truncate_med {fs : FS} (hM : MedX fs.vol fs.dev.disk files gh X) (hn : NoFault fs) (hc : Coherent fs) {h : Nat}
    (hh : h ∈ dirIds gh.dirs) {o : Slot} (ho : o ∈ objects h (dirSlots fs.vol fs.dev.disk gh.G h)) (hod : isDirE o = false)
    (hfree : pendOf files o = none) (e : DirEntry) (hblk : e.entryBlock = o.1) (hoff : e.entryOffset = o.2.1)
    (hnm : e.name = sName o) (hat : e.attributes = sAttr o) (hcl : e.cluster = sCluster fs.vol.fatType o) (hsz : e.size = 0) :
    ∃ fs1 fs2, truncateClusterChain e.cluster fs = (.ok (), fs1) ∧ writeEntryToDisk e fs1 = (.ok (), fs2) ∧ NoFault fs2 ∧
      Coherent fs2 ∧ SameGeom fs.vol fs2.vol ∧
      ∃ gh', gh'.vol = fs2.vol ∧ gh'.dirs = gh.dirs ∧ MedX fs2.vol fs2.dev.disk files gh' X ∧
        ∃ o', o' ∈ objects h (dirSlots fs2.vol fs2.dev.disk gh'.G h) ∧ spos o' = spos o ∧ isDirE o' = false ∧
          sName o' = sName o ∧ sAttr o' = sAttr o ∧ sCluster fs2.vol.fatType o' = sCluster fs.vol.fatType o ∧ sSize o' = 0 ∧
          pendOf files o' = none := by
  have hco := closed_object_chain hM hh ho hod hfree
  obtain ⟨fs1, G', hrun1, hn1, hc1, hb1, hsg1, hh1, ho1, hheads, hchains, hnonfat, _⟩ :=
    truncate_fat hM hn hc (c := sCluster fs.vol.fatType o) (by
      rcases hco with ⟨h1, _, _⟩ | ⟨_, _, h3, h4⟩
      · exact .inl h1
      · exact .inr ⟨h4, h3⟩)
  obtain ⟨fs2, hrun2, hd2, hv2, hn2, hc2⟩ := writeEntryToDisk_exact fs1 e hn1 hc1
  have hft1 : fs1.vol.fatType = fs.vol.fatType := hsg1.fatType
  have hR := rewritten_of_entry hM hh ho hod hfree e hnm hat hcl hsz
  obtain ⟨htree, hobj, hnd, hpn⟩ := rewrite_tree hM hh ho hod hfree hR rfl hheads hchains
  have hd2' : fs2.dev.disk = fs1.dev.disk.set o.1
      (splice (fs1.dev.disk.get o.1) o.2.1 (DirEntry.serialize fs.vol.fatType e)) := by
    rw [hd2, hblk, hoff, hft1]
  obtain ⟨hM2, hsl2⟩ := assemble_after_rewrite hM hh ho hod hfree hR.len rfl hd2' hsg1 hh1 hb1 ho1 hheads hchains hnonfat htree
  refine ⟨fs1, fs2, by rw [hcl]; exact hrun1, hrun2, hn2, hc2, by rw [hv2]; exact hsg1,
    { vol := fs1.vol, G := G', dirs := gh.dirs }, hv2.symm, rfl, by rw [hv2]; exact hM2,
    (o.1, o.2.1, DirEntry.serialize fs.vol.fatType e), ?_, rfl, hnd, hR.name, hR.attr, by rw [hv2, hft1]; exact hR.cluster,
    hR.size, hpn⟩
  show _ ∈ objects h (dirSlots fs2.vol fs2.dev.disk G' h)
  rw [hv2, hsl2]
  exact hobj

end

end Sdmmc.Lemmas.VolX
