/-
The independent FAT reader of `Sdmmc.Spec.Fs` against the engine's view of the medium (for
`Props.C02Reopen`, stretch B).  `Spec.Fs` shares no code with the model: it takes the geometry as
numbers (`Fs.Geom`), loads FAT copy 1 into a table (`loadFat`), walks chains with its own fuel
(`chainAux`) and reads file bytes cluster by cluster (`fileBytes`).

* `loadFat_getD`, `loadFat_model`: entry `c` of the table is the FAT entry the engine reads
  (`fatRaw`), masked to 28 bits on FAT32;
* `spec_chain_agrees`: a `Chain` of the engine's view is the chain `Fs.chain` computes — provided no
  entry of it is the FAT32 value 1, which the crate takes for end-of-chain and the specification
  reserves (`ProperEnds`; a deviation of the crate recorded here);
* `spec_fileBytes_agrees`: `Fs.fileBytes` is `fileContent`;
* `spec_slot_fields`: the reader's field accessors on a slot holding `e.serialize` return `e`'s
  name, attributes, first cluster and size;
* `spec_reader_after_close`: after `close_file` the independent reader, looking at the file's slot
  on the new medium, finds the entry's fields, the chain `cs` and the flushed bytes.
-/
import Sdmmc.Spec.Fs
import Sdmmc.Lemmas.ReopenMain

namespace Sdmmc.Lemmas.Reopen
open Sdmmc.Model Sdmmc.Model.Fat Sdmmc.Spec
open Sdmmc.Lemmas.FatOps (BlocksOK)
open Sdmmc.Lemmas.ReadRefines (MgrOK)

/-! ### decodeFatBlock -/

theorem decode32_spec : ∀ (n : Nat) (b : Bytes), b.length = 4 * n →
    (Fs.decodeFatBlock true b).length = n ∧
    ∀ k, k < n → (Fs.decodeFatBlock true b).getD k 0 = Fs.rd32 b (4 * k) % 268435456
  | 0, b, h => by
    have : b = [] := List.length_eq_zero_iff.1 (by omega)
    subst this
    exact ⟨rfl, fun k hk => by omega⟩
  | n + 1, b, h => by
    match b, h with
    | a :: b1 :: c :: e :: rest, h =>
      have hr : rest.length = 4 * n := by simp only [List.length_cons] at h; omega
      obtain ⟨ih1, ih2⟩ := decode32_spec n rest hr
      refine ⟨?_, ?_⟩
      · show ((a.toNat + 256 * b1.toNat + 65536 * c.toNat + 16777216 * e.toNat) % 268435456 ::
          Fs.decodeFatBlock true rest).length = n + 1
        rw [List.length_cons, ih1]
      · intro k hk
        show ((a.toNat + 256 * b1.toNat + 65536 * c.toNat + 16777216 * e.toNat) % 268435456 ::
          Fs.decodeFatBlock true rest).getD k 0 = _
        cases k with
        | zero =>
          simp only [List.getD_cons_zero, Fs.rd32, Fs.rd16, Nat.mul_zero, Nat.zero_add, List.getD_cons_succ]
          omega
        | succ k =>
          rw [List.getD_cons_succ, ih2 k (by omega)]
          have e4 : 4 * (k + 1) = 4 * k + 1 + 1 + 1 + 1 := by omega
          simp only [Fs.rd32, Fs.rd16, e4, Nat.add_assoc, List.getD_cons_succ]

theorem decode16_spec : ∀ (n : Nat) (b : Bytes), b.length = 4 * n →
    (Fs.decodeFatBlock false b).length = 2 * n ∧
    ∀ k, k < 2 * n → (Fs.decodeFatBlock false b).getD k 0 = Fs.rd16 b (2 * k)
  | 0, b, h => by
    have : b = [] := List.length_eq_zero_iff.1 (by omega)
    subst this
    exact ⟨rfl, fun k hk => by omega⟩
  | n + 1, b, h => by
    match b, h with
    | a :: b1 :: c :: e :: rest, h =>
      have hr : rest.length = 4 * n := by simp only [List.length_cons] at h; omega
      obtain ⟨ih1, ih2⟩ := decode16_spec n rest hr
      refine ⟨?_, ?_⟩
      · show ((a.toNat + 256 * b1.toNat) :: (c.toNat + 256 * e.toNat) :: Fs.decodeFatBlock false rest).length = _
        rw [List.length_cons, List.length_cons, ih1]; omega
      · intro k hk
        show ((a.toNat + 256 * b1.toNat) :: (c.toNat + 256 * e.toNat) :: Fs.decodeFatBlock false rest).getD k 0 = _
        match k, hk with
        | 0, _ => simp only [List.getD_cons_zero, Fs.rd16, Nat.mul_zero, Nat.zero_add, List.getD_cons_succ]
        | 1, _ => simp only [List.getD_cons_zero, Fs.rd16, Nat.mul_one, List.getD_cons_succ]
        | k + 2, hk =>
          rw [List.getD_cons_succ, List.getD_cons_succ, ih2 k (by omega)]
          have e4 : 2 * (k + 2) = 2 * k + 1 + 1 + 1 + 1 := by omega
          simp only [Fs.rd16, e4, Nat.add_assoc, List.getD_cons_succ]

/-- Entries per FAT block. -/
def per (fat32 : Bool) : Nat := if fat32 then 128 else 256

/-- The `k`-th entry of a FAT block, as the independent reader decodes it. -/
def entryAt (fat32 : Bool) (b : Bytes) (k : Nat) : Nat :=
  if fat32 then Fs.rd32 b (4 * k) % 268435456 else Fs.rd16 b (2 * k)

theorem decode_block (fat32 : Bool) (b : Bytes) (h : b.length = 512) :
    (Fs.decodeFatBlock fat32 b).length = per fat32 ∧
    ∀ k, k < per fat32 → (Fs.decodeFatBlock fat32 b).getD k 0 = entryAt fat32 b k := by
  cases fat32
  · exact decode16_spec 128 b (by omega)
  · exact decode32_spec 128 b (by omega)

theorem decode_zeros32 : ∀ n, Fs.decodeFatBlock true (List.replicate (4 * n) 0) = List.replicate n 0
  | 0 => rfl
  | n + 1 => by
    rw [show 4 * (n + 1) = 4 * n + 1 + 1 + 1 + 1 from by omega]
    simp only [List.replicate_succ]
    show (0 : Nat) :: Fs.decodeFatBlock true (List.replicate (4 * n) 0) = _
    rw [decode_zeros32 n]

theorem decode_zeros16 : ∀ n, Fs.decodeFatBlock false (List.replicate (4 * n) 0) = List.replicate (2 * n) 0
  | 0 => rfl
  | n + 1 => by
    rw [show 4 * (n + 1) = 4 * n + 1 + 1 + 1 + 1 from by omega, show 2 * (n + 1) = 2 * n + 1 + 1 from by omega]
    simp only [List.replicate_succ]
    show (0 : Nat) :: 0 :: Fs.decodeFatBlock false (List.replicate (4 * n) 0) = _
    rw [decode_zeros16 n]

/-- An absent block (all zero) decodes to a block of free entries. -/
theorem decode_zeroBlock (fat32 : Bool) : (Fs.decodeFatBlock fat32 zeroBlock).toArray = Array.replicate (per fat32) 0 := by
  have hz : zeroBlock = List.replicate (4 * 128) 0 := rfl
  rw [hz]
  cases fat32
  · rw [decode_zeros16, List.toArray_replicate]; rfl
  · rw [decode_zeros32, List.toArray_replicate]; rfl

theorem foldl_append_toArray {β : Type} (f : Nat → List β) : ∀ (l : List Nat) (init : Array β),
    l.foldl (fun acc i => acc ++ (f i).toArray) init = init ++ (l.flatMap f).toArray
  | [], init => by simp
  | i :: l, init => by
    rw [List.foldl_cons, foldl_append_toArray f l, List.flatMap_cons]
    simp [Array.append_assoc]

theorem foldl_congr_fun {α β : Type} (f g : α → β → α) (h : ∀ a b, f a b = g a b) (l : List β) (a : α) :
    l.foldl f a = l.foldl g a := by
  have : f = g := funext fun a => funext fun b => h a b
  rw [this]

theorem disk_get_of_get? (d : Disk) (k : Nat) :
    d.get k = match d.m.get? k with | none => zeroBlock | some b => b := by
  unfold Disk.get
  rw [Std.TreeMap.getD_eq_getD_getElem?, Std.TreeMap.get?_eq_getElem?]
  cases d.m[k]? <;> rfl

/-- Number of FAT blocks the independent reader loads. -/
def nblocks (g : Fs.Geom) : Nat := (g.clusters + 2 + per g.fat32 - 1) / per g.fat32

/-- The FAT table of the independent reader is the concatenation of the decoded FAT blocks. -/
theorem loadFat_eq (g : Fs.Geom) (d : Disk) :
    Fs.loadFat g d =
      ((List.range (nblocks g)).flatMap fun i => Fs.decodeFatBlock g.fat32 (d.get (g.fatStart + i))).toArray := by
  unfold Fs.loadFat
  show (List.range (nblocks g)).foldl _ (Array.mkEmpty _) = _
  rw [foldl_congr_fun _ (fun acc i => acc ++ (Fs.decodeFatBlock g.fat32 (d.get (g.fatStart + i))).toArray)]
  · rw [foldl_append_toArray]
    simp
  · intro acc i
    rw [disk_get_of_get? d (g.fatStart + i)]
    cases d.m.get? (g.fatStart + i) with
    | none => simp only; rw [decode_zeroBlock]; rfl
    | some b => rfl

theorem flatMap_uniform_getD (f : Nat → List Nat) (m : Nat) (hm : 0 < m) (hf : ∀ i, (f i).length = m) :
    ∀ (n b c : Nat), c < n * m →
      ((List.range n).flatMap fun i => f (b + i)).getD c 0 = (f (b + c / m)).getD (c % m) 0
  | 0, b, c, h => by omega
  | n + 1, b, c, h => by
    rw [Listing.flatMap_range_succ]
    by_cases hc : c < m
    · rw [List.getD_eq_getElem?_getD, List.getElem?_append_left (by rw [hf]; exact hc), ← List.getD_eq_getElem?_getD,
        Nat.div_eq_of_lt hc, Nat.mod_eq_of_lt hc, Nat.add_zero]
    · have hge : m ≤ c := by omega
      rw [List.getD_eq_getElem?_getD, List.getElem?_append_right (by rw [hf]; exact hge), ← List.getD_eq_getElem?_getD, hf]
      have hlt : c - m < n * m := by rw [Nat.add_mul, Nat.one_mul] at h; omega
      rw [flatMap_uniform_getD f m hm hf n (b + 1) (c - m) hlt]
      have e : c = (c - m) + m := by omega
      have h1 : c / m = (c - m) / m + 1 := by
        conv => lhs; rw [e]
        exact Nat.add_div_right _ hm
      have h2 : c % m = (c - m) % m := by
        conv => lhs; rw [e]
        exact Nat.add_mod_right _ _
      rw [h1, h2]
      congr 2
      omega

theorem per_pos (fat32 : Bool) : 0 < per fat32 := by cases fat32 <;> decide

theorem clusters_lt_table (g : Fs.Geom) : g.clusters + 2 ≤ nblocks g * per g.fat32 := by
  unfold nblocks
  cases g.fat32
  · show _ ≤ (g.clusters + 2 + 256 - 1) / 256 * 256; omega
  · show _ ≤ (g.clusters + 2 + 128 - 1) / 128 * 128; omega

/-- Entry `c` of the reader's FAT table is entry `c % per` of FAT block `c / per` of copy 1. -/
theorem loadFat_getD (g : Fs.Geom) (d : Disk) (hb : BlocksOK d) (c : Nat) (hc : c < g.clusters + 2) :
    (Fs.loadFat g d).getD c 0 = entryAt g.fat32 (d.get (g.fatStart + c / per g.fat32)) (c % per g.fat32) := by
  rw [loadFat_eq]
  have hlt := Nat.lt_of_lt_of_le hc (clusters_lt_table g)
  have hidx := flatMap_uniform_getD (fun i => Fs.decodeFatBlock g.fat32 (d.get i)) (per g.fat32) (per_pos _)
    (fun i => (decode_block g.fat32 _ (hb i)).1) (nblocks g) g.fatStart c hlt
  have hget : ∀ (l : List Nat), l.toArray.getD c 0 = l.getD c 0 := by
    intro l
    simp [Array.getD, List.getD_eq_getElem?_getD]
    split <;> simp_all
  rw [hget, hidx]
  exact (decode_block g.fat32 _ (hb _)).2 _ (Nat.mod_lt _ (per_pos _))

/-! ### The reader's geometry against the volume record -/

/-- `g` is the geometry of `v`, as the numbers the independent reader works with. -/
structure GeomOf (v : FatVolume) (g : Fs.Geom) : Prop where
  fat32 : g.fat32 = decide (v.fatType = .fat32)
  fatStart : g.fatStart = v.lbaStart + v.fatStart
  firstData : g.firstData = v.lbaStart + v.firstDataBlock
  bpc : g.bpc = v.blocksPerCluster
  clusters : g.clusters = v.clusterCount

theorem rd16_eq (b : Bytes) (o : Nat) : Fs.rd16 b o = readU16 b o := rfl
theorem rd32_eq (b : Bytes) (o : Nat) : Fs.rd32 b o = readU32 b o := by
  unfold Fs.rd32 Fs.rd16 readU32 byteAt
  rw [show o + 2 + 1 = o + 3 from rfl]
  omega

/-- The reader's FAT table holds, for every cluster of the volume, the entry the engine reads
(`fatRaw`), masked to 28 bits on FAT32. -/
theorem loadFat_model (v : FatVolume) (g : Fs.Geom) (hgm : GeomOf v g) (d : Disk) (hb : BlocksOK d) (c : Nat)
    (hc : c < endCluster v) :
    (Fs.loadFat g d).getD c 0 =
      match v.fatType with | .fat16 => fatRaw v d c | .fat32 => fatRaw v d c % 268435456 := by
  have hc' : c < g.clusters + 2 := by rw [hgm.clusters]; exact hc
  rw [loadFat_getD g d hb c hc', hgm.fatStart, hgm.fat32]
  unfold fatRaw fatBlock fatEntOffset rawFatEntry entryAt per
  cases hft : v.fatType
  · simp only [reduceCtorEq, decide_false, Bool.false_eq_true, if_false, entryWidth, Gen.BLOCK_LEN_U32, rd16_eq]
    congr 2 <;> omega
  · simp only [decide_true, if_true, entryWidth, Gen.BLOCK_LEN_U32, rd32_eq]
    congr 3 <;> omega

/-! ### The reader's chain walk -/

/-- The crate takes the FAT32 entry value 1 for an end-of-chain mark (`next_cluster`:
`0x0000_0001 | 0x0FFF_FFF8..=0x0FFF_FFFF => EndOfFile`); the specification reserves it and the
independent reader reports it.  `ProperEnds` excludes it: no cluster of the chain has entry 1. -/
def ProperEnds (v : FatVolume) (d : Disk) (cs : List Nat) : Prop :=
  ∀ x ∈ cs, v.fatType = .fat32 → fatRaw v d x % 268435456 ≠ 1

theorem inRange_geom {v : FatVolume} {g : Fs.Geom} (hgm : GeomOf v g) {c : Nat} (hr : InRange v c) :
    Fs.inRange g c = true := by
  unfold Fs.inRange
  rw [hgm.clusters]
  have h2 := hr.2
  unfold endCluster at h2
  simp only [Gen.RESERVED_ENTRIES] at h2
  simp only [Bool.and_eq_true, decide_eq_true_eq]
  exact ⟨hr.1, h2⟩

theorem chainAux_of_chain (v : FatVolume) (g : Fs.Geom) (hgm : GeomOf v g) (d : Disk) (hb : BlocksOK d)
    {c : Nat} {cs : List Nat} (hch : Chain v d c cs) :
    ProperEnds v d cs → ∀ fuel acc, cs.length ≤ fuel →
      Fs.chainAux g (Fs.loadFat g d) fuel c acc = .ok (acc.reverse ++ cs) := by
  induction hch with
  | last c hr he =>
    intro hp fuel acc hfuel
    obtain ⟨k, rfl⟩ : ∃ k, fuel = k + 1 := ⟨fuel - 1, by simp only [List.length_singleton] at hfuel; omega⟩
    have hent := loadFat_model v g hgm d hb c hr.2
    have hp' := hp c (List.mem_singleton.2 rfl)
    unfold Fs.chainAux
    rw [inRange_geom hgm hr]
    simp only [Bool.not_true, Bool.false_eq_true, if_false]
    have heoc : Fs.isEoc g ((Fs.loadFat g d).getD c 0) = true := by
      unfold Fs.isEoc
      rw [hent, hgm.fat32]
      unfold nextOf decodeNext at he
      cases hft : v.fatType
      · rw [hft] at he
        simp only at he
        simp only [reduceCtorEq, decide_false, Bool.false_eq_true, if_false, decide_eq_true_eq]
        split at he
        · cases he
        · split at he
          · assumption
          · cases he
      · rw [hft] at he
        have hp1 := hp' hft
        simp only at he
        simp only [decide_true, if_true, decide_eq_true_eq]
        split at he
        · cases he
        · split at he
          · cases he
          · split at he
            · rename_i h3
              rcases h3 with h3 | h3
              · exact absurd h3 hp1
              · exact h3
            · cases he
    rw [heoc]
    simp only [if_true, List.reverse_cons]
  | link c n rest hr hn hnot hrest ih =>
    intro hp fuel acc hfuel
    obtain ⟨k, rfl⟩ : ∃ k, fuel = k + 1 := ⟨fuel - 1, by simp only [List.length_cons] at hfuel; omega⟩
    have hent := loadFat_model v g hgm d hb c hr.2
    have hnr : InRange v n := ChainL.chain_inRange hrest n (List.mem_of_getElem? (ChainL.chain_get_zero hrest))
    have hrec := ih (fun x hx => hp x (List.mem_cons_of_mem _ hx)) k (c :: acc)
      (by simp only [List.length_cons] at hfuel; omega)
    have hfacts : (Fs.loadFat g d).getD c 0 = n ∧
        Fs.isEoc g n = false ∧ Fs.isBad g n = false := by
      unfold Fs.isEoc Fs.isBad
      rw [hent, hgm.fat32]
      unfold nextOf decodeNext at hn
      cases hft : v.fatType
      · rw [hft] at hn
        simp only at hn
        simp only [reduceCtorEq, decide_false, Bool.false_eq_true, if_false, decide_eq_false_iff_not]
        split at hn
        · cases hn
        · split at hn
          · cases hn
          · cases hn
            rename_i h1 h2
            exact ⟨rfl, h2, h1⟩
      · rw [hft] at hn
        simp only at hn
        simp only [decide_true, if_true, decide_eq_false_iff_not]
        split at hn
        · cases hn
        · split at hn
          · cases hn
          · split at hn
            · cases hn
            · cases hn
              rename_i h1 h2 h3
              exact ⟨rfl, fun h => h3 (.inr h), h2⟩
    obtain ⟨hx, hne, hnb⟩ := hfacts
    unfold Fs.chainAux
    rw [inRange_geom hgm hr]
    simp only [Bool.not_true, Bool.false_eq_true, if_false]
    have h0 : ¬ n = 0 := by have := hnr.1; omega
    have h1 : ¬ n = 1 := by have := hnr.1; omega
    simp only [hx, hne, hnb, Bool.false_eq_true, if_false, h0, h1]
    rw [hrec, List.reverse_cons, List.append_assoc]
    rfl

/-- A chain has at most as many clusters as the volume has data clusters. -/
theorem chain_length_le {v : FatVolume} {d : Disk} {c : Nat} {cs : List Nat} (h : Chain v d c cs) :
    cs.length ≤ v.clusterCount := by
  have hsub : cs ⊆ List.range' 2 v.clusterCount := by
    intro x hx
    have hr := ChainL.chain_inRange h x hx
    have h2 := hr.2
    unfold endCluster at h2
    simp only [Gen.RESERVED_ENTRIES] at h2
    rw [List.mem_range'_1]
    exact ⟨hr.1, by omega⟩
  have := List.Nodup.length_le_of_subset (ChainL.chain_nodup h) hsub
  rwa [List.length_range'] at this

/-- **The independent reader finds the same chain**: on a medium with 512-byte blocks, for a
geometry `g` describing the volume record `v`, a chain of the engine's view (`Chain`) none of whose
FAT entries is the reserved value 1 is what `Spec.Fs.chain` computes. -/
theorem spec_chain_agrees (v : FatVolume) (g : Fs.Geom) (hgm : GeomOf v g) (d : Disk) (hb : BlocksOK d)
    {c : Nat} {cs : List Nat} (hch : Chain v d c cs) (hp : ProperEnds v d cs) : Fs.chain g d c = .ok cs := by
  unfold Fs.chain Fs.chainT
  rw [chainAux_of_chain v g hgm d hb hch hp _ [] (by rw [hgm.clusters]; have := chain_length_le hch; omega)]
  rfl

/-- **The independent reader reads the same bytes**: `Spec.Fs.fileBytes` of a list of data clusters
is `fileContent`. -/
theorem spec_fileBytes_agrees (v : FatVolume) (hg : WFGeom v) (g : Fs.Geom) (hgm : GeomOf v g) (d : Disk)
    (cs : List Nat) (hin : ∀ c ∈ cs, InRange v c) (size : Nat) :
    Fs.fileBytes g d cs size = fileContent v d cs size := by
  unfold Fs.fileBytes Spec.fileContent Spec.chainBytes
  congr 2
  apply List.map_congr_left
  intro c hc
  unfold Spec.clusterBytes Fs.clusterBlock
  rw [hgm.bpc, hgm.firstData, FatLens.clusterToBlock_ordinary v c (FatLens.lt_end_ne_root v hg c (hin c hc).2)]

/-! ### The reader's view of a flushed slot -/

/-- The reader's accessors on a slot holding the serialised entry. -/
theorem spec_slot_fields (v : FatVolume) (g : Fs.Geom) (hgm : GeomOf v g) (e : DirEntry) (hst : Storable v.fatType e)
    (s : Fs.Slot) (hs : s.bytes = e.serialize v.fatType) :
    Fs.nameOf s = e.name ∧ Fs.attrOf s = e.attributes ∧ Fs.clusterOf g s = e.cluster ∧ Fs.sizeOf s = e.size ∧
    Fs.firstByte s = byteAt e.name 0 := by
  have hcl' : e.cluster < 4294967296 := by
    have := hst.cluster_lt
    cases hft : v.fatType <;> rw [hft] at this <;> simp only at this <;> omega
  obtain ⟨_, h0, h11, _, _, h20, _, _, h26, h28⟩ := serialize_layout v.fatType e hst.name_len hst.attr_lt hst.size_lt hcl'
  refine ⟨?_, ?_, ?_, ?_, ?_⟩
  · unfold Fs.nameOf; rw [hs]; exact h0
  · unfold Fs.attrOf; rw [hs]; exact h11
  · unfold Fs.clusterOf
    rw [hs, hgm.fat32, rd16_eq, rd16_eq, h20, h26]
    have := hst.cluster_lt
    cases hft : v.fatType <;> rw [hft] at this <;> simp only at this ⊢
    · simp only [reduceCtorEq, decide_false, Bool.false_eq_true, if_false]; omega
    · simp only [decide_true, if_true]; omega
  · unfold Fs.sizeOf; rw [hs, rd32_eq]; exact h28
  · unfold Fs.firstByte; rw [hs]
    exact DirSlots.serialize_first_byte v.fatType e hst.name_len

/-- The FAT entries of clusters of the volume are the same on two media that agree off the entry's
block (a directory block) and the info sector. -/
theorem fatRaw_of_agreeOff (v : FatVolume) (hg : WFGeom v) (eb : Nat) (d d' : Disk) (h : AgreeOff v eb d d')
    (hdb : regionOf v eb = .data ∨ regionOf v eb = .root) (c : Nat) (hc : c < endCluster v) :
    fatRaw v d' c = fatRaw v d c := by
  unfold Spec.fatRaw
  rw [agreeOff_fat v hg eb d d' h hdb c hc]

/-- **After the close, the independent reader agrees** (stretch B).  Writer as in
`close_then_slot`; `g` describes the volume's geometry (`GeomOf`); no FAT entry of the file's chain is
the reserved FAT32 value 1 (`ProperEnds`).  On the medium the close leaves, the reader's slot at the
file's position (`bytes` = the 32 bytes at `entryOffset` of block `entryBlock`) has the entry's
name, attributes, first cluster and size; `Fs.chain` of that cluster is `cs`; and `Fs.fileBytes` of
that chain and size is `B`, the contents of the writer's file. -/
theorem spec_reader_after_close (s : Mgr) (h i vi : Nat) (f : FileInfo) (v : VolInfo) (cs : List Nat)
    (hs : MgrOK s) (hh : s.files.findIdx? (·.rawFile = h) = some i) (hf : s.files[i]? = some f)
    (hv : s.vols.findIdx? (·.rawVolume = f.rawVolume) = some vi) (hvi : s.vols[vi]? = some v)
    (hg : WFGeom v.vol) (hok : FileOK v.vol s.dev.disk f cs) (hd : f.dirty = true)
    (he : EntryOK f.entry) (hap : SlotApart v.vol f.entry.entryBlock cs)
    (g : Fs.Geom) (hgm : GeomOf v.vol g) (hp : ProperEnds v.vol s.dev.disk cs) :
    ∃ s1, closeFile h s = (.ok (), s1) ∧
      ∀ sl : Fs.Slot, sl.bytes = slice (s1.dev.disk.get f.entry.entryBlock) f.entry.entryOffset 32 →
        Fs.nameOf sl = f.entry.name ∧ Fs.attrOf sl = f.entry.attributes ∧
        Fs.clusterOf g sl = f.entry.cluster ∧ Fs.sizeOf sl = f.entry.size ∧
        (cs ≠ [] → Fs.chain g s1.dev.disk (Fs.clusterOf g sl) = .ok cs) ∧
        Fs.fileBytes g s1.dev.disk cs (Fs.sizeOf sl) = fileContent v.vol s.dev.disk cs f.entry.size := by
  obtain ⟨s1, _, hcl, _, hok1, hslot, _, hagree⟩ :=
    closeFile_spec s h i vi f v hs hh hf hv hvi hd (assert_of_fileOK hok) he.off_le he.name_len
  have hst := storable_of_fileOK hg hok he
  refine ⟨_, hcl, ?_⟩
  intro sl hsl
  have hsl' : sl.bytes = f.entry.serialize v.vol.fatType := hsl.trans hslot
  obtain ⟨h1, h2, h3, h4, _⟩ := spec_slot_fields v.vol g hgm f.entry hst sl hsl'
  have hb1 : BlocksOK s1.dev.disk := hok1.2.2.1
  refine ⟨h1, h2, h3, h4, ?_, ?_⟩
  · intro hne
    rcases hok.chain with ⟨_, h0, _⟩ | hch
    · exact absurd h0 hne
    · rw [h3]
      have hch1 := chain_of_agreeOff v.vol hg _ _ _ hagree hap.dir_block hch
      apply spec_chain_agrees v.vol g hgm s1.dev.disk hb1 hch1
      intro x hx h32
      rw [fatRaw_of_agreeOff v.vol hg _ _ _ hagree hap.dir_block x (ChainL.chain_inRange hch x hx).2]
      exact hp x hx h32
  · rw [h4]
    rcases hok.chain with ⟨_, h0, _⟩ | hch
    · subst h0; rfl
    · rw [spec_fileBytes_agrees v.vol hg g hgm s1.dev.disk cs (ChainL.chain_inRange hch)]
      exact fileContent_of_agreeOff v.vol hg _ _ _ hagree cs (ChainL.chain_inRange hch) hap.not_own _

end Sdmmc.Lemmas.Reopen
