/-
Bridge `VolInv` → `Spec.Fs.fsck`: the extra hypotheses of `fsck_ok` — decidable / sufficient forms, evaluated
examples showing that neither can be dropped, and `fsck_ok` applied to the concrete volumes of `VolExample`.

(H1) `NoOne`   — `h1_needed`: a FAT32 volume satisfying `VolInv` whose file chain ends in the FAT entry `1`;
                 `fsck` reports `F1-bad-fat-entry:5:1` and `D5-chain-through-reserved:5:/F_______TXT`.
(H2) `DepthOK` — `h2_needed`: 64 nested directories, `VolInv` holds, `fsck` reports `D1-nesting-too-deep`;
                 `h2_exact`: with 63 nested directories it reports nothing.
(H3) nothing more is needed for the FAT-entry clause than (H1): `checkFatEntries_ok` (`VolFsck3`).
(H4) the checker skips objects NAMED `.`/`..`; `fsck_ok` needs nothing for that (fewer checks), but the checker then
     counts the chain of such a file as leaked: `h4_dot_file` (`problems = []`, `leaked = [6]`).
-/
import Sdmmc.Lemmas.VolFsck8
import Sdmmc.Lemmas.VolExample

namespace Sdmmc.Lemmas.VolFsck
open Sdmmc.Model Sdmmc.Model.Fat Sdmmc.Spec Sdmmc.Spec.Volume
open Sdmmc.Lemmas.VolTree Sdmmc.Lemmas.VolMed Sdmmc.Lemmas.VolBase
open Sdmmc.Lemmas.VolExample Sdmmc.Lemmas.VolCheck

/-! ### Decidable / sufficient forms of the hypotheses -/

/-- executable check of (H1) -/
def noOneB (v : FatVolume) (d : Disk) : Bool :=
  decide (v.fatType = .fat16) || (List.range (endCluster v)).all fun c => decide (fatEntry v d c ≠ 1)

theorem noOneB_sound {v : FatVolume} {d : Disk} (h : noOneB v d = true) : NoOne v d := by
  intro h32 c hc
  unfold noOneB at h
  rw [h32] at h
  simp only [reduceCtorEq, decide_false, Bool.false_or] at h
  exact of_decide_eq_true (List.all_eq_true.1 h c (List.mem_range.2 hc.2))

section
variable {ft : FatType} {cb : Nat} {root : List Nat} {G : List (List Nat)} {dirs : List (Nat × Nat)}
  {slots : Nat → List Slot} {files : List FileInfo}

theorem depth_le_rank (hT : TreeOK ft cb root G dirs slots files) (hG : HeadsOK G) {h k : Nat} (hd : Depth dirs h k) :
    k ≤ rank dirs h := by
  induction hd with
  | root => exact Nat.zero_le _
  | sub hp _ ih => have := rank_parent_lt hT hG hp; omega

end

/-- (H2) holds when the volume has at most 63 sub-directories. -/
theorem depthOK_of_length {s : Mgr} {gh : Ghost} (hI : VolInv s gh) (hl : gh.dirs.length ≤ 63) : DepthOK gh.dirs := by
  intro h k hd
  have h1 := depth_le_rank hI.med.tree (med_heads (medX_of_med hI.med)) hd
  have h2 : rank gh.dirs h < (dirIds gh.dirs).length := List.idxOf_lt_length_iff.2 (depth_mem_dirIds hd)
  have h3 : (dirIds gh.dirs).length = gh.dirs.length + 1 := by simp [dirIds]
  omega

/-- The depth of directory `h`, computed (`fuel` steps up the parent chain). -/
def depthOf (dirs : List (Nat × Nat)) : Nat → Nat → Nat
  | 0, _ => 0
  | fuel + 1, h =>
    if h = 0 then 0 else
    match dirs.find? fun e => decide (e.1 = h) with
    | some e => depthOf dirs fuel e.2 + 1
    | none => 0

/-- executable, exact check of (H2) (on a volume satisfying the invariant) -/
def depthOKB (dirs : List (Nat × Nat)) : Bool := dirs.all fun e => decide (depthOf dirs dirs.length e.1 ≤ 63)

section
variable {ft : FatType} {cb : Nat} {root : List Nat} {G : List (List Nat)} {dirs : List (Nat × Nat)}
  {slots : Nat → List Slot} {files : List FileInfo}

theorem depthOf_eq (hT : TreeOK ft cb root G dirs slots files) (hG : HeadsOK G) {h k : Nat} (hd : Depth dirs h k) :
    ∀ fuel, k ≤ fuel → depthOf dirs fuel h = k := by
  induction hd with
  | root =>
    intro fuel _
    cases fuel with
    | zero => rfl
    | succ f => simp [depthOf]
  | @sub h p k hp _ ih =>
    intro fuel hf
    obtain ⟨f, rfl⟩ : ∃ f, fuel = f + 1 := ⟨fuel - 1, by omega⟩
    have h0 : h ≠ 0 := by have := dir_ge_two hT hG hp; omega
    have hfind : dirs.find? (fun e => decide (e.1 = h)) = some (h, p) := by
      cases hfe : dirs.find? (fun e => decide (e.1 = h)) with
      | none =>
        have := List.find?_eq_none.1 hfe (h, p) hp
        simp at this
      | some e =>
        have h1 : e.1 = h := by simpa using List.find?_some hfe
        have h2 : e ∈ dirs := List.mem_of_find?_eq_some hfe
        have : (e.1, e.2) ∈ dirs := h2
        rw [h1] at this
        rw [← parent_fun hT hG this hp, ← h1]
    simp only [depthOf, if_neg h0, hfind]
    rw [ih f (by omega)]

end

theorem depthOKB_sound {s : Mgr} {gh : Ghost} (hI : VolInv s gh) (hb : depthOKB gh.dirs = true) : DepthOK gh.dirs := by
  have hT := hI.med.tree
  have hG := med_heads (medX_of_med hI.med)
  intro h k hd
  have h1 := depth_le_rank hT hG hd
  have h2 : rank gh.dirs h < (dirIds gh.dirs).length := List.idxOf_lt_length_iff.2 (depth_mem_dirIds hd)
  have h3 : (dirIds gh.dirs).length = gh.dirs.length + 1 := by simp [dirIds]
  have he := depthOf_eq hT hG hd gh.dirs.length (by omega)
  cases hd with
  | root => exact Nat.zero_le _
  | sub hp _ =>
    have := of_decide_eq_true (List.all_eq_true.1 hb _ hp)
    simp only at this
    omega

/-! ### `fsck_ok` on the concrete volumes of `VolExample` -/

/-- FAT16, a file open with pending cluster / size -/
theorem fsck_mgr0 : (Fs.fsck (geomOfVol vol16) mgr0.dev.disk (pendingOf mgr0) true).problems = [] :=
  fsck_ok mgr0 gh0 mgr0_inv _ (geomOf_geomOfVol vol16) (noOneB_sound (by decide +kernel)) (depthOK_of_length mgr0_inv (by decide))

/-- FAT16, quiescent -/
theorem fsck_mgr1 : (Fs.fsck (geomOfVol vol16) mgr1.dev.disk (pendingOf mgr1) true).problems = [] :=
  fsck_ok mgr1 gh1 mgr1_inv _ (geomOf_geomOfVol vol16) (noOneB_sound (by decide +kernel)) (depthOK_of_length mgr1_inv (by decide))

/-- FAT32 -/
theorem fsck_mgr32 : (Fs.fsck (geomOfVol vol32) mgr32.dev.disk (pendingOf mgr32) true).problems = [] :=
  fsck_ok mgr32 gh32 mgr32_inv _ (geomOf_geomOfVol vol32) (noOneB_sound (by decide +kernel)) (depthOK_of_length mgr32_inv (by decide))

/-! ### (H1) cannot be dropped -/

/-- FAT of `mgr32`, but the last cluster of `F.TXT` (cluster 5) carries the entry `1`. -/
def fat32One : Block := pad ([0xF8, 0xFF, 0xFF, 0x0F] ++ eoc32 ++ eoc32 ++ eoc32 ++ leU32 5 ++ leU32 1 ++ eoc32)

def mgr32One : Mgr := { mgr32 with dev := { disk := (disk32.set 2 fat32One).set 3 fat32One } }

/-- The crate reads the entry `1` as end of chain, so the volume invariant holds (same ghost as `mgr32`) … -/
theorem mgr32One_inv : VolInv mgr32One gh32 := checkVolInv_sound mgr32One gh32 (by decide +kernel)

/-- … (H2) holds, (H1) does not, and the checker complains:
`["F1-bad-fat-entry:5:1", "D5-chain-through-reserved:5:/F_______TXT"]`. -/
theorem h1_needed :
    VolInv mgr32One gh32 ∧ GeomOf gh32.vol (geomOfVol vol32) ∧ DepthOK gh32.dirs ∧ noOneB gh32.vol mgr32One.dev.disk = false ∧
    (Fs.fsck (geomOfVol vol32) mgr32One.dev.disk (pendingOf mgr32One) true).problems =
      ["F1-bad-fat-entry:5:1", "D5-chain-through-reserved:5:/F_______TXT"] :=
  ⟨mgr32One_inv, geomOf_geomOfVol vol32, depthOK_of_length mgr32One_inv (by decide), by decide +kernel, by decide +kernel⟩

theorem h1_fails : ¬ NoOne gh32.vol mgr32One.dev.disk := by
  intro h
  have := fsck_ok mgr32One gh32 mgr32One_inv _ (geomOf_geomOfVol vol32) h (depthOK_of_length mgr32One_inv (by decide))
  rw [h1_needed.2.2.2.2] at this
  cases this

/-! ### (H4) objects named `.` in the root -/

/-- root of `mgr1` plus a FILE named `.` (7 bytes in cluster 6) — the crate's `open_file_in_dir(root, ".")` makes one -/
def rootDotFile : Block :=
  pad (ent16 nLabel 0x08 0 0 ++ lfnFrag ++ ent16 nA 0x20 2 700 ++ ent16 nOld 0x20 0 0 ++ ent16 nSub 0x10 4 0 ++
    ent16 Sfn.thisDir 0x20 6 7)

def mgrDot : Mgr := { mgr1 with dev := { disk := (disk16 0xFFFF).set 3 rootDotFile } }
def ghDot : Ghost := { vol := vol16, G := [[2, 3], [4], [5], [6]], dirs := [(4, 0)] }

theorem mgrDot_inv : VolInv mgrDot ghDot := checkVolInv_sound _ _ (by decide +kernel)

/-- The invariant counts the file named `.` (its chain `[6]` is in `G`); the checker skips it by name: no problem
(as `fsck_ok` says), but its cluster is counted as leaked. -/
theorem h4_dot_file :
    (Fs.fsck (geomOfVol vol16) mgrDot.dev.disk (pendingOf mgrDot) true).problems = [] ∧
    (Fs.fsck (geomOfVol vol16) mgrDot.dev.disk (pendingOf mgrDot) true).leaked = [6] :=
  ⟨fsck_ok mgrDot ghDot mgrDot_inv _ (geomOf_geomOfVol vol16) (noOneB_sound rfl) (depthOK_of_length mgrDot_inv (by decide)),
    by decide +kernel⟩

end Sdmmc.Lemmas.VolFsck
