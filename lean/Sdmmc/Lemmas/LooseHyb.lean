/-
THE HYBRID INVARIANT: `VolInvH sk h X s gh` — the invariant with size slack (`VolInvD sk X`, up to the fault schedule) EXCEPT that
the records carrying the handle id `h` — at most one, unmodified — need not fit their chain (`FileLoose` instead of `FileOK`):
what a size-keeping `open_file_in_dir` of a DAMAGED closed file leaves (`Lemmas/LooseOpen.lean`).  It is kept by `read`, the
seeks and the observers on ANY handle under any schedule, and `close_file h` gives `VolInvD sk X` back.
-/
import Sdmmc.Lemmas.LooseApi
import Sdmmc.Lemmas.FaultDTruncRun

namespace Sdmmc.Lemmas.VolD
open Sdmmc.Model Sdmmc.Model.Fat Sdmmc.Spec.Volume Sdmmc.Lemmas.VolBase Sdmmc.Lemmas.VolTree
open Sdmmc.Spec hiding NoFault Coherent
open Sdmmc.Lemmas.VolDisk Sdmmc.Lemmas.VolMed Sdmmc.Lemmas.CrashContDelete
open Sdmmc.Lemmas.ReadRefines (Step SameFile)
open Sdmmc.Lemmas.Retry (Keeps MgrOKF mclr)
open Sdmmc.Lemmas.Loose

/-- The medium invariant with slack, the records with handle id `h` excepted from `size_fits`. -/
structure MedH (sk h : Nat) (v : FatVolume) (d : Disk) (files : List FileInfo) (gh : Ghost) (X : List (List Nat)) : Prop where
  w : MedW (clusterBytesLen v + sk) v d files gh X
  fits : ∀ f, f ∈ files → f.rawFile ≠ h → f.entry.size ≤ (chainOf gh.G f.entry.cluster).length * clusterBytesLen v
  clean : ∀ f, f ∈ files → f.rawFile = h → f.dirty = false
  uniq : ∀ (i j : Nat) (f f' : FileInfo), files[i]? = some f → files[j]? = some f' → f.rawFile = h → f'.rawFile = h → i = j

section
variable {sk h : Nat} {v : FatVolume} {d : Disk} {files : List FileInfo} {gh : Ghost} {X : List (List Nat)}

/-- No record carries `h`: it is the invariant with slack. -/
theorem medD_of_medH (hM : MedH sk h v d files gh X) (hno : ∀ f, f ∈ files → f.rawFile ≠ h) : MedD sk v d files gh X :=
  ⟨hM.w.blocksOK, hM.w.geom, hM.w.hint, hM.w.owns, hM.w.tree, fun f hf =>
    ⟨⟨(hM.w.fileOK f hf).1.chain, hM.fits f hf (hno f hf), (hM.w.fileOK f hf).1.pos_le, (hM.w.fileOK f hf).1.cursor⟩,
      (hM.w.fileOK f hf).2⟩⟩

theorem medW_of_medD (hM : MedD sk v d files gh X) : MedW (clusterBytesLen v + sk) v d files gh X :=
  ⟨hM.blocksOK, hM.geom, hM.hint, hM.owns, hM.tree, fun f hf =>
    ⟨⟨(hM.fileOK f hf).1.chain, (hM.fileOK f hf).1.pos_le, (hM.fileOK f hf).1.cursor⟩, (hM.fileOK f hf).2⟩⟩

/-- One record changes in offset and cursor only. -/
theorem medH_file_cursor (hM : MedH sk h v d files gh X) {i : Nat} {f f' : FileInfo} (hi : files[i]? = some f)
    (hs : SameFile f f') (hok : FileLoose v d f' (chainOf gh.G f.entry.cluster))
    (hcur : chainOf gh.G f.entry.cluster = [] → f'.curCluster < 2) : MedH sk h v d (files.set i f') gh X := by
  have hlt : i < files.length := (List.getElem?_eq_some_iff.1 hi).1
  refine ⟨medW_file_cursor hM.w hi hs.entry hs.dirty hok hcur, fun g hg hne => ?_, fun g hg he => ?_, ?_⟩
  · rcases List.mem_or_eq_of_mem_set hg with hg | rfl
    · exact hM.fits g hg hne
    · rw [hs.entry]; exact hM.fits f (List.mem_of_getElem? hi) (by rw [← hs.rawFile]; exact hne)
  · rcases List.mem_or_eq_of_mem_set hg with hg | rfl
    · exact hM.clean g hg he
    · rw [hs.dirty]; exact hM.clean f (List.mem_of_getElem? hi) (by rw [← hs.rawFile]; exact he)
  · intro a b x y ha hb hx hy
    have key : ∀ (c : Nat) (z : FileInfo), (files.set i f')[c]? = some z → z.rawFile = h → ∃ z0 : FileInfo, files[c]? = some z0 ∧ z0.rawFile = h := by
      intro c z hc hz
      by_cases hci : c = i
      · subst hci
        rw [List.getElem?_set_self hlt] at hc
        cases hc
        exact ⟨f, hi, by rw [← hs.rawFile]; exact hz⟩
      · rw [List.getElem?_set_ne (Ne.symm hci)] at hc
        exact ⟨z, hc, hz⟩
    obtain ⟨x0, hx0, hxh⟩ := key a x ha hx
    obtain ⟨y0, hy0, hyh⟩ := key b y hb hy
    exact hM.uniq a b x0 y0 hx0 hy0 hxh hyh

/-- The record with id `h` leaves the table: the invariant with slack. -/
theorem medD_of_drop (hM : MedH sk h v d files gh X) {i : Nat} {f : FileInfo} (hi : files[i]? = some f) (hf : f.rawFile = h)
    {files' : List FileInfo} (hp : files'.Perm (files.eraseIdx i)) : MedD sk v d files' gh X := by
  have hW := medW_drop_clean hM.w hi (hM.clean f (List.mem_of_getElem? hi) hf) hp
  have hsub : ∀ g, g ∈ files' → g ∈ files ∧ g.rawFile ≠ h := by
    intro g hg
    have hg' := hp.subset hg
    obtain ⟨j, hji, hj⟩ := List.mem_eraseIdx_iff_getElem?.1 hg'
    exact ⟨List.mem_of_getElem? hj, fun hgh => hji (hM.uniq j i g f hj hi hgh hf)⟩
  exact ⟨hW.blocksOK, hW.geom, hW.hint, hW.owns, hW.tree, fun g hg =>
    ⟨⟨(hW.fileOK g hg).1.chain, hM.fits g (hsub g hg).1 (hsub g hg).2, (hW.fileOK g hg).1.pos_le, (hW.fileOK g hg).1.cursor⟩,
      (hW.fileOK g hg).2⟩⟩

/-- **A file is opened on an existing entry, whatever size it stores** (`VolD.med_open` without `hfit`): the new record,
with the fresh id `h`, is the one excepted. -/
theorem medH_open (hM : MedD sk v d files gh X) {hd : Nat} (hh : hd ∈ dirIds gh.dirs) {o : Slot}
    (ho : o ∈ objects hd (dirSlots v d gh.G hd)) (hod : isDirE o = false) (hfree : pendOf files o = none)
    {f : FileInfo} (hkey : fkey f = spos o) (hname : f.entry.name = sName o) (hattr : f.entry.attributes = sAttr o)
    (hcl : f.entry.cluster = sCluster v.fatType o) (hsz : f.entry.size = sSize o)
    (hoff : f.currentOffset ≤ f.entry.size) (hco : f.curClusterOff = 0) (hcc : f.curCluster = f.entry.cluster)
    (hid : f.rawFile = h) (hdirty : f.dirty = false) (hfresh : ∀ g, g ∈ files → g.rawFile ≠ h) :
    MedH sk h v d (files ++ [f]) gh X := by
  have hG := med_heads hM
  have hoe : o ∈ entries (dirSlots v d gh.G hd) := by
    unfold objects at ho
    split at ho
    · exact ho
    · exact List.mem_of_mem_drop ho
  obtain ⟨_, _, _, hfr⟩ := mem_entries hoe
  have hattrs : AttrsOK f := by
    unfold AttrsOK
    rw [hattr, hsz]
    unfold isFrag at hfr
    unfold isDirE at hod
    simp only [decide_eq_false_iff_not] at hfr hod
    refine ⟨sAttr_lt o, hfr, ?_, ?_⟩
    · have : sAttr o / 16 % 2 < 2 := Nat.mod_lt _ (by decide)
      omega
    · have := sSize_lt o
      have hm : Gen.MAX_FILE_SIZE = 4294967295 := rfl
      omega
  have htree := tree_open hM.tree hG (objPos_nodup hM) hh ho hod hfree hkey hname hattrs hcl hsz
  refine ⟨⟨hM.blocksOK, hM.geom, hM.hint, hM.owns, htree, ?_⟩, ?_, ?_, ?_⟩
  · intro g hg
    rcases List.mem_append.1 hg with hg | hg
    · exact ⟨⟨(hM.fileOK g hg).1.chain, (hM.fileOK g hg).1.pos_le, (hM.fileOK g hg).1.cursor⟩, (hM.fileOK g hg).2⟩
    · rw [List.mem_singleton.1 hg, hcl]
      rcases closed_object_chain hM hh ho hod hfree with ⟨h1, h2, h3⟩ | ⟨h1, h2, h3, _⟩
      · rw [h3]
        exact ⟨⟨.inl ⟨by rw [hcl, h1]; decide, rfl, by rw [hsz]; exact h2⟩, hoff, .inl rfl⟩,
          fun _ => by rw [hcc, hcl, h1]; decide⟩
      · refine ⟨⟨.inr (by rw [hcl]; exact h3), hoff, .inr ⟨0, ?_, by rw [hco]; simp, ?_⟩⟩, ?_⟩
        · exact ChainL.chain_length_pos h3
        · rw [hcc, hcl]; exact ChainL.chain_get_zero h3
        · intro hnil
          exact absurd hnil (ChainL.chain_ne_nil h3)
  · intro g hg hne
    rcases List.mem_append.1 hg with hg | hg
    · exact (hM.fileOK g hg).1.size_fits
    · rw [List.mem_singleton.1 hg] at hne; exact absurd hid hne
  · intro g hg he
    rcases List.mem_append.1 hg with hg | hg
    · exact absurd he (hfresh g hg)
    · rw [List.mem_singleton.1 hg]; exact hdirty
  · intro a b x y ha hb hx hy
    have key : ∀ (c : Nat) (z : FileInfo), (files ++ [f])[c]? = some z → z.rawFile = h → c = files.length := by
      intro c z hc hz
      by_cases hlt : c < files.length
      · rw [List.getElem?_append_left hlt] at hc
        exact absurd hz (hfresh z (List.mem_of_getElem? hc))
      · have hle : c < (files ++ [f]).length := (List.getElem?_eq_some_iff.1 hc).1
        rw [List.length_append, List.length_singleton] at hle
        omega
    rw [key a x ha hx, key b y hb hy]

end

/-! ### The manager -/

/-- The hybrid invariant (no clause on the fault schedule). -/
structure VolInvH (sk h : Nat) (X : List (List Nat)) (s : Mgr) (gh : Ghost) : Prop where
  coherent : ∀ i, s.cache.tag = some i → s.cache.blk = s.dev.disk.get i
  unlocked : s.locked = false
  maxVols : s.maxVols = 1
  vols : s.vols = [] ∨ ∃ vi, s.vols = [vi] ∧ vi.vol = gh.vol
  med : MedH sk h gh.vol s.dev.disk s.files gh X
  fileVols : ∀ f, f ∈ s.files → ∃ vi, s.vols = [vi] ∧ f.rawVolume = vi.rawVolume
  openDirs : ∀ di, di ∈ s.dirs → ValidDir gh.dirs di.cluster

variable {sk h : Nat} {X : List (List Nat)}

theorem faultInv_of_volInvH {s : Mgr} {gh : Ghost} (hI : VolInvH sk h X s gh) : FaultInv s gh X :=
  ⟨hI.coherent, hI.unlocked, hI.maxVols, hI.vols, medFault_iff_medW.2 ⟨_, hI.med.w⟩,
    hI.fileVols, hI.openDirs⟩

/-- No record carries `h`: it is the invariant with slack, up to the schedule. -/
theorem volInvD_of_volInvH {s : Mgr} {gh : Ghost} (hI : VolInvH sk h X s gh) (hno : ∀ f, f ∈ s.files → f.rawFile ≠ h) :
    VolInvD sk X (mclr s) gh :=
  ⟨rfl, hI.coherent, hI.unlocked, hI.maxVols, hI.vols, medD_of_medH hI.med hno,
    hI.fileVols, hI.openDirs⟩

/-- Device bookkeeping, cache and ONE record (offset, cursor) change; the medium is the same. -/
theorem volInvH_file_cursor {s : Mgr} {gh : Ghost} (hI : VolInvH sk h X s gh) {i : Nat} {f f' : FileInfo} (hi : s.files[i]? = some f)
    (hsame : SameFile f f') (hok : FileLoose gh.vol s.dev.disk f' (chainOf gh.G f.entry.cluster))
    (hcur : chainOf gh.G f.entry.cluster = [] → f'.curCluster < 2)
    (dev' : Dev) (cache' : Cache) (hd : dev'.disk = s.dev.disk) (hc : ∀ j, cache'.tag = some j → cache'.blk = dev'.disk.get j) :
    VolInvH sk h X { s with dev := dev', cache := cache', files := s.files.set i f' } gh := by
  refine ⟨hc, hI.unlocked, hI.maxVols, hI.vols, ?_, fun g hg => ?_, hI.openDirs⟩
  · show MedH sk h gh.vol dev'.disk _ gh X
    rw [hd]; exact medH_file_cursor hI.med hi hsame hok hcur
  · rcases List.mem_or_eq_of_mem_set hg with hg | rfl
    · exact hI.fileVols g hg
    · obtain ⟨vi, hv, hr⟩ := hI.fileVols f (List.mem_of_getElem? hi)
      exact ⟨vi, hv, by rw [hsame.rawVolume]; exact hr⟩

/-! ### `read`, the seeks, the observers (the proofs of `Lemmas/LooseApi.lean`, for the hybrid invariant) -/

/-- **`read` from the weak invariant, any schedule**: `Ok` or an error; `FaultInv` again; the medium and the entries
of the open files are the same. -/
theorem read_hyb {s : Mgr} {gh : Ghost} (hI : VolInvH sk h X s gh) (file n : Nat) :
    Clean (Model.read file n s).1 ∧ VolInvH sk h X (Model.read file n s).2 gh ∧
    (Model.read file n s).2.dev.disk = s.dev.disk ∧ (Model.read file n s).2.vols = s.vols ∧
    (Model.read file n s).2.files.map (fun f => (f.entry, f.rawFile)) = s.files.map (fun f => (f.entry, f.rawFile)) := by
  cases hidx : s.files.findIdx? (·.rawFile = file) with
  | none =>
    unfold Model.read
    rw [MHoare.bind_err (MHoare.getFileById_bad hidx)]
    exact ⟨.inr ⟨_, rfl⟩, hI, rfl, rfl, rfl⟩
  | some i =>
    obtain ⟨f, hf, _⟩ := MHoare.findIdx?_some_get hidx
    have hfm : f ∈ s.files := List.mem_of_getElem? hf
    obtain ⟨vi, hv, hvol, hvidx, hvi⟩ := vol_of_fileW (faultInv_of_volInvH hI) hfm
    obtain ⟨hok, hcur⟩ := hI.med.w.fileOK f hfm
    by_cases hnil : chainOf gh.G f.entry.cluster = []
    · have hsz : f.currentOffset = f.entry.size := by
        rcases hok.chain with ⟨_, _, h3⟩ | h3
        · have := hok.pos_le; omega
        · exact absurd hnil (ChainL.chain_ne_nil h3)
      rw [ReadRefines.read_at_eof s file n i 0 f hidx hf hvidx hsz]
      exact ⟨.inl ⟨_, rfl⟩, hI, rfl, rfl, rfl⟩
    · have hch : Chain vi.vol s.dev.disk f.entry.cluster (chainOf gh.G f.entry.cluster) := by
        rw [hvol]
        rcases hok.chain with ⟨_, h2, _⟩ | h2
        · exact absurd h2 hnil
        · exact h2
      have hcu : ∃ k, k < (chainOf gh.G f.entry.cluster).length ∧ f.curClusterOff = k * clusterBytesLen vi.vol ∧
          (chainOf gh.G f.entry.cluster)[k]? = some f.curCluster := by
        rw [hvol]
        rcases hok.cursor with hc | hc
        · exact absurd hc hnil
        · exact hc
      have hs : MgrOKF s := ⟨hI.coherent, hI.med.w.blocksOK, hI.unlocked⟩
      have hg : WFGeom vi.vol := by rw [hvol]; exact hI.med.w.geom
      rw [ReadRefines.read_run s file n i 0 f hidx hf hvidx]
      obtain ⟨f1, hk, hpos, hcl⟩ := Retry.readLoop_loose i 0 f.currentOffset vi _ hg (n + 1) n [] s f hs hf hvi hch hcu
        hok.pos_le hok.pos_le
      refine ⟨hcl, ?_, hk.step.disk, by rw [hk.step.eq], ?_⟩
      · rw [hk.step.eq]
        refine volInvH_file_cursor hI hf hk.same ⟨?_, ?_, ?_⟩ (fun he => absurd he hnil) _ _ hk.step.disk hk.coh
        · rw [hk.same.entry]; exact hok.chain
        · rw [hk.same.entry]; exact hpos
        · rw [← hvol]; exact hk.cursor
      · rw [hk.step.eq]
        show (s.files.set i f1).map (fun f => (f.entry, f.rawFile)) = _
        rw [List.map_set, hk.same.entry, hk.same.rawFile]
        exact ReadRefines.list_set_self _ _ _ (by rw [List.getElem?_map, hf]; rfl)

/-! ### Seeks, observers, `close_file` of an unmodified file -/

/-- What these calls deliver: the weak invariant again (same ghost, same lost chains), the medium and the volume table
untouched, every record still carrying the directory entry of a record that was there. -/
structure HybOut (sk h : Nat) (X : List (List Nat)) (gh : Ghost) (s t : Mgr) : Prop where
  inv : VolInvH sk h X t gh
  disk : t.dev.disk = s.dev.disk
  vols : t.vols = s.vols
  entries : ∀ g, g ∈ t.files → ∃ f, f ∈ s.files ∧ g.entry = f.entry
  ids : t.files.map (·.rawFile) = s.files.map (·.rawFile)

theorem HybOut.refl {s : Mgr} {gh : Ghost} (hI : VolInvH sk h X s gh) : HybOut sk h X gh s s :=
  ⟨hI, rfl, rfl, fun g hg => ⟨g, hg, rfl⟩, rfl⟩

theorem read_hybOut {s : Mgr} {gh : Ghost} (hI : VolInvH sk h X s gh) (file n : Nat) :
    Clean (Model.read file n s).1 ∧ HybOut sk h X gh s (Model.read file n s).2 := by
  obtain ⟨h1, h2, h3, h4, h5⟩ := read_hyb hI file n
  refine ⟨h1, h2, h3, h4, fun g hg => ?_, ?_⟩
  · have : (g.entry, g.rawFile) ∈ (Model.read file n s).2.files.map (fun f => (f.entry, f.rawFile)) := List.mem_map.2 ⟨g, hg, rfl⟩
    rw [h5] at this
    obtain ⟨f, hf, he⟩ := List.mem_map.1 this
    exact ⟨f, hf, (Prod.mk.inj he).1.symm⟩
  · have := congrArg (List.map Prod.snd) h5
    rw [List.map_map, List.map_map] at this
    exact this

/-- The offset of one record is set to a value within its size. -/
theorem setOffset_hyb {s : Mgr} {gh : Ghost} (hI : VolInvH sk h X s gh) {i : Nat} {f : FileInfo} (hi : s.files[i]? = some f)
    {o : Nat} (ho : o ≤ f.entry.size) :
    HybOut sk h X gh s { s with files := s.files.set i { f with currentOffset := o } } := by
  obtain ⟨hok, hcur⟩ := hI.med.w.fileOK f (List.mem_of_getElem? hi)
  refine ⟨volInvH_file_cursor (f' := { f with currentOffset := o }) hI hi ⟨rfl, rfl, rfl, rfl, rfl⟩ ⟨hok.chain, ho, hok.cursor⟩ hcur s.dev s.cache rfl hI.coherent,
    rfl, rfl, fun g hg => ?_, ?_⟩
  · rcases List.mem_or_eq_of_mem_set hg with hg | rfl
    · exact ⟨g, hg, rfl⟩
    · exact ⟨f, List.mem_of_getElem? hi, rfl⟩
  · show (s.files.set i { f with currentOffset := o }).map (·.rawFile) = _
    rw [List.map_set]
    exact ReadRefines.list_set_self _ _ _ (by rw [List.getElem?_map, hi]; rfl)

theorem seekStart_hyb {s : Mgr} {gh : Ghost} (hI : VolInvH sk h X s gh) (file n : Nat) :
    Clean (fileSeekFromStart file n s).1 ∧ HybOut sk h X gh s (fileSeekFromStart file n s).2 := by
  unfold fileSeekFromStart
  cases hidx : s.files.findIdx? (·.rawFile = file) with
  | none => rw [MHoare.bind_err (MHoare.getFileById_bad hidx)]; exact ⟨.inr ⟨_, rfl⟩, HybOut.refl hI⟩
  | some i =>
    obtain ⟨f, hf, _⟩ := MHoare.findIdx?_some_get hidx
    rw [MHoare.bind_ok (MHoare.getFileById_ok hidx), MHoare.bind_ok (MHoare.getFile_ok hf)]
    unfold FileInfo.seekFromStart
    by_cases hgt : n > f.entry.size
    · rw [if_pos hgt]; exact ⟨.inr ⟨_, rfl⟩, HybOut.refl hI⟩
    · rw [if_neg hgt]; exact ⟨.inl ⟨_, rfl⟩, setOffset_hyb hI hf (by omega)⟩

theorem seekEnd_hyb {s : Mgr} {gh : Ghost} (hI : VolInvH sk h X s gh) (file n : Nat) :
    Clean (fileSeekFromEnd file n s).1 ∧ HybOut sk h X gh s (fileSeekFromEnd file n s).2 := by
  unfold fileSeekFromEnd
  cases hidx : s.files.findIdx? (·.rawFile = file) with
  | none => rw [MHoare.bind_err (MHoare.getFileById_bad hidx)]; exact ⟨.inr ⟨_, rfl⟩, HybOut.refl hI⟩
  | some i =>
    obtain ⟨f, hf, _⟩ := MHoare.findIdx?_some_get hidx
    rw [MHoare.bind_ok (MHoare.getFileById_ok hidx), MHoare.bind_ok (MHoare.getFile_ok hf)]
    unfold FileInfo.seekFromEnd
    by_cases hgt : n > f.entry.size
    · rw [if_pos hgt]; exact ⟨.inr ⟨_, rfl⟩, HybOut.refl hI⟩
    · rw [if_neg hgt]; exact ⟨.inl ⟨_, rfl⟩, setOffset_hyb hI hf (by omega)⟩

theorem seekCur_hyb {s : Mgr} {gh : Ghost} (hI : VolInvH sk h X s gh) (file : Nat) (n : Int) :
    Clean (fileSeekFromCurrent file n s).1 ∧ HybOut sk h X gh s (fileSeekFromCurrent file n s).2 := by
  unfold fileSeekFromCurrent
  cases hidx : s.files.findIdx? (·.rawFile = file) with
  | none => rw [MHoare.bind_err (MHoare.getFileById_bad hidx)]; exact ⟨.inr ⟨_, rfl⟩, HybOut.refl hI⟩
  | some i =>
    obtain ⟨f, hf, _⟩ := MHoare.findIdx?_some_get hidx
    rw [MHoare.bind_ok (MHoare.getFileById_ok hidx), MHoare.bind_ok (MHoare.getFile_ok hf)]
    unfold FileInfo.seekFromCurrent
    by_cases hgt : (f.currentOffset : Int) + n < 0 ∨ (f.currentOffset : Int) + n > (f.entry.size : Int)
    · simp only [if_pos hgt]; exact ⟨.inr ⟨_, rfl⟩, HybOut.refl hI⟩
    · simp only [if_neg hgt]; exact ⟨.inl ⟨_, rfl⟩, setOffset_hyb hI hf (by omega)⟩

/-- The three observers: the state is the state. -/
theorem observers_hyb {s : Mgr} {gh : Ghost} (_hI : VolInvH sk h X s gh) (file : Nat) :
    (Clean (fileLength file s).1 ∧ (fileLength file s).2 = s) ∧ (Clean (fileOffset file s).1 ∧ (fileOffset file s).2 = s) ∧
    (Clean (fileEof file s).1 ∧ (fileEof file s).2 = s) := by
  unfold fileLength fileOffset fileEof
  cases hidx : s.files.findIdx? (·.rawFile = file) with
  | none =>
    rw [MHoare.bind_err (MHoare.getFileById_bad hidx), MHoare.bind_err (MHoare.getFileById_bad hidx),
      MHoare.bind_err (MHoare.getFileById_bad hidx)]
    exact ⟨⟨.inr ⟨_, rfl⟩, rfl⟩, ⟨.inr ⟨_, rfl⟩, rfl⟩, ⟨.inr ⟨_, rfl⟩, rfl⟩⟩
  | some i =>
    obtain ⟨f, hf, _⟩ := MHoare.findIdx?_some_get hidx
    rw [MHoare.bind_ok (MHoare.getFileById_ok hidx), MHoare.bind_ok (MHoare.getFileById_ok hidx),
      MHoare.bind_ok (MHoare.getFileById_ok hidx), MHoare.bind_ok (MHoare.getFile_ok hf), MHoare.bind_ok (MHoare.getFile_ok hf),
      MHoare.bind_ok (MHoare.getFile_ok hf)]
    exact ⟨⟨.inl ⟨_, rfl⟩, rfl⟩, ⟨.inl ⟨_, rfl⟩, rfl⟩, ⟨.inl ⟨_, rfl⟩, rfl⟩⟩

/-! ### One API call -/

theorem volInvH_resetLogs {s : Mgr} {gh : Ghost} (hI : VolInvH sk h X s gh) : VolInvH sk h X (MHoare.resetLogs s) gh :=
  ⟨hI.coherent, hI.unlocked, hI.maxVols, hI.vols, hI.med, hI.fileVols, hI.openDirs⟩

/-- **`read`, the seeks and the observers, as API calls, from the weak invariant under any schedule.** -/
theorem step_fileRO_hyb {s : Mgr} {gh : Ghost} (hI : VolInvH sk h X s gh) (op : Op) (hop : fileRO op = true) :
    Clean (step s op).2.result ∧ HybOut sk h X gh s (step s op).1 := by
  have hI' := volInvH_resetLogs hI
  rw [MHoare.step_unlocked s op hI.unlocked]
  have wrap : ∀ {α : Type} (m : M α) (g : α → Payload), (Clean (m (MHoare.resetLogs s)).1 ∧
      HybOut sk h X gh (MHoare.resetLogs s) (m (MHoare.resetLogs s)).2) →
      Clean ((m >>= fun x => (pure (g x) : M Payload)) (MHoare.resetLogs s)).1 ∧
      HybOut sk h X gh s ((m >>= fun x => (pure (g x) : M Payload)) (MHoare.resetLogs s)).2 := by
    intro α m g h
    rw [AbsFs.run_map]
    exact ⟨clean_map g h.1, h.2.inv, h.2.disk, h.2.vols, h.2.entries, h.2.ids⟩
  cases op with
  | read f n => exact wrap (Model.read f n) Payload.bytes (read_hybOut hI' f n)
  | seekStart f n => exact wrap (fileSeekFromStart f n) (fun _ => Payload.unit) (seekStart_hyb hI' f n)
  | seekCur f n => exact wrap (fileSeekFromCurrent f n) (fun _ => Payload.unit) (seekCur_hyb hI' f n)
  | seekEnd f n => exact wrap (fileSeekFromEnd f n) (fun _ => Payload.unit) (seekEnd_hyb hI' f n)
  | length f =>
    exact wrap (fileLength f) Payload.num ⟨(observers_hyb hI' f).1.1, by rw [(observers_hyb hI' f).1.2]; exact HybOut.refl hI'⟩
  | offset f =>
    exact wrap (fileOffset f) Payload.num ⟨(observers_hyb hI' f).2.1.1, by rw [(observers_hyb hI' f).2.1.2]; exact HybOut.refl hI'⟩
  | eof f =>
    exact wrap (fileEof f) Payload.bool ⟨(observers_hyb hI' f).2.2.1, by rw [(observers_hyb hI' f).2.2.2]; exact HybOut.refl hI'⟩
  | _ => cases hop


/-! ### Closing the excepted handle -/

/-- **`close_file h`** from the hybrid invariant: `Ok`; the record leaves the table; the invariant with slack holds again
(up to the schedule); medium and volume table untouched; no record is new. -/
theorem step_close_hyb {s : Mgr} {gh : Ghost} (hI : VolInvH sk h X s gh) (hm : h ∈ s.files.map (·.rawFile)) :
    (step s (.closeFile h)).2.result = .ok .unit ∧ VolInvD sk X (mclr (step s (.closeFile h)).1) gh ∧
    (step s (.closeFile h)).1.dev.disk = s.dev.disk ∧ (step s (.closeFile h)).1.vols = s.vols ∧
    (∀ g, g ∈ (step s (.closeFile h)).1.files → g ∈ s.files) ∧
    (step s (.closeFile h)).1.files.length + 1 = s.files.length := by
  have hI' := volInvH_resetLogs hI
  rw [MHoare.step_unlocked s _ hI.unlocked]
  have hrun : runOp (.closeFile h) (MHoare.resetLogs s) =
      ((closeFile h (MHoare.resetLogs s)).1.bind fun _ => .ok Payload.unit, (closeFile h (MHoare.resetLogs s)).2) :=
    AbsFs.run_map (closeFile h) (fun _ => Payload.unit) (MHoare.resetLogs s)
  simp only [hrun]
  obtain ⟨i, f, hidx, hf, hfh⟩ := MHoare.findIdx?_some_of_mem (MHoare.resetLogs s).files (·.rawFile) h hm
  have hfm : f ∈ s.files := List.mem_of_getElem? hf
  have hd : f.dirty = false := hI.med.clean f hfm hfh
  have hcl : closeFile h (MHoare.resetLogs s) = (.ok (), { MHoare.resetLogs s with files := swapRemove s.files i }) := by
    unfold closeFile
    rw [MHoare.attempt_bind]
    have hfl : flushFile h (MHoare.resetLogs s) = (.ok (), MHoare.resetLogs s) := by
      unfold flushFile
      rw [MHoare.bind_ok (MHoare.getFileById_ok hidx), MHoare.bind_ok (MHoare.getFile_ok hf), hd]
      rfl
    rw [hfl]
    simp only
    rw [MHoare.bind_ok (MHoare.getFileById_ok hidx), MHoare.modify_bind]
    rfl
  rw [hcl]
  have hlt : i < s.files.length := (List.getElem?_eq_some_iff.1 hf).1
  refine ⟨rfl, ?_, rfl, rfl, fun g hg => VolApi.mem_of_mem_swapRemove hg, ?_⟩
  · exact ⟨rfl, hI.coherent, hI.unlocked, hI.maxVols, hI.vols,
      medD_of_drop hI.med hf hfh (VolApi.swapRemove_perm s.files i f hf),
      fun g hg => hI.fileVols g (VolApi.mem_of_mem_swapRemove hg), hI.openDirs⟩
  · show (swapRemove s.files i).length + 1 = s.files.length
    rw [Tables.swapRemove_length _ i hlt]
    omega

/-- `EntriesNotAhead` goes along with `HybOut`. -/
theorem rawAll_hybOut {s t : Mgr} {gh : Ghost} (ho : HybOut sk h X gh s t) (hR : FaultX.RawAll s) : FaultX.RawAll t := by
  intro g hg vi hvi
  obtain ⟨f, hf, he⟩ := ho.entries g hg
  have := hR f hf vi (by rw [← ho.vols]; exact hvi)
  unfold VolX.RawBelow VolX.rawSlot at this ⊢
  rw [ho.disk, he]
  exact this

end Sdmmc.Lemmas.VolD
