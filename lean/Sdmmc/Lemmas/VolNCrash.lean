/-
Crash consistency with several open volumes, part 1 — the invariant between calls `VolInvNC` (`Spec/VolumeNCrash.lean`:
`VolInvN` + `MirrorN` + `RawOKN`) is preserved by every API call.

A call addressed to volume record `i` behaves as on the projection `proj s i` (`Props.C03Multi.step_proj`), where the
one-volume theorem `Props.C10Inv.api_step_invariantC` applies; the open files of the other volumes are the same records, and
their directory slots lie in other partitions, which the call does not write.  The calls that work on no record change
tables only, except `close_volume` (the info sector of the volume being closed: no directory slot).
-/
import Sdmmc.Spec.VolumeNCrash
import Sdmmc.Props.C10Inv
import Sdmmc.Props.C04Multi
import Sdmmc.Lemmas.AcctAllStep

namespace Sdmmc.Lemmas.VolNCrash
open Sdmmc.Model Sdmmc.Model.Fat Sdmmc.Spec.Volume
open Sdmmc.Spec hiding run step NoFault Coherent
open Sdmmc.Props
open Sdmmc.Props.C03Multi (CoveredN CoveredNRun)
open Sdmmc.Lemmas.VolN (LabelFresh ProjRel Lifted vkey)
open Sdmmc.Lemmas.MHoare

/-- `RawOKN`, record by record: for every open file and every open volume record carrying its volume handle. -/
theorem rawOKN_iff (s : Mgr) : RawOKN s ↔ ∀ f, f ∈ s.files → ∀ vi, vi ∈ s.vols → f.rawVolume = vi.rawVolume →
    sCluster vi.vol.fatType (slotAt s.dev.disk f.entry.entryBlock f.entry.entryOffset) = 0 ∨
    sCluster vi.vol.fatType (slotAt s.dev.disk f.entry.entryBlock f.entry.entryOffset) = f.entry.cluster := by
  constructor
  · intro h f hf vi hvi e
    obtain ⟨i, hi⟩ := List.getElem?_of_mem hvi
    exact h i vi hi f (List.mem_filter.2 ⟨hf, by simpa using e⟩)
  · intro h i vi hi f hf
    obtain ⟨hf1, hf2⟩ := List.mem_filter.1 hf
    exact h f hf1 vi (List.mem_of_getElem? hi) (by simpa using hf2)

/-- The slot only depends on its block. -/
theorem slotAt_congr {d d' : Disk} {b : Nat} (h : d'.get b = d.get b) (off : Nat) : slotAt d' b off = slotAt d b off := by
  unfold slotAt; rw [h]

/-- The projection of a `VolInvNC` state satisfies the one-volume crash invariant. -/
theorem volInvC_proj {s : Mgr} {ghs : List Ghost} (hI : VolInvNC s ghs) {i : Nat} {vi : VolInfo} {gh : Ghost}
    (hvi : s.vols[i]? = some vi) (hgh : ghs[i]? = some gh) : VolInvC (proj s i) gh := by
  obtain ⟨hf, _, hd⟩ := C04Multi.proj_tables hvi
  refine ⟨?_, ?_, ?_⟩
  · rw [C03Multi.proj_def hvi]; exact Lemmas.VolN.volInv_proj hI.inv hvi hgh
  · rw [hd]; exact hI.mirror gh (List.mem_of_getElem? hgh)
  · rw [hd, hf, ← hI.inv.vols i vi gh hvi hgh]; exact hI.raw i vi hvi

/-- The directory slot of an open file lies in the partition of its volume. -/
theorem file_block_in_partition {s : Mgr} {ghs : List Ghost} (hI : VolInvN s ghs) {i : Nat} {vi : VolInfo}
    (hvi : s.vols[i]? = some vi) {f : FileInfo} (hf : f ∈ s.files) (e : f.rawVolume = vi.rawVolume) :
    InPartition vi.vol f.entry.entryBlock ∧
    (regionOf vi.vol f.entry.entryBlock = .data ∨ regionOf vi.vol f.entry.entryBlock = .root) := by
  have hilt : i < ghs.length := by rw [hI.len]; exact (List.getElem?_eq_some_iff.1 hvi).1
  obtain ⟨gh, hgh⟩ : ∃ gh, ghs[i]? = some gh := ⟨_, List.getElem?_eq_getElem hilt⟩
  have hP : VolInv (proj s i) gh := by rw [C03Multi.proj_def hvi]; exact Lemmas.VolN.volInv_proj hI hvi hgh
  have hfp : f ∈ (proj s i).files := by
    rw [(C04Multi.proj_tables hvi).1]; exact List.mem_filter.2 ⟨hf, by simpa using e⟩
  obtain ⟨_, _, hreg, _⟩ := Lemmas.AcctAll.file_slot_facts hP hfp
  rw [← hI.vols i vi gh hvi hgh] at hreg
  exact ⟨Lemmas.VolN.inPartition_of_region (by rcases hreg with h | h <;> simp [h]), hreg⟩

/-! ### A call addressed to a volume record -/

theorem step_target {s : Mgr} {ghs : List Ghost} (hI : VolInvNC s ghs) (op : Op) {i : Nat} (ht : target s op = some i)
    (hf : LabelFresh s op) : ∃ ghs', VolInvNC (step s op).1 ghs' := by
  obtain ⟨vi, hvi⟩ := C03Multi.target_lt ht
  have hilt : i < ghs.length := by rw [hI.inv.len]; exact (List.getElem?_eq_some_iff.1 hvi).1
  obtain ⟨gh, hgh⟩ : ∃ gh, ghs[i]? = some gh := ⟨_, List.getElem?_eq_getElem hilt⟩
  obtain ⟨gh', hL, hm', hw⟩ := C03Multi.lifted_of_target hI.inv hI.mirror op ht hvi hgh hf
  have hIN' := Lemmas.VolN.volInvN_reassemble hI.inv hvi hgh hL
  have hMN' := Lemmas.VolN.mirrorN_reassemble hI.inv hI.mirror hvi hgh hL hm'
  refine ⟨_, hIN', hMN', ?_⟩
  -- the one-volume theorem on the projection
  obtain ⟨gh2, hC2, _⟩ := C10Inv.api_step_invariantC gh.vol (proj s i) op gh (volInvC_proj hI hvi hgh) (SameGeom.refl _)
    (C03Multi.coveredAll_proj ht gh.vol (proj s i))
  have hlen : (step s op).1.vols.length = s.vols.length := by
    have := congrArg List.length hL.volKeys
    simpa using this
  have hother : ∀ j, j ≠ i → (step s op).1.vols[j]? = s.vols[j]? :=
    fun j hj => Lemmas.VolN.getElem?_of_eraseIdx_eq hL.restVols hlen hj
  rw [rawOKN_iff]
  intro f hfm w hw' e
  obtain ⟨j, hj⟩ := List.getElem?_of_mem hw'
  by_cases hji : j = i
  · -- the record the call worked on: through the projection
    subst hji
    have htv : (step (proj s j) op).1.vols = [w] := by rw [hL.rel.vols, hj]; rfl
    have hwv : w.vol = gh2.vol := by
      rcases hC2.inv.vols with h0 | ⟨w', hw1, hwv⟩
      · rw [h0] at htv; cases htv
      · rw [hw1] at htv; cases htv; exact hwv
    have hkey : w.rawVolume = vi.rawVolume := by
      have h1 : ((step s op).1.vols.map vkey)[j]? = some (vkey w) := by rw [List.getElem?_map, hj]; rfl
      have h2 : (s.vols.map vkey)[j]? = some (vkey vi) := by rw [List.getElem?_map, hvi]; rfl
      rw [hL.volKeys, h2] at h1
      exact (congrArg Prod.fst (Option.some.inj h1)).symm
    have hft : f ∈ (step (proj s j) op).1.files :=
      hL.rel.files.symm.subset (List.mem_filter.2 ⟨hfm, by simpa using e.trans hkey⟩)
    have := hC2.raw f hft
    rw [hL.rel.dev, ← hwv] at this
    exact this
  · -- another record: the same record, the same file, a slot in another partition
    have hwj : s.vols[j]? = some w := by rw [← hother j hji]; exact hj
    have hne : w.rawVolume ≠ vi.rawVolume := fun e2 =>
      hji (Lemmas.VolN.index_of_handle hI.inv.handles hwj hvi e2)
    have hf0 : f ∈ s.files := by
      have : f ∈ otherFiles (step s op).1 vi.rawVolume :=
        List.mem_filter.2 ⟨hfm, by simpa using fun e2 : f.rawVolume = vi.rawVolume => hne (e.symm.trans e2)⟩
      exact (List.mem_filter.1 (hL.restFiles.subset this)).1
    obtain ⟨hin, _⟩ := file_block_in_partition hI.inv hwj hf0 e
    have hframe : (step s op).1.dev.disk.get f.entry.entryBlock = s.dev.disk.get f.entry.entryBlock := by
      apply hL.frame
      rw [← hI.inv.vols i vi gh hvi hgh]
      exact fun hin' => hI.inv.parts j i w vi hwj hvi hji _ hin hin'
    rw [slotAt_congr hframe]
    exact (rawOKN_iff s).1 hI.raw f hf0 w (List.mem_of_getElem? hwj) e

end Sdmmc.Lemmas.VolNCrash
