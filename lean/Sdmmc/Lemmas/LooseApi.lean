/-
CALLS ON OPEN FILES FROM THE WEAK INVARIANT `FaultInv` (`Spec/VolumeFault.lean`: the record of an open file may say more
bytes than its chain holds — what a size-keeping `open_file_in_dir` of a DAMAGED closed file hands out).  `read`, the
seeks, `length` / `offset` / `eof`, and `close_file` of an UNMODIFIED file, under ANY fault schedule: the call answers `Ok`
or an error, and `FaultInv` holds again — same ghost, same lost chains.
-/
import Sdmmc.Lemmas.LooseRead
import Sdmmc.Lemmas.CrashContDelete2
import Sdmmc.Lemmas.VolApi2
import Sdmmc.Lemmas.FaultXRawRun
import Sdmmc.Lemmas.AbsFsSteps1
import Sdmmc.Lemmas.FaultXUse

namespace Sdmmc.Lemmas.Loose
open Sdmmc.Model Sdmmc.Model.Fat Sdmmc.Spec.Volume Sdmmc.Lemmas.VolBase Sdmmc.Lemmas.VolTree
open Sdmmc.Spec hiding NoFault Coherent
open Sdmmc.Lemmas.VolDisk Sdmmc.Lemmas.VolMed Sdmmc.Lemmas.CrashContDelete
open Sdmmc.Lemmas.ReadRefines (Step SameFile)
open Sdmmc.Lemmas.Retry (Keeps MgrOKF)

section
variable {cb : Nat} {v : FatVolume} {d : Disk} {files : List FileInfo} {gh : Ghost} {X : List (List Nat)}

/-- No two objects of the volume sit at the same position (`VolMed.objPos_nodup` for `MedW`). -/
theorem objPos_nodupW (hM : MedW cb v d files gh X) : (objPos gh.dirs (dirSlots v d gh.G)).Nodup := by
  have hids := dirIds_nodup hM.tree (med_headsW hM)
  rw [List.nodup_flatMap]
  constructor
  · intro h hh
    exact List.Nodup.sublist ((objects_sublist h _).map spos) (dirSlots_pos_nodupW hM hh d)
  · apply hids.pairwise_of_forall_ne
    intro a ha b hb hab k hk1 hk2
    obtain ⟨s, hs, rfl⟩ := List.mem_map.1 hk1
    obtain ⟨t, ht, hte⟩ := List.mem_map.1 hk2
    exact dirSlots_pos_disjointW hM ha hb hab d d (mem_of_mem_objects hs) (mem_of_mem_objects ht) hte.symm

/-- **One record changes in offset and cursor only**: the weak medium invariant is kept. -/
theorem medW_file_cursor (hM : MedW cb v d files gh X) {i : Nat} {f f' : FileInfo} (hi : files[i]? = some f)
    (he : f'.entry = f.entry) (hd : f'.dirty = f.dirty)
    (hok : FileLoose v d f' (chainOf gh.G f.entry.cluster)) (hcur : chainOf gh.G f.entry.cluster = [] → f'.curCluster < 2) :
    MedW cb v d (files.set i f') gh X := by
  have hf : f ∈ files := List.mem_of_getElem? hi
  obtain ⟨h, hh, A, o, B, hO, hpo, hod, hnm, hcl, hp⟩ := file_object hM.tree hf
  have ho : o ∈ objects h (dirSlots v d gh.G h) := by rw [hO]; simp
  have hsz := hM.tree.sizes h hh o ho hod
  have hec : effCluster v.fatType files o = f.entry.cluster := by unfold effCluster; rw [hp]
  have hes : effSize files o = f.entry.size := by unfold effSize; rw [hp]
  rw [hec, hes] at hsz
  have hT : TreeOK v.fatType cb (rootHead v) gh.G gh.dirs (dirSlots v d gh.G) (files.set i f') := by
    refine tree_file_set hM.tree (med_headsW hM) (objPos_nodupW hM) hi (by show (f'.entry.entryBlock, _) = _; rw [he])
      (by rw [he]) (by have := hM.tree.fileAttrs f hf; unfold AttrsOK; rw [he]; exact this)
      (fun hdf => ⟨by rw [← hd]; exact hdf, by rw [he], by rw [he]⟩) (fun c _ _ => Nat.le_refl _) (fun a => by rw [he]) ?_
    rw [he]; exact hsz
  refine ⟨hM.blocksOK, hM.geom, hM.hint, hM.owns, hT, fun g hg => ?_⟩
  rcases List.mem_or_eq_of_mem_set hg with hg | rfl
  · exact hM.fileOK g hg
  · rw [he]; exact ⟨hok, hcur⟩

/-- **A record that agrees with its entry leaves the table**: the weak medium invariant is kept. -/
theorem medW_drop_clean (hM : MedW cb v d files gh X) {i : Nat} {f : FileInfo} (hi : files[i]? = some f)
    (hd : f.dirty = false) {files' : List FileInfo} (hp : files'.Perm (files.eraseIdx i)) : MedW cb v d files' gh X := by
  have hf : f ∈ files := List.mem_of_getElem? hi
  have hT : TreeOK v.fatType cb (rootHead v) gh.G gh.dirs (dirSlots v d gh.G) (files.eraseIdx i) := by
    refine tree_close hM.tree (med_headsW hM) (objPos_nodupW hM) hi fun h hh o ho hpo => ?_
    obtain ⟨h', hh', o', ho', h1, h2, _, _, h5⟩ := hM.tree.fileSlots f hf
    have hpos : spos o = spos o' := hpo.trans (Prod.ext h1 h2).symm
    have heq : o = o' := by
      by_cases hhh : h = h'
      · subst hhh
        have hnd := dirSlots_pos_nodupW hM hh d
        exact List.inj_on_of_nodup_map hnd (mem_of_mem_objects ho) (mem_of_mem_objects ho') hpos
      · exact absurd hpos (dirSlots_pos_disjointW hM hh hh' hhh d d (mem_of_mem_objects ho) (mem_of_mem_objects ho'))
    rw [heq]; exact h5 hd
  refine ⟨hM.blocksOK, hM.geom, hM.hint, hM.owns, VolApi.tree_files_perm hT hp.symm, fun g hg => ?_⟩
  exact hM.fileOK g ((List.eraseIdx_sublist files i).subset (hp.subset hg))

end

/-! ### The manager -/

variable {X : List (List Nat)}

/-- Device bookkeeping, cache and ONE record (offset, cursor) change; the medium is the same. -/
theorem faultInv_file_cursor {s : Mgr} {gh : Ghost} (hI : FaultInv s gh X) {i : Nat} {f f' : FileInfo} (hi : s.files[i]? = some f)
    (hsame : SameFile f f') (hok : FileLoose gh.vol s.dev.disk f' (chainOf gh.G f.entry.cluster))
    (hcur : chainOf gh.G f.entry.cluster = [] → f'.curCluster < 2)
    (dev' : Dev) (cache' : Cache) (hd : dev'.disk = s.dev.disk) (hc : ∀ j, cache'.tag = some j → cache'.blk = dev'.disk.get j) :
    FaultInv { s with dev := dev', cache := cache', files := s.files.set i f' } gh X := by
  obtain ⟨cb, hM⟩ := medFault_iff_medW.1 hI.med
  have hM' := medW_file_cursor hM hi hsame.entry hsame.dirty hok hcur
  refine ⟨hc, hI.unlocked, hI.maxVols, hI.vols, ?_, fun g hg => ?_, hI.openDirs⟩
  · show MedFault gh.vol dev'.disk _ gh X
    rw [hd]; exact medFault_iff_medW.2 ⟨cb, hM'⟩
  · rcases List.mem_or_eq_of_mem_set hg with hg | rfl
    · exact hI.fileVols g hg
    · obtain ⟨vi, hv, hr⟩ := hI.fileVols f (List.mem_of_getElem? hi)
      exact ⟨vi, hv, by rw [hsame.rawVolume]; exact hr⟩

/-- The volume of an open file. -/
theorem vol_of_fileW {s : Mgr} {gh : Ghost} (hI : FaultInv s gh X) {f : FileInfo} (hf : f ∈ s.files) :
    ∃ vi, s.vols = [vi] ∧ vi.vol = gh.vol ∧ s.vols.findIdx? (·.rawVolume = f.rawVolume) = some 0 ∧ s.vols[0]? = some vi := by
  obtain ⟨vi, hv, hr⟩ := hI.fileVols f hf
  rcases hI.vols with h0 | ⟨vi', hv', hvol⟩
  · rw [h0] at hv; cases hv
  · rw [hv] at hv'; cases hv'
    exact ⟨vi, hv, hvol, by rw [hv]; simp [hr], by rw [hv]; rfl⟩

/-- **`read` from the weak invariant, any schedule**: `Ok` or an error; `FaultInv` again; the medium and the entries
of the open files are the same. -/
theorem read_weak {s : Mgr} {gh : Ghost} (hI : FaultInv s gh X) (file n : Nat) :
    Clean (Model.read file n s).1 ∧ FaultInv (Model.read file n s).2 gh X ∧
    (Model.read file n s).2.dev.disk = s.dev.disk ∧ (Model.read file n s).2.vols = s.vols ∧
    (Model.read file n s).2.files.map (·.entry) = s.files.map (·.entry) := by
  cases hidx : s.files.findIdx? (·.rawFile = file) with
  | none =>
    unfold Model.read
    rw [MHoare.bind_err (MHoare.getFileById_bad hidx)]
    exact ⟨.inr ⟨_, rfl⟩, hI, rfl, rfl, rfl⟩
  | some i =>
    obtain ⟨f, hf, _⟩ := MHoare.findIdx?_some_get hidx
    have hfm : f ∈ s.files := List.mem_of_getElem? hf
    obtain ⟨vi, hv, hvol, hvidx, hvi⟩ := vol_of_fileW hI hfm
    obtain ⟨hok, hcur⟩ := hI.med.fileOK f hfm
    by_cases hnil : chainOf gh.G f.entry.cluster = []
    · have hsz : f.currentOffset = f.entry.size := by
        rcases hok.chain with ⟨_, _, h3⟩ | h3
        · have := hok.pos_le; omega
        · exact absurd hnil (ChainL.chain_ne_nil h3)
      rw [ReadRefines.read_at_eof s file n i 0 f hidx hf hvidx hsz]
      exact ⟨.inl ⟨_, rfl⟩, hI, rfl, rfl, rfl⟩
    · have hch : Chain vi.vol s.dev.disk f.entry.cluster (chainOf gh.G f.entry.cluster) := by
        rw [hvol]
        rcases hok.chain with ⟨_, h2, _⟩ | h2
        · exact absurd h2 hnil
        · exact h2
      have hcu : ∃ k, k < (chainOf gh.G f.entry.cluster).length ∧ f.curClusterOff = k * clusterBytesLen vi.vol ∧
          (chainOf gh.G f.entry.cluster)[k]? = some f.curCluster := by
        rw [hvol]
        rcases hok.cursor with hc | hc
        · exact absurd hc hnil
        · exact hc
      have hs : MgrOKF s := ⟨hI.coherent, hI.med.blocksOK, hI.unlocked⟩
      have hg : WFGeom vi.vol := by rw [hvol]; exact hI.med.geom
      rw [ReadRefines.read_run s file n i 0 f hidx hf hvidx]
      obtain ⟨f1, hk, hpos, hcl⟩ := Retry.readLoop_loose i 0 f.currentOffset vi _ hg (n + 1) n [] s f hs hf hvi hch hcu
        hok.pos_le hok.pos_le
      refine ⟨hcl, ?_, hk.step.disk, by rw [hk.step.eq], ?_⟩
      · rw [hk.step.eq]
        refine faultInv_file_cursor hI hf hk.same ⟨?_, ?_, ?_⟩ (fun he => absurd he hnil) _ _ hk.step.disk hk.coh
        · rw [hk.same.entry]; exact hok.chain
        · rw [hk.same.entry]; exact hpos
        · rw [← hvol]; exact hk.cursor
      · rw [hk.step.eq]
        show (s.files.set i f1).map (·.entry) = _
        rw [List.map_set, hk.same.entry]
        exact ReadRefines.list_set_self _ _ _ (by rw [List.getElem?_map, hf]; rfl)

/-! ### Seeks, observers, `close_file` of an unmodified file -/

/-- What these calls deliver: the weak invariant again (same ghost, same lost chains), the medium and the volume table
untouched, every record still carrying the directory entry of a record that was there. -/
structure WeakOut (gh : Ghost) (X : List (List Nat)) (s t : Mgr) : Prop where
  inv : FaultInv t gh X
  disk : t.dev.disk = s.dev.disk
  vols : t.vols = s.vols
  entries : ∀ g, g ∈ t.files → ∃ f, f ∈ s.files ∧ g.entry = f.entry

theorem WeakOut.refl {s : Mgr} {gh : Ghost} (hI : FaultInv s gh X) : WeakOut gh X s s :=
  ⟨hI, rfl, rfl, fun g hg => ⟨g, hg, rfl⟩⟩

theorem read_weakOut {s : Mgr} {gh : Ghost} (hI : FaultInv s gh X) (file n : Nat) :
    Clean (Model.read file n s).1 ∧ WeakOut gh X s (Model.read file n s).2 := by
  obtain ⟨h1, h2, h3, h4, h5⟩ := read_weak hI file n
  refine ⟨h1, h2, h3, h4, fun g hg => ?_⟩
  have : g.entry ∈ (Model.read file n s).2.files.map (·.entry) := List.mem_map.2 ⟨g, hg, rfl⟩
  rw [h5] at this
  obtain ⟨f, hf, he⟩ := List.mem_map.1 this
  exact ⟨f, hf, he.symm⟩

/-- The offset of one record is set to a value within its size. -/
theorem setOffset_weak {s : Mgr} {gh : Ghost} (hI : FaultInv s gh X) {i : Nat} {f : FileInfo} (hi : s.files[i]? = some f)
    {o : Nat} (ho : o ≤ f.entry.size) :
    WeakOut gh X s { s with files := s.files.set i { f with currentOffset := o } } := by
  obtain ⟨hok, hcur⟩ := hI.med.fileOK f (List.mem_of_getElem? hi)
  refine ⟨faultInv_file_cursor (f' := { f with currentOffset := o }) hI hi ⟨rfl, rfl, rfl, rfl, rfl⟩ ⟨hok.chain, ho, hok.cursor⟩ hcur s.dev s.cache rfl hI.coherent,
    rfl, rfl, fun g hg => ?_⟩
  rcases List.mem_or_eq_of_mem_set hg with hg | rfl
  · exact ⟨g, hg, rfl⟩
  · exact ⟨f, List.mem_of_getElem? hi, rfl⟩

theorem seekStart_weak {s : Mgr} {gh : Ghost} (hI : FaultInv s gh X) (file n : Nat) :
    Clean (fileSeekFromStart file n s).1 ∧ WeakOut gh X s (fileSeekFromStart file n s).2 := by
  unfold fileSeekFromStart
  cases hidx : s.files.findIdx? (·.rawFile = file) with
  | none => rw [MHoare.bind_err (MHoare.getFileById_bad hidx)]; exact ⟨.inr ⟨_, rfl⟩, WeakOut.refl hI⟩
  | some i =>
    obtain ⟨f, hf, _⟩ := MHoare.findIdx?_some_get hidx
    rw [MHoare.bind_ok (MHoare.getFileById_ok hidx), MHoare.bind_ok (MHoare.getFile_ok hf)]
    unfold FileInfo.seekFromStart
    by_cases hgt : n > f.entry.size
    · rw [if_pos hgt]; exact ⟨.inr ⟨_, rfl⟩, WeakOut.refl hI⟩
    · rw [if_neg hgt]; exact ⟨.inl ⟨_, rfl⟩, setOffset_weak hI hf (by omega)⟩

theorem seekEnd_weak {s : Mgr} {gh : Ghost} (hI : FaultInv s gh X) (file n : Nat) :
    Clean (fileSeekFromEnd file n s).1 ∧ WeakOut gh X s (fileSeekFromEnd file n s).2 := by
  unfold fileSeekFromEnd
  cases hidx : s.files.findIdx? (·.rawFile = file) with
  | none => rw [MHoare.bind_err (MHoare.getFileById_bad hidx)]; exact ⟨.inr ⟨_, rfl⟩, WeakOut.refl hI⟩
  | some i =>
    obtain ⟨f, hf, _⟩ := MHoare.findIdx?_some_get hidx
    rw [MHoare.bind_ok (MHoare.getFileById_ok hidx), MHoare.bind_ok (MHoare.getFile_ok hf)]
    unfold FileInfo.seekFromEnd
    by_cases hgt : n > f.entry.size
    · rw [if_pos hgt]; exact ⟨.inr ⟨_, rfl⟩, WeakOut.refl hI⟩
    · rw [if_neg hgt]; exact ⟨.inl ⟨_, rfl⟩, setOffset_weak hI hf (by omega)⟩

theorem seekCur_weak {s : Mgr} {gh : Ghost} (hI : FaultInv s gh X) (file : Nat) (n : Int) :
    Clean (fileSeekFromCurrent file n s).1 ∧ WeakOut gh X s (fileSeekFromCurrent file n s).2 := by
  unfold fileSeekFromCurrent
  cases hidx : s.files.findIdx? (·.rawFile = file) with
  | none => rw [MHoare.bind_err (MHoare.getFileById_bad hidx)]; exact ⟨.inr ⟨_, rfl⟩, WeakOut.refl hI⟩
  | some i =>
    obtain ⟨f, hf, _⟩ := MHoare.findIdx?_some_get hidx
    rw [MHoare.bind_ok (MHoare.getFileById_ok hidx), MHoare.bind_ok (MHoare.getFile_ok hf)]
    unfold FileInfo.seekFromCurrent
    by_cases hgt : (f.currentOffset : Int) + n < 0 ∨ (f.currentOffset : Int) + n > (f.entry.size : Int)
    · simp only [if_pos hgt]; exact ⟨.inr ⟨_, rfl⟩, WeakOut.refl hI⟩
    · simp only [if_neg hgt]; exact ⟨.inl ⟨_, rfl⟩, setOffset_weak hI hf (by omega)⟩

/-- The three observers: the state is the state. -/
theorem observers_weak {s : Mgr} {gh : Ghost} (_hI : FaultInv s gh X) (file : Nat) :
    (Clean (fileLength file s).1 ∧ (fileLength file s).2 = s) ∧ (Clean (fileOffset file s).1 ∧ (fileOffset file s).2 = s) ∧
    (Clean (fileEof file s).1 ∧ (fileEof file s).2 = s) := by
  unfold fileLength fileOffset fileEof
  cases hidx : s.files.findIdx? (·.rawFile = file) with
  | none =>
    rw [MHoare.bind_err (MHoare.getFileById_bad hidx), MHoare.bind_err (MHoare.getFileById_bad hidx),
      MHoare.bind_err (MHoare.getFileById_bad hidx)]
    exact ⟨⟨.inr ⟨_, rfl⟩, rfl⟩, ⟨.inr ⟨_, rfl⟩, rfl⟩, ⟨.inr ⟨_, rfl⟩, rfl⟩⟩
  | some i =>
    obtain ⟨f, hf, _⟩ := MHoare.findIdx?_some_get hidx
    rw [MHoare.bind_ok (MHoare.getFileById_ok hidx), MHoare.bind_ok (MHoare.getFileById_ok hidx),
      MHoare.bind_ok (MHoare.getFileById_ok hidx), MHoare.bind_ok (MHoare.getFile_ok hf), MHoare.bind_ok (MHoare.getFile_ok hf),
      MHoare.bind_ok (MHoare.getFile_ok hf)]
    exact ⟨⟨.inl ⟨_, rfl⟩, rfl⟩, ⟨.inl ⟨_, rfl⟩, rfl⟩, ⟨.inl ⟨_, rfl⟩, rfl⟩⟩

/-- **`close_file` of an unmodified file** (nothing to flush): `Ok` — or `BadHandle` —, the record leaves the table, the
weak invariant is kept. -/
theorem closeFile_weak {s : Mgr} {gh : Ghost} (hI : FaultInv s gh X) (file : Nat)
    (hclean : ∀ f, f ∈ s.files → f.rawFile = file → f.dirty = false) :
    Clean (closeFile file s).1 ∧ WeakOut gh X s (closeFile file s).2 ∧
    (∀ i, s.files.findIdx? (·.rawFile = file) = some i → (closeFile file s).1 = .ok () ∧
      (closeFile file s).2 = { s with files := swapRemove s.files i }) := by
  unfold closeFile
  rw [MHoare.attempt_bind]
  cases hidx : s.files.findIdx? (·.rawFile = file) with
  | none =>
    have hfl : flushFile file s = (.err .BadHandle, s) := by
      unfold flushFile; rw [MHoare.bind_err (MHoare.getFileById_bad hidx)]
    rw [hfl]
    simp only
    rw [MHoare.bind_err (MHoare.getFileById_bad hidx)]
    exact ⟨.inr ⟨_, rfl⟩, WeakOut.refl hI, fun i h => by cases h⟩
  | some i =>
    obtain ⟨f, hf, hp⟩ := MHoare.findIdx?_some_get hidx
    have hfm : f ∈ s.files := List.mem_of_getElem? hf
    have hd : f.dirty = false := hclean f hfm (by simpa using hp)
    have hfl : flushFile file s = (.ok (), s) := by
      unfold flushFile
      rw [MHoare.bind_ok (MHoare.getFileById_ok hidx), MHoare.bind_ok (MHoare.getFile_ok hf), hd]
      rfl
    rw [hfl]
    simp only
    rw [MHoare.bind_ok (MHoare.getFileById_ok hidx), MHoare.modify_bind]
    have hout : WeakOut gh X s { s with files := swapRemove s.files i } := by
      obtain ⟨cb, hM⟩ := medFault_iff_medW.1 hI.med
      have hM' := medW_drop_clean hM hf hd (VolApi.swapRemove_perm s.files i f hf)
      exact ⟨⟨hI.coherent, hI.unlocked, hI.maxVols, hI.vols, medFault_iff_medW.2 ⟨cb, hM'⟩,
        fun g hg => hI.fileVols g (VolApi.mem_of_mem_swapRemove hg), hI.openDirs⟩, rfl, rfl,
        fun g hg => ⟨g, VolApi.mem_of_mem_swapRemove hg, rfl⟩⟩
    refine ⟨.inl ⟨_, rfl⟩, hout, fun j hj => ?_⟩
    cases hj
    exact ⟨rfl, rfl⟩

/-! ### One API call -/

theorem faultInv_resetLogs {s : Mgr} {gh : Ghost} (hI : FaultInv s gh X) : FaultInv (MHoare.resetLogs s) gh X :=
  ⟨hI.coherent, hI.unlocked, hI.maxVols, hI.vols, hI.med, hI.fileVols, hI.openDirs⟩

/-- The calls covered here: `read`, the seeks, the observers. -/
def fileRO : Op → Bool
  | .read _ _ | .seekStart _ _ | .seekCur _ _ | .seekEnd _ _ | .length _ | .offset _ | .eof _ => true
  | _ => false

theorem clean_map {α : Type} {r : Res α} (g : α → Payload) (h : Clean r) : Clean (r.bind fun x => .ok (g x)) := by
  rcases h with ⟨a, rfl⟩ | ⟨e, rfl⟩
  · exact .inl ⟨_, rfl⟩
  · exact .inr ⟨_, rfl⟩

/-- **`read`, the seeks and the observers, as API calls, from the weak invariant under any schedule.** -/
theorem step_fileRO_weak {s : Mgr} {gh : Ghost} (hI : FaultInv s gh X) (op : Op) (hop : fileRO op = true) :
    Clean (step s op).2.result ∧ WeakOut gh X s (step s op).1 := by
  have hI' := faultInv_resetLogs hI
  rw [MHoare.step_unlocked s op hI.unlocked]
  have wrap : ∀ {α : Type} (m : M α) (g : α → Payload), (Clean (m (MHoare.resetLogs s)).1 ∧
      WeakOut gh X (MHoare.resetLogs s) (m (MHoare.resetLogs s)).2) →
      Clean ((m >>= fun x => (pure (g x) : M Payload)) (MHoare.resetLogs s)).1 ∧
      WeakOut gh X s ((m >>= fun x => (pure (g x) : M Payload)) (MHoare.resetLogs s)).2 := by
    intro α m g h
    rw [AbsFs.run_map]
    exact ⟨clean_map g h.1, h.2.inv, h.2.disk, h.2.vols, h.2.entries⟩
  cases op with
  | read f n => exact wrap (Model.read f n) Payload.bytes (read_weakOut hI' f n)
  | seekStart f n => exact wrap (fileSeekFromStart f n) (fun _ => Payload.unit) (seekStart_weak hI' f n)
  | seekCur f n => exact wrap (fileSeekFromCurrent f n) (fun _ => Payload.unit) (seekCur_weak hI' f n)
  | seekEnd f n => exact wrap (fileSeekFromEnd f n) (fun _ => Payload.unit) (seekEnd_weak hI' f n)
  | length f =>
    exact wrap (fileLength f) Payload.num ⟨(observers_weak hI' f).1.1, by rw [(observers_weak hI' f).1.2]; exact WeakOut.refl hI'⟩
  | offset f =>
    exact wrap (fileOffset f) Payload.num ⟨(observers_weak hI' f).2.1.1, by rw [(observers_weak hI' f).2.1.2]; exact WeakOut.refl hI'⟩
  | eof f =>
    exact wrap (fileEof f) Payload.bool ⟨(observers_weak hI' f).2.2.1, by rw [(observers_weak hI' f).2.2.2]; exact WeakOut.refl hI'⟩
  | _ => cases hop

/-- **`close_file` of an unmodified file, as an API call.** -/
theorem step_closeFile_weak {s : Mgr} {gh : Ghost} (hI : FaultInv s gh X) (file : Nat)
    (hclean : ∀ f, f ∈ s.files → f.rawFile = file → f.dirty = false) :
    Clean (step s (.closeFile file)).2.result ∧ WeakOut gh X s (step s (.closeFile file)).1 ∧
    (file ∈ s.files.map (·.rawFile) → (step s (.closeFile file)).2.result = .ok .unit ∧
      (step s (.closeFile file)).1.files.length + 1 = s.files.length) := by
  have hI' := faultInv_resetLogs hI
  rw [MHoare.step_unlocked s _ hI.unlocked]
  have hrun : runOp (.closeFile file) (MHoare.resetLogs s) =
      ((closeFile file (MHoare.resetLogs s)).1.bind fun _ => .ok Payload.unit, (closeFile file (MHoare.resetLogs s)).2) :=
    AbsFs.run_map (closeFile file) (fun _ => Payload.unit) (MHoare.resetLogs s)
  simp only [hrun]
  obtain ⟨h1, h2, h3⟩ := closeFile_weak hI' file hclean
  refine ⟨clean_map _ h1, ⟨h2.inv, h2.disk, h2.vols, h2.entries⟩, fun hm => ?_⟩
  obtain ⟨i, x, hk, hi, hx⟩ := MHoare.findIdx?_some_of_mem (MHoare.resetLogs s).files (·.rawFile) file hm
  obtain ⟨e1, e2⟩ := h3 i hk
  rw [e1, e2]
  refine ⟨rfl, ?_⟩
  show (swapRemove s.files i).length + 1 = s.files.length
  have hlt : i < s.files.length := (List.getElem?_eq_some_iff.1 hi).1
  rw [Tables.swapRemove_length _ i hlt]
  omega

/-- `EntriesNotAhead` goes along. -/
theorem rawAll_weakOut {s t : Mgr} {gh : Ghost} (h : WeakOut gh X s t) (hR : FaultX.RawAll s) : FaultX.RawAll t := by
  intro g hg vi hvi
  obtain ⟨f, hf, he⟩ := h.entries g hg
  have := hR f hf vi (by rw [← h.vols]; exact hvi)
  unfold VolX.RawBelow VolX.rawSlot at this ⊢
  rw [h.disk, he]
  exact this

end Sdmmc.Lemmas.Loose
