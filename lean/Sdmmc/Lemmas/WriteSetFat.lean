/-
C04 over whole calls, the FAT engine: `alloc_cluster`, `truncate_cluster_chain`, `free_cluster_chain`
on a sound state write only what their licence names —

* `alloc_lic`: the FAT entries of the new cluster and of the predecessor (the link); when the new
  cluster is blanked, its blocks;
* `truncate_lic`: the FAT entries of the cluster the chain is cut at and of the clusters behind it;
* `free_lic`: the FAT entries of the clusters of the chain.
-/
import Sdmmc.Lemmas.WriteSetPrim
import Sdmmc.Lemmas.ForestAlloc

namespace Sdmmc.Lemmas.WriteSet
open Sdmmc.Model Sdmmc.Model.Fat Sdmmc.Spec
open Sdmmc.Lemmas.FBasic hiding NoFault Coherent
open Sdmmc.Lemmas.FatOps hiding BlocksOK Mirror HintOK
open Sdmmc.Lemmas.ChainL Sdmmc.Lemmas.ForestBase Sdmmc.Lemmas.ForestTrunc

/-- Changing the two bookkeeping fields keeps a state sound, given the new hint is a data cluster. -/
theorem Sound.setVol {s : FS} (hs : Sound s) (v' : FatVolume) (hsg : SameGeom s.vol v') (hh : HintOK v') :
    Sound { s with vol := v' } :=
  ⟨⟨hs.noFault, hs.coherent, hs.blocksOK, hsg.wfGeom hs.geom, hh⟩, (hsg.mirror _).2 hs.mirror⟩

/-! ### Allocation -/

/-- **`alloc_cluster(prev, zero)` returning `c`** on a sound state: the state afterwards is sound, the
record differs in the bookkeeping fields only, and the writes are licensed by any licence that names
the FAT entries of `c` and of `prev` and — when `zero` — the blocks of `c`. -/
theorem alloc_lic (s s' : FS) (prev : Option Nat) (zero : Bool) (c : Nat) (hs : Sound s)
    (hp : ∀ p, prev = some p → p < endCluster s.vol) (h : allocCluster prev zero s = (.ok c, s')) (L : Licence)
    (hLc : c ∈ L.fatClusters) (hLp : ∀ p, prev = some p → p ∈ L.fatClusters) (hLz : zero = true → c ∈ L.dataClusters) :
    Sound s' ∧ SameGeom s.vol s'.vol ∧ LicD s.vol L s.dev s'.dev ∧ InRange s.vol c := by
  obtain ⟨hc2, hcE, _⟩ := alloc_in_range_and_free s s' prev zero c hs.noFault hs.coherent hs.hint h
  have hr : InRange s.vol c := ⟨hc2, hcE⟩
  obtain ⟨_, _, _, ch⟩ := alloc_chain s s' prev zero c hs.noFault hs.coherent h
  obtain ⟨s1, sZ, s3, s4, s5, nf, h1, h2, h3, h4, h5, hs'⟩ := alloc_inv s s' prev zero c h
  -- pick
  have ro1 : RO s s1 := by have := allocPick_readOnly s.vol s; rw [h1] at this; exact this
  have hs1 : Sound s1 := hs.of_ro ro1
  have hv1 : s1.vol = s.vol := ro1.vol
  -- blank
  obtain ⟨hsZ, hvZ, hlZ⟩ : Sound sZ ∧ sZ.vol = s.vol ∧ LicD s.vol L s1.dev sZ.dev := by
    unfold zeroStep at h2
    cases zero with
    | false =>
      have : sZ = s1 := (congrArg Prod.snd h2).symm
      subst this
      exact ⟨hs1, hv1, LicD.refl _ _ _⟩
    | true =>
      simp only [if_true] at h2
      obtain ⟨sZ', hrun, hsZ', hvZ', hl⟩ := zeroBlocks_lic s.vol L c (hLz rfl) hr s.vol.blocksPerCluster
        (clusterToBlock s.vol c) s1 hs1 hv1 (Nat.le_refl _) (Nat.le_refl _)
      rw [h2] at hrun
      have : sZ = sZ' := congrArg Prod.snd hrun
      subst this
      exact ⟨hsZ', hvZ'.trans hv1, hl⟩
  -- mark
  obtain ⟨s3', hrun3, hs3, hv3, hl3, _⟩ := updateFat_lic sZ c Gen.CLUSTER_END_OF_FILE hsZ (by rw [hvZ]; exact hcE) L hLc
  rw [h3] at hrun3
  have e3 : s3 = s3' := congrArg Prod.snd hrun3
  subst e3
  have hv3' : s3.vol = s.vol := hv3.trans hvZ
  -- link
  obtain ⟨hs4, hv4, hl4⟩ : Sound s4 ∧ s4.vol = s.vol ∧ LicD s.vol L s3.dev s4.dev := by
    unfold linkStep at h4
    cases prev with
    | none =>
      have : s4 = s3 := (congrArg Prod.snd h4).symm
      subst this
      exact ⟨hs3, hv3', LicD.refl _ _ _⟩
    | some p =>
      simp only at h4
      obtain ⟨s4', hrun4, hs4', hv4', hl4', _⟩ := updateFat_lic s3 p c hs3 (by rw [hv3']; exact hp p rfl) L (hLp p rfl)
      rw [h4] at hrun4
      have : s4 = s4' := congrArg Prod.snd hrun4
      subst this
      exact ⟨hs4', hv4'.trans hv3', by rw [hv3'] at hl4'; exact hl4'⟩
  -- hint
  have ro5 : RO s4 s5 := by have := allocHint_readOnly s.vol c s4; rw [h5] at this; exact this
  have hs5 : Sound s5 := hs4.of_ro ro5
  have hv5 : s5.vol = s.vol := ro5.vol.trans hv4
  obtain ⟨nf', hvol', hnf⟩ := ch.vol'
  have hsg : SameGeom s.vol s'.vol := ⟨_, _, hvol'⟩
  have hh' : HintOK s'.vol := by
    rw [hvol']
    intro n hn
    have hn' : nf' = some n := hn
    rcases hnf with h0 | ⟨m, hm, hm2, _⟩
    · rw [h0] at hn'; cases hn'
    · rw [hm] at hn'
      have : m = n := Option.some.inj hn'
      omega
  refine ⟨?_, hsg, ?_, hr⟩
  · have hvs : s'.vol = setHint nf s5.vol := by rw [hs']
    rw [hs']
    exact Sound.setVol hs5 _ (by rw [← hvs, hv5]; exact hsg) (by rw [← hvs]; exact hh')
  · have hl5 : LicD s.vol L s4.dev s5.dev := LicD.of_ro ro5
    have hl1 : LicD s.vol L s.dev s1.dev := LicD.of_ro ro1
    have hd' : s'.dev = s5.dev := by rw [hs']
    rw [hd']
    rw [hvZ] at hl3
    exact hl1.trans (hlZ.trans (hl3.trans (hl4.trans hl5)))

/-- An allocation that finds no free cluster writes nothing. -/
theorem alloc_none_nowrite (s : FS) (prev : Option Nat) (zero : Bool) (hs : Sound s) (e : Err) (s' : FS)
    (h : allocCluster prev zero s = (.err e, s')) : s'.dev.wlog = s.dev.wlog ∧ s'.dev.disk = s.dev.disk ∧ Sound s' ∧ s'.vol = s.vol := by
  rcases ForestAlloc.alloc_total s prev zero hs.noFault hs.coherent with ⟨c, s'', ha⟩ | ⟨s'', ha, hd, hv, hn, hc⟩
  · rw [h] at ha; cases ha
  · rw [h] at ha
    have e2 : s' = s'' := congrArg Prod.snd ha
    subst e2
    have hp : pick s.vol s.dev.disk = none := by
      cases hp : pick s.vol s.dev.disk with
      | none => rfl
      | some c =>
        obtain ⟨_, _, _, s2, ch⟩ := alloc_forward s prev zero c hs.noFault hs.coherent hp
        have hrun := ch.run
        rw [h] at hrun; cases hrun
    have hw := (alloc_none s prev zero hs.noFault hs.coherent hp).2
    rw [h] at hw
    refine ⟨hw, hd, ⟨⟨hn, hc, ?_, by rw [hv]; exact hs.geom, by rw [hv]; exact hs.hint⟩, by rw [hv, hd]; exact hs.mirror⟩, hv⟩
    intro i; rw [hd]; exact hs.blocksOK i

/-! ### Truncation -/

/-- The loop of `truncate_cluster_chain` on the chain `tail` starting at `n`: every iteration frees one
cluster of `tail`. -/
theorem truncateLoop_lic (L : Licence) : ∀ (tail : List Nat) (n : Nat) (s : FS) (fuel : Nat), Sound s →
    Chain s.vol s.dev.disk n tail → tail.length ≤ fuel → (∀ x, x ∈ tail → x ∈ L.fatClusters) →
    ∃ s', truncateLoop fuel n s = (.ok (), s') ∧ NoFault s' ∧ Coherent s' ∧ BlocksOK s'.dev.disk ∧
      SameGeom s.vol s'.vol ∧ Mirror s.vol s'.dev.disk ∧ s'.vol.nextFreeCluster = s.vol.nextFreeCluster ∧
      LicD s.vol L s.dev s'.dev := by
  intro tail
  induction tail with
  | nil => intro n s fuel _ hch; exact absurd rfl (chain_ne_nil hch)
  | cons a rest ih =>
    intro n s fuel hs hch hfuel hL
    obtain ⟨fuel, rfl⟩ : ∃ f, fuel = f + 1 := ⟨fuel - 1, by simp only [List.length_cons] at hfuel; omega⟩
    have han : a = n := by have := chain_head_eq hch; simpa using this
    subst han
    have hr : InRange s.vol a := chain_inRange hch a List.mem_cons_self
    have hnc := nextCluster_spec a s hs.noFault hs.coherent hs.geom hr
    -- the write of this iteration, from the state after the read
    have hsR : Sound (afterRead (fatBlock s.vol a) s) := hs.of_ro (ro_afterRead _ s)
    obtain ⟨s2, hu, hs2, hv2, hl2, _⟩ := updateFat_lic (afterRead (fatBlock s.vol a) s) a Gen.CLUSTER_EMPTY hsR hr.2 L
      (hL a List.mem_cons_self)
    have hv2' : s2.vol = s.vol := hv2
    have hl2' : LicD s.vol L s.dev s2.dev := (LicD.of_ro (ro_afterRead _ s)).trans hl2
    obtain ⟨s2', hu', _, _, _, _, _, hfr2⟩ := free_one s a hs.noFault hs.blocksOK hs.geom hr
    rw [hu] at hu'
    have e2 : s2 = s2' := congrArg Prod.snd hu'
    subst e2
    by_cases hrest : rest = []
    · subst hrest
      have he : nextOf s.vol s.dev.disk a = .err .EndOfFile := chain_last_of_split (pre := []) hch
      rw [he] at hnc
      refine ⟨{ s2 with vol := { s2.vol with freeClustersCount := s2.vol.freeClustersCount.map satInc } }, ?_,
        hs2.noFault, hs2.coherent, hs2.blocksOK, ?_, ?_, ?_, hl2'⟩
      · rw [truncateLoop]
        simp only [bind_apply, attempt_apply, hnc, hu, modifyVol_apply]
      · exact (SameGeom.of_eq hv2').trans ⟨_, _, rfl⟩
      · have := hs2.mirror; rw [hv2'] at this; exact this
      · show s2.vol.nextFreeCluster = _; rw [hv2']
    · obtain ⟨_, _, m, hm, hnot, hchm⟩ := chain_cons_inv hch hrest
      rw [hm] at hnc
      let s3 : FS := { s2 with vol := { s2.vol with freeClustersCount := s2.vol.freeClustersCount.map satInc } }
      have hs3g : SameGeom s.vol s3.vol := (SameGeom.of_eq hv2').trans ⟨_, _, rfl⟩
      have hs3 : Sound s3 := Sound.setVol hs2 _ ⟨_, _, rfl⟩ (by
        intro k hk
        have hk' : s2.vol.nextFreeCluster = some k := hk
        exact hs2.hint k hk')
      have hch3 : Chain s3.vol s3.dev.disk m rest :=
        chain_transfer hchm hs3g.endCluster fun x hx => by
          rw [hs3g.nextOf]
          exact nextOf_congr rfl (hfr2.other x (chain_inRange hchm x hx).2
            (fun h => hnot (by rw [List.mem_singleton.1 h] at hx; exact hx)))
      obtain ⟨s', hl, hn', hc', hb', hsg', hm', hnf', hlic'⟩ := ih m s3 fuel hs3 hch3
        (by simp only [List.length_cons] at hfuel; omega) (fun x hx => hL x (List.mem_cons_of_mem _ hx))
      refine ⟨s', ?_, hn', hc', hb', hs3g.trans hsg', (hs3g.mirror _).1 hm', ?_, hl2'.trans (LicD.sameGeom hs3g hlic')⟩
      · rw [truncateLoop]
        simp only [bind_apply, attempt_apply, hnc, hu, modifyVol_apply]
        exact hl
      · rw [hnf']; show s2.vol.nextFreeCluster = _; rw [hv2']

/-- **`truncate_cluster_chain(x)`**, `x` anywhere in a chain `pre ++ x :: tail`, on a sound state: the
writes are licensed by any licence naming the FAT entries of `x` and of the clusters of `tail`. -/
theorem truncate_lic (s : FS) (c x : Nat) (pre tail : List Nat) (hs : Sound s)
    (hch : Chain s.vol s.dev.disk c (pre ++ x :: tail)) (L : Licence) (hL : ∀ y, y ∈ x :: tail → y ∈ L.fatClusters) :
    ∃ s', truncateClusterChain x s = (.ok (), s') ∧ Sound s' ∧ SameGeom s.vol s'.vol ∧ LicD s.vol L s.dev s'.dev ∧
      (tail = [] → s'.dev.disk = s.dev.disk ∧ s'.dev.wlog = s.dev.wlog) := by
  have hrx : InRange s.vol x := chain_inRange hch x (List.mem_append_right _ List.mem_cons_self)
  have hlt : ¬ x < Gen.RESERVED_ENTRIES := by have := hrx.1; show ¬ x < 2; omega
  have hnc := nextCluster_spec x s hs.noFault hs.coherent hs.geom hrx
  obtain ⟨hxt, _, _, _⟩ := nodup_split (chain_nodup hch)
  -- the post-conditions other than the licence come from the specification of the truncation
  obtain ⟨sT, hT, hnT, hcT, hbT, hvT, _, _, hfrT, _⟩ := truncate_spec s c x pre tail hs.noFault hs.coherent hs.blocksOK hs.geom hch
  have hsgT : SameGeom s.vol sT.vol := by rw [hvT]; exact volAfterTruncate_sameGeom tail s.vol
  have hhT : HintOK sT.vol := by
    rw [hvT]
    cases tail with
    | nil => exact hs.hint
    | cons y t =>
      have hy : InRange s.vol y := chain_inRange hch y (List.mem_append_right _ (List.mem_cons_of_mem _ List.mem_cons_self))
      show HintOK (bump _ (hintMin y s.vol))
      intro k hk
      have hk' : (hintMin y s.vol).nextFreeCluster = some k := by
        have : (bump (y :: t).length (hintMin y s.vol)).nextFreeCluster = (hintMin y s.vol).nextFreeCluster := by
          unfold bump; rfl
        rw [← this]; exact hk
      exact hintMin_hintOK y s.vol hy.1 hs.hint k hk'
  have hsT : Sound sT := ⟨⟨hnT, hcT, hbT, hsgT.wfGeom hs.geom, hhT⟩, (hsgT.mirror _).2 (hfrT.mirror hs.mirror)⟩
  refine ⟨sT, hT, hsT, hsgT, ?_, ?_⟩
  · cases tail with
    | nil =>
      rw [chain_last_of_split hch] at hnc
      have hrun : truncateClusterChain x s = (.ok (), afterRead (fatBlock s.vol x) s) := by
        unfold truncateClusterChain
        simp only [ite_apply, if_neg hlt, bind_apply, attempt_apply, hnc, pure_apply]
      rw [hT] at hrun
      have : sT = afterRead (fatBlock s.vol x) s := congrArg Prod.snd hrun
      rw [this]
      exact LicD.of_ro (ro_afterRead _ s)
    | cons y t =>
      obtain ⟨hxy, hchy⟩ := chain_next_of_split hch
      rw [hxy] at hnc
      generalize hs1 : ({ afterRead (fatBlock s.vol x) s with vol := hintMin y (afterRead (fatBlock s.vol x) s).vol } : FS) = s1
      have hd1 : s1.dev = (afterRead (fatBlock s.vol x) s).dev := by subst hs1; rfl
      have hdk1 : s1.dev.disk = s.dev.disk := by rw [hd1]; rfl
      have hl01 : LicD s.vol L s.dev s1.dev := by rw [hd1]; exact LicD.of_ro (ro_afterRead _ s)
      have hv1 : s1.vol = hintMin y s.vol := by subst hs1; rfl
      have hg1 : SameGeom s.vol s1.vol := by rw [hv1]; exact hintMin_sameGeom y s.vol
      have hy : InRange s.vol y := chain_inRange hch y (List.mem_append_right _ (List.mem_cons_of_mem _ List.mem_cons_self))
      have hsound1 : Sound s1 := by
        subst hs1
        exact Sound.setVol (hs.of_ro (ro_afterRead _ s)) _ (hintMin_sameGeom y s.vol) (hintMin_hintOK y s.vol hy.1 hs.hint)
      obtain ⟨s2, hu, hs2, hv2, hl2, _⟩ := updateFat_lic s1 x Gen.CLUSTER_END_OF_FILE hsound1
        (by rw [hg1.endCluster]; exact hrx.2) L (hL x List.mem_cons_self)
      obtain ⟨s2', hu', _, _, _, _, _, hfr2⟩ := updateFat_spec s1 x Gen.CLUSTER_END_OF_FILE hsound1.noFault hsound1.coherent
        hsound1.blocksOK hsound1.geom (by rw [hg1.endCluster]; exact hrx.2)
      rw [hu] at hu'
      have e2 : s2 = s2' := congrArg Prod.snd hu'
      subst e2
      have hg2 : SameGeom s.vol s2.vol := hg1.trans (SameGeom.of_eq hv2)
      have hfr2' : Frame s.vol s.dev.disk s2.dev.disk [x] := by
        have := Frame.sameGeom hg1 hfr2
        rw [hdk1] at this; exact this
      have hch2 : Chain s2.vol s2.dev.disk y (y :: t) :=
        chain_transfer hchy hg2.endCluster fun z hz => by
          rw [hg2.nextOf]
          exact nextOf_congr rfl (hfr2'.other z (chain_inRange hchy z hz).2
            (fun h => hxt (by rw [List.mem_singleton.1 h] at hz; exact hz)))
      have hfuel : (y :: t).length ≤ chainFuel s2.vol := by
        have := chain_length_le hch2
        unfold chainFuel; omega
      obtain ⟨s', hl, _, _, _, _, _, _, hlic'⟩ := truncateLoop_lic L (y :: t) y s2 (chainFuel s2.vol) hs2 hch2 hfuel
        (fun z hz => hL z (List.mem_cons_of_mem _ hz))
      have hrun : truncateClusterChain x s = (.ok (), s') := by
        rw [truncate_unfold_ok x y s _ hlt hnc, hs1, bind_ok hu, bind_apply, getVol_apply]
        exact hl
      rw [hT] at hrun
      have : sT = s' := congrArg Prod.snd hrun
      rw [this]
      have hl2' : LicD s.vol L s.dev s2.dev := hl01.trans (LicD.sameGeom hg1 hl2)
      exact hl2'.trans (LicD.sameGeom hg2 hlic')
  · intro ht
    subst ht
    rw [chain_last_of_split hch] at hnc
    have hrun : truncateClusterChain x s = (.ok (), afterRead (fatBlock s.vol x) s) := by
      unfold truncateClusterChain
      simp only [ite_apply, if_neg hlt, bind_apply, attempt_apply, hnc, pure_apply]
    rw [hT] at hrun
    have : sT = afterRead (fatBlock s.vol x) s := congrArg Prod.snd hrun
    rw [this]
    exact ⟨rfl, rfl⟩

/-! ### Freeing a chain -/

/-- **`free_cluster_chain(r)`** on the chain `r :: tail`, on a sound state: the writes are licensed by
any licence naming the FAT entries of the clusters of the chain. -/
theorem free_lic (s : FS) (r : Nat) (tail : List Nat) (hs : Sound s) (hch : Chain s.vol s.dev.disk r (r :: tail))
    (L : Licence) (hL : ∀ y, y ∈ r :: tail → y ∈ L.fatClusters) :
    ∃ s', freeClusterChain r s = (.ok (), s') ∧ Sound s' ∧ SameGeom s.vol s'.vol ∧ LicD s.vol L s.dev s'.dev := by
  have hrc : InRange s.vol r := chain_inRange hch r List.mem_cons_self
  have hlt : ¬ r < Gen.RESERVED_ENTRIES := by have := hrc.1; show ¬ r < 2; omega
  obtain ⟨s1, ht, hs1, hg1, hl1, _⟩ := truncate_lic s r r [] tail hs hch L hL
  obtain ⟨s2, hu, hs2, hv2, hl2, _⟩ := updateFat_lic s1 r Gen.CLUSTER_EMPTY hs1 (by rw [hg1.endCluster]; exact hrc.2) L
    (hL r List.mem_cons_self)
  have hg2 : SameGeom s.vol s2.vol := hg1.trans (SameGeom.of_eq hv2)
  refine ⟨{ s2 with vol := freeHint r s2.vol }, ?_, ?_, hg2.trans (freeHint_sameGeom r s2.vol), hl1.trans (LicD.sameGeom hg1 hl2)⟩
  · rw [free_unfold r s hlt, bind_ok ht, bind_ok hu, modifyVol_apply]
  · refine Sound.setVol hs2 _ (freeHint_sameGeom r s2.vol) ?_
    intro k hk
    unfold freeHint at hk
    simp only at hk
    cases hnf : s2.vol.nextFreeCluster with
    | none => rw [hnf] at hk; have : r = k := Option.some.inj hk; have := hrc.1; omega
    | some nf =>
      rw [hnf] at hk
      simp only at hk
      have hnf2 := hs2.hint nf hnf
      split at hk
      · have : nf = k := Option.some.inj hk; omega
      · have : r = k := Option.some.inj hk; have := hrc.1; omega

end Sdmmc.Lemmas.WriteSet
