/-
The device writes of one extending iteration of `write` at the F level: `alloc_cluster(Some(last), false)`
followed by the block write into the new cluster (`Mgr.writeBlockPart`).  At every crash point of the
two calls together, every other chain of the record and its data bytes are intact.

(`Model.writeLoop` runs these two F-level calls — with read-only `find_data_on_disk` walks in between
— through `withVol`; the loop itself lives in the manager monad and is not lifted here.)
-/
import Sdmmc.Lemmas.CrashHist
import Sdmmc.Lemmas.CrashData

namespace Sdmmc.Lemmas.CrashWrite
open Sdmmc.Model Sdmmc.Model.Fat Sdmmc.Spec
open Sdmmc.Lemmas.FBasic hiding NoFault Coherent
open Sdmmc.Lemmas.FatOps hiding BlocksOK Mirror HintOK
open Sdmmc.Lemmas.ChainL Sdmmc.Lemmas.ForestBase Sdmmc.Lemmas.ForestOwns Sdmmc.Lemmas.ForestStep
open Sdmmc.Lemmas.CrashBase Sdmmc.Lemmas.CrashStep Sdmmc.Lemmas.CrashHist Sdmmc.Lemmas.CrashData

/-- Extend the chain ending in `p` by one cluster and write `data` at byte `off` of block `jA` of the
new cluster. -/
def extendWriteF (p jA off : Nat) (data : Bytes) (whole : Bool) : F Unit := do
  let c ← allocCluster (some p) false
  let v ← F.getVol
  Sdmmc.Model.writeBlockPart (clusterToBlock v c + jA) off data whole

theorem chainBytes_sameGeom {v v' : FatVolume} (hs : SameGeom v v') (d : Disk) (X : List Nat) :
    chainBytes v' d X = chainBytes v d X := by
  obtain ⟨a, b, rfl⟩ := hs; rfl

/-- At every crash point of `extendWriteF` on chain `i`, every other chain `X = G[j]` of the record is
still a chain and holds the bytes it held before. -/
theorem extendWrite_crash (s : FS) (G : List (List Nat)) (h : Exact (s, G)) (i : Nat) (cs : List Nat) (p : Nat)
    (hG : G[i]? = some cs) (hl : cs.getLast? = some p) (jA off : Nat) (data : Bytes) (whole : Bool)
    (hjA : jA < s.vol.blocksPerCluster) (j : Nat) (X : List Nat) (hj : G[j]? = some X) (hji : j ≠ i) :
    CrashAll (fun d => Chain s.vol d (X.headD 0) X ∧ chainBytes s.vol d X = chainBytes s.vol s.dev.disk X)
      s (extendWriteF p jA off data whole s).2 := by
  have hne : opIndex (.extend i false) ≠ some j := fun e => hji (Option.some.inj e).symm
  have hstep := step_crash (s, G) (.extend i false) h
  have hok := step_ok (s, G) (.extend i false) h
  rcases alloc_cases s (some p) false h.1.noFault h.1.coherent with ⟨c, s1, ha⟩ | ⟨s1, ha, ro⟩
  · have e : Spec.step (s, G) (.extend i false) = (s1, G.set i (cs ++ [c])) := by simp only [Spec.step, hG, hl, ha]
    rw [e] at hstep hok
    have hsg : SameGeom s.vol s1.vol := hok.2.1
    have hex1 : Exact (s1, G.set i (cs ++ [c])) := hok.1
    -- the allocation
    have c1 : CrashAll (fun d => Chain s.vol d (X.headD 0) X ∧ chainBytes s.vol d X = chainBytes s.vol s.dev.disk X) s s1 :=
      hstep.mono fun d hd => stepCrash_chain h.1.geom h.2 hd hj hne
    -- the new cluster is no cluster of `X`
    have hi' : (G.set i (cs ++ [c]))[i]? = some (cs ++ [c]) := by
      rw [List.getElem?_set_self (List.getElem?_eq_some_iff.1 hG).1]
    have hj' : (G.set i (cs ++ [c]))[j]? = some X := by rw [List.getElem?_set_ne (fun e => hji e.symm)]; exact hj
    have hcX : c ∉ X := fun hx =>
      ne_of_other_chain hex1.2.2.1 hi' hj' hji (List.mem_append_right _ (List.mem_singleton.2 rfl)) hx rfl
    have hcu : isUsed s1.vol s1.dev.disk c :=
      owns_mem_used hex1.2 (mem_flatten_of_get hi' (List.mem_append_right _ (List.mem_singleton.2 rfl)))
    -- the data write
    obtain ⟨s2, hw, c2⟩ := writeBlockPart_crash_chains s1.vol hex1.1.geom c jA off data whole s1 hex1.1.noFault
      hex1.1.coherent hcu.1.1 hcu.1.2 (by rw [show s1.vol.blocksPerCluster = s.vol.blocksPerCluster from by
        obtain ⟨a, b, hv⟩ := hsg; rw [hv]]; exact hjA)
    have hrun : (extendWriteF p jA off data whole s).2 = s2 := by
      unfold extendWriteF
      rw [bind_ok ha, bind_apply, getVol_apply]
      show (Sdmmc.Model.writeBlockPart (clusterToBlock s1.vol c + jA) off data whole s1).2 = s2
      rw [hw]
    rw [hrun]
    obtain ⟨hch1, hby1⟩ := c1.final
    refine c1.trans (c2.mono fun d hd => ?_)
    obtain ⟨_, hch, hby⟩ := hd
    have hchX : Chain s1.vol s1.dev.disk (X.headD 0) X := chain_sameGeom hsg hch1
    refine ⟨chain_sameGeom hsg.symm (hch _ X hchX), ?_⟩
    rw [← chainBytes_sameGeom hsg d X, hby _ X hchX hcX, chainBytes_sameGeom hsg, hby1]
  · have hrun : (extendWriteF p jA off data whole s).2 = s1 := by
      unfold extendWriteF
      rw [bind_err ha]
    rw [hrun]
    exact CrashAll.of_ro ro ⟨h.2.1 X (List.mem_of_getElem? hj), rfl⟩

end Sdmmc.Lemmas.CrashWrite
