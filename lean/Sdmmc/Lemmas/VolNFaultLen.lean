/-
C11 (device faults) with several open volumes, part 5 — BLOCK LENGTHS AFTER A `write` UNDER ANY FAULT SCHEDULE.

`MedInv` of every open volume says that ALL blocks of the (one, shared) medium have 512 bytes.  That a volume keeps its
medium invariant while a call on ANOTHER volume hits a device fault therefore needs: the medium the faulted call leaves
still consists of 512-byte blocks.  For the read-only calls and the `prefixOp` calls this follows from the licences
(`Lemmas/VolNFault.lean`); for `make_dir_in_dir` see `Lemmas/VolNFaultMkdir.lean`; here `write`:

* `LenM s` — every block of the medium has 512 bytes and so has the cached block whenever the cache is tagged (the
  manager-level form of `FaultInv.LenInv`);
* `MLenQ m Q` — `m` keeps `LenM`, whatever fails, and an answer `Ok a` satisfies `Q a`;
* `findDataOnDisk_avail` — `find_data_on_disk` answers a block offset and a number of available bytes that add up to 512;
* `write_lenM` — `write` keeps `LenM` from ANY state under ANY schedule (no invariant is needed);
  `step_write_blocksOK` — the same through `step`.
-/
import Sdmmc.Lemmas.VolNFault
import Sdmmc.Lemmas.Files

namespace Sdmmc.Lemmas.VolNFault
open Sdmmc.Model Sdmmc.Model.Fat Sdmmc.Spec.Volume
open Sdmmc.Spec hiding run step NoFault Coherent
open Sdmmc.Lemmas.MHoare
open Sdmmc.Lemmas.FaultInv (LenInv Len)

/-- 512-byte blocks, on the medium and in the (tagged) cache. -/
def LenM (s : Mgr) : Prop := BlocksOK s.dev.disk ∧ ∀ i, s.cache.tag = some i → s.cache.blk.length = 512

/-- `m` keeps the block lengths, whatever fails; an answer `Ok a` satisfies `Q a`. -/
def MLenQ {α : Type} (m : M α) (Q : α → Prop) : Prop := ∀ s, LenM s → LenM (m s).2 ∧ ∀ a, (m s).1 = .ok a → Q a

theorem MLenQ.bind {α β : Type} {m : M α} {f : α → M β} {Q : α → Prop} {Q' : β → Prop} (hm : MLenQ m Q)
    (hf : ∀ a, Q a → MLenQ (f a) Q') : MLenQ (m >>= f) Q' := by
  intro s hs
  obtain ⟨h1, h2⟩ := hm s hs
  rcases hr : m s with ⟨r, s'⟩
  rw [hr] at h1 h2
  cases r with
  | ok a => rw [bind_ok hr]; exact hf a (h2 a rfl) s' h1
  | err e => rw [bind_err hr]; exact ⟨h1, fun a h => by cases h⟩
  | panic msg => rw [bind_panic hr]; exact ⟨h1, fun a h => by cases h⟩
  | diverged => rw [bind_diverged hr]; exact ⟨h1, fun a h => by cases h⟩

theorem MLenQ.mono {α : Type} {m : M α} {Q Q' : α → Prop} (hm : MLenQ m Q) (h : ∀ a, Q a → Q' a) : MLenQ m Q' :=
  fun s hs => ⟨(hm s hs).1, fun a ha => h a ((hm s hs).2 a ha)⟩

/-- A computation that leaves device and cache alone. -/
theorem MLenQ.of_dev {α : Type} {m : M α} (h : ∀ s, (m s).2.dev = s.dev ∧ (m s).2.cache = s.cache) :
    MLenQ m (fun _ => True) := by
  intro s hs
  obtain ⟨h1, h2⟩ := h s
  refine ⟨?_, fun _ _ => trivial⟩
  unfold LenM
  rw [h1, h2]; exact hs

theorem MLenQ.pure {α : Type} (a : α) {Q : α → Prop} (h : Q a) : MLenQ (pure a : M α) Q :=
  fun _ hs => ⟨hs, fun b hb => by cases hb; exact h⟩

theorem MLenQ.lift {α : Type} (r : Res α) {Q : α → Prop} (h : ∀ a, r = .ok a → Q a) : MLenQ (M.lift r) Q :=
  fun _ hs => ⟨hs, fun a ha => h a ha⟩

theorem MLenQ.fail {α : Type} (e : Err) {Q : α → Prop} : MLenQ (M.fail e : M α) Q :=
  fun _ hs => ⟨hs, fun a ha => by cases ha⟩

theorem MLenQ.attempt {α : Type} {m : M α} {Q : α → Prop} (hm : MLenQ m Q) :
    MLenQ (M.attempt m) (fun r => ∀ a, r = .ok a → Q a) := by
  intro s hs
  refine ⟨(hm s hs).1, fun r hr a ha => ?_⟩
  have : (m s).1 = r := Res.ok.inj hr
  rw [← this] at ha
  exact (hm s hs).2 a ha

theorem MLenQ.withVol {α : Type} (vi : Nat) {f : F α} {Q : α → Prop} (hf : Len f) (hQ : ∀ fs a, (f fs).1 = .ok a → Q a) :
    MLenQ (withVol vi f) Q := by
  intro s hs
  cases hv : s.vols[vi]? with
  | none => rw [DirMgr.withVol_none vi f s hv]; exact ⟨hs, fun a ha => by cases ha⟩
  | some v =>
    rw [DirMgr.withVol_eq vi f s v hv]
    exact ⟨hf { dev := s.dev, cache := s.cache, vol := v.vol } hs, fun a ha => hQ _ a ha⟩

theorem mlen_getFileById (raw : Nat) : MLenQ (getFileById raw) (fun _ => True) :=
  .of_dev fun s => by unfold getFileById; split <;> exact ⟨rfl, rfl⟩
theorem mlen_getVolumeById (raw : Nat) : MLenQ (getVolumeById raw) (fun _ => True) :=
  .of_dev fun s => by unfold getVolumeById; split <;> exact ⟨rfl, rfl⟩
theorem mlen_getFile (i : Nat) : MLenQ (getFile i) (fun _ => True) :=
  .of_dev fun s => by unfold getFile; split <;> exact ⟨rfl, rfl⟩
theorem mlen_modifyFile (i : Nat) (g : FileInfo → FileInfo) : MLenQ (modifyFile i g) (fun _ => True) :=
  .of_dev fun _ => ⟨rfl, rfl⟩
theorem mlen_get : MLenQ M.get (fun _ => True) := .of_dev fun _ => ⟨rfl, rfl⟩

theorem MLenQ.bindT {α β : Type} {m : M α} {f : α → M β} {Q' : β → Prop} (hm : MLenQ m (fun _ => True))
    (hf : ∀ a, MLenQ (f a) Q') : MLenQ (m >>= f) Q' := MLenQ.bind hm fun a _ => hf a

theorem mlen_withVol (vi : Nat) {α : Type} {f : F α} (hf : Len f) : MLenQ (Model.withVol vi f) (fun _ => True) :=
  MLenQ.withVol vi hf fun _ _ _ => trivial

/-- One step of decomposing a goal `MLenQ _ (fun _ => True)`. -/
macro "mlen_step" : tactic => `(tactic| first
  | with_reducible first
    | apply_hyp
    | exact MLenQ.pure _ trivial
    | exact MLenQ.fail _
    | exact mlen_getFileById _
    | exact mlen_getVolumeById _
    | exact mlen_getFile _
    | exact mlen_modifyFile _ _
    | exact mlen_get
    | apply MLenQ.bindT
  | intro_pi
  | dsimp only
  | split)

macro "mlen_auto" : tactic => `(tactic| repeat mlen_step)

/-! ### The engine pieces of `write` -/

theorem walkClusters_len (bpc : Nat) : ∀ (n : Nat) (st : Nat × Nat), Len (walkClusters bpc n st) := by
  have := Lemmas.FaultInv.nextCluster_len
  intro n
  induction n with
  | zero => intro st; unfold walkClusters; len_auto
  | succ n ih => intro st; unfold walkClusters; len_auto

theorem findDataOnDisk_len (a b : Nat) (st : Nat × Nat) : Len (findDataOnDisk a b st) := by
  have := walkClusters_len
  unfold findDataOnDisk; len_auto

/-- The block offset and the available bytes `find_data_on_disk` answers add up to the block length. -/
theorem findDataOnDisk_avail (a b : Nat) (st : Nat × Nat) (s : FS) (cc : Nat × Nat) (x : Nat × Nat × Nat)
    (h : (findDataOnDisk a b st s).1 = .ok (cc, .ok x)) : x.2.1 + x.2.2 = 512 := by
  by_cases hb : bytesPerCluster s.vol = 0
  · unfold findDataOnDisk at h
    simp only [bind, F.bind', F.getVol, hb, if_true, F.panic] at h
    cases h
  · obtain ⟨st', r', s', _, heq, _⟩ := Files.find_data_eq a b st s hb
    rw [heq] at h
    simp only [Res.ok.injEq, Prod.mk.injEq] at h
    obtain ⟨_, h2⟩ := h
    cases r' with
    | ok u =>
      have : x = (clusterToBlock s.vol st'.2 + (b - st'.1) / 512, b % 512, 512 - b % 512) := (Res.ok.inj h2).symm
      rw [this]
      show b % 512 + (512 - b % 512) = 512
      have := Nat.mod_lt b (show 512 > 0 by decide)
      omega
    | err e => cases h2
    | panic m => cases h2
    | diverged => cases h2

theorem writeBlockPart_len (bi bo : Nat) (data : Bytes) (whole : Bool) (h : bo + data.length ≤ 512) :
    Len (writeBlockPart bi bo data whole) := by
  have hm : Len (cacheModify fun b => splice b bo data) :=
    Len.cacheModify _ fun blk hl => by rw [FatLens.splice_length _ _ _ (by rw [hl]; exact h), hl]
  unfold writeBlockPart
  len_auto

theorem res_bind_err_not_ok {α β : Type} (r : Res α) (e : Err) (b : β) : (r.bind fun _ => (Res.err e : Res β)) ≠ .ok b := by
  cases r <;> intro h <;> cases h

/-! ### `write` -/

/-- The answer of `find_data_on_disk` as `write` receives it. -/
def AvailOK (p : (Nat × Nat) × Res (Nat × Nat × Nat)) : Prop := ∀ x, p.2 = .ok x → x.2.1 + x.2.2 = 512

theorem mlen_find (vi a b : Nat) (st : Nat × Nat) :
    MLenQ (M.attempt (Model.withVol vi (findDataOnDisk a b st))) (fun r => ∀ p, r = .ok p → AvailOK p) :=
  MLenQ.attempt (MLenQ.withVol vi (findDataOnDisk_len a b st) fun fs p hp x hx => by
    obtain ⟨cc, r⟩ := p
    simp only at hx
    subst hx
    exact findDataOnDisk_avail a b st fs cc x hp)

theorem writeLoop_mlen (fi vi : Nat) : ∀ (fuel : Nat) (buffer : Bytes), MLenQ (writeLoop fi vi fuel buffer) (fun _ => True) := by
  intro fuel
  induction fuel with
  | zero => intro buffer; unfold writeLoop; exact MLenQ.pure _ trivial
  | succ n ih =>
    intro buffer
    unfold writeLoop
    split
    · exact MLenQ.pure _ trivial
    · refine MLenQ.bind (mlen_getFile fi) fun f _ => ?_
      refine MLenQ.bind (mlen_find vi _ _ _) fun r hr => ?_
      refine MLenQ.bind (Q := fun p => p.2.2.1 + p.2.2.2 = 512) ?_ fun p hp => ?_
      · split
        · next cc x => exact MLenQ.pure _ (hr _ rfl x rfl)
        · next cc =>
          refine MLenQ.bind (MLenQ.attempt (MLenQ.withVol (Q := fun _ => True) vi
            (Lemmas.FaultInv.allocCluster_len _ _) fun _ _ _ => trivial)) fun ra _ => ?_
          split
          · refine MLenQ.bind (mlen_find vi _ _ _) fun r2 hr2 => ?_
            split
            · next cc2 x => exact MLenQ.pure _ (hr2 _ rfl x rfl)
            · exact MLenQ.fail _
            · exact MLenQ.lift _ fun a ha => absurd ha (res_bind_err_not_ok _ _ _)
            · exact MLenQ.lift _ fun a ha => absurd ha (res_bind_err_not_ok _ _ _)
          · exact MLenQ.fail _
          · exact MLenQ.lift _ fun a ha => absurd ha (res_bind_err_not_ok _ _ _)
        · exact MLenQ.lift _ fun a ha => absurd ha (res_bind_err_not_ok _ _ _)
        · exact MLenQ.lift _ fun a ha => absurd ha (res_bind_err_not_ok _ _ _)
      · obtain ⟨cc, bi, bo, ba⟩ := p
        simp only at hp
        dsimp only
        refine MLenQ.bind (MLenQ.withVol (Q := fun _ => True) vi (writeBlockPart_len _ _ _ _ ?_) fun _ _ _ => trivial)
          fun _ _ => ?_
        · rw [List.length_take]; omega
        · exact MLenQ.bind (mlen_modifyFile _ _) fun _ _ => ih _

/-- **`write` keeps 512-byte blocks**, from any state, under any fault schedule. -/
theorem write_mlen (file : Nat) (buffer : Bytes) : MLenQ (Model.write file buffer) (fun _ => True) := by
  have h1 := writeLoop_mlen
  have h2 : ∀ (vi : Nat) (p : Option Nat) (z : Bool), MLenQ (Model.withVol vi (allocCluster p z)) (fun _ => True) :=
    fun vi p z => mlen_withVol vi (Lemmas.FaultInv.allocCluster_len p z)
  unfold Model.write
  mlen_auto

/-- … through `step`: from a medium of 512-byte blocks and a coherent cache. -/
theorem step_write_blocksOK {s : Mgr} (hl : s.locked = false) (hb : BlocksOK s.dev.disk)
    (hc : ∀ i, s.cache.tag = some i → s.cache.blk = s.dev.disk.get i) (f : Nat) (d : Bytes) :
    BlocksOK (Model.step s (.write f d)).1.dev.disk := by
  have e : (Model.step s (.write f d)).1 = (Model.write f d (resetLogs s)).2 := by
    rw [step_unlocked s _ hl]
    exact Lemmas.VolApi.seq_state (Model.write f d) Payload.unit _
  rw [e]
  exact ((write_mlen f d (resetLogs s) ⟨hb, fun i hi => by
    have : s.cache.blk = s.dev.disk.get i := hc i hi
    show s.cache.blk.length = 512
    rw [this]; exact hb i⟩).1).1

end Sdmmc.Lemmas.VolNFault
