/-
Bridging lemmas for `Props/C11Main.lean`: the one-call theorems of `Props.C11Inv` (stated there for `step (withFaults L s0) op`,
`s0` fault free) restated for `step s op` from ANY state `s` satisfying the invariant up to its pending schedule
(`VolInvF s gh`: `s = withFaults s.dev.faults (clearFaults s)`), and the prefix form of the class-A history invariant
with the agreement of the FAT copies.
-/
import Sdmmc.Props.C11Hist

namespace Sdmmc.Lemmas.MainC11
open Sdmmc.Model Sdmmc.Model.Fat Sdmmc.Spec.Volume
open Sdmmc.Spec hiding run step NoFault Coherent
open Sdmmc.Props
open Sdmmc.Props.C11Inv (withFaults Covered NamesOK retryOp prefixOp DirsSound)
open Sdmmc.Props.C11Hist (CoveredRun FailsOnlyIn classA)
open Sdmmc.Lemmas.WriteSetInv (LicenceFor NotNamed)

/-- A state is itself with its own schedule put back. -/
theorem withFaults_clear (s : Mgr) : withFaults s.dev.faults (clearFaults s) = s := rfl

theorem namesOK_of_covered {s : Mgr} {op : Op} (h : Covered s op) : NamesOK op := by
  cases op <;> first | exact h | exact trivial

/-- `Props.C11Inv.names_unique_after_fault` from a state with a pending schedule. -/
theorem names_F {s : Mgr} {gh : Ghost} (hI : VolInvF s gh) (op : Op) (hc : NamesOK op) :
    ∃ G', DirsSound gh.vol (step s op).1.dev.disk { vol := gh.vol, G := G', dirs := gh.dirs } :=
  C11Inv.names_unique_after_fault (s0 := clearFaults s) hI s.dev.faults op hc

/-- `Props.C11Inv.faulted_step`. -/
theorem survives_F {s : Mgr} {gh : Ghost} (hI : VolInvF s gh) (op : Op) (hc : Covered s op) :
    ∃ gh', SameGeom gh.vol gh'.vol ∧ C11Inv.FaultInv (step s op).1 gh' :=
  (C11Inv.faulted_step (s0 := clearFaults s) hI s.dev.faults op (by cases op <;> exact hc)).2

/-- `Props.C11Inv.retry_after_fault_correct`. -/
theorem retry_F {s : Mgr} {gh : Ghost} (hI : VolInvF s gh) (hvol : s.vols ≠ []) (op : Op) (hop : retryOp op = true)
    (hfail : (step s op).1.dev.failed ≠ s.dev.failed) :
    (step (clearFaults (step s op).1) op).2.result = (step (clearFaults s) op).2.result :=
  C11Inv.retry_after_fault_correct (s0 := clearFaults s) hI hvol s.dev.faults op hop hfail

/-- `Props.C11Inv.others_intact_after_fault`. -/
theorem others_F {s : Mgr} {gh : Ghost} (hI : VolInvF s gh) (hm : Mirror gh.vol s.dev.disk) (op : Op)
    (hop : prefixOp op = true) (hc : NamesOK op) :
    ∃ Lic, LicenceFor gh s.files s.dirs s.dev.disk op Lic ∧ AllLicensed gh.vol s.dev.disk Lic (step s op).2.writes ∧
      ∀ (sb so c : Nat) (cs : List Nat), Chain gh.vol s.dev.disk c cs →
        (regionOf gh.vol sb = .root ∨ regionOf gh.vol sb = .data) → so % 32 = 0 → NotNamed gh.vol Lic sb so cs →
        slice ((step s op).1.dev.disk.get sb) so 32 = slice (s.dev.disk.get sb) so 32 ∧
        Chain gh.vol (step s op).1.dev.disk c cs ∧
        chainBytes gh.vol (step s op).1.dev.disk cs = chainBytes gh.vol s.dev.disk cs :=
  C11Inv.others_intact_after_fault (s0 := clearFaults s) ⟨hI, hm⟩ s.dev.faults op hop hc

/-- `Props.C11Inv.others_intact_after_failed_write`. -/
theorem others_write_F {s : Mgr} {gh : Ghost} (hI : VolInvF s gh) (h : Nat) (data : Bytes) :
    (∀ X, X ∈ gh.G → X ≠ C11Inv.ownChain s gh h →
      Chain gh.vol (step s (.write h data)).1.dev.disk (X.headD 0) X ∧
      chainBytes gh.vol (step s (.write h data)).1.dev.disk X = chainBytes gh.vol s.dev.disk X) ∧
    (∀ b, regionOf gh.vol b = .root → (step s (.write h data)).1.dev.disk.get b = s.dev.disk.get b) :=
  C11Inv.others_intact_after_failed_write (s0 := clearFaults s) hI s.dev.faults h data

/-! ### Prefixes of class-A histories -/

theorem coveredRun_take : ∀ (ops : List Op) (s : Mgr), CoveredRun s ops → ∀ k, CoveredRun s (ops.take k)
  | [], _, _, k => by rw [List.take_nil]; trivial
  | _ :: _, _, _, 0 => trivial
  | _ :: ops, _, h, k + 1 => ⟨h.1, coveredRun_take ops _ h.2 k⟩

theorem failsOnlyIn_take (P : Op → Bool) : ∀ (ops : List Op) (s : Mgr), FailsOnlyIn P s ops → ∀ k, FailsOnlyIn P s (ops.take k)
  | [], _, _, k => by rw [List.take_nil]; trivial
  | _ :: _, _, _, 0 => trivial
  | _ :: ops, _, h, k + 1 => ⟨h.1, failsOnlyIn_take P ops _ h.2 k⟩

/-- After every prefix of a covered history whose device failures fall in class-A calls: the invariant up to the
schedule AND identical FAT copies, for a ghost of the same geometry. -/
theorem prefix_inv_mirror (ops : List Op) {s : Mgr} {gh : Ghost} (hI : VolInvF s gh) (hm : Mirror gh.vol s.dev.disk)
    (hc : CoveredRun s ops) (hf : FailsOnlyIn classA s ops) (k : Nat) :
    ∃ gh', VolInvF (run s (ops.take k)).1 gh' ∧ Mirror gh'.vol (run s (ops.take k)).1.dev.disk ∧ SameGeom gh.vol gh'.vol := by
  have hI' : VolInv (Lemmas.Retry.mclr s) gh := hI
  obtain ⟨_, _, gh', h1, h2, h3⟩ := Lemmas.FaultHist.runLicF_of_classA gh.vol (ops.take k) hI' hm (SameGeom.refl _)
    ((C11Hist.coveredRun_iff _ s).1 (coveredRun_take ops s hc k))
    ((C11Hist.failsOnlyIn_iff _ s).1 (failsOnlyIn_take classA ops s hf k))
  exact ⟨gh', h1, h2, h3⟩

end Sdmmc.Lemmas.MainC11
