/-
Lemmas for C15 (mounting): totality of `mountPure`, the BPB field table, the layout
formulas, FAT type boundaries, information-sector sentinels, partition-table rules.
-/
import Sdmmc.Model.Mount
import Sdmmc.Spec.FatLayout

namespace Sdmmc.Lemmas.C15
open Sdmmc.Model Sdmmc.Spec.FatLayout Sdmmc.Gen

/-- Well-formedness of a field set is decidable (a conjunction of decidable comparisons), so concrete
instances can be checked by `decide`. -/
instance instDecidableWFBpb (b : BpbFields) : Decidable (WFBpb b) := by
  delta WFBpb; infer_instance

/-! ### Outcomes that are neither `panic` nor `diverged` -/

/-- The outcome is a value or an error. -/
def NoPanic {α : Type} (r : Res α) : Prop := (∃ a, r = .ok a) ∨ (∃ e, r = .err e)

theorem NoPanic.ok {α} (a : α) : NoPanic (Res.ok a) := .inl ⟨a, rfl⟩
theorem NoPanic.err {α} (e : Err) : NoPanic (Res.err e : Res α) := .inr ⟨e, rfl⟩

theorem NoPanic.bind {α β} {r : Res α} {f : α → Res β} (hr : NoPanic r)
    (hf : ∀ a, r = .ok a → NoPanic (f a)) : NoPanic (r >>= f) := by
  rcases hr with ⟨a, rfl⟩ | ⟨e, rfl⟩
  · simpa using hf a rfl
  · simpa using NoPanic.err e

/-! ### Byte codecs: ranges and slices -/

theorem byteAt_lt (b : Bytes) (i : Nat) : byteAt b i < 256 := UInt8.toNat_lt _

theorem readU16_lt (b : Bytes) (i : Nat) : readU16 b i < 65536 := by
  have h0 := byteAt_lt b i
  have h1 := byteAt_lt b (i + 1)
  unfold readU16; omega

theorem readU32_lt (b : Bytes) (i : Nat) : readU32 b i < 4294967296 := by
  have h0 := byteAt_lt b i
  have h1 := byteAt_lt b (i + 1)
  have h2 := byteAt_lt b (i + 2)
  have h3 := byteAt_lt b (i + 3)
  unfold readU32; omega

theorem byteAt_slice (b : Bytes) (off n i : Nat) (h : i < n) :
    byteAt (slice b off n) i = byteAt b (off + i) := by
  simp [byteAt, slice, List.getD_eq_getElem?_getD, List.getElem?_drop, h]

theorem readU32_slice (b : Bytes) (off n i : Nat) (h : i + 3 < n) :
    readU32 (slice b off n) i = readU32 b (off + i) := by
  unfold readU32
  rw [byteAt_slice b off n i (by omega), byteAt_slice b off n (i + 1) (by omega),
    byteAt_slice b off n (i + 2) (by omega), byteAt_slice b off n (i + 3) (by omega)]
  simp only [Nat.add_assoc]

/-! ### The generated field table -/

theorem bytesPerBlock_eq (d : Bytes) : Bpb.bytesPerBlock d = readU16 d 11 := rfl
theorem blocksPerCluster_eq (d : Bytes) : Bpb.blocksPerCluster d = byteAt d 13 := rfl
theorem reservedBlockCount_eq (d : Bytes) : Bpb.reservedBlockCount d = readU16 d 14 := rfl
theorem numFats_eq (d : Bytes) : Bpb.numFats d = byteAt d 16 := rfl
theorem rootEntriesCount_eq (d : Bytes) : Bpb.rootEntriesCount d = readU16 d 17 := rfl
theorem totalBlocks16_eq (d : Bytes) : Bpb.totalBlocks16 d = readU16 d 19 := rfl
theorem fatSize16_eq (d : Bytes) : Bpb.fatSize16 d = readU16 d 22 := rfl
theorem totalBlocks32_eq (d : Bytes) : Bpb.totalBlocks32 d = readU32 d 32 := rfl
theorem fatSize32_eq (d : Bytes) : Bpb.fatSize32 d = readU32 d 36 := rfl
theorem fsVer_eq (d : Bytes) : Bpb.fsVer d = readU16 d 42 := rfl
theorem firstRootDirCluster_eq (d : Bytes) : Bpb.firstRootDirCluster d = readU32 d 44 := rfl
theorem fsInfo_eq (d : Bytes) : Bpb.fsInfo d = readU16 d 48 := rfl
theorem footer_eq (d : Bytes) : Bpb.footer d = readU16 d 510 := rfl

theorem leadSig_eq (d : Bytes) : Info.leadSig d = readU32 d 0 := rfl
theorem strucSig_eq (d : Bytes) : Info.strucSig d = readU32 d 484 := rfl
theorem freeCount_eq (d : Bytes) : Info.freeCount d = readU32 d 488 := rfl
theorem nextFree_eq (d : Bytes) : Info.nextFree d = readU32 d 492 := rfl
theorem trailSig_eq (d : Bytes) : Info.trailSig d = readU32 d 508 := rfl

/-- The BPB fields of a boot sector, as the specification names them (same definition as
`Sdmmc.Props.C15.fieldsOf`). -/
def fieldsOf (bpb : Bytes) : BpbFields :=
  { bytsPerSec := readU16 bpb 11, secPerClus := byteAt bpb 13, rsvdSecCnt := readU16 bpb 14, numFATs := byteAt bpb 16,
    rootEntCnt := readU16 bpb 17, totSec16 := readU16 bpb 19, fatSz16 := readU16 bpb 22, totSec32 := readU32 bpb 32,
    fatSz32 := readU32 bpb 36, fsVer := readU16 bpb 42, rootClus := readU32 bpb 44, fsInfo := readU16 bpb 48 }

theorem bpb_field_table (bpb : Bytes) :
    Bpb.bytesPerBlock bpb = (fieldsOf bpb).bytsPerSec ∧ Bpb.blocksPerCluster bpb = (fieldsOf bpb).secPerClus ∧
    Bpb.reservedBlockCount bpb = (fieldsOf bpb).rsvdSecCnt ∧ Bpb.numFats bpb = (fieldsOf bpb).numFATs ∧
    Bpb.rootEntriesCount bpb = (fieldsOf bpb).rootEntCnt ∧ Bpb.totalBlocks16 bpb = (fieldsOf bpb).totSec16 ∧
    Bpb.fatSize16 bpb = (fieldsOf bpb).fatSz16 ∧ Bpb.totalBlocks32 bpb = (fieldsOf bpb).totSec32 ∧
    Bpb.fatSize32 bpb = (fieldsOf bpb).fatSz32 ∧ Bpb.fsVer bpb = (fieldsOf bpb).fsVer ∧
    Bpb.firstRootDirCluster bpb = (fieldsOf bpb).rootClus ∧ Bpb.fsInfo bpb = (fieldsOf bpb).fsInfo ∧
    Bpb.footer bpb = readU16 bpb 510 :=
  ⟨rfl, rfl, rfl, rfl, rfl, rfl, rfl, rfl, rfl, rfl, rfl, rfl, rfl⟩

/-! ### `Bpb::create_from_bytes` -/

theorem blockCountFromBytes_eq (n : Nat) : blockCountFromBytes n = (n + 511) / 512 := by
  show (if n / 512 * 512 ≠ n then n / 512 + 1 else n / 512) = (n + 511) / 512
  split <;> omega

/-- `non_data_blocks` of `create_from_bytes`. -/
def nonData (d : Bytes) : Nat :=
  Bpb.numFats d * Bpb.fatSize d + Bpb.reservedBlockCount d + (Bpb.rootEntriesCount d * 32 + 511) / 512

theorem createFromBytes_noPanic (d : Bytes) : NoPanic (Bpb.createFromBytes d) := by
  simp only [Bpb.createFromBytes]
  repeat' split
  all_goals first | exact NoPanic.ok _ | exact NoPanic.err _

/-- Everything a successful `create_from_bytes` has checked. -/
theorem createFromBytes_ok {d : Bytes} {ft : FatType} {cc : Nat} (h : Bpb.createFromBytes d = .ok (ft, cc)) :
    Bpb.footer d = 43605 ∧ nonData d ≤ 4294967295 ∧ nonData d ≤ Bpb.totalBlocks d ∧
    Bpb.blocksPerCluster d ≠ 0 ∧ cc = (Bpb.totalBlocks d - nonData d) / Bpb.blocksPerCluster d ∧
    4085 ≤ cc ∧ ((ft = .fat16 ∧ cc < 65525) ∨ (ft = .fat32 ∧ 65525 ≤ cc ∧ Bpb.fsVer d = 0)) := by
  simp only [Bpb.createFromBytes, blockCountFromBytes_eq, BPB_FOOTER_VALUE, DIRENT_LEN, U32_MAX,
    FAT12_LIMIT, FAT16_LIMIT] at h
  unfold nonData
  repeat' split at h
  all_goals first | (cases h; done) | skip
  all_goals
    simp only [Res.ok.injEq, Prod.mk.injEq] at h
    obtain ⟨rfl, rfl⟩ := h
    simp only [true_and, false_and, or_false, false_or, reduceCtorEq]
    omega

/-! ### `parse_volume`, boot-sector half -/

/-- The unchecked sums of `parse_volume` are all bounded by `nonData`. -/
theorem sums_le (d : Bytes) (h : nonData d ≤ 4294967295) :
    Bpb.numFats d * Bpb.fatSize d ≤ 4294967295 ∧
    Bpb.reservedBlockCount d + Bpb.numFats d * Bpb.fatSize d ≤ 4294967295 ∧
    Bpb.reservedBlockCount d + Bpb.numFats d * Bpb.fatSize d + (Bpb.rootEntriesCount d * 32 + 511) / 512 ≤ 4294967295 ∧
    (Bpb.numFats d = 2 → Bpb.reservedBlockCount d + Bpb.fatSize d ≤ 4294967295) := by
  unfold nonData at h
  refine ⟨by omega, by omega, by omega, fun h2 => ?_⟩
  rw [h2] at h
  omega

/-- The FAT16 volume `parse_volume` builds. -/
def vol16 (bpb : Bytes) (lba nb cc : Nat) : FatVolume :=
  { lbaStart := lba, numBlocks := nb, name := Bpb.volumeLabel .fat16 bpb
    blocksPerCluster := Bpb.blocksPerCluster bpb
    firstDataBlock := Bpb.reservedBlockCount bpb + Bpb.numFats bpb * Bpb.fatSize bpb + (Bpb.rootEntriesCount bpb * 32 + 511) / 512
    fatStart := Bpb.reservedBlockCount bpb
    secondFatStart := if Bpb.numFats bpb = 2 then some (Bpb.reservedBlockCount bpb + Bpb.fatSize bpb) else none
    freeClustersCount := none, nextFreeCluster := none, clusterCount := cc, fatType := .fat16
    rootEntriesCount := Bpb.rootEntriesCount bpb
    firstRootDirBlock := Bpb.reservedBlockCount bpb + Bpb.numFats bpb * Bpb.fatSize bpb
    infoLocation := 0, firstRootDirCluster := 0 }

/-- The FAT32 volume `parse_volume` builds (before the information sector is merged). -/
def vol32 (bpb : Bytes) (lba nb cc : Nat) : FatVolume :=
  { lbaStart := lba, numBlocks := nb, name := Bpb.volumeLabel .fat32 bpb
    blocksPerCluster := Bpb.blocksPerCluster bpb
    firstDataBlock := Bpb.reservedBlockCount bpb + Bpb.numFats bpb * Bpb.fatSize bpb
    fatStart := Bpb.reservedBlockCount bpb
    secondFatStart := if Bpb.numFats bpb = 2 then some (Bpb.reservedBlockCount bpb + Bpb.fatSize bpb) else none
    freeClustersCount := none, nextFreeCluster := none, clusterCount := cc, fatType := .fat32
    rootEntriesCount := 0, firstRootDirBlock := 0
    infoLocation := lba + Bpb.fsInfo bpb, firstRootDirCluster := Bpb.firstRootDirCluster bpb }

theorem addU32_ok {a b : Nat} (h : a + b ≤ 4294967295) : addU32 a b = .ok (a + b) := by
  unfold addU32; exact if_pos h

theorem mulU32_ok {a b : Nat} (h : a * b ≤ 4294967295) : mulU32 a b = .ok (a * b) := by
  unfold mulU32; exact if_pos h

theorem second_eq (d : Bytes) (h : Bpb.numFats d = 2 → Bpb.reservedBlockCount d + Bpb.fatSize d ≤ 4294967295) :
    (if Bpb.numFats d = 2 then (addU32 (Bpb.reservedBlockCount d) (Bpb.fatSize d) >>= fun s => Res.ok (some s))
      else Res.ok none : Res (Option Nat)) =
    .ok (if Bpb.numFats d = 2 then some (Bpb.reservedBlockCount d + Bpb.fatSize d) else none) := by
  by_cases hn : Bpb.numFats d = 2
  · rw [if_pos hn, if_pos hn, addU32_ok (h hn)]; rfl
  · rw [if_neg hn, if_neg hn]

theorem parseVolumeBpb_fat16 {bpb : Bytes} {cc : Nat} (lba nb : Nat)
    (hc : Bpb.createFromBytes bpb = .ok (.fat16, cc)) :
    parseVolumeBpb bpb lba nb =
      if Bpb.bytesPerBlock bpb ≠ 512 then .err (.BadBlockSize (Bpb.bytesPerBlock bpb))
      else .ok (vol16 bpb lba nb cc) := by
  obtain ⟨h1, h2, h3, h4⟩ := sums_le bpb (createFromBytes_ok hc).2.1
  have h3' : Bpb.reservedBlockCount bpb + Bpb.numFats bpb * Bpb.fatSize bpb +
      (Bpb.rootEntriesCount bpb * DIRENT_LEN + (BLOCK_LEN_U32 - 1)) / BLOCK_LEN_U32 ≤ 4294967295 := h3
  simp only [parseVolumeBpb, hc, Res.bind_ok, second_eq bpb h4, mulU32_ok h1, addU32_ok h2, addU32_ok h3',
    Res.pure_eq]
  rfl

theorem parseVolumeBpb_fat32 {bpb : Bytes} {cc : Nat} (lba nb : Nat)
    (hc : Bpb.createFromBytes bpb = .ok (.fat32, cc)) :
    parseVolumeBpb bpb lba nb =
      if lba + Bpb.fsInfo bpb > 4294967295 then .err (.FormatError "Info sector out of range")
      else .ok (vol32 bpb lba nb cc) := by
  obtain ⟨h1, h2, h3, h4⟩ := sums_le bpb (createFromBytes_ok hc).2.1
  simp only [parseVolumeBpb, hc, Res.bind_ok, second_eq bpb h4, mulU32_ok h1, addU32_ok h2,
    Res.pure_eq]
  rfl

theorem parseVolumeBpb_noPanic (bpb : Bytes) (lba nb : Nat) : NoPanic (parseVolumeBpb bpb lba nb) := by
  rcases createFromBytes_noPanic bpb with ⟨⟨ft, cc⟩, hc⟩ | ⟨e, hc⟩
  · cases ft
    · rw [parseVolumeBpb_fat16 lba nb hc]
      split
      · exact NoPanic.err _
      · exact NoPanic.ok _
    · rw [parseVolumeBpb_fat32 lba nb hc]
      split
      · exact NoPanic.err _
      · exact NoPanic.ok _
  · have : parseVolumeBpb bpb lba nb = .err e := by
      simp only [parseVolumeBpb, hc, Res.bind_err]
    rw [this]; exact NoPanic.err _

/-! ### Information sector -/

theorem infoParse_noPanic (d : Bytes) : NoPanic (Info.parse d) := by
  unfold Info.parse
  repeat' split
  all_goals first | exact NoPanic.ok _ | exact NoPanic.err _

theorem parseVolumeInfo_noPanic (v : FatVolume) (d : Bytes) : NoPanic (parseVolumeInfo v d) := by
  unfold parseVolumeInfo
  refine NoPanic.bind (infoParse_noPanic d) ?_
  rintro ⟨fc, nf⟩ _
  exact NoPanic.ok _

theorem infoParse_eq (d : Bytes) : Info.parse d =
    if readU32 d 0 ≠ 1096897106 then .err (.FormatError "Bad lead signature on InfoSector")
    else if readU32 d 484 ≠ 1631679090 then .err (.FormatError "Bad struc signature on InfoSector")
    else if readU32 d 508 ≠ 2857697280 then .err (.FormatError "Bad trail signature on InfoSector")
    else .ok (if readU32 d 488 = 0xFFFFFFFF then none else some (readU32 d 488),
              if readU32 d 492 = 0xFFFFFFFF ∨ readU32 d 492 = 0 ∨ readU32 d 492 = 1 then none else some (readU32 d 492)) :=
  rfl

theorem info_sentinels (info : Bytes) :
    (readU32 info 0 = 0x41615252 ∧ readU32 info 484 = 0x61417272 ∧ readU32 info 508 = 0xAA550000 →
      Info.parse info = .ok
        (if readU32 info 488 = 0xFFFFFFFF then none else some (readU32 info 488),
         if readU32 info 492 = 0xFFFFFFFF ∨ readU32 info 492 = 0 ∨ readU32 info 492 = 1 then none else some (readU32 info 492))) ∧
    (¬ (readU32 info 0 = 0x41615252 ∧ readU32 info 484 = 0x61417272 ∧ readU32 info 508 = 0xAA550000) →
      ∃ m, Info.parse info = .err (.FormatError m)) := by
  rw [infoParse_eq]
  constructor
  · rintro ⟨h1, h2, h3⟩
    rw [if_neg (not_not_intro h1), if_neg (not_not_intro h2), if_neg (not_not_intro h3)]
  · intro h
    by_cases h1 : readU32 info 0 = 1096897106
    · by_cases h2 : readU32 info 484 = 1631679090
      · have h3 : readU32 info 508 ≠ 2857697280 := fun h3 => h ⟨h1, h2, h3⟩
        rw [if_neg (not_not_intro h1), if_neg (not_not_intro h2), if_pos h3]
        exact ⟨_, rfl⟩
      · rw [if_neg (not_not_intro h1), if_pos h2]
        exact ⟨_, rfl⟩
    · rw [if_pos h1]
      exact ⟨_, rfl⟩

/-! ### Partition table -/

theorem parsePartition_noPanic (mbr : Bytes) (idx : Nat) : NoPanic (parsePartition mbr idx) := by
  simp only [parsePartition]
  repeat' split
  all_goals first | exact NoPanic.ok _ | exact NoPanic.err _

theorem supported_eq (t : Nat) : supportedPartitionType t =
    (decide (t = 11) || decide (t = 12) || decide (t = 14) || decide (t = 6) || decide (t = 4)) := rfl

theorem supported_iff (t : Nat) : supportedPartitionType t = true ↔ t ∈ [0x04, 0x06, 0x0B, 0x0C, 0x0E] := by
  rw [supported_eq]
  simp only [Bool.or_eq_true, decide_eq_true_eq, List.mem_cons, List.not_mem_nil, or_false]
  omega

/-- Offset of partition record `idx`. -/
def partStart (idx : Nat) : Option Nat :=
  if idx = 0 then some 446 else if idx = 1 then some 462 else if idx = 2 then some 478
  else if idx = 3 then some 494 else none

theorem parsePartition_eq (mbr : Bytes) (idx : Nat) : parsePartition mbr idx =
    if readU16 mbr 510 ≠ 43605 then .err (.FormatError "Invalid MBR signature") else
    match partStart idx with
    | none => .err .NoSuchVolume
    | some start =>
      if byteAt (slice mbr start 16) 0 % 128 ≠ 0 then .err (.FormatError "Invalid partition status") else
      .ok (byteAt (slice mbr start 16) 4, readU32 (slice mbr start 16) 8, readU32 (slice mbr start 16) 12) := rfl

theorem parsePartition_ok (mbr : Bytes) (idx start : Nat) (hsig : readU16 mbr 510 = 0xAA55)
    (hstart : partStart idx = some start) (hst : byteAt mbr start % 128 = 0) :
    parsePartition mbr idx = .ok (byteAt mbr (start + 4), readU32 mbr (start + 8), readU32 mbr (start + 12)) := by
  rw [parsePartition_eq, if_neg (not_not_intro hsig), hstart]
  simp only [byteAt_slice mbr start 16 0 (by omega), byteAt_slice mbr start 16 4 (by omega),
    readU32_slice mbr start 16 8 (by omega), readU32_slice mbr start 16 12 (by omega), Nat.add_zero]
  rw [if_neg (not_not_intro hst)]

theorem mbr_rules (mbr : Bytes) (idx : Nat) :
    (readU16 mbr 510 ≠ 0xAA55 → ∃ m, parsePartition mbr idx = .err (.FormatError m)) ∧
    (readU16 mbr 510 = 0xAA55 → 3 < idx → parsePartition mbr idx = .err .NoSuchVolume) ∧
    (readU16 mbr 510 = 0xAA55 → idx ≤ 3 → mbr.length = 512 → byteAt mbr (446 + 16 * idx) % 128 = 0 →
      parsePartition mbr idx = .ok (byteAt mbr (446 + 16 * idx + 4), readU32 mbr (446 + 16 * idx + 8), readU32 mbr (446 + 16 * idx + 12))) ∧
    (∀ t, supportedPartitionType t = true ↔ t ∈ [0x04, 0x06, 0x0B, 0x0C, 0x0E]) := by
  refine ⟨fun h => ?_, fun hsig hi => ?_, fun hsig hi _ hst => ?_, supported_iff⟩
  · rw [parsePartition_eq, if_pos h]
    exact ⟨_, rfl⟩
  · have hp : partStart idx = none := by
      unfold partStart
      rw [if_neg (by omega), if_neg (by omega), if_neg (by omega), if_neg (by omega)]
    rw [parsePartition_eq, if_neg (not_not_intro hsig), hp]
  · have hp : partStart idx = some (446 + 16 * idx) := by
      have : idx = 0 ∨ idx = 1 ∨ idx = 2 ∨ idx = 3 := by omega
      rcases this with rfl | rfl | rfl | rfl <;> rfl
    exact parsePartition_ok mbr idx _ hsig hp hst

/-! ### Totality of mounting -/

theorem mountPure_noPanic (mbr : Bytes) (idx : Nat) (fetch : Nat → Bytes) : NoPanic (mountPure mbr idx fetch) := by
  unfold mountPure
  refine NoPanic.bind (parsePartition_noPanic mbr idx) ?_
  rintro ⟨ptype, lba, nb⟩ _
  dsimp only
  split
  · exact NoPanic.err _
  · refine NoPanic.bind (parseVolumeBpb_noPanic _ _ _) ?_
    intro v _
    split
    · exact NoPanic.ok _
    · exact parseVolumeInfo_noPanic _ _

theorem mount_total (mbr : Bytes) (idx : Nat) (fetch : Nat → Bytes) :
    (∃ v, mountPure mbr idx fetch = .ok v) ∨ (∃ e, mountPure mbr idx fetch = .err e) :=
  mountPure_noPanic mbr idx fetch

/-! ### Model quantities against the specification's formulas -/

theorem fatSize_eq (d : Bytes) : Bpb.fatSize d = fatSz (fieldsOf d) := rfl
theorem totalBlocks_eq (d : Bytes) : Bpb.totalBlocks d = totSec (fieldsOf d) := rfl

theorem nonData_eq (d : Bytes) : nonData d = firstDataSector (fieldsOf d) := by
  show Bpb.numFats d * Bpb.fatSize d + Bpb.reservedBlockCount d + (Bpb.rootEntriesCount d * 32 + 511) / 512 =
    Bpb.reservedBlockCount d + Bpb.numFats d * Bpb.fatSize d + (Bpb.rootEntriesCount d * 32 + 511) / 512
  omega

theorem clusters_eq (d : Bytes) :
    (Bpb.totalBlocks d - nonData d) / Bpb.blocksPerCluster d = countOfClusters (fieldsOf d) := by
  rw [nonData_eq]; rfl

theorem fat_type_boundaries (bpb : Bytes) (ft : FatType) (cc : Nat) (h : Bpb.createFromBytes bpb = .ok (ft, cc)) :
    4085 ≤ cc ∧ (ft = .fat16 ↔ cc < 65525) ∧ (ft = .fat32 ↔ 65525 ≤ cc) ∧
    cc = countOfClusters (fieldsOf bpb) := by
  obtain ⟨_, _, _, _, hcc, h4085, hk⟩ := createFromBytes_ok h
  refine ⟨h4085, ?_, ?_, by rw [hcc, clusters_eq]⟩
  · rcases hk with ⟨rfl, hlt⟩ | ⟨rfl, hge, _⟩
    · exact ⟨fun _ => hlt, fun _ => rfl⟩
    · exact ⟨fun hft => (by cases hft), fun hlt => by omega⟩
  · rcases hk with ⟨rfl, hlt⟩ | ⟨rfl, hge, _⟩
    · exact ⟨fun hft => (by cases hft), fun hge => by omega⟩
    · exact ⟨fun _ => hge, fun _ => rfl⟩

/-! ### Well-formed boot sectors mount where the specification says -/

theorem createFromBytes_eq (d : Bytes) : Bpb.createFromBytes d =
    if Bpb.footer d ≠ 43605 then .err (.FormatError "Bad BPB footer") else
    if Bpb.numFats d * Bpb.fatSize d > 4294967295 then .err (.FormatError "BPB layout too large") else
    if Bpb.numFats d * Bpb.fatSize d + Bpb.reservedBlockCount d > 4294967295 then .err (.FormatError "BPB layout too large") else
    if Bpb.numFats d * Bpb.fatSize d + Bpb.reservedBlockCount d + blockCountFromBytes (Bpb.rootEntriesCount d * 32) > 4294967295
      then .err (.FormatError "BPB layout too large") else
    if Bpb.totalBlocks d < Bpb.numFats d * Bpb.fatSize d + Bpb.reservedBlockCount d + blockCountFromBytes (Bpb.rootEntriesCount d * 32)
      then .err (.FormatError "BPB total blocks too small") else
    if Bpb.blocksPerCluster d = 0 then .err (.FormatError "BPB blocks per cluster is zero") else
    if (Bpb.totalBlocks d - (Bpb.numFats d * Bpb.fatSize d + Bpb.reservedBlockCount d +
          blockCountFromBytes (Bpb.rootEntriesCount d * 32))) / Bpb.blocksPerCluster d < 4085
      then .err (.FormatError "FAT12 is unsupported")
    else if (Bpb.totalBlocks d - (Bpb.numFats d * Bpb.fatSize d + Bpb.reservedBlockCount d +
          blockCountFromBytes (Bpb.rootEntriesCount d * 32))) / Bpb.blocksPerCluster d < 65525
      then .ok (.fat16, (Bpb.totalBlocks d - (Bpb.numFats d * Bpb.fatSize d + Bpb.reservedBlockCount d +
          blockCountFromBytes (Bpb.rootEntriesCount d * 32))) / Bpb.blocksPerCluster d)
    else if Bpb.fsVer d = 0
      then .ok (.fat32, (Bpb.totalBlocks d - (Bpb.numFats d * Bpb.fatSize d + Bpb.reservedBlockCount d +
          blockCountFromBytes (Bpb.rootEntriesCount d * 32))) / Bpb.blocksPerCluster d)
    else .err (.FormatError "Invalid FAT format") := rfl

/-- A boot sector that passes every check of `create_from_bytes`. -/
theorem createFromBytes_of (d : Bytes) (hf : Bpb.footer d = 43605) (h1 : nonData d ≤ 4294967295)
    (h2 : nonData d ≤ Bpb.totalBlocks d) (h3 : Bpb.blocksPerCluster d ≠ 0)
    (h4 : 4085 ≤ (Bpb.totalBlocks d - nonData d) / Bpb.blocksPerCluster d) :
    Bpb.createFromBytes d =
      if (Bpb.totalBlocks d - nonData d) / Bpb.blocksPerCluster d < 65525
        then .ok (.fat16, (Bpb.totalBlocks d - nonData d) / Bpb.blocksPerCluster d)
      else if Bpb.fsVer d = 0 then .ok (.fat32, (Bpb.totalBlocks d - nonData d) / Bpb.blocksPerCluster d)
      else .err (.FormatError "Invalid FAT format") := by
  rw [createFromBytes_eq, blockCountFromBytes_eq]
  unfold nonData at h1 h2 h4 ⊢
  rw [if_neg (not_not_intro hf), if_neg (by omega), if_neg (by omega), if_neg (by omega), if_neg (by omega),
    if_neg h3, if_neg (by omega)]

theorem mount_layout (bpb : Bytes) (lba nb : Nat) (hsig : readU16 bpb 510 = 0xAA55)
    (hwf : WFBpb (fieldsOf bpb)) (hlba : lba + (fieldsOf bpb).fsInfo ≤ 4294967295) :
    ∃ v, parseVolumeBpb bpb lba nb = .ok v ∧
      v.lbaStart = lba ∧ v.numBlocks = nb ∧
      v.blocksPerCluster = (fieldsOf bpb).secPerClus ∧
      v.fatStart = (fieldsOf bpb).rsvdSecCnt ∧
      v.secondFatStart = (if (fieldsOf bpb).numFATs = 2 then some ((fieldsOf bpb).rsvdSecCnt + fatSz (fieldsOf bpb)) else none) ∧
      v.firstDataBlock = firstDataSector (fieldsOf bpb) ∧
      v.clusterCount = countOfClusters (fieldsOf bpb) ∧
      (kind (fieldsOf bpb) = .fat16 →
        v.fatType = .fat16 ∧ v.rootEntriesCount = (fieldsOf bpb).rootEntCnt ∧
        v.firstRootDirBlock = (fieldsOf bpb).rsvdSecCnt + (fieldsOf bpb).numFATs * fatSz (fieldsOf bpb)) ∧
      (kind (fieldsOf bpb) = .fat32 →
        v.fatType = .fat32 ∧ v.firstRootDirCluster = (fieldsOf bpb).rootClus ∧
        v.infoLocation = lba + (fieldsOf bpb).fsInfo) := by
  obtain ⟨hbps, hspc, _, _, _, _, hts16, _, hts32, _, _, _, hfds, hcc, h32⟩ := hwf
  have hspc0 : Bpb.blocksPerCluster bpb ≠ 0 := by
    show (fieldsOf bpb).secPerClus ≠ 0
    intro h0; rw [h0] at hspc; simp at hspc
  have htot : totSec (fieldsOf bpb) < 4294967296 := by
    unfold totSec; split <;> omega
  have hnd : nonData bpb ≤ Bpb.totalBlocks bpb := by rw [nonData_eq, totalBlocks_eq]; exact hfds
  have hnd32 : nonData bpb ≤ 4294967295 := by rw [totalBlocks_eq] at hnd; omega
  have hcc' : 4085 ≤ (Bpb.totalBlocks bpb - nonData bpb) / Bpb.blocksPerCluster bpb := by
    rw [clusters_eq]; exact hcc
  have hcreate := createFromBytes_of bpb hsig hnd32 hnd hspc0 hcc'
  rw [clusters_eq] at hcreate
  by_cases hlt : countOfClusters (fieldsOf bpb) < 65525
  · -- FAT16
    rw [if_pos hlt] at hcreate
    have hk : kind (fieldsOf bpb) = .fat16 := by
      unfold kind; rw [if_neg (by omega), if_pos hlt]
    refine ⟨vol16 bpb lba nb (countOfClusters (fieldsOf bpb)), ?_, rfl, rfl, rfl, rfl, rfl, ?_, rfl, fun _ => ⟨rfl, rfl, rfl⟩, fun h => ?_⟩
    · rw [parseVolumeBpb_fat16 lba nb hcreate, if_neg (not_not_intro (show Bpb.bytesPerBlock bpb = 512 from hbps))]
    · rfl
    · rw [hk] at h; cases h
  · -- FAT32
    have hk : kind (fieldsOf bpb) = .fat32 := by
      unfold kind; rw [if_neg (by omega), if_neg hlt]
    obtain ⟨hver, hroot⟩ := h32 hk
    rw [if_neg hlt, if_pos (show Bpb.fsVer bpb = 0 from hver)] at hcreate
    refine ⟨vol32 bpb lba nb (countOfClusters (fieldsOf bpb)), ?_, rfl, rfl, rfl, rfl, rfl, ?_, rfl, fun h => ?_, fun _ => ⟨rfl, rfl, rfl⟩⟩
    · rw [parseVolumeBpb_fat32 lba nb hcreate, if_neg (by show ¬ (lba + (fieldsOf bpb).fsInfo > 4294967295); omega)]
    · show Bpb.reservedBlockCount bpb + Bpb.numFats bpb * Bpb.fatSize bpb =
        (fieldsOf bpb).rsvdSecCnt + (fieldsOf bpb).numFATs * fatSz (fieldsOf bpb) + ((fieldsOf bpb).rootEntCnt * 32 + 511) / 512
      rw [hroot]; rfl
    · rw [hk] at h; cases h

end Sdmmc.Lemmas.C15
