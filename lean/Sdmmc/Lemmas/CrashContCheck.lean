/-
Continuing after a crash, part 2: executable checks of `CrashInvX` / `SizesFit` (sound; used for the evaluated examples
of `Props.C10Continue`), and the two facts behind the gap examples: a cluster in use that links to a FREE cluster lies
in no chain of any family that `Owns` the medium (`no_owns_of_link_to_free`).
-/
import Sdmmc.Lemmas.CrashCont
import Sdmmc.Lemmas.VolCrashFsck4
import Sdmmc.Lemmas.VolCheck

namespace Sdmmc.Lemmas.CrashCont
open Sdmmc.Model Sdmmc.Model.Fat Sdmmc.Spec Sdmmc.Spec.Volume

/-! ### Checkers -/

def emptyNoClusterB (ft : FatType) (dirs : List (Nat × Nat)) (slots : Nat → List Slot) : Bool :=
  (dirIds dirs).all fun h => (objects h (slots h)).all fun o =>
    isDirE o || decide (sCluster ft o ≠ 0) || decide (sSize o = 0)

theorem emptyNoClusterB_sound {ft : FatType} {dirs : List (Nat × Nat)} {slots : Nat → List Slot}
    (h : emptyNoClusterB ft dirs slots = true) : EmptyNoCluster ft dirs slots := by
  intro x hx o ho hd hc
  have := List.all_eq_true.1 (List.all_eq_true.1 h x hx) o ho
  simp only [Bool.or_eq_true, decide_eq_true_eq] at this
  rcases this with (h1 | h1) | h1
  · rw [hd] at h1; cases h1
  · exact absurd hc h1
  · exact h1

def sizesFitB (v : FatVolume) (d : Disk) (gh : Ghost) : Bool :=
  (dirIds gh.dirs).all fun h => (objects h (dirSlots v d gh.G h)).all fun o =>
    isDirE o || decide (sCluster v.fatType o = 0) ||
      decide (sSize o ≤ (chainOf gh.G (sCluster v.fatType o)).length * clusterBytesLen v)

theorem sizesFitB_sound {v : FatVolume} {d : Disk} {gh : Ghost} (h : sizesFitB v d gh = true) : SizesFit v d gh := by
  intro x hx o ho hd hc
  have := List.all_eq_true.1 (List.all_eq_true.1 h x hx) o ho
  simp only [Bool.or_eq_true, decide_eq_true_eq] at this
  rcases this with (h1 | h1) | h1
  · rw [hd] at h1; cases h1
  · exact absurd h1 hc
  · exact h1

/-- Executable form of `CrashInvX`. -/
def crashInvXB (v : FatVolume) (d : Disk) (gh : Ghost) (X : List (List Nat)) : Bool :=
  VolCrash.Fsck.crashInvB v d gh && VolCheck.ownsB v d (gh.G ++ X) && emptyNoClusterB v.fatType gh.dirs (dirSlots v d gh.G)

theorem crashInvXB_sound {v : FatVolume} {d : Disk} {gh : Ghost} {X : List (List Nat)} (h : crashInvXB v d gh X = true) :
    CrashInvX v d gh X := by
  simp only [crashInvXB, Bool.and_eq_true] at h
  exact ⟨VolCrash.Fsck.crashInvB_sound h.1.1, VolCheck.ownsB_sound h.1.2, emptyNoClusterB_sound h.2⟩

/-! ### A lost cluster that links to a free cluster -/

theorem chain_next_mem {v : FatVolume} {d : Disk} {h : Nat} {cs : List Nat} (hch : Chain v d h cs) {c n : Nat} (hc : c ∈ cs)
    (hn : nextOf v d c = .ok n) : n ∈ cs := by
  induction hch with
  | last c0 _ hl =>
    rw [List.mem_singleton.1 hc, hl] at hn
    cases hn
  | link c0 n0 rest _ hnx _ hrest ih =>
    rcases List.mem_cons.1 hc with rfl | hc'
    · rw [hnx] at hn
      cases hn
      refine List.mem_cons_of_mem _ ?_
      cases hrest with
      | last _ _ _ => exact List.mem_singleton.2 rfl
      | link _ _ _ _ _ _ _ => exact List.mem_cons_self
    · exact List.mem_cons_of_mem _ (ih hc')

/-- **No family of chains owns a medium on which a cluster in use links to a free cluster.** -/
theorem no_owns_of_link_to_free {v : FatVolume} {d : Disk} {c n : Nat} (hu : isUsed v d c) (hn : nextOf v d c = .ok n)
    (hf : isFree v d n) (L : List (List Nat)) : ¬ Owns v d L := by
  intro ho
  have hc : c ∈ L.flatten := (ho.2.2 c).1 hu
  obtain ⟨cs, hcs, hccs⟩ := List.mem_flatten.1 hc
  have hnm : n ∈ cs := chain_next_mem (ho.1 cs hcs) hccs hn
  have : isUsed v d n := (ho.2.2 n).2 (List.mem_flatten.2 ⟨cs, hcs, hnm⟩)
  exact this.2.1 hf

end Sdmmc.Lemmas.CrashCont
