/-
C11 over histories, part 6 — EVERY HANDLE CAN BE CLOSED.  From the invariant (fault-free, or with the schedule
exhausted): `close_file` of an open file answers `Ok`, `close_dir` of an open directory answers `Ok`, and once no file and
no directory is open `close_volume` answers `Ok`; closing the files, then the directories, then the volume empties all
three tables (`drain`), the invariant holding throughout.
-/
import Sdmmc.Lemmas.FaultHistExh
import Sdmmc.Lemmas.TablesInv

namespace Sdmmc.Lemmas.FaultHist
open Sdmmc.Model Sdmmc.Model.Fat Sdmmc.Spec.Volume
open Sdmmc.Spec hiding NoFault Coherent
open Sdmmc.Lemmas.VolApi Sdmmc.Lemmas.MHoare Sdmmc.Lemmas.Retry Sdmmc.Lemmas.VolMed Sdmmc.Lemmas.VolEng

/-! ### One closing call, fault-free -/

theorem step_closeFile_ok {s : Mgr} {gh : Ghost} (hI : VolInv s gh) {file i : Nat}
    (hidx : s.files.findIdx? (·.rawFile = file) = some i) :
    (step s (.closeFile file)).2.result = .ok .unit ∧
    (step s (.closeFile file)).1.files = swapRemove s.files i ∧
    (step s (.closeFile file)).1.dirs = s.dirs ∧
    (step s (.closeFile file)).1.vols.map (·.rawVolume) = s.vols.map (·.rawVolume) := by
  have hI0 := VolApi.volInv_resetLogs hI
  obtain ⟨f, hf, _⟩ := findIdx?_some_get hidx
  have hidx0 : (resetLogs s).files.findIdx? (·.rawFile = file) = some i := hidx
  obtain ⟨s1, hfl, hfiles, hdirs, _, _⟩ := flush_api hI0 hidx0 (f := f) hf
  have hfr := Tables.resp_flushFile file (resetLogs s)
  rw [hfl] at hfr
  have hidx1 : s1.files.findIdx? (·.rawFile = file) = some i := by rw [hfiles]; exact hidx
  have hc : closeFile file (resetLogs s) = (.ok (), { s1 with files := swapRemove s1.files i }) := by
    unfold closeFile
    rw [attempt_bind, hfl]
    simp only
    rw [bind_ok (getFileById_ok hidx1), modify_bind]
    rfl
  have hr : runOp (.closeFile file) (resetLogs s) = (.ok .unit, { s1 with files := swapRemove s1.files i }) := by
    show (closeFile file >>= fun _ => (pure Payload.unit : M Payload)) (resetLogs s) = _
    rw [bind_ok hc]; rfl
  rw [MHoare.step_unlocked s _ hI.unlocked, hr]
  exact ⟨rfl, by show swapRemove s1.files i = _; rw [hfiles]; rfl, hdirs, hfr.volHandles⟩

theorem step_closeDir_ok {s : Mgr} {dir i : Nat} (hl : s.locked = false)
    (hidx : s.dirs.findIdx? (·.rawDirectory = dir) = some i) :
    step s (.closeDir dir) = ({ resetLogs s with dirs := swapRemove s.dirs i }, { result := .ok .unit, writes := [], reads := [] }) := by
  have hr : runOp (.closeDir dir) (resetLogs s) = (.ok .unit, { resetLogs s with dirs := swapRemove s.dirs i }) := by
    show (closeDir dir >>= fun _ => (pure Payload.unit : M Payload)) (resetLogs s) = _
    have : closeDir dir (resetLogs s) = (.ok (), { resetLogs s with dirs := swapRemove s.dirs i }) := by
      unfold closeDir
      rw [get_bind]
      have : (resetLogs s).dirs.findIdx? (·.rawDirectory = dir) = some i := hidx
      rw [this]
      rfl
    rw [bind_ok this]; rfl
  rw [MHoare.step_unlocked s _ hl, hr]
  rfl

theorem step_closeVolume_ok {s : Mgr} {gh : Ghost} (hI : VolInv s gh) {vi : VolInfo} (hv : s.vols = [vi])
    (hf : s.files = []) (hd : s.dirs = []) :
    (step s (.closeVolume vi.rawVolume)).2.result = .ok .unit ∧
    (step s (.closeVolume vi.rawVolume)).1.vols = [] ∧
    (step s (.closeVolume vi.rawVolume)).1.files = [] ∧
    (step s (.closeVolume vi.rawVolume)).1.dirs = [] := by
  have hI0 := VolApi.volInv_resetLogs hI
  have hv0 : (resetLogs s).vols = [vi] := hv
  have hvg : vi.vol = gh.vol := by
    rcases hI.vols with h0 | ⟨vi', hvs, hvol⟩
    · rw [h0] at hv; cases hv
    · rw [hv] at hvs; cases hvs; exact hvol
  obtain ⟨hn, hc, hM⟩ := volInv_fs hI0
  obtain ⟨fs1, hr1, _, _, _, _⟩ := updateInfo_med hM hn hc
  have hw := withVol_one updateInfoSector hv0 hvg
  rw [hr1] at hw
  have hidx : (resetLogs s).vols.findIdx? (·.rawVolume = vi.rawVolume) = some 0 := by
    rw [hv0]; simp
  have hc : closeVolume vi.rawVolume (resetLogs s) =
      (.ok (), { afterVol (resetLogs s) vi fs1 with vols := swapRemove (afterVol (resetLogs s) vi fs1).vols 0 }) := by
    unfold closeVolume
    rw [get_bind]
    have h1 : (resetLogs s).files = [] := hf
    have h2 : (resetLogs s).dirs = [] := hd
    have hfa : ¬ ((resetLogs s).files.any (·.rawVolume = vi.rawVolume)) = true := by rw [h1]; simp
    have hda : ¬ ((resetLogs s).dirs.any (·.rawVolume = vi.rawVolume)) = true := by rw [h2]; simp
    rw [if_neg hfa, if_neg hda]
    rw [bind_ok (getVolumeById_ok hidx), bind_ok hw]
    rfl
  have hr : runOp (.closeVolume vi.rawVolume) (resetLogs s) =
      (.ok .unit, { afterVol (resetLogs s) vi fs1 with vols := swapRemove (afterVol (resetLogs s) vi fs1).vols 0 }) := by
    show (closeVolume vi.rawVolume >>= fun _ => (pure Payload.unit : M Payload)) (resetLogs s) = _
    rw [bind_ok hc]; rfl
  rw [MHoare.step_unlocked s _ hI.unlocked, hr]
  refine ⟨rfl, ?_, hf, hd⟩
  show swapRemove (afterVol (resetLogs s) vi fs1).vols 0 = []
  unfold afterVol
  simp [hv0, swapRemove]

/-! ### Closing everything -/

theorem findIdx_head {α} (x : α) (l : List α) (k : α → Nat) : (x :: l).findIdx? (fun y => decide (k y = k x)) = some 0 := by
  simp [List.findIdx?_cons]

theorem swapRemove_head_perm {α : Type} (x : α) (l : List α) : (swapRemove (x :: l) 0).Perm l := by
  have := VolApi.swapRemove_perm (x :: l) 0 x rfl
  simpa using this

/-- Close every open file (the head of the table each time). -/
theorem drain_files : ∀ (n : Nat) {s : Mgr} {gh : Ghost}, VolInv s gh → s.files.length = n →
    ∃ fs : List Nat, fs.Perm (s.files.map (·.rawFile)) ∧
      (∀ o, o ∈ (run s (fs.map Op.closeFile)).2 → o.result = .ok .unit) ∧
      (run s (fs.map Op.closeFile)).1.files = [] ∧
      (run s (fs.map Op.closeFile)).1.dirs = s.dirs ∧
      (run s (fs.map Op.closeFile)).1.vols.map (·.rawVolume) = s.vols.map (·.rawVolume) ∧
      ∃ gh', VolInv (run s (fs.map Op.closeFile)).1 gh' ∧ SameGeom gh.vol gh'.vol
  | 0, s, gh, hI, hn => by
    have h0 : s.files = [] := List.eq_nil_of_length_eq_zero hn
    refine ⟨[], by rw [h0]; exact List.Perm.refl _, fun o ho => (by cases ho), h0, rfl, rfl, gh, hI, SameGeom.refl _⟩
  | n + 1, s, gh, hI, hn => by
    cases hfs : s.files with
    | nil => rw [hfs] at hn; cases hn
    | cons f rest =>
      have hidx : s.files.findIdx? (·.rawFile = f.rawFile) = some 0 := by rw [hfs]; exact findIdx_head f rest (·.rawFile)
      obtain ⟨hr, hfiles, hdirs, hvols⟩ := step_closeFile_ok hI hidx
      obtain ⟨gh1, hI1, hg1⟩ := VolApi.step_closeFile_api hI f.rawFile
      have hperm : (step s (.closeFile f.rawFile)).1.files.Perm rest := by
        rw [hfiles, hfs]; exact swapRemove_head_perm f rest
      have hlen : (step s (.closeFile f.rawFile)).1.files.length = n := by
        rw [hperm.length_eq]; rw [hfs] at hn; simpa using hn
      obtain ⟨fs, hp, hok, hf0, hd0, hv0, gh2, hI2, hg2⟩ := drain_files n hI1 hlen
      refine ⟨f.rawFile :: fs, ?_, ?_, ?_, ?_, ?_, gh2, ?_, hg1.trans hg2⟩
      · rw [List.map_cons]
        exact List.Perm.cons _ (hp.trans (hperm.map _))
      · intro o ho
        rw [List.map_cons, WriteSetInv.run_cons] at ho
        rcases List.mem_cons.1 ho with rfl | ho
        · exact hr
        · exact hok o ho
      · rw [List.map_cons, WriteSetInv.run_cons]; exact hf0
      · rw [List.map_cons, WriteSetInv.run_cons]; exact hd0.trans hdirs
      · rw [List.map_cons, WriteSetInv.run_cons]; exact hv0.trans hvols
      · rw [List.map_cons, WriteSetInv.run_cons]; exact hI2

/-- Close every open directory. -/
theorem drain_dirs : ∀ (n : Nat) {s : Mgr} {gh : Ghost}, VolInv s gh → s.dirs.length = n →
    ∃ ds : List Nat, ds.Perm (s.dirs.map (·.rawDirectory)) ∧
      (∀ o, o ∈ (run s (ds.map Op.closeDir)).2 → o.result = .ok .unit) ∧
      (run s (ds.map Op.closeDir)).1.dirs = [] ∧
      (run s (ds.map Op.closeDir)).1.files = s.files ∧
      (run s (ds.map Op.closeDir)).1.vols = s.vols ∧
      ∃ gh', VolInv (run s (ds.map Op.closeDir)).1 gh' ∧ SameGeom gh.vol gh'.vol
  | 0, s, gh, hI, hn => by
    have h0 : s.dirs = [] := List.eq_nil_of_length_eq_zero hn
    refine ⟨[], by rw [h0]; exact List.Perm.refl _, fun o ho => (by cases ho), h0, rfl, rfl, gh, hI, SameGeom.refl _⟩
  | n + 1, s, gh, hI, hn => by
    cases hds : s.dirs with
    | nil => rw [hds] at hn; cases hn
    | cons d rest =>
      have hidx : s.dirs.findIdx? (·.rawDirectory = d.rawDirectory) = some 0 := by
        rw [hds]; exact findIdx_head d rest (·.rawDirectory)
      have hst := step_closeDir_ok hI.unlocked hidx
      obtain ⟨gh1, hI1, hg1⟩ := VolApi.step_closeDir_api hI d.rawDirectory
      have hperm : (step s (.closeDir d.rawDirectory)).1.dirs.Perm rest := by
        rw [hst]; show (swapRemove s.dirs 0).Perm rest; rw [hds]; exact swapRemove_head_perm d rest
      have hlen : (step s (.closeDir d.rawDirectory)).1.dirs.length = n := by
        rw [hperm.length_eq]; rw [hds] at hn; simpa using hn
      obtain ⟨ds, hp, hok, hd0, hf0, hv0, gh2, hI2, hg2⟩ := drain_dirs n hI1 hlen
      refine ⟨d.rawDirectory :: ds, ?_, ?_, ?_, ?_, ?_, gh2, ?_, hg1.trans hg2⟩
      · rw [List.map_cons]
        exact List.Perm.cons _ (hp.trans (hperm.map _))
      · intro o ho
        rw [List.map_cons, WriteSetInv.run_cons] at ho
        rcases List.mem_cons.1 ho with rfl | ho
        · rw [hst]
        · exact hok o ho
      · rw [List.map_cons, WriteSetInv.run_cons]; exact hd0
      · rw [List.map_cons, WriteSetInv.run_cons]; rw [hf0, hst]; rfl
      · rw [List.map_cons, WriteSetInv.run_cons]; rw [hv0, hst]; rfl
      · rw [List.map_cons, WriteSetInv.run_cons]; exact hI2

theorem run_append (s : Mgr) (a b : List Op) :
    run s (a ++ b) = ((run (run s a).1 b).1, (run s a).2 ++ (run (run s a).1 b).2) := by
  induction a generalizing s with
  | nil => rfl
  | cons op a ih =>
    rw [List.cons_append, WriteSetInv.run_cons, ih, WriteSetInv.run_cons]
    rfl

/-- **Closing everything**: the files, then the directories, then the volume.  Every call answers `Ok`, the three
tables are empty afterwards, and the invariant holds at the end. -/
theorem drain {s : Mgr} {gh : Ghost} (hI : VolInv s gh) :
    ∃ (fs ds vs : List Nat), fs.Perm (s.files.map (·.rawFile)) ∧ ds.Perm (s.dirs.map (·.rawDirectory)) ∧
      vs = s.vols.map (·.rawVolume) ∧
      let ops := fs.map Op.closeFile ++ ds.map Op.closeDir ++ vs.map Op.closeVolume
      (∀ o, o ∈ (run s ops).2 → o.result = .ok .unit) ∧
      (run s ops).1.files = [] ∧ (run s ops).1.dirs = [] ∧ (run s ops).1.vols = [] ∧
      hasOpenHandles (run s ops).1 = false ∧
      ∃ gh', VolInv (run s ops).1 gh' ∧ SameGeom gh.vol gh'.vol := by
  obtain ⟨fs, hpf, hokf, hf1, hd1, hv1, gh1, hI1, hg1⟩ := drain_files _ hI rfl
  obtain ⟨ds, hpd, hokd, hd2, hf2, hv2, gh2, hI2, hg2⟩ := drain_dirs _ hI1 rfl
  rw [hd1] at hpd
  refine ⟨fs, ds, _, hpf, hpd, rfl, ?_⟩
  show (∀ o, o ∈ (run s (fs.map Op.closeFile ++ ds.map Op.closeDir ++ _)).2 → _) ∧ _
  rw [run_append, run_append]
  generalize hs1 : (run s (fs.map Op.closeFile)).1 = s1 at *
  generalize hs2 : (run s1 (ds.map Op.closeDir)).1 = s2 at *
  have hf2' : s2.files = [] := hf2.trans hf1
  have hvm : s2.vols.map (·.rawVolume) = s.vols.map (·.rawVolume) := by rw [hv2]; exact hv1
  rw [← hvm]
  rcases hI2.vols with h0 | ⟨vi, hvs, _⟩
  · rw [h0]
    have e0 : run s2 ((([] : List VolInfo).map (·.rawVolume)).map Op.closeVolume) = (s2, []) := rfl
    rw [e0]
    refine ⟨fun o ho => ?_, hf2', hd2, h0, by simp [hasOpenHandles, hf2', hd2], gh2, hI2, hg1.trans hg2⟩
    simp only [List.append_nil] at ho
    show o.result = _
    rcases List.mem_append.1 ho with ho | ho
    · exact hokf o ho
    · exact hokd o ho
  · rw [hvs]
    obtain ⟨hr, hv3, hf3, hd3⟩ := step_closeVolume_ok hI2 hvs hf2' hd2
    obtain ⟨gh3, hI3, hg3⟩ := VolApi.step_closeVolume_api hI2 vi.rawVolume
    have e : run s2 ([vi].map (·.rawVolume) |>.map Op.closeVolume) =
        ((step s2 (.closeVolume vi.rawVolume)).1, [(step s2 (.closeVolume vi.rawVolume)).2]) := rfl
    rw [e]
    refine ⟨fun o ho => ?_, hf3, hd3, hv3, by simp [hasOpenHandles, hf3, hd3], gh3, hI3, (hg1.trans hg2).trans hg3⟩
    show o.result = _
    rcases List.mem_append.1 ho with ho | ho
    · rcases List.mem_append.1 ho with ho | ho
      · exact hokf o ho
      · exact hokd o ho
    · rw [List.mem_singleton.1 ho]; exact hr

/-! ### With a schedule, once it is exhausted -/

theorem run_exhausted : ∀ (ops : List Op) (s : Mgr), Exhausted s.dev →
    Exhausted (run s ops).1.dev ∧ (run s ops).1.dev.failed = s.dev.failed ∧
    (run (mclr s) ops).2 = (run s ops).2 ∧ (run (mclr s) ops).1 = mclr (run s ops).1
  | [], _, h => ⟨h, rfl, rfl, rfl⟩
  | op :: ops, s, h => by
    obtain ⟨h1, h2, h3, h4⟩ := step_exhausted s op h
    obtain ⟨k1, k2, k3, k4⟩ := run_exhausted ops _ h1
    rw [WriteSetInv.run_cons, WriteSetInv.run_cons, h4, h3, k3, k4]
    exact ⟨k1, k2.trans h2, rfl, rfl⟩

end Sdmmc.Lemmas.FaultHist
