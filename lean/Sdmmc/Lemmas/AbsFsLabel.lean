/-
Refinement of the API to the abstract file system, part 15: `get_root_volume_label` (`refines_label`) — the
label of the boot sector, or `open_root_dir`, `iterate_dir`, `close_dir` in a row.
-/
import Sdmmc.Lemmas.AbsFsVolume

namespace Sdmmc.Lemmas.AbsFs
open Sdmmc.Model Sdmmc.Model.Fat Sdmmc.Spec.Volume Sdmmc.Lemmas.VolBase Sdmmc.Lemmas.VolTree
open Sdmmc.Spec hiding NoFault Coherent
open Sdmmc.Spec.AbsFs (Meta view storedMeta fatRound OpenFile OpenDir absStep)
open Sdmmc.Lemmas.VolDisk Sdmmc.Lemmas.VolMed Sdmmc.Lemmas.VolApi Sdmmc.Lemmas.VolEng
open Sdmmc.Lemmas.FBasic (NoFault Coherent)
open Sdmmc.Lemmas.MHoare

/-- `open_root_dir` as a step: both relations afterwards, the abstract function's answer. -/
theorem openRoot_run (v : Nat) {s : Mgr} {gh : Ghost} {a : AState} (hI : VolInv s gh) (hA : Abs s gh a) :
    ∃ gh', VolInv (openRootDir v s).2 gh' ∧ SameGeom gh.vol gh'.vol ∧ Abs (openRootDir v s).2 gh' (Spec.AbsFs.openRootF a v).1 ∧
      (Spec.AbsFs.openRootF a v).2 = (openRootDir v s).1.bind fun h => .ok (.handle h) := by
  have hl : a.locked = false := hA.locked.trans hI.unlocked
  obtain ⟨gh', a', h1, h2, h3, h4⟩ := refines_openRoot v hI hA
  rw [show runOp (.openRoot v) s = (openRootDir v >>= fun h => pure (Payload.handle h)) s from rfl, run_map] at h1 h3 h4
  unfold absStep at h4
  rw [if_neg (by rw [hl]; exact Bool.false_ne_true)] at h4
  have h4' : (a', (openRootDir v s).1.bind fun h => Res.ok (Payload.handle h)) = Spec.AbsFs.openRootF a v := h4
  rw [← h4']
  exact ⟨gh', h1, h2, h3, rfl⟩

/-- `close_dir` as a step. -/
theorem closeDir_run (d : Nat) {s : Mgr} {gh : Ghost} {a : AState} (hI : VolInv s gh) (hA : Abs s gh a) :
    ∃ gh', VolInv (closeDir d s).2 gh' ∧ SameGeom gh.vol gh'.vol ∧ Abs (closeDir d s).2 gh' (Spec.AbsFs.closeDirF a d).1 := by
  have hl : a.locked = false := hA.locked.trans hI.unlocked
  obtain ⟨gh', a', h1, h2, h3, h4⟩ := refines_closeDir d hI hA
  rw [show runOp (.closeDir d) s = (closeDir d >>= fun _ => pure Payload.unit) s from rfl, run_seq] at h1 h3 h4
  unfold absStep at h4
  rw [if_neg (by rw [hl]; exact Bool.false_ne_true)] at h4
  have h4' : (a', (closeDir d s).1.bind fun _ => Res.ok Payload.unit) = Spec.AbsFs.closeDirF a d := h4
  rw [← h4']
  exact ⟨gh', h1, h2, h3⟩

theorem lift_map {α β : Type} (r : Res α) (g : α → β) (s : Mgr) :
    (M.lift r >>= fun x => (pure (g x) : M β)) s = (r.bind fun x => .ok (g x), s) := by
  rw [bind_def]
  cases r <;> rfl

theorem refines_label (v : Nat) {s : Mgr} {gh : Ghost} {a : AState} (hI : VolInv s gh) (hA : Abs s gh a) :
    Refines (.label v) s gh a := by
  have hl : a.locked = false := hA.locked.trans hI.unlocked
  unfold Refines
  rw [show runOp (.label v) s = (getRootVolumeLabel v >>= fun l => pure (Payload.label l)) s from rfl, run_map]
  have hgoal : ∀ (a' : AState) (r : Res Payload), absStep a (.label v) (a', r) ↔ Spec.AbsFs.labelS a v a' r := by
    intro a' r
    unfold absStep
    rw [if_neg (by rw [hl]; exact Bool.false_ne_true)]
  unfold getRootVolumeLabel
  cases hva : (s.vols.any fun x => decide (x.rawVolume = v)) with
  | false =>
    rw [bind_err (getVolumeById_bad (volume_missing hva))]
    refine ⟨gh, a, hI, SameGeom.refl _, hA, (hgoal a _).2 ?_⟩
    unfold Spec.AbsFs.labelS
    rw [volOpen_abs hA, hva]
    exact ⟨rfl, rfl⟩
  | true =>
    obtain ⟨vi, hvs, hvol, hraw, hvfind⟩ := volume_found hI hva
    rw [bind_ok (getVolumeById_ok hvfind), bind_ok (getVolInfo_ok (show s.vols[0]? = some vi by rw [hvs]; rfl))]
    have hopen : (!Spec.AbsFs.volOpen a v) = false := by rw [volOpen_abs hA, hva]; rfl
    by_cases hnm : (!(volumeNameTrim vi.vol.name).isEmpty) = true
    · rw [if_pos hnm]
      refine ⟨gh, a, hI, SameGeom.refl _, hA, (hgoal a _).2 ?_⟩
      unfold Spec.AbsFs.labelS
      rw [hopen]
      exact .inl ⟨rfl, vi.vol.name, rfl⟩
    rw [if_neg hnm]
    obtain ⟨gh1, hI1, hsg1, hA1, hr1⟩ := openRoot_run v hI hA
    rw [bind_def]
    rcases hor : openRootDir v s with ⟨r1, s1⟩
    rw [hor] at hI1 hA1 hr1
    simp only at hI1 hA1 hr1
    cases r1 with
    | ok d =>
      have hr1' : (Spec.AbsFs.openRootF a v).2 = .ok (.handle d) := hr1
      dsimp only
      rw [attempt_bind]
      obtain ⟨hI2, hA2, hlist, _⟩ := iterateDir_refines d hI1 hA1
      rcases hit : iterateDir d s1 with ⟨r2, s2⟩
      rw [hit] at hI2 hA2 hlist
      simp only at hI2 hA2 hlist
      rw [attempt_bind]
      obtain ⟨gh3, hI3, hsg3, hA3⟩ := closeDir_run d hI2 hA2
      rw [lift_map]
      refine ⟨gh3, _, hI3, hsg1.trans hsg3, hA3, (hgoal _ _).2 ?_⟩
      unfold Spec.AbsFs.labelS
      rw [hopen]
      refine .inr ?_
      rw [hr1']
      refine ⟨rfl, r2, hlist, ?_⟩
      cases r2 <;> rfl
    | err e =>
      have hr1' : (Spec.AbsFs.openRootF a v).2 = .err e := hr1
      refine ⟨gh1, _, hI1, hsg1, hA1, (hgoal _ _).2 ?_⟩
      unfold Spec.AbsFs.labelS
      rw [hopen]
      refine .inr ?_
      rw [hr1']
      exact ⟨rfl, rfl⟩
    | panic m =>
      have hr1' : (Spec.AbsFs.openRootF a v).2 = .panic m := hr1
      refine ⟨gh1, _, hI1, hsg1, hA1, (hgoal _ _).2 ?_⟩
      unfold Spec.AbsFs.labelS
      rw [hopen]
      refine .inr ?_
      rw [hr1']
      exact ⟨rfl, rfl⟩
    | diverged =>
      have hr1' : (Spec.AbsFs.openRootF a v).2 = .diverged := hr1
      refine ⟨gh1, _, hI1, hsg1, hA1, (hgoal _ _).2 ?_⟩
      unfold Spec.AbsFs.labelS
      rw [hopen]
      refine .inr ?_
      rw [hr1']
      exact ⟨rfl, rfl⟩

end Sdmmc.Lemmas.AbsFs
