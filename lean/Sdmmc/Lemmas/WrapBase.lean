/-
Lemmas for the wrapper layer (`Sdmmc.Model.Wrap`), first part: the combinators `call` / `expect` /
`ignoreErr`, the observers `length` / `offset` / `is_eof`, and `embedded_io::Seek::seek`.
Used by `Sdmmc.Props.C01Io`.
-/
import Sdmmc.Lemmas.Tables
import Sdmmc.Lemmas.Files
import Sdmmc.Spec.Wrap

namespace Sdmmc.Lemmas.Wrap
open Sdmmc.Model Sdmmc.Model.Wrap Sdmmc.Spec.Wrap Sdmmc.Lemmas.MHoare

/-! ### Lists -/

theorem findIdx?_set_key {α} {l : List α} {p : α → Bool} {i : Nat} {x : α}
    (hh : l.findIdx? p = some i) (hp : p x = true) : (l.set i x).findIdx? p = some i := by
  obtain ⟨hi, _, hlt⟩ := List.findIdx?_eq_some_iff_getElem.1 hh
  refine List.findIdx?_eq_some_iff_getElem.2 ⟨by simpa using hi, ?_, ?_⟩
  · simp [hp]
  · intro j hj
    have : i ≠ j := by omega
    simp [this]
    simpa using hlt j hj

theorem lt_of_getElem?_some {α} {l : List α} {i : Nat} {x : α} (h : l[i]? = some x) : i < l.length := by
  rcases Nat.lt_or_ge i l.length with hlt | hge
  · exact hlt
  · rw [List.getElem?_eq_none hge] at h; cases h

/-- A handle is either in the table (with its slot) or not. -/
theorem file_handle_cases (s : Mgr) (h : Nat) :
    (h ∉ s.files.map (·.rawFile)) ∨
    ∃ i f, s.files.findIdx? (·.rawFile = h) = some i ∧ s.files[i]? = some f := by
  by_cases hm : h ∈ s.files.map (·.rawFile)
  · obtain ⟨i, x, hi, hx, _⟩ := findIdx?_some_of_mem s.files (·.rawFile) h hm
    exact .inr ⟨i, x, hi, hx⟩
  · exact .inl hm

/-! ### The combinators -/

theorem call_unlocked {α} (m : M α) {s : Mgr} (hl : s.locked = false) : call m s = m s := by
  unfold call; rw [hl]; rfl

theorem call_locked {α} (m : M α) {s : Mgr} (hl : s.locked = true) : call m s = (.err .LockError, s) := by
  unfold call; rw [hl]; rfl

theorem expect_run {α} (msg : String) (m : M α) (s : Mgr) :
    expect msg m s = (expectRes msg (m s).1, (m s).2) := by
  unfold expect expectRes
  rcases m s with ⟨r, s'⟩
  cases r <;> rfl

theorem ignoreErr_run {α} (m : M α) (s : Mgr) : ignoreErr m s = (swallow (m s).1, (m s).2) := by
  unfold ignoreErr swallow
  rcases m s with ⟨r, s'⟩
  cases r <;> rfl

/-! ### Observers -/

section
variable {s : Mgr} {h i : Nat} {f : FileInfo}

theorem fileLength_open (hh : s.files.findIdx? (·.rawFile = h) = some i) (hf : s.files[i]? = some f) :
    fileLength h s = (.ok f.entry.size, s) := by
  unfold fileLength
  rw [bind_ok (getFileById_ok hh), bind_ok (getFile_ok hf)]; rfl

theorem fileOffset_open (hh : s.files.findIdx? (·.rawFile = h) = some i) (hf : s.files[i]? = some f) :
    fileOffset h s = (.ok f.currentOffset, s) := by
  unfold fileOffset
  rw [bind_ok (getFileById_ok hh), bind_ok (getFile_ok hf)]; rfl

theorem fileEof_open (hh : s.files.findIdx? (·.rawFile = h) = some i) (hf : s.files[i]? = some f) :
    fileEof h s = (.ok (decide (f.currentOffset = f.entry.size)), s) := by
  unfold fileEof
  rw [bind_ok (getFileById_ok hh), bind_ok (getFile_ok hf)]; rfl

/-- On an open handle, manager not borrowed: the wrapper observers are the raw calls. -/
theorem observers_open (hl : s.locked = false) (hh : s.files.findIdx? (·.rawFile = h) = some i)
    (hf : s.files[i]? = some f) :
    File.length h s = fileLength h s ∧ File.offset h s = fileOffset h s ∧ File.isEof h s = fileEof h s ∧
    File.length h s = (.ok f.entry.size, s) ∧ File.offset h s = (.ok f.currentOffset, s) ∧
    File.isEof h s = (.ok (decide (f.currentOffset = f.entry.size)), s) := by
  have h1 : File.length h s = fileLength h s := by
    unfold File.length; rw [expect_run, call_unlocked _ hl, fileLength_open hh hf]; rfl
  have h2 : File.offset h s = fileOffset h s := by
    unfold File.offset; rw [expect_run, call_unlocked _ hl, fileOffset_open hh hf]; rfl
  have h3 : File.isEof h s = fileEof h s := by
    unfold File.isEof; rw [expect_run, call_unlocked _ hl, fileEof_open hh hf]; rfl
  exact ⟨h1, h2, h3, h1.trans (fileLength_open hh hf), h2.trans (fileOffset_open hh hf),
    h3.trans (fileEof_open hh hf)⟩

/-- On a handle that is not open: a panic, nothing touched (the raw calls answer `BadHandle`). -/
theorem observers_bad (hb : h ∉ s.files.map (·.rawFile)) :
    File.length h s = (.panic "Corrupt file ID", s) ∧ File.offset h s = (.panic "Corrupt file ID", s) ∧
    File.isEof h s = (.panic "Corrupt file ID", s) := by
  cases hl : s.locked with
  | true =>
    refine ⟨?_, ?_, ?_⟩
    · unfold File.length; rw [expect_run, call_locked _ hl]; rfl
    · unfold File.offset; rw [expect_run, call_locked _ hl]; rfl
    · unfold File.isEof; rw [expect_run, call_locked _ hl]; rfl
  | false =>
    refine ⟨?_, ?_, ?_⟩
    · unfold File.length; rw [expect_run, call_unlocked _ hl, Tables.length_bad hb]; rfl
    · unfold File.offset; rw [expect_run, call_unlocked _ hl, Tables.offset_bad hb]; rfl
    · unfold File.isEof; rw [expect_run, call_unlocked _ hl, Tables.eof_bad hb]; rfl

/-- With the manager borrowed (inside a directory-iteration callback): a panic as well. -/
theorem observers_locked (hl : s.locked = true) :
    File.length h s = (.panic "Corrupt file ID", s) ∧ File.offset h s = (.panic "Corrupt file ID", s) ∧
    File.isEof h s = (.panic "Corrupt file ID", s) := by
  refine ⟨?_, ?_, ?_⟩
  · unfold File.length; rw [expect_run, call_locked _ hl]; rfl
  · unfold File.offset; rw [expect_run, call_locked _ hl]; rfl
  · unfold File.isEof; rw [expect_run, call_locked _ hl]; rfl

/-! ### The specification, case by case -/

theorem seekSpec_start (size pos o : Nat) :
    seekSpec size pos (.start o) = if o ≤ size then some o else none := by
  show (if 0 ≤ (o : Int) ∧ (o : Int) ≤ (size : Int) then some (o : Int).toNat else none) = _
  by_cases hz : o ≤ size
  · rw [if_pos hz, if_pos ⟨by omega, by omega⟩, Int.toNat_natCast]
  · rw [if_neg hz, if_neg (fun hx => hz (by omega))]

theorem seekSpec_end (size pos : Nat) (o : Int) :
    seekSpec size pos (.end_ o) =
      if 0 ≤ (size : Int) + o ∧ (size : Int) + o ≤ (size : Int) then some ((size : Int) + o).toNat else none := rfl

theorem seekSpec_current (size pos : Nat) (o : Int) :
    seekSpec size pos (.current o) =
      if 0 ≤ (pos : Int) + o ∧ (pos : Int) + o ≤ (size : Int) then some ((pos : Int) + o).toNat else none := rfl

/-! ### `Seek::seek` -/

/-- The state after a successful seek to `t`: one field of one slot of the file table. -/
def seekTo (s : Mgr) (i : Nat) (f : FileInfo) (t : Nat) : Mgr :=
  { s with files := s.files.set i { f with currentOffset := t } }

theorem offset_after (hl : s.locked = false) (hh : s.files.findIdx? (·.rawFile = h) = some i)
    (hf : s.files[i]? = some f) (t : Nat) : File.offset h (seekTo s i f t) = (.ok t, seekTo s i f t) := by
  have hi : i < s.files.length := lt_of_getElem?_some hf
  have hp : (fun (x : FileInfo) => decide (x.rawFile = h)) f = true := by
    obtain ⟨x, hx, hpx⟩ := findIdx?_some_get hh
    rw [hf] at hx; cases hx; exact hpx
  have hh' : (seekTo s i f t).files.findIdx? (·.rawFile = h) = some i := findIdx?_set_key hh hp
  have hf' : (seekTo s i f t).files[i]? = some { f with currentOffset := t } := by
    show (s.files.set i _)[i]? = _
    rw [List.getElem?_set_self hi]
  exact (observers_open (s := seekTo s i f t) hl hh' hf').2.2.2.2.1

theorem seek_then_offset_ok {m : M Unit} {t : Nat} (hl : s.locked = false)
    (hh : s.files.findIdx? (·.rawFile = h) = some i) (hf : s.files[i]? = some f)
    (hm : m s = (.ok (), seekTo s i f t)) :
    (m >>= fun _ => File.offset h) s = (.ok t, seekTo s i f t) := by
  rw [bind_ok hm]; exact offset_after hl hh hf t

theorem ioSeek_start (hl : s.locked = false) (hh : s.files.findIdx? (·.rawFile = h) = some i)
    (hf : s.files[i]? = some f) (o : Nat) :
    File.ioSeek h (.start o) s =
      if o ≤ U32_MAX ∧ o ≤ f.entry.size then (.ok o, seekTo s i f o) else (.err .InvalidOffset, s) := by
  unfold File.ioSeek
  simp only
  by_cases hc : o ≤ U32_MAX
  · have h1 : u64ToU32 o = some o := by unfold u64ToU32; rw [if_pos hc]
    rw [h1]
    have hs := Files.file_seek_start_spec h o i f s (getFileById_ok hh) (getFile_ok hf)
    show (File.seekFromStart h o >>= fun _ => File.offset h) s = _
    by_cases hz : o ≤ f.entry.size
    · rw [if_pos hz] at hs
      rw [if_pos ⟨hc, hz⟩]
      refine seek_then_offset_ok hl hh hf ?_
      unfold File.seekFromStart
      rw [call_unlocked _ hl, hs]; rfl
    · rw [if_neg hz] at hs
      rw [if_neg (fun hx => hz hx.2)]
      refine bind_err ?_
      unfold File.seekFromStart
      rw [call_unlocked _ hl, hs]
  · have h1 : u64ToU32 o = none := by unfold u64ToU32; rw [if_neg hc]
    rw [h1, if_neg (fun hx => hc hx.1)]
    rfl

theorem ioSeek_end (hl : s.locked = false) (hh : s.files.findIdx? (·.rawFile = h) = some i)
    (hf : s.files[i]? = some f) (o : Int) :
    File.ioSeek h (.end_ o) s =
      if (-(U32_MAX : Int) ≤ o ∧ o ≤ 0) ∧ (-o).toNat ≤ f.entry.size then
        (.ok (f.entry.size - (-o).toNat), seekTo s i f (f.entry.size - (-o).toNat))
      else (.err .InvalidOffset, s) := by
  unfold File.ioSeek
  simp only
  by_cases hc : -(U32_MAX : Int) ≤ o ∧ o ≤ 0
  · have h0 : i64CheckedNeg o = some (-o) := by
      unfold i64CheckedNeg
      rw [if_neg]
      intro he
      rw [he] at hc
      exact absurd hc.1 (by decide)
    have h1 : i64ToU32 (-o) = some (-o).toNat := by
      unfold i64ToU32
      rw [if_pos ⟨by omega, by omega⟩]
    rw [h0]
    show (orInvalidOffset (i64ToU32 (-o)) >>= fun n => File.seekFromEnd h n >>= fun _ => File.offset h) s = _
    rw [h1]
    show (File.seekFromEnd h (-o).toNat >>= fun _ => File.offset h) s = _
    have hs := Files.file_seek_end_spec h (-o).toNat i f s (getFileById_ok hh) (getFile_ok hf)
    by_cases hz : (-o).toNat ≤ f.entry.size
    · rw [if_pos hz] at hs
      rw [if_pos ⟨hc, hz⟩]
      refine seek_then_offset_ok hl hh hf ?_
      unfold File.seekFromEnd
      rw [call_unlocked _ hl, hs]; rfl
    · rw [if_neg hz] at hs
      rw [if_neg (fun hx => hz hx.2)]
      refine bind_err ?_
      unfold File.seekFromEnd
      rw [call_unlocked _ hl, hs]
  · rw [if_neg (fun hx => hc hx.1)]
    by_cases he : o = I64_MIN
    · have h0 : i64CheckedNeg o = none := by unfold i64CheckedNeg; rw [if_pos he]
      rw [h0]; rfl
    · have h0 : i64CheckedNeg o = some (-o) := by unfold i64CheckedNeg; rw [if_neg he]
      have h1 : i64ToU32 (-o) = none := by
        unfold i64ToU32
        rw [if_neg]
        intro hx
        exact hc ⟨by omega, by omega⟩
      rw [h0]
      show (orInvalidOffset (i64ToU32 (-o)) >>= fun n => File.seekFromEnd h n >>= fun _ => File.offset h) s = _
      rw [h1]; rfl

/-- The arithmetic of the `Current` branch: `checked_add` then `try_into::<u32>` succeed exactly
when the sum lies in `[0, u32::MAX]`, and then yield it. -/
theorem current_arith (pos : Nat) (o : Int) :
    ((i64CheckedAdd (pos : Int) o).bind i64ToU32) =
      if 0 ≤ (pos : Int) + o ∧ (pos : Int) + o ≤ (U32_MAX : Int) then some ((pos : Int) + o).toNat else none := by
  have hU : (U32_MAX : Int) = 4294967295 := rfl
  have hmin : I64_MIN = -9223372036854775808 := rfl
  have hmax : I64_MAX = 9223372036854775807 := rfl
  unfold i64CheckedAdd
  by_cases hr : I64_MIN ≤ (pos : Int) + o ∧ (pos : Int) + o ≤ I64_MAX
  · rw [if_pos hr]
    show i64ToU32 ((pos : Int) + o) = _
    unfold i64ToU32
    rfl
  · rw [if_neg hr, if_neg (fun hx => hr ⟨by omega, by omega⟩)]
    rfl

theorem ioSeek_current_unfold (s : Mgr) (h : Nat) (o : Int) :
    File.ioSeek h (.current o) s =
      (call (fileOffset h) >>= fun current =>
        orInvalidOffset (i64CheckedAdd (current : Int) o) >>= fun target =>
        orInvalidOffset (i64ToU32 target) >>= fun n =>
        File.seekFromStart h n >>= fun _ => File.offset h) s := rfl

theorem ioSeek_current (hl : s.locked = false) (hh : s.files.findIdx? (·.rawFile = h) = some i)
    (hf : s.files[i]? = some f) (o : Int) :
    File.ioSeek h (.current o) s =
      if (0 ≤ (f.currentOffset : Int) + o ∧ (f.currentOffset : Int) + o ≤ (U32_MAX : Int)) ∧
          ((f.currentOffset : Int) + o).toNat ≤ f.entry.size then
        (.ok ((f.currentOffset : Int) + o).toNat, seekTo s i f ((f.currentOffset : Int) + o).toNat)
      else (.err .InvalidOffset, s) := by
  rw [ioSeek_current_unfold]
  have hoff : call (fileOffset h) s = (.ok f.currentOffset, s) := by
    rw [call_unlocked _ hl]; exact fileOffset_open hh hf
  rw [bind_ok hoff]
  have ha := current_arith f.currentOffset o
  by_cases hc : 0 ≤ (f.currentOffset : Int) + o ∧ (f.currentOffset : Int) + o ≤ (U32_MAX : Int)
  · rw [if_pos hc] at ha
    cases hca : i64CheckedAdd (f.currentOffset : Int) o with
    | none => rw [hca] at ha; cases ha
    | some t =>
      rw [hca] at ha
      replace ha : i64ToU32 t = some ((f.currentOffset : Int) + o).toNat := ha
      show (orInvalidOffset (i64ToU32 t) >>= fun n => File.seekFromStart h n >>= fun _ => File.offset h) s = _
      rw [ha]
      show (File.seekFromStart h ((f.currentOffset : Int) + o).toNat >>= fun _ => File.offset h) s = _
      have hs := Files.file_seek_start_spec h ((f.currentOffset : Int) + o).toNat i f s
        (getFileById_ok hh) (getFile_ok hf)
      by_cases hz : ((f.currentOffset : Int) + o).toNat ≤ f.entry.size
      · rw [if_pos hz] at hs
        rw [if_pos ⟨hc, hz⟩]
        refine seek_then_offset_ok hl hh hf ?_
        unfold File.seekFromStart
        rw [call_unlocked _ hl, hs]; rfl
      · rw [if_neg hz] at hs
        rw [if_neg (fun hx => hz hx.2)]
        refine bind_err ?_
        unfold File.seekFromStart
        rw [call_unlocked _ hl, hs]
  · rw [if_neg hc] at ha
    rw [if_neg (fun hx => hc hx.1)]
    cases hca : i64CheckedAdd (f.currentOffset : Int) o with
    | none => rfl
    | some t =>
      rw [hca] at ha
      replace ha : i64ToU32 t = none := ha
      show (orInvalidOffset (i64ToU32 t) >>= fun n => File.seekFromStart h n >>= fun _ => File.offset h) s = _
      rw [ha]; rfl

/-- **`Seek::seek` on an open file**, every argument: the byte-array cursor's answer when the
arithmetic accepts the argument, `InvalidOffset` and nothing changed otherwise. -/
theorem ioSeek_spec (hl : s.locked = false) (hh : s.files.findIdx? (·.rawFile = h) = some i)
    (hf : s.files[i]? = some f) (p : SeekFrom) :
    File.ioSeek h p s =
      if ConvOK f.currentOffset p then
        match seekSpec f.entry.size f.currentOffset p with
        | some t => (.ok t, seekTo s i f t)
        | none => (.err .InvalidOffset, s)
      else (.err .InvalidOffset, s) := by
  cases p with
  | start o =>
    rw [ioSeek_start hl hh hf, seekSpec_start]
    by_cases hc : o ≤ U32_MAX
    · rw [if_pos (show ConvOK f.currentOffset (.start o) from hc)]
      by_cases hz : o ≤ f.entry.size
      · rw [if_pos ⟨hc, hz⟩, if_pos hz]
      · rw [if_neg (fun hx => hz hx.2), if_neg hz]
    · rw [if_neg (show ¬ ConvOK f.currentOffset (.start o) from hc), if_neg (fun hx => hc hx.1)]
  | end_ o =>
    rw [ioSeek_end hl hh hf, seekSpec_end]
    by_cases hc : -(U32_MAX : Int) ≤ o ∧ o ≤ 0
    · rw [if_pos (show ConvOK f.currentOffset (.end_ o) from hc)]
      by_cases hz : (-o).toNat ≤ f.entry.size
      · rw [if_pos ⟨hc, hz⟩, if_pos ⟨by omega, by omega⟩]
        have : ((f.entry.size : Int) + o).toNat = f.entry.size - (-o).toNat := by omega
        simp only [this]
      · rw [if_neg (fun hx => hz hx.2), if_neg (fun hx => hz (by omega))]
    · rw [if_neg (show ¬ ConvOK f.currentOffset (.end_ o) from hc), if_neg (fun hx => hc hx.1)]
  | current o =>
    rw [ioSeek_current hl hh hf, seekSpec_current]
    by_cases hc : 0 ≤ (f.currentOffset : Int) + o ∧ (f.currentOffset : Int) + o ≤ (U32_MAX : Int)
    · rw [if_pos (show ConvOK f.currentOffset (.current o) from hc)]
      by_cases hz : ((f.currentOffset : Int) + o).toNat ≤ f.entry.size
      · rw [if_pos ⟨hc, hz⟩, if_pos ⟨hc.1, by omega⟩]
      · rw [if_neg (fun hx => hz hx.2), if_neg (fun hx => hz (by omega))]
    · rw [if_neg (show ¬ ConvOK f.currentOffset (.current o) from hc), if_neg (fun hx => hc hx.1)]

end

/-! ### Order of the refusals -/

/-- `Start` / `End`: an argument the conversions refuse is answered `InvalidOffset` before the manager
is called at all: whatever the handle, whether or not the manager is borrowed.  (`pos` is irrelevant
for these two kinds.) -/
theorem ioSeek_conv_fail (s : Mgr) (h pos : Nat) (p : SeekFrom) (hk : p.isCurrent = false)
    (hc : ¬ ConvOK pos p) : File.ioSeek h p s = (.err .InvalidOffset, s) := by
  cases p with
  | start o =>
    have h1 : u64ToU32 o = none := by unfold u64ToU32; rw [if_neg (show ¬ o ≤ U32_MAX from hc)]
    unfold File.ioSeek; simp only; rw [h1]; rfl
  | end_ o =>
    unfold File.ioSeek; simp only
    by_cases he : o = I64_MIN
    · have h0 : i64CheckedNeg o = none := by unfold i64CheckedNeg; rw [if_pos he]
      rw [h0]; rfl
    · have h0 : i64CheckedNeg o = some (-o) := by unfold i64CheckedNeg; rw [if_neg he]
      have h1 : i64ToU32 (-o) = none := by
        unfold i64ToU32
        rw [if_neg]
        intro hx
        exact hc ⟨by omega, by omega⟩
      rw [h0]
      show (orInvalidOffset (i64ToU32 (-o)) >>= fun n => File.seekFromEnd h n >>= fun _ => File.offset h) s = _
      rw [h1]; rfl
  | current o => cases hk

/-- `Start` / `End` with an accepted argument: the first manager call is the seek. -/
theorem ioSeek_conv_ok (s : Mgr) (h pos : Nat) (p : SeekFrom) (hk : p.isCurrent = false) (hc : ConvOK pos p) :
    ∃ m : M Unit, File.ioSeek h p s = (call m >>= fun _ => File.offset h) s ∧
      (∀ s', h ∉ s'.files.map (·.rawFile) → m s' = (.err .BadHandle, s')) := by
  cases p with
  | start o =>
    have h1 : u64ToU32 o = some o := by unfold u64ToU32; rw [if_pos (show o ≤ U32_MAX from hc)]
    refine ⟨fileSeekFromStart h o, ?_, fun s' hb => Tables.seekStart_bad o hb⟩
    unfold File.ioSeek; simp only; rw [h1]; rfl
  | end_ o =>
    have hc' : -(U32_MAX : Int) ≤ o ∧ o ≤ 0 := hc
    have h0 : i64CheckedNeg o = some (-o) := by
      unfold i64CheckedNeg
      rw [if_neg]
      intro he
      rw [he] at hc'
      exact absurd hc'.1 (by decide)
    have h1 : i64ToU32 (-o) = some (-o).toNat := by
      unfold i64ToU32
      rw [if_pos ⟨by omega, by omega⟩]
    refine ⟨fileSeekFromEnd h (-o).toNat, ?_, fun s' hb => Tables.seekEnd_bad _ hb⟩
    unfold File.ioSeek; simp only; rw [h0]
    show (orInvalidOffset (i64ToU32 (-o)) >>= fun n => File.seekFromEnd h n >>= fun _ => File.offset h) s = _
    rw [h1]; rfl
  | current o => cases hk

/-- `Current`: the position is read first — with the manager borrowed the answer is `LockError`
whatever the offset … -/
theorem ioSeek_current_locked (s : Mgr) (h : Nat) (o : Int) (hl : s.locked = true) :
    File.ioSeek h (.current o) s = (.err .LockError, s) := by
  rw [ioSeek_current_unfold]
  exact bind_err (call_locked _ hl)

/-- … and on a handle that is not open it is `BadHandle` whatever the offset. -/
theorem ioSeek_current_bad (s : Mgr) (h : Nat) (o : Int) (hl : s.locked = false)
    (hb : h ∉ s.files.map (·.rawFile)) : File.ioSeek h (.current o) s = (.err .BadHandle, s) := by
  rw [ioSeek_current_unfold]
  refine bind_err ?_
  rw [call_unlocked _ hl]; exact Tables.offset_bad hb

/-- Handle not open, manager not borrowed: `BadHandle` — for `Current` always, for `Start` / `End`
when the conversions accepted the argument (the seek fails, `offset()` is not reached). -/
theorem ioSeek_bad (s : Mgr) (h pos : Nat) (p : SeekFrom) (hl : s.locked = false)
    (hc : p.isCurrent = true ∨ ConvOK pos p) (hb : h ∉ s.files.map (·.rawFile)) :
    File.ioSeek h p s = (.err .BadHandle, s) := by
  cases hk : p.isCurrent with
  | true =>
    cases p with
    | current o => exact ioSeek_current_bad s h o hl hb
    | start o => cases hk
    | end_ o => cases hk
  | false =>
    have hc' : ConvOK pos p := by
      rcases hc with hc | hc
      · rw [hk] at hc; cases hc
      · exact hc
    obtain ⟨m, he, hm⟩ := ioSeek_conv_ok s h pos p hk hc'
    rw [he]
    refine bind_err ?_
    rw [call_unlocked _ hl]; exact hm s hb

/-- Manager borrowed: `LockError` — for `Current` always, for `Start` / `End` when the conversions
accepted the argument. -/
theorem ioSeek_locked (s : Mgr) (h pos : Nat) (p : SeekFrom) (hl : s.locked = true)
    (hc : p.isCurrent = true ∨ ConvOK pos p) : File.ioSeek h p s = (.err .LockError, s) := by
  cases hk : p.isCurrent with
  | true =>
    cases p with
    | current o => exact ioSeek_current_locked s h o hl
    | start o => cases hk
    | end_ o => cases hk
  | false =>
    have hc' : ConvOK pos p := by
      rcases hc with hc | hc
      · rw [hk] at hc; cases hc
      · exact hc
    obtain ⟨m, he, _⟩ := ioSeek_conv_ok s h pos p hk hc'
    rw [he]
    exact bind_err (call_locked _ hl)

/-- `Seek::seek` answers `Ok` or one of three errors, in EVERY state and for EVERY argument; an
error leaves the state as it was, a success changes one offset in the file table. -/
theorem ioSeek_total (s : Mgr) (h : Nat) (p : SeekFrom) :
    (∃ t i f, File.ioSeek h p s = (.ok t, seekTo s i f t)) ∨
    (∃ e, File.ioSeek h p s = (.err e, s) ∧ (e = .InvalidOffset ∨ e = .BadHandle ∨ e = .LockError)) := by
  by_cases hc : p.isCurrent = true ∨ ConvOK 0 p
  · cases hl : s.locked with
    | true => exact .inr ⟨_, ioSeek_locked s h 0 p hl hc, .inr (.inr rfl)⟩
    | false =>
      rcases file_handle_cases s h with hb | ⟨i, f, hh, hf⟩
      · exact .inr ⟨_, ioSeek_bad s h 0 p hl hc hb, .inr (.inl rfl)⟩
      · have hs := ioSeek_spec hl hh hf p
        by_cases hq : ConvOK f.currentOffset p
        · rw [if_pos hq] at hs
          cases hq' : seekSpec f.entry.size f.currentOffset p with
          | some t => rw [hq'] at hs; exact .inl ⟨t, i, f, hs⟩
          | none => rw [hq'] at hs; exact .inr ⟨_, hs, .inl rfl⟩
        · rw [if_neg hq] at hs; exact .inr ⟨_, hs, .inl rfl⟩
  · have hk : p.isCurrent = false := by
      cases hk : p.isCurrent with
      | true => exact absurd (.inl hk) hc
      | false => rfl
    exact .inr ⟨_, ioSeek_conv_fail s h 0 p hk (fun hx => hc (.inr hx)), .inl rfl⟩

/-! ### The arithmetic excludes no legitimate target -/

/-- The `Current` side condition, spelled with the two Rust steps: `checked_add` succeeds and the sum
fits `u32`. -/
theorem convOK_current_iff (pos : Nat) (o : Int) :
    ConvOK pos (.current o) ↔
      (I64_MIN ≤ (pos : Int) + o ∧ (pos : Int) + o ≤ I64_MAX) ∧ 0 ≤ (pos : Int) + o ∧ (pos : Int) + o ≤ (U32_MAX : Int) := by
  have hU : (U32_MAX : Int) = 4294967295 := rfl
  have hmin : I64_MIN = -9223372036854775808 := rfl
  have hmax : I64_MAX = 9223372036854775807 := rfl
  show (0 ≤ (pos : Int) + o ∧ (pos : Int) + o ≤ (U32_MAX : Int)) ↔ _
  constructor
  · intro hc; exact ⟨⟨by omega, by omega⟩, hc⟩
  · intro hc; exact hc.2

/-- **Every target inside the file passes the arithmetic** (file sizes fit `u32`). -/
theorem conv_complete (size pos : Nat) (p : SeekFrom) (hsz : size ≤ U32_MAX)
    (ht : (seekSpec size pos p).isSome) : ConvOK pos p := by
  have hU : (U32_MAX : Int) = 4294967295 := rfl
  have hU' : U32_MAX = 4294967295 := rfl
  cases p with
  | start o =>
    rw [seekSpec_start] at ht
    show o ≤ U32_MAX
    by_cases hz : o ≤ size
    · omega
    · rw [if_neg hz] at ht; cases ht
  | end_ o =>
    rw [seekSpec_end] at ht
    show -(U32_MAX : Int) ≤ o ∧ o ≤ 0
    by_cases hz : 0 ≤ (size : Int) + o ∧ (size : Int) + o ≤ (size : Int)
    · constructor <;> omega
    · rw [if_neg hz] at ht; cases ht
  | current o =>
    rw [seekSpec_current] at ht
    show 0 ≤ (pos : Int) + o ∧ (pos : Int) + o ≤ (U32_MAX : Int)
    by_cases hz : 0 ≤ (pos : Int) + o ∧ (pos : Int) + o ≤ (size : Int)
    · constructor <;> omega
    · rw [if_neg hz] at ht; cases ht

/-- A relative offset whose sum with the position overflows `i64` names a target outside the file. -/
theorem overflow_outside (size pos : Nat) (o : Int) (hsz : size ≤ U32_MAX)
    (hov : ¬ (I64_MIN ≤ (pos : Int) + o ∧ (pos : Int) + o ≤ I64_MAX)) :
    seekSpec size pos (.current o) = none := by
  have hU' : U32_MAX = 4294967295 := rfl
  have hmin : I64_MIN = -9223372036854775808 := rfl
  have hmax : I64_MAX = 9223372036854775807 := rfl
  rw [seekSpec_current, if_neg]
  intro hz
  exact hov ⟨by omega, by omega⟩

section
variable {s : Mgr} {h i : Nat} {f : FileInfo}

/-- On an open file whose length fits `u32`: `Seek::seek` IS the byte-array cursor. -/
theorem ioSeek_exact (hl : s.locked = false) (hh : s.files.findIdx? (·.rawFile = h) = some i)
    (hf : s.files[i]? = some f) (hsz : f.entry.size ≤ U32_MAX) (p : SeekFrom) :
    File.ioSeek h p s =
      match seekSpec f.entry.size f.currentOffset p with
      | some t => (.ok t, seekTo s i f t)
      | none => (.err .InvalidOffset, s) := by
  rw [ioSeek_spec hl hh hf p]
  by_cases hc : ConvOK f.currentOffset p
  · rw [if_pos hc]
  · rw [if_neg hc]
    cases hq : seekSpec f.entry.size f.currentOffset p with
    | none => rfl
    | some t => exact absurd (conv_complete _ _ p hsz (by rw [hq]; rfl)) hc

end

end Sdmmc.Lemmas.Wrap
