/-
C16 over all calls, part 2 — the calls that touch neither the volume table nor the medium (`Keeps`):
`open_root_dir`, `open_dir`, `close_dir`, `read`, the seeks, `find_directory_entry`, `iterate_dir`,
`iterate_dir_lfn`, `length`, `offset`, `eof`, `get_root_volume_label`.  Proved by a small copy of the
`resp` automation of `Lemmas.MHoare`.
-/
import Sdmmc.Lemmas.TablesInv
import Sdmmc.Lemmas.VolApiRO
import Sdmmc.Lemmas.CrashMgr

namespace Sdmmc.Lemmas.AcctAll
open Sdmmc.Model Sdmmc.Lemmas.MHoare

/-- `m` leaves the volume table and the medium as they are. -/
def Keeps {α} (m : M α) : Prop := ∀ s, (m s).2.vols = s.vols ∧ (m s).2.dev.disk = s.dev.disk

theorem keeps_pure {α} (a : α) : Keeps (pure a : M α) := fun _ => ⟨rfl, rfl⟩
theorem keeps_fail {α} (e : Err) : Keeps (M.fail e : M α) := fun _ => ⟨rfl, rfl⟩
theorem keeps_panic {α} (msg : String) : Keeps (M.panic msg : M α) := fun _ => ⟨rfl, rfl⟩
theorem keeps_lift {α} (r : Res α) : Keeps (M.lift r) := fun _ => ⟨rfl, rfl⟩
theorem keeps_get : Keeps M.get := fun _ => ⟨rfl, rfl⟩
theorem keeps_generate : Keeps generate := fun _ => ⟨rfl, rfl⟩

theorem keeps_bind {α β} {m : M α} {f : α → M β} (hm : Keeps m) (hf : ∀ a, Keeps (f a)) : Keeps (m >>= f) := by
  intro s
  have h1 := hm s
  rw [bind_def]
  rcases hms : m s with ⟨r, s'⟩
  rw [hms] at h1
  cases r with
  | ok a => exact ⟨(hf a s').1.trans h1.1, (hf a s').2.trans h1.2⟩
  | err e => exact h1
  | panic msg => exact h1
  | diverged => exact h1

theorem keeps_attempt {α} {m : M α} (hm : Keeps m) : Keeps (M.attempt m) := fun s => hm s
theorem keeps_ite {α} {c : Prop} [Decidable c] {a b : M α} (ha : Keeps a) (hb : Keeps b) :
    Keeps (if c then a else b) := by split <;> assumption

theorem keeps_getFileById (raw : Nat) : Keeps (getFileById raw) := by
  intro s; unfold getFileById; split <;> exact ⟨rfl, rfl⟩
theorem keeps_getDirById (raw : Nat) : Keeps (getDirById raw) := by
  intro s; unfold getDirById; split <;> exact ⟨rfl, rfl⟩
theorem keeps_getVolumeById (raw : Nat) : Keeps (getVolumeById raw) := by
  intro s; unfold getVolumeById; split <;> exact ⟨rfl, rfl⟩
theorem keeps_getDir (i : Nat) : Keeps (getDir i) := by
  intro s; unfold getDir; split <;> exact ⟨rfl, rfl⟩
theorem keeps_getFile (i : Nat) : Keeps (getFile i) := by
  intro s; unfold getFile; split <;> exact ⟨rfl, rfl⟩
theorem keeps_getVolInfo (i : Nat) : Keeps (getVolInfo i) := by
  intro s; unfold getVolInfo; split <;> exact ⟨rfl, rfl⟩
theorem keeps_toSfn (name : List Nat) : Keeps (toSfn name) := by
  unfold toSfn; split
  · exact keeps_pure _
  · exact keeps_fail _
theorem keeps_modifyFile (i : Nat) (g : FileInfo → FileInfo) : Keeps (modifyFile i g) := fun _ => ⟨rfl, rfl⟩
theorem keeps_setFile (i : Nat) (f : FileInfo) : Keeps (setFile i f) := fun _ => ⟨rfl, rfl⟩

/-- A read-only FAT computation run on a volume slot. -/
theorem keeps_withVol {α} (volIdx : Nat) (f : F α) (hf : FatOps.ReadOnly f) : Keeps (withVol volIdx f) := by
  intro s
  obtain ⟨dev', cache', he, hd, _, _⟩ := VolApi.withVol_ro_state volIdx f hf s
  rw [he]
  exact ⟨rfl, hd⟩

syntax "keeps_step" : tactic
macro_rules
  | `(tactic| keeps_step) => `(tactic| with_reducible first
    | exact keeps_pure _
    | exact keeps_fail _
    | exact keeps_panic _
    | exact keeps_lift _
    | exact keeps_get
    | exact keeps_generate
    | exact keeps_getFileById _
    | exact keeps_getDirById _
    | exact keeps_getVolumeById _
    | exact keeps_getDir _
    | exact keeps_getFile _
    | exact keeps_getVolInfo _
    | exact keeps_toSfn _
    | exact keeps_modifyFile _ _
    | exact keeps_setFile _ _
    | assumption
    | apply keeps_attempt
    | apply keeps_bind
    | apply keeps_ite
    | intro _)

macro "keeps" : tactic => `(tactic| repeat' (first | keeps_step | with_reducible split))

theorem keeps_modify_dirs (g : List DirInfo → List DirInfo) : Keeps (M.modify fun s => { s with dirs := g s.dirs }) :=
  fun _ => ⟨rfl, rfl⟩

theorem keeps_openRootDir (v : Nat) : Keeps (openRootDir v) := by
  unfold openRootDir
  keeps
  exact fun _ => ⟨rfl, rfl⟩

theorem keeps_openDir (d : Nat) (name : List Nat) : Keeps (openDir d name) := by
  unfold openDir
  keeps
  · exact fun _ => ⟨rfl, rfl⟩
  · exact keeps_withVol _ _ (DirMgr.findDirectoryEntry_readOnly _ _)
  · exact fun _ => ⟨rfl, rfl⟩

theorem keeps_closeDir (d : Nat) : Keeps (closeDir d) := by
  unfold closeDir
  keeps
  exact fun _ => ⟨rfl, rfl⟩

theorem keeps_find (d : Nat) (name : List Nat) : Keeps (Model.findDirectoryEntry d name) := by
  unfold Model.findDirectoryEntry
  keeps
  exact keeps_withVol _ _ (DirMgr.findDirectoryEntry_readOnly _ _)

theorem keeps_iterateDir (d : Nat) : Keeps (iterateDir d) := by
  unfold iterateDir
  keeps
  exact keeps_withVol _ _ (VolApi.iterateRaw_readOnly _)

theorem keeps_iterateDirLfn (d n : Nat) : Keeps (iterateDirLfn d n) := by
  unfold iterateDirLfn
  keeps
  exact keeps_withVol _ _ (VolApi.iterateRaw_readOnly _)

theorem keeps_fileEof (f : Nat) : Keeps (fileEof f) := by unfold fileEof; keeps
theorem keeps_fileLength (f : Nat) : Keeps (fileLength f) := by unfold fileLength; keeps
theorem keeps_fileOffset (f : Nat) : Keeps (fileOffset f) := by unfold fileOffset; keeps
theorem keeps_seekStart (f n : Nat) : Keeps (fileSeekFromStart f n) := by unfold fileSeekFromStart; keeps
theorem keeps_seekCur (f : Nat) (n : Int) : Keeps (fileSeekFromCurrent f n) := by unfold fileSeekFromCurrent; keeps
theorem keeps_seekEnd (f n : Nat) : Keeps (fileSeekFromEnd f n) := by unfold fileSeekFromEnd; keeps

theorem keeps_readLoop (fi vi so : Nat) : ∀ fuel space acc, Keeps (readLoop fi vi so fuel space acc) := by
  intro fuel
  induction fuel with
  | zero => intro space acc; unfold readLoop; keeps
  | succ n ih =>
    intro space acc; unfold readLoop
    keeps
    · exact keeps_withVol _ _ (CrashMgr.findDataOnDisk_readOnly _ _ _)
    · exact keeps_withVol _ _ (FatOps.ReadOnly.bind (FatOps.ReadOnly.cacheRead _) fun _ => FatOps.ReadOnly.cacheBlk)
    · exact ih _ _

theorem keeps_read (f n : Nat) : Keeps (Model.read f n) := by
  unfold Model.read
  keeps
  exact keeps_readLoop _ _ _ _ _ _

theorem keeps_label (v : Nat) : Keeps (getRootVolumeLabel v) := by
  have h1 := keeps_openRootDir
  have h2 := keeps_iterateDir
  have h3 := keeps_closeDir
  unfold getRootVolumeLabel
  keeps
  · exact h1 _
  · exact h2 _
  · exact h3 _

end Sdmmc.Lemmas.AcctAll
