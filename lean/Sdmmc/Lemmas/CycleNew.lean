/-
The fill / delete / refill cycle without glue (C05), part 1 — `write_new_directory_entry` again
(`Lemmas.VolEng.writeNew_stage`), this time saying WHICH of its two writing outcomes happened
(`NewSlotCase`): the directory had a free slot (same volume record, same medium, same chains up to
the one slot written), or it had none and grew by one cluster `c` (one allocation: `Acct … 1`; the
directory's chain is the old one followed by `c`; every other chain is as before).
The proof is the proof of `writeNew_stage` with the extra conclusion carried along.
-/
import Sdmmc.Lemmas.VolEng6
import Sdmmc.Lemmas.AcctBase

namespace Sdmmc.Lemmas.Cycle
open Sdmmc.Model Sdmmc.Model.Fat Sdmmc.Spec.Volume Sdmmc.Lemmas.VolBase Sdmmc.Lemmas.VolTree
open Sdmmc.Spec hiding NoFault Coherent
open Sdmmc.Lemmas.VolDisk Sdmmc.Lemmas.VolMed Sdmmc.Lemmas.VolWalk Sdmmc.Lemmas.VolEng
open Sdmmc.Lemmas.FBasic
open Sdmmc.Lemmas.FatOps hiding BlocksOK Mirror HintOK
open Sdmmc.Lemmas.Acct (Acct)

/-- Which of the two writing outcomes of `write_new_directory_entry` on directory `h` happened: the
state `(v1, d1, G1)` the entry is spliced into is the start state and `old` is the directory's first
free slot; or the directory had no free slot, is chained, and grew by one freshly allocated cluster. -/
def NewSlotCase (fs : FS) (gh : Ghost) (X : List (List Nat)) (h : Nat) (v1 : FatVolume) (d1 : Disk) (G1 : List (List Nat))
    (old : Slot) : Prop :=
  ((dirSlots fs.vol fs.dev.disk gh.G h).find? isFreeSlot = some old ∧ v1 = fs.vol ∧ d1 = fs.dev.disk ∧ G1 = gh.G) ∨
  ((dirSlots fs.vol fs.dev.disk gh.G h).find? isFreeSlot = none ∧ ¬ isFixedRoot fs.vol h ∧
    ∃ c, chainOf G1 (dirHead fs.vol h) = chainOf gh.G (dirHead fs.vol h) ++ [c] ∧
      (∀ x, x ≠ dirHead fs.vol h → chainOf G1 x = chainOf gh.G x) ∧
      Acct fs.vol v1 fs.dev.disk d1 1 ∧ (∀ cs, cs ∈ gh.G ++ X → c ∉ cs))

section
variable {files : List FileInfo} {gh : Ghost} {X : List (List Nat)}

theorem writeNew_count {fs : FS} (hM : MedX fs.vol fs.dev.disk files gh X) (hn : NoFault fs) (hc : Coherent fs) {dc : Nat}
    (hv : ValidDir gh.dirs dc) (name : Bytes) (att fc : Nat) (now : Timestamp) :
    ∃ r fs', writeNewDirectoryEntry dc name att fc now fs = (r, fs') ∧ NoFault fs' ∧ Coherent fs' ∧
      ((r = .err .NotEnoughSpace ∧ fs'.dev.disk = fs.dev.disk ∧ fs'.vol = fs.vol ∧
          (dirSlots fs.vol fs.dev.disk gh.G (dirIdOf dc)).find? isFreeSlot = none) ∨
       (∃ v1 d1 G1 pre post old, Staged fs fs' files gh X (dirIdOf dc) (fun _ => True) r v1 d1 G1 pre post old ∧
          r = .ok (DirEntry.new name att fc now old.1 old.2.1) ∧
          fs'.dev.disk = d1.set old.1 (splice (d1.get old.1) old.2.1
            (DirEntry.serialize v1.fatType (DirEntry.new name att fc now old.1 old.2.1))) ∧
          NewSlotCase fs gh X (dirIdOf dc) v1 d1 G1 old)) := by
  obtain ⟨hh, hcase⟩ := dir_walk_facts hM hv
  have hgh : MedX fs.vol fs.dev.disk files { vol := fs.vol, G := gh.G, dirs := gh.dirs } X :=
    ⟨hM.blocksOK, hM.geom, hM.hint, hM.owns, hM.tree, hM.fileOK⟩
  -- the outcome when a free slot exists in the present slot list
  have hfound : ∀ slot, (dirSlots fs.vol fs.dev.disk gh.G (dirIdOf dc)).find? isFreeSlot = some slot →
      ∀ fs', NoFault fs' → Coherent fs' → fs'.vol = fs.vol →
        fs'.dev.disk = fs.dev.disk.set slot.1 (splice (fs.dev.disk.get slot.1) slot.2.1
          (DirEntry.serialize fs.vol.fatType (DirEntry.new name att fc now slot.1 slot.2.1))) →
        ∃ v1 d1 G1 pre post old, Staged fs fs' files gh X (dirIdOf dc) (fun _ => True)
            (.ok (DirEntry.new name att fc now slot.1 slot.2.1)) v1 d1 G1 pre post old ∧
          (Res.ok (DirEntry.new name att fc now slot.1 slot.2.1) : Res DirEntry) =
            .ok (DirEntry.new name att fc now old.1 old.2.1) ∧
          fs'.dev.disk = d1.set old.1 (splice (d1.get old.1) old.2.1
            (DirEntry.serialize v1.fatType (DirEntry.new name att fc now old.1 old.2.1))) ∧
          NewSlotCase fs gh X (dirIdOf dc) v1 d1 G1 old := by
    intro slot hfs fs' _ _ hv' hd'
    obtain ⟨pre, post, hsp, hpre, hlen, hfree⟩ := free_split hM hh hfs
    exact ⟨fs.vol, fs.dev.disk, gh.G, pre, post, slot,
      ⟨SameGeom.refl _, hgh, fun _ _ => rfl, fun _ _ _ _ _ _ => rfl, hsp, hpre, hlen, hfree, hv', rfl, fun _ _ _ _ => rfl⟩,
      rfl, hd', .inl ⟨hfs, rfl, rfl, rfl⟩⟩
  rcases hcase with ⟨hdc, h16, hsl⟩ | ⟨hkind, hnf, cs, hchain, hstart, hch, hlen, hsl⟩
  · -- the FAT16 fixed root
    subst hdc
    have := writeNew_fixedRoot fs name att fc now hn hc h16
    rw [← hsl] at this
    cases hfs : (dirSlots fs.vol fs.dev.disk gh.G (dirIdOf 4294967292)).find? isFreeSlot with
    | none =>
      rw [hfs] at this
      obtain ⟨fs', hr, hd', hv', hn', hc'⟩ := this
      exact ⟨_, fs', hr, hn', hc', .inl ⟨rfl, hd', hv', rfl⟩⟩
    | some slot =>
      rw [hfs] at this
      obtain ⟨fs', hr, hd', hv', hn', hc', _⟩ := this
      exact ⟨_, fs', hr, hn', hc', .inr (hfound slot hfs fs' hn' hc' hv' hd')⟩
  · -- a chained directory
    cases hfs : (dirSlots fs.vol fs.dev.disk gh.G (dirIdOf dc)).find? isFreeSlot with
    | some slot =>
      obtain ⟨fs', hr, hd', hv', hn', hc', _⟩ :=
        writeNew_chain_found fs dc cs name att fc now hn hc hkind hch (by omega) slot (by rw [← hsl]; exact hfs)
      exact ⟨_, fs', hr, hn', hc', .inr (hfound slot hfs fs' hn' hc' hv' hd')⟩
    | none =>
      obtain ⟨s1, hd1, hv1, hn1, hc1, _, hall⟩ :=
        writeNew_chain_full fs dc cs name att fc now hn hc hkind hch (by omega) (by rw [← hsl]; exact hfs)
      have hM1 : MedX s1.vol s1.dev.disk files gh X := by rw [hd1, hv1]; exact hM
      -- the last cluster of the chain
      have hne : (Listing.startCluster fs.vol dc :: cs) ≠ [] := by simp
      obtain ⟨pre, hpre⟩ : ∃ pre, Listing.startCluster fs.vol dc :: cs =
          pre ++ [(Listing.startCluster fs.vol dc :: cs).getLast hne] :=
        ⟨_, (List.dropLast_append_getLast hne).symm⟩
      generalize hp : (Listing.startCluster fs.vol dc :: cs).getLast hne = p at hpre hall
      rcases ForestAlloc.alloc_total s1 (some p) true hn1 hc1 with ⟨c, s2, ha⟩ | ⟨s2, ha, hd2, hv2, hn2, hc2⟩
      · -- the directory grows
        have hcs1 : chainOf gh.G (dirHead s1.vol (dirIdOf dc)) = pre ++ [p] := by rw [hv1, hchain, hpre]
        obtain ⟨hn2, hc2, hsg, G1, hM2, hch1, hsl1, hzero, hoth, hkeep, hcR, hcnot, hheads1, hchains1⟩ :=
          grow_med hM1 hn1 hc1 hh (by rw [hv1]; exact hnf) hcs1 ha
        rw [hv1, hd1] at hsl1 hoth hkeep
        rw [hv1] at hsg hzero hcR hchains1
        have hbpc : s2.vol.blocksPerCluster = fs.vol.blocksPerCluster := WriteRefines.sameGeom_bpc hsg
        have hctb : clusterToBlock s2.vol c = clusterToBlock fs.vol c := WriteRefines.sameGeom_clusterToBlock hsg c
        have hpos : 0 < fs.vol.blocksPerCluster := hM.geom.bpc_pos
        have hfirst := find?_isFreeSlot_first s2.dev.disk (clusterToBlock fs.vol c) fs.vol.blocksPerCluster hpos (by
          have := hzero 0 hpos
          rw [Nat.add_zero] at this
          rw [this]; decide)
        obtain ⟨r, fs', hrun⟩ : ∃ r fs', writeNewDirectoryEntry dc name att fc now fs = (r, fs') := ⟨_, _, rfl⟩
        rcases hall r fs' hrun with ⟨e, s2', ha', _, _⟩ | ⟨m, s2', ha', _, _⟩ | ⟨s2', ha', _, _⟩ | ⟨c', s2', ha', _, hslot⟩
        · rw [ha] at ha'; cases ha'
        · rw [ha] at ha'; cases ha'
        · rw [ha] at ha'; cases ha'
        · rw [ha] at ha'
          obtain ⟨rfl, rfl⟩ : c = c' ∧ s2 = s2' := by
            have := Prod.mk.inj ha'
            exact ⟨by injection this.1, this.2⟩
          obtain ⟨hr, hd', hv', hn', hc', _, _, _⟩ := hslot _ (by rw [hbpc, hctb]; exact hfirst) hn2 hc2
          refine ⟨r, fs', hrun, hn', hc', .inr ?_⟩
          -- the split of the grown directory
          have hall_nz : ∀ s, s ∈ dirSlots fs.vol fs.dev.disk gh.G (dirIdOf dc) → first s ≠ 0 := by
            intro s hs h0
            have := List.find?_eq_none.1 hfs s hs
            unfold isFreeSlot at this
            simp [h0] at this
          obtain ⟨hfree, as, bs, hrun2, has⟩ := List.find?_eq_some_iff_append.1 hfirst
          have has_nil : as = [] := by
            cases as with
            | nil => rfl
            | cons a l =>
              exfalso
              have hmem : a ∈ runSlots s2.dev.disk (clusterToBlock fs.vol c) fs.vol.blocksPerCluster := by
                rw [hrun2]; exact List.mem_append_left _ List.mem_cons_self
              have h0 := runSlots_zero hzero a hmem
              have := has a List.mem_cons_self
              unfold isFreeSlot at this
              simp [h0] at this
          rw [has_nil, List.nil_append] at hrun2
          refine ⟨s2.vol, s2.dev.disk, G1, dirSlots fs.vol fs.dev.disk gh.G (dirIdOf dc), bs, _,
            ⟨hsg, hM2, ?_, ?_, ?_, hall_nz, ?_, ?_, hv', ?_, ?_⟩, hr, hd', .inr ⟨hfs, hnf, c, ?_, hchains1, ?_, hcnot⟩⟩
          · intro x hx
            by_cases hxh : x = dirIdOf dc
            · rw [hxh, hsl1, entries_append_zeros _ _ (runSlots_zero hzero)]
            · rw [hoth x hx hxh]
          · intro c' j h2 hE hex hj
            obtain ⟨cs', hcs', hc'⟩ := hex
            exact hkeep c' j h2 hE (fun e => hcnot cs' hcs' (e ▸ hc')) hj
          · rw [hsl1, hrun2]
          · intro h0
            rcases mem_dirIds.1 hh with e | ⟨q, hq⟩
            · exact absurd e h0
            · obtain ⟨s0, s1', rest, hss, _, _⟩ := hM.tree.dots _ q hq
              rw [hss]; simp
          · unfold isFreeSlot at hfree
            simpa [freeSlot] using hfree
          · exact hheads1
          · intro x _ hxr hxd
            apply hchains1
            intro e
            rcases dirHead_cases hh hnf with h1 | h1
            · exact hxr (e ▸ h1)
            · exact hxd (e ▸ h1)
          · rw [← hv1, hch1, hcs1]
          · have hmp := (dirChain_spec hM1 hh (by rw [hv1]; exact hnf)).1
            rw [hcs1] at hmp
            have hpm : p ∈ pre ++ [p] := List.mem_append_right _ (List.mem_singleton.2 rfl)
            have hpu := ForestStep.owns_mem_used hM1.owns (List.mem_flatten_of_mem (List.mem_append_left _ hmp) hpm)
            have := Acct.alloc_acct s1 s2 (some p) true c hn1 hc1 hM1.blocksOK hM1.geom hM1.hint
              (fun q hq => by cases hq; exact ⟨hpu.1.2, hpu.2.1⟩) ha
            rw [hv1, hd1] at this
            exact this
      · -- the volume is full
        obtain ⟨r, fs', hrun⟩ : ∃ r fs', writeNewDirectoryEntry dc name att fc now fs = (r, fs') := ⟨_, _, rfl⟩
        rcases hall r fs' hrun with ⟨e, s2', ha', hr, hs'⟩ | ⟨m, s2', ha', _, _⟩ | ⟨s2', ha', _, _⟩ | ⟨c', s2', ha', _, _⟩
        · rw [ha] at ha'
          obtain ⟨rfl, rfl⟩ : Err.NotEnoughSpace = e ∧ s2 = s2' := by
            have := Prod.mk.inj ha'
            exact ⟨by injection this.1, this.2⟩
          subst hs'
          exact ⟨r, fs', hrun, hn2, hc2, .inl ⟨hr, hd2.trans hd1, hv2.trans hv1, rfl⟩⟩
        · rw [ha] at ha'; cases ha'
        · rw [ha] at ha'; cases ha'
        · rw [ha] at ha'; cases ha'


/-- No block of the FAT region is a block of a directory slot: writing a slot keeps both FAT copies. -/
theorem slot_write_fat (hM : MedX v d files gh X) {h : Nat} (hh : h ∈ dirIds gh.dirs) {old : Slot}
    (hold : old ∈ dirSlots v d gh.G h) (blk : Block) : ∀ b, IsFatBlock v b → (d.set old.1 blk).get b = d.get b := by
  intro b hb
  apply Disk.get_set_ne
  intro e
  obtain ⟨c, hc, hcase⟩ := hb
  have hreg : regionOf v b = .fat := by
    rcases hcase with e1 | e2
    · rw [e1]; exact (FatLens.fat_blocks_in_fat_region v hM.geom c hc).1
    · exact (FatLens.fat_blocks_in_fat_region v hM.geom c hc).2 b e2
  rw [← e] at hreg
  rcases dirSlot_not_fat hM hh hold with h1 | h1 <;> rw [h1] at hreg <;> cases hreg

/-- **A file entry is created** — `Lemmas.VolEng.create_file_med` with the accounting: the chains
afterwards are `G1`; the entry went into slot `old` of the directory, whose slot list is now
`pre ++ new :: post`; and either the directory had a free slot (`old` is its first one; same chains;
nothing taken: `Acct … 0`), or it grew by one cluster (`Acct … 1`). -/
theorem create_file_count {fs : FS} (hM : MedX fs.vol fs.dev.disk files gh X) (hn : NoFault fs) (hc : Coherent fs) {dc : Nat}
    (hv : ValidDir gh.dirs dc) (name : Bytes) (hlen : name.length = 11) (h0 : byteAt name 0 ≠ 0) (hE5 : byteAt name 0 ≠ 0xE5)
    (hfresh : name ∉ (entries (dirSlots fs.vol fs.dev.disk gh.G (dirIdOf dc))).map sName) (now : Timestamp) :
    ∃ r fs', writeNewDirectoryEntry dc name 0 0 now fs = (r, fs') ∧ NoFault fs' ∧ Coherent fs' ∧
      ((r = .err .NotEnoughSpace ∧ fs'.dev.disk = fs.dev.disk ∧ fs'.vol = fs.vol ∧
          (dirSlots fs.vol fs.dev.disk gh.G (dirIdOf dc)).find? isFreeSlot = none) ∨
       (∃ e G1 pre post old, r = .ok e ∧ SameGeom fs.vol fs'.vol ∧
          MedX fs'.vol fs'.dev.disk files { vol := fs'.vol, G := G1, dirs := gh.dirs } X ∧
          e = DirEntry.new name 0 0 now old.1 old.2.1 ∧
          dirSlots fs'.vol fs'.dev.disk G1 (dirIdOf dc) =
            pre ++ (old.1, old.2.1, DirEntry.serialize fs'.vol.fatType e) :: post ∧
          (old.1, old.2.1, DirEntry.serialize fs'.vol.fatType e) ∈
            objects (dirIdOf dc) (dirSlots fs'.vol fs'.dev.disk G1 (dirIdOf dc)) ∧
          isDirE (old.1, old.2.1, DirEntry.serialize fs'.vol.fatType e) = false ∧
          sName (old.1, old.2.1, DirEntry.serialize fs'.vol.fatType e) = name ∧
          sAttr (old.1, old.2.1, DirEntry.serialize fs'.vol.fatType e) = 0 ∧
          sCluster fs'.vol.fatType (old.1, old.2.1, DirEntry.serialize fs'.vol.fatType e) = 0 ∧
          sSize (old.1, old.2.1, DirEntry.serialize fs'.vol.fatType e) = 0 ∧
          pendOf files (old.1, old.2.1, DirEntry.serialize fs'.vol.fatType e) = none ∧
          (((dirSlots fs.vol fs.dev.disk gh.G (dirIdOf dc)).find? isFreeSlot = some old ∧ G1 = gh.G ∧ fs'.vol = fs.vol ∧
              dirSlots fs.vol fs.dev.disk gh.G (dirIdOf dc) = pre ++ old :: post ∧
              (∀ x, x ∈ dirIds gh.dirs → x ≠ dirIdOf dc →
                dirSlots fs'.vol fs'.dev.disk G1 x = dirSlots fs.vol fs.dev.disk gh.G x) ∧
              Acct fs.vol fs'.vol fs.dev.disk fs'.dev.disk 0) ∨
           ((dirSlots fs.vol fs.dev.disk gh.G (dirIdOf dc)).find? isFreeSlot = none ∧ ¬ isFixedRoot fs.vol (dirIdOf dc) ∧
              ∃ c, chainOf G1 (dirHead fs.vol (dirIdOf dc)) = chainOf gh.G (dirHead fs.vol (dirIdOf dc)) ++ [c] ∧
                (∀ x, x ≠ dirHead fs.vol (dirIdOf dc) → chainOf G1 x = chainOf gh.G x) ∧
                (∀ cs, cs ∈ gh.G ++ X → c ∉ cs) ∧
                Acct fs.vol fs'.vol fs.dev.disk fs'.dev.disk 1)))) := by
  obtain ⟨r, fs', hrun, hn', hc', hcase⟩ := writeNew_count hM hn hc hv name 0 0 now
  refine ⟨r, fs', hrun, hn', hc', ?_⟩
  rcases hcase with hfail | ⟨v1, d1, G1, pre, post, old, hS, hr, hd', hcase2⟩
  · exact .inl hfail
  · right
    obtain ⟨hh, _⟩ := validDir_id hM hv
    have hM1 := hS.med
    have hh1 : dirIdOf dc ∈ dirIds ({ vol := v1, G := G1, dirs := gh.dirs } : Ghost).dirs := hh
    set e := DirEntry.new name 0 0 now old.1 old.2.1 with he
    obtain ⟨hbl, hfirst, hsn, hsa, hsc, hss⟩ := new_entry_slot v1.fatType name 0 0 now old.1 old.2.1 hlen (by decide)
      (by cases v1.fatType <;> decide)
    set bytes := DirEntry.serialize v1.fatType e with hbytes
    have hE := slotEdit_write hM1 hh1 hS.split hS.pre_nz hS.pre_len bytes hbl (by rw [hfirst]; exact h0)
    have hkeep : keep (old.1, old.2.1, bytes) = true := by
      unfold keep isFrag
      rw [hfirst, hsa]
      simp [hE5]
    have hnd : isDirE (old.1, old.2.1, bytes) = false := by
      unfold isDirE; rw [hsa]; decide
    have hold_mem : old ∈ dirSlots v1 d1 G1 (dirIdOf dc) := by rw [hS.split]; simp
    have hpend := pendOf_free_none hM1 hh1 hold_mem hS.free (old.1, old.2.1, bytes) rfl
    have htree := tree_insert_file hM1.tree (med_heads hM1) hE hS.free hkeep hnd
      (by rw [hsn, hS.entries_eq _ hh]; exact hfresh) hsc hss hpend
    obtain ⟨hb', hfat', hslots', hother'⟩ := slot_write hM1 hh1 hS.split bytes hbl
    have hM' := medX_rebuild hM1 hb' hfat' (gh' := { vol := v1, G := G1, dirs := gh.dirs }) rfl htree hM1.fileOK
    have hM'' : MedX fs'.vol fs'.dev.disk files { vol := fs'.vol, G := G1, dirs := gh.dirs } X := by
      rw [hd', hS.vol']; exact hM'
    have hacct0 : Acct v1 v1 d1 fs'.dev.disk 0 := by
      rw [hd']
      exact Acct.acct_of_fat_eq (slot_write_fat hM1 hh1 hold_mem _)
    have hobj : (old.1, old.2.1, bytes) ∈ objects (dirIdOf dc) (dirSlots fs'.vol fs'.dev.disk G1 (dirIdOf dc)) := by
      obtain ⟨A, _, hO', _, _⟩ := hE.objects_eq hM1.tree (hE.post_zero hM1.tree)
      rw [if_pos hkeep] at hO'
      rw [hS.vol', hd', hO']
      simp
    refine ⟨e, G1, pre, post, old, hr, by rw [hS.vol']; exact hS.sameGeom, hM'', rfl, ?_, ?_, ?_, ?_, ?_, ?_, ?_, ?_, ?_⟩
    · rw [hS.vol', hd']; exact hslots'
    · have := hobj; rw [hS.vol'] at this ⊢; exact this
    · rw [hS.vol']; exact hnd
    · rw [hS.vol']; exact hsn
    · rw [hS.vol']; exact hsa
    · rw [hS.vol']; exact hsc
    · rw [hS.vol']; exact hss
    · rw [hS.vol']; exact hpend
    · rcases hcase2 with ⟨hfs, e1, e2, e3⟩ | ⟨hfs, hnf, c, hch, hoth, hacct, hcnot⟩
      · left
        subst e1; subst e2; subst e3
        refine ⟨hfs, rfl, hS.vol', hS.split, ?_, ?_⟩
        · intro x hx hne
          rw [hS.vol', hd']
          exact hother' x hx hne
        · rw [hS.vol']; exact hacct0
      · right
        refine ⟨hfs, hnf, c, hch, hoth, hcnot, ?_⟩
        have := Acct.Acct.trans hS.sameGeom hacct hacct0
        rw [hS.vol']
        exact this


end

end Sdmmc.Lemmas.Cycle
