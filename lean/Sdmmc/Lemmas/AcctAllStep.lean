/-
C16 over all calls, part 3 — the balance `Bal δ` ("the in-memory free count plus `δ` is the number of free
FAT entries"), the no-saturation condition `DeltaOK`, and its preservation by the calls that do not
create or remove directory entries: the read-only calls, `write`, `flush_file`, `close_file`,
`close_volume`.
-/
import Sdmmc.Lemmas.AcctAllKeeps
import Sdmmc.Lemmas.AcctAllBase
import Sdmmc.Lemmas.AcctWrite
import Sdmmc.Lemmas.VolApiWrite
import Sdmmc.Lemmas.ReopenFlush

namespace Sdmmc.Lemmas.AcctAll
open Sdmmc.Model Sdmmc.Model.Fat Sdmmc.Spec.Volume Sdmmc.Lemmas.VolBase Sdmmc.Lemmas.VolTree
open Sdmmc.Spec hiding NoFault Coherent
open Sdmmc.Lemmas.VolDisk Sdmmc.Lemmas.VolMed Sdmmc.Lemmas.VolEng Sdmmc.Lemmas.VolApi
open Sdmmc.Lemmas.MHoare
open Sdmmc.Lemmas.Acct (Acct)

/-- The in-memory free count, when known, plus `δ` is the number of free FAT entries. -/
def Bal (δ : Int) (v : FatVolume) (d : Disk) : Prop :=
  ∀ n, v.freeClustersCount = some n → (n : Int) + δ = (freeCount v d : Int)

/-- The offsets for which neither saturation of the `u32` count can occur: the count does not
under-report (`δ ≤ 0`: otherwise it may stand at 0 while clusters are still handed out, and `0 - 1`
saturates), and it over-reports by so little that giving back every cluster of the volume stays below
`u32::MAX`. -/
def DeltaOK (v : FatVolume) (δ : Int) : Prop := δ ≤ 0 ∧ (endCluster v : Int) - δ ≤ (U32_MAX : Int)

/-- Every open volume is in balance. -/
def CountOK (δ : Int) (s : Mgr) : Prop := ∀ vi, vi ∈ s.vols → Bal δ vi.vol s.dev.disk

theorem deltaOK_sameGeom {v v' : FatVolume} (h : SameGeom v v') {δ : Int} (hd : DeltaOK v δ) : DeltaOK v' δ := by
  unfold DeltaOK at *
  rw [h.endCluster]
  exact hd

/-- Taking `k` clusters keeps the balance. -/
theorem bal_of_acct {v v' : FatVolume} {d d' : Disk} {k : Nat} {δ : Int} (hs : SameGeom v v') (ha : Acct v v' d d' k)
    (hd : DeltaOK v δ) (hb : Bal δ v d) : Bal δ v' d' := by
  intro n hn
  rw [ha.count] at hn
  cases hfc : v.freeClustersCount with
  | none => rw [hfc] at hn; cases hn
  | some m =>
    rw [hfc] at hn
    simp only [Option.map_some, Option.some.injEq] at hn
    have hm := hb m hfc
    have hf := ha.free
    rw [hs.freeCount]
    have hd1 := hd.1
    omega

/-- Giving back `k` clusters keeps the balance. -/
theorem bal_of_gave {v v' : FatVolume} {d d' : Disk} {k : Nat} {δ : Int} (hs : SameGeom v v') (hg : Gave v v' d d' k)
    (hd : DeltaOK v δ) (hb : Bal δ v d) : Bal δ v' d' := by
  intro n hn
  rw [hg.count] at hn
  cases hfc : v.freeClustersCount with
  | none => rw [hfc] at hn; cases hn
  | some m =>
    rw [hfc] at hn
    simp only [Option.map_some, Option.some.injEq] at hn
    have hm := hb m hfc
    have hf := hg.free
    have hle := ForestCount.freeCount_le v d'
    have hd2 := hd.2
    have hsat : satAdd m k = m + k := by
      apply ForestTrunc.satAdd_eq
      have : ((m + k : Nat) : Int) ≤ (U32_MAX : Int) := by
        have h1 : ((m : Int) + k) = (freeCount v d' : Int) - δ := by omega
        have h2 : (freeCount v d' : Int) ≤ (endCluster v : Int) := by exact_mod_cast hle
        push_cast
        omega
      exact_mod_cast this
    rw [hs.freeCount, hf, ← hn, hsat]
    push_cast
    omega

/-- Same volume table, same FAT: same balance. -/
theorem countOK_of_same {s s' : Mgr} {δ : Int} (hv : s'.vols = s.vols)
    (hfat : ∀ vi, vi ∈ s.vols → ∀ c, c < endCluster vi.vol → s'.dev.disk.get (fatBlock vi.vol c) = s.dev.disk.get (fatBlock vi.vol c))
    (h : CountOK δ s) : CountOK δ s' := by
  intro vi hvi n hn
  rw [hv] at hvi
  rw [Acct.freeCount_congr (hfat vi hvi)]
  exact h vi hvi n hn

theorem countOK_keeps {α} {m : M α} (hm : Keeps m) {s : Mgr} {δ : Int} (h : CountOK δ s) : CountOK δ (m s).2 :=
  countOK_of_same (hm s).1 (fun _ _ c _ => by rw [(hm s).2]) h

/-- After a FAT computation on the one open volume that keeps the balance. -/
theorem countOK_afterVol {s : Mgr} {vi : VolInfo} {fs' : FS} {δ : Int} (hb : Bal δ fs'.vol fs'.dev.disk) :
    CountOK δ (afterVol s vi fs') := by
  intro vi' hvi'
  have : vi' = { vi with vol := fs'.vol } := by
    have : vi' ∈ [{ vi with vol := fs'.vol }] := hvi'
    exact List.mem_singleton.1 this
  rw [this]
  exact hb

/-! ### `write` -/

theorem write_countOK {s : Mgr} {gh : Ghost} (hI : VolInv s gh) (file : Nat) (data : Bytes) {δ : Int}
    (hd : DeltaOK gh.vol δ) (h : CountOK δ s) : CountOK δ (Model.write file data s).2 := by
  cases hidx : s.files.findIdx? (·.rawFile = file) with
  | none =>
    have : Model.write file data s = (.err .BadHandle, s) := by
      unfold Model.write
      rw [bind_err (getFileById_bad hidx)]
    rw [this]; exact h
  | some i =>
    obtain ⟨f, hf, _⟩ := findIdx?_some_get hidx
    have hfm : f ∈ s.files := List.mem_of_getElem? hf
    obtain ⟨vi, hv, hvol, hrv, _⟩ := vol_of_file hI hfm
    have hvfind : s.vols.findIdx? (·.rawVolume = f.rawVolume) = some 0 := by rw [hv]; simp [hrv]
    by_cases hmode : f.mode = .ReadOnly
    · rw [WriteRefines.write_readOnly s file i 0 data f hidx hf hvfind hmode]
      exact h
    · have hvi : s.vols[0]? = some vi := by rw [hv]; rfl
      have hM := medX_of_med hI.med
      have hG : HeadsOK gh.G := med_heads hM
      obtain ⟨hok, hcur⟩ := hI.med.fileOK f hfm
      generalize hcsdef : chainOf gh.G f.entry.cluster = cs at hok hcur
      obtain ⟨A, B, hGeq⟩ : ∃ A B, gh.G = withChain A cs B := by
        by_cases hne : cs = []
        · exact ⟨[], gh.G, by rw [hne, WriteRefines.withChain_nil]; rfl⟩
        · have hm : cs ∈ gh.G := by
            rw [← hcsdef] at hne ⊢
            exact (chainOf_spec hG ((chainOf_ne_nil_iff hG).1 hne)).1
          obtain ⟨A, B, h'⟩ := List.append_of_mem hm
          exact ⟨A, B, by rw [WriteRefines.withChain_ne hne, h']; simp⟩
      have hmok : WriteRefines.MOK s := ⟨hI.noFault, hI.coherent, hI.med.blocksOK, hI.unlocked⟩
      obtain ⟨f', v', cs', k, _, hv', _, hsg, _, hacct, _⟩ :=
        Acct.write_acct s file i 0 data f vi cs A B hmok hidx hf hvfind hvi hmode (by rw [hvol]; exact hI.med.geom)
          (by rw [hvol]; exact hI.med.hint) (by rw [hvol]; exact hok) hcur (by rw [hvol, ← hGeq]; exact hI.med.owns)
      -- the volume table afterwards
      have hfr := Tables.resp_write file data s
      have hlen : (Model.write file data s).2.vols.length = 1 := by
        rw [hfr.vols_length, hv]; rfl
      intro vi' hvi'
      have hvi'eq : vi' = v' := by
        obtain ⟨x, hx⟩ : ∃ x, (Model.write file data s).2.vols = [x] := by
          match hvs : (Model.write file data s).2.vols, hlen with
          | [x], _ => exact ⟨x, rfl⟩
        rw [hx] at hv' hvi'
        have h1 : x = v' := by simpa using hv'
        rw [← h1]; exact List.mem_singleton.1 hvi'
      rw [hvi'eq]
      refine bal_of_acct hsg hacct (by rw [hvol]; exact hd) ?_
      exact h vi (by rw [hv]; exact List.mem_singleton.2 rfl)

/-! ### `flush_file`, `close_file` -/

/-- The directory slot of an open file of a sound volume: inside its block, 11 name bytes, not in the FAT. -/
theorem file_slot_facts {s : Mgr} {gh : Ghost} (hI : VolInv s gh) {f : FileInfo} (hf : f ∈ s.files) :
    f.entry.entryOffset + 32 ≤ 512 ∧ f.entry.name.length = 11 ∧
    (regionOf gh.vol f.entry.entryBlock = .data ∨ regionOf gh.vol f.entry.entryBlock = .root) ∧
    ¬ (f.entry.size ≠ 0 ∧ f.entry.cluster = 0) := by
  have hM := medX_of_med hI.med
  obtain ⟨h, hh, o, ho, hb, hoff, _, hname, _⟩ := hI.med.tree.fileSlots f hf
  have hom := mem_of_mem_objects ho
  obtain ⟨j, hj, hje⟩ := mem_dirSlots_offset hom
  have hlen := mem_dirSlots_length hI.med.blocksOK hom
  refine ⟨by rw [← hoff, hje]; omega, ?_, by rw [← hb]; exact dirSlot_not_fat hM hh hom, ?_⟩
  · rw [← hname]
    show (o.2.2.take 11).length = 11
    rw [List.length_take, hlen]; rfl
  · rintro ⟨hs, hcl⟩
    obtain ⟨hok, _⟩ := hI.med.fileOK f hf
    rcases hok.chain with ⟨_, _, h0⟩ | hch
    · exact hs h0
    · have := (ChainL.chain_inRange hch _ (ForestBase.chain_head_mem hch)).1
      omega

theorem flush_countOK {s : Mgr} {gh : Ghost} (hI : VolInv s gh) (file : Nat) {δ : Int} (h : CountOK δ s) :
    CountOK δ (flushFile file s).2 := by
  cases hidx : s.files.findIdx? (·.rawFile = file) with
  | none =>
    have : flushFile file s = (.err .BadHandle, s) := by
      unfold flushFile
      rw [bind_err (getFileById_bad hidx)]
    rw [this]; exact h
  | some i =>
    obtain ⟨f, hf, _⟩ := findIdx?_some_get hidx
    have hfm : f ∈ s.files := List.mem_of_getElem? hf
    by_cases hdirty : f.dirty = true
    · obtain ⟨vi, hv, hvol, hrv, _⟩ := vol_of_file hI hfm
      have hvfind : s.vols.findIdx? (·.rawVolume = f.rawVolume) = some 0 := by rw [hv]; simp [hrv]
      have hvi : s.vols[0]? = some vi := by rw [hv]; rfl
      obtain ⟨ho, hname, hreg, hassert⟩ := file_slot_facts hI hfm
      obtain ⟨s1, hfl, hfd, _, _, _, hagree⟩ :=
        Reopen.flushFile_spec s file i 0 f vi ⟨hI.noFault, hI.coherent, hI.med.blocksOK, hI.unlocked⟩ hidx hf hvfind hvi hdirty
          hassert ho hname
      rw [hfl]
      unfold Reopen.Flushed at hfd
      refine countOK_of_same (by rw [hfd]) ?_ h
      intro vi' hvi' c hc
      rw [hv] at hvi'
      have : vi' = vi := List.mem_singleton.1 hvi'
      subst this
      have hrf := (FatLens.fat_blocks_in_fat_region vi'.vol (by rw [hvol]; exact hI.med.geom) c hc).1
      refine Reopen.agreeOff_region vi'.vol (by rw [hvol]; exact hI.med.geom) _ _ _ hagree _ ?_ (by rw [hrf]; intro e; cases e)
      intro e
      rw [e, hvol] at hrf
      rcases hreg with h1 | h1 <;> rw [hrf] at h1 <;> cases h1
    · have hd' : f.dirty = false := by simpa using hdirty
      rw [DirMgr.flushFile_clean file i f s (getFileById_ok hidx) (getFile_ok hf) hd']
      exact h

theorem close_countOK {s : Mgr} {gh : Ghost} (hI : VolInv s gh) (file : Nat) {δ : Int} (h : CountOK δ s) :
    CountOK δ (closeFile file s).2 := by
  have h1 := flush_countOK hI file h
  unfold closeFile
  rw [attempt_bind]
  rcases hfl : flushFile file s with ⟨r, s1⟩
  rw [hfl] at h1
  simp only
  rw [bind_def]
  unfold getFileById
  cases s1.files.findIdx? (·.rawFile = file) with
  | none => exact h1
  | some i =>
    simp only
    rw [modify_bind]
    cases r <;> exact h1

/-! ### `close_volume` -/

theorem closeVolume_countOK {s : Mgr} {gh : Ghost} (hI : VolInv s gh) (volume : Nat) {δ : Int} (h : CountOK δ s) :
    CountOK δ (closeVolume volume s).2 := by
  unfold closeVolume
  rw [get_bind]
  by_cases hfa : (s.files.any (·.rawVolume = volume)) = true
  · rw [if_pos hfa]; exact h
  rw [if_neg hfa]
  by_cases hda : (s.dirs.any (·.rawVolume = volume)) = true
  · rw [if_pos hda]; exact h
  rw [if_neg hda]
  cases hv : s.vols.findIdx? (·.rawVolume = volume) with
  | none => rw [bind_err (getVolumeById_bad hv)]; exact h
  | some volIdx =>
    obtain ⟨h0, vi, hvs, hvol, hraw⟩ := vol_of_handle hI hv
    subst h0
    rw [bind_ok (getVolumeById_ok hv)]
    obtain ⟨hn, hc, hM⟩ := volInv_fs hI
    obtain ⟨fs1, hr1, _⟩ := updateInfo_med hM hn hc
    have hw := withVol_one updateInfoSector hvs hvol
    rw [hr1] at hw
    rw [bind_ok hw]
    intro vi' hvi'
    have : ({ afterVol s vi fs1 with vols := swapRemove (afterVol s vi fs1).vols 0 } : Mgr).vols = [] := rfl
    have hvi'' : vi' ∈ ({ afterVol s vi fs1 with vols := swapRemove (afterVol s vi fs1).vols 0 } : Mgr).vols := hvi'
    rw [this] at hvi''
    cases hvi''

end Sdmmc.Lemmas.AcctAll
