/-
C09 with SEVERAL OPEN VOLUMES, part 4: HISTORIES, the criteria, and how `close_file` / `flush_file` ESTABLISH `KeptN`.

* `UntouchedN hv h N pos s ops` — every call of the history is issued while the volume with handle `hv` is open, and does not
  target the file (`TargetsN`) in the state it is issued in.  Calls addressed to other volumes — whatever they do, whatever
  names they use —, `open_volume` of further partitions, `close_volume` of other volumes, and calls on the file's volume
  that do not target the file are all allowed; the LAST call of the history may even be a successful `close_volume hv`.
* `keptN_intact` — part (a) (slot, chain, FAT entries, contents) at every crash point, with NO mounting hypothesis;
* `keptN_history` — from a `KeptN` state whose medium mounts, along a `CoveredNRun` / `FreshRun` history that is `UntouchedN`:
  EVERY crash point of EVERY call shows the file (`Lemmas.MainC09.Shows`), with the contents of the START medium.
* `untouchedN_of_foreign` — a history none of whose calls is addressed to `hv` or is `close_volume hv` is `UntouchedN` ("calls
  on other volumes never touch the file"); `untouchedN_of_neverNames` — the syntactic criterion: if only read-only handles sit
  at the slot, it suffices that the list of calls contains no `open_file_in_dir` in a mode other than `ReadOnly` and no
  `delete_file_in_dir` of a spelling of the name (`Lemmas.Survive.NeverNames` — on ANY volume: stronger than necessary) and no
  `close_volume hv`.
* `establish_keptN` — `close_file hd` / `flush_file hd` (of a file that owns a cluster) of a handle that was written to, on
  volume record `i` of a `VolInvNC` state: the call answers `Ok` and the state it leaves is `KeptN` (through the projection:
  `Lemmas.Survive.close_kept`, `flush_kept`); `survives_multi` — the statement from the call itself.
-/
import Sdmmc.Lemmas.SurviveN3

namespace Sdmmc.Lemmas.SurviveN
open Sdmmc.Model Sdmmc.Model.Fat Sdmmc.Spec.Volume
open Sdmmc.Spec hiding NoFault Coherent run step
open Sdmmc.Props
open Sdmmc.Props.C03Multi (CoveredN CoveredNRun)
open Sdmmc.Props.C01Multi (FreshRun)
open Sdmmc.Lemmas.VolN (LabelFresh ProjRel vkey)
open Sdmmc.Lemmas.Survive (Kept SameFile Targets Opens PathOn HistCrash NeverNames Modifies)
open Sdmmc.Lemmas.VolTree (fkey spos)
open Sdmmc.Lemmas.MainC09 (Shows)

/-! ### Histories -/

/-- Every call of the history is issued while the volume `hv` is open and does not target the file. -/
def UntouchedN (hv h : Nat) (N : Bytes) (pos : Nat × Nat) : Mgr → List Op → Prop
  | _, [] => True
  | s, op :: ops => IsOpen hv s ∧ ¬ TargetsN s hv h N pos op ∧ UntouchedN hv h N pos (step s op).1 ops

section
variable {v0 : FatVolume} {e : DirEntry} {cs : List Nat} {ys : List Slot} {h hv : Nat}

/-- The medium keeps mounting across a call issued in a `KeptN` state. -/
theorem keptN_mounts {s : Mgr} (hK : KeptN v0 e cs ys h hv s) (hst : Reopen.Storable v0.fatType e) (op : Op)
    (hc : CoveredN s op) (hf : LabelFresh s op) (hn : ¬ TargetsN s hv h e.name (e.entryBlock, e.entryOffset) op)
    {idx : Nat} (hm : Mounts v0 idx s.dev.disk) : Mounts v0 idx (step s op).1.dev.disk := by
  obtain ⟨vm, h1, h2⟩ := (keptN_crash hK hst op hc hf hn hm (step s op).2.writes.length).2
  obtain ⟨⟨ghs, hI⟩, _⟩ := hK
  exact ⟨vm, by rw [final_disk hI op]; exact h1, h2⟩

/-- The contents of the file's chain are the same after the call. -/
theorem keptN_content {s : Mgr} (hK : KeptN v0 e cs ys h hv s) (hst : Reopen.Storable v0.fatType e) (op : Op)
    (hc : CoveredN s op) (hf : LabelFresh s op) (hn : ¬ TargetsN s hv h e.name (e.entryBlock, e.entryOffset) op) (n : Nat) :
    fileContent v0 (step s op).1.dev.disk cs n = fileContent v0 s.dev.disk cs n := by
  obtain ⟨⟨i, vi, gh, _, _, _, hsame⟩, _, _⟩ := keptN_step hK hst op hc hf hn
  obtain ⟨⟨ghs, hI⟩, _⟩ := hK
  have hS := (hsame (step s op).2.writes.length).congr (d' := (step s op).1.dev.disk)
    (fun b => by rw [step_disk_multi hI op b]; unfold crashDisk; rw [List.take_length])
  unfold fileContent
  rw [hS.bytes]

/-- The FAT entries of the file's chain are the same after the call. -/
theorem keptN_fat {s : Mgr} (hK : KeptN v0 e cs ys h hv s) (hst : Reopen.Storable v0.fatType e) (op : Op)
    (hc : CoveredN s op) (hf : LabelFresh s op) (hn : ¬ TargetsN s hv h e.name (e.entryBlock, e.entryOffset) op) (x : Nat)
    (hx : x ∈ cs) : fatRaw v0 (step s op).1.dev.disk x = fatRaw v0 s.dev.disk x := by
  obtain ⟨⟨i, vi, gh, _, _, _, hsame⟩, _, _⟩ := keptN_step hK hst op hc hf hn
  obtain ⟨⟨ghs, hI⟩, _⟩ := hK
  have hS := (hsame (step s op).2.writes.length).congr (d' := (step s op).1.dev.disk)
    (fun b => by rw [step_disk_multi hI op b]; unfold crashDisk; rw [List.take_length])
  exact hS.fat x hx

/-- **Part (a) along histories, without any mounting hypothesis.**  From a `KeptN` state, along a history that is
`UntouchedN`, at EVERY crash point `dk` of every call: 512-byte blocks, the slot holds the serialised entry, the chain is
`cs`, the FAT entries of `cs` and the contents (every length) are those of the start medium. -/
theorem keptN_intact (hst : Reopen.Storable v0.fatType e) :
    ∀ (ops : List Op) (s : Mgr), KeptN v0 e cs ys h hv s → CoveredNRun s ops → FreshRun s ops →
      UntouchedN hv h e.name (e.entryBlock, e.entryOffset) s ops → ∀ dk, HistCrash s ops dk →
      BlocksOK dk ∧ slice (dk.get e.entryBlock) e.entryOffset 32 = e.serialize v0.fatType ∧
      ((e.cluster < 2 ∧ cs = [] ∧ e.size = 0) ∨ Chain v0 dk e.cluster cs) ∧
      (∀ x, x ∈ cs → fatRaw v0 dk x = fatRaw v0 s.dev.disk x) ∧
      ∀ n, fileContent v0 dk cs n = fileContent v0 s.dev.disk cs n
  | [], _, _, _, _, _, _, hk => hk.elim
  | op :: ops, s, hK, hc, hf, hu, dk, hk => by
    rcases hk with ⟨k, rfl⟩ | hk
    · obtain ⟨⟨i, vi, gh, hvi, _, hKi, hsame⟩, _, _⟩ := keptN_step hK hst op hc.1 hf.1 hu.2.1
      have hd : (proj s i).dev = s.dev := (C04Multi.proj_tables hvi).2.2
      have hFl := hKi.flushed
      rw [hd] at hFl
      have hFk := (hsame k).flushed hFl
      refine ⟨(hsame k).blocks, hFk.slot, hFk.chain, (hsame k).fat, fun n => ?_⟩
      unfold fileContent
      rw [(hsame k).bytes]
    · cases ops with
      | nil => exact hk.elim
      | cons op2 ops2 =>
        have hopen : IsOpen hv (step s op).1 := hu.2.2.1
        obtain ⟨_, hnext, _⟩ := keptN_step hK hst op hc.1 hf.1 hu.2.1
        obtain ⟨r1, r2, r3, r4, r5⟩ := keptN_intact hst (op2 :: ops2) (step s op).1 (hnext (.inr hopen)) hc.2 hf.2 hu.2.2 dk hk
        exact ⟨r1, r2, r3, fun x hx => (r4 x hx).trans (keptN_fat hK hst op hc.1 hf.1 hu.2.1 x hx),
          fun n => (r5 n).trans (keptN_content hK hst op hc.1 hf.1 hu.2.1 n)⟩

/-- **Histories.**  From a `KeptN` state whose medium mounts as partition `idx`, along a history that is `UntouchedN`, every
crash point of every call shows the file, with the contents it has on the medium of the start state. -/
theorem keptN_history (hst : Reopen.Storable v0.fatType e) {idx : Nat} :
    ∀ (ops : List Op) (s : Mgr), KeptN v0 e cs ys h hv s → Mounts v0 idx s.dev.disk → CoveredNRun s ops → FreshRun s ops →
      UntouchedN hv h e.name (e.entryBlock, e.entryOffset) s ops → ∀ dk, HistCrash s ops dk →
      Shows v0 e cs ys h s.dev.disk idx dk
  | [], _, _, _, _, _, _, _, hk => hk.elim
  | op :: ops, s, hK, hm, hc, hf, hu, dk, hk => by
    rcases hk with ⟨k, rfl⟩ | hk
    · exact (keptN_crash hK hst op hc.1 hf.1 hu.2.1 hm k).1
    · cases ops with
      | nil => exact hk.elim
      | cons op2 ops2 =>
        have hopen : IsOpen hv (step s op).1 := hu.2.2.1
        obtain ⟨_, hnext, _⟩ := keptN_step hK hst op hc.1 hf.1 hu.2.1
        have hK' := hnext (.inr hopen)
        have hm' := keptN_mounts hK hst op hc.1 hf.1 hu.2.1 hm
        have ih := keptN_history hst (op2 :: ops2) (step s op).1 hK' hm' hc.2 hf.2 hu.2.2 dk hk
        exact Shows.congr ih fun n => keptN_content hK hst op hc.1 hf.1 hu.2.1 n

/-! ### Criteria -/

/-- A call that is not addressed to the volume `hv` does not target the file. -/
theorem not_targetsN_of_foreign {s : Mgr} {N : Bytes} {pos : Nat × Nat} {op : Op}
    (hfo : ∀ (i : Nat) (vi : VolInfo), target s op = some i → s.vols[i]? = some vi → vi.rawVolume ≠ hv) :
    ¬ TargetsN s hv h N pos op := fun ⟨i, vi, hvi, hraw, ht, _⟩ => hfo i vi ht hvi hraw

/-- No call of the history is addressed to the volume `hv` (its handle leads to another volume record or to none), and
none is `close_volume hv`. -/
def ForeignN (hv : Nat) : Mgr → List Op → Prop
  | _, [] => True
  | s, op :: ops => (∀ (i : Nat) (vi : VolInfo), target s op = some i → s.vols[i]? = some vi → vi.rawVolume ≠ hv) ∧
      op ≠ .closeVolume hv ∧ ForeignN hv (step s op).1 ops

/-- **Calls on other volumes never touch the file.** -/
theorem untouchedN_of_foreign (hst : Reopen.Storable v0.fatType e) :
    ∀ (ops : List Op) (s : Mgr), KeptN v0 e cs ys h hv s → CoveredNRun s ops → FreshRun s ops → ForeignN hv s ops →
      UntouchedN hv h e.name (e.entryBlock, e.entryOffset) s ops
  | [], _, _, _, _, _ => trivial
  | op :: ops, s, hK, hc, hf, hfo => by
    have hnt : ¬ TargetsN s hv h e.name (e.entryBlock, e.entryOffset) op := not_targetsN_of_foreign hfo.1
    obtain ⟨_, hnext, _⟩ := keptN_step hK hst op hc.1 hf.1 hnt
    exact ⟨hK.isOpen, hnt, untouchedN_of_foreign hst ops (step s op).1 (hnext (.inl hfo.2.1)) hc.2 hf.2 hfo.2.2⟩

theorem neverNames_tail {N : Bytes} {op : Op} {ops : List Op} (hn : NeverNames N (op :: ops)) : NeverNames N ops := by
  cases op with
  | openFile d name mode => exact hn.2
  | delete d name => exact hn.2
  | _ => exact hn

/-- **The syntactic criterion.**  From a `KeptN` state in which only read-only handles of the volume sit at the slot (none
after a close): a history whose LIST OF CALLS contains no `open_file_in_dir` in a mode other than `ReadOnly` and no
`delete_file_in_dir` of any spelling of the file's name, and no `close_volume hv`, is `UntouchedN`. -/
theorem untouchedN_of_neverNames (hst : Reopen.Storable v0.fatType e) :
    ∀ (ops : List Op) (s : Mgr), KeptN v0 e cs ys h hv s → CoveredNRun s ops → FreshRun s ops →
      ROAtN s hv (e.entryBlock, e.entryOffset) → NeverNames e.name ops → (∀ op, op ∈ ops → op ≠ .closeVolume hv) →
      UntouchedN hv h e.name (e.entryBlock, e.entryOffset) s ops
  | [], _, _, _, _, _, _, _ => trivial
  | op :: ops, s, hK, hc, hf, hro, hn, hcl => by
    have hmod : ∀ t : Mgr, ¬ Modifies t h e.name op := fun t =>
      (Survive.neverOpened_of_neverNames h e.name (op :: ops) t hn).1
    have hnt : ¬ TargetsN s hv h e.name (e.entryBlock, e.entryOffset) op := by
      rintro ⟨i, vi, hvi, hraw, _, hT⟩
      refine Survive.not_targets_of_ro (fun f hfm hk => hro f ?_ hk) (hmod _) hT
      rw [← hraw, ← (C04Multi.proj_tables hvi).1]; exact hfm
    obtain ⟨_, hnext, hro'⟩ := keptN_step hK hst op hc.1 hf.1 hnt
    have hno : ¬ OpensN s hv h e.name op := fun ⟨i, _, _, _, _, hO⟩ => hmod _ (Survive.modifies_of_opens hO)
    exact ⟨hK.isOpen, hnt, untouchedN_of_neverNames hst ops (step s op).1 (hnext (.inl (hcl op List.mem_cons_self))) hc.2 hf.2
      (hro' hro hno) (neverNames_tail hn) (fun o ho => hcl o (List.mem_cons_of_mem _ ho))⟩

end

/-! ### `close_file` / `flush_file` establish the invariant -/

/-- A file handle of volume record `i` is addressed to record `i`, and designates the same record in the projection. -/
theorem file_in_proj {s : Mgr} {ghs : List Ghost} (hI : VolInvN s ghs) {i : Nat} {vi : VolInfo} (hvi : s.vols[i]? = some vi)
    {hd k : Nat} {f : FileInfo} (hidx : s.files.findIdx? (·.rawFile = hd) = some k) (hfk : s.files[k]? = some f)
    (hfv : f.rawVolume = vi.rawVolume) :
    fileTarget s hd = some i ∧
    ∃ k', (proj s i).files.findIdx? (·.rawFile = hd) = some k' ∧ (proj s i).files[k']? = some f := by
  refine ⟨?_, VolN.pidx (VolN.ownF vi.rawVolume) s.files k, ?_, ?_⟩
  · unfold fileTarget
    rw [hidx]
    simp only
    rw [hfk]
    simp only
    rw [hfv]
    exact VolN.findIdx?_of_nodup hI.handles hvi
  · rw [(C04Multi.proj_tables hvi).1, VolN.volFiles_eq]
    exact VolN.findIdx?_filter (VolN.ownF vi.rawVolume) _ s.files k f hidx hfk (by unfold VolN.ownF; simp [hfv])
  · rw [(C04Multi.proj_tables hvi).1, VolN.volFiles_eq]
    exact VolN.getElem?_filter_pidx (VolN.ownF vi.rawVolume) s.files k f hfk (by unfold VolN.ownF; simp [hfv])

/-- **`close_file` / `flush_file` establish `KeptN`.**  `s` satisfies `VolInvNC`; `hd` is the handle of the open file `f` of
volume record `i` (ghost `gh`), which was written to; `call` is `close_file hd`, or `flush_file hd` of a file that owns a
cluster.  Then the call answers `Ok`, leaves the contents of the file's chain alone, and the state it leaves is `KeptN` for the
file — entry `f.entry`, chain `chainOf gh.G f.entry.cluster`, in the directory `h` the file sits in, for every path `ys`
that leads to `h` —; after `close_file` no handle of the volume sits at the slot. -/
theorem establish_keptN {v0 : FatVolume} {s : Mgr} {ghs : List Ghost} (hI : VolInvNC s ghs) {i : Nat} {vi : VolInfo}
    {gh : Ghost} (hvi : s.vols[i]? = some vi) (hgh : ghs[i]? = some gh) (h0 : SameGeom v0 gh.vol) {hd k : Nat} {f : FileInfo}
    (hidx : s.files.findIdx? (·.rawFile = hd) = some k) (hfk : s.files[k]? = some f) (hfv : f.rawVolume = vi.rawVolume)
    (hdirty : f.dirty = true) (call : Op) (hcall : call = .closeFile hd ∨ (call = .flush hd ∧ f.entry.cluster ≠ 0)) :
    (step s call).2.result = .ok .unit ∧
    (∀ n, fileContent v0 (step s call).1.dev.disk (chainOf gh.G f.entry.cluster) n =
      fileContent v0 s.dev.disk (chainOf gh.G f.entry.cluster) n) ∧
    ∃ h, (∃ o, o ∈ objects h (dirSlots gh.vol s.dev.disk gh.G h) ∧ spos o = fkey f) ∧ h ∈ dirIds gh.dirs ∧
      ∀ ys, PathOn gh.vol.fatType gh.dirs (dirSlots gh.vol s.dev.disk gh.G) 0 ys h →
        (∀ y, y ∈ ys → sName y ≠ Sfn.thisDir ∧ sName y ≠ Sfn.parentDir) →
        KeptN v0 f.entry (chainOf gh.G f.entry.cluster) ys h vi.rawVolume (step s call).1 ∧
        (call = .closeFile hd → ∀ g, g ∈ volFiles (step s call).1 vi.rawVolume → fkey g ≠ fkey f) := by
  obtain ⟨hft, k', hidx', hfk'⟩ := file_in_proj hI.inv hvi hidx hfk hfv
  have hC := VolNCrash.volInvC_proj hI hvi hgh
  have hdev : (proj s i).dev = s.dev := (C04Multi.proj_tables hvi).2.2
  have hfm' : f ∈ (proj s i).files := List.mem_of_getElem? hfk'
  obtain ⟨hstg, _⟩ := Survive.file_entry_facts hC.inv hfm'
  have hst : Reopen.Storable v0.fatType f.entry := by rw [← h0.fatType]; exact hstg
  have ht : target s call = some i := by rcases hcall with rfl | ⟨rfl, _⟩ <;> exact hft
  have hlf : LabelFresh s call := by rcases hcall with rfl | ⟨rfl, _⟩ <;> trivial
  have hcov : CoveredN s call := by rcases hcall with rfl | ⟨rfl, _⟩ <;> trivial
  obtain ⟨hout, hrel, hkeys, _⟩ := C03Multi.step_proj hI.inv call ht hvi hlf
  obtain ⟨ghs', hI'⟩ := VolNCrash.step_invariantNC hI call hcov hlf
  -- record `i` afterwards
  have hlen : (step s call).1.vols.length = s.vols.length := by
    have := congrArg List.length hkeys
    simpa using this
  obtain ⟨vi', hvi'⟩ : ∃ vi', (step s call).1.vols[i]? = some vi' :=
    ⟨_, List.getElem?_eq_getElem (by rw [hlen]; exact (List.getElem?_eq_some_iff.1 hvi).1)⟩
  have hraw' : vi'.rawVolume = vi.rawVolume := by
    have h1 : ((step s call).1.vols.map vkey)[i]? = some (vkey vi') := by rw [List.getElem?_map, hvi']; rfl
    have h2 : (s.vols.map vkey)[i]? = some (vkey vi) := by rw [List.getElem?_map, hvi]; rfl
    rw [hkeys, h2] at h1
    exact (congrArg Prod.fst (Option.some.inj h1)).symm
  have hrel' : ProjRel vi'.rawVolume i (step s call).1 (step (proj s i) call).1 := by rw [hraw']; exact hrel
  have hdisk : (step (proj s i) call).1.dev.disk = (step s call).1.dev.disk := by rw [hrel.dev]
  -- the one-volume theorems on the projection
  have key : (step (proj s i) call).2.result = .ok .unit ∧
      (∀ n, fileContent gh.vol (step (proj s i) call).1.dev.disk (chainOf gh.G f.entry.cluster) n =
        fileContent gh.vol (proj s i).dev.disk (chainOf gh.G f.entry.cluster) n) ∧
      ∃ h, (∃ o, o ∈ objects h (dirSlots gh.vol (proj s i).dev.disk gh.G h) ∧ spos o = fkey f) ∧ h ∈ dirIds gh.dirs ∧
        ∀ ys, PathOn gh.vol.fatType gh.dirs (dirSlots gh.vol (proj s i).dev.disk gh.G) 0 ys h →
          (∀ y, y ∈ ys → sName y ≠ Sfn.thisDir ∧ sName y ≠ Sfn.parentDir) →
          ∃ gh1, Kept v0 f.entry (chainOf gh.G f.entry.cluster) ys h (step (proj s i) call).1 gh1 ∧
            (call = .closeFile hd → ∀ g, g ∈ (step (proj s i) call).1.files → fkey g ≠ fkey f) := by
    rcases hcall with rfl | ⟨rfl, hcl⟩
    · obtain ⟨hres, h', ho, hh, hall⟩ := Survive.close_kept hC.inv hC.mirror hC.raw h0 hidx' hfk' hdirty
      obtain ⟨_, _, hcont⟩ := Survive.close_step_flushed hC.inv hidx' hfk' hdirty
      refine ⟨hres, hcont, h', ho, hh, fun ys hp hn => ?_⟩
      obtain ⟨gh1, hK1, hnone⟩ := hall ys hp hn
      exact ⟨gh1, hK1, fun _ => hnone⟩
    · obtain ⟨hres, h', ho, hh, hall⟩ := Survive.flush_kept hC.inv hC.mirror hC.raw h0 hidx' hfk' hdirty hcl
      obtain ⟨_, _, hcont⟩ := Survive.flush_step_flushed hC.inv hidx' hfk' hdirty
      refine ⟨hres, hcont, h', ho, hh, fun ys hp hn => ?_⟩
      obtain ⟨gh1, hK1⟩ := hall ys hp hn
      exact ⟨gh1, hK1, fun e => by cases e⟩
  obtain ⟨hres, hcont, h', ho, hh, hall⟩ := key
  rw [hdev] at ho hall hcont
  rw [hdisk] at hcont
  refine ⟨by rw [← hout]; exact hres, fun n => ?_, h', ho, hh, fun ys hp hn => ?_⟩
  · rw [← WriteRefines.sameGeom_fileContent h0, ← WriteRefines.sameGeom_fileContent h0]
    exact hcont n
  · obtain ⟨gh1, hK1, hnone⟩ := hall ys hp hn
    refine ⟨⟨⟨ghs', hI'⟩, i, vi', gh1, hvi', hraw', kept_of_projRel hK1 hst hvi' hrel'⟩, fun hc g hg => ?_⟩
    exact hnone hc g (hrel.files.symm.subset hg)

/-- **The statement from the call itself.**  `s` satisfies `VolInvNC`; `hd` is the handle of the open file `f` of volume
record `i` (handle `vi.rawVolume`, ghost `gh`), which was written to; the file sits in directory `h`, reached through `ys`;
the medium of `s` mounts as partition `idx` with the geometry of `v0`; `call` is `close_file hd`, or `flush_file hd` of a file
that owns a cluster.  Then the call answers `Ok`, and for EVERY history `ops` after it (`CoveredNRun`, `FreshRun`) — on ANY of
the open volumes, opening further ones, closing others — that is `UntouchedN` for the file, or (after `close_file`) whose list
of calls satisfies the syntactic criterion, EVERY crash point of EVERY call shows the file (`Shows`) with exactly the contents
it had when it was flushed / closed. -/
theorem survives_multi {v0 : FatVolume} {s : Mgr} {ghs : List Ghost} (hI : VolInvNC s ghs) {i : Nat} {vi : VolInfo} {gh : Ghost}
    (hvi : s.vols[i]? = some vi) (hgh : ghs[i]? = some gh) (h0 : SameGeom v0 gh.vol) {hd k : Nat} {f : FileInfo}
    (hidx : s.files.findIdx? (·.rawFile = hd) = some k) (hfk : s.files[k]? = some f) (hfv : f.rawVolume = vi.rawVolume)
    (hdirty : f.dirty = true) (h : Nat) (ys : List Slot)
    (hdir : ∃ o, o ∈ objects h (dirSlots gh.vol s.dev.disk gh.G h) ∧ spos o = fkey f)
    (hpath : PathOn gh.vol.fatType gh.dirs (dirSlots gh.vol s.dev.disk gh.G) 0 ys h)
    (hnames : ∀ y, y ∈ ys → sName y ≠ Sfn.thisDir ∧ sName y ≠ Sfn.parentDir)
    (idx : Nat) (vm : FatVolume) (hm : mountPure (s.dev.disk.get 0) idx s.dev.disk.get = .ok vm) (hsg : SameGeom vm v0)
    (call : Op) (hcall : call = .closeFile hd ∨ (call = .flush hd ∧ f.entry.cluster ≠ 0)) :
    (step s call).2.result = .ok .unit ∧
    ∀ ops, CoveredNRun s (call :: ops) → FreshRun s (call :: ops) →
      (UntouchedN vi.rawVolume h f.entry.name (f.entry.entryBlock, f.entry.entryOffset) (step s call).1 ops ∨
        (call = .closeFile hd ∧ NeverNames f.entry.name ops ∧ ∀ op, op ∈ ops → op ≠ .closeVolume vi.rawVolume)) →
      ∀ dk, HistCrash (step s call).1 ops dk →
        Shows v0 f.entry (chainOf gh.G f.entry.cluster) ys h s.dev.disk idx dk := by
  obtain ⟨hres, hcont, h', ⟨o, hoo, hpo⟩, hh, hall⟩ := establish_keptN hI hvi hgh h0 hidx hfk hfv hdirty call hcall
  obtain ⟨o0, ho0, hpo0⟩ := hdir
  have hM := VolMed.medX_of_med (hI.inv.med i vi gh hvi hgh)
  obtain ⟨rfl, _⟩ := AbsFs.slot_unique hM hh hpath.end_mem (VolMed.mem_of_mem_objects hoo) (VolMed.mem_of_mem_objects ho0)
    (hpo.trans hpo0.symm)
  obtain ⟨hK1, hnone⟩ := hall ys hpath hnames
  refine ⟨hres, fun ops hc hf hcrit dk hk => ?_⟩
  have hC := VolNCrash.volInvC_proj hI hvi hgh
  obtain ⟨_, k', _, hfk'⟩ := file_in_proj hI.inv hvi hidx hfk hfv
  obtain ⟨hstg, _⟩ := Survive.file_entry_facts hC.inv (List.mem_of_getElem? hfk')
  have hst : Reopen.Storable v0.fatType f.entry := by rw [← h0.fatType]; exact hstg
  -- the medium after the call mounts
  have hm1 : Mounts v0 idx (step s call).1.dev.disk := by
    obtain ⟨_, _, hmnt⟩ := VolNCrash.step_crash_multi hI call hf.1 (step s call).2.writes.length hvi hgh
    obtain ⟨w, hw, hsw⟩ := hmnt idx vm hm (hsg.trans h0)
    exact ⟨w, by rw [final_disk hI call]; exact hw, (h0.trans hsw).symm⟩
  have hu : UntouchedN vi.rawVolume h' f.entry.name (f.entry.entryBlock, f.entry.entryOffset) (step s call).1 ops := by
    rcases hcrit with hu | ⟨hc', hn, hcl⟩
    · exact hu
    · exact untouchedN_of_neverNames hst ops _ hK1 hc.2 hf.2 (fun g hg hkey => absurd hkey (hnone hc' g hg)) hn hcl
  exact Shows.congr (keptN_history hst ops _ hK1 hm1 hc.2 hf.2 hu dk hk) hcont

end Sdmmc.Lemmas.SurviveN
