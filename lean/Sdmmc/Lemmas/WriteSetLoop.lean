/-
C04 over whole calls, `write` (2): the second half of an iteration (`finish_lic`) and the loop
(`writeLoop_lic`, the proof of `WriteRefines.writeLoop_spec` with the licence carried along): the writes
of the loop are licensed by the FAT entries of the last cluster of the chain and of the clusters it grew
by, and the byte range `[offset, offset + k)` of the file.
-/
import Sdmmc.Lemmas.WriteSetLocate

namespace Sdmmc.Lemmas.WriteSet
open Sdmmc.Model Sdmmc.Model.Fat Sdmmc.Spec
open Sdmmc.Lemmas.FBasic hiding NoFault Coherent
open Sdmmc.Lemmas.FatOps hiding BlocksOK Mirror HintOK
open Sdmmc.Lemmas.ChainL Sdmmc.Lemmas.ForestBase Sdmmc.Lemmas.ForestOwns Sdmmc.Lemmas.ReadRefines
open Sdmmc.Lemmas.WriteRefines

/-! ### Lists -/

theorem mem_drop_prefix {a b : List Nat} (h : a <+: b) (n : Nat) {x : Nat} (hx : x ∈ a.drop n) : x ∈ b.drop n := by
  obtain ⟨e, rfl⟩ := h
  rw [List.drop_append]
  exact List.mem_append_left _ hx

theorem mem_drop_le {l : List Nat} {m n : Nat} (h : m ≤ n) {x : Nat} (hx : x ∈ l.drop n) : x ∈ l.drop m := by
  have : l.drop n = (l.drop m).drop (n - m) := by rw [List.drop_drop]; congr 1; omega
  rw [this] at hx
  exact List.mem_of_mem_drop hx

theorem last_of_prefix {a b : List Nat} (h : a <+: b) {x : Nat} (hx : b.getLast? = some x) :
    a.getLast? = some x ∨ x ∈ b.drop a.length := by
  obtain ⟨e, rfl⟩ := h
  cases e with
  | nil => left; rw [List.append_nil] at hx; exact hx
  | cons y t =>
    right
    rw [List.drop_left]
    obtain ⟨z, hz⟩ : ∃ z, (y :: t).getLast? = some z := ⟨_, List.getLast?_cons⟩
    rw [List.getLast?_append, hz] at hx
    have : z = x := by simpa using hx
    subst this
    exact List.mem_of_getLast? hz

/-! ### Patching the located block -/

/-- The block write of an iteration, on a state satisfying the loop invariant whose FAT copies are
identical: they still are, and the write is licensed by a byte range of the file (for any chain the
file's chain is a prefix of) that contains the `t` positions from the file's offset on. -/
theorem finish_lic (i vi : Nat) (A B : List (List Nat)) (s s2 : Mgr) (f : FileInfo) (v : VolInfo) (cs : List Nat) (c : Nat)
    (buffer : Bytes) (t : Nat) (g : FileInfo → FileInfo) (h : WInv i vi A B s f v cs) (hm : Mirror v.vol s.dev.disk)
    (hk : cs[f.currentOffset / clusterBytesLen v.vol]? = some c) (hne : buffer ≠ [])
    (ht : t = min (512 - f.currentOffset % 512) buffer.length)
    (hfin : (withVol vi (writeBlockPart (clusterToBlock v.vol c + f.currentOffset % clusterBytesLen v.vol / 512)
          (f.currentOffset % 512) (buffer.take t) (decide (f.currentOffset % 512 = 0 ∧ t = 512 - f.currentOffset % 512))) >>=
        fun _ => modifyFile i g) s = (.ok (), s2)) :
    Mirror v.vol s2.dev.disk ∧
    ∀ (L : Licence) (cs' : List Nat) (lo hi : Nat), cs <+: cs' → (cs', lo, hi) ∈ L.files → lo ≤ f.currentOffset →
      f.currentOffset + t ≤ hi → LicD v.vol L s.dev s2.dev := by
  have hsound : Sound (fsOf s v) := ⟨⟨h.ok.1, h.ok.2.1, h.ok.2.2.1, h.geom, h.hint⟩, hm⟩
  have hcr : InRange v.vol c := chain_inRange h.chain c (List.mem_of_getElem? hk)
  have hmod : f.currentOffset % 512 < 512 := Nat.mod_lt _ (by omega)
  have hblen : 0 < buffer.length := List.length_pos_iff.2 hne
  have htake : (buffer.take t).length = t := by rw [List.length_take]; omega
  -- the state after the block write does not depend on the licence
  have key : ∀ (L : Licence) (cs' : List Nat) (lo hi : Nat), cs <+: cs' → (cs', lo, hi) ∈ L.files → lo ≤ f.currentOffset →
      f.currentOffset + t ≤ hi → Mirror v.vol s2.dev.disk ∧ LicD v.vol L s.dev s2.dev := by
    intro L cs' lo hi hpre hL hlo hhi
    obtain ⟨fs', hw, hs', hv', hl⟩ := writeBlockPart_range (fsOf s v) L cs' lo hi f.currentOffset c (buffer.take t)
      (decide (f.currentOffset % 512 = 0 ∧ t = 512 - f.currentOffset % 512)) hsound hL
      (by obtain ⟨e, rfl⟩ := hpre; show (cs ++ e)[f.currentOffset / clusterBytesLen v.vol]? = some c; rw [List.getElem?_append_left (List.getElem?_eq_some_iff.1 hk).1]; exact hk) hcr hlo
      (by rw [htake]; exact hhi) (by rw [htake]; omega)
      (fun hd => by have := of_decide_eq_true hd; rw [htake]; omega)
    simp only [fsOf_vol] at hw
    have hwM := withVol_run vi (writeBlockPart (clusterToBlock v.vol c + f.currentOffset % clusterBytesLen v.vol / 512)
      (f.currentOffset % 512) (buffer.take t) (decide (f.currentOffset % 512 = 0 ∧ t = 512 - f.currentOffset % 512))) s v h.vol
    rw [hw] at hwM
    rw [MHoare.bind_ok hwM] at hfin
    have e2 : s2.dev = fs'.dev := by
      have := congrArg (fun x => x.2.dev) hfin
      exact this.symm
    rw [e2]
    exact ⟨by have := hs'.mirror; rw [hv'] at this; exact this, hl⟩
  refine ⟨(key { files := [(cs, f.currentOffset, f.currentOffset + t)] } cs _ _ (List.prefix_refl _) (List.mem_singleton.2 rfl)
    (Nat.le_refl _) (Nat.le_refl _)).1, fun L cs' lo hi h1 h2 h3 h4 => (key L cs' lo hi h1 h2 h3 h4).2⟩

/-! ### The loop -/

/-- `WriteRefines.writeLoop_spec` together with: the FAT copies are identical afterwards, and the writes
are licensed by any licence naming the FAT entries of the last cluster of the old chain and of the
clusters the chain grew by, and a byte range of the file containing the `k` stored positions. -/
theorem writeLoop_lic (i vi : Nat) (A B : List (List Nat)) :
    ∀ (fuel : Nat) (buffer : Bytes) (s : Mgr) (f : FileInfo) (v : VolInfo) (cs : List Nat),
      buffer.length < fuel → WInv i vi A B s f v cs → Mirror v.vol s.dev.disk →
      ∃ k r s' f' v' cs', writeLoop i vi fuel buffer s = (r, s') ∧ k ≤ buffer.length ∧
        ((r = .ok () ∧ k = buffer.length) ∨ (r = .err .DiskFull ∧ k < buffer.length ∧ Full v'.vol s'.dev.disk)) ∧
        WInv i vi A B s' f' v' cs' ∧ WProg i vi s s' f f' v v' cs cs' (buffer.take k) ∧ Mirror v'.vol s'.dev.disk ∧
        (∀ L : Licence, (∀ x, cs.getLast? = some x → x ∈ L.fatClusters) → (∀ x, x ∈ cs'.drop cs.length → x ∈ L.fatClusters) →
          (∃ lo hi, (cs', lo, hi) ∈ L.files ∧ lo ≤ f.currentOffset ∧ f.currentOffset + k ≤ hi) → LicD v.vol L s.dev s'.dev) := by
  intro fuel
  induction fuel with
  | zero => intro buffer s f v cs hlt; omega
  | succ fuel ih =>
    intro buffer s f v cs hfuel h hm
    have hb : BlocksOK s.dev.disk := h.ok.2.2.1
    have hrefl : WProg i vi s s f f v v cs cs [] :=
      WProg.nil (WStep.refl h.file h.vol) (List.prefix_refl _) (SameGeom.refl _) rfl h.fileOK.pos_le rfl (Touch.refl _ _ _)
    by_cases hne : buffer = []
    · subst hne
      exact ⟨0, .ok (), s, f, v, cs, writeLoop_nil i vi _ s, Nat.le_refl _, .inl ⟨rfl, rfl⟩, h, hrefl, hm, fun L _ _ _ => LicD.refl _ _ _⟩
    · rw [writeLoop_succ i vi fuel buffer f s hne (MHoare.getFile_ok h.file)]
      rcases locate_lic i vi A B s f v cs h hm with
        ⟨c, s1, v1, cs1, hloc, h1, hk1, hpre1, hsg1, hvid1, hstep1, hdisk1, hm1, hlic1, hwlog1⟩ | ⟨s1, hloc, h1, hstep1, hd1, hw1, hfull⟩
      · -- the block was located (perhaps after extending the chain)
        have hcbeq : clusterBytesLen v1.vol = clusterBytesLen v.vol := sameGeom_clusterBytesLen hsg1
        have hctb : ∀ x, clusterToBlock v1.vol x = clusterToBlock v.vol x := sameGeom_clusterToBlock hsg1
        obtain ⟨s2, hfin, h2, hprog2, htpos⟩ := finish_spec i vi A B s1 f v1 cs1 c buffer h1 (by rw [hcbeq]; exact hk1) hne
          (min (512 - f.currentOffset % 512) buffer.length) rfl
          (f.currentOffset / clusterBytesLen v.vol * clusterBytesLen v.vol, c) (by rw [hcbeq])
        obtain ⟨hm2, hlic2⟩ := finish_lic i vi A B s1 s2 f v1 cs1 c buffer _ _ h1 hm1 (by rw [hcbeq]; exact hk1) hne rfl hfin
        rw [hcbeq, hctb] at hfin
        generalize ht : min (512 - f.currentOffset % 512) buffer.length = t at hfin h2 hprog2 htpos
        have htle : t ≤ buffer.length := by omega
        generalize hf2 : bump (f.currentOffset / clusterBytesLen v.vol * clusterBytesLen v.vol, c) t f = f2 at hfin h2 hprog2
        -- the first half as progress with no data
        have hprog1 : WProg i vi s s1 f f v v1 cs cs1 [] := by
          refine WProg.nil hstep1 hpre1 hsg1 hvid1 h.fileOK.pos_le ?_ ?_
          · obtain ⟨ext, hext⟩ := hpre1
            rw [← hext]
            have hcsz := h.fileOK.size_fits
            have hb1 : BlocksOK s1.dev.disk := h1.ok.2.2.1
            rw [fileContent_append _ _ _ _ _ hb1 hcsz]
            unfold fileContent
            congr 1
            apply chainBytes_congr
            intro x hx j hj
            exact hdisk1 _ (clusterBlock_not_fat h.geom (chain_inRange h.chain x hx) hj)
          · obtain ⟨new, e, hn⟩ := hwlog1
            exact ⟨fun b hb1 _ => hdisk1 b hb1, new, e, fun w hw => .inl (hn w hw)⟩
        have hprog12 := WProg.trans hprog1 hprog2 hb h.fileOK
        rw [List.nil_append] at hprog12
        -- the rest of the loop
        obtain ⟨k, r, s', f', v', cs', hrun, hkle, hres, h', hprog', hm', hlic'⟩ :=
          ih (buffer.drop t) s2 f2 v1 cs1 (by rw [List.length_drop]; omega) h2 hm2
        have hlen : (buffer.drop t).length = buffer.length - t := List.length_drop
        refine ⟨t + k, r, s', f', v', cs', ?_, by omega, ?_, h', ?_, hm', ?_⟩
        · rw [MHoare.bind_ok hloc]
          dsimp only
          rw [ht]
          have hassoc : ∀ (m1 : M Unit) (m2 : M Unit) (m3 : M Unit) (x y : Mgr), (m1 >>= fun _ => m2) x = (.ok (), y) →
              (m1 >>= fun _ => m2 >>= fun _ => m3) x = m3 y := by
            intro m1 m2 m3 x y hxy
            rw [MHoare.bind_def] at hxy ⊢
            rcases hm1 : m1 x with ⟨r1, x1⟩
            rw [hm1] at hxy
            cases r1 with
            | ok u =>
              simp only at hxy ⊢
              rw [MHoare.bind_ok hxy]
            | err e => cases hxy
            | panic m => cases hxy
            | diverged => cases hxy
          rw [hassoc _ _ _ _ _ hfin]
          exact hrun
        · rcases hres with ⟨hr, hk⟩ | ⟨hr, hk, hf⟩
          · exact .inl ⟨hr, by omega⟩
          · exact .inr ⟨hr, by omega, hf⟩
        · have := WProg.trans hprog12 hprog' hb h.fileOK
          rw [← List.take_add] at this
          exact this
        · rintro L hlast hnew ⟨lo, hi, hLf, hlo, hhi⟩
          have hoff2 : f2.currentOffset = f.currentOffset + t := by rw [← hf2]; exact bump_offset _ _ _
          have hl1 : LicD v.vol L s.dev s1.dev :=
            hlic1 L hlast fun x hx => hnew x (mem_drop_prefix hprog'.pre _ hx)
          have hl2 : LicD v.vol L s1.dev s2.dev :=
            LicD.sameGeom hsg1 (hlic2 L cs' lo hi hprog'.pre hLf hlo (by omega))
          have hl3 : LicD v.vol L s2.dev s'.dev := by
            refine LicD.sameGeom hsg1 (hlic' L ?_ ?_ ⟨lo, hi, hLf, by omega, by omega⟩)
            · intro x hx
              rcases last_of_prefix hpre1 hx with h0 | h0
              · exact hlast x h0
              · exact hnew x (mem_drop_prefix hprog'.pre _ h0)
            · intro x hx
              exact hnew x (mem_drop_le hpre1.length_le hx)
          exact hl1.trans (hl2.trans hl3)
      · -- the volume is full
        refine ⟨0, .err .DiskFull, s1, f, v, cs, ?_, Nat.zero_le _, .inr ⟨rfl, List.length_pos_iff.2 hne, ?_⟩, h1, ?_,
          (by rw [hd1]; exact hm), fun L _ _ _ => LicD.same hw1 hd1⟩
        · rw [MHoare.bind_err hloc]
        · rw [hd1]; exact hfull
        · exact WProg.nil hstep1 (List.prefix_refl _) (SameGeom.refl _) rfl h.fileOK.pos_le (by rw [hd1]) (Touch.of_eq hd1 hw1)


end Sdmmc.Lemmas.WriteSet
