/-
C04 over whole calls: the theorems of `WriteSetMgr`, `WriteSetWrite`, `WriteSetCalls` with their
hypotheses and conclusions spelled out in the vocabulary of `Sdmmc.Spec` (`MgrOK`, `WFGeom`, `HintOK`,
`Mirror`, `AllLicensed … (newWritesM s s')`), and the bridge from a call to `step`.
`Sdmmc.Props.C04Api` states these and delegates here.
-/
import Sdmmc.Lemmas.WriteSetCalls
import Sdmmc.Lemmas.WriteSetWrite
import Sdmmc.Lemmas.WriteSetRefuse

namespace Sdmmc.Lemmas.WriteSet
open Sdmmc.Model Sdmmc.Model.Fat Sdmmc.Spec
open Sdmmc.Lemmas.FBasic hiding NoFault Coherent
open Sdmmc.Lemmas.ReadRefines (MgrOK fsOf)
open Sdmmc.Lemmas.Reopen (IsFixedRoot)
open Sdmmc.Lemmas.Listing (startCluster)
open Sdmmc.Lemmas.WriteRefines (Touch WriteFile)

/-! ### `flush_file`, `close_file`, `close_volume` -/

theorem flush_licensed (s : Mgr) (h i vi : Nat) (f : FileInfo) (v : VolInfo) (hs : MgrOK s) (hg : WFGeom v.vol)
    (hhint : HintOK v.vol) (hm : Mirror v.vol s.dev.disk)
    (hh : s.files.findIdx? (·.rawFile = h) = some i) (hf : s.files[i]? = some f)
    (hv : s.vols.findIdx? (·.rawVolume = f.rawVolume) = some vi) (hvi : s.vols[vi]? = some v)
    (hd : f.dirty = true) (hassert : ¬ (f.entry.size ≠ 0 ∧ f.entry.cluster = 0))
    (hreg : regionOf v.vol f.entry.entryBlock = .root ∨ regionOf v.vol f.entry.entryBlock = .data)
    (ho : f.entry.entryOffset + 32 ≤ 512) (hname : f.entry.name.length = 11) :
    ∃ s', flushFile h s = (.ok (), s') ∧ s' = { s with dev := s'.dev, cache := s'.cache } ∧ MgrOK s' ∧
      Mirror v.vol s'.dev.disk ∧ AllLicensed v.vol s.dev.disk (flushLicence v.vol f.entry) (newWritesM s s') := by
  obtain ⟨s', h1, h2, h3, h4⟩ := flushFile_lic s h i vi f v ⟨hs, hg, hhint, hm⟩ hh hf hv hvi hd hassert hreg ho hname
  exact ⟨s', h1, h2, h3.ok, h3.mirror, (LicD.toWrites h4).1⟩

theorem close_file_licensed (s : Mgr) (h i vi : Nat) (f : FileInfo) (v : VolInfo) (hs : MgrOK s) (hg : WFGeom v.vol)
    (hhint : HintOK v.vol) (hm : Mirror v.vol s.dev.disk)
    (hh : s.files.findIdx? (·.rawFile = h) = some i) (hf : s.files[i]? = some f)
    (hv : s.vols.findIdx? (·.rawVolume = f.rawVolume) = some vi) (hvi : s.vols[vi]? = some v)
    (hd : f.dirty = true) (hassert : ¬ (f.entry.size ≠ 0 ∧ f.entry.cluster = 0))
    (hreg : regionOf v.vol f.entry.entryBlock = .root ∨ regionOf v.vol f.entry.entryBlock = .data)
    (ho : f.entry.entryOffset + 32 ≤ 512) (hname : f.entry.name.length = 11) :
    ∃ s', closeFile h s = (.ok (), s') ∧ s'.files = swapRemove s.files i ∧ s'.vols = s.vols ∧ MgrOK s' ∧
      Mirror v.vol s'.dev.disk ∧ AllLicensed v.vol s.dev.disk (flushLicence v.vol f.entry) (newWritesM s s') := by
  obtain ⟨s', h1, h2, h3, h4, h5⟩ := closeFile_lic s h i vi f v ⟨hs, hg, hhint, hm⟩ hh hf hv hvi hd hassert hreg ho hname
  exact ⟨s', h1, h2, h3, h4.ok, h4.mirror, (LicD.toWrites h5).1⟩

theorem close_volume_licensed (s : Mgr) (vol vi : Nat) (v : VolInfo) (hs : MgrOK s) (hg : WFGeom v.vol)
    (hhint : HintOK v.vol) (hm : Mirror v.vol s.dev.disk)
    (hfiles : s.files.any (·.rawVolume = vol) = false) (hdirs : s.dirs.any (·.rawVolume = vol) = false)
    (hv : s.vols.findIdx? (·.rawVolume = vol) = some vi) (hvi : s.vols[vi]? = some v) :
    ∃ s', closeVolume vol s = (.ok (), s') ∧ AllLicensed v.vol s.dev.disk (infoLicence v.vol) (newWritesM s s') ∧
      (v.vol.fatType = .fat16 → newWritesM s s' = []) ∧ s'.files = s.files ∧ s'.dirs = s.dirs := by
  obtain ⟨s', h1, h2, h3, h4, h5⟩ := closeVolume_lic s vol vi v ⟨hs, hg, hhint, hm⟩ hfiles hdirs hv hvi
  exact ⟨s', h1, (LicD.toWrites h2).1, fun h16 => newWritesM_nil (by rw [h3 h16]), h4, h5⟩

/-! ### `write` -/

theorem write_licensed (s : Mgr) (h i vi : Nat) (data : Bytes) (f : FileInfo) (v : VolInfo) (cs : List Nat)
    (A B : List (List Nat)) (hs : MgrOK s)
    (hh : s.files.findIdx? (·.rawFile = h) = some i) (hf : s.files[i]? = some f)
    (hv : s.vols.findIdx? (·.rawVolume = f.rawVolume) = some vi) (hvi : s.vols[vi]? = some v)
    (hmode : f.mode ≠ .ReadOnly) (hg : WFGeom v.vol) (hhint : HintOK v.vol)
    (hok : FileOK v.vol s.dev.disk f cs) (hcur : cs = [] → f.curCluster < 2)
    (hown : Owns v.vol s.dev.disk (withChain A cs B)) (hmir : Mirror v.vol s.dev.disk) :
    ∃ k r s' f' v' cs', Model.write h data s = (r, s') ∧ k ≤ data.length ∧
      ((r = .ok () ∧ k = data.length) ∨
       (r = .err .DiskFull ∧ k < data.length ∧ cs' ≠ [] ∧
         (Full v'.vol s'.dev.disk ∨ Gen.MAX_FILE_SIZE ≤ f.currentOffset + k)) ∨
       (r = .err .NotEnoughSpace ∧ k = 0 ∧ cs' = [] ∧ Full v'.vol s'.dev.disk)) ∧
      s' = { s with dev := s'.dev, cache := s'.cache, files := s.files.set i f', vols := s.vols.set vi v' } ∧
      v' = { v with vol := v'.vol } ∧ SameGeom v.vol v'.vol ∧
      absFile v'.vol s'.dev.disk f' cs' = (absFile v.vol s.dev.disk f cs).write (data.take k) ∧
      FileOK v'.vol s'.dev.disk f' cs' ∧ (cs' = [] → f'.curCluster < 2) ∧ cs <+: cs' ∧
      Owns v'.vol s'.dev.disk (withChain A cs' B) ∧ MgrOK s' ∧ HintOK v'.vol ∧ WFGeom v'.vol ∧
      f'.currentOffset = f.currentOffset + k ∧ f'.entry.size = max f.entry.size (f.currentOffset + k) ∧
      Mirror v'.vol s'.dev.disk ∧
      AllLicensed v.vol s.dev.disk (writeLicence cs cs' f.currentOffset k) (newWritesM s s') := by
  obtain ⟨k, r, s', f', v', cs', h1, h2, h3, h4, h5, h6, h7, h8, h9, h10, h11, h12, h13, h14, _, h16, h17, h18⟩ :=
    write_lic s h i vi data f v cs A B hs hh hf hv hvi hmode hg hhint hok hcur hown hmir
  refine ⟨k, r, s', f', v', cs', h1, h2, h3, h4, h5, h6, h7, h8, h9, h10, h11, h12, h13, h14, ?_, ?_, h17, (LicD.toWrites h18).1⟩
  · have := congrArg FileInfo.currentOffset h16; exact this
  · have := congrArg (fun x => x.entry.size) h16; exact this

/-! ### `delete_file_in_dir` -/

theorem delete_licensed (s : Mgr) (directory di vi : Nat) (name : List Nat) (sfn : Bytes) (d : DirInfo) (v : VolInfo)
    (e : DirEntry) (cs : List Nat) (hs : MgrOK s) (hg : WFGeom v.vol) (hhint : HintOK v.vol) (hm : Mirror v.vol s.dev.disk)
    (hd : s.dirs.findIdx? (·.rawDirectory = directory) = some di) (hdi : s.dirs[di]? = some d)
    (hv : s.vols.findIdx? (·.rawVolume = d.rawVolume) = some vi) (hvi : s.vols[vi]? = some v)
    (hname : Sfn.createFromStr name = .ok sfn)
    (hfind : (Fat.findDirectoryEntry d.cluster sfn (fsOf s v)).1 = .ok e)
    (hnd : Attr.isDirectory e.attributes = false) (hno : fileIsOpen s d.rawVolume e = false)
    (hreg : regionOf v.vol e.entryBlock = .root ∨ regionOf v.vol e.entryBlock = .data)
    (hch : (e.cluster < 2 ∧ cs = []) ∨ Chain v.vol s.dev.disk e.cluster cs) :
    ∃ s' v', deleteFileInDir directory name s = (.ok (), s') ∧
      s' = { s with dev := s'.dev, cache := s'.cache, vols := s.vols.set vi v' } ∧ v' = { v with vol := v'.vol } ∧
      MgrOK s' ∧ WFGeom v'.vol ∧ HintOK v'.vol ∧ Mirror v'.vol s'.dev.disk ∧ SameGeom v.vol v'.vol ∧
      AllLicensed v.vol s.dev.disk (deleteLicence e cs) (newWritesM s s') ∧
      s'.dev.disk.get e.entryBlock = (s.dev.disk.get e.entryBlock).set e.entryOffset (UInt8.ofNat 0xE5) := by
  obtain ⟨s', v', h1, h2, h3, h4, h5, h6, h7⟩ := deleteFile_lic s directory di vi name sfn d v e cs ⟨hs, hg, hhint, hm⟩ hd hdi hv hvi
    hname hfind hnd hno hreg hch
  exact ⟨s', v', h1, h2, h3, h4.ok, h4.geom, h4.hint, h4.mirror, h5, (LicD.toWrites h6).1, h7⟩

/-! ### `open_file_in_dir`, truncating -/

theorem truncate_open_licensed (s : Mgr) (dh vi : Nat) (name : List Nat) (sfn : Bytes) (dir : DirInfo) (mode : Mode) (v : VolInfo)
    (e : DirEntry) (cs : List Nat) (hm : mode = .ReadWriteTruncate ∨ mode = .ReadWriteCreateOrTruncate)
    (hc : Modes.DirCtx s dh name dir vi sfn) (hroom : s.files.length < s.maxFiles) (hvi : s.vols[vi]? = some v)
    (hs : MgrOK s) (hg : WFGeom v.vol) (hhint : HintOK v.vol) (hmir : Mirror v.vol s.dev.disk)
    (hfind : (Fat.findDirectoryEntry dir.cluster sfn (fsOf s v)).1 = .ok e)
    (hno : fileIsOpen s dir.rawVolume e = false) (hro : Attr.isReadOnly e.attributes = false)
    (hd : Attr.isDirectory e.attributes = false)
    (hreg : regionOf v.vol e.entryBlock = .root ∨ regionOf v.vol e.entryBlock = .data)
    (hch : (e.cluster < 2 ∧ cs = []) ∨ Chain v.vol s.dev.disk e.cluster cs) :
    ∃ s' v', openFileInDir dh name mode s = (.ok s.nextId, s') ∧ s'.vols = s.vols.set vi v' ∧ v' = { v with vol := v'.vol } ∧
      s'.files = s.files ++ [Modes.truncatedFile dir s.nextId e s.clock] ∧
      MgrOK s' ∧ WFGeom v'.vol ∧ HintOK v'.vol ∧ Mirror v'.vol s'.dev.disk ∧ SameGeom v.vol v'.vol ∧
      AllLicensed v.vol s.dev.disk (truncateLicence e cs) (newWritesM s s') := by
  obtain ⟨s', v', h1, h2, h3, h4, h5, h6, h7⟩ := truncateOpen_lic s dh vi name sfn dir mode v e cs hm hc hroom hvi ⟨hs, hg, hhint, hmir⟩
    hfind hno hro hd hreg hch
  exact ⟨s', v', h1, h2, h3, h4, h5.ok, h5.geom, h5.hint, h5.mirror, h6, (LicD.toWrites h7).1⟩

/-! ### `open_file_in_dir`, creating -/

theorem create_licensed (s : Mgr) (dh vi : Nat) (name : List Nat) (sfn : Bytes) (dir : DirInfo) (mode : Mode) (v : VolInfo)
    (dcs : List Nat)
    (hm : mode = .ReadWriteCreate ∨ mode = .ReadWriteCreateOrTruncate ∨ mode = .ReadWriteCreateOrAppend)
    (hc : Modes.DirCtx s dh name dir vi sfn) (hroom : s.files.length < s.maxFiles) (hvi : s.vols[vi]? = some v)
    (hs : MgrOK s) (hg : WFGeom v.vol) (hhint : HintOK v.vol) (hmir : Mirror v.vol s.dev.disk)
    (hfind : (Fat.findDirectoryEntry dir.cluster sfn (fsOf s v)).1 = .err .NotFound)
    (hdir : ¬ IsFixedRoot v.vol dir.cluster → Chain v.vol s.dev.disk (startCluster v.vol dir.cluster) dcs) :
    ∃ r s' v', openFileInDir dh name mode s = (r, s') ∧ s'.vols = s.vols.set vi v' ∧ v' = { v with vol := v'.vol } ∧
      MgrOK s' ∧ WFGeom v'.vol ∧ HintOK v'.vol ∧ Mirror v'.vol s'.dev.disk ∧ SameGeom v.vol v'.vol ∧
      ((∃ en, r = .ok s.nextId ∧ s'.files = s.files ++ [Modes.createdFile dir s.nextId en] ∧
          DirBlock v.vol dir.cluster dcs en.entryBlock ∧ en.entryOffset + 32 ≤ 512 ∧ en.entryOffset % 32 = 0 ∧
          AllLicensed v.vol s.dev.disk { slots := [(en.entryBlock, en.entryOffset)] } (newWritesM s s')) ∨
       (∃ en last c, r = .ok s.nextId ∧ s'.files = s.files ++ [Modes.createdFile dir s.nextId en] ∧
          ¬ IsFixedRoot v.vol dir.cluster ∧ dcs.getLast? = some last ∧ InRange v.vol c ∧ isFree v.vol s.dev.disk c ∧
          en.entryBlock = clusterToBlock v.vol c ∧ en.entryOffset = 0 ∧
          AllLicensed v.vol s.dev.disk { fatClusters := [last, c], dataClusters := [c] } (newWritesM s s')) ∨
       (r = .err .NotEnoughSpace ∧ s'.files = s.files ∧ newWritesM s s' = [])) := by
  obtain ⟨re, r, s', v', h1, h2, h3, h4, h5, hout, hres⟩ := createFile_lic s dh vi name sfn dir mode v dcs hm hc hroom hvi
    ⟨hs, hg, hhint, hmir⟩ hfind hdir
  refine ⟨r, s', v', h1, h2, h3, h4.ok, h4.geom, h4.hint, h4.mirror, h5, ?_⟩
  cases hout with
  | slot en hb ho hal _ lic =>
    rcases hres with ⟨en', he, hr, hf⟩ | ⟨he, _⟩
    · cases he
      exact .inl ⟨en, hr, hf, hb, ho, hal, (LicD.toWrites (lic _ (List.mem_singleton.2 rfl))).1⟩
    · cases he
  | grown en last c hk hl hr' hfree hb ho lic =>
    rcases hres with ⟨en', he, hr, hf⟩ | ⟨he, _⟩
    · cases he
      exact .inr (.inl ⟨en, last, c, hr, hf, hk, hl, hr', hfree, hb, ho,
        (LicD.toWrites (lic _ List.mem_cons_self (List.mem_cons_of_mem _ List.mem_cons_self) List.mem_cons_self)).1⟩)
    · cases he
  | full hw hd =>
    rcases hres with ⟨en', he, _⟩ | ⟨_, hr, hf⟩
    · cases he
    · exact .inr (.inr ⟨hr, hf, newWritesM_nil hw⟩)

/-! ### `make_dir_in_dir` -/

theorem mkdir_licensed (s : Mgr) (dh vi : Nat) (name : List Nat) (sfn : Bytes) (dir : DirInfo) (v : VolInfo) (dcs : List Nat)
    (hc : Modes.DirCtx s dh name dir vi sfn) (hroom : s.dirs.length < s.maxDirs) (hvi : s.vols[vi]? = some v)
    (hs : MgrOK s) (hg : WFGeom v.vol) (hhint : HintOK v.vol) (hmir : Mirror v.vol s.dev.disk)
    (hfind : (Fat.findDirectoryEntry dir.cluster sfn (fsOf s v)).1 = .err .NotFound)
    (hdir : ¬ IsFixedRoot v.vol dir.cluster → Chain v.vol s.dev.disk (startCluster v.vol dir.cluster) dcs) :
    (∃ s', makeDirInDir dh name s = (.err .NotEnoughSpace, s') ∧ newWritesM s s' = [] ∧ s'.dev.disk = s.dev.disk) ∨
    (∃ cn r s' v', makeDirInDir dh name s = (r, s') ∧ s'.vols = s.vols.set vi v' ∧ v' = { v with vol := v'.vol } ∧
      MgrOK s' ∧ WFGeom v'.vol ∧ HintOK v'.vol ∧ Mirror v'.vol s'.dev.disk ∧ SameGeom v.vol v'.vol ∧
      InRange v.vol cn ∧ isFree v.vol s.dev.disk cn ∧
      ((∃ b off, r = .ok () ∧ DirBlock v.vol dir.cluster dcs b ∧ off + 32 ≤ 512 ∧ off % 32 = 0 ∧
          AllLicensed v.vol s.dev.disk { fatClusters := [cn], dataClusters := [cn], slots := [(b, off)] } (newWritesM s s')) ∨
       (∃ last c, r = .ok () ∧ ¬ IsFixedRoot v.vol dir.cluster ∧ dcs.getLast? = some last ∧ InRange v.vol c ∧
          AllLicensed v.vol s.dev.disk { fatClusters := [cn, last, c], dataClusters := [cn, c] } (newWritesM s s')) ∨
       (r = .err .NotEnoughSpace ∧
          AllLicensed v.vol s.dev.disk { fatClusters := [cn], dataClusters := [cn] } (newWritesM s s')))) := by
  rcases mkdir_lic s dh vi name sfn dir v dcs hc hroom hvi ⟨hs, hg, hhint, hmir⟩ hfind hdir with
    ⟨s', h1, h2, h3⟩ | ⟨cn, r, s', v', h1, h2, h3, h4, h5, h6, h7, hout⟩
  · exact .inl ⟨s', h1, newWritesM_nil h2, h3⟩
  · refine .inr ⟨cn, r, s', v', h1, h2, h3, h4.ok, h4.geom, h4.hint, h4.mirror, h5, h6, h7, ?_⟩
    cases hout with
    | slot b off hb ho hal _ lic =>
      exact .inl ⟨b, off, rfl, hb, ho, hal, (LicD.toWrites (lic _ List.mem_cons_self List.mem_cons_self List.mem_cons_self)).1⟩
    | grown last c hk hl hr _ lic =>
      exact .inr (.inl ⟨last, c, rfl, hk, hl, hr, (LicD.toWrites (lic _ List.mem_cons_self List.mem_cons_self
        (List.mem_cons_of_mem _ List.mem_cons_self) (List.mem_cons_of_mem _ (List.mem_cons_of_mem _ List.mem_cons_self))
        (List.mem_cons_of_mem _ List.mem_cons_self))).1⟩)
    | full lic => exact .inr (.inr ⟨rfl, (LicD.toWrites (lic _ List.mem_cons_self List.mem_cons_self)).1⟩)

/-! ### From a call to `step` -/

/-- The writes `step` reports are the writes the call added to the (cleared) log. -/
theorem step_writes (s : Mgr) (op : Op) (hl : s.locked = false) :
    (Model.step s op).2.writes = newWritesM (MHoare.resetLogs s) (runOp op (MHoare.resetLogs s)).2 ∧
    (Model.step s op).1 = (runOp op (MHoare.resetLogs s)).2 ∧ (MHoare.resetLogs s).dev.disk = s.dev.disk := by
  rw [MHoare.step_unlocked s op hl]
  refine ⟨?_, rfl, rfl⟩
  show _ = (List.take (_ - (MHoare.resetLogs s).dev.wlog.length) _).reverse
  have : (MHoare.resetLogs s).dev.wlog.length = 0 := rfl
  rw [this, Nat.sub_zero, List.take_length]

/-- The state a call leaves does not depend on what `runOp` wraps around its answer. -/
theorem bind_pure_state {α β : Type} (m : M α) (g : α → β) (s : Mgr) : ((m >>= fun a => pure (g a)) s).2 = (m s).2 := by
  rw [MHoare.bind_def]
  rcases m s with ⟨r, s'⟩
  cases r <;> rfl

theorem runOp_write (f : Nat) (b : Bytes) (s : Mgr) : (runOp (.write f b) s).2 = (Model.write f b s).2 :=
  bind_pure_state (Model.write f b) (fun _ => Payload.unit) s
theorem runOp_flush (f : Nat) (s : Mgr) : (runOp (.flush f) s).2 = (flushFile f s).2 :=
  bind_pure_state (flushFile f) (fun _ => Payload.unit) s
theorem runOp_closeFile (f : Nat) (s : Mgr) : (runOp (.closeFile f) s).2 = (closeFile f s).2 :=
  bind_pure_state (closeFile f) (fun _ => Payload.unit) s
theorem runOp_closeVolume (v : Nat) (s : Mgr) : (runOp (.closeVolume v) s).2 = (closeVolume v s).2 :=
  bind_pure_state (closeVolume v) (fun _ => Payload.unit) s
theorem runOp_delete (d : Nat) (n : List Nat) (s : Mgr) : (runOp (.delete d n) s).2 = (deleteFileInDir d n s).2 :=
  bind_pure_state (deleteFileInDir d n) (fun _ => Payload.unit) s
theorem runOp_mkdir (d : Nat) (n : List Nat) (s : Mgr) : (runOp (.mkdir d n) s).2 = (makeDirInDir d n s).2 :=
  bind_pure_state (makeDirInDir d n) (fun _ => Payload.unit) s
theorem runOp_openFile (d : Nat) (n : List Nat) (m : Mode) (s : Mgr) : (runOp (.openFile d n m) s).2 = (openFileInDir d n m s).2 :=
  bind_pure_state (openFileInDir d n m) (fun h => Payload.handle h) s

/-- What every call does when the state is locked, the operation read-only, or the call refused. -/
theorem step_nowrite_cases (s : Mgr) (op : Op)
    (h : s.locked = true ∨ Fault.readOnlyOp op = true ∨ ∃ e, (Model.step s op).2.result = .err e ∧ Refusal e) :
    (Model.step s op).2.writes = [] ∧ (Model.step s op).1.dev.disk = s.dev.disk := by
  rcases h with h | h | ⟨e, he, hr⟩
  · unfold Model.step
    rw [if_pos h]
    split <;> exact ⟨rfl, rfl⟩
  · have := Fault.step_readonly_nowrite s op h
    exact ⟨this.2, this.1⟩
  · exact step_refused_nowrite s op e he hr

end Sdmmc.Lemmas.WriteSet
