/-
Write side of C01, part 5 — consequences of `write_refines`: the target form under the
`MAX_FILE_SIZE` hypothesis, what a write leaves alone (other chains of the volume, other open files
of the same and of other volumes, blocks outside the partition), and write-then-read.
-/
import Sdmmc.Lemmas.WriteRefinesCall

namespace Sdmmc.Lemmas.WriteRefines
open Sdmmc.Model Sdmmc.Model.Fat Sdmmc.Spec
open Sdmmc.Lemmas.FBasic hiding NoFault Coherent
open Sdmmc.Lemmas.FatOps hiding BlocksOK Mirror HintOK
open Sdmmc.Lemmas.ChainL Sdmmc.Lemmas.ForestBase Sdmmc.Lemmas.ForestOwns Sdmmc.Lemmas.ReadRefines

/-! ### Below `MAX_FILE_SIZE` -/

/-- `write_refines` for a write that stays below `MAX_FILE_SIZE`: a short write means the volume
is full. -/
theorem write_refines_within_max (s : Mgr) (h i vi : Nat) (data : Bytes) (f : FileInfo) (v : VolInfo) (cs : List Nat)
    (A B : List (List Nat)) (hs : MOK s)
    (hh : s.files.findIdx? (·.rawFile = h) = some i) (hf : s.files[i]? = some f)
    (hv : s.vols.findIdx? (·.rawVolume = f.rawVolume) = some vi) (hvi : s.vols[vi]? = some v)
    (hmode : f.mode ≠ .ReadOnly) (hg : WFGeom v.vol) (hhint : HintOK v.vol)
    (hok : FileOK v.vol s.dev.disk f cs) (hcur : cs = [] → f.curCluster < 2)
    (hown : Owns v.vol s.dev.disk (withChain A cs B))
    (hmax : f.currentOffset + data.length ≤ Gen.MAX_FILE_SIZE) :
    ∃ k r s' f' v' cs', Model.write h data s = (r, s') ∧ k ≤ data.length ∧
      ((r = .ok () ∧ k = data.length) ∨
       (r = .err .DiskFull ∧ k < data.length ∧ cs' ≠ [] ∧ Full v'.vol s'.dev.disk) ∨
       (r = .err .NotEnoughSpace ∧ k = 0 ∧ cs' = [] ∧ Full v'.vol s'.dev.disk)) ∧
      s' = { s with dev := s'.dev, cache := s'.cache, files := s.files.set i f', vols := s.vols.set vi v' } ∧
      v' = { v with vol := v'.vol } ∧ SameGeom v.vol v'.vol ∧
      absFile v'.vol s'.dev.disk f' cs' = (absFile v.vol s.dev.disk f cs).write (data.take k) ∧
      FileOK v'.vol s'.dev.disk f' cs' ∧ (cs' = [] → f'.curCluster < 2) ∧ cs <+: cs' ∧
      Owns v'.vol s'.dev.disk (withChain A cs' B) ∧ MOK s' ∧ HintOK v'.vol ∧ WFGeom v'.vol ∧
      Touch v.vol cs' s.dev s'.dev ∧ WriteFile s.clock f f' k := by
  obtain ⟨k, r, s', f', v', cs', hrun, hk, hres, rest⟩ :=
    write_refines s h i vi data f v cs A B hs hh hf hv hvi hmode hg hhint hok hcur hown
  refine ⟨k, r, s', f', v', cs', hrun, hk, ?_, rest⟩
  rcases hres with h1 | ⟨h1, h2, h3, h4 | h4⟩ | h1
  · exact .inl h1
  · exact .inr (.inl ⟨h1, h2, h3, h4⟩)
  · omega
  · exact .inr (.inr h1)

/-! ### What a write leaves alone -/

theorem mem_withChain_of_mem {A B : List (List Nat)} {X : List Nat} (cs : List Nat) (h : X ∈ A ++ B) : X ∈ withChain A cs B := by
  unfold withChain
  rcases List.mem_append.1 h with h | h
  · exact List.mem_append_left _ (List.mem_append_left _ h)
  · exact List.mem_append_right _ h

/-- A chain of `A ++ B` shares no cluster with the chain `cs` in between. -/
theorem withChain_disjoint {v : FatVolume} {d : Disk} {A B : List (List Nat)} {cs X : List Nat}
    (ho : Owns v d (withChain A cs B)) (hX : X ∈ A ++ B) : ∀ x, x ∈ X → x ∉ cs := by
  intro x hx hxc
  have hne : cs ≠ [] := by intro e; rw [e] at hxc; cases hxc
  rw [withChain_ne hne] at ho
  have hnd := ho.2.1
  rw [flatten3, nodup3, ForestStep.flatten_one] at hnd
  obtain ⟨_, _, _, dAM, _, dMB⟩ := hnd
  rcases List.mem_append.1 hX with h | h
  · exact dAM x (List.mem_flatten_of_mem h hx) hxc
  · exact dMB x hxc (List.mem_flatten_of_mem h hx)

/-- The blocks of the clusters of another chain of the volume are not touched. -/
theorem touch_other_chain {v : FatVolume} {cs' X : List Nat} {dv dv' : Dev} (hg : WFGeom v) (ht : Touch v cs' dv dv')
    (hcs' : ∀ x, x ∈ cs' → InRange v x) (hX : ∀ x, x ∈ X → InRange v x) (hdis : ∀ x, x ∈ X → x ∉ cs') :
    (∀ x, x ∈ X → ∀ j, j < v.blocksPerCluster → dv'.disk.get (clusterToBlock v x + j) = dv.disk.get (clusterToBlock v x + j)) ∧
    chainBytes v dv'.disk X = chainBytes v dv.disk X := by
  have h1 : ∀ x, x ∈ X → ∀ j, j < v.blocksPerCluster →
      dv'.disk.get (clusterToBlock v x + j) = dv.disk.get (clusterToBlock v x + j) := fun x hx j hj =>
    ht.disk _ (clusterBlock_not_fat hg (hX x hx) hj) (clusterBlock_not_of_not_mem hg hcs' (hX x hx) hj (hdis x hx))
  exact ⟨h1, chainBytes_congr v _ _ X h1⟩

/-- Blocks outside the partition of the volume are not touched. -/
theorem touch_outside_partition {v : FatVolume} {cs' : List Nat} {dv dv' : Dev} (hg : WFGeom v) (ht : Touch v cs' dv dv')
    (hcs' : ∀ x, x ∈ cs' → InRange v x) (b : Nat) (hb : ¬ InPartition v b) : dv'.disk.get b = dv.disk.get b := by
  refine ht.disk b (fun hf => hb ?_) (fun hc => hb ?_)
  · have := FatLens.region_inside_partition v b (by rw [isFatBlock_region hg hf]; simp)
    exact ⟨by omega, this.2⟩
  · have := FatLens.region_inside_partition v b (by rw [isClusterBlock_region hg hcs' hc]; simp)
    exact ⟨by omega, this.2⟩

/-- A consistent file on a medium that agrees on the FAT blocks and cluster blocks of its chain. -/
theorem fileOK_congr {w : FatVolume} {d d' : Disk} {g : FileInfo} {X : List Nat} (hok : FileOK w d g X)
    (hfat : ∀ x, x ∈ X → d'.get (fatBlock w x) = d.get (fatBlock w x)) : FileOK w d' g X := by
  refine ⟨?_, hok.size_fits, hok.pos_le, hok.cursor⟩
  rcases hok.chain with h1 | h1
  · exact .inl h1
  · exact .inr (chain_congr h1 hfat)

theorem fileOK_inRange {w : FatVolume} {d : Disk} {g : FileInfo} {X : List Nat} (hok : FileOK w d g X) :
    ∀ x, x ∈ X → InRange w x := by
  rcases hok.chain with ⟨_, h1, _⟩ | h1
  · intro x hx; rw [h1] at hx; cases hx
  · exact chain_inRange h1

/-- **Writing to one file never changes what any other file reads back** — files of the same
volume.  `g` is another open file (slot `j ≠ i`) of the volume, consistent with the medium, whose
chain `X` is one of the chains `A ++ B` next to the written file's (or `X = []`, an empty file).
After the write it is the same record in the same slot, has the same byte-array view, and is still
consistent — with the same chain. -/
theorem write_other_same_volume (s : Mgr) (h i vi : Nat) (data : Bytes) (f : FileInfo) (v : VolInfo) (cs : List Nat)
    (A B : List (List Nat)) (hs : MOK s)
    (hh : s.files.findIdx? (·.rawFile = h) = some i) (hf : s.files[i]? = some f)
    (hv : s.vols.findIdx? (·.rawVolume = f.rawVolume) = some vi) (hvi : s.vols[vi]? = some v)
    (hmode : f.mode ≠ .ReadOnly) (hg : WFGeom v.vol) (hhint : HintOK v.vol)
    (hok : FileOK v.vol s.dev.disk f cs) (hcur : cs = [] → f.curCluster < 2)
    (hown : Owns v.vol s.dev.disk (withChain A cs B))
    (j : Nat) (hj : j ≠ i) (g : FileInfo) (hgj : s.files[j]? = some g) (X : List Nat) (hX : X ∈ A ++ B ∨ X = [])
    (hokg : FileOK v.vol s.dev.disk g X) :
    ∃ v', (Model.write h data s).2.vols[vi]? = some v' ∧ (Model.write h data s).2.files[j]? = some g ∧
      absFile v'.vol (Model.write h data s).2.dev.disk g X = absFile v.vol s.dev.disk g X ∧
      FileOK v'.vol (Model.write h data s).2.dev.disk g X ∧
      chainBytes v.vol (Model.write h data s).2.dev.disk X = chainBytes v.vol s.dev.disk X := by
  obtain ⟨k, r, s', f', v', cs', hrun, _, _, heq, _, hsg, _, hok', _, _, hown', _, _, hg', htouch, _⟩ :=
    write_refines s h i vi data f v cs A B hs hh hf hv hvi hmode hg hhint hok hcur hown
  rw [hrun]
  have hvilt : vi < s.vols.length := (List.getElem?_eq_some_iff.1 hvi).1
  have hfiles : s'.files = s.files.set i f' := by rw [heq]
  have hvols : s'.vols = s.vols.set vi v' := by rw [heq]
  refine ⟨v', by show s'.vols[vi]? = _; rw [hvols]; exact List.getElem?_set_self hvilt,
    by show s'.files[j]? = _; rw [hfiles, List.getElem?_set_ne (Ne.symm hj)]; exact hgj, ?_⟩
  show absFile v'.vol s'.dev.disk g X = _ ∧ FileOK v'.vol s'.dev.disk g X ∧ chainBytes v.vol s'.dev.disk X = _
  rcases hX with hX | hX
  · have hcs' : ∀ x, x ∈ cs' → InRange v.vol x := fun x hx => (hsg.inRange x).1 (fileOK_inRange hok' x hx)
    have hXr := fileOK_inRange hokg
    have hdis : ∀ x, x ∈ X → x ∉ cs' := withChain_disjoint hown' hX
    obtain ⟨_, hbytes⟩ := touch_other_chain hg htouch hcs' hXr hdis
    have hchX : Chain v'.vol s'.dev.disk (X.headD 0) X := hown'.1 X (mem_withChain_of_mem cs' hX)
    have hXne : X ≠ [] := chain_ne_nil hchX
    have hhead : X.headD 0 = g.entry.cluster := by
      rcases hokg.chain with ⟨_, h1, _⟩ | h1
      · exact absurd h1 hXne
      · exact chain_head_eq h1
    refine ⟨?_, ?_, hbytes⟩
    · rw [sameGeom_absFile hsg]
      show ({ bytes := (chainBytes v.vol s'.dev.disk X).take g.entry.size, pos := g.currentOffset } : ByteFile) =
        { bytes := (chainBytes v.vol s.dev.disk X).take g.entry.size, pos := g.currentOffset }
      rw [hbytes]
    · refine ⟨.inr (by rw [← hhead]; exact hchX), ?_, hokg.pos_le, ?_⟩
      · rw [sameGeom_clusterBytesLen hsg]; exact hokg.size_fits
      · rw [sameGeom_clusterBytesLen hsg]; exact hokg.cursor
  · subst hX
    refine ⟨rfl, ?_, rfl⟩
    refine ⟨?_, ?_, hokg.pos_le, .inl rfl⟩
    · rcases hokg.chain with h1 | h1
      · exact .inl h1
      · exact absurd rfl (chain_ne_nil h1)
    · rw [sameGeom_clusterBytesLen hsg]; exact hokg.size_fits

/-- **… nor of any other volume.**  `g` is an open file consistent with the medium under a volume
record `w` whose partition shares no block with the written volume's.  The write leaves its record,
its byte-array view and its consistency alone; and every volume-table slot other than `vi` is the
same. -/
theorem write_other_volume (s : Mgr) (h i vi : Nat) (data : Bytes) (f : FileInfo) (v : VolInfo) (cs : List Nat)
    (A B : List (List Nat)) (hs : MOK s)
    (hh : s.files.findIdx? (·.rawFile = h) = some i) (hf : s.files[i]? = some f)
    (hv : s.vols.findIdx? (·.rawVolume = f.rawVolume) = some vi) (hvi : s.vols[vi]? = some v)
    (hmode : f.mode ≠ .ReadOnly) (hg : WFGeom v.vol) (hhint : HintOK v.vol)
    (hok : FileOK v.vol s.dev.disk f cs) (hcur : cs = [] → f.curCluster < 2)
    (hown : Owns v.vol s.dev.disk (withChain A cs B))
    (j : Nat) (hj : j ≠ i) (g : FileInfo) (hgj : s.files[j]? = some g) (w : FatVolume) (hgw : WFGeom w)
    (hdisj : ∀ b, InPartition w b → ¬ InPartition v.vol b) (X : List Nat) (hokg : FileOK w s.dev.disk g X) :
    (Model.write h data s).2.files[j]? = some g ∧
    (∀ vj, vj ≠ vi → (Model.write h data s).2.vols[vj]? = s.vols[vj]?) ∧
    absFile w (Model.write h data s).2.dev.disk g X = absFile w s.dev.disk g X ∧
    FileOK w (Model.write h data s).2.dev.disk g X ∧
    (∀ b, InPartition w b → (Model.write h data s).2.dev.disk.get b = s.dev.disk.get b) := by
  obtain ⟨k, r, s', f', v', cs', hrun, _, _, heq, _, hsg, _, hok', _, _, _, _, _, _, htouch, _⟩ :=
    write_refines s h i vi data f v cs A B hs hh hf hv hvi hmode hg hhint hok hcur hown
  rw [hrun]
  have hfiles : s'.files = s.files.set i f' := by rw [heq]
  have hvols : s'.vols = s.vols.set vi v' := by rw [heq]
  have hcs' : ∀ x, x ∈ cs' → InRange v.vol x := fun x hx => (hsg.inRange x).1 (fileOK_inRange hok' x hx)
  have hpart : ∀ b, InPartition w b → s'.dev.disk.get b = s.dev.disk.get b := fun b hb =>
    touch_outside_partition hg htouch hcs' b (hdisj b hb)
  have hXr := fileOK_inRange hokg
  have hfat : ∀ x, x ∈ X → s'.dev.disk.get (fatBlock w x) = s.dev.disk.get (fatBlock w x) := by
    intro x hx
    apply hpart
    have := FatLens.region_inside_partition w (fatBlock w x)
      (by rw [(FatLens.fat_blocks_in_fat_region w hgw x (hXr x hx).2).1]; simp)
    exact ⟨by omega, this.2⟩
  have hbytes : chainBytes w s'.dev.disk X = chainBytes w s.dev.disk X := by
    apply chainBytes_congr
    intro x hx jj hjj
    apply hpart
    have := FatLens.region_inside_partition w (clusterToBlock w x + jj)
      (by rw [FatLens.cluster_blocks_in_data_region w hgw x jj (hXr x hx).1 (hXr x hx).2 hjj]; simp)
    exact ⟨by omega, this.2⟩
  refine ⟨by show s'.files[j]? = _; rw [hfiles, List.getElem?_set_ne (Ne.symm hj)]; exact hgj,
    fun vj hvj => by show s'.vols[vj]? = _; rw [hvols, List.getElem?_set_ne (Ne.symm hvj)], ?_, fileOK_congr hokg hfat, hpart⟩
  show ({ bytes := (chainBytes w s'.dev.disk X).take g.entry.size, pos := g.currentOffset } : ByteFile) =
    { bytes := (chainBytes w s.dev.disk X).take g.entry.size, pos := g.currentOffset }
  rw [hbytes]

/-! ### Write, seek, read -/

/-- After a successful `write h data`, `seek_from_start h p` and `read h n` return the window
`[p, p + n)` of the byte array the model holds after the write. -/
theorem write_then_read (s : Mgr) (h i vi : Nat) (data : Bytes) (f : FileInfo) (v : VolInfo) (cs : List Nat)
    (A B : List (List Nat)) (hs : MOK s)
    (hh : s.files.findIdx? (·.rawFile = h) = some i) (hf : s.files[i]? = some f)
    (hv : s.vols.findIdx? (·.rawVolume = f.rawVolume) = some vi) (hvi : s.vols[vi]? = some v)
    (hmode : f.mode ≠ .ReadOnly) (hg : WFGeom v.vol) (hhint : HintOK v.vol)
    (hok : FileOK v.vol s.dev.disk f cs) (hcur : cs = [] → f.curCluster < 2)
    (hown : Owns v.vol s.dev.disk (withChain A cs B))
    (s1 : Mgr) (hw : Model.write h data s = (.ok (), s1)) (p n : Nat)
    (hp : p ≤ ((absFile v.vol s.dev.disk f cs).write data).bytes.length) :
    ∃ s2 s3, fileSeekFromStart h p s1 = (.ok (), s2) ∧
      Model.read h n s2 = (.ok ((((absFile v.vol s.dev.disk f cs).write data).bytes.drop p).take n), s3) := by
  obtain ⟨k, r, s', f', v', cs', hrun, _, hres, heq, hvid, hsg, habs, hok', _, _, _, hs', _, hg', _, hwf⟩ :=
    write_refines s h i vi data f v cs A B hs hh hf hv hvi hmode hg hhint hok hcur hown
  rw [hw] at hrun
  have hr : r = .ok () := (congrArg Prod.fst hrun).symm
  have hs1 : s' = s1 := (congrArg Prod.snd hrun).symm
  subst hs1
  have hk : k = data.length := by
    rcases hres with ⟨_, h2⟩ | ⟨h1, _⟩ | ⟨h1, _⟩
    · exact h2
    · rw [hr] at h1; cases h1
    · rw [hr] at h1; cases h1
  rw [hk, List.take_length] at habs
  have hilt : i < s.files.length := (List.getElem?_eq_some_iff.1 hf).1
  have hvilt : vi < s.vols.length := (List.getElem?_eq_some_iff.1 hvi).1
  have hfiles : s'.files = s.files.set i f' := by rw [heq]
  have hvols : s'.vols = s.vols.set vi v' := by rw [heq]
  have hraw : f'.rawFile = f.rawFile := by unfold WriteFile at hwf; rw [hwf]
  have hrv : f'.rawVolume = f.rawVolume := by unfold WriteFile at hwf; rw [hwf]
  have hvraw : v'.rawVolume = v.rawVolume := by rw [hvid]
  have hh1 : s'.files.findIdx? (·.rawFile = h) = some i := by
    rw [hfiles, findIdx?_set_same _ s.files i f f' hf (by simp only [hraw])]; exact hh
  have hf1 : s'.files[i]? = some f' := by rw [hfiles]; exact List.getElem?_set_self hilt
  have hv1 : s'.vols.findIdx? (·.rawVolume = f'.rawVolume) = some vi := by
    rw [hvols, hrv, findIdx?_set_same _ s.vols vi v v' hvi (by simp only [hvraw])]; exact hv
  have hvi1 : s'.vols[vi]? = some v' := by rw [hvols]; exact List.getElem?_set_self hvilt
  have hbytes : (absFile v'.vol s'.dev.disk f' cs').bytes = ((absFile v.vol s.dev.disk f cs).write data).bytes := by rw [habs]
  have hlen : (absFile v'.vol s'.dev.disk f' cs').bytes.length = f'.entry.size :=
    fileContent_length _ _ _ _ hs'.2.2.1 hok'.size_fits
  have hp' : p ≤ f'.entry.size := by rw [← hlen, hbytes]; exact hp
  have hseek := Files.file_seek_start_spec h p i f' s' (MHoare.getFileById_ok hh1) (MHoare.getFile_ok hf1)
  rw [if_pos hp'] at hseek
  generalize hf2 : ({ f' with currentOffset := p } : FileInfo) = f2 at hseek
  generalize hs2 : ({ s' with files := s'.files.set i f2 } : Mgr) = s2 at hseek
  have hi1 : i < s'.files.length := by rw [hfiles, List.length_set]; exact hilt
  have hok2 : FileOK v'.vol s2.dev.disk f2 cs' := by
    rw [← hs2, ← hf2]
    exact ⟨hok'.chain, hok'.size_fits, hp', hok'.cursor⟩
  obtain ⟨s3, f3, hread, _⟩ := read_refines s2 h n i vi f2 v' cs' (by rw [← hs2]; exact hs')
    (by rw [← hs2]
        show (s'.files.set i f2).findIdx? _ = _
        rw [findIdx?_set_same _ s'.files i f' f2 hf1 (by rw [← hf2])]; exact hh1)
    (by rw [← hs2]; exact List.getElem?_set_self hi1)
    (by rw [← hs2, ← hf2]; exact hv1) (by rw [← hs2]; exact hvi1) hg' hok2
  refine ⟨s2, s3, hseek, ?_⟩
  rw [hread, absFile_read_fst]
  have : fileContent v'.vol s2.dev.disk cs' f2.entry.size = (absFile v'.vol s'.dev.disk f' cs').bytes := by
    rw [← hs2, ← hf2]; rfl
  rw [this, hbytes, ← hf2]

/-! ### The statements of `Props/C01Write.lean` -/

/-- `write_refines` with the frame spelled out (the form stated in `Props/C01Write.lean`); without
the `MAX_FILE_SIZE` hypothesis, so with the additional outcome "cut at `MAX_FILE_SIZE`". -/
theorem write_refines_spelled (s : Mgr) (h i vi : Nat) (data : Bytes) (f : FileInfo) (v : VolInfo) (cs : List Nat)
    (A B : List (List Nat)) (hs : MOK s)
    (hh : s.files.findIdx? (·.rawFile = h) = some i) (hf : s.files[i]? = some f)
    (hv : s.vols.findIdx? (·.rawVolume = f.rawVolume) = some vi) (hvi : s.vols[vi]? = some v)
    (hmode : f.mode ≠ .ReadOnly) (hg : WFGeom v.vol) (hhint : HintOK v.vol)
    (hok : FileOK v.vol s.dev.disk f cs) (hcur : cs = [] → f.curCluster < 2)
    (hown : Owns v.vol s.dev.disk (withChain A cs B)) :
    ∃ k r s' f' v' cs', Model.write h data s = (r, s') ∧ k ≤ data.length ∧
      ((r = .ok () ∧ k = data.length) ∨
       (r = .err .DiskFull ∧ k < data.length ∧ cs' ≠ [] ∧
         (Full v'.vol s'.dev.disk ∨ Gen.MAX_FILE_SIZE ≤ f.currentOffset + k)) ∨
       (r = .err .NotEnoughSpace ∧ k = 0 ∧ cs' = [] ∧ Full v'.vol s'.dev.disk)) ∧
      s' = { s with dev := s'.dev, cache := s'.cache, files := s.files.set i f', vols := s.vols.set vi v' } ∧
      v' = { v with vol := v'.vol } ∧ SameGeom v.vol v'.vol ∧
      absFile v'.vol s'.dev.disk f' cs' = (absFile v.vol s.dev.disk f cs).write (data.take k) ∧
      FileOK v'.vol s'.dev.disk f' cs' ∧ (cs' = [] → f'.curCluster < 2) ∧ cs <+: cs' ∧
      Owns v'.vol s'.dev.disk (withChain A cs' B) ∧ MOK s' ∧ HintOK v'.vol ∧ WFGeom v'.vol ∧
      (∀ X, X ∈ A ++ B → chainBytes v.vol s'.dev.disk X = chainBytes v.vol s.dev.disk X) ∧
      (∀ b, ¬ IsFatBlock v.vol b → ¬ IsClusterBlock v.vol cs' b → s'.dev.disk.get b = s.dev.disk.get b) ∧
      (∀ b, ¬ InPartition v.vol b → s'.dev.disk.get b = s.dev.disk.get b) ∧
      (∃ new, s'.dev.wlog = new ++ s.dev.wlog ∧ ∀ w, w ∈ new → IsFatBlock v.vol w.1 ∨ IsClusterBlock v.vol cs' w.1) ∧
      f' = { f with currentOffset := f.currentOffset + k, curClusterOff := f'.curClusterOff, curCluster := f'.curCluster,
                    dirty := true,
                    entry := { f.entry with size := max f.entry.size (f.currentOffset + k), cluster := f'.entry.cluster,
                                            attributes := Attr.setArchive f.entry.attributes, mtime := s.clock } } := by
  obtain ⟨k, r, s', f', v', cs', hrun, hk, hres, heq, hvid, hsg, habs, hok', hcur', hpre, hown', hs', hhint', hg', htouch, hwf⟩ :=
    write_refines s h i vi data f v cs A B hs hh hf hv hvi hmode hg hhint hok hcur hown
  have hcs' : ∀ x, x ∈ cs' → InRange v.vol x := fun x hx => (hsg.inRange x).1 (fileOK_inRange hok' x hx)
  refine ⟨k, r, s', f', v', cs', hrun, hk, hres, heq, hvid, hsg, habs, hok', hcur', hpre, hown', hs', hhint', hg', ?_,
    htouch.disk, touch_outside_partition hg htouch hcs', htouch.wlog, hwf⟩
  intro X hX
  have hchX : Chain v.vol s.dev.disk (X.headD 0) X := hown.1 X (mem_withChain_of_mem cs hX)
  exact (touch_other_chain hg htouch hcs' (chain_inRange hchX) (withChain_disjoint hown' hX)).2

/-- The same below `MAX_FILE_SIZE`: a short write means the volume is full. -/
theorem write_refines_spelled_max (s : Mgr) (h i vi : Nat) (data : Bytes) (f : FileInfo) (v : VolInfo) (cs : List Nat)
    (A B : List (List Nat)) (hs : MOK s)
    (hh : s.files.findIdx? (·.rawFile = h) = some i) (hf : s.files[i]? = some f)
    (hv : s.vols.findIdx? (·.rawVolume = f.rawVolume) = some vi) (hvi : s.vols[vi]? = some v)
    (hmode : f.mode ≠ .ReadOnly) (hg : WFGeom v.vol) (hhint : HintOK v.vol)
    (hok : FileOK v.vol s.dev.disk f cs) (hcur : cs = [] → f.curCluster < 2)
    (hown : Owns v.vol s.dev.disk (withChain A cs B))
    (hmax : f.currentOffset + data.length ≤ Gen.MAX_FILE_SIZE) :
    ∃ k r s' f' v' cs', Model.write h data s = (r, s') ∧ k ≤ data.length ∧
      ((r = .ok () ∧ k = data.length) ∨
       (r = .err .DiskFull ∧ k < data.length ∧ cs' ≠ [] ∧ Full v'.vol s'.dev.disk) ∨
       (r = .err .NotEnoughSpace ∧ k = 0 ∧ cs' = [] ∧ Full v'.vol s'.dev.disk)) ∧
      s' = { s with dev := s'.dev, cache := s'.cache, files := s.files.set i f', vols := s.vols.set vi v' } ∧
      v' = { v with vol := v'.vol } ∧ SameGeom v.vol v'.vol ∧
      absFile v'.vol s'.dev.disk f' cs' = (absFile v.vol s.dev.disk f cs).write (data.take k) ∧
      FileOK v'.vol s'.dev.disk f' cs' ∧ (cs' = [] → f'.curCluster < 2) ∧ cs <+: cs' ∧
      Owns v'.vol s'.dev.disk (withChain A cs' B) ∧ MOK s' ∧ HintOK v'.vol ∧ WFGeom v'.vol ∧
      (∀ X, X ∈ A ++ B → chainBytes v.vol s'.dev.disk X = chainBytes v.vol s.dev.disk X) ∧
      (∀ b, ¬ IsFatBlock v.vol b → ¬ IsClusterBlock v.vol cs' b → s'.dev.disk.get b = s.dev.disk.get b) ∧
      (∀ b, ¬ InPartition v.vol b → s'.dev.disk.get b = s.dev.disk.get b) ∧
      (∃ new, s'.dev.wlog = new ++ s.dev.wlog ∧ ∀ w, w ∈ new → IsFatBlock v.vol w.1 ∨ IsClusterBlock v.vol cs' w.1) ∧
      f' = { f with currentOffset := f.currentOffset + k, curClusterOff := f'.curClusterOff, curCluster := f'.curCluster,
                    dirty := true,
                    entry := { f.entry with size := max f.entry.size (f.currentOffset + k), cluster := f'.entry.cluster,
                                            attributes := Attr.setArchive f.entry.attributes, mtime := s.clock } } := by
  obtain ⟨k, r, s', f', v', cs', hrun, hk, hres, rest⟩ :=
    write_refines_spelled s h i vi data f v cs A B hs hh hf hv hvi hmode hg hhint hok hcur hown
  refine ⟨k, r, s', f', v', cs', hrun, hk, ?_, rest⟩
  rcases hres with h1 | ⟨h1, h2, h3, h4 | h4⟩ | h1
  · exact .inl h1
  · exact .inr (.inl ⟨h1, h2, h3, h4⟩)
  · omega
  · exact .inr (.inr h1)

/-- One `write` call through the transition function `step`: the answer, and every device write
of the call is a FAT block of the volume or a block of a cluster of the file's (new) chain. -/
theorem write_step_refines (s : Mgr) (h i vi : Nat) (data : Bytes) (f : FileInfo) (v : VolInfo) (cs : List Nat)
    (A B : List (List Nat)) (hs : MOK s)
    (hh : s.files.findIdx? (·.rawFile = h) = some i) (hf : s.files[i]? = some f)
    (hv : s.vols.findIdx? (·.rawVolume = f.rawVolume) = some vi) (hvi : s.vols[vi]? = some v)
    (hmode : f.mode ≠ .ReadOnly) (hg : WFGeom v.vol) (hhint : HintOK v.vol)
    (hok : FileOK v.vol s.dev.disk f cs) (hcur : cs = [] → f.curCluster < 2)
    (hown : Owns v.vol s.dev.disk (withChain A cs B)) :
    ∃ k f' v' cs', (step s (.write h data)).1.files[i]? = some f' ∧ (step s (.write h data)).1.vols[vi]? = some v' ∧
      k ≤ data.length ∧
      (((step s (.write h data)).2.result = .ok .unit ∧ k = data.length) ∨
       ((step s (.write h data)).2.result = .err .DiskFull ∧ k < data.length) ∨
       ((step s (.write h data)).2.result = .err .NotEnoughSpace ∧ k = 0)) ∧
      absFile v'.vol (step s (.write h data)).1.dev.disk f' cs' = (absFile v.vol s.dev.disk f cs).write (data.take k) ∧
      (∀ b, b ∈ (step s (.write h data)).2.writes → IsFatBlock v.vol b.1 ∨ IsClusterBlock v.vol cs' b.1) := by
  obtain ⟨k, r, s', f', v', cs', hrun, hk, hres, heq, _, _, habs, _, _, _, _, _, _, _, htouch, _⟩ :=
    write_refines (MHoare.resetLogs s) h i vi data f v cs A B hs hh hf hv hvi hmode hg hhint hok hcur hown
  have hstep : runOp (.write h data) (MHoare.resetLogs s) = (r.bind fun _ => .ok Payload.unit, s') := by
    show (Model.write h data >>= fun _ => pure Payload.unit) (MHoare.resetLogs s) = _
    rw [MHoare.bind_def, hrun]
    cases r <;> rfl
  rw [MHoare.step_unlocked s _ hs.2.2.2, hstep]
  have hilt : i < s.files.length := (List.getElem?_eq_some_iff.1 hf).1
  have hvilt : vi < s.vols.length := (List.getElem?_eq_some_iff.1 hvi).1
  refine ⟨k, f', v', cs', ?_, ?_, hk, ?_, habs, ?_⟩
  · show s'.files[i]? = _; rw [heq]; exact List.getElem?_set_self hilt
  · show s'.vols[vi]? = _; rw [heq]; exact List.getElem?_set_self hvilt
  · show ((r.bind fun _ => Res.ok Payload.unit) = _ ∧ _) ∨ ((r.bind fun _ => Res.ok Payload.unit) = _ ∧ _) ∨
      ((r.bind fun _ => Res.ok Payload.unit) = _ ∧ _)
    rcases hres with ⟨h1, h2⟩ | ⟨h1, h2, _⟩ | ⟨h1, h2, _⟩
    · subst h1; exact .inl ⟨rfl, h2⟩
    · subst h1; exact .inr (.inl ⟨rfl, h2⟩)
    · subst h1; exact .inr (.inr ⟨rfl, h2⟩)
  · obtain ⟨new, e, hn⟩ := htouch.wlog
    intro b hb
    have hb' : b ∈ s'.dev.wlog.reverse := hb
    rw [e] at hb'
    have : (MHoare.resetLogs s).dev.wlog = [] := rfl
    rw [this, List.append_nil, List.mem_reverse] at hb'
    exact hn b hb'

end Sdmmc.Lemmas.WriteRefines
