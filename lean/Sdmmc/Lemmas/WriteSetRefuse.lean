/-
C04 over whole calls, refusals, part 2 (item 9 of the package): **a refused call has not written**.

`Refusal e`: the errors by which the manager refuses a call before doing anything — bad handle, the three
table limits, file/directory already open, wrong type (`OpenedDirAsFile`, `OpenedFileAsDir`,
`DeleteDirAsFile`), read-only, name clash (`FileAlreadyExists`, `DirAlreadyExists`), invalid name, volume
guards, invalid offset, lock, unsupported mode, mount errors.  (`NotFound`, `NotEnoughSpace`, `DiskFull`,
`DeviceError`, … are not in the class: they are produced by the engine, possibly after writes.)

`step_refused_nowrite`: for EVERY manager state — no soundness hypothesis, any fault plan —, every call
and every error of that class, the call issued no device write and left the medium alone.

Method: every error the FAT engine returns is an engine error (`Errs`, `Sdmmc.Lemmas.WriteSetErrs`), so a
call is a prefix that never writes (`Silent`: handle look-ups, the directory lookup, the checks) followed
by engine work that never returns a refusal (`NoRefuse`).  The one table look-up that follows a write —
`write` looks the volume handle up again after allocating the first cluster — cannot fail because
`withVol` keeps the handles (`write_quiet`).
-/
import Sdmmc.Lemmas.WriteSetErrs
import Sdmmc.Lemmas.Modes
import Sdmmc.Lemmas.DirMgr
import Sdmmc.Lemmas.WriteRefinesCall
import Sdmmc.Lemmas.FaultRetry
import Sdmmc.Lemmas.Fault

namespace Sdmmc.Lemmas.WriteSet
open Sdmmc.Model Sdmmc.Model.Fat Sdmmc.Lemmas.Fault Sdmmc.Lemmas.MHoare

/-- The errors by which the manager refuses a call before doing anything. -/
def Refusal : Err → Prop
  | .BadHandle | .TooManyOpenVolumes | .TooManyOpenDirs | .TooManyOpenFiles | .FileAlreadyOpen | .DirAlreadyOpen
  | .OpenedDirAsFile | .OpenedFileAsDir | .DeleteDirAsFile | .VolumeStillInUse | .VolumeAlreadyOpen | .Unsupported
  | .ReadOnly | .FileAlreadyExists | .DirAlreadyExists | .FilenameError _ | .InvalidOffset | .LockError
  | .NoSuchVolume | .FormatError _ | .BadBlockSize _ | .ConversionError => True
  | _ => False

instance (e : Err) : Decidable (Refusal e) := by cases e <;> unfold Refusal <;> infer_instance

theorem engine_not_refusal {e : Err} (h : EngineErr e) : ¬ Refusal e := by
  cases e <;> first | exact (fun h' => h') | exact False.elim h

/-- Nothing reached the medium and the write log did not grow. -/
def NoWriteM (s s' : Mgr) : Prop := s'.dev.wlog = s.dev.wlog ∧ s'.dev.disk = s.dev.disk
theorem NoWriteM.refl (s : Mgr) : NoWriteM s s := ⟨rfl, rfl⟩
theorem NoWriteM.trans {a b c : Mgr} (h1 : NoWriteM a b) (h2 : NoWriteM b c) : NoWriteM a c :=
  ⟨h2.1.trans h1.1, h2.2.trans h1.2⟩

/-- `m` never writes, whatever it returns. -/
def Silent {α} (m : M α) : Prop := ∀ s, NoWriteM s (m s).2
/-- `m` never returns a refusal error. -/
def NoRefuse {α} (m : M α) : Prop := ∀ s e, (m s).1 = .err e → ¬ Refusal e
/-- When `m` returns a refusal error it has not written. -/
def Quiet {α} (m : M α) : Prop := ∀ s e, (m s).1 = .err e → Refusal e → NoWriteM s (m s).2

theorem Quiet.of_silent {α} {m : M α} (h : Silent m) : Quiet m := fun s _ _ _ => h s
theorem Quiet.of_noRefuse {α} {m : M α} (h : NoRefuse m) : Quiet m := fun s e he hr => absurd hr (h s e he)

theorem Silent.pure {α} (a : α) : Silent (pure a : M α) := fun s => NoWriteM.refl s
theorem Silent.fail {α} (e : Err) : Silent (M.fail e : M α) := fun s => NoWriteM.refl s
theorem Silent.panic {α} (m : String) : Silent (M.panic m : M α) := fun s => NoWriteM.refl s
theorem Silent.lift {α} (r : Res α) : Silent (M.lift r) := fun s => NoWriteM.refl s
theorem Silent.get : Silent M.get := fun s => NoWriteM.refl s
theorem Silent.generate : Silent generate := fun _ => ⟨rfl, rfl⟩
theorem Silent.getFileById (raw : Nat) : Silent (getFileById raw) := by
  intro s; unfold Model.getFileById; split <;> exact NoWriteM.refl s
theorem Silent.getDirById (raw : Nat) : Silent (getDirById raw) := by
  intro s; unfold Model.getDirById; split <;> exact NoWriteM.refl s
theorem Silent.getVolumeById (raw : Nat) : Silent (getVolumeById raw) := by
  intro s; unfold Model.getVolumeById; split <;> exact NoWriteM.refl s
theorem Silent.getDir (i : Nat) : Silent (getDir i) := by
  intro s; unfold Model.getDir; split <;> exact NoWriteM.refl s
theorem Silent.getFile (i : Nat) : Silent (getFile i) := by
  intro s; unfold Model.getFile; split <;> exact NoWriteM.refl s
theorem Silent.getVolInfo (i : Nat) : Silent (getVolInfo i) := by
  intro s; unfold Model.getVolInfo; split <;> exact NoWriteM.refl s
theorem Silent.toSfn (name : List Nat) : Silent (toSfn name) := by
  unfold Model.toSfn; split
  · exact Silent.pure _
  · exact Silent.fail _
theorem Silent.modifyFile (i : Nat) (g : FileInfo → FileInfo) : Silent (modifyFile i g) := fun _ => ⟨rfl, rfl⟩

theorem Silent.bind {α β} {m : M α} {f : α → M β} (hm : Silent m) (hf : ∀ a, Silent (f a)) : Silent (m >>= f) := by
  intro s
  have h1 := hm s
  rw [bind_def]
  rcases hms : m s with ⟨r, s'⟩
  rw [hms] at h1
  cases r with
  | ok a => exact h1.trans (hf a s')
  | err e => exact h1
  | panic msg => exact h1
  | diverged => exact h1

theorem Silent.attempt {α} {m : M α} (hm : Silent m) : Silent (M.attempt m) := fun s => hm s

theorem Silent.ite {α} {c : Prop} [Decidable c] {a b : M α} (ha : Silent a) (hb : Silent b) :
    Silent (if c then a else b) := by split <;> assumption

/-- A never-writing engine computation, run on a volume. -/
theorem Silent.withVol {α} (i : Nat) (f : F α) (hf : Modes.RO f) : Silent (withVol i f) := by
  intro s
  rw [Modes.withVol_ro_state i f hf s]
  exact ⟨rfl, rfl⟩

theorem NoRefuse.pure {α} (a : α) : NoRefuse (pure a : M α) := fun _ _ h => by cases h
theorem NoRefuse.panic {α} (m : String) : NoRefuse (M.panic m : M α) := fun _ _ h => by cases h
theorem NoRefuse.fail {α} {e : Err} (h : ¬ Refusal e) : NoRefuse (M.fail e : M α) := fun _ _ h' => by cases h'; exact h
theorem NoRefuse.lift {α} {r : Res α} (h : ∀ e, r = .err e → ¬ Refusal e) : NoRefuse (M.lift r) := fun _ e h' => h e h'
theorem NoRefuse.get : NoRefuse M.get := fun _ _ h => by cases h
theorem NoRefuse.generate : NoRefuse generate := fun _ _ h => by cases h
theorem NoRefuse.modify (g : Mgr → Mgr) : NoRefuse (M.modify g) := fun _ _ h => by cases h
theorem NoRefuse.modifyFile (i : Nat) (g : FileInfo → FileInfo) : NoRefuse (modifyFile i g) := fun _ _ h => by cases h
theorem NoRefuse.getFile (i : Nat) : NoRefuse (getFile i) := by
  intro s e h; unfold Model.getFile at h; split at h <;> cases h

theorem NoRefuse.bind {α β} {m : M α} {f : α → M β} (hm : NoRefuse m) (hf : ∀ a, NoRefuse (f a)) : NoRefuse (m >>= f) := by
  intro s e h
  rcases hms : m s with ⟨r, s'⟩
  cases r with
  | ok a => rw [bind_ok hms] at h; exact hf a s' e h
  | err e' =>
    rw [bind_err hms] at h
    have : e' = e := Res.err.inj h
    subst this
    exact hm s e' (by rw [hms])
  | panic msg => rw [bind_panic hms] at h; cases h
  | diverged => rw [bind_diverged hms] at h; cases h

theorem NoRefuse.ite {α} {c : Prop} [Decidable c] {a b : M α} (ha : NoRefuse a) (hb : NoRefuse b) :
    NoRefuse (if c then a else b) := by split <;> assumption

/-- An engine computation run on a volume returns engine errors only. -/
theorem NoRefuse.withVol {α} (i : Nat) (f : F α) (hf : Errs f) : NoRefuse (withVol i f) := by
  intro s e h
  cases hv : s.vols[i]? with
  | none => rw [DirMgr.withVol_none i f s hv] at h; cases h
  | some vi =>
    rw [DirMgr.withVol_eq i f s vi hv] at h
    exact engine_not_refusal (hf _ e h)

/-- A silent prefix, then a quiet rest. -/
theorem Quiet.bind_silent {α β} {m : M α} {f : α → M β} (hm : Silent m) (hf : ∀ a, Quiet (f a)) : Quiet (m >>= f) := by
  intro s e h hr
  have h1 := hm s
  rcases hms : m s with ⟨r, s'⟩
  rw [hms] at h1
  cases r with
  | ok a => rw [bind_ok hms] at h ⊢; exact h1.trans (hf a s' e h hr)
  | err e' => rw [bind_err hms]; exact h1
  | panic msg => rw [bind_panic hms] at h; cases h
  | diverged => rw [bind_diverged hms] at h; cases h

/-- A quiet first part, then a rest that never refuses. -/
theorem Quiet.bind_noRefuse {α β} {m : M α} {f : α → M β} (hm : Quiet m) (hf : ∀ a, NoRefuse (f a)) : Quiet (m >>= f) := by
  intro s e h hr
  have h1 := hm s
  rcases hms : m s with ⟨r, s'⟩
  rw [hms] at h1
  cases r with
  | ok a => rw [bind_ok hms] at h; exact absurd hr (hf a s' e h)
  | err e' =>
    rw [bind_err hms] at h ⊢
    have : e' = e := Res.err.inj h
    subst this
    exact h1 e' rfl hr
  | panic msg => rw [bind_panic hms] at h; cases h
  | diverged => rw [bind_diverged hms] at h; cases h

theorem Quiet.ite {α} {c : Prop} [Decidable c] {a b : M α} (ha : Quiet a) (hb : Quiet b) :
    Quiet (if c then a else b) := by split <;> assumption


/-! ### Automation -/

macro "silent_step" : tactic => `(tactic| with_reducible first
  | exact Silent.pure _
  | exact Silent.fail _
  | exact Silent.panic _
  | exact Silent.lift _
  | exact Silent.get
  | exact Silent.generate
  | exact Silent.getFileById _
  | exact Silent.getDirById _
  | exact Silent.getVolumeById _
  | exact Silent.getDir _
  | exact Silent.getFile _
  | exact Silent.getVolInfo _
  | exact Silent.toSfn _
  | exact Silent.modifyFile _ _
  | exact Silent.withVol _ _ (Modes.ro_findDirectoryEntry _ _)
  | assumption
  | apply Silent.attempt
  | apply Silent.bind
  | apply Silent.ite
  | intro _)

macro "silent" : tactic => `(tactic| repeat' (first | silent_step | exact (fun _ => ⟨rfl, rfl⟩) | with_reducible split))

macro "norefuse_step" : tactic => `(tactic| first
  | with_reducible first
    | exact NoRefuse.pure _
    | exact NoRefuse.panic _
    | exact NoRefuse.get
    | exact NoRefuse.generate
    | exact NoRefuse.modify _
    | exact NoRefuse.modifyFile _ _
    | exact NoRefuse.getFile _
    | exact NoRefuse.withVol _ _ updateInfoSector_errs
    | exact NoRefuse.withVol _ _ (writeEntryToDisk_errs _)
    | exact NoRefuse.withVol _ _ (writeNewDirectoryEntry_errs _ _ _ _ _)
    | exact NoRefuse.withVol _ _ (truncateClusterChain_errs _)
    | exact NoRefuse.withVol _ _ (makeDir_errs _ _ _ _)
    | exact NoRefuse.withVol _ _ (allocCluster_errs _ _)
    | exact NoRefuse.withVol _ _ (writeBlockPart_errs _ _ _ _)
    | assumption
    | apply NoRefuse.bind
    | apply NoRefuse.ite
    | intro _
  | exact NoRefuse.fail (by decide))

macro "norefuse" : tactic => `(tactic| repeat' (first | norefuse_step | with_reducible split))

/-! ### The calls -/

theorem flushFile_quiet (file : Nat) : Quiet (flushFile file) := by
  unfold flushFile
  refine Quiet.bind_silent (Silent.getFileById _) fun i => Quiet.bind_silent (Silent.getFile _) fun f => ?_
  split
  · refine Quiet.bind_silent (Silent.getVolumeById _) fun vi => Quiet.of_noRefuse ?_
    norefuse
  · exact Quiet.of_silent (Silent.pure _)

theorem closeVolume_quiet (volume : Nat) : Quiet (closeVolume volume) := by
  unfold closeVolume
  refine Quiet.bind_silent Silent.get fun s => ?_
  refine Quiet.ite (Quiet.of_silent (Silent.fail _)) (Quiet.ite (Quiet.of_silent (Silent.fail _)) ?_)
  refine Quiet.bind_silent (Silent.getVolumeById _) fun vi => Quiet.of_noRefuse ?_
  norefuse

theorem makeDirInDir_quiet (directory : Nat) (name : List Nat) : Quiet (makeDirInDir directory name) := by
  unfold makeDirInDir
  refine Quiet.bind_silent Silent.get fun s => Quiet.ite (Quiet.of_silent (Silent.fail _)) ?_
  refine Quiet.bind_silent (Silent.getDirById _) fun pi => Quiet.bind_silent (Silent.getDir _) fun parent => ?_
  refine Quiet.bind_silent (Silent.getVolumeById _) fun vi => Quiet.bind_silent (Silent.toSfn _) fun sfn => ?_
  refine Quiet.bind_silent (Silent.attempt (Silent.withVol _ _ (Modes.ro_findDirectoryEntry _ _))) fun r => ?_
  split
  · exact Quiet.of_silent (by silent)
  · exact Quiet.of_noRefuse (by norefuse)
  · exact Quiet.of_silent (Silent.lift _)

theorem deleteFileInDir_quiet (directory : Nat) (name : List Nat) : Quiet (deleteFileInDir directory name) := by
  unfold deleteFileInDir
  refine Quiet.bind_silent (Silent.getDirById _) fun di => Quiet.bind_silent (Silent.getDir _) fun d => ?_
  refine Quiet.bind_silent (Silent.getVolumeById _) fun vi => Quiet.bind_silent (Silent.toSfn _) fun sfn => ?_
  refine Quiet.bind_silent (Silent.withVol _ _ (Modes.ro_findDirectoryEntry _ _)) fun e => ?_
  refine Quiet.ite (Quiet.of_silent (Silent.fail _)) ?_
  refine Quiet.bind_silent Silent.get fun s => Quiet.ite (Quiet.of_silent (Silent.fail _)) ?_
  refine Quiet.bind_silent (Silent.getVolumeById _) fun vi2 => Quiet.of_noRefuse ?_
  refine NoRefuse.withVol _ _ ?_
  exact Errs.bind (deleteDirectoryEntry_errs _ _) fun _ => freeClusterChain_errs _

theorem Quiet.fail_bind {α β} (e : Err) (f : α → M β) : Quiet (M.fail e >>= f) := fun s _ _ _ => NoWriteM.refl s

/-- The part of `open_file_in_dir` after the "already open" check. -/
macro "open_rest" : tactic => `(tactic| (
  split
  · exact Quiet.of_silent (Silent.fail _)
  · refine Quiet.bind_silent (Silent.getVolumeById _) fun vi2 => Quiet.of_noRefuse ?_
    norefuse
  · exact Quiet.of_silent (Silent.panic _)
  · refine Quiet.ite (Quiet.of_silent (Silent.fail _)) (Quiet.ite (Quiet.of_silent (Silent.fail _))
      (Quiet.ite (Quiet.of_silent (Silent.fail _)) ?_))
    refine Quiet.bind_silent Silent.generate fun id => ?_
    refine Quiet.bind_noRefuse ?_ (fun file => by norefuse)
    split
    · exact Quiet.of_silent (Silent.pure _)
    · exact Quiet.of_silent (Silent.pure _)
    · exact Quiet.of_noRefuse (by norefuse)
    · exact Quiet.of_silent (Silent.fail _)))

theorem openFileTail_quiet (d : DirInfo) (vi : Nat) (sfn : Bytes) (mode : Mode) (r : Res DirEntry) :
    Quiet (Modes.openFileTail d vi sfn mode r) := by
  unfold Modes.openFileTail
  refine Quiet.bind_silent (by silent) fun dirEntry => Quiet.bind_silent Silent.get fun s => ?_
  cases dirEntry with
  | some e =>
    dsimp +zetaHave only
    split
    · exact Quiet.fail_bind _ _
    · open_rest
  | none =>
    dsimp +zetaHave only
    open_rest

theorem openFileInDir_quiet (directory : Nat) (name : List Nat) (mode : Mode) : Quiet (openFileInDir directory name mode) := by
  rw [Modes.openFileInDir_eq]
  unfold Modes.openFileInDirAlt
  refine Quiet.bind_silent Silent.get fun s => Quiet.ite (Quiet.of_silent (Silent.fail _)) ?_
  refine Quiet.bind_silent (Silent.getDirById _) fun di => Quiet.bind_silent (Silent.getDir _) fun d => ?_
  refine Quiet.bind_silent (Silent.getVolumeById _) fun vi => Quiet.bind_silent (Silent.toSfn _) fun sfn => ?_
  refine Quiet.bind_silent (Silent.attempt (Silent.withVol _ _ (Modes.ro_findDirectoryEntry _ _))) fun r => ?_
  exact openFileTail_quiet d vi sfn mode r

/-! ### `close_file` -/

theorem findIdx?_of_map_eq {α : Type} (k : α → Nat) (raw : Nat) {l l' : List α} (h : l.map k = l'.map k) :
    l.findIdx? (fun x => decide (k x = raw)) = l'.findIdx? (fun x => decide (k x = raw)) := by
  have e : ∀ m : List α, m.findIdx? (fun x => decide (k x = raw)) = (m.map k).findIdx? (fun y => decide (y = raw)) := by
    intro m; rw [List.findIdx?_map]; rfl
  rw [e l, e l', h]

theorem flushFile_resp (file : Nat) : Resp (flushFile file) := by unfold flushFile; resp

theorem closeFile_quiet (file : Nat) : Quiet (closeFile file) := by
  intro s e h hr
  unfold closeFile at h ⊢
  rw [attempt_bind] at h ⊢
  have hfr := flushFile_resp file s
  have hq := flushFile_quiet file s
  rcases hfl : flushFile file s with ⟨r, s1⟩
  rw [hfl] at h hfr hq
  dsimp only at h hfr hq ⊢
  have hidx : s1.files.findIdx? (fun x => decide (x.rawFile = file)) = s.files.findIdx? (fun x => decide (x.rawFile = file)) :=
    findIdx?_of_map_eq FileInfo.rawFile file hfr.fileIds
  cases hf : s.files.findIdx? (fun x => decide (x.rawFile = file)) with
  | none =>
    -- the handle is unknown: the flush was refused at once
    have hfl' : flushFile file s = (.err .BadHandle, s) := by
      unfold flushFile; exact bind_err (getFileById_bad hf)
    rw [hfl] at hfl'
    have : s1 = s := congrArg Prod.snd hfl'
    rw [this, bind_err (getFileById_bad hf)]
    exact NoWriteM.refl s
  | some i =>
    rw [hf] at hidx
    rw [bind_ok (getFileById_ok hidx), modify_bind] at h ⊢
    have hr' : r = .err e := h
    exact hq e hr' hr

/-! ### `write` -/

theorem NoRefuse.attempt_bind {α β} {m : M α} {k : Res α → M β} (hm : NoRefuse m)
    (hk : ∀ r, (∀ e, r = .err e → ¬ Refusal e) → NoRefuse (k r)) : NoRefuse (M.attempt m >>= k) :=
  fun s e h => hk _ (fun e' he' => hm s e' he') _ e h

theorem res_bind_err {α β} {r : Res α} {e0 : Err} (hr : ∀ e, r = .err e → ¬ Refusal e) (h0 : ¬ Refusal e0) :
    ∀ e, (r.bind fun _ => (Res.err e0 : Res β)) = .err e → ¬ Refusal e := by
  intro e h
  cases r with
  | ok a => have : e0 = e := Res.err.inj h; rw [← this]; exact h0
  | err e' => have : e' = e := Res.err.inj h; rw [← this]; exact hr e' rfl
  | panic m => cases h
  | diverged => cases h

theorem findDataOnDisk_errs (fileStart off : Nat) (start : Nat × Nat) : Errs (findDataOnDisk fileStart off start) :=
  fun s e h => absurd h (Fault.findDataOnDisk_noErr fileStart off start s e)

/-- The link failure `walkClusters` hands back is an engine error. -/
theorem walkClusters_inner (bpc : Nat) : ∀ (n : Nat) (st st' : Nat × Nat) (r : Res Unit) (s s' : FS),
    walkClusters bpc n st s = (.ok (st', r), s') → ResEng r
  | 0, st, st', r, s, s', h => by
    rw [Files.walk_zero] at h
    simp only [Prod.mk.injEq, Res.ok.injEq] at h
    rw [← h.1.2]; exact ResEng.ok _
  | n + 1, st, st', r, s, s', h => by
    rw [Files.walk_succ] at h
    have hn := nextCluster_errs st.2 s
    rcases hnc : nextCluster st.2 s with ⟨r1, s1⟩
    rw [hnc] at h hn
    cases r1 with
    | ok c => exact walkClusters_inner bpc n _ st' r s1 s' h
    | err e =>
      simp only [Prod.mk.injEq, Res.ok.injEq] at h
      rw [← h.1.2]; exact ResEng.err (hn e rfl)
    | panic m => simp only [Prod.mk.injEq, Res.ok.injEq] at h; rw [← h.1.2]; exact ResEng.panic _
    | diverged => simp only [Prod.mk.injEq, Res.ok.injEq] at h; rw [← h.1.2]; exact ResEng.diverged

/-- … and so is the inner outcome of `find_data_on_disk`. -/
theorem findDataOnDisk_inner' (fileStart off : Nat) (start : Nat × Nat) (s : FS) (st : Nat × Nat)
    (r : Res (Nat × Nat × Nat)) (h : (findDataOnDisk fileStart off start s).1 = .ok (st, r)) : ResEng r := by
  by_cases hb : bytesPerCluster s.vol = 0
  · unfold findDataOnDisk at h
    simp only [bind, F.bind', F.getVol, hb, if_true, F.panic] at h
    cases h
  · obtain ⟨st', r', s', hw, heq, _⟩ := Files.find_data_eq fileStart off start s hb
    rw [heq] at h
    simp only [Res.ok.injEq, Prod.mk.injEq] at h
    have hin := walkClusters_inner _ _ _ _ _ _ _ hw
    rw [← h.2]
    cases r' with
    | ok u => exact ResEng.ok _
    | err e => exact ResEng.err (hin e rfl)
    | panic m => exact ResEng.panic _
    | diverged => exact ResEng.diverged

/-- `attempt (withVol vi (find_data_on_disk …))`: neither the outcome nor the inner outcome is a refusal. -/
theorem noRefuse_attempt_find_bind {β} (vi a b : Nat) (c : Nat × Nat) {k : Res ((Nat × Nat) × Res (Nat × Nat × Nat)) → M β}
    (hk : ∀ r, (∀ e, r = .err e → ¬ Refusal e) → (∀ st e, r = .ok (st, .err e) → ¬ Refusal e) → NoRefuse (k r)) :
    NoRefuse (M.attempt (withVol vi (findDataOnDisk a b c)) >>= k) := by
  intro s e h
  refine hk _ (fun e' he' => NoRefuse.withVol _ _ (findDataOnDisk_errs _ _ _) s e' he') ?_ _ e h
  intro st e' he'
  cases hv : s.vols[vi]? with
  | none => rw [DirMgr.withVol_none vi _ s hv] at he'; cases he'
  | some v =>
    rw [DirMgr.withVol_eq vi _ s v hv] at he'
    exact engine_not_refusal (findDataOnDisk_inner' _ _ _ _ st _ he' e' rfl)

theorem writeLoop_noRefuse (fi vi : Nat) : ∀ (fuel : Nat) (buffer : Bytes), NoRefuse (writeLoop fi vi fuel buffer) := by
  intro fuel
  induction fuel with
  | zero => intro buffer; unfold writeLoop; exact NoRefuse.pure _
  | succ n ih =>
    intro buffer
    unfold writeLoop
    split
    · exact NoRefuse.pure _
    · refine NoRefuse.bind (NoRefuse.getFile _) fun f => ?_
      refine noRefuse_attempt_find_bind _ _ _ _ fun r hr hri => ?_
      refine NoRefuse.bind ?_ fun x => ?_
      · split
        · exact NoRefuse.pure _
        · refine NoRefuse.attempt_bind (NoRefuse.withVol _ _ (allocCluster_errs _ _)) fun ra hra => ?_
          split
          · refine noRefuse_attempt_find_bind _ _ _ _ fun r2 hr2 hri2 => ?_
            split
            · exact NoRefuse.pure _
            · exact NoRefuse.fail (by decide)
            · exact NoRefuse.lift (res_bind_err (fun e he => by subst he; exact hri2 _ _ rfl) (by decide))
            · exact NoRefuse.lift (res_bind_err hr2 (by decide))
          · exact NoRefuse.fail (by decide)
          · exact NoRefuse.lift (res_bind_err hra (by decide))
        · exact NoRefuse.lift (res_bind_err (fun e he => by subst he; exact hri _ _ rfl) (by decide))
        · exact NoRefuse.lift (res_bind_err hr (by decide))
      · exact NoRefuse.bind (NoRefuse.withVol _ _ (writeBlockPart_errs _ _ _ _)) fun _ =>
          NoRefuse.bind (NoRefuse.modifyFile _ _) fun _ => ih _

/-- `write` after the cursor fix-up, on a state in which the volume handle is found. -/
theorem writeRest_noRefuseAt (rv fi vi : Nat) (buffer : Bytes) (s : Mgr)
    (hv : s.vols.findIdx? (·.rawVolume = rv) = some vi) (e : Err)
    (h : (WriteRefines.writeRest rv fi buffer s).1 = .err e) : ¬ Refusal e := by
  unfold WriteRefines.writeRest at h
  rw [bind_ok (getVolumeById_ok hv)] at h
  revert h
  refine (?_ : NoRefuse _) s e
  refine NoRefuse.bind (NoRefuse.modifyFile _ _) fun _ => NoRefuse.bind (NoRefuse.getFile _) fun f => ?_
  refine NoRefuse.bind (writeLoop_noRefuse _ _ _ _) fun _ => ?_
  split
  · exact NoRefuse.fail (by decide)
  · exact NoRefuse.pure _

theorem withVol_resp_vols {α} (vi : Nat) (f : F α) (s : Mgr) (rv : Nat) :
    (withVol vi f s).2.vols.findIdx? (fun x => decide (x.rawVolume = rv)) = s.vols.findIdx? (fun x => decide (x.rawVolume = rv)) :=
  findIdx?_of_map_eq VolInfo.rawVolume rv (resp_withVol vi f s).volHandles

/-- **A refused `write` has not written.** -/
theorem write_quiet (file : Nat) (buffer : Bytes) : Quiet (write file buffer) := by
  intro s e h hr
  cases hh : s.files.findIdx? (fun x => decide (x.rawFile = file)) with
  | none =>
    have : write file buffer s = (.err .BadHandle, s) := by unfold write; exact bind_err (getFileById_bad hh)
    rw [this]; exact NoWriteM.refl s
  | some i =>
    obtain ⟨f, hf, _⟩ := findIdx?_some_get hh
    cases hv : s.vols.findIdx? (fun x => decide (x.rawVolume = f.rawVolume)) with
    | none =>
      have : write file buffer s = (.err .BadHandle, s) := by
        unfold write
        rw [bind_ok (getFileById_ok hh), bind_ok (getFile_ok hf)]
        exact bind_err (getVolumeById_bad hv)
      rw [this]; exact NoWriteM.refl s
    | some vi =>
      by_cases hm : f.mode = .ReadOnly
      · rw [WriteRefines.write_readOnly s file i vi buffer f hh hf hv hm]; exact NoWriteM.refl s
      · exfalso
        rw [WriteRefines.write_run s file i vi buffer f hh hf hv hm] at h
        generalize hs1 : ({ s with files := s.files.set i (WriteRefines.touchFile s.clock f) } : Mgr) = s1 at h
        have hv1 : s1.vols.findIdx? (fun x => decide (x.rawVolume = f.rawVolume)) = some vi := by rw [← hs1]; exact hv
        unfold WriteRefines.writeTail at h
        by_cases hc : f.entry.cluster < Gen.RESERVED_ENTRIES
        · rw [if_pos hc] at h
          rcases ha : withVol vi (Fat.allocCluster none false) s1 with ⟨ra, s2⟩
          have hv2 : s2.vols.findIdx? (fun x => decide (x.rawVolume = f.rawVolume)) = some vi := by
            have := withVol_resp_vols vi (Fat.allocCluster none false) s1 f.rawVolume
            rw [ha] at this; rw [this]; exact hv1
          cases ra with
          | ok c =>
            rw [bind_ok ha] at h
            exact writeRest_noRefuseAt f.rawVolume i vi buffer
              { s2 with files := s2.files.modify i fun f => { f with entry := { f.entry with cluster := c } } } hv2 e h hr
          | err e' =>
            rw [bind_err ha] at h
            have : e' = e := Res.err.inj h
            subst this
            exact NoRefuse.withVol vi _ (allocCluster_errs _ _) s1 e' (by rw [ha]) hr
          | panic m => rw [bind_panic ha] at h; cases h
          | diverged => rw [bind_diverged ha] at h; cases h
        · rw [if_neg hc] at h
          exact writeRest_noRefuseAt _ _ vi _ _ hv1 e h hr

/-! ### Through `step` -/

theorem quiet_map {α β} {m : M α} (g : α → β) (h : Quiet m) : Quiet (m >>= fun a => pure (g a)) :=
  Quiet.bind_noRefuse h fun _ => NoRefuse.pure _

/-- **A refused call has not written** — for EVERY state (sound or not, with or without scheduled device
faults), every call and every error of the refusal class: the call issued no device write and the
medium is the one before the call. -/
theorem step_refused_nowrite (s : Mgr) (op : Op) (e : Err) (h : (step s op).2.result = .err e) (hr : Refusal e) :
    (step s op).2.writes = [] ∧ (step s op).1.dev.disk = s.dev.disk := by
  by_cases hro : Fault.readOnlyOp op = true
  · exact ⟨(Fault.step_readonly_nowrite s op hro).2, (Fault.step_readonly_nowrite s op hro).1⟩
  · by_cases hl : s.locked = true
    · unfold step
      rw [if_pos hl]
      split <;> exact ⟨rfl, rfl⟩
    · have hl' : s.locked = false := by simpa using hl
      rw [MHoare.step_unlocked s op hl'] at h ⊢
      dsimp only at h ⊢
      have hq : Quiet (runOp op) := by
        cases op <;> first
          | exact absurd rfl hro
          | exact quiet_map _ (closeVolume_quiet _)
          | exact quiet_map _ (openFileInDir_quiet _ _ _)
          | exact quiet_map _ (write_quiet _ _)
          | exact quiet_map _ (flushFile_quiet _)
          | exact quiet_map _ (closeFile_quiet _)
          | exact quiet_map _ (deleteFileInDir_quiet _ _)
          | exact quiet_map _ (makeDirInDir_quiet _ _)
      obtain ⟨hw, hd⟩ := hq (MHoare.resetLogs s) e h hr
      exact ⟨by rw [hw]; rfl, by rw [hd]; rfl⟩
end Sdmmc.Lemmas.WriteSet
