/-
C11 (device faults) with several open volumes, part 7 — ASSEMBLY: every call addressed to a volume record stays in its
partition under any pending schedule, and what that gives for all open volumes.

* `addressed_staysIn` — for EVERY call addressed to volume record `i` (all 18 constructors of `Op` that work on a volume
  record), under ANY pending schedule, from `VolInvNF` with identical FAT copies: no block outside the partition of volume
  `i` changes and the medium still consists of 512-byte blocks (`StaysIn`).  Read-only calls write nothing; `prefixOp` calls:
  licences of the fault-free call (`Lemmas/VolNFault.lean`); `write`: `write_frame`, `step_write_blocksOK`
  (`Lemmas/VolNFaultLen.lean`); `make_dir_in_dir`: `FaultInv.step_mkdir_out` (`Lemmas/VolNFaultMkdir.lean`);
* `addressed_others`, `addressed_own` — so every OTHER open volume keeps its record, its open files and directories (up to
  table order), its partition byte for byte and its medium invariant; and the volume worked on has sound directories;
* `dirsInv_congr_regions`, `closeVolume_own` — `close_volume` rewrites at most the info sector: the directories of the
  volume being closed are sound on the medium it leaves, whatever failed;
* `untargeted_all` — a call addressed to no volume record (other than `close_volume`) leaves the medium and the file table
  alone: every open volume keeps its medium invariant.
-/
import Sdmmc.Lemmas.VolNFault3
import Sdmmc.Lemmas.VolNFaultLen
import Sdmmc.Lemmas.VolNFaultMkdir
import Sdmmc.Lemmas.VolNFaultRetry

namespace Sdmmc.Lemmas.VolNFault
open Sdmmc.Model Sdmmc.Model.Fat Sdmmc.Spec.Volume
open Sdmmc.Spec hiding run step NoFault Coherent
open Sdmmc.Lemmas.VolN (LabelFresh ProjRel StepSim projH)
open Sdmmc.Lemmas.MHoare
open Sdmmc.Props

/-! ### Every addressed call stays in its partition -/

/-- **`addressed_staysIn`.** -/
theorem addressed_staysIn {s : Mgr} {ghs : List Ghost} (hI : VolInvNF s ghs) (hm : MirrorN s ghs) (op : Op) {i : Nat}
    {vi : VolInfo} {gh : Ghost} (ht : target s op = some i) (hvi : s.vols[i]? = some vi) (hgh : ghs[i]? = some gh) :
    StaysIn s op gh.vol := by
  have hM : MedInv gh.vol s.dev.disk (volFiles s vi.rawVolume) gh := hI.med i vi gh hvi hgh
  by_cases hmk : notMkdir op = true
  · obtain ⟨hfr, hbl⟩ := addressed_frame hI hm op ht hvi hgh hmk
    refine ⟨hfr, ?_⟩
    by_cases hw : ∃ f d, op = .write f d
    · obtain ⟨f, d, rfl⟩ := hw
      exact step_write_blocksOK (s := s) hI.unlocked hM.blocksOK hI.coherent f d
    · exact hbl fun f d e => hw ⟨f, d, e⟩
  · obtain ⟨d, n, rfl⟩ : ∃ d n, op = .mkdir d n := by
      cases op <;> first | exact absurd rfl hmk | exact ⟨_, _, rfl⟩
    obtain ⟨h1, h2⟩ := Lemmas.FaultInv.step_mkdir_out (volInvF_projH hI hvi hgh) (hm gh (List.mem_of_getElem? hgh)) d n
      (C03All.name_ok_all n)
    have hd := step_dev_F hI _ ht hvi (show LabelFresh s (.mkdir d n) from trivial)
    refine ⟨fun b hb => ?_, ?_⟩
    · rw [hd]; exact h1 b hb
    · rw [hd]; exact h2

section
variable {s : Mgr} {ghs : List Ghost} {op : Op} {i j : Nat} {vi vj : VolInfo} {gh ghj : Ghost}

/-- **Every other open volume after a call addressed to volume record `i`**, whatever device call of it failed. -/
theorem addressed_others (hI : VolInvNF s ghs) (hm : MirrorN s ghs) (ht : target s op = some i) (hvi : s.vols[i]? = some vi)
    (hgh : ghs[i]? = some gh) (hf : LabelFresh s op) (hvj : s.vols[j]? = some vj) (hghj : ghs[j]? = some ghj) (hij : j ≠ i) :
    (Model.step s op).1.vols[j]? = some vj ∧
    (volFiles (Model.step s op).1 vj.rawVolume).Perm (volFiles s vj.rawVolume) ∧
    (volDirs (Model.step s op).1 vj.rawVolume).Perm (volDirs s vj.rawVolume) ∧
    SamePartition vj.vol s.dev.disk (Model.step s op).1.dev.disk ∧
    MedInv ghj.vol (Model.step s op).1.dev.disk (volFiles (Model.step s op).1 vj.rawVolume) ghj := by
  have hst := addressed_staysIn hI hm op ht hvi hgh
  obtain ⟨r1, r2, r3⟩ := other_records hI ht hvi hf hvj hij
  exact ⟨r1, r2, r3, other_partition hI hvi hgh hst.frame hvj hij, other_medInv hI ht hvi hgh hf hst hvj hghj hij⟩

/-- … its directories are sound (this needs no `LabelFresh`). -/
theorem addressed_others_dirs (hI : VolInvNF s ghs) (hm : MirrorN s ghs) (ht : target s op = some i) (hvi : s.vols[i]? = some vi)
    (hgh : ghs[i]? = some gh) (hvj : s.vols[j]? = some vj) (hghj : ghs[j]? = some ghj) (hij : j ≠ i) :
    Lemmas.FaultInv.DirsInv ghj.vol (Model.step s op).1.dev.disk ghj :=
  other_dirsInv hI hvi hgh (addressed_staysIn hI hm op ht hvi hgh).frame hvj hghj hij

end

/-! ### `close_volume`: the volume being closed -/

/-- The directories of a volume are sound on every medium that agrees with a medium of the invariant on the FAT,
root-directory and data regions. -/
theorem dirsInv_congr_regions {v : FatVolume} {d d' : Disk} {files : List FileInfo} {gh : Ghost} {X : List (List Nat)}
    (hM : Lemmas.VolMed.MedX v d files gh X)
    (hs : ∀ b, (regionOf v b = .fat ∨ regionOf v b = .data ∨ regionOf v b = .root) → d'.get b = d.get b) :
    Lemmas.FaultInv.DirsInv v d' gh := by
  refine (Lemmas.FaultInv.dirsInv_of_med hM).congr (fun h hh hf x hx => ?_) (fun h hh s hsl => ?_)
  · have hm := (Lemmas.VolMed.dirChain_spec hM hh hf).1
    have hx' := (Lemmas.VolMed.med_inRange hM hm hx).2
    unfold fatRaw
    rw [hs _ (.inl (FatLens.fat_blocks_in_fat_region v hM.geom x hx').1)]
  · rcases Lemmas.VolMed.dirSlot_not_fat hM hh hsl with e | e
    · exact hs _ (.inr (.inl e))
    · exact hs _ (.inr (.inr e))

/-- **The volume being closed has sound directories** on the medium `close_volume` leaves, whatever failed. -/
theorem closeVolume_own {s : Mgr} {ghs : List Ghost} (hI : VolInvNF s ghs) (v : Nat) {k : Nat} {vk : VolInfo} {gh : Ghost}
    (hvk : s.vols[k]? = some vk) (hgh : ghs[k]? = some gh) :
    Lemmas.FaultInv.DirsInv gh.vol (Model.step s (.closeVolume v)).1.dev.disk gh := by
  have hM : MedInv gh.vol s.dev.disk (volFiles s vk.rawVolume) gh := hI.med k vk gh hvk hgh
  have hvol : vk.vol = gh.vol := hI.vols k vk gh hvk hgh
  refine dirsInv_congr_regions (Lemmas.VolMed.medX_of_med hM) fun b hb => ?_
  apply Classical.byContradiction
  intro hch
  obtain ⟨k', vk', _, hvk', _, _, hreg⟩ := (closeVolume_F hI v).1 b hch
  by_cases hkk : k' = k
  · subst hkk
    rw [hvk] at hvk'; cases hvk'
    rw [hvol] at hreg
    rcases hb with h | h | h <;> rw [h] at hreg <;> cases hreg
  · have hin : InPartition gh.vol b := Lemmas.VolN.inPartition_of_region hb
    rw [← hvol] at hin
    exact hI.parts k' k vk' vk hvk' hvk hkk b (Lemmas.VolN.inPartition_of_info hreg) hin

/-! ### Calls addressed to no volume record -/

/-- **A call addressed to no volume record, other than `close_volume`**: every open volume keeps its record at its index,
its open files, the whole medium and so its medium invariant. -/
theorem untargeted_all {s : Mgr} {ghs : List Ghost} (hI : VolInvNF s ghs) (op : Op) (ht : target s op = none)
    (hncl : ∀ v, op ≠ .closeVolume v) {j : Nat} {vj : VolInfo} {ghj : Ghost} (hvj : s.vols[j]? = some vj)
    (hghj : ghs[j]? = some ghj) :
    (Model.step s op).1.vols[j]? = some vj ∧ (Model.step s op).1.dev.disk = s.dev.disk ∧ (Model.step s op).2.writes = [] ∧
    volFiles (Model.step s op).1 vj.rawVolume = volFiles s vj.rawVolume ∧
    MedInv ghj.vol (Model.step s op).1.dev.disk (volFiles (Model.step s op).1 vj.rawVolume) ghj ∧
    ((∀ v, op ≠ .openRoot v) → (∀ d, op ≠ .closeDir d) → volDirs (Model.step s op).1 vj.rawVolume = volDirs s vj.rawVolume) := by
  obtain ⟨h1, h2, h3, h4, h5⟩ := untargeted_keeps hI op ht hncl
  have hf : volFiles (Model.step s op).1 vj.rawVolume = volFiles s vj.rawVolume := by unfold volFiles; rw [h3]
  refine ⟨h4 j vj hvj, h1, h2, hf, ?_, fun a b => by unfold volDirs; rw [h5 a b]⟩
  rw [hf, h1]
  exact hI.med j vj ghj hvj hghj

end Sdmmc.Lemmas.VolNFault
