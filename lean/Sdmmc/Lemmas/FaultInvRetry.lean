/-
C11 under the invariant, part 16 (API): THE RETRY.  From a state with the invariant, a read-only call runs under ANY
fault schedule and a device call of it fails; the same call issued again from the state the failed call left, with
the fault gone, answers exactly what the call would have answered on the original state without any fault
(`retry_step`).  The hypotheses `DirOn` / `FileOK` / `MgrOKF` of `Lemmas.Retry.*` are discharged from `VolInv`.
Calls that never touch the device cannot fail that way (`nodev_quiet`).
-/
import Sdmmc.Lemmas.FaultInvStep
import Sdmmc.Lemmas.RetryDir
import Sdmmc.Lemmas.VolWalk

namespace Sdmmc.Lemmas.FaultInv
open Sdmmc.Model Sdmmc.Model.Fat Sdmmc.Spec.Volume Sdmmc.Lemmas.VolBase Sdmmc.Lemmas.VolTree
open Sdmmc.Spec hiding NoFault Coherent
open Sdmmc.Lemmas.VolDisk Sdmmc.Lemmas.VolMed Sdmmc.Lemmas.VolApi Sdmmc.Lemmas.VolEng
open Sdmmc.Lemmas.FBasic (NoFault Coherent)
open Sdmmc.Lemmas.CrashBase Sdmmc.Lemmas.Retry Sdmmc.Lemmas.FaultPre Sdmmc.Lemmas.MHoare
open Sdmmc.Lemmas.Fault hiding resetLogs

/-! ### Discharging the hypotheses -/

/-- Every directory a handle may designate under the invariant is on the medium in the sense of the retry theorems. -/
theorem dirOn_of_inv {files : List FileInfo} {gh : Ghost} {X : List (List Nat)} {v : FatVolume} {d : Disk}
    (hM : MedX v d files gh X) {dc : Nat} (hv : ValidDir gh.dirs dc) : ∃ dcs, Reopen.DirOn v d dc dcs := by
  obtain ⟨dcs, h1, _, _⟩ := walk_of_dir hM hv
  refine ⟨dcs, fun hk => ?_⟩
  have hch := h1 hk
  have hhd := ChainL.chain_head? hch
  cases hcs : dcs with
  | nil => rw [hcs] at hhd; cases hhd
  | cons a rest =>
    rw [hcs] at hhd hch
    cases hhd
    refine ⟨rest, rfl, VolWalk.dirChain_of_chain hM.geom hch, ?_⟩
    have := ForestBase.chain_length_le hch
    simp only [List.length_cons] at this
    omega

theorem map_fst_congr {α β : Type} (m : M α) (g : α → β) {s t : Mgr} (h : (m s).1 = (m t).1) :
    ((m >>= fun x => (pure (g x) : M β)) s).1 = ((m >>= fun x => (pure (g x) : M β)) t).1 := by
  rw [bind_def, bind_def]
  rcases hs : m s with ⟨r, s'⟩
  rcases ht : m t with ⟨r', t'⟩
  rw [hs, ht] at h
  simp only at h
  subst h
  cases r <;> rfl

theorem dirReady_resetLogs {d di vi : Nat} {dir : DirInfo} {v : VolInfo} {dcs : List Nat} {t : Mgr}
    (h : DirReady d di vi dir v dcs t) : DirReady d di vi dir v dcs (resetLogs t) :=
  ⟨h.1, ⟨h.2.1.found, h.2.1.slot, h.2.1.volFound, h.2.1.volSlot⟩, h.2.2⟩

/-- A directory handle resolves under the invariant, or the call stops before any device call. -/
theorem dirReady_of_inv {s0 : Mgr} {gh : Ghost} (hI : VolInv s0 gh) {d di : Nat} {dir : DirInfo} {vidx : Nat}
    (hidx : s0.dirs.findIdx? (·.rawDirectory = d) = some di) (hdi : s0.dirs[di]? = some dir)
    (hv : s0.vols.findIdx? (·.rawVolume = dir.rawVolume) = some vidx) :
    ∃ vi dcs, vi.vol = gh.vol ∧ DirReady d di vidx dir vi dcs s0 := by
  obtain ⟨hz, vi, hvs, hvol, _⟩ := vol_of_handle hI hv
  have hdim : dir ∈ s0.dirs := List.mem_of_getElem? hdi
  obtain ⟨dcs, hon⟩ := dirOn_of_inv (medX_of_med hI.med) (hI.openDirs dir hdim)
  refine ⟨vi, dcs, hvol, hI.coherent, ⟨hidx, hdi, hv, by rw [hz, hvs]; rfl⟩, by rw [hvol]; exact hon⟩

/-! ### The directory calls -/

/-- The common shape of the three directory calls. -/
theorem retry_dir {α} (m : M α) (hro : M.Inv MRO m) {d di vi : Nat} {dir : DirInfo} {v : VolInfo} {dcs : List Nat}
    (ans : Disk → Res α) (hclean : ∀ t, t.dev.faults = [] → DirReady d di vi dir v dcs t → (m t).1 = ans t.dev.disk)
    (t0 : Mgr) (hn : t0.dev.faults = []) (hr : DirReady d di vi dir v dcs t0) (L : List Nat) :
    (m (resetLogs (withFaults [] (m (withFaults L t0)).2))).1 = (m t0).1 ∧
    (m (withFaults L t0)).2.locked = t0.locked := by
  have hm : MRO (withFaults L t0) (m (withFaults L t0)).2 := hro _
  have hr0 : DirReady d di vi dir v dcs (withFaults L t0) := DirReady.of_mro t0 t0 L hr (MRO.refl t0)
  have hr1 : DirReady d di vi dir v dcs (withFaults [] (m (withFaults L t0)).2) := DirReady.of_mro _ _ [] hr0 hm
  refine ⟨?_, by rw [hm.eq]; rfl⟩
  rw [hclean _ rfl (dirReady_resetLogs hr1), hclean t0 hn hr]
  show ans (m (withFaults L t0)).2.dev.disk = _
  rw [hm.disk]; rfl

theorem retry_find {s0 : Mgr} {gh : Ghost} (hI : VolInv s0 gh) (L : List Nat) (d : Nat) (name : List Nat)
    (hfail : (Model.findDirectoryEntry d name (withFaults L s0)).2.dev.failed ≠ s0.dev.failed) :
    (Model.findDirectoryEntry d name (resetLogs (withFaults [] (Model.findDirectoryEntry d name (withFaults L s0)).2))).1 =
      (Model.findDirectoryEntry d name s0).1 ∧
    (Model.findDirectoryEntry d name (withFaults L s0)).2.locked = false := by
  rw [← hI.unlocked]
  cases hidx : s0.dirs.findIdx? (·.rawDirectory = d) with
  | none =>
    exfalso; apply hfail
    unfold Model.findDirectoryEntry
    rw [bind_err (getDirById_bad (s := withFaults L s0) hidx)]; rfl
  | some di =>
    obtain ⟨dir, hdi, _⟩ := findIdx?_some_get hidx
    cases hv : s0.vols.findIdx? (·.rawVolume = dir.rawVolume) with
    | none =>
      exfalso; apply hfail
      unfold Model.findDirectoryEntry
      rw [bind_ok (getDirById_ok (s := withFaults L s0) hidx), bind_ok (getDir_ok (s := withFaults L s0) hdi),
        bind_err (getVolumeById_bad (s := withFaults L s0) hv)]; rfl
    | some vidx =>
      cases hs : Sfn.createFromStr name with
      | error e =>
        exfalso; apply hfail
        unfold Model.findDirectoryEntry
        rw [bind_ok (getDirById_ok (s := withFaults L s0) hidx), bind_ok (getDir_ok (s := withFaults L s0) hdi),
          bind_ok (getVolumeById_ok (s := withFaults L s0) hv), bind_err (Modes.toSfn_err hs _)]; rfl
      | ok sfn =>
        obtain ⟨vi, dcs, _, hr⟩ := dirReady_of_inv hI hidx hdi hv
        exact retry_dir _ (findDirectoryEntry_mro d name)
          (fun dk => (Reopen.dirLookup vi.vol dk dir.cluster dcs sfn).elim (.err .NotFound) .ok)
          (fun t hn ht => find_clean t d di vidx dir vi name sfn dcs hn ht.1 ht.2.1 hs ht.2.2) s0 hI.noFault hr L

theorem retry_list {s0 : Mgr} {gh : Ghost} (hI : VolInv s0 gh) (L : List Nat) (d : Nat)
    (hfail : (iterateDir d (withFaults L s0)).2.dev.failed ≠ s0.dev.failed) :
    (iterateDir d (resetLogs (withFaults [] (iterateDir d (withFaults L s0)).2))).1 = (iterateDir d s0).1 ∧
    (iterateDir d (withFaults L s0)).2.locked = false := by
  rw [← hI.unlocked]
  cases hidx : s0.dirs.findIdx? (·.rawDirectory = d) with
  | none =>
    exfalso; apply hfail
    unfold iterateDir
    rw [bind_err (getDirById_bad (s := withFaults L s0) hidx)]; rfl
  | some di =>
    obtain ⟨dir, hdi, _⟩ := findIdx?_some_get hidx
    cases hv : s0.vols.findIdx? (·.rawVolume = dir.rawVolume) with
    | none =>
      exfalso; apply hfail
      unfold iterateDir
      rw [bind_ok (getDirById_ok (s := withFaults L s0) hidx), bind_ok (getDir_ok (s := withFaults L s0) hdi),
        bind_err (getVolumeById_bad (s := withFaults L s0) hv)]; rfl
    | some vidx =>
      obtain ⟨vi, dcs, _, hr⟩ := dirReady_of_inv hI hidx hdi hv
      exact retry_dir _ (iterateDir_mro d)
        (fun dk => .ok (Listing.listing vi.vol.fatType (Reopen.dirSlotsOf vi.vol dk dir.cluster dcs)))
        (fun t hn ht => iterateDir_clean t d di vidx dir vi dcs hn ht.1 ht.2.1 ht.2.2) s0 hI.noFault hr L

theorem retry_listLfn {s0 : Mgr} {gh : Ghost} (hI : VolInv s0 gh) (L : List Nat) (d n : Nat)
    (hfail : (iterateDirLfn d n (withFaults L s0)).2.dev.failed ≠ s0.dev.failed) :
    (iterateDirLfn d n (resetLogs (withFaults [] (iterateDirLfn d n (withFaults L s0)).2))).1 = (iterateDirLfn d n s0).1 ∧
    (iterateDirLfn d n (withFaults L s0)).2.locked = false := by
  rw [← hI.unlocked]
  cases hidx : s0.dirs.findIdx? (·.rawDirectory = d) with
  | none =>
    exfalso; apply hfail
    unfold iterateDirLfn
    rw [bind_err (getDirById_bad (s := withFaults L s0) hidx)]; rfl
  | some di =>
    obtain ⟨dir, hdi, _⟩ := findIdx?_some_get hidx
    cases hv : s0.vols.findIdx? (·.rawVolume = dir.rawVolume) with
    | none =>
      exfalso; apply hfail
      unfold iterateDirLfn
      rw [bind_ok (getDirById_ok (s := withFaults L s0) hidx), bind_ok (getDir_ok (s := withFaults L s0) hdi),
        bind_err (getVolumeById_bad (s := withFaults L s0) hv)]; rfl
    | some vidx =>
      obtain ⟨vi, dcs, _, hr⟩ := dirReady_of_inv hI hidx hdi hv
      exact retry_dir _ (iterateDirLfn_mro d n)
        (fun dk => lfnListing vi.vol.fatType n (Reopen.dirSlotsOf vi.vol dk dir.cluster dcs))
        (fun t hn ht => iterateDirLfn_clean t d di vidx n dir vi dcs hn ht.1 ht.2.1 ht.2.2) s0 hI.noFault hr L

/-! ### `read` -/

theorem read_quiet (h n : Nat) (t : Mgr) (hn : t.dev.faults = []) : (Model.read h n t).2.dev.failed = t.dev.failed := by
  have := readonly_quiet (.read h n) rfl t hn
  rwa [show runOp (.read h n) = (Model.read h n >>= fun b => (pure (Payload.bytes b) : M Payload)) from rfl, map_state] at this

theorem retry_read {s0 : Mgr} {gh : Ghost} (hI : VolInv s0 gh) (L : List Nat) (h n : Nat)
    (hfail : (Model.read h n (withFaults L s0)).2.dev.failed ≠ s0.dev.failed) :
    (Model.read h n (resetLogs (withFaults [] (Model.read h n (withFaults L s0)).2))).1 = (Model.read h n s0).1 ∧
    (Model.read h n (withFaults L s0)).2.locked = false := by
  cases hidx : s0.files.findIdx? (·.rawFile = h) with
  | none =>
    exfalso; apply hfail
    unfold Model.read
    rw [bind_err (getFileById_bad (s := withFaults L s0) hidx)]; rfl
  | some i =>
    obtain ⟨f, hf, _⟩ := findIdx?_some_get hidx
    have hfm : f ∈ s0.files := List.mem_of_getElem? hf
    obtain ⟨vi, hv, hvol, hrv, _⟩ := vol_of_file hI hfm
    have hvfind : s0.vols.findIdx? (·.rawVolume = f.rawVolume) = some 0 := by rw [hv]; simp [hrv]
    have hvi : s0.vols[0]? = some vi := by rw [hv]; rfl
    obtain ⟨hok, _⟩ := hI.med.fileOK f hfm
    have hg : WFGeom vi.vol := by rw [hvol]; exact hI.med.geom
    have hs : MgrOKF (withFaults L s0) := ⟨hI.coherent, hI.med.blocksOK, hI.unlocked⟩
    have hs0 : MgrOKF s0 := ⟨hI.coherent, hI.med.blocksOK, hI.unlocked⟩
    rw [← hvol] at hok
    obtain ⟨f1, hstep, hsame, _, hsF, hok1, _, hB⟩ :=
      Retry.read_under_faults (withFaults L s0) h n i 0 f vi _ hs hidx hf hvfind hvi hg hok
    obtain ⟨_, hoff⟩ := hB hfail
    obtain ⟨_, _, _, _, _, _, hA0, _⟩ := Retry.read_under_faults s0 h n i 0 f vi _ hs0 hidx hf hvfind hvi hg hok
    generalize hs1 : (Model.read h n (withFaults L s0)).2 = s1 at *
    have hilt : i < s0.files.length := (List.getElem?_eq_some_iff.1 hf).1
    have hfiles : s1.files = s0.files.set i f1 := hstep.files
    have hh1 : (resetLogs (withFaults [] s1)).files.findIdx? (·.rawFile = h) = some i := by
      show s1.files.findIdx? _ = _
      rw [hfiles, ReadRefines.findIdx?_set_same _ s0.files i f f1 hf (by simp only [hsame.rawFile])]; exact hidx
    have hf1 : (resetLogs (withFaults [] s1)).files[i]? = some f1 := by
      show s1.files[i]? = _; rw [hfiles]; exact List.getElem?_set_self hilt
    have hv1 : (resetLogs (withFaults [] s1)).vols.findIdx? (·.rawVolume = f1.rawVolume) = some 0 := by
      show s1.vols.findIdx? _ = _; rw [hstep.vols, hsame.rawVolume]; exact hvfind
    have hvi1 : (resetLogs (withFaults [] s1)).vols[0]? = some vi := by show s1.vols[0]? = _; rw [hstep.vols]; exact hvi
    obtain ⟨_, _, _, _, _, _, hA2, _⟩ :=
      Retry.read_under_faults (resetLogs (withFaults [] s1)) h n i 0 f1 vi _ hsF hh1 hf1 hv1 hvi1 hg hok1
    refine ⟨?_, by rw [hstep.eq]; exact hI.unlocked⟩
    rw [(hA2 (read_quiet h n _ rfl)).1, (hA0 (read_quiet h n s0 hI.noFault)).1]
    have hd : (resetLogs (withFaults [] s1)).dev.disk = s0.dev.disk := hstep.disk
    rw [hd, ReadRefines.absFile_read_fst, ReadRefines.absFile_read_fst, hsame.entry, hoff]

/-! ### Calls that never touch the device -/

/-- Device and cache are the same. -/
def MSameDev (s s' : Mgr) : Prop := s'.dev = s.dev ∧ s'.cache = s.cache
def FSameDev (s s' : FS) : Prop := s'.dev = s.dev ∧ s'.cache = s.cache

instance : RelOK MSameDev := ⟨fun _ => ⟨rfl, rfl⟩, fun h1 h2 => ⟨h2.1.trans h1.1, h2.2.trans h1.2⟩⟩
instance : MDev MSameDev FSameDev where
  of_dev_eq := fun _ _ h1 h2 => ⟨h1, h2⟩
  of_fs := fun _ _ _ _ h1 h2 h => ⟨h.1.trans h1, h.2.trans h2⟩

/-- The calls that never touch the device. -/
def noDevOp : Op → Bool
  | .openRoot _ | .closeDir _ | .seekStart _ _ | .seekCur _ _ | .seekEnd _ _ | .length _ | .offset _ | .eof _ | .hasOpen => true
  | _ => false

theorem runOp_nodev (op : Op) (h : noDevOp op = true) (s : Mgr) : (runOp op s).2.dev = s.dev := by
  have := @openRootDir_inv MSameDev FSameDev _
  have := @closeDir_inv MSameDev FSameDev _
  have := @fileSeekFromStart_inv MSameDev FSameDev _
  have := @fileSeekFromCurrent_inv MSameDev FSameDev _
  have := @fileSeekFromEnd_inv MSameDev FSameDev _
  have := @fileLength_inv MSameDev FSameDev _
  have := @fileOffset_inv MSameDev FSameDev _
  have := @fileEof_inv MSameDev FSameDev _
  have key : M.Inv MSameDev (runOp op) := by
    cases op <;> first | (cases h; done) | (unfold runOp; mfault_auto)
    exact M.Inv.of_eq fun _ => rfl
  exact (key s).1

end Sdmmc.Lemmas.FaultInv
