/-
C09 over histories, part 5: the flushed file of the FAT16 root directory at a call boundary of a licensed history —
still the first hit for its name, and read back by a fresh manager (`flushed_boundary_read`).
-/
import Sdmmc.Lemmas.SurviveClose

namespace Sdmmc.Lemmas.Survive
open Sdmmc.Model Sdmmc.Model.Fat Sdmmc.Spec.Volume
open Sdmmc.Spec hiding NoFault Coherent
open Sdmmc.Lemmas.WriteSetInv
open Sdmmc.Lemmas.ReadRefines (MgrOK)

theorem FlushedOn.sameGeom {v w : FatVolume} (h : SameGeom v w) {d : Disk} {e : DirEntry} {cs : List Nat}
    (hF : FlushedOn v d e cs) : FlushedOn w d e cs := by
  refine ⟨by rw [h.fatType]; exact hF.slot, ?_⟩
  rcases hF.chain with h1 | h1
  · exact .inl h1
  · exact .inr (ForestBase.chain_sameGeom h h1)

theorem dirSlotsOf_sameGeom {v w : FatVolume} (h : SameGeom v w) (d : Disk) (dc : Nat) (dcs : List Nat) :
    Reopen.dirSlotsOf w d dc dcs = Reopen.dirSlotsOf v d dc dcs := by
  obtain ⟨a, c, rfl⟩ := h
  rfl

/-- A block of the FAT16 root region, by position. -/
theorem root_region_of_pos (v : FatVolume) (hg : WFGeom v) (h16 : v.fatType = .fat16) (b : Nat)
    (hb1 : v.lbaStart + v.firstRootDirBlock ≤ b)
    (hb2 : b < v.lbaStart + v.firstRootDirBlock + blockCountFromBytes (v.rootEntriesCount * 32)) : regionOf v b = .root := by
  have := FatLens.root_blocks_in_root_region v hg h16 (b - (v.lbaStart + v.firstRootDirBlock))
    (by show _ < blockCountFromBytes (v.rootEntriesCount * 32); omega)
  rw [show v.lbaStart + v.firstRootDirBlock + (b - (v.lbaStart + v.firstRootDirBlock)) = b by omega] at this
  exact this

/-- **(b), (c) at the state after the first `j` calls of a licensed history**, for a file of the FAT16 root
directory flushed on the medium of the start state and not named by any licence: the slot is still the first hit for
the file's name in the root directory, the medium still mounts with the same geometry, and a fresh manager reads the
flushed contents. -/
theorem flushed_boundary_read {v0 : FatVolume} (hg : WFGeom v0) (h16 : v0.fatType = .fat16) {s1 : Mgr} {ops : List Op}
    {Ls : List Licence} (hR : RunLicensed v0 s1 ops Ls) (hb : BlocksOK s1.dev.disk) (e : DirEntry) (cs : List Nat)
    (hF : FlushedOn v0 s1.dev.disk e cs) (hst : Reopen.Storable .fat16 e) (hn0 : byteAt e.name 0 ≠ 0)
    (hn5 : byteAt e.name 0 ≠ 0xE5) (hlfn : e.attributes % 16 ≠ 15) (hplain : Attr.isDirectory e.attributes = false)
    (hb1 : v0.lbaStart + v0.firstRootDirBlock ≤ e.entryBlock)
    (hb2 : e.entryBlock < v0.lbaStart + v0.firstRootDirBlock + blockCountFromBytes (v0.rootEntriesCount * 32))
    (hal : e.entryOffset % 32 = 0) (ho : e.entryOffset + 32 ≤ 512) (hin : ∀ c, c ∈ cs → InRange v0 c)
    (hfit : e.size ≤ cs.length * clusterBytesLen v0) (hnn : ∀ L, L ∈ Ls → NotNamed v0 L e.entryBlock e.entryOffset cs)
    (idx : Nat) (vm : FatVolume) (hm : mountPure (s1.dev.disk.get 0) idx s1.dev.disk.get = .ok vm) (hsg : SameGeom vm v0)
    (j : Nat) (gh : Ghost) (hIj : VolInv (run s1 (ops.take j)).1 gh) (hgj : SameGeom v0 gh.vol) :
    Reopen.FirstHit (Reopen.dirSlotsOf v0 (run s1 (ops.take j)).1.dev.disk 0xFFFFFFFC []) e.name
      (e.entryBlock, e.entryOffset, slice ((run s1 (ops.take j)).1.dev.disk.get e.entryBlock) e.entryOffset 32) ∧
    ∀ (t0 : Mgr) (name : List Nat), MgrOK t0 → t0.dev.disk = (run s1 (ops.take j)).1.dev.disk → t0.vols = [] → t0.dirs = [] →
      t0.files = [] → 0 < t0.maxVols → 0 < t0.maxDirs → 0 < t0.maxFiles → t0.nextId + 2 < 4294967296 →
      Sfn.createFromStr name = .ok e.name →
      ∃ t1 t2 t3, openRawVolume idx t0 = (.ok t0.nextId, t1) ∧
        openRootDir t0.nextId t1 = (.ok (t0.nextId + 1), t2) ∧
        openFileInDir (t0.nextId + 1) name .ReadOnly t2 = (.ok (t0.nextId + 2), t3) ∧
        t3.dev.disk = (run s1 (ops.take j)).1.dev.disk ∧ t3.dev.wlog = t0.dev.wlog ∧
        fileLength (t0.nextId + 2) t3 = (.ok e.size, t3) ∧
        ∀ n, ∃ t4, read (t0.nextId + 2) n t3 = (.ok ((fileContent v0 s1.dev.disk cs e.size).take n), t4) ∧
          t4.dev.disk = (run s1 (ops.take j)).1.dev.disk ∧ t4.dev.wlog = t0.dev.wlog := by
  generalize htdef : (run s1 (ops.take j)).1 = t at hIj
  have hbt : BlocksOK t.dev.disk := hIj.med.blocksOK
  have hsreg : regionOf v0 e.entryBlock = .root ∨ regionOf v0 e.entryBlock = .data :=
    .inl (root_region_of_pos v0 hg h16 _ hb1 hb2)
  obtain ⟨hFt, hfc⟩ := flushed_at_boundary hg hR hb e cs hF hin hsreg hal hnn j (by rw [htdef]; exact hbt)
  rw [htdef] at hFt hfc
  -- the medium still mounts
  have hRj := runLicensed_take hR j
  obtain ⟨w, hmw, hsw⟩ := mount_of_frame hg (fun L hL => runLicensed_wf hR L (List.mem_of_mem_take hL)) hb hbt
    (fun b i hn => by have := runLicensed_frame hRj hn; rw [htdef] at this; exact this) idx vm hm hsg
  -- the invariant's volume record has the geometry of `v0`
  obtain ⟨a, c, hgv⟩ := hgj
  have hlba : gh.vol.lbaStart = v0.lbaStart := by rw [hgv]
  have hfr : gh.vol.firstRootDirBlock = v0.firstRootDirBlock := by rw [hgv]
  have hre : gh.vol.rootEntriesCount = v0.rootEntriesCount := by rw [hgv]
  have hcb : clusterBytesLen gh.vol = clusterBytesLen v0 := by rw [hgv]; rfl
  have hgj' : SameGeom v0 gh.vol := ⟨a, c, hgv⟩
  obtain ⟨h1, h2⟩ := flushed_read_at_boundary hIj (by rw [hgv]; exact h16) e cs (hFt.sameGeom hgj') hst hn0 hn5 hlfn hplain
    (by rw [hlba, hfr]; exact hb1) (by rw [hlba, hfr, hre]; exact hb2) hal ho (by rw [hcb]; exact hfit) idx w hmw
    (hgj'.symm.trans hsw)
  rw [dirSlotsOf_sameGeom hgj'] at h1
  refine ⟨h1, fun t0 name a1 a2 a3 a4 a5 a6 a7 a8 a9 a10 => ?_⟩
  obtain ⟨t1, t2, t3, g1, g2, g3, g4, g5, g6, g7⟩ := h2 t0 name a1 a2 a3 a4 a5 a6 a7 a8 a9 a10
  refine ⟨t1, t2, t3, g1, g2, g3, g4, g5, g6, fun n => ?_⟩
  obtain ⟨t4, hr, hd4, hw4⟩ := g7 n
  refine ⟨t4, ?_, hd4, hw4⟩
  rw [← hfc e.size, ← WriteRefines.sameGeom_fileContent hgj']
  exact hr

end Sdmmc.Lemmas.Survive
