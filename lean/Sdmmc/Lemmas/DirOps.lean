/-
F-level lemmas about the directory functions of `Sdmmc.Model.Fat` used by `Props/C10.lean`:
the single write of a successful `deleteBlocks`, and the write order of `makeDir`.
Also: `Grows m` — the write log only ever grows — for every primitive and for the FAT engine.
-/
import Sdmmc.Lemmas.FatOps

namespace Sdmmc.Lemmas.DirOps
open Sdmmc.Model Sdmmc.Model.Fat Sdmmc.Spec Sdmmc.Lemmas.FBasic Sdmmc.Lemmas.FatOps

/-! ### `deleteBlocks` -/

theorem deleteInSlots_mem (name : Bytes) (l : List (Nat × Bytes)) (off : Nat) (h : deleteInSlots name l = some off) :
    ∃ d, (off, d) ∈ l ∧ OnDisk.matches d name = true := by
  induction l with
  | nil => cases h
  | cons x rest ih =>
    rcases x with ⟨o, d⟩
    rw [deleteInSlots] at h
    by_cases h1 : OnDisk.isEnd d = true
    · rw [if_pos h1] at h; cases h
    · rw [if_neg h1] at h
      by_cases h2 : OnDisk.matches d name = true
      · rw [if_pos h2] at h
        cases h
        exact ⟨d, List.mem_cons_self, h2⟩
      · rw [if_neg h2] at h
        obtain ⟨d', hm, hd⟩ := ih h
        exact ⟨d', List.mem_cons_of_mem _ hm, hd⟩

theorem mem_slotsOf (blk : Block) (off : Nat) (d : Bytes) (h : (off, d) ∈ slotsOf blk) :
    off < 512 ∧ off % 32 = 0 ∧ d = slice blk off 32 := by
  unfold slotsOf at h
  obtain ⟨i, hi, he⟩ := List.mem_map.mp h
  have hi' : i < 16 := by
    have := List.mem_range.mp hi
    exact this
  have h1 : i * Gen.DIRENT_LEN = off := congrArg Prod.fst he
  have h2 : slice blk (i * Gen.DIRENT_LEN) Gen.DIRENT_LEN = d := congrArg Prod.snd he
  have hD : Gen.DIRENT_LEN = 32 := rfl
  rw [hD] at h1 h2
  subst h1
  exact ⟨by omega, by omega, h2.symm⟩

/-- The state handed to the write-back after the deleted-mark was set. -/
def afterMark (blockIdx off : Nat) (s : FS) : FS :=
  { afterRead blockIdx s with
    cache := { tag := some blockIdx, blk := (s.dev.disk.get blockIdx).set off (UInt8.ofNat 0xE5) } }

theorem deleteBlocks_succ (name : Bytes) (n blockIdx : Nat) (s : FS) (hn : NoFault s) (hc : Coherent s) :
    deleteBlocks name (n + 1) blockIdx s =
      match deleteInSlots name (slotsOf (s.dev.disk.get blockIdx)) with
      | some off => ((writeBack >>= fun _ => (pure true : F Bool)) (afterMark blockIdx off s))
      | none => deleteBlocks name n (blockIdx + 1) (afterRead blockIdx s) := by
  rw [deleteBlocks]
  simp only [bind_apply, cacheRead_eq' _ _ hn hc, cacheBlk_apply, afterRead_blk]
  cases deleteInSlots name (slotsOf (s.dev.disk.get blockIdx)) with
  | none => rfl
  | some off => rfl

theorem deleteBlocks_single_write (s s' : FS) (name : Bytes) (n blockIdx : Nat) (hn : NoFault s) (hc : Coherent s)
    (h : deleteBlocks name n blockIdx s = (.ok true, s')) :
    ∃ b off, blockIdx ≤ b ∧ b < blockIdx + n ∧ off < 512 ∧ off % 32 = 0 ∧
      s'.dev.wlog = (b, (s.dev.disk.get b).set off (UInt8.ofNat 0xE5)) :: s.dev.wlog ∧
      OnDisk.matches (slice (s.dev.disk.get b) off 32) name = true := by
  induction n generalizing blockIdx s with
  | zero =>
    have : deleteBlocks name 0 blockIdx s = (.ok false, s) := rfl
    rw [this] at h
    cases h
  | succ n ih =>
    rw [deleteBlocks_succ name n blockIdx s hn hc] at h
    cases hd : deleteInSlots name (slotsOf (s.dev.disk.get blockIdx)) with
    | none =>
      rw [hd] at h
      obtain ⟨b, off, h1, h2, h3, h4, h5, h6⟩ :=
        ih (blockIdx := blockIdx + 1) (s := afterRead blockIdx s) (afterRead_noFault _ s hn) (afterRead_coherent _ s) h
      exact ⟨b, off, by omega, by omega, h3, h4, h5, h6⟩
    | some off =>
      rw [hd] at h
      obtain ⟨d, hm, hmatch⟩ := deleteInSlots_mem name _ off hd
      obtain ⟨g1, g2, g3⟩ := mem_slotsOf _ off d hm
      simp only at h
      rw [bind_apply, writeBack_eq (afterMark blockIdx off s) blockIdx hn rfl] at h
      have hs' : (afterMark blockIdx off s).dev.wlog.cons (blockIdx, (afterMark blockIdx off s).cache.blk) = s'.dev.wlog :=
        congrArg (fun p => p.2.dev.wlog) h
      refine ⟨blockIdx, off, Nat.le_refl _, by omega, g1, g2, hs'.symm, ?_⟩
      rw [← g3]; exact hmatch

/-! ### The write log only grows -/

/-- Whatever the state (faults allowed), `m` only appends to the write log. -/
def Grows {α : Type} (m : F α) : Prop := ∀ s, ∃ new, (m s).2.dev.wlog = new ++ s.dev.wlog

section Grows
variable {α β : Type}

theorem grows_of_wlog_eq {m : F α} (h : ∀ s, (m s).2.dev.wlog = s.dev.wlog) : Grows m :=
  fun s => ⟨[], h s⟩
theorem grows_of_readOnly {m : F α} (h : ReadOnly m) : Grows m := grows_of_wlog_eq fun s => (h s).wlog
theorem grows_pure (a : α) : Grows (pure a : F α) := grows_of_wlog_eq fun _ => rfl
theorem grows_lift (r : Res α) : Grows (F.lift r) := grows_of_wlog_eq fun _ => rfl
theorem grows_fail (e : Err) : Grows (F.fail e : F α) := grows_of_wlog_eq fun _ => rfl
theorem grows_getVol : Grows F.getVol := grows_of_wlog_eq fun _ => rfl
theorem grows_modifyVol (f : FatVolume → FatVolume) : Grows (F.modifyVol f) := grows_of_wlog_eq fun _ => rfl
theorem grows_cacheRead (idx : Nat) : Grows (cacheRead idx) := grows_of_wlog_eq fun s => cacheRead_wlog idx s
theorem grows_cacheBlk : Grows cacheBlk := grows_of_wlog_eq fun _ => rfl
theorem grows_cacheModify (f : Block → Block) : Grows (cacheModify f) := grows_of_wlog_eq fun _ => rfl
theorem grows_blankMut (idx : Nat) : Grows (blankMut idx) := grows_of_wlog_eq fun _ => rfl

theorem grows_bind {m : F α} {f : α → F β} (hm : Grows m) (hf : ∀ a, Grows (f a)) : Grows (m >>= f) := by
  intro s
  rw [bind_apply']
  obtain ⟨n1, h1⟩ := hm s
  cases (m s).1 with
  | ok a =>
    obtain ⟨n2, h2⟩ := hf a (m s).2
    exact ⟨n2 ++ n1, by rw [h2, h1, List.append_assoc]⟩
  | err e => exact ⟨n1, h1⟩
  | panic msg => exact ⟨n1, h1⟩
  | diverged => exact ⟨n1, h1⟩

theorem grows_attempt {m : F α} (hm : Grows m) : Grows (F.attempt m) := fun s => hm s

theorem grows_ite (c : Prop) [Decidable c] {m1 m2 : F α} (h1 : Grows m1) (h2 : Grows m2) :
    Grows (if c then m1 else m2) := by
  split
  · exact h1
  · exact h2

end Grows

theorem grows_devWrite (idx : Nat) : Grows (devWrite idx) := by
  intro s
  by_cases h : (devWrite idx s).1 = .ok ()
  · exact ⟨[(idx, s.cache.blk)], (devWrite_ok idx s h).2⟩
  · exact ⟨[], (devWrite_err idx s h).2⟩

theorem grows_writeBack : Grows writeBack := by
  intro s
  cases ht : s.cache.tag with
  | none => rw [writeBack_none s ht]; exact ⟨[], rfl⟩
  | some idx =>
    obtain ⟨n1, h1⟩ := grows_devWrite idx s
    rcases writeBack_cases s idx ht with ⟨s1, hd, hw⟩ | ⟨s1, hd, hw⟩ <;> rw [hw] <;> rw [hd] at h1 <;> exact ⟨n1, h1⟩

theorem grows_writeBackWithDuplicate (dup : Nat) : Grows (writeBackWithDuplicate dup) := by
  intro s
  cases ht : s.cache.tag with
  | none => rw [writeBackWithDuplicate_none dup s ht]; exact ⟨[], rfl⟩
  | some idx =>
    obtain ⟨n1, h1⟩ := grows_devWrite idx s
    rcases writeBackDup_cases dup s idx ht with ⟨s1, s2, hd1, hd2, hw⟩ | ⟨s1, s2, hd1, hd2, hw⟩ | ⟨s1, hd1, hw⟩
    · obtain ⟨n2, h2⟩ := grows_devWrite dup s1
      rw [hw]; rw [hd1] at h1; rw [hd2] at h2
      exact ⟨n2 ++ n1, by show s2.dev.wlog = _; rw [h2, h1, List.append_assoc]⟩
    · obtain ⟨n2, h2⟩ := grows_devWrite dup s1
      rw [hw]; rw [hd1] at h1; rw [hd2] at h2
      exact ⟨n2 ++ n1, by show s2.dev.wlog = _; rw [h2, h1, List.append_assoc]⟩
    · rw [hw]; rw [hd1] at h1; exact ⟨n1, h1⟩

/-- A successful write-back appended exactly one entry. -/
theorem writeBack_ok_wlog (s : FS) (h : (writeBack s).1 = .ok ()) :
    ∃ x, (writeBack s).2.dev.wlog = x :: s.dev.wlog := by
  cases ht : s.cache.tag with
  | none => rw [writeBack_none s ht] at h; cases h
  | some idx =>
    rcases writeBack_cases s idx ht with ⟨s1, hd, hw⟩ | ⟨s1, hd, hw⟩
    · rw [hw]
      have := (devWrite_ok idx s (by rw [hd])).2
      rw [hd] at this
      exact ⟨_, this⟩
    · rw [hw] at h; cases h

theorem grows_updateFat (c val : Nat) : Grows (updateFat c val) := by
  unfold updateFat
  refine grows_bind grows_getVol fun v => ?_
  refine grows_bind (grows_cacheRead _) fun _ => ?_
  refine grows_bind (grows_cacheModify _) fun _ => ?_
  cases fatBlock2 v c with
  | none => exact grows_writeBack
  | some b2 => exact grows_writeBackWithDuplicate b2

theorem grows_zeroBlocks (n first : Nat) : Grows (zeroBlocks n first) := by
  induction n generalizing first with
  | zero => exact grows_pure _
  | succ n ih =>
    unfold zeroBlocks
    exact grows_bind (grows_blankMut _) fun _ => grows_bind grows_writeBack fun _ => ih _

theorem grows_allocCluster (prev : Option Nat) (zero : Bool) : Grows (allocCluster prev zero) := by
  have e : allocCluster prev zero = (F.getVol >>= fun v => allocPick v >>= allocTail v prev zero) := by
    funext s
    exact allocCluster_seq prev zero s
  rw [e]
  refine grows_bind grows_getVol fun v => grows_bind (grows_of_readOnly (allocPick_readOnly v)) fun c => ?_
  unfold allocTail
  refine grows_bind ?_ fun _ => grows_bind (grows_updateFat _ _) fun _ => grows_bind ?_ fun _ =>
    grows_bind (grows_of_readOnly (allocHint_readOnly _ _)) fun nf => grows_bind (grows_modifyVol _) fun _ => grows_pure _
  · unfold zeroStep
    cases zero
    · exact grows_pure _
    · exact grows_zeroBlocks _ _
  · unfold linkStep
    cases prev
    · exact grows_pure _
    · exact grows_updateFat _ _

/-! ### `writeNewDirectoryEntry` writes at least one block when it succeeds -/

/-- `m` only appends to the write log, and appends at least one entry whenever its outcome
satisfies `p`. -/
def GrowsStrict {α : Type} (p : Res α → Prop) (m : F α) : Prop :=
  ∀ s, ∃ new, (m s).2.dev.wlog = new ++ s.dev.wlog ∧ (p (m s).1 → new ≠ [])

theorem writeNewBlocks_strict (name : Bytes) (attributes firstCluster : Nat) (now : Timestamp) (n blockIdx : Nat) :
    GrowsStrict (fun r => ∃ e, r = .ok (some e)) (writeNewBlocks name attributes firstCluster now n blockIdx) := by
  induction n generalizing blockIdx with
  | zero =>
    intro s
    refine ⟨[], rfl, ?_⟩
    rintro ⟨e, he⟩
    cases he
  | succ n ih =>
    intro s
    rw [writeNewBlocks]
    simp only [bind_apply', getVol_apply, cacheBlk_apply]
    have hw := cacheRead_wlog blockIdx s
    cases (cacheRead blockIdx s).1 with
    | ok u =>
      simp only
      cases firstFreeSlot (slotsOf (cacheRead blockIdx s).2.cache.blk) with
      | none =>
        simp only
        obtain ⟨new, h1, h2⟩ := ih (blockIdx + 1) (cacheRead blockIdx s).2
        exact ⟨new, by rw [h1, hw], h2⟩
      | some off =>
        simp only [bind_apply', cacheModify_apply, pure_apply]
        generalize hs2 : ({ (cacheRead blockIdx s).2 with
          cache := { (cacheRead blockIdx s).2.cache with
            blk := splice (cacheRead blockIdx s).2.cache.blk off
              (DirEntry.serialize s.vol.fatType (DirEntry.new name attributes firstCluster now blockIdx off)) } } : FS) = s2
        have hw2 : s2.dev.wlog = s.dev.wlog := by subst hs2; exact hw
        cases hr : (writeBack s2).1 with
        | ok u =>
          obtain ⟨x, hx⟩ := writeBack_ok_wlog s2 hr
          exact ⟨[x], by rw [hx, hw2]; rfl, fun _ => by simp⟩
        | err e =>
          obtain ⟨new, hnew⟩ := grows_writeBack s2
          refine ⟨new, by rw [hnew, hw2], ?_⟩
          rintro ⟨e', he'⟩; cases he'
        | panic m =>
          obtain ⟨new, hnew⟩ := grows_writeBack s2
          refine ⟨new, by rw [hnew, hw2], ?_⟩
          rintro ⟨e', he'⟩; cases he'
        | diverged =>
          obtain ⟨new, hnew⟩ := grows_writeBack s2
          refine ⟨new, by rw [hnew, hw2], ?_⟩
          rintro ⟨e', he'⟩; cases he'
    | err e =>
      refine ⟨[], hw, ?_⟩
      rintro ⟨e', he'⟩; cases he'
    | panic m =>
      refine ⟨[], hw, ?_⟩
      rintro ⟨e', he'⟩; cases he'
    | diverged =>
      refine ⟨[], hw, ?_⟩
      rintro ⟨e', he'⟩; cases he'

theorem writeNewWalk_strict (name : Bytes) (attributes firstCluster : Nat) (now : Timestamp) (fuel : Nat) (w : DirWalk) :
    GrowsStrict (fun r => ∃ e, r = .ok e) (writeNewWalk name attributes firstCluster now fuel w) := by
  induction fuel generalizing w with
  | zero =>
    intro s
    refine ⟨[], rfl, ?_⟩
    rintro ⟨e, he⟩
    cases he
  | succ fuel ih =>
    intro s
    rw [writeNewWalk]
    rw [bind_apply']
    obtain ⟨n1, h1, hs1⟩ := writeNewBlocks_strict name attributes firstCluster now w.dirSize w.firstBlock s
    generalize writeNewBlocks name attributes firstCluster now w.dirSize w.firstBlock s = p1 at h1 hs1 ⊢
    rcases p1 with ⟨r1, s1⟩
    simp only at h1 hs1 ⊢
    -- a continuation that strictly grows from `s1` gives the claim from `s`
    have lift : ∀ (q : Res DirEntry × FS), (∃ new, q.2.dev.wlog = new ++ s1.dev.wlog ∧ ((∃ e, q.1 = .ok e) → new ≠ [])) →
        ∃ new, q.2.dev.wlog = new ++ s.dev.wlog ∧ ((∃ e, q.1 = .ok e) → new ≠ []) := by
      rintro q ⟨n2, h2, hs2⟩
      refine ⟨n2 ++ n1, by rw [h2, h1, List.append_assoc], fun he => ?_⟩
      have := hs2 he
      intro habs
      exact this (List.append_eq_nil_iff.mp habs).1
    cases r1 with
    | ok o =>
      cases o with
      | some e =>
        refine ⟨n1, h1, fun _ => hs1 ⟨e, rfl⟩⟩
      | none =>
        simp only
        by_cases hfr : w.fixedRoot = true
        · rw [ite_apply, if_pos hfr]
          refine ⟨n1, h1, ?_⟩
          rintro ⟨e, he⟩; cases he
        · rw [ite_apply, if_neg hfr]
          apply lift
          rw [bind_apply', attempt_apply]
          simp only
          have hnc := (nextCluster_readOnly w.cluster s1).wlog
          generalize nextCluster w.cluster s1 = p2 at hnc ⊢
          rcases p2 with ⟨r2, s2⟩
          simp only at hnc ⊢
          -- again: strictly growing from `s2` is strictly growing from `s1`
          have lift2 : ∀ (q : Res DirEntry × FS),
              (∃ new, q.2.dev.wlog = new ++ s2.dev.wlog ∧ ((∃ e, q.1 = .ok e) → new ≠ [])) →
              ∃ new, q.2.dev.wlog = new ++ s1.dev.wlog ∧ ((∃ e, q.1 = .ok e) → new ≠ []) := by
            rintro q ⟨n2, h2, hs2⟩
            exact ⟨n2, by rw [h2, hnc], hs2⟩
          apply lift2
          cases r2 with
          | ok nxt =>
            simp only [bind_apply, getVol_apply]
            exact ih _ s2
          | err e =>
            cases e
            case EndOfFile =>
              simp only
              rw [bind_apply']
              obtain ⟨n3, h3⟩ := grows_allocCluster (some w.cluster) true s2
              generalize allocCluster (some w.cluster) true s2 = p3 at h3 ⊢
              rcases p3 with ⟨r3, s3⟩
              simp only at h3 ⊢
              cases r3 with
              | ok c =>
                simp only [bind_apply, getVol_apply]
                obtain ⟨n4, h4, hs4⟩ := ih { w with cluster := c, firstBlock := clusterToBlock s3.vol c } s3
                exact ⟨n4 ++ n3, by rw [h4, h3, List.append_assoc], fun he habs =>
                  hs4 he (List.append_eq_nil_iff.mp habs).1⟩
              | err e => exact ⟨n3, h3, by rintro ⟨e', he'⟩; cases he'⟩
              | panic m => exact ⟨n3, h3, by rintro ⟨e', he'⟩; cases he'⟩
              | diverged => exact ⟨n3, h3, by rintro ⟨e', he'⟩; cases he'⟩
            all_goals exact ⟨[], rfl, by rintro ⟨e', he'⟩; cases he'⟩
          | panic m => exact ⟨[], rfl, by rintro ⟨e', he'⟩; cases he'⟩
          | diverged => exact ⟨[], rfl, by rintro ⟨e', he'⟩; cases he'⟩
    | err e => exact ⟨n1, h1, by rintro ⟨e', he'⟩; cases he'⟩
    | panic m => exact ⟨n1, h1, by rintro ⟨e', he'⟩; cases he'⟩
    | diverged => exact ⟨n1, h1, by rintro ⟨e', he'⟩; cases he'⟩

theorem writeNewDirectoryEntry_strict (dirCluster : Nat) (name : Bytes) (attributes firstCluster : Nat) (now : Timestamp) :
    GrowsStrict (fun r => ∃ e, r = .ok e) (writeNewDirectoryEntry dirCluster name attributes firstCluster now) := by
  intro s
  unfold writeNewDirectoryEntry
  simp only [bind_apply, getVol_apply]
  exact writeNewWalk_strict _ _ _ _ _ _ s


/-! ### `makeDir` -/

theorem clusterToBlock_setHint (nf : Option Nat) (v : FatVolume) (c : Nat) :
    clusterToBlock (setHint nf v) c = clusterToBlock v c := rfl

theorem makeDir_prefix (s s' : FS) (parent : Nat) (sfn : Bytes) (att : Nat) (now : Timestamp)
    (hn : NoFault s) (hc : Coherent s) (h : makeDir parent sfn att now s = (.ok (), s')) :
    ∃ c rest,
      writesOf s s' = fatWrites s.vol c ++ (List.range s.vol.blocksPerCluster).map (fun j => clusterToBlock s.vol c + j) ++ rest ∧
      rest ≠ [] := by
  unfold makeDir at h
  -- the allocation
  rw [bind_eq_ok] at h
  obtain ⟨c, s1, h1, h⟩ := h
  obtain ⟨sZ, s3, s4, ch⟩ := alloc_chain s s1 none false c hn hc h1
  have e43 : s4 = s3 := ch.link
  have hw1 : s1.dev.wlog = fatWriteLog s.vol c (fatPayload sZ c Gen.CLUSTER_END_OF_FILE) ++ s.dev.wlog := by
    rw [ch.wlog', e43, ch.wlog3, ch.wlogZ]; rfl
  obtain ⟨nf, hv1, _⟩ := ch.vol'
  -- `getVol`
  rw [bind_eq_ok] at h
  obtain ⟨v, s1', hgv, h⟩ := h
  rw [getVol_apply] at hgv
  have ev : s1.vol = v := Res.ok.inj (congrArg Prod.fst hgv)
  have es1 : s1 = s1' := congrArg Prod.snd hgv
  subst es1
  subst ev
  -- `blankMut`, `cacheModify`
  rw [bind_eq_ok] at h
  obtain ⟨_, s2, hb, h⟩ := h
  rw [bind_eq_ok] at h
  obtain ⟨_, s2', hm, h⟩ := h
  have e2 : s2 = { s1 with cache := { tag := some (clusterToBlock s1.vol c), blk := zeroBlock } } :=
    (congrArg Prod.snd hb).symm
  subst e2
  have e2' := (congrArg Prod.snd hm).symm
  rw [cacheModify_apply] at e2'
  simp only at e2'
  have htag : s2'.cache.tag = some (clusterToBlock s1.vol c) := by rw [e2']
  have hn2 : NoFault s2' := by rw [e2']; exact ch.hn'
  have hw2 : s2'.dev.wlog = s1.dev.wlog := by rw [e2']
  have hv2 : s2'.vol = s1.vol := by rw [e2']
  -- `writeBack`
  rw [bind_eq_ok] at h
  obtain ⟨_, s3', hwb, h⟩ := h
  have e3 : s3' = (writeBack s2').2 := by rw [hwb]
  have hn3 : NoFault s3' := by rw [e3]; exact writeBack_noFault s2' _ hn2 htag
  have hc3 : Coherent s3' := by rw [e3]; exact writeBack_coherent s2' _ hn2 htag
  have hw3 : s3'.dev.wlog = (clusterToBlock s1.vol c, s2'.cache.blk) :: s1.dev.wlog := by
    rw [e3, writeBack_wlog s2' _ hn2 htag, hw2]
  -- `zeroBlocks`
  rw [bind_eq_ok] at h
  obtain ⟨_, s4', hz, h⟩ := h
  obtain ⟨_, hzw, hn4, hc4, _⟩ :=
    zeroBlocks_writes s3' (s1.vol.blocksPerCluster - 1) (clusterToBlock s1.vol c + 1) hn3 hc3
  rw [hz] at hzw hn4 hc4
  simp only at hzw
  -- the directory entry in the parent
  rw [bind_eq_ok] at h
  obtain ⟨r, s5', hat, h⟩ := h
  rw [attempt_apply] at hat
  have er : (writeNewDirectoryEntry parent sfn att c now s4').1 = r := Res.ok.inj (congrArg Prod.fst hat)
  have es5 : (writeNewDirectoryEntry parent sfn att c now s4').2 = s5' := congrArg Prod.snd hat
  obtain ⟨new, hnew, hstrict⟩ := writeNewDirectoryEntry_strict parent sfn att c now s4'
  rw [es5] at hnew
  rw [er] at hstrict
  cases r with
  | ok e =>
    have es' : s5' = s' := congrArg Prod.snd h
    subst es'
    have hne : new ≠ [] := hstrict ⟨e, rfl⟩
    -- assemble the write log
    have hb1 : s1.vol.blocksPerCluster = s.vol.blocksPerCluster := by rw [hv1]; rfl
    have hcb : clusterToBlock s1.vol c = clusterToBlock s.vol c := by rw [hv1]; rfl
    rw [hb1, hcb] at hzw
    rw [hcb] at hw3
    have htotal : s5'.dev.wlog =
        (new ++ (((List.range (s.vol.blocksPerCluster - 1)).map fun i => (clusterToBlock s.vol c + 1 + i, zeroBlock)).reverse ++
          ((clusterToBlock s.vol c, s2'.cache.blk) ::
            fatWriteLog s.vol c (fatPayload sZ c Gen.CLUSTER_END_OF_FILE)))) ++ s.dev.wlog := by
      rw [hnew, hzw, hw3, hw1]
      simp only [List.append_assoc, List.cons_append]
    rw [writesOf_append s s5' _ htotal]
    simp only [List.map_append, List.map_cons, List.reverse_append, List.reverse_cons, List.map_reverse,
      List.reverse_reverse, List.map_map, fatWriteLog_idx, List.append_assoc]
    cases hbpc : s.vol.blocksPerCluster with
    | zero =>
      refine ⟨c, clusterToBlock s.vol c :: (new.map (·.1)).reverse, ?_, by simp⟩
      simp
    | succ k =>
      refine ⟨c, (new.map (·.1)).reverse, ?_, ?_⟩
      · rw [List.range_succ_eq_map]
        simp only [Nat.add_sub_cancel, List.map_cons, List.map_map, Nat.add_zero, List.cons_append, List.nil_append]
        congr 2
        congr 1
        apply List.map_congr_left
        intro i _
        simp only [Function.comp]
        omega
      · intro habs
        apply hne
        have := congrArg List.length habs
        simp only [List.length_reverse, List.length_map, List.length_nil] at this
        exact List.eq_nil_of_length_eq_zero this
  | err e =>
    simp only at h
    rw [bind_eq_ok] at h
    obtain ⟨_, _, _, h⟩ := h
    cases h
  | panic m => cases h
  | diverged => cases h

end Sdmmc.Lemmas.DirOps
