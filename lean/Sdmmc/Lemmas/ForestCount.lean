/-
Counting free clusters: how `freeCount` moves when a repetition-free list of clusters changes from
"not free" to "free", and what that means for the free count of the volume record.
-/
import Sdmmc.Lemmas.ForestTrunc

namespace Sdmmc.Lemmas.ForestCount
open Sdmmc.Model Sdmmc.Model.Fat Sdmmc.Spec
open Sdmmc.Lemmas.ForestBase Sdmmc.Lemmas.ForestTrunc

/-- Turning the predicate on for the members of a repetition-free `L ⊆ l` raises the count by `L.length`. -/
theorem countP_add_list (p q : Nat → Bool) : ∀ (l L : List Nat), l.Nodup → L.Nodup → (∀ x, x ∈ L → x ∈ l) →
    (∀ x, x ∈ L → p x = false) → (∀ x, x ∈ l → q x = (p x || decide (x ∈ L))) →
    l.countP q = l.countP p + L.length := by
  intro l
  induction l with
  | nil =>
    intro L _ _ hsub _ _
    cases L with
    | nil => rfl
    | cons a L => exact absurd (hsub a List.mem_cons_self) List.not_mem_nil
  | cons a t ih =>
    intro L hl hL hsub hnew hq
    obtain ⟨hat, ht⟩ := List.nodup_cons.1 hl
    by_cases haL : a ∈ L
    · have hqa : q a = true := by rw [hq a List.mem_cons_self, hnew a haL]; simp [haL]
      have hpa : p a = false := hnew a haL
      have h1 := ih (L.erase a) ht (hL.erase a)
        (fun x hx => by
          obtain ⟨hne, hxL⟩ := (hL.mem_erase_iff).1 hx
          rcases List.mem_cons.1 (hsub x hxL) with h | h
          · exact absurd h hne
          · exact h)
        (fun x hx => hnew x ((hL.mem_erase_iff).1 hx).2)
        (fun x hx => by
          rw [hq x (List.mem_cons_of_mem _ hx)]
          have hne : x ≠ a := fun e => hat (e ▸ hx)
          have : (x ∈ L.erase a) ↔ x ∈ L := by rw [hL.mem_erase_iff]; exact ⟨fun h => h.2, fun h => ⟨hne, h⟩⟩
          rw [decide_eq_decide.2 this])
      rw [List.countP_cons_of_pos hqa, List.countP_cons_of_neg (by rw [hpa]; exact Bool.false_ne_true), h1,
        List.length_erase_of_mem haL]
      have : 0 < L.length := List.length_pos_of_mem haL
      omega
    · have hqa : q a = p a := by rw [hq a List.mem_cons_self]; simp [haL]
      have h1 := ih L ht hL
        (fun x hx => by
          rcases List.mem_cons.1 (hsub x hx) with h | h
          · exact absurd (h ▸ hx) haL
          · exact h)
        hnew (fun x hx => hq x (List.mem_cons_of_mem _ hx))
      cases hp : p a with
      | true =>
        rw [List.countP_cons_of_pos (by rw [hqa, hp]), List.countP_cons_of_pos hp, h1]; omega
      | false =>
        rw [List.countP_cons_of_neg (by rw [hqa, hp]; exact Bool.false_ne_true),
          List.countP_cons_of_neg (by rw [hp]; exact Bool.false_ne_true), h1]

theorem nodup_range' (n : Nat) : (List.range n).Nodup := List.nodup_range

/-- The clusters of `L` (in range, repetition-free) go from not free to free, every other data
cluster keeps its status: the number of free clusters grows by `L.length`. -/
theorem freeCount_add {v : FatVolume} {d d' : Disk} (L : List Nat) (hL : L.Nodup) (hr : ∀ x, x ∈ L → InRange v x)
    (hbefore : ∀ x, x ∈ L → ¬ isFree v d x) (hafter : ∀ x, x ∈ L → isFree v d' x)
    (hother : ∀ x, InRange v x → x ∉ L → (isFree v d' x ↔ isFree v d x)) :
    freeCount v d' = freeCount v d + L.length := by
  unfold freeCount
  refine countP_add_list _ _ _ L (nodup_range' _) hL (fun x hx => List.mem_range.2 (hr x hx).2) ?_ ?_
  · intro x hx
    exact decide_eq_false (fun h => hbefore x hx h.2)
  · intro x hx
    have hxE := List.mem_range.1 hx
    by_cases hxL : x ∈ L
    · have h1 : (2 ≤ x ∧ isFree v d' x) := ⟨(hr x hxL).1, hafter x hxL⟩
      simp [h1, hxL]
    · by_cases h2 : 2 ≤ x
      · have := hother x ⟨h2, hxE⟩ hxL
        simp [h2, hxL, this]
      · simp [h2, hxL]

theorem freeCount_le (v : FatVolume) (d : Disk) : freeCount v d ≤ endCluster v := by
  unfold freeCount
  have := List.countP_le_length (p := fun c => decide (2 ≤ c ∧ isFree v d c)) (l := List.range (endCluster v))
  rw [List.length_range] at this
  exact this

theorem _root_.Sdmmc.Spec.SameGeom.freeCount {v v' : FatVolume} (h : SameGeom v v') (d : Disk) :
    freeCount v' d = freeCount v d := by
  obtain ⟨a, b, rfl⟩ := h; rfl

theorem endCluster_le_u32 (v : FatVolume) (hg : WFGeom v) : endCluster v ≤ U32_MAX := by
  have := hg.count_bound
  show endCluster v ≤ 4294967295
  cases hft : v.fatType <;> rw [hft] at this <;> simp only at this <;> omega

/-- Giving back the clusters of `L`: the record stays truthful. -/
theorem countExact_add {s s' : FS} (k : Nat) (hs : SameGeom s.vol s'.vol) (hg : WFGeom s.vol)
    (hcnt : s'.vol.freeClustersCount = s.vol.freeClustersCount.map fun n => satAdd n k)
    (hadd : freeCount s.vol s'.dev.disk = freeCount s.vol s.dev.disk + k) (h : CountExact s) : CountExact s' := by
  intro n hn
  rw [hcnt] at hn
  cases hfc : s.vol.freeClustersCount with
  | none => rw [hfc] at hn; cases hn
  | some m =>
    rw [hfc] at hn
    simp only [Option.map_some, Option.some.injEq] at hn
    have hm := h m hfc
    rw [hs.freeCount, hadd, ← hm, ← hn]
    refine satAdd_eq m k ?_
    have h1 := freeCount_le s.vol s'.dev.disk
    have h2 := endCluster_le_u32 s.vol hg
    omega

/-- Taking one cluster: the record stays truthful. -/
theorem countExact_sub {s s' : FS} (hs : SameGeom s.vol s'.vol)
    (hcnt : s'.vol.freeClustersCount = s.vol.freeClustersCount.map (· - 1))
    (hsub : freeCount s.vol s.dev.disk = freeCount s.vol s'.dev.disk + 1) (h : CountExact s) : CountExact s' := by
  intro n hn
  rw [hcnt] at hn
  cases hfc : s.vol.freeClustersCount with
  | none => rw [hfc] at hn; cases hn
  | some m =>
    rw [hfc] at hn
    simp only [Option.map_some, Option.some.injEq] at hn
    have hm := h m hfc
    rw [hs.freeCount]
    omega

end Sdmmc.Lemmas.ForestCount
