/-
C11 over histories with SEVERAL OPEN VOLUMES, part 3: HISTORIES.  `history_multi`: along a history in which no volume is opened
or closed, every call covered, the label quirk excluded (`LabelFresh`), the side condition `NotDamagedOpen` on the projection
addressed: `VolInvNS` after every prefix, the ghosts keeping their geometry.  `partition_untouched`: a volume no call of the
history is ADDRESSED TO keeps its partition byte for byte — whatever device calls fail in the calls addressed to the others.
-/
import Sdmmc.Lemmas.MultiS2

namespace Sdmmc.Lemmas.MultiS
open Sdmmc.Model Sdmmc.Model.Fat Sdmmc.Spec.Volume
open Sdmmc.Spec hiding NoFault Coherent run step
open Sdmmc.Lemmas.VolN (projH LabelFresh)
open Sdmmc.Lemmas.FaultInv (FCovered)
open Sdmmc.Lemmas.WriteSetInv (run_cons)

theorem target_vol {s : Mgr} {op : Op} {i : Nat} (ht : target s op = some i) : ∃ vi, s.vols[i]? = some vi := by
  have key : ∀ {r : Nat}, s.vols.findIdx? (·.rawVolume = r) = some i → ∃ vi, s.vols[i]? = some vi := fun h => by
    obtain ⟨vi, hvi, _⟩ := Lemmas.MHoare.findIdx?_some_get h
    exact ⟨vi, hvi⟩
  have hd : ∀ {d : Nat}, dirTarget s d = some i → ∃ vi, s.vols[i]? = some vi := fun {d} h => by
    unfold dirTarget at h
    split at h
    · cases h
    · split at h
      · cases h
      · exact key h
  have hf : ∀ {f : Nat}, fileTarget s f = some i → ∃ vi, s.vols[i]? = some vi := fun {f} h => by
    unfold fileTarget at h
    split at h
    · cases h
    · split at h
      · cases h
      · exact key h
  cases op <;> first | cases ht | exact hd ht | exact hf ht | exact key ht

/-- What is asked of one call, in the state it is issued in. -/
def StepOK (s : Mgr) (op : Op) : Prop :=
  (∀ i, op ≠ .openVolume i) ∧ (∀ v, op ≠ .closeVolume v) ∧ LabelFresh s op ∧ FCovered s op ∧
  ∀ i vi, target s op = some i → s.vols[i]? = some vi → NotDamagedOpen (projH vi.rawVolume i s) op

def RunOK : Mgr → List Op → Prop
  | _, [] => True
  | s, op :: ops => StepOK s op ∧ RunOK (Model.step s op).1 ops

/-- The ghosts, index by index, keep their geometry. -/
def SameG (ghs ghs' : List Ghost) : Prop :=
  ghs'.length = ghs.length ∧ ∀ (j : Nat) (g g' : Ghost), ghs[j]? = some g → ghs'[j]? = some g' → SameGeom g.vol g'.vol

theorem SameG.refl (ghs : List Ghost) : SameG ghs ghs :=
  ⟨rfl, fun _ g g' h h' => by rw [h] at h'; cases h'; exact SameGeom.refl _⟩

theorem SameG.trans {a b c : List Ghost} (h1 : SameG a b) (h2 : SameG b c) : SameG a c := by
  refine ⟨h2.1.trans h1.1, fun j g g' hg hg' => ?_⟩
  have hlt : j < b.length := by rw [h1.1]; exact (List.getElem?_eq_some_iff.1 hg).1
  exact (h1.2 j g b[j] hg (List.getElem?_eq_getElem hlt)).trans (h2.2 j b[j] g' (List.getElem?_eq_getElem hlt) hg')

theorem sameG_set {ghs : List Ghost} {i : Nat} {gh gh' : Ghost} (hgh : ghs[i]? = some gh) (hg : SameGeom gh.vol gh'.vol) :
    SameG ghs (ghs.set i gh') := by
  refine ⟨List.length_set, fun j g g' h h' => ?_⟩
  by_cases hj : j = i
  · subst hj
    rw [List.getElem?_set_self (List.getElem?_eq_some_iff.1 hgh).1] at h'
    rw [hgh] at h
    cases h; cases h'; exact hg
  · rw [List.getElem?_set_ne (Ne.symm hj)] at h'
    rw [h] at h'; cases h'; exact SameGeom.refl _

/-- **One call**: `VolInvNS` again; the answer of an addressed call is `Ok` or an error; no block outside the partition of the
addressed volume changes (none at all if no volume is addressed); the other volume records stay where they are. -/
theorem step_multi {s : Mgr} {ghs : List Ghost} (hI : VolInvNS s ghs) (op : Op) (hok : StepOK s op) :
    (∃ ghs', VolInvNS (Model.step s op).1 ghs' ∧ SameG ghs ghs') ∧
    (∀ i, target s op = some i → FaultInv.Clean (Model.step s op).2.result) ∧
    (∀ j vj, s.vols[j]? = some vj → target s op ≠ some j →
      (∃ vj', (Model.step s op).1.vols[j]? = some vj' ∧ vj'.vol = vj.vol) ∧
      ∀ b, InPartition vj.vol b → (Model.step s op).1.dev.disk.get b = s.dev.disk.get b) := by
  obtain ⟨h1, h2, hlf, hc, hnd⟩ := hok
  cases ht : target s op with
  | none =>
    obtain ⟨a, b, c⟩ := step_untargeted hI op ht h1 h2
    exact ⟨⟨ghs, a, SameG.refl _⟩, fun i h => (by cases h), fun j vj hvj _ => ⟨⟨vj, by rw [c]; exact hvj, rfl⟩, fun x _ => by rw [b]⟩⟩
  | some i =>
    obtain ⟨vi, hvi⟩ := target_vol ht
    obtain ⟨gh, hgh⟩ : ∃ gh, ghs[i]? = some gh :=
      ⟨_, List.getElem?_eq_getElem (by rw [hI.len]; exact (List.getElem?_eq_some_iff.1 hvi).1)⟩
    obtain ⟨⟨gh', a, hg⟩, hcl, hfr, hoth⟩ := step_addressed hI op ht hvi hgh hlf hc (hnd i vi ht hvi)
    refine ⟨⟨_, a, sameG_set hgh hg⟩, fun _ _ => hcl, fun j vj hvj hne => ?_⟩
    have hji : j ≠ i := fun e => hne (by rw [e])
    refine ⟨⟨vj, by rw [hoth j hji]; exact hvj, rfl⟩, fun b hb => hfr b ?_⟩
    rw [← hI.vols i vi gh hvi hgh]
    exact fun hbi => hI.parts i j vi vj hvi hvj (Ne.symm hji) b hbi hb

/-- **Histories**: `VolInvNS` after every prefix. -/
theorem history_multi : ∀ (ops : List Op) {s : Mgr} {ghs : List Ghost}, VolInvNS s ghs → RunOK s ops → ∀ n,
    ∃ ghs', VolInvNS (Model.run s (ops.take n)).1 ghs' ∧ SameG ghs ghs'
  | [], s, ghs, hI, _, n => by rw [List.take_nil]; exact ⟨ghs, hI, SameG.refl _⟩
  | op :: ops, s, ghs, hI, _, 0 => ⟨ghs, hI, SameG.refl _⟩
  | op :: ops, s, ghs, hI, hok, n + 1 => by
    obtain ⟨⟨ghs1, h1, g1⟩, _, _⟩ := step_multi hI op hok.1
    obtain ⟨ghs2, h2, g2⟩ := history_multi ops h1 hok.2 n
    rw [List.take_succ_cons, run_cons]
    exact ⟨ghs2, h2, g1.trans g2⟩

/-- The answers of the addressed calls. -/
theorem history_multi_clean : ∀ (ops : List Op) {s : Mgr} {ghs : List Ghost}, VolInvNS s ghs → RunOK s ops → ∀ n op i,
    ops[n]? = some op → target (Model.run s (ops.take n)).1 op = some i →
    FaultInv.Clean (Model.step (Model.run s (ops.take n)).1 op).2.result
  | [], _, _, _, _, _, _, _, h, _ => by cases h
  | op :: ops, s, ghs, hI, hok, 0, op', i, h, ht => by
    cases h
    exact (step_multi hI op hok.1).2.1 i ht
  | op :: ops, s, ghs, hI, hok, n + 1, op', i, h, ht => by
    obtain ⟨⟨ghs1, h1, _⟩, _, _⟩ := step_multi hI op hok.1
    rw [List.take_succ_cons, run_cons] at ht ⊢
    exact history_multi_clean ops h1 hok.2 n op' i (by simpa using h) ht

/-- No call of the history is addressed to volume record `j`. -/
def NotAddressed (j : Nat) : Mgr → List Op → Prop
  | _, [] => True
  | s, op :: ops => target s op ≠ some j ∧ NotAddressed j (Model.step s op).1 ops

/-- **A volume no call is addressed to keeps its partition byte for byte**, and its record stays at its index. -/
theorem partition_untouched : ∀ (ops : List Op) {s : Mgr} {ghs : List Ghost}, VolInvNS s ghs → RunOK s ops →
    ∀ (j : Nat) (vj : VolInfo), s.vols[j]? = some vj → NotAddressed j s ops → ∀ n,
    (∃ vj', (Model.run s (ops.take n)).1.vols[j]? = some vj' ∧ vj'.vol = vj.vol) ∧
    ∀ b, InPartition vj.vol b → (Model.run s (ops.take n)).1.dev.disk.get b = s.dev.disk.get b
  | [], s, _, _, _, j, vj, hvj, _, n => by rw [List.take_nil]; exact ⟨⟨vj, hvj, rfl⟩, fun _ _ => rfl⟩
  | op :: ops, s, _, _, _, j, vj, hvj, _, 0 => ⟨⟨vj, hvj, rfl⟩, fun _ _ => rfl⟩
  | op :: ops, s, ghs, hI, hok, j, vj, hvj, hna, n + 1 => by
    obtain ⟨⟨ghs1, h1, _⟩, _, hrest⟩ := step_multi hI op hok.1
    obtain ⟨⟨vj1, hvj1, hv1⟩, hfr1⟩ := hrest j vj hvj hna.1
    obtain ⟨⟨vj2, hvj2, hv2⟩, hfr2⟩ := partition_untouched ops h1 hok.2 j vj1 hvj1 hna.2 n
    rw [List.take_succ_cons, run_cons]
    refine ⟨⟨vj2, hvj2, hv2.trans hv1⟩, fun b hb => ?_⟩
    rw [hfr2 b (by rw [hv1]; exact hb), hfr1 b hb]

end Sdmmc.Lemmas.MultiS
