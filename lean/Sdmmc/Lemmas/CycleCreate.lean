/-
The fill / delete / refill cycle without glue (C05), part 2 — `open_file_in_dir(dir, name,
ReadWriteCreate)` on a state satisfying the volume invariant, for a name the directory does not hold:
the answer, the tables, the ghost afterwards and the accounting (`create_counts`).
-/
import Sdmmc.Lemmas.CycleNew
import Sdmmc.Lemmas.VolApiOpen

namespace Sdmmc.Lemmas.Cycle
open Sdmmc.Model Sdmmc.Model.Fat Sdmmc.Spec.Volume Sdmmc.Lemmas.VolBase Sdmmc.Lemmas.VolTree
open Sdmmc.Spec hiding NoFault Coherent
open Sdmmc.Lemmas.VolDisk Sdmmc.Lemmas.VolMed Sdmmc.Lemmas.VolEng Sdmmc.Lemmas.VolApi Sdmmc.Lemmas.VolWalk
open Sdmmc.Lemmas.FBasic (NoFault Coherent)
open Sdmmc.Lemmas.MHoare
open Sdmmc.Lemmas.Acct (Acct)

/-- What a successful create leaves: the new record is the last of the file table, handle `s.nextId`;
the volume table holds the one record `vi'`; the invariant holds for the chains `G1`; the new entry is
the object `o` of the directory, a plain file without cluster, size 0, that only the new record sits at. -/
structure Created (s s' : Mgr) (gh : Ghost) (d : DirInfo) (sfn : Bytes) (e : DirEntry) (G1 : List (List Nat))
    (vi' : VolInfo) (pre post : List Slot) (o : Slot) : Prop where
  files : s'.files = s.files ++ [Modes.createdFile d s.nextId e]
  dirs : s'.dirs = s.dirs
  nextId : s'.nextId = (s.nextId + 1) % 4294967296
  vols : s'.vols = [vi']
  rawVol : vi'.rawVolume = d.rawVolume
  sameGeom : SameGeom gh.vol vi'.vol
  inv : VolInv s' { vol := vi'.vol, G := G1, dirs := gh.dirs }
  entry : e = DirEntry.new sfn 0 0 s.clock o.1 o.2.1
  slots : dirSlots vi'.vol s'.dev.disk G1 (dirIdOf d.cluster) = pre ++ o :: post
  obj : o ∈ objects (dirIdOf d.cluster) (dirSlots vi'.vol s'.dev.disk G1 (dirIdOf d.cluster))
  plain : isDirE o = false
  name : sName o = sfn
  clock : s'.clock = s.clock
  maxFiles : s'.maxFiles = s.maxFiles

/-- **Creating a file, with the accounting.**  `s` satisfies the volume invariant; the directory handle
resolves (record `d`), its volume is open, the name has the short form `sfn` (not starting with 0xE5)
and the directory holds no entry of that name; the file table has room.  Then
`open_file_in_dir(.., ReadWriteCreate)`
* answers `NotEnoughSpace`, the directory having no free slot, with the medium, the chains and the
  tables as before; or
* answers the handle `s.nextId` (`Created`), and either the directory had a free slot — the entry went
  into its FIRST free slot, the chains are the same, nothing was taken (`Acct … 0`: same number of
  free clusters, same in-memory count) — or the directory had none, is chained, and grew by one
  cluster `c`: its chain is the old one followed by `c`, every other chain is as before, and exactly
  one cluster was taken (`Acct … 1`). -/
theorem create_counts {s : Mgr} {gh : Ghost} (hI : VolInv s gh) (directory di : Nat) (name : List Nat) (d : DirInfo) (sfn : Bytes)
    (hroom : s.files.length < s.maxFiles)
    (hdi : s.dirs.findIdx? (·.rawDirectory = directory) = some di) (hd : s.dirs[di]? = some d)
    (hvo : ∃ volIdx, s.vols.findIdx? (·.rawVolume = d.rawVolume) = some volIdx)
    (hsfn : Sfn.createFromStr name = .ok sfn) (hne5 : sfn.head? ≠ some 0xE5)
    (hfresh : sfn ∉ (entries (dirSlots gh.vol s.dev.disk gh.G (dirIdOf d.cluster))).map sName) :
    ∃ r s', openFileInDir directory name .ReadWriteCreate s = (r, s') ∧
      ((r = .err .NotEnoughSpace ∧ VolInv s' gh ∧ s'.dev.disk = s.dev.disk ∧ s'.files = s.files ∧ s'.dirs = s.dirs ∧
          (dirSlots gh.vol s.dev.disk gh.G (dirIdOf d.cluster)).find? isFreeSlot = none) ∨
       (∃ e G1 vi' pre post o, r = .ok s.nextId ∧ Created s s' gh d sfn e G1 vi' pre post o ∧
          (((∃ old, (dirSlots gh.vol s.dev.disk gh.G (dirIdOf d.cluster)).find? isFreeSlot = some old ∧
                 old.1 = o.1 ∧ old.2.1 = o.2.1 ∧ dirSlots gh.vol s.dev.disk gh.G (dirIdOf d.cluster) = pre ++ old :: post) ∧
               G1 = gh.G ∧
               (∀ x, x ∈ dirIds gh.dirs → x ≠ dirIdOf d.cluster →
                 dirSlots vi'.vol s'.dev.disk G1 x = dirSlots gh.vol s.dev.disk gh.G x) ∧
               Acct gh.vol vi'.vol s.dev.disk s'.dev.disk 0) ∨
            ((dirSlots gh.vol s.dev.disk gh.G (dirIdOf d.cluster)).find? isFreeSlot = none ∧
               ¬ isFixedRoot gh.vol (dirIdOf d.cluster) ∧
               ∃ c, chainOf G1 (dirHead gh.vol (dirIdOf d.cluster)) = chainOf gh.G (dirHead gh.vol (dirIdOf d.cluster)) ++ [c] ∧
                 (∀ x, x ≠ dirHead gh.vol (dirIdOf d.cluster) → chainOf G1 x = chainOf gh.G x) ∧
                 (∀ cs, cs ∈ gh.G → c ∉ cs) ∧
                 Acct gh.vol vi'.vol s.dev.disk s'.dev.disk 1)))) := by
  obtain ⟨volIdx, hv⟩ := hvo
  obtain ⟨h0, vi, hvs, hvol, hraw⟩ := vol_of_handle hI hv
  subst h0
  have hdm : d ∈ s.dirs := List.mem_of_getElem? hd
  have hdv := hI.openDirs d hdm
  rw [Modes.openFileInDir_eq]
  unfold Modes.openFileInDirAlt
  rw [get_bind, if_neg (by omega), bind_ok (getDirById_ok hdi), bind_ok (getDir_ok hd), bind_ok (getVolumeById_ok hv),
    bind_ok (Modes.toSfn_ok hsfn s), attempt_bind]
  obtain ⟨r0, fs', hlk, hdisk, hvol', h1, hcase⟩ := lookup_found hI hvs hvol hdv sfn hne5
  rw [hlk]
  show ∃ r s', Modes.openFileTail d 0 sfn .ReadWriteCreate r0 (afterVol s vi fs') = (r, s') ∧ _
  have hvs1 : (afterVol s vi fs').vols = [{ vi with vol := fs'.vol }] := rfl
  have hraw1 : ({ vi with vol := fs'.vol } : VolInfo).rawVolume = d.rawVolume := hraw
  rcases hcase with ⟨hr, _⟩ | ⟨e, o, hr, hF⟩
  swap
  · exfalso
    apply hfresh
    have hm := hF.mem
    rw [hdisk] at hm
    exact List.mem_map.2 ⟨o, hm, hF.name⟩
  subst hr
  rw [Modes.tail_create_eq d 0 sfn _ .ReadWriteCreate (.inl rfl)]
  obtain ⟨hlen, hn0⟩ := VolSfn.sfn_facts hsfn
  -- the creation, on the state the lookup left
  have hv0 : (afterVol s vi fs').vols.findIdx? (·.rawVolume = d.rawVolume) = some 0 := by rw [hvs1]; simp [hraw]
  have hfiles1 : (afterVol s vi fs').files = s.files := rfl
  have hdirs1 : (afterVol s vi fs').dirs = s.dirs := rfl
  have hnext1 : (afterVol s vi fs').nextId = s.nextId := rfl
  have hclock1 : (afterVol s vi fs').clock = s.clock := rfl
  have hmaxf1 : (afterVol s vi fs').maxFiles = s.maxFiles := rfl
  generalize hs1 : afterVol s vi fs' = s1 at *
  have hfresh1 : sfn ∉ (entries (dirSlots (fsOf s1 gh).vol (fsOf s1 gh).dev.disk gh.G (dirIdOf d.cluster))).map sName := by
    show sfn ∉ (entries (dirSlots gh.vol s1.dev.disk gh.G (dirIdOf d.cluster))).map sName
    rw [hdisk]; exact hfresh
  unfold Modes.createRun
  rw [bind_ok (getVolumeById_ok hv0)]
  obtain ⟨hn, hc, hM⟩ := volInv_fs h1
  obtain ⟨r, fs2, hrun, hn', hc', hcase⟩ :=
    create_file_count hM hn hc hdv sfn hlen hn0 (VolSfn.sfn_first_ne_e5 hne5) hfresh1 s1.clock
  have hw := withVol_one (Fat.writeNewDirectoryEntry d.cluster sfn 0 Gen.CLUSTER_EMPTY s1.clock) hvs1 hvol'
  have hrun' : Fat.writeNewDirectoryEntry d.cluster sfn 0 Gen.CLUSTER_EMPTY s1.clock (fsOf s1 gh) = (r, fs2) := hrun
  rw [hrun'] at hw
  have hd1 : (fsOf s1 gh).dev.disk = s.dev.disk := hdisk
  have hv1 : (fsOf s1 gh).vol = gh.vol := rfl
  rcases hcase with ⟨hr, hd', hv', hnone⟩ | ⟨e, G1, pre, post, old, hr, hsg, hM', he, hslots, hobj, hplain, hname, hattr, hcl, hsz,
      hpend, hcase2⟩
  · subst hr
    rw [bind_err hw]
    refine ⟨_, _, rfl, .inl ⟨rfl, ?_, ?_, hfiles1, hdirs1, ?_⟩⟩
    · have : MedX fs2.vol fs2.dev.disk s1.files gh [] := by rw [hd', hv']; exact hM
      have hI2 := volInv_afterVol (gh' := { gh with vol := fs2.vol }) h1 hvs1 hn' hc' rfl (medX_of_ghost this rfl rfl) (fun _ h => h)
      have hgh : ({ gh with vol := fs2.vol } : Ghost) = gh := by rw [hv']; rfl
      rw [hgh] at hI2
      exact hI2
    · show fs2.dev.disk = s.dev.disk
      rw [hd', hd1]
    · rw [hd1] at hnone; exact hnone
  · subst hr
    rw [bind_ok hw, generate_bind, modify_bind]
    set o : Slot := (old.1, old.2.1, DirEntry.serialize fs2.vol.fatType e) with ho
    have hidm : dirIdOf d.cluster ∈ dirIds gh.dirs := (validDir_id hM hdv).1
    have hfile : MedX fs2.vol fs2.dev.disk (s1.files ++ [Modes.createdFile d s1.nextId e])
        { vol := fs2.vol, G := G1, dirs := gh.dirs } [] := by
      refine med_open hM' hidm hobj hplain hpend (f := Modes.createdFile d s1.nextId e) ?_ ?_ ?_ ?_ ?_
        (Nat.zero_le _) rfl rfl
      · show (e.entryBlock, e.entryOffset) = spos o
        rw [he]; rfl
      · show e.name = sName o
        rw [hname, he]; rfl
      · show e.attributes = sAttr o
        rw [hattr, he]; rfl
      · show e.cluster = sCluster fs2.vol.fatType o
        rw [hcl, he]; rfl
      · show e.size = sSize o
        rw [hsz, he]; rfl
    have hI2 := volInv_after (vi := { vi with vol := fs'.vol }) (files' := s1.files ++ [Modes.createdFile d s1.nextId e])
      (dirs' := s1.dirs) (gh' := { vol := fs2.vol, G := G1, dirs := gh.dirs }) h1 hn' hc' rfl hfile
      (by
        intro g hg
        rcases List.mem_append.1 hg with hg | hg
        · obtain ⟨vi', hv', he'⟩ := h1.fileVols g hg
          rw [hvs1] at hv'; cases hv'; exact he'
        · rw [List.mem_singleton.1 hg]; exact hraw1.symm)
      (by intro di' hdi'; exact h1.openDirs di' hdi') ((s1.nextId + 1) % 4294967296)
    refine ⟨_, _, rfl, .inr ⟨e, G1, { vi with vol := fs2.vol }, pre, post, o, ?_,
      ⟨?_, hdirs1, ?_, rfl, hraw, hsg, hI2, ?_, hslots, hobj, hplain, hname, hclock1, hmaxf1⟩, ?_⟩⟩
    · show Res.ok s1.nextId = _
      rw [hnext1]
    · show s1.files ++ [Modes.createdFile d s1.nextId e] = _
      rw [hfiles1, hnext1]
    · show (s1.nextId + 1) % 4294967296 = _
      rw [hnext1]
    · rw [he, hclock1]
    · rcases hcase2 with ⟨hfs, hG1, hvv, hsp, hoth, hacct⟩ | ⟨hfs, hnf, c, hch, hoth, hcnot, hacct⟩
      · left
        rw [hd1] at hfs hsp hoth hacct
        exact ⟨⟨old, hfs, rfl, rfl, hsp⟩, hG1, hoth, hacct⟩
      · right
        rw [hd1] at hfs hacct
        exact ⟨hfs, hnf, c, hch, hoth, fun cs hcs => hcnot cs (by simpa using hcs), hacct⟩

end Sdmmc.Lemmas.Cycle
