/-
Lemmas for C14, part 12: after the application-command prefix CMD55 the next command is the
application command (ACMD41 or ACMD23).
-/
import Sdmmc.Lemmas.SdCmd
import Sdmmc.Lemmas.SdNoPanic

namespace Sdmmc.Lemmas.Sd
open Sdmmc.Model Sdmmc.Model.Sd Sdmmc.Gen

variable {σ : Type} {α β : Type} (B : BusOps σ)

/-- The next command after this point is ACMD41 or ACMD23, with only polls before it.
Same body as `Sdmmc.Props.C14.NextIsAcmd`. -/
def NextIsAcmd (post : List Event) : Prop :=
  ∃ polls f rest, post = polls ++ Event.cmd f :: rest ∧ AllPolls polls ∧ (cmdIdx f = 41 ∨ cmdIdx f = 23)

/-- Every CMD55 is followed by its application command, or by nothing but polls (the call
ended there).  Same body as `Sdmmc.Props.C14.After55`. -/
def After55 (evs : List Event) : Prop :=
  ∀ pre f post, evs = pre ++ Event.cmd f :: post → cmdIdx f = 55 → NextIsAcmd post ∨ AllPolls post

/-- Every CMD55 is followed by its application command.  Same body as `Sdmmc.Props.C14.Closed55`. -/
def Closed55 (evs : List Event) : Prop :=
  ∀ pre f post, evs = pre ++ Event.cmd f :: post → cmdIdx f = 55 → NextIsAcmd post

def No55 (evs : List Event) : Prop := ∀ f, Event.cmd f ∈ evs → cmdIdx f ≠ 55

instance : Local No55 where
  nil := by simp [No55]
  single e he := by intro f hf; simp at hf; exact absurd hf.symm (he f)
  append a b ha hb := by
    intro f hf
    rcases List.mem_append.mp hf with h | h
    · exact ha f h
    · exact hb f h

theorem NextIsAcmd.append {post : List Event} (h : NextIsAcmd post) (x : List Event) : NextIsAcmd (post ++ x) := by
  obtain ⟨polls, f, rest, rfl, h1, h2⟩ := h
  exact ⟨polls, f, rest ++ x, by simp, h1, h2⟩

theorem Closed55.of_no55 {evs : List Event} (h : No55 evs) : Closed55 evs := by
  intro pre f post he hf
  exact absurd hf (h f (by rw [he]; simp))

theorem Closed55.after {evs : List Event} (h : Closed55 evs) : After55 evs :=
  fun pre f post he hf => Or.inl (h pre f post he hf)

theorem Closed55.append {a b : List Event} (ha : Closed55 a) (hb : Closed55 b) : Closed55 (a ++ b) := by
  intro pre f post he hf
  rcases split_append he with ⟨a', rfl, h2⟩ | ⟨b', rfl, h2⟩
  · exact hb a' f post h2 hf
  · exact (ha pre f b' h2 hf).append b

theorem After55.append {a b : List Event} (ha : Closed55 a) (hb : After55 b) : After55 (a ++ b) := by
  intro pre f post he hf
  rcases split_append he with ⟨a', rfl, h2⟩ | ⟨b', rfl, h2⟩
  · exact hb a' f post h2 hf
  · exact Or.inl ((ha pre f b' h2 hf).append b)

theorem After55.append_polls {a b : List Event} (ha : After55 a) (hb : AllPolls b) : After55 (a ++ b) := by
  intro pre f post he hf
  rcases split_append he with ⟨a', rfl, h2⟩ | ⟨b', rfl, h2⟩
  · exact (no_cmd_in_polls hb h2).elim
  · rcases ha pre f b' h2 hf with h | h
    · exact Or.inl (h.append b)
    · exact Or.inr (by simp [h, hb])

theorem Closed55.append_polls {a b : List Event} (ha : Closed55 a) (hb : AllPolls b) : Closed55 (a ++ b) := by
  intro pre f post he hf
  rcases split_append he with ⟨a', rfl, h2⟩ | ⟨b', rfl, h2⟩
  · exact (no_cmd_in_polls hb h2).elim
  · exact (ha pre f b' h2 hf).append b

/-- The result-aware predicate: always `After55`, and `Closed55` when the computation succeeded. -/
def AcmdP {α : Type} (r : SRes α) (evs : List Event) : Prop :=
  After55 evs ∧ ((∃ a, r = .ok a) → Closed55 evs)

def Acmd (m : S σ α) : Prop := Tr m AcmdP

namespace Acmd

theorem of_no55 {m : S σ α} (h : Emits No55 m) : Acmd m :=
  h.conseq fun _ _ hn => ⟨(Closed55.of_no55 hn).after, fun _ => Closed55.of_no55 hn⟩

theorem pure (a : α) : Acmd (pure a : S σ α) := of_no55 (Emits.pure a)
theorem fail (e : SdErr) : Acmd (S.fail e : S σ α) := of_no55 (Emits.fail e)
theorem failUninit (e : SdErr) : Acmd (failUninit e : S σ α) := of_no55 (Emits.failUninit e)
theorem lift (r : SRes α) : Acmd (S.lift r : S σ α) := of_no55 (Emits.lift r)
theorem get : Acmd (S.get : S σ (St σ)) := of_no55 Emits.get

theorem bind {m : S σ α} {f : α → S σ β} (hm : Acmd m) (hf : ∀ a, Acmd (f a)) : Acmd (m >>= f) :=
  (Tr.bind hm hf).conseq fun r evs h => by
    rcases h with ⟨a, e1, e2, rfl, h1, h2⟩ | ⟨e, rfl, h⟩ | ⟨p, rfl, h⟩
    · have hc := h1.2 ⟨a, rfl⟩
      exact ⟨After55.append hc h2.1, fun hr => Closed55.append hc (h2.2 hr)⟩
    · exact ⟨h.1, fun ⟨_, hr⟩ => by cases hr⟩
    · exact ⟨h.1, fun ⟨_, hr⟩ => by cases hr⟩

theorem ite {c : Prop} [Decidable c] {m1 m2 : S σ α} (h1 : Acmd m1) (h2 : Acmd m2) :
    Acmd (if c then m1 else m2) := by split <;> assumption

end Acmd

/-- `card_acmd` of ACMD41 / ACMD23: the CMD55 is followed by the application command whenever
the whole thing succeeds; if it fails, nothing but polls follows the CMD55. -/
theorem cardAcmd_acmd (c arg : Nat) (hc : c = ACMD41 ∨ c = ACMD23) : Acmd (cardAcmd B c arg) :=
  (cardAcmd_tr B c arg).conseq fun r evs ⟨h, _⟩ => by
    have hlt : c < 64 := by rcases hc with rfl | rfl <;> decide
    have hidx : c = 41 ∨ c = 23 := by rcases hc with rfl | rfl <;> simp [ACMD41, ACMD23]
    have h55 : c ≠ 55 := by omega
    rcases h with ⟨r1, e1, e2, rfl, h1, h2⟩ | ⟨⟨e, rfl⟩, r1, h1⟩
    · -- CMD55 answered
      rcases h1 with ⟨pre0, post0, k1, k2, rfl, _⟩ | ⟨_, _, _, e, he⟩
      · rcases h2 with ⟨pre2, post2, j1, j2, rfl, _⟩ | ⟨j1, _, _, e, rfl⟩
        · -- both frames sent
          have hcl : Closed55 ((pre0 ++ Event.cmd (frame CMD55 0) :: post0) ++
              (pre2 ++ Event.cmd (frame c arg) :: post2)) := by
            intro pre f post he hf
            rcases split_append he with ⟨a', rfl, he2⟩ | ⟨b', rfl, he1⟩
            · obtain ⟨_, hf2, _⟩ := cmd_in_polls j1 j2 he2
              rw [hf2, cmdIdx_frame c arg hlt] at hf
              exact absurd hf h55
            · obtain ⟨_, _, hb⟩ := cmd_in_polls k1 k2 he1
              subst hb
              exact ⟨b' ++ pre2, frame c arg, post2, by simp, by simp [k2, j1],
                by rw [cmdIdx_frame c arg hlt]; exact hidx⟩
          exact ⟨hcl.after, fun _ => hcl⟩
        · -- the application command's busy wait failed
          refine ⟨?_, fun ⟨_, hr⟩ => by cases hr⟩
          have h0 : After55 (pre0 ++ Event.cmd (frame CMD55 0) :: post0) := by
            intro pre f post he hf
            obtain ⟨_, _, hb⟩ := cmd_in_polls k1 k2 he
            subst hb; exact Or.inr k2
          exact h0.append_polls j1
      · cases he
    · -- CMD55 failed
      refine ⟨?_, fun ⟨_, hr⟩ => by cases hr⟩
      rcases h1 with ⟨pre0, post0, k1, k2, rfl, _⟩ | ⟨k1, _⟩
      · intro pre f post he hf
        obtain ⟨_, _, hb⟩ := cmd_in_polls k1 k2 he
        subst hb; exact Or.inr k2
      · intro pre f post he hf
        exact (no_cmd_in_polls k1 he).elim

/-- Apply the structural rules of `Acmd` and the given facts about sub-computations. -/
syntax "acmd_tac" "[" term,* "]" : tactic
macro_rules
  | `(tactic| acmd_tac [$ts,*]) =>
    `(tactic| (
        try dsimp only
        repeat (with_reducible first
          | exact Acmd.pure _ | exact Acmd.fail _ | exact Acmd.failUninit _ | exact Acmd.lift _ | exact Acmd.get
          $[| exact $ts]*
          | apply Acmd.bind
          | apply Acmd.ite
          | intro _
          | split
          | contradiction)))

theorem cardCommand_no55 (c arg : Nat) (hc : c ∈ plainCmds) : Emits No55 (cardCommand B c arg) :=
  (cardCommand_tr B c arg).conseq fun _ evs ⟨h, _⟩ => by
    intro f hf
    obtain ⟨pre, post, he⟩ := List.append_of_mem hf
    rw [(cmdChunk_split h he).1, cmdIdx_frame c arg (plainCmds_lt hc)]
    exact (plainCmds_not_acmd hc).2.2

theorem waitReadyStep_acmd (arg : Nat) (next : Option (S σ Unit)) (hn : ∀ k, next = some k → Acmd k) :
    Acmd (waitReadyStep B arg next) := by
  cases next with
  | none => unfold waitReadyStep; acmd_tac [cardAcmd_acmd B _ _ (Or.inl rfl)]
  | some k =>
    have := hn k rfl
    unfold waitReadyStep
    acmd_tac [cardAcmd_acmd B _ _ (Or.inl rfl), Acmd.of_no55 (delayTick_emits B), this]

theorem waitReady_acmd (arg n : Nat) : Acmd (waitReady B arg n) := by
  induction n with
  | zero => unfold waitReady; exact waitReadyStep_acmd B arg none (by simp)
  | succ n ih =>
    unfold waitReady
    exact waitReadyStep_acmd B arg _ (fun k hk => by cases hk; exact ih)

theorem acquireBody_acmd : Acmd (acquireBody B) := by
  rw [acquireBody_eq]
  have h1 : ∀ n, Acmd (enterSpiMode B n) := fun n => Acmd.of_no55 (enterSpiMode_emits B (cardCommand_no55 B) n)
  have h2 : Acmd (cardCommand B CMD59 1) := Acmd.of_no55 (cardCommand_no55 B _ _ (by decide))
  have h3 : Acmd (cardCommand B CMD58 0) := Acmd.of_no55 (cardCommand_no55 B _ _ (by decide))
  have h4 : ∀ n, Acmd (checkVersion B n) := fun n => Acmd.of_no55 (checkVersion_emits B (cardCommand_no55 B) n)
  have h5 : Acmd (xferEv B (.dataIn 4)) := Acmd.of_no55 (xferEv_emits B (.dataIn _) (by simp))
  have h6 : ∀ ct, Acmd (setCardType ct : S σ Unit) := fun ct => Acmd.of_no55 (setCardType_emits ct)
  acmd_tac [h1 _, h2, h3, h4 _, waitReady_acmd B _ _, h5, h6 _]

/-- `attempt m`, then something that only polls and succeeds only if `m` did. -/
theorem Acmd.attempt_bind_polls {m : S σ α} {g : SRes α → S σ β} (hm : Acmd m)
    (hg : ∀ r, Tr (g r) (fun r' evs => AllPolls evs ∧ ((∃ b, r' = .ok b) → ∃ a, r = .ok a))) :
    Acmd (S.attempt m >>= g) :=
  (Tr.bind (Tr.attempt hm) hg).conseq fun r evs h => by
    rcases h with ⟨r0, e1, e2, rfl, ⟨_, h0, h1⟩, h2⟩ | ⟨e, rfl, _, h, _⟩ | ⟨p, rfl, _, h, _⟩
    · cases h0
      exact ⟨h1.1.append_polls h2.1, fun hr => (h1.2 (h2.2 hr)).append_polls h2.1⟩
    · cases h
    · cases h

theorem acquire_acmd : Acmd (acquire B) := by
  rw [acquire_eq]
  refine Acmd.attempt_bind_polls (acquireBody_acmd B) fun r => ?_
  refine (Tr.bind (Tr.attempt (readByte_polls B)) fun t => (?_ : Tr _ (fun r' evs => evs = [] ∧
    ((∃ b, r' = .ok b) → ∃ a, r = .ok a)))).conseq ?_
  · cases r with
    | ok u =>
      cases t with
      | ok g => exact (Tr.pure ()).conseq fun _ _ h => ⟨h.2, fun _ => ⟨_, rfl⟩⟩
      | err e => exact fun s => ⟨[], by simp, rfl, rfl, rfl, fun ⟨_, h⟩ => by simp at h⟩
      | panic p => exact (Tr.lift _).conseq fun _ _ h => ⟨h.2, fun _ => ⟨_, rfl⟩⟩
    | err e => exact fun s => ⟨[], by simp, rfl, rfl, rfl, fun ⟨_, h⟩ => by simp at h⟩
    | panic p => exact (Tr.lift _).conseq fun _ _ h => ⟨h.2, fun ⟨_, hb⟩ => by rw [h.1] at hb; cases hb⟩
  · rintro r' evs (⟨t, e1, e2, rfl, ⟨_, h0, h1⟩, rfl, h2⟩ | ⟨e, rfl, _, h, _⟩ | ⟨p, rfl, _, h, _⟩)
    · exact ⟨by simpa using h1.1, h2⟩
    · cases h
    · cases h

theorem checkInit_acmd : Acmd (checkInit B) := by
  unfold checkInit
  acmd_tac [acquire_acmd B]

theorem write_acmd (blocks : List Bytes) (idx : Nat) : Acmd (write B blocks idx) := by
  unfold write
  have h1 : ∀ a, Acmd (cardCommand B CMD24 a) := fun a => Acmd.of_no55 (cardCommand_no55 B _ _ (by decide))
  have h2 : ∀ a, Acmd (cardCommand B CMD25 a) := fun a => Acmd.of_no55 (cardCommand_no55 B _ _ (by decide))
  have h3 : Acmd (cardCommand B CMD13 0) := Acmd.of_no55 (cardCommand_no55 B _ _ (by decide))
  have h4 : ∀ n, Acmd (waitNotBusy B n) := fun n => Acmd.of_no55 (waitNotBusy_emits B n)
  have h5 : ∀ t b, Acmd (writeData B t b) := fun t b => Acmd.of_no55 (writeData_emits B t b)
  have h7 : Acmd (readByte B) := Acmd.of_no55 (readByte_emits B)
  refine Acmd.bind Acmd.get fun s => Acmd.bind (Acmd.lift _) fun start => ?_
  split
  · acmd_tac [h1 _, h3, h4 _, h5 _ _, h7]
  · refine Acmd.bind (cardAcmd_acmd B _ _ (Or.inr rfl)) fun _ => Acmd.bind (h4 _) fun _ =>
      Acmd.bind (h2 _) fun _ => Acmd.of_no55 ?_
    emits [writeBlocks_emits B _, waitNotBusy_emits B _, writeByte_emits B _, readByte_emits B]

/-- Same body as `Sdmmc.Props.C14.AcmdFollowed`. -/
def AcmdFollowed (c : Call) (r : SRes Answer) (evs : List Event) : Prop :=
  After55 evs ∧ (c ≠ .cardType → (∃ a, r = .ok a) → Closed55 evs)

theorem call_acmd (c : Call) (s : St σ) : AcmdFollowed c (call B c s).1 (evsNew s (call B c s).2) := by
  have hread : ∀ n idx, Acmd (Sd.read B n idx) := fun n idx => Acmd.of_no55 (read_emits B (cardCommand_no55 B) n idx)
  have hcsd : Acmd (readCsd B) := Acmd.of_no55 (readCsd_emits B (cardCommand_no55 B))
  cases c with
  | read n idx =>
    have : Acmd (call B (.read n idx)) := by unfold call; acmd_tac [checkInit_acmd B, hread _ _]
    exact ⟨(this s).evsNew.1, fun _ => (this s).evsNew.2⟩
  | write blocks idx =>
    have : Acmd (call B (.write blocks idx)) := by unfold call; acmd_tac [checkInit_acmd B, write_acmd B _ _]
    exact ⟨(this s).evsNew.1, fun _ => (this s).evsNew.2⟩
  | numBlocks =>
    have : Acmd (call B .numBlocks) := by unfold call numBlocks; acmd_tac [checkInit_acmd B, hcsd]
    exact ⟨(this s).evsNew.1, fun _ => (this s).evsNew.2⟩
  | numBytes =>
    have : Acmd (call B .numBytes) := by unfold call numBytes; acmd_tac [checkInit_acmd B, hcsd]
    exact ⟨(this s).evsNew.1, fun _ => (this s).evsNew.2⟩
  | cardType =>
    refine ⟨?_, fun h => absurd rfl h⟩
    have : Tr (call B .cardType) (fun _ evs => After55 evs) := by
      unfold call
      refine (Tr.bind (Tr.attempt (checkInit_acmd B)) fun r => (?_ : Tr _ (fun _ evs => evs = []))).conseq ?_
      · cases r with
        | ok u =>
          refine (Tr.bind (P := fun _ evs => evs = []) (fun s => ⟨[], by simp⟩) fun _ => Tr.pure _).conseq ?_
          rintro r evs (⟨_, e1, e2, rfl, rfl, _, rfl⟩ | ⟨_, _, h⟩ | ⟨_, _, h⟩)
          · rfl
          · exact h
          · exact h
        | err e => exact (Tr.pure _).conseq fun _ _ h => h.2
        | panic p => exact (Tr.lift _).conseq fun _ _ h => h.2
      · rintro r' evs (⟨t, e1, e2, rfl, ⟨_, h0, h1⟩, rfl⟩ | ⟨e, rfl, _, h, _⟩ | ⟨p, rfl, _, h, _⟩)
        · simpa using h1.1
        · cases h
        · cases h
    exact (this s).evsNew
  | markUninit =>
    have : Acmd (call B .markUninit) := by
      unfold call; exact Acmd.of_no55 (fun _ => ⟨[], by simp, rfl, rfl, Local.nil⟩)
    exact ⟨(this s).evsNew.1, fun _ => (this s).evsNew.2⟩

end Sdmmc.Lemmas.Sd
