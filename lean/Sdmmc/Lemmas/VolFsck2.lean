/-
Bridge `VolInv` → `Spec.Fs.fsck`, layer F2: the checker's directory slots are, slot by slot, the slots the
invariant speaks of (`cv`), the field readers agree, and so do the derived lists (`liveSlots`/`live`,
`objects`/`entries` minus labels) and the pending state (`effective`/`effCluster`,`effSize`).
-/
import Sdmmc.Lemmas.VolFsck

namespace Sdmmc.Lemmas.VolFsck
open Sdmmc.Model Sdmmc.Model.Fat Sdmmc.Spec Sdmmc.Spec.Volume
open Sdmmc.Lemmas.VolTree Sdmmc.Lemmas.VolMed Sdmmc.Lemmas.VolBase

/-! ### Slots -/

/-- A slot of the checker as a slot of the invariant. -/
def cv (s : Fs.Slot) : Slot := (s.blk, s.off, s.bytes)

theorem cv_blockSlots (d : Disk) (blk : Nat) : (Fs.blockSlots d blk).map cv = blockSlots blk (d.get blk) := by
  unfold Fs.blockSlots blockSlots
  simp only [List.map_map]
  rfl

theorem map_flatten_map {α β γ : Type} (f : β → γ) (k : α → List β) (l : List α) :
    ((l.map k).flatten).map f = l.flatMap fun a => (k a).map f := by
  induction l with
  | nil => rfl
  | cons a l ih => simp [ih]

/-- The checker's slots of the blocks `b .. b+n-1`. -/
theorem cv_run (d : Disk) (b n : Nat) :
    (((List.range n).map fun j => Fs.blockSlots d (b + j)).flatten).map cv = runSlots d b n := by
  rw [map_flatten_map]
  unfold runSlots
  congr 1

theorem clusterBlock_eq {v : FatVolume} {g : Fs.Geom} (hg : GeomOf v g) (hw : WFGeom v) {c : Nat} (hc : InRange v c) :
    Fs.clusterBlock g c = clusterToBlock v c := by
  rw [FatLens.clusterToBlock_ordinary v c (FatLens.lt_end_ne_root v hw c hc.2)]
  unfold Fs.clusterBlock
  rw [hg.firstData, hg.bpc]

/-- The checker's slots of the clusters `cs`. -/
def fsChainSlots (g : Fs.Geom) (d : Disk) (cs : List Nat) : List Fs.Slot :=
  (cs.map fun c => ((List.range g.bpc).map fun j => Fs.blockSlots d (Fs.clusterBlock g c + j)).flatten).flatten

def fsRootSlots (g : Fs.Geom) (d : Disk) : List Fs.Slot :=
  ((List.range g.rootBlocks).map fun i => Fs.blockSlots d (g.rootStart + i)).flatten

theorem cv_chainSlots {v : FatVolume} {g : Fs.Geom} (hg : GeomOf v g) (hw : WFGeom v) (d : Disk) {cs : List Nat}
    (hcs : ∀ c, c ∈ cs → InRange v c) : (fsChainSlots g d cs).map cv = chainSlots v d cs := by
  unfold fsChainSlots chainSlots
  rw [map_flatten_map]
  apply List.flatMap_congr
  intro c hc
  rw [cv_run, clusterBlock_eq hg hw (hcs c hc), hg.bpc]

theorem cv_rootSlots {v : FatVolume} {g : Fs.Geom} (hg : GeomOf v g) (d : Disk) :
    (fsRootSlots g d).map cv = fixedRootSlots v d := by
  unfold fsRootSlots fixedRootSlots
  rw [cv_run, hg.rootStart, hg.rootBlocks]

/-- The checker's name for directory number `h`. -/
def refOf (v : FatVolume) (h : Nat) : Fs.DirRef := if isFixedRoot v h then .fixedRoot else .at (dirHead v h)

/-- The checker's slots of directory number `h`. -/
def fsDirSlots (v : FatVolume) (g : Fs.Geom) (d : Disk) (G : List (List Nat)) (h : Nat) : List Fs.Slot :=
  if isFixedRoot v h then fsRootSlots g d else fsChainSlots g d (chainOf G (dirHead v h))

theorem rootRef_eq {v : FatVolume} {g : Fs.Geom} (hg : GeomOf v g) : Fs.rootRef g = refOf v 0 := by
  unfold Fs.rootRef refOf isFixedRoot dirHead
  cases hf : g.fat32 with
  | true => have := hg.fat32.1 hf; simp [this, hg.rootCluster]
  | false => have := hg.fat32_false.1 hf; simp [this]

section
variable {s : Mgr} {gh : Ghost} {g : Fs.Geom} {fat : Array Nat}

/-- **F2.** The checker lists every directory of the tree, and sees the slots the invariant speaks of. -/
theorem dirSlotsT_ok (hI : VolInv s gh) (hg : GeomOf gh.vol g) (hfat : FatIs gh.vol s.dev.disk fat)
    (h1 : NoOne gh.vol s.dev.disk) {h : Nat} (hh : h ∈ dirIds gh.dirs) :
    Fs.dirSlotsT g s.dev.disk fat (refOf gh.vol h) =
        .ok (fsDirSlots gh.vol g s.dev.disk gh.G h, dirChain gh.vol gh.G h) ∧
      (fsDirSlots gh.vol g s.dev.disk gh.G h).map cv = dirSlots gh.vol s.dev.disk gh.G h := by
  have hM := medX_of_med hI.med
  unfold refOf fsDirSlots dirChain
  by_cases hf : isFixedRoot gh.vol h
  · rw [if_pos hf, if_pos hf, if_pos hf, dirSlots_fixed hf]
    exact ⟨rfl, cv_rootSlots hg _⟩
  · rw [if_neg hf, if_neg hf, if_neg hf, dirSlots_chain hf]
    obtain ⟨hm, hhd⟩ := dirChain_spec hM hh hf
    have hch := med_chain hM hm
    rw [headD_of_head? hhd] at hch
    refine ⟨?_, cv_chainSlots hg hI.med.geom _ (fun c hc => med_inRange hM hm hc)⟩
    unfold Fs.dirSlotsT
    simp only [chainT_of_chain hg hI.med.geom hfat h1 hch]
    rfl

end

/-! ### Fields -/

theorem firstByte_cv (s : Fs.Slot) : Fs.firstByte s = first (cv s) := rfl
theorem attrOf_cv (s : Fs.Slot) : Fs.attrOf s = sAttr (cv s) := rfl
theorem isLfn_cv (s : Fs.Slot) : Fs.isLfnSlot s = isFrag (cv s) := rfl
theorem isDir_cv (s : Fs.Slot) : Fs.isDirSlot s = isDirE (cv s) := rfl
theorem nameOf_cv (s : Fs.Slot) : Fs.nameOf s = sName (cv s) := rfl
theorem rd16_eq (b : Bytes) (o : Nat) : Fs.rd16 b o = readU16 b o := rfl
theorem rd32_eq (b : Bytes) (o : Nat) : Fs.rd32 b o = readU32 b o := by
  unfold Fs.rd32 readU32
  rw [rd16_eq, rd16_eq]
  unfold readU16
  have : o + 2 + 1 = o + 3 := rfl
  rw [this]
  omega
theorem sizeOf_cv (s : Fs.Slot) : Fs.sizeOf s = sSize (cv s) := rd32_eq _ _
theorem clusterOf_cv {v : FatVolume} {g : Fs.Geom} (hg : GeomOf v g) (s : Fs.Slot) :
    Fs.clusterOf g s = sCluster v.fatType (cv s) := by
  unfold Fs.clusterOf sCluster
  cases hf : g.fat32 with
  | true => rw [hg.fat32.1 hf]; rfl
  | false => rw [hg.fat32_false.1 hf]; rfl

/-- A volume-label entry (the checker skips those). -/
def isLabel (o : Slot) : Bool := decide (sAttr o / 8 % 2 = 1) && !isFrag o

theorem isLabel_cv (s : Fs.Slot) : Fs.isLabelSlot s = isLabel (cv s) := rfl

theorem dotName_eq : Fs.dotName = Sfn.thisDir := rfl
theorem dotDotName_eq : Fs.dotDotName = Sfn.parentDir := rfl

/-! ### Derived lists -/

theorem liveSlots_cv (ss : List Fs.Slot) : (Fs.liveSlots ss).map cv = live (ss.map cv) := by
  unfold Fs.liveSlots live beforeEnd
  rw [List.takeWhile_map, List.filter_map]
  rfl

/-- The checker's objects: the live short entries that are not labels. -/
theorem objects_cv (ss : List Fs.Slot) : (Fs.objects ss).map cv = (entries (ss.map cv)).filter fun o => !isLabel o := by
  unfold Fs.objects entries
  rw [← liveSlots_cv, List.filter_map, List.filter_map, List.filter_filter]
  congr 1
  apply List.filter_congr
  intro x _
  simp only [Function.comp, isLfn_cv, isLabel_cv]
  cases isFrag (cv x) <;> simp

theorem dropWhile_cv (ss : List Fs.Slot) :
    (ss.dropWhile fun s => decide (Fs.firstByte s ≠ 0)).map cv = (ss.map cv).dropWhile fun s => decide (first s ≠ 0) := by
  rw [List.dropWhile_map]
  rfl

/-! ### Pending state -/

theorem effective_cv {v : FatVolume} {g : Fs.Geom} (hg : GeomOf v g) (s : Mgr) (x : Fs.Slot) :
    Fs.effective g (pendingOf s) x = (effCluster v.fatType s.files (cv x), effSize s.files (cv x)) := by
  unfold Fs.effective pendingOf effCluster effSize pendOf
  rw [List.find?_map]
  have : ((fun (p : Fs.Pending) => decide (p.blk = x.blk ∧ p.off = x.off)) ∘ fun (f : FileInfo) =>
        ({ blk := f.entry.entryBlock, off := f.entry.entryOffset, cluster := f.entry.cluster, size := f.entry.size } : Fs.Pending)) =
      fun f => decide (f.entry.entryBlock = (cv x).1 ∧ f.entry.entryOffset = (cv x).2.1) := rfl
  rw [this]
  cases List.find? (fun f => decide (f.entry.entryBlock = (cv x).1 ∧ f.entry.entryOffset = (cv x).2.1)) s.files with
  | none => simp only [Option.map_none]; rw [clusterOf_cv hg, sizeOf_cv]
  | some f => rfl

end Sdmmc.Lemmas.VolFsck
