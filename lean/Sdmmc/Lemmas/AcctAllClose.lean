/-
C16 over all calls, part 8 — `close_volume` at the end of a history and the next mount
(`close_remount`): the record mounting reads is the in-memory record at the close, normalised.
-/
import Sdmmc.Lemmas.AcctAllStep
import Sdmmc.Lemmas.AcctAllMount
import Sdmmc.Lemmas.AcctClose

namespace Sdmmc.Lemmas.AcctAll
open Sdmmc.Model Sdmmc.Model.Fat Sdmmc.Spec.Volume
open Sdmmc.Spec hiding NoFault Coherent run step
open Sdmmc.Lemmas.VolApi Sdmmc.Lemmas.MHoare
open Sdmmc.Lemmas.Acct (normCount storedPair)

/-- `MountSame` only looks at the geometry of the volume record. -/
theorem MountSame.sameGeom {v v' : FatVolume} (h : SameGeom v v') {d d' : Disk} (hm : MountSame v d d') : MountSame v' d d' := by
  obtain ⟨a, b, rfl⟩ := h
  exact hm

/-- **`close_volume` answering `Ok`, then a mount.**  `s` satisfies the volume invariant, its volume is FAT32
and in balance (`CountOK δ`, `DeltaOK`), the in-memory hint fits 32 bits; the medium of `s` mounts (as `w`, with
the geometry of the volume).  If `close_volume vol` answers `Ok`, then afterwards: no volume is open; the FAT is
untouched; and mounting the medium gives a record `w'` of the same geometry whose free count is the in-memory
count at the close, normalised (`0xFFFFFFFF` reads as unknown) — or, when that was unknown, what `w` had. -/
theorem close_remount {s : Mgr} {gh : Ghost} {δ : Int} (hI : VolInv s gh) (hcnt : CountOK δ s) (hd : DeltaOK gh.vol δ)
    (h32 : gh.vol.fatType = .fat32) (idx : Nat) (w : FatVolume)
    (hm : mountPure (s.dev.disk.get 0) idx s.dev.disk.get = .ok w) (hsg : SameGeom w gh.vol)
    (hfit : ∀ vi, vi ∈ s.vols → ∀ n, vi.vol.nextFreeCluster = some n → n < 4294967296)
    (vol : Nat) (hok : (closeVolume vol s).1 = .ok ()) :
    ∃ w' v, s.vols = [v] ∧ v.vol = gh.vol ∧
      mountPure ((closeVolume vol s).2.dev.disk.get 0) idx (closeVolume vol s).2.dev.disk.get = .ok w' ∧
      SameGeom gh.vol w' ∧ (closeVolume vol s).2.vols = [] ∧
      (∀ c, c < endCluster gh.vol → (closeVolume vol s).2.dev.disk.get (fatBlock gh.vol c) = s.dev.disk.get (fatBlock gh.vol c)) ∧
      (∀ b, IsFatBlock gh.vol b → (closeVolume vol s).2.dev.disk.get b = s.dev.disk.get b) ∧
      (∀ n, v.vol.freeClustersCount = some n → w'.freeClustersCount = normCount n) ∧
      (v.vol.freeClustersCount = none → w'.freeClustersCount = w.freeClustersCount) := by
  obtain ⟨hfiles, hdirs⟩ := Acct.closeVolume_ok_inv s vol hok
  -- the volume handle resolves
  cases hv : s.vols.findIdx? (·.rawVolume = vol) with
  | none =>
    exfalso
    unfold closeVolume at hok
    rw [get_bind, hfiles, hdirs] at hok
    simp only [Bool.false_eq_true, if_false] at hok
    rw [bind_err (getVolumeById_bad hv)] at hok
    cases hok
  | some volIdx =>
    obtain ⟨h0, v, hvs, hvol, _⟩ := vol_of_handle hI hv
    subst h0
    have hvi : s.vols[0]? = some v := by rw [hvs]; rfl
    obtain ⟨s1, hrun, hs1, _, hoth, hinfo⟩ :=
      Acct.closeVolume_spec s vol 0 v ⟨hI.noFault, hI.coherent, hI.med.blocksOK, hI.unlocked⟩ hfiles hdirs hv hvi
    rw [hrun]
    simp only
    have hg := hI.med.geom
    have h32w : w.fatType = .fat32 := by rw [hsg.fatType] at h32; exact h32
    have hlba : w.lbaStart = gh.vol.lbaStart := by obtain ⟨a, b, e⟩ := hsg; rw [e]
    have hiloc : w.infoLocation = gh.vol.infoLocation := by obtain ⟨a, b, e⟩ := hsg; rw [e]
    have hinfoReg : regionOf gh.vol gh.vol.infoLocation = .info :=
      FatLens.info_block_in_info_region gh.vol hg h32 (Reopen.fatStart_le_numBlocks gh.vol hg)
    obtain ⟨_, _, _, h4, _⟩ := FatLens.geom_facts gh.vol hg
    obtain ⟨hi1, hi2⟩ := h4 h32
    have hfatS : ∀ b, IsFatBlock gh.vol b → s1.dev.disk.get b = s.dev.disk.get b := by
      intro b hb
      apply hoth
      rw [hvol]
      intro e
      have := WriteRefines.isFatBlock_region hg hb
      rw [e, hinfoReg] at this; cases this
    have hvols1 : s1.vols = [] := by rw [hs1, hvs]; rfl
    have h0' : s1.dev.disk.get 0 = s.dev.disk.get 0 := by
      apply hoth; rw [hvol]; omega
    have hboot : s1.dev.disk.get w.lbaStart = s.dev.disk.get w.lbaStart := by
      apply hoth; rw [hvol, hlba]; omega
    -- the count fits 32 bits
    have hcfit : ∀ n, v.vol.freeClustersCount = some n → n < 4294967296 := by
      intro n hn
      have hb := hcnt v (by rw [hvs]; exact List.mem_singleton.2 rfl) n hn
      have hle := ForestCount.freeCount_le v.vol s.dev.disk
      have h2 : (endCluster gh.vol : Int) - δ ≤ 4294967295 := hd.2
      rw [hvol] at hle
      rw [hvol] at hb
      omega
    have hhfit : ∀ n, v.vol.nextFreeCluster = some n → n < 4294967296 :=
      hfit v (by rw [hvs]; exact List.mem_singleton.2 rfl)
    by_cases hcase : v.vol.fatType = .fat32 ∧ ¬ (v.vol.freeClustersCount = none ∧ v.vol.nextFreeCluster = none)
    · rw [if_pos hcase] at hinfo
      have hmnt := Acct.mount_after_info s.dev.disk s1.dev.disk idx w v.vol hm h32w (hI.med.blocksOK _) h0' hboot
        (by rw [hiloc, ← hvol]; exact hinfo) hcfit hhfit
      refine ⟨_, v, hvs, hvol, hmnt, ?_, hvols1, fun c hc => hfatS _ ⟨c, hc, .inl rfl⟩, hfatS, ?_, ?_⟩
      · obtain ⟨a, b, e⟩ := hsg
        exact ⟨_, _, by rw [e]⟩
      · intro n hn
        show (storedPair v.vol.freeClustersCount v.vol.nextFreeCluster w.freeClustersCount w.nextFreeCluster).1 = _
        unfold storedPair
        rw [hn]
      · intro hn
        show (storedPair v.vol.freeClustersCount v.vol.nextFreeCluster w.freeClustersCount w.nextFreeCluster).1 = _
        unfold storedPair
        rw [hn]
    · rw [if_neg hcase] at hinfo
      have hsame : ∀ b, s1.dev.disk.get b = s.dev.disk.get b := by
        intro b
        by_cases hb : b = v.vol.infoLocation
        · rw [hb]; exact hinfo
        · exact hoth b hb
      have hmnt : mountPure (s1.dev.disk.get 0) idx s1.dev.disk.get = .ok w := by
        have : s1.dev.disk.get = s.dev.disk.get := funext hsame
        rw [this]; exact hm
      have hnone : v.vol.freeClustersCount = none := by
        have h32v : v.vol.fatType = .fat32 := by rw [hvol]; exact h32
        cases hc : v.vol.freeClustersCount with
        | none => rfl
        | some n => exact absurd ⟨h32v, fun h => by rw [hc] at h; cases h.1⟩ hcase
      refine ⟨w, v, hvs, hvol, hmnt, hsg.symm, hvols1, fun c hc => hfatS _ ⟨c, hc, .inl rfl⟩, hfatS, ?_, fun _ => rfl⟩
      intro n hn
      rw [hnone] at hn; cases hn

end Sdmmc.Lemmas.AcctAll
