/-
C11 under the invariant, part 3 — what survives of the directories on a medium a failed call leaves (`DirsInv`):
every directory's chain is still its chain, its slot list has a clean tail, PAIRWISE DISTINCT NAMES and intact dot
entries.  It follows from the invariant (`dirsInv_of_med`) and is kept by every change of the medium that touches
no FAT entry of a directory's cluster and no block holding a directory slot (`DirsInv.within`).
Also: the fault schedule as a parameter of manager states (`withFaults`), engine states under it (`fsOf_withFaults`).
-/
import Sdmmc.Lemmas.FaultPreFat
import Sdmmc.Lemmas.VolApi
import Sdmmc.Lemmas.VolApiMkdir2
import Sdmmc.Lemmas.CrashData

namespace Sdmmc.Lemmas.FaultInv
open Sdmmc.Model Sdmmc.Model.Fat Sdmmc.Spec.Volume Sdmmc.Lemmas.VolBase Sdmmc.Lemmas.VolTree
open Sdmmc.Spec hiding NoFault Coherent
open Sdmmc.Lemmas.VolDisk Sdmmc.Lemmas.VolMed Sdmmc.Lemmas.VolApi
open Sdmmc.Lemmas.FBasic (NoFault Coherent)
open Sdmmc.Lemmas.CrashBase Sdmmc.Lemmas.Retry Sdmmc.Lemmas.FaultPre

/-! ### The directories on a medium -/

/-- **The directories of the ghost `gh` are sound on medium `d`.** -/
structure DirsInv (v : FatVolume) (d : Disk) (gh : Ghost) : Prop where
  geom : WFGeom v
  /-- every directory that is a chain has its chain in the record, and it is the chain of its first cluster -/
  mem : ∀ h, h ∈ dirIds gh.dirs → ¬ isFixedRoot v h → chainOf gh.G (dirHead v h) ∈ gh.G
  chain : ∀ h, h ∈ dirIds gh.dirs → ¬ isFixedRoot v h → Chain v d (dirHead v h) (chainOf gh.G (dirHead v h))
  /-- no entry follows the end-of-directory marker -/
  cleanTail : ∀ h, h ∈ dirIds gh.dirs → CleanTail (dirSlots v d gh.G h)
  /-- the names of the live short entries of a directory are pairwise distinct -/
  names : ∀ h, h ∈ dirIds gh.dirs → ((entries (dirSlots v d gh.G h)).map sName).Nodup
  /-- a sub-directory starts with `.` and `..` -/
  dots : ∀ h p, (h, p) ∈ gh.dirs → ∃ s0 s1 rest, dirSlots v d gh.G h = s0 :: s1 :: rest ∧
    IsDot v.fatType Sfn.thisDir h s0 ∧ IsDot v.fatType Sfn.parentDir p s1

section
variable {v : FatVolume} {d : Disk} {files : List FileInfo} {gh : Ghost} {X : List (List Nat)}

theorem dirsInv_of_med (hM : MedX v d files gh X) : DirsInv v d gh :=
  ⟨hM.geom, fun h hh hf => (dirChain_spec hM hh hf).1,
   fun h hh hf => by
     obtain ⟨hm, hhd⟩ := dirChain_spec hM hh hf
     have := med_chain hM hm
     rwa [headD_of_head? hhd] at this,
   hM.tree.cleanTail, hM.tree.names, hM.tree.dots⟩

/-- The directories survive a change of the medium that leaves the FAT entries of their clusters and the blocks
holding their slots alone. -/
theorem DirsInv.congr (h0 : DirsInv v d gh) {d' : Disk}
    (hfat : ∀ h, h ∈ dirIds gh.dirs → ¬ isFixedRoot v h → ∀ x, x ∈ chainOf gh.G (dirHead v h) → fatRaw v d' x = fatRaw v d x)
    (hblk : ∀ h, h ∈ dirIds gh.dirs → ∀ s, s ∈ dirSlots v d gh.G h → d'.get s.1 = d.get s.1) : DirsInv v d' gh := by
  have hsl : ∀ h, h ∈ dirIds gh.dirs → dirSlots v d' gh.G h = dirSlots v d gh.G h := fun h hh => dirSlots_congr (hblk h hh)
  refine ⟨h0.geom, h0.mem, fun h hh hf => chain_congr_raw (h0.chain h hh hf) (hfat h hh hf), ?_, ?_, ?_⟩
  · intro h hh; rw [hsl h hh]; exact h0.cleanTail h hh
  · intro h hh; rw [hsl h hh]; exact h0.names h hh
  · intro h p hp
    have hh : h ∈ dirIds gh.dirs := mem_dirIds.2 (.inr ⟨p, hp⟩)
    rw [hsl h hh]; exact h0.dots h p hp

theorem DirsInv.sameGeom (h0 : DirsInv v d gh) {v' : FatVolume} (hs : SameGeom v v') :
    DirsInv v' d { vol := v', G := gh.G, dirs := gh.dirs } := by
  have hfr : ∀ h, isFixedRoot v' h ↔ isFixedRoot v h := by
    intro h; unfold isFixedRoot; rw [hs.fatType]
  have hdh : ∀ h, dirHead v' h = dirHead v h := by
    intro h; obtain ⟨a, b, rfl⟩ := hs; rfl
  have hsl : ∀ h, dirSlots v' d gh.G h = dirSlots v d gh.G h := fun h => dirSlots_sameGeom hs d gh.G h
  refine ⟨SameGeom.wfGeom hs h0.geom, ?_, ?_, ?_, ?_, ?_⟩
  · intro h hh hf; rw [hdh]; exact h0.mem h hh (fun e => hf ((hfr h).2 e))
  · intro h hh hf; rw [hdh]
    exact ForestBase.chain_sameGeom hs (h0.chain h hh (fun e => hf ((hfr h).2 e)))
  · intro h hh; show CleanTail (dirSlots v' d gh.G h); rw [hsl]; exact h0.cleanTail h hh
  · intro h hh; show ((entries (dirSlots v' d gh.G h)).map sName).Nodup; rw [hsl]; exact h0.names h hh
  · intro h p hp
    show ∃ s0 s1 rest, dirSlots v' d gh.G h = _ ∧ _
    rw [hsl, hs.fatType]; exact h0.dots h p hp

/-- Where a directory slot lives: outside the FAT, and in no cluster outside the chains. -/
theorem dirSlot_place (hM : MedX v d files gh X) {h : Nat} (hh : h ∈ dirIds gh.dirs) {s : Slot}
    (hs : s ∈ dirSlots v d gh.G h) :
    regionOf v s.1 ≠ .fat ∧ ∀ c, InRange v c → c ∉ gh.G.flatten → ¬ InCluster v c s.1 := by
  refine ⟨fun e => ?_, fun c hc hcG hin => ?_⟩
  · rcases dirSlot_not_fat hM hh hs with h1 | h1 <;> rw [h1] at e <;> cases e
  · exact Sdmmc.Lemmas.VolEng.dirSlot_not_cluster hM hh hs hc hcG (j := s.1 - clusterToBlock v c) (by unfold InCluster at hin; omega)
      (by unfold InCluster at hin; omega)

/-- **The directories survive a change `Within`** touching only FAT entries of clusters outside the directories'
chains and only blocks that hold no directory slot. -/
theorem dirsInv_within (hM : MedX v d files gh X) {d' : Disk} {touched : List Nat} {dirty : Nat → Prop}
    (hw : Within v d d' touched dirty)
    (ht : ∀ h, h ∈ dirIds gh.dirs → ¬ isFixedRoot v h → ∀ x, x ∈ chainOf gh.G (dirHead v h) → x ∉ touched)
    (hd : ∀ h, h ∈ dirIds gh.dirs → ∀ s, s ∈ dirSlots v d gh.G h → ¬ dirty s.1) : DirsInv v d' gh := by
  refine (dirsInv_of_med hM).congr (fun h hh hf x hx => ?_) (fun h hh s hs => ?_)
  · have hm := (dirChain_spec hM hh hf).1
    exact hw.other x (med_inRange hM hm hx).2 (ht h hh hf x hx)
  · exact hw.nonFat _ (dirSlot_place hM hh hs).1 (hd h hh s hs)

/-- A medium that looks the same (FAT copy 1, all other blocks). -/
theorem dirsInv_view (hM : MedX v d files gh X) {d' : Disk} (hw : View v d d') : DirsInv v d' gh :=
  dirsInv_within hM (hw.within [] clean) (fun _ _ _ _ _ hm => by cases hm) (fun _ _ _ _ hd => hd)

end

/-! ### The fault schedule -/

/-- `s` with the fault schedule `L`. -/
def withFaults (L : List Nat) (s : Mgr) : Mgr := { s with dev := { s.dev with faults := L } }

theorem fsOf_withFaults (L : List Nat) (s : Mgr) (gh : Ghost) : fsOf (withFaults L s) gh = setFaults L (fsOf s gh) := rfl

theorem clr_setFaults (L : List Nat) (fs : FS) (hn : NoFault fs) : clr (setFaults L fs) = fs := by
  obtain ⟨dev, cache, vol⟩ := fs
  obtain ⟨disk, calls, faults, wlog, rlog, failed⟩ := dev
  have : faults = [] := hn
  subst this
  rfl

/-- The fault schedule is never changed. -/
def FaultsSame (s s' : FS) : Prop := s'.dev.faults = s.dev.faults
instance : Fault.RelOK FaultsSame := ⟨fun _ => rfl, fun h1 h2 => h2.trans h1⟩
instance : Fault.DevOnly FaultsSame := ⟨fun s s' h => by unfold FaultsSame; rw [h]⟩

theorem FaultsSame.cacheRead (i : Nat) : Fault.F.Inv FaultsSame (cacheRead i) := by
  intro s
  unfold FaultsSame Model.cacheRead Model.devRead
  split
  · rfl
  · cases hf : s.dev.faults.contains s.dev.calls <;> simp only [hf] <;> rfl

theorem FaultsSame.devWrite (i : Nat) (s : FS) : (devWrite i s).2.dev.faults = s.dev.faults := by
  rcases devWrite_pre i s with ⟨_, h⟩ | ⟨_, h⟩ <;> rw [h]

theorem FaultsSame.writeBack : Fault.F.Inv FaultsSame writeBack := by
  intro s
  unfold FaultsSame
  cases ht : s.cache.tag with
  | none => rw [Fault.writeBack_none ht]
  | some i => rw [Fault.writeBack_tagged ht, Fault.untagIfErr_dev]; exact FaultsSame.devWrite i s

theorem FaultsSame.writeBackWithDuplicate (dup : Nat) : Fault.F.Inv FaultsSame (writeBackWithDuplicate dup) := by
  intro s
  unfold FaultsSame
  cases ht : s.cache.tag with
  | none => rw [Fault.writeBackDup_none dup ht]
  | some i =>
    rw [Fault.writeBackDup_tagged dup ht, Fault.untagIfErr_dev]
    exact Fault.F.Inv.bind (R := FaultsSame) (fun s => FaultsSame.devWrite i s) (fun _ s => FaultsSame.devWrite dup s) s

instance : Fault.ReadOK FaultsSame := { cacheRead := FaultsSame.cacheRead }
instance : Fault.WriteOK FaultsSame :=
  { writeBack := FaultsSame.writeBack, writeBackWithDuplicate := FaultsSame.writeBackWithDuplicate }

/-- A run in which no device call failed, next to the fault-free run: the same outcome, the same state up to the
schedule. -/
theorem Pre.quiet {α} {m : F α} (hm : Pre m) (hf : Fault.F.Inv FaultsSame m) (L : List Nat) (fs : FS) (hn : NoFault fs)
    (hq : (m (setFaults L fs)).2.dev.failed = fs.dev.failed) :
    (m (setFaults L fs)).1 = (m fs).1 ∧ (m (setFaults L fs)).2 = setFaults L (m fs).2 := by
  obtain ⟨_, _, hag, _⟩ := hm (setFaults L fs)
  have h := hag hq
  rw [clr_setFaults L fs hn] at h
  refine ⟨by rw [h], ?_⟩
  have h2 : (m fs).2 = clr (m (setFaults L fs)).2 := by rw [h]
  have h3 : (m (setFaults L fs)).2.dev.faults = L := hf (setFaults L fs)
  rw [h2]
  generalize m (setFaults L fs) = p at h3
  obtain ⟨r, t⟩ := p
  obtain ⟨dev, cache, vol⟩ := t
  obtain ⟨disk, calls, faults, wlog, rlog, failed⟩ := dev
  simp only at h3
  subst h3
  rfl

end Sdmmc.Lemmas.FaultInv
