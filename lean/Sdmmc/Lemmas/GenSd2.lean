/-
Tie of the SD-card driver to the source text, part 2: `card_acmd`, the option fields read once per function
(`KeepsOpts`), `read_data`, `write_data`.
-/
import Sdmmc.Lemmas.GenSd

namespace Sdmmc.Lemmas.GenSd
open Sdmmc.Model Sdmmc.Model.Sd Sdmmc.Gen Sdmmc.Lemmas.Sd

variable {σ : Type} (B : BusOps σ)

/-- the state component `useCrc` is not changed -/
def KeepsOpts {α : Type} (m : S σ α) : Prop := ∀ s, (m s).2.useCrc = s.useCrc ∧ (m s).2.acquireRetries = s.acquireRetries

theorem keeps_pure {α : Type} (a : α) : KeepsOpts (pure a : S σ α) := fun _ => ⟨rfl, rfl⟩
theorem keeps_fail {α : Type} (e : SdErr) : KeepsOpts (S.fail e : S σ α) := fun _ => ⟨rfl, rfl⟩
theorem keeps_bind {α β : Type} {m : S σ α} {f : α → S σ β} (hm : KeepsOpts m) (hf : ∀ a, KeepsOpts (f a)) :
    KeepsOpts (m >>= f) := by
  intro s
  simp only [bind_apply]
  have := hm s
  rcases h : m s with ⟨r, s'⟩
  rw [h] at this
  cases r with
  | ok a => exact ⟨(hf a s').1.trans this.1, (hf a s').2.trans this.2⟩
  | err e => exact this
  | panic p => exact this
theorem keeps_ite {α : Type} (c : Prop) [Decidable c] {a b : S σ α} (ha : KeepsOpts a) (hb : KeepsOpts b) :
    KeepsOpts (if c then a else b) := by split <;> assumption
theorem keeps_readByte : KeepsOpts (readByte B) := by
  intro s
  rw [readByte_apply]
  cases (B.xfer s.bus [0xFF]).2 <;> exact ⟨rfl, rfl⟩
theorem keeps_xferEv (ev : Event) : KeepsOpts (xferEv B ev) := by
  intro s
  rw [xferEv_apply]
  cases (B.xfer s.bus ev.bytes).2 <;> exact ⟨rfl, rfl⟩
theorem keeps_writeByte (x : UInt8) : KeepsOpts (writeByte B x) :=
  keeps_bind (keeps_xferEv B _) fun _ => keeps_pure _
theorem keeps_delayTick : KeepsOpts (delayTick B) := fun _ => ⟨rfl, rfl⟩
theorem keeps_waitToken (n : Nat) : KeepsOpts (waitToken B n) := by
  induction n with
  | zero => exact keeps_bind (keeps_readByte B) fun a => keeps_ite _ (keeps_pure _) (keeps_fail _)
  | succ k ih =>
    exact keeps_bind (keeps_readByte B) fun a => keeps_ite _ (keeps_pure _) (keeps_bind (keeps_delayTick B) fun _ => ih)

/-- reading an option of the state before or after a computation that keeps it -/
theorem get_comm {α β : Type} {m : S σ α} (hm : KeepsOpts m) (F : Bool → α → S σ β) :
    (S.get >>= fun st0 => m >>= fun a => F st0.useCrc a) = (m >>= fun a => S.get >>= fun st => F st.useCrc a) := by
  funext s
  simp only [bind_apply, get_apply]
  have := (hm s).1
  rcases h : m s with ⟨r, s'⟩
  rw [h] at this
  cases r with
  | ok a =>
    show F s.useCrc a s' = F s'.useCrc a s'
    rw [show s'.useCrc = s.useCrc from this]
  | err e => rfl
  | panic p => rfl

theorem token_loop (n : Nat) : FunsSd.read_data_loop1 B (n + 1) n = waitToken B n := by
  induction n with
  | zero =>
    simp only [FunsSd.read_data_loop1, waitToken, read_byte_eq, delay_zero, fail_bind]
  | succ j ih =>
    rw [FunsSd.read_data_loop1, waitToken]
    simp only [read_byte_eq, delay_succ, bind_assoc, pure_bind, ih]

theorem crc16_nat (buf : Bytes) : Funs.crc16 buf = crc16Nat buf := Sdmmc.Props.C19Gen.crc16_eq buf

theorem read_data_eq (buffer : Bytes) : FunsSd.read_data B buffer = readData B buffer.length := by
  unfold FunsSd.read_data readData
  simp only [FunsSd.Delay_new_read, FunsSd.Delay_new, DEFAULT_READ_RETRIES]
  generalize (10000 : Nat) = n
  have e255 : UInt8.ofNat 255 = (0xFF : UInt8) := rfl
  simp only [e255, transfer_bytes_eq, crc16_nat]
  let F : Bool → Bytes × Bytes → S σ Bytes := fun c p =>
    if c = true then
      (if (p.2.getD 0 0).toNat * 256 + (p.2.getD 1 0).toNat ≠ crc16Nat p.1 then
        S.fail (.CrcError ((p.2.getD 0 0).toNat * 256 + (p.2.getD 1 0).toNat) (crc16Nat p.1)) else pure p.1)
    else pure p.1
  let m : S σ (Bytes × Bytes) := waitToken B n >>= fun status =>
    if status ≠ DATA_START_BLOCK then S.fail .ReadError else
      xferEv B (.dataIn buffer.length) >>= fun buf => xferEv B (.dataIn 2) >>= fun crc => pure (buf, crc)
  have hm : KeepsOpts m := keeps_bind (keeps_waitToken B _) fun st => keeps_ite _ (keeps_fail _)
    (keeps_bind (keeps_xferEv B _) fun _ => keeps_bind (keeps_xferEv B _) fun _ => keeps_pure _)
  have hR : (do
      let status ← waitToken B n
      if status ≠ DATA_START_BLOCK then S.fail SdErr.ReadError
        else do
          let buf ← xferEv B (Event.dataIn (List.length buffer))
          let crcBytes ← xferEv B (Event.dataIn 2)
          let s ← S.get
          if s.useCrc = true then
              if (List.getD crcBytes 0 0).toNat * 256 + (List.getD crcBytes 1 0).toNat ≠ crc16Nat buf then
                S.fail
                  (SdErr.CrcError ((List.getD crcBytes 0 0).toNat * 256 + (List.getD crcBytes 1 0).toNat) (crc16Nat buf))
              else pure buf
            else pure buf) = (m >>= fun p => S.get >>= fun st => F st.useCrc p) := by
    simp only [m, F, bind_assoc, ite_bind, pure_bind, fail_bind]
  rw [hR, ← get_comm hm]
  congr 1
  funext st0
  simp only [m, F, bind_assoc, ite_bind, pure_bind, fail_bind]
  rw [token_loop B n]
  rfl

theorem ofNat_div256 (c : Nat) : UInt8.ofNat (c / 256 % 256) = UInt8.ofNat (c / 256) := ofNat_mod256 _

theorem write_data_eq (token : Nat) (buffer : Bytes) : FunsSd.write_data B token buffer = writeData B token buffer := by
  unfold FunsSd.write_data writeData
  simp only [write_byte_eq, write_bytes_data_eq, read_byte_eq, crc16_nat, bind_assoc, pure_bind, ofNat_div256,
    Sdmmc.Lemmas.GenBits.and_31]
  let m : S σ Bytes := writeByte B (UInt8.ofNat token) >>= fun _ => xferEv B (.dataOut buffer)
  have hm : KeepsOpts m := keeps_bind (keeps_writeByte B _) fun _ => keeps_xferEv B _
  have := get_comm hm (fun c _ => xferEv B (.dataOut (if c = true then
      [UInt8.ofNat (crc16Nat buffer / 256), UInt8.ofNat (crc16Nat buffer % 256)] else [0xFF, 0xFF])) >>= fun _ =>
    readByte B >>= fun status => if status % 32 ≠ DATA_RES_ACCEPTED then S.fail .WriteError else pure ())
  simp only [m, bind_assoc] at this
  exact this

end Sdmmc.Lemmas.GenSd
