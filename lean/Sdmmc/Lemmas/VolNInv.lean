/-
Several open volumes: the invariant `VolInvN` and the projection.

* `volInv_proj` — `VolInvN s ghs` gives the one-volume invariant `VolInv (projH hv i s) ghs[i]` of C03;
* `medInv_congr_partition`, `mirror_congr_partition` — `MedInv` / `Mirror` of a volume read the medium only inside its
  partition (given that all blocks keep 512 bytes);
* `medInv_files_perm` — … and the open files only up to order;
* `volInvN_reassemble` — **the lift**: the state `s'` a call on volume `i` leaves, known through (1) the simulation facts
  (`ProjRel`, the other volumes' records untouched up to order), (2) the one-volume invariant of the state `t'` the
  projection reaches, with the same geometry, (3) the frame "no block outside the partition of volume `i` changed",
  satisfies `VolInvN` again — with the ghost of volume `i` replaced.
-/
import Sdmmc.Lemmas.VolNRun
import Sdmmc.Lemmas.VolMed5
import Sdmmc.Lemmas.VolApi2

namespace Sdmmc.Lemmas.VolN
open Sdmmc.Model Sdmmc.Model.Fat Sdmmc.Spec.Volume
open Sdmmc.Spec hiding NoFault Coherent run step
open Sdmmc.Lemmas.VolBase Sdmmc.Lemmas.VolTree Sdmmc.Lemmas.VolMed Sdmmc.Lemmas.VolDisk

/-! ### From the invariant to its projection -/

theorem volInv_proj {s : Mgr} {ghs : List Ghost} (hI : VolInvN s ghs) {i : Nat} {vi : VolInfo} {gh : Ghost}
    (hvi : s.vols[i]? = some vi) (hgh : ghs[i]? = some gh) : VolInv (projH vi.rawVolume i s) gh := by
  refine ⟨hI.noFault, hI.coherent, hI.unlocked, rfl, .inr ⟨vi, ?_, hI.vols i vi gh hvi hgh⟩, hI.med i vi gh hvi hgh, ?_, ?_⟩
  · show (s.vols[i]?).toList = [vi]
    rw [hvi]; rfl
  · intro f hf
    refine ⟨vi, ?_, ?_⟩
    · show (s.vols[i]?).toList = [vi]
      rw [hvi]; rfl
    · have := (List.mem_filter.1 hf).2
      simpa using this
  · intro di hdi
    have h1 := List.mem_filter.1 hdi
    exact hI.openDirs di h1.1 i vi gh hvi hgh (by simpa using h1.2)

/-! ### What `MedInv` reads -/

theorem inPartition_of_region {v : FatVolume} {b : Nat}
    (h : regionOf v b = .fat ∨ regionOf v b = .data ∨ regionOf v b = .root) : InPartition v b := by
  have := FatLens.region_inside_partition v b (by rcases h with h | h | h <;> rw [h] <;> simp)
  exact ⟨Nat.le_of_lt this.1, this.2⟩

/-- **`MedInv` of a volume depends on the medium only inside the volume's partition.** -/
theorem medInv_congr_partition {v : FatVolume} {d d' : Disk} {files : List FileInfo} {gh : Ghost}
    (hM : MedInv v d files gh) (hb : BlocksOK d') (hsame : ∀ b, InPartition v b → d'.get b = d.get b) : MedInv v d' files gh := by
  have hX := medX_of_med hM
  refine med_of_medX (med_congr hX (SameGeom.refl v) hM.hint hb ?_ ?_)
  · intro c hc
    exact hsame _ (inPartition_of_region (.inl (FatLens.fat_blocks_in_fat_region v hM.geom c hc).1))
  · intro h hh
    apply dirSlots_congr
    intro sl hs
    rcases dirSlot_not_fat hX hh hs with e | e
    · exact hsame _ (inPartition_of_region (.inr (.inl e)))
    · exact hsame _ (inPartition_of_region (.inr (.inr e)))

theorem mirror_congr_partition {v : FatVolume} {d d' : Disk} (hg : WFGeom v) (hm : Mirror v d)
    (hsame : ∀ b, InPartition v b → d'.get b = d.get b) : Mirror v d' := by
  intro c hc b2 hb2
  obtain ⟨r1, r2⟩ := FatLens.fat_blocks_in_fat_region v hg c hc
  rw [hsame _ (inPartition_of_region (.inl (r2 b2 hb2))), hsame _ (inPartition_of_region (.inl r1))]
  exact hm c hc b2 hb2

theorem medInv_files_perm {v : FatVolume} {d : Disk} {files files' : List FileInfo} {gh : Ghost}
    (hM : MedInv v d files gh) (hp : files.Perm files') : MedInv v d files' gh :=
  ⟨hM.blocksOK, hM.geom, hM.hint, hM.owns, VolApi.tree_files_perm hM.tree hp, fun f hf => hM.fileOK f (hp.symm.subset hf)⟩

theorem inPartition_sameGeom {v v' : FatVolume} (hs : SameGeom v v') (b : Nat) : InPartition v' b ↔ InPartition v b := by
  obtain ⟨a, c, rfl⟩ := hs
  exact Iff.rfl

/-! ### Lists -/

theorem getElem?_of_eraseIdx_eq {α : Type} {l l' : List α} {i : Nat} (he : l'.eraseIdx i = l.eraseIdx i)
    (_hl : l'.length = l.length) {j : Nat} (hj : j ≠ i) : l'[j]? = l[j]? := by
  rcases Nat.lt_or_gt_of_ne hj with h | h
  · have e1 := List.getElem?_eraseIdx_of_lt (l := l') h
    have e2 := List.getElem?_eraseIdx_of_lt (l := l) h
    rw [← e1, ← e2, he]
  · obtain ⟨j', rfl⟩ : ∃ j', j = j' + 1 := ⟨j - 1, by omega⟩
    have e1 := List.getElem?_eraseIdx_of_ge (l := l') (i := i) (j := j') (by omega)
    have e2 := List.getElem?_eraseIdx_of_ge (l := l) (i := i) (j := j') (by omega)
    rw [← e1, ← e2, he]

theorem volFiles_of_other {s : Mgr} {hv hw : Nat} (hne : hw ≠ hv) :
    volFiles s hw = (otherFiles s hv).filter fun f => decide (f.rawVolume = hw) := by
  unfold volFiles otherFiles
  rw [List.filter_filter]
  apply List.filter_congr
  intro f _
  by_cases h : f.rawVolume = hw
  · simp [h, hne]
  · simp [h]

theorem mem_files_cases {s : Mgr} (hv : Nat) {f : FileInfo} (hf : f ∈ s.files) :
    f ∈ volFiles s hv ∨ f ∈ otherFiles s hv := by
  by_cases h : f.rawVolume = hv
  · exact .inl (List.mem_filter.2 ⟨hf, by simpa using h⟩)
  · exact .inr (List.mem_filter.2 ⟨hf, by simpa using h⟩)

theorem mem_dirs_cases {s : Mgr} (hv : Nat) {f : DirInfo} (hf : f ∈ s.dirs) :
    f ∈ volDirs s hv ∨ f ∈ otherDirs s hv := by
  by_cases h : f.rawVolume = hv
  · exact .inl (List.mem_filter.2 ⟨hf, by simpa using h⟩)
  · exact .inr (List.mem_filter.2 ⟨hf, by simpa using h⟩)

theorem index_of_handle {s : Mgr} (hnd : (s.vols.map fun vi => vi.rawVolume).Nodup) {i j : Nat} {vi vj : VolInfo}
    (hi : s.vols[i]? = some vi) (hj : s.vols[j]? = some vj) (he : vi.rawVolume = vj.rawVolume) : i = j := by
  have hi' : (s.vols.map fun vi => vi.rawVolume)[i]? = some vi.rawVolume := by rw [List.getElem?_map, hi]; rfl
  have hj' : (s.vols.map fun vi => vi.rawVolume)[j]? = some vi.rawVolume := by rw [List.getElem?_map, hj, he]; rfl
  exact (List.getElem?_inj (List.getElem?_eq_some_iff.1 hi').1 hnd).1 (hi'.trans hj'.symm)

/-! ### The lift -/

/-- What is known about the state `s'` a call on volume record `i` leaves. -/
structure Lifted (s s' t' : Mgr) (i : Nat) (vi : VolInfo) (gh gh' : Ghost) : Prop where
  rel : ProjRel vi.rawVolume i s' t'
  volKeys : s'.vols.map vkey = s.vols.map vkey
  restVols : s'.vols.eraseIdx i = s.vols.eraseIdx i
  restDirs : (otherDirs s' vi.rawVolume).Perm (otherDirs s vi.rawVolume)
  restFiles : (otherFiles s' vi.rawVolume).Perm (otherFiles s vi.rawVolume)
  inv : VolInv t' gh'
  geom : SameGeom gh.vol gh'.vol
  frame : ∀ b, ¬ InPartition gh.vol b → s'.dev.disk.get b = s.dev.disk.get b

theorem map_fst_vkey (l : List VolInfo) : (l.map vkey).map Prod.fst = l.map fun vi => vi.rawVolume := by
  rw [List.map_map]; rfl

theorem map_snd_vkey (l : List VolInfo) : (l.map vkey).map Prod.snd = l.map fun vi => vi.idx := by
  rw [List.map_map]; rfl

/-- **The lift.** -/
theorem volInvN_reassemble {s s' t' : Mgr} {ghs : List Ghost} {i : Nat} {vi : VolInfo} {gh gh' : Ghost}
    (hI : VolInvN s ghs) (hvi : s.vols[i]? = some vi) (hgh : ghs[i]? = some gh) (hL : Lifted s s' t' i vi gh gh') :
    VolInvN s' (ghs.set i gh') := by
  have hlen : s'.vols.length = s.vols.length := by
    have := congrArg List.length hL.volKeys
    simpa using this
  have hilt : i < s.vols.length := (List.getElem?_eq_some_iff.1 hvi).1
  have hiltg : i < ghs.length := by rw [hI.len]; exact hilt
  -- the volume records afterwards
  have hother : ∀ j, j ≠ i → s'.vols[j]? = s.vols[j]? := fun j hj => getElem?_of_eraseIdx_eq hL.restVols hlen hj
  obtain ⟨vi', hvi'⟩ : ∃ vi', s'.vols[i]? = some vi' := ⟨_, List.getElem?_eq_getElem (by rw [hlen]; exact hilt)⟩
  have hkey : vkey vi' = vkey vi := by
    have h1 : (s'.vols.map vkey)[i]? = some (vkey vi') := by rw [List.getElem?_map, hvi']; rfl
    have h2 : (s.vols.map vkey)[i]? = some (vkey vi) := by rw [List.getElem?_map, hvi]; rfl
    rw [hL.volKeys, h2] at h1
    exact (Option.some.inj h1).symm
  have hraw' : vi'.rawVolume = vi.rawVolume := congrArg Prod.fst hkey
  have htv : t'.vols = [vi'] := by rw [hL.rel.vols, hvi']; rfl
  have hvol' : vi'.vol = gh'.vol := by
    rcases hL.inv.vols with h0 | ⟨w, hw, hwv⟩
    · rw [htv] at h0; cases h0
    · rw [htv] at hw; cases hw; exact hwv
  have hhandles : (s'.vols.map fun vi => vi.rawVolume) = s.vols.map fun vi => vi.rawVolume := by
    rw [← map_fst_vkey, ← map_fst_vkey, hL.volKeys]
  have hidx : (s'.vols.map fun vi => vi.idx) = s.vols.map fun vi => vi.idx := by
    rw [← map_snd_vkey, ← map_snd_vkey, hL.volKeys]
  have hdisk : t'.dev.disk = s'.dev.disk := by rw [hL.rel.dev]
  -- ghosts afterwards
  have hghs : ∀ (j : Nat) (g : Ghost), (ghs.set i gh')[j]? = some g → (j = i ∧ g = gh') ∨ (j ≠ i ∧ ghs[j]? = some g) := by
    intro j g hg
    by_cases hj : j = i
    · subst hj
      rw [List.getElem?_set_self hiltg] at hg
      exact .inl ⟨rfl, (Option.some.inj hg).symm⟩
    · rw [List.getElem?_set_ne (Ne.symm hj)] at hg
      exact .inr ⟨hj, hg⟩
  -- the partition of another volume is untouched
  have hframe : ∀ (j : Nat) (vj : VolInfo), j ≠ i → s.vols[j]? = some vj → ∀ b, InPartition vj.vol b → s'.dev.disk.get b = s.dev.disk.get b := by
    intro j vj hj hvj b hb
    apply hL.frame
    rw [← hI.vols i vi gh hvi hgh]
    exact fun hbi => hI.parts i j vi vj hvi hvj (Ne.symm hj) b hbi hb
  have hbl : BlocksOK s'.dev.disk := by rw [← hdisk]; exact hL.inv.med.blocksOK
  have hmemvol : ∀ w : VolInfo, w ∈ s.vols → ∃ w' : VolInfo, w' ∈ s'.vols ∧ w'.rawVolume = w.rawVolume := by
    intro w hw
    have : w.rawVolume ∈ s.vols.map fun vi => vi.rawVolume := List.mem_map.2 ⟨w, hw, rfl⟩
    rw [← hhandles] at this
    obtain ⟨w', hw', e⟩ := List.mem_map.1 this
    exact ⟨w', hw', e⟩
  have hmemvol' : ∀ w : VolInfo, w ∈ s'.vols → ∃ w' : VolInfo, w' ∈ s.vols ∧ w'.rawVolume = w.rawVolume := by
    intro w hw
    have : w.rawVolume ∈ s'.vols.map fun vi => vi.rawVolume := List.mem_map.2 ⟨w, hw, rfl⟩
    rw [hhandles] at this
    obtain ⟨w', hw', e⟩ := List.mem_map.1 this
    exact ⟨w', hw', e⟩
  refine
    { noFault := by rw [← hL.rel.dev]; exact hL.inv.noFault
      coherent := by rw [← hL.rel.dev, ← hL.rel.cache]; exact hL.inv.coherent
      unlocked := by rw [← hL.rel.locked]; exact hL.inv.unlocked
      len := by rw [List.length_set, hlen]; exact hI.len
      vols := ?_, handles := by rw [hhandles]; exact hI.handles, indices := by rw [hidx]; exact hI.indices
      parts := ?_, med := ?_, fileVols := ?_, openDirs := ?_, inertDirs := ?_ }
  · -- vols
    intro j vj g hvj hg
    rcases hghs j g hg with ⟨rfl, rfl⟩ | ⟨hj, hg'⟩
    · rw [hvi'] at hvj; cases hvj; exact hvol'
    · rw [hother j hj] at hvj
      exact hI.vols j vj g hvj hg'
  · -- parts
    have hpart : ∀ (j : Nat) (vj : VolInfo), s'.vols[j]? = some vj → ∃ wj : VolInfo, s.vols[j]? = some wj ∧ ∀ b, InPartition vj.vol b ↔ InPartition wj.vol b := by
      intro j vj hvj
      by_cases hj : j = i
      · subst hj
        rw [hvi'] at hvj; cases hvj
        refine ⟨vi, hvi, fun b => ?_⟩
        rw [hvol', hI.vols j vi gh hvi hgh]
        exact inPartition_sameGeom hL.geom b
      · rw [hother j hj] at hvj
        exact ⟨vj, hvj, fun _ => Iff.rfl⟩
    intro j k vj vk hvj hvk hjk b hb hb'
    obtain ⟨wj, hwj, ej⟩ := hpart j vj hvj
    obtain ⟨wk, hwk, ek⟩ := hpart k vk hvk
    exact hI.parts j k wj wk hwj hwk hjk b ((ej b).1 hb) ((ek b).1 hb')
  · -- med
    intro j vj g hvj hg
    rcases hghs j g hg with ⟨rfl, rfl⟩ | ⟨hj, hg'⟩
    · rw [hvi'] at hvj; cases hvj
      have := hL.inv.med
      rw [hdisk] at this
      rw [hraw']
      exact medInv_files_perm this hL.rel.files
    · rw [hother j hj] at hvj
      have hM := hI.med j vj g hvj hg'
      have hne : vj.rawVolume ≠ vi.rawVolume := fun e => hj (index_of_handle hI.handles hvj hvi e)
      have hM' := medInv_congr_partition hM hbl (by
        intro b hb
        rw [← hI.vols j vj g hvj hg'] at hb
        exact hframe j vj hj hvj b hb)
      refine medInv_files_perm hM' ?_
      rw [volFiles_of_other hne, volFiles_of_other hne]
      exact (hL.restFiles.filter _).symm
  · -- fileVols
    intro f hf
    rcases mem_files_cases vi.rawVolume hf with h | h
    · exact ⟨vi', List.mem_of_getElem? hvi', by rw [hraw']; simpa using (List.mem_filter.1 h).2⟩
    · have hf0 : f ∈ s.files := (List.mem_filter.1 (hL.restFiles.subset h)).1
      obtain ⟨w, hw, e⟩ := hI.fileVols f hf0
      obtain ⟨w', hw', e'⟩ := hmemvol w hw
      exact ⟨w', hw', e.trans e'.symm⟩
  · -- openDirs
    intro di hdi j vj g hvj hg hdv
    rcases hghs j g hg with ⟨rfl, rfl⟩ | ⟨hj, hg'⟩
    · rw [hvi'] at hvj; cases hvj
      have hm : di ∈ volDirs s' vi.rawVolume := List.mem_filter.2 ⟨hdi, by simpa [hraw'] using hdv⟩
      exact hL.inv.openDirs di (hL.rel.dirs.symm.subset hm)
    · rw [hother j hj] at hvj
      have hne : vj.rawVolume ≠ vi.rawVolume := fun e => hj (index_of_handle hI.handles hvj hvi e)
      have hm : di ∈ otherDirs s' vi.rawVolume := List.mem_filter.2 ⟨hdi, by simpa [hdv] using hne⟩
      have hd0 : di ∈ s.dirs := (List.mem_filter.1 (hL.restDirs.subset hm)).1
      exact hI.openDirs di hd0 j vj g hvj hg' hdv
  · -- inertDirs
    intro di hdi hno
    have hne : di.rawVolume ≠ vi.rawVolume := by
      have := hno vi' (List.mem_of_getElem? hvi')
      rwa [hraw'] at this
    have hm : di ∈ otherDirs s' vi.rawVolume := List.mem_filter.2 ⟨hdi, by simpa using hne⟩
    have hd0 : di ∈ s.dirs := (List.mem_filter.1 (hL.restDirs.subset hm)).1
    refine hI.inertDirs di hd0 fun w hw => ?_
    obtain ⟨w', hw', e'⟩ := hmemvol w hw
    rw [← e']
    exact hno w' hw'

/-- … and `MirrorN`. -/
theorem mirrorN_reassemble {s s' t' : Mgr} {ghs : List Ghost} {i : Nat} {vi : VolInfo} {gh gh' : Ghost}
    (hI : VolInvN s ghs) (hm : MirrorN s ghs) (hvi : s.vols[i]? = some vi) (hgh : ghs[i]? = some gh)
    (hL : Lifted s s' t' i vi gh gh') (hm' : Mirror gh'.vol t'.dev.disk) : MirrorN s' (ghs.set i gh') := by
  intro g hg
  obtain ⟨j, hj⟩ := List.getElem?_of_mem hg
  have hiltg : i < ghs.length := by
    rw [hI.len]; exact (List.getElem?_eq_some_iff.1 hvi).1
  by_cases hji : j = i
  · subst hji
    rw [List.getElem?_set_self hiltg] at hj
    cases hj
    rw [← hL.rel.dev]; exact hm'
  · rw [List.getElem?_set_ne (Ne.symm hji)] at hj
    have hjlt : j < s.vols.length := by rw [← hI.len]; exact (List.getElem?_eq_some_iff.1 hj).1
    obtain ⟨vj, hvj⟩ : ∃ vj, s.vols[j]? = some vj := ⟨_, List.getElem?_eq_getElem hjlt⟩
    have hM := hI.med j vj g hvj hj
    refine mirror_congr_partition hM.geom (hm g (List.mem_of_getElem? hj)) fun b hb => ?_
    apply hL.frame
    rw [← hI.vols i vi gh hvi hgh]
    rw [← hI.vols j vj g hvj hj] at hb
    exact fun hbi => hI.parts i j vi vj hvi hvj (Ne.symm hji) b hbi hb

end Sdmmc.Lemmas.VolN
