/-
Capacity (C05, second sentence), part 6 — giving clusters back.

* `delete_reclaims`: a `delete_file_in_dir` that answers `Ok`, of a file whose chain is `c :: tail`,
  frees exactly that chain: every cluster of it is free afterwards, the number of free clusters grew
  by its length, and the remaining chains still partition the used clusters;
* `delete_empty`: of a file that owns no cluster: nothing changes in the FAT.
-/
import Sdmmc.Lemmas.CapacityFill
import Sdmmc.Lemmas.CrashApiDir
import Sdmmc.Lemmas.ForestFinal

namespace Sdmmc.Lemmas.Capacity
open Sdmmc.Model Sdmmc.Model.Fat Sdmmc.Spec
open Sdmmc.Lemmas.FBasic hiding NoFault Coherent
open Sdmmc.Lemmas.FatOps hiding BlocksOK Mirror HintOK
open Sdmmc.Lemmas.ChainL Sdmmc.Lemmas.ForestBase Sdmmc.Lemmas.ForestOwns Sdmmc.Lemmas.ReadRefines
open Sdmmc.Lemmas.WriteRefines

/-- The part of `delete_file_in_dir` in front of the body: the directory, the volume and the name are
found, the lookup (which writes nothing) finds `e`; if the call answers `Ok`, the body
`delete_directory_entry; free_cluster_chain` ran on the state the lookup left and answered `Ok`. -/
theorem delete_body_run (s sF : Mgr) (directory di vi : Nat) (name : List Nat) (sfn : Bytes) (d : DirInfo) (v : VolInfo)
    (e : DirEntry)
    (hdi : s.dirs.findIdx? (·.rawDirectory = directory) = some di) (hd : s.dirs[di]? = some d)
    (hv : s.vols.findIdx? (·.rawVolume = d.rawVolume) = some vi) (hvi : s.vols[vi]? = some v)
    (hsfn : Sfn.createFromStr name = .ok sfn)
    (hfind : (Fat.findDirectoryEntry d.cluster sfn (fsOf s v)).1 = .ok e)
    (hrun : deleteFileInDir directory name s = (.ok (), sF)) :
    ∃ fs1 fs2, RO (fsOf s v) fs1 ∧ CrashDelete.deleteBody d.cluster sfn e.cluster fs1 = (.ok (), fs2) ∧
      sF = { s with dev := fs2.dev, cache := fs2.cache, vols := s.vols.set vi { v with vol := fs2.vol } } := by
  obtain ⟨hst, hro⟩ := CrashApiDir.withVol_ro_state vi (Fat.findDirectoryEntry d.cluster sfn)
    (DirMgr.findDirectoryEntry_readOnly _ _) s v hvi
  generalize hfs1 : (Fat.findDirectoryEntry d.cluster sfn (fsOf s v)).2 = fs1 at hst hro
  generalize hs1 : ({ s with dev := fs1.dev, cache := fs1.cache } : Mgr) = s1 at hst
  have h6 : withVol vi (Fat.findDirectoryEntry d.cluster sfn) s = (.ok e, s1) := by
    rw [← hst, ← hfind, withVol_run vi _ s v hvi]
  have hv1 : s1.vols[vi]? = some v := by rw [← hs1]; exact hvi
  have h3' : getVolumeById d.rawVolume s1 = (.ok vi, s1) := MHoare.getVolumeById_ok (by rw [← hs1]; exact hv)
  have hfs : fsOf s1 v = fs1 := by rw [← hs1]; exact fsOf_ro_eq s v fs1 hro
  have hcall : withVol vi (CrashDelete.deleteBody d.cluster sfn e.cluster) s1 = (.ok (), sF) := by
    unfold deleteFileInDir at hrun
    simp only [bind, M.bind', MHoare.getDirById_ok hdi, MHoare.getDir_ok hd, MHoare.getVolumeById_ok hv, toSfn, hsfn, pure,
      M.pure', h6] at hrun
    by_cases hdirA : Attr.isDirectory e.attributes = true
    · rw [if_pos hdirA] at hrun; cases hrun
    · rw [if_neg hdirA] at hrun
      have hrun2 : (if fileIsOpen s1 d.rawVolume e = true then M.fail Err.FileAlreadyOpen
          else (getVolumeById d.rawVolume).bind' fun volIdx =>
            withVol volIdx ((deleteDirectoryEntry d.cluster sfn).bind' fun __r => freeClusterChain e.cluster)) s1 = (.ok (), sF) := hrun
      by_cases hopen : fileIsOpen s1 d.rawVolume e = true
      · rw [if_pos hopen] at hrun2; cases hrun2
      · rw [if_neg hopen] at hrun2
        simp only [M.bind', h3'] at hrun2
        exact hrun2
  rw [withVol_run vi _ s1 v hv1, hfs] at hcall
  generalize hres : CrashDelete.deleteBody d.cluster sfn e.cluster fs1 = res at hcall
  obtain ⟨r2, fs2⟩ := res
  have hr2 : r2 = .ok () := congrArg Prod.fst hcall
  subst hr2
  refine ⟨fs1, fs2, hro, hres, ?_⟩
  have h2 : sF = _ := (congrArg Prod.snd hcall).symm
  rw [h2, ← hs1]

/-- **Deleting gives the chain back.**  `s`: `MgrOK`; the directory handle, its volume `v` (slot `vi`,
`WFGeom`, `HintOK`) and the name resolve; the lookup finds the entry `e`; the chains
`A ++ [e.cluster :: tail] ++ B` are exactly the chains of the volume (so `e.cluster :: tail` is the
chain of the file).  IF `delete_file_in_dir` answers `Ok` (it refuses directories and open files),
then afterwards: the volume record differs in the two bookkeeping fields at most; the manager is
`MgrOK` again with the same tables; `A ++ B` are exactly the chains of the volume; every cluster of
the deleted chain is free; the number of free clusters has grown by the length of the chain; and no
block outside the FAT differs except the one directory block that got the deleted mark. -/
theorem delete_reclaims (s sF : Mgr) (directory di vi : Nat) (name : List Nat) (sfn : Bytes) (d : DirInfo) (v : VolInfo)
    (e : DirEntry) (A B : List (List Nat)) (tail : List Nat)
    (hs : MgrOK s) (hdi : s.dirs.findIdx? (·.rawDirectory = directory) = some di) (hd : s.dirs[di]? = some d)
    (hv : s.vols.findIdx? (·.rawVolume = d.rawVolume) = some vi) (hvi : s.vols[vi]? = some v)
    (hsfn : Sfn.createFromStr name = .ok sfn) (hg : WFGeom v.vol) (hh : HintOK v.vol)
    (hown : Owns v.vol s.dev.disk (A ++ [e.cluster :: tail] ++ B))
    (hfind : (Fat.findDirectoryEntry d.cluster sfn (fsOf s v)).1 = .ok e)
    (hrun : deleteFileInDir directory name s = (.ok (), sF)) :
    ∃ v', sF.vols = s.vols.set vi v' ∧ v'.rawVolume = v.rawVolume ∧ SameGeom v.vol v'.vol ∧ HintOK v'.vol ∧
      MgrOK sF ∧ sF.files = s.files ∧ sF.dirs = s.dirs ∧
      Owns v'.vol sF.dev.disk (A ++ B) ∧
      (∀ c, c ∈ e.cluster :: tail → isFree v'.vol sF.dev.disk c) ∧
      freeCount v'.vol sF.dev.disk = freeCount v.vol s.dev.disk + (tail.length + 1) ∧
      ∃ b, regionOf v.vol b ≠ .fat ∧ ∀ i, regionOf v.vol i ≠ .fat → i ≠ b → sF.dev.disk.get i = s.dev.disk.get i := by
  obtain ⟨fs1, fs2, hro, hbody, hsF⟩ := delete_body_run s sF directory di vi name sfn d v e hdi hd hv hvi hsfn hfind hrun
  obtain ⟨hnf0, hcoh, hblk, hlock⟩ := hs
  have hvol1 : fs1.vol = v.vol := hro.vol
  have hd1 : fs1.dev.disk = s.dev.disk := hro.disk
  have hn1 : NoFault fs1 := hro.noFault hnf0
  have hc1 : Coherent fs1 := hro.coherent hcoh
  have hg1 : WFGeom fs1.vol := by rw [hvol1]; exact hg
  -- the mark
  unfold CrashDelete.deleteBody at hbody
  rw [bind_eq_ok] at hbody
  obtain ⟨_, fsD, hdel, hfree⟩ := hbody
  obtain ⟨b, off, hm, hbr⟩ := CrashDelete.deleteDirectoryEntry_ok d.cluster sfn fs1 fsD hn1 hc1 hg1 hdel
  have hbr' : regionOf v.vol b ≠ .fat := by rw [← hvol1]; exact hbr
  have hvolD : fsD.vol = v.vol := hm.vol.trans hvol1
  have hfatD : ∀ y, y < endCluster v.vol → fsD.dev.disk.get (fatBlock v.vol y) = s.dev.disk.get (fatBlock v.vol y) := fun y hy => by
    rw [hm.disk, Disk.get_set_ne _ _ _ _ (fun e' => hbr' (by rw [e']; exact (FatLens.fat_blocks_in_fat_region v.vol hg y hy).1)), hd1]
  have hbD : BlocksOK fsD.dev.disk := by
    rw [hm.disk]
    exact CrashDelete.blocksOK_mark (by intro j; rw [hd1]; exact hblk j) b off _
  have hreadyD : Ready fsD := ⟨hm.noFault, hm.coherent, hbD, by rw [hvolD]; exact hg, by rw [hvolD]; exact hh⟩
  have hownD : Owns fsD.vol fsD.dev.disk (A ++ [e.cluster :: tail] ++ B) := by
    rw [hvolD]; exact owns_of_fat_eq hfatD hown
  -- the chain is given back
  obtain ⟨s', hf, hready', hown', hsg', _, _⟩ := ForestStep.owns_free fsD A B e.cluster tail hreadyD hownD
  have hch : Chain fsD.vol fsD.dev.disk e.cluster (e.cluster :: tail) :=
    hownD.1 _ (List.mem_append_left _ (List.mem_append_right _ (List.mem_singleton.2 rfl)))
  obtain ⟨s'', hf2, hfreeAll, hother, hnonfat, _⟩ :=
    ForestFinal.free_chain_frees_exactly_chain fsD e.cluster (e.cluster :: tail) hm.noFault hm.coherent hbD hreadyD.geom hch
  have hs'' : s'' = s' := by rw [hf] at hf2; exact (congrArg Prod.snd hf2).symm
  subst hs''
  have hfs2 : fs2 = s'' := by rw [hf] at hfree; exact (congrArg Prod.snd hfree).symm
  subst hfs2
  have hsgv : SameGeom v.vol fs2.vol := by rw [← hvolD]; exact hsg'
  have hmemG : ∀ z, z ∈ e.cluster :: tail → z ∈ (A ++ [e.cluster :: tail] ++ B).flatten := fun z hz =>
    (mem_flatten3 _ _ _ z).2 (.inr (.inl (by rw [ForestStep.flatten_one]; exact hz)))
  have hcount : freeCount fs2.vol fs2.dev.disk = freeCount v.vol s.dev.disk + (tail.length + 1) := by
    have h0 : freeCount fs2.vol fs2.dev.disk = freeCount v.vol fs2.dev.disk := hsgv.freeCount _
    rw [h0]
    have h1 : freeCount v.vol fsD.dev.disk = freeCount v.vol s.dev.disk := freeCount_congr hfatD
    rw [← h1]
    refine ForestCount.freeCount_add (e.cluster :: tail) (chain_nodup hch)
      (fun y hy => by have := (ForestStep.owns_mem_used hownD (hmemG y hy)).1; rw [hvolD] at this; exact this)
      (fun y hy => by have := (ForestStep.owns_mem_used hownD (hmemG y hy)).2.1; rw [hvolD] at this; exact this)
      (fun y hy => (hsgv.isFree _ _).1 (hfreeAll y hy))
      (fun z hrz hz => ForestStep.isFree_congr_raw (by
        have := hother z (by rw [hvolD]; exact hrz.2) hz
        rw [hvolD, hsgv.fatRaw] at this
        exact this))
  refine ⟨{ v with vol := fs2.vol }, by rw [hsF], rfl, hsgv, hready'.hint, ?_, by rw [hsF], by rw [hsF], ?_, ?_, ?_, b, hbr', ?_⟩
  · rw [hsF]; exact ⟨hready'.noFault, hready'.coherent, hready'.blocksOK, hlock⟩
  · have : sF.dev.disk = fs2.dev.disk := by rw [hsF]
    rw [this]
    simpa using hown'
  · intro c hc
    have : sF.dev.disk = fs2.dev.disk := by rw [hsF]
    rw [this]
    exact hfreeAll c hc
  · have : sF.dev.disk = fs2.dev.disk := by rw [hsF]
    rw [this]
    exact hcount
  · intro i hi hib
    have : sF.dev.disk = fs2.dev.disk := by rw [hsF]
    rw [this, hnonfat i (by rw [hvolD]; exact hi), hm.disk, Disk.get_set_ne _ _ _ _ (fun e' => hib e'.symm), hd1]

/-- **Deleting a file that owns no cluster** (`e.cluster < 2`): the FAT is not touched — same chains,
same number of free clusters; one directory block gets the deleted mark. -/
theorem delete_empty (s sF : Mgr) (directory di vi : Nat) (name : List Nat) (sfn : Bytes) (d : DirInfo) (v : VolInfo)
    (e : DirEntry) (G : List (List Nat))
    (hs : MgrOK s) (hdi : s.dirs.findIdx? (·.rawDirectory = directory) = some di) (hd : s.dirs[di]? = some d)
    (hv : s.vols.findIdx? (·.rawVolume = d.rawVolume) = some vi) (hvi : s.vols[vi]? = some v)
    (hsfn : Sfn.createFromStr name = .ok sfn) (hg : WFGeom v.vol)
    (hown : Owns v.vol s.dev.disk G) (hempty : e.cluster < 2)
    (hfind : (Fat.findDirectoryEntry d.cluster sfn (fsOf s v)).1 = .ok e)
    (hrun : deleteFileInDir directory name s = (.ok (), sF)) :
    sF.vols = s.vols ∧ MgrOK sF ∧ sF.files = s.files ∧ sF.dirs = s.dirs ∧
      Owns v.vol sF.dev.disk G ∧ freeCount v.vol sF.dev.disk = freeCount v.vol s.dev.disk := by
  obtain ⟨fs1, fs2, hro, hbody, hsF⟩ := delete_body_run s sF directory di vi name sfn d v e hdi hd hv hvi hsfn hfind hrun
  obtain ⟨hnf0, hcoh, hblk, hlock⟩ := hs
  have hvol1 : fs1.vol = v.vol := hro.vol
  have hd1 : fs1.dev.disk = s.dev.disk := hro.disk
  have hn1 : NoFault fs1 := hro.noFault hnf0
  have hc1 : Coherent fs1 := hro.coherent hcoh
  have hg1 : WFGeom fs1.vol := by rw [hvol1]; exact hg
  unfold CrashDelete.deleteBody at hbody
  rw [bind_eq_ok] at hbody
  obtain ⟨_, fsD, hdel, hfree⟩ := hbody
  obtain ⟨b, off, hm, hbr⟩ := CrashDelete.deleteDirectoryEntry_ok d.cluster sfn fs1 fsD hn1 hc1 hg1 hdel
  have hbr' : regionOf v.vol b ≠ .fat := by rw [← hvol1]; exact hbr
  have hvolD : fsD.vol = v.vol := hm.vol.trans hvol1
  have hfatD : ∀ y, y < endCluster v.vol → fsD.dev.disk.get (fatBlock v.vol y) = s.dev.disk.get (fatBlock v.vol y) := fun y hy => by
    rw [hm.disk, Disk.get_set_ne _ _ _ _ (fun e' => hbr' (by rw [e']; exact (FatLens.fat_blocks_in_fat_region v.vol hg y hy).1)), hd1]
  have hbD : BlocksOK fsD.dev.disk := by
    rw [hm.disk]
    exact CrashDelete.blocksOK_mark (by intro j; rw [hd1]; exact hblk j) b off _
  have hfreeD : freeClusterChain e.cluster fsD = (.ok (), fsD) := by
    unfold freeClusterChain
    have : e.cluster < Gen.RESERVED_ENTRIES := hempty
    simp only [ite_apply, if_pos this, pure_apply]
  have hfs2 : fs2 = fsD := by rw [hfreeD] at hfree; exact (congrArg Prod.snd hfree).symm
  subst hfs2
  have hdisk : sF.dev.disk = fs2.dev.disk := by rw [hsF]
  refine ⟨?_, ?_, by rw [hsF], by rw [hsF], ?_, ?_⟩
  · rw [hsF]
    show s.vols.set vi { v with vol := fs2.vol } = s.vols
    rw [hvolD]
    exact list_set_self _ _ _ hvi
  · rw [hsF]; exact ⟨hm.noFault, hm.coherent, hbD, hlock⟩
  · rw [hdisk]; exact owns_of_fat_eq hfatD hown
  · rw [hdisk]; exact freeCount_congr hfatD

/-- **Truncating gives the tail back** (the FAT-engine call `truncate_cluster_chain(c)` that
`open_file_in_dir(.., ReadWriteTruncate)` issues on the first cluster of an existing file): of the
chain `c :: tail` the first cluster stays (as a one-cluster chain), every cluster of `tail` is free
afterwards and the number of free clusters has grown by `tail.length`. -/
theorem truncate_chain_reclaims (s : FS) (A B : List (List Nat)) (c : Nat) (tail : List Nat) (hr : Ready s)
    (ho : Owns s.vol s.dev.disk (A ++ [c :: tail] ++ B)) :
    ∃ s', truncateClusterChain c s = (.ok (), s') ∧ Ready s' ∧ SameGeom s.vol s'.vol ∧
      Owns s'.vol s'.dev.disk (A ++ [[c]] ++ B) ∧
      (∀ y, y ∈ tail → isFree s'.vol s'.dev.disk y) ∧
      freeCount s'.vol s'.dev.disk = freeCount s.vol s.dev.disk + tail.length := by
  obtain ⟨s', ht, hready', hown', hsg, _, _⟩ := ForestStep.owns_truncate s A B [] tail c hr ho
  have hch : Chain s.vol s.dev.disk c ([] ++ [c] ++ tail) :=
    ho.1 _ (List.mem_append_left _ (List.mem_append_right _ (List.mem_singleton.2 rfl)))
  obtain ⟨s'', ht2, _, hfreeAll, hother, _⟩ :=
    ForestFinal.truncate_frees_exactly_tail s c c [] tail hr.noFault hr.coherent hr.blocksOK hr.geom hch
  have hs'' : s'' = s' := by rw [ht] at ht2; exact (congrArg Prod.snd ht2).symm
  subst hs''
  have hmemG : ∀ z, z ∈ c :: tail → z ∈ (A ++ [c :: tail] ++ B).flatten := fun z hz =>
    (mem_flatten3 _ _ _ z).2 (.inr (.inl (by rw [ForestStep.flatten_one]; exact hz)))
  have hnd : (c :: tail).Nodup := chain_nodup hch
  refine ⟨s'', ht, hready', hsg, hown', hfreeAll, ?_⟩
  rw [hsg.freeCount]
  refine ForestCount.freeCount_add tail (List.nodup_cons.1 hnd).2
    (fun y hy => (ForestStep.owns_mem_used ho (hmemG y (List.mem_cons_of_mem _ hy))).1)
    (fun y hy => (ForestStep.owns_mem_used ho (hmemG y (List.mem_cons_of_mem _ hy))).2.1)
    (fun y hy => (hsg.isFree _ _).1 (hfreeAll y hy))
    (fun z hrz hz => ?_)
  by_cases hzc : z = c
  · -- the kept cluster: in a chain before and after, so free neither before nor after
    subst hzc
    have h1 : ¬ isFree s.vol s.dev.disk z := (ForestStep.owns_mem_used ho (hmemG z List.mem_cons_self)).2.1
    have hz' : z ∈ (A ++ [[z]] ++ B).flatten :=
      (mem_flatten3 _ _ _ z).2 (.inr (.inl (by rw [ForestStep.flatten_one]; exact List.mem_singleton.2 rfl)))
    have h2 : ¬ isFree s.vol s''.dev.disk z := fun hf =>
      (ForestStep.owns_mem_used hown' hz').2.1 ((hsg.isFree _ _).2 hf)
    exact ⟨fun h => absurd h h2, fun h => absurd h h1⟩
  · exact ForestStep.isFree_congr_raw (by
      have := hother z hrz.2 hzc hz
      rw [hsg.fatRaw] at this
      exact this)

end Sdmmc.Lemmas.Capacity
