/-
C04 / C11 WITHOUT `Mirror`: the FRAME of a list of `Licensed1` writes (FAT copy 2 unconstrained, `Spec/WriteSet1.lean`).
A byte the licence does not cover AND that is not in a block of FAT copy 2 is unchanged (`allLicensed1_frame`); hence the
slot, the chain AS READ THROUGH COPY 1 and the chain bytes of an object the licence spares (`spared1_unchanged`); every
prefix leaves block 0, the boot sector and the info sector (outside its two counters) alone, so the medium keeps mounting
(`allLicensed1_prefix`, with `VolCrash.PrefixOK.mounts`).
-/
import Sdmmc.Lemmas.LicXWf
import Sdmmc.Lemmas.VolCrashLic
import Sdmmc.Lemmas.FaultInvPrefix

namespace Sdmmc.Lemmas.VolX.Lic
open Sdmmc.Model Sdmmc.Model.Fat Sdmmc.Spec.Volume
open Sdmmc.Spec hiding NoFault Coherent run step
open Sdmmc.Lemmas.FBasic
open Sdmmc.Lemmas.WriteSetInv (Covers Spares block_ext)
open Sdmmc.Lemmas.WriteSet1 (licensed1_cases fat2_region)

theorem licensed1_length {v : FatVolume} {d : Disk} {L : Licence} {w : Nat × Block} (h : Licensed1 v d L w) :
    w.2.length = 512 := by
  rcases licensed1_cases h with h | h
  · exact VolCrash.licensed_length h
  · exact h.2

theorem allLicensed1_blocksOK {v : FatVolume} {L : Licence} : ∀ (ws : List (Nat × Block)) (d : Disk), FatOps.BlocksOK d →
    AllLicensed1 v d L ws → FatOps.BlocksOK (d.applyWrites ws)
  | [], _, hb, _ => hb
  | w :: ws, d, hb, h => by
    rw [Disk.applyWrites_cons]
    exact allLicensed1_blocksOK ws _ (FatOps.blocksOK_set _ _ _ hb (licensed1_length h.1)) h.2

theorem licensed1_info {v : FatVolume} (hg : WFGeom v) {d : Disk} {L : Licence} {w : Nat × Block} (h : Licensed1 v d L w)
    (h32 : v.fatType = .fat32) (hw : w.1 = v.infoLocation) :
    ∀ i, i < 488 ∨ 496 ≤ i → w.2.getD i 0 = (d.get w.1).getD i 0 := by
  rcases licensed1_cases h with h | h
  · exact VolCrash.licensed_info hg h h32 hw
  · exfalso
    have hinfo := FatLens.info_block_in_info_region v hg h32 (Reopen.fatStart_le_numBlocks v hg)
    rw [← hw, fat2_region v hg h.1] at hinfo
    cases hinfo

/-- What holds of the medium after any prefix of a `Licensed1` list of writes. -/
theorem allLicensed1_prefix {v : FatVolume} (hg : WFGeom v) {L : Licence} :
    ∀ (ws : List (Nat × Block)) (d : Disk), AllLicensed1 v d L ws → FatOps.BlocksOK d → ∀ k,
      VolCrash.PrefixOK v d (d.applyWrites (ws.take k))
  | [], d, _, hb, k => by
    rw [List.take_nil]
    exact ⟨hb, rfl, rfl, fun _ _ _ => rfl⟩
  | w :: ws, d, h, hb, 0 => by
    rw [List.take_zero]
    exact ⟨hb, rfl, rfl, fun _ _ _ => rfl⟩
  | w :: ws, d, h, hb, k + 1 => by
    rw [List.take_succ_cons, Disk.applyWrites_cons]
    have hl := licensed1_length h.1
    obtain ⟨_, _, hlt, h0⟩ := WriteSet1.licensed_in_region v hg d L w h.1
    have ih := allLicensed1_prefix hg ws (d.set w.1 w.2) h.2 (FatOps.blocksOK_set _ _ _ hb hl) k
    refine ⟨ih.blocksOK, ?_, ?_, fun h32 i hi => ?_⟩
    · rw [ih.block0, Disk.get_set_ne _ _ _ _ h0]
    · rw [ih.boot, Disk.get_set_ne _ _ _ _ (by omega)]
    · rw [ih.info h32 i hi]
      by_cases hw : w.1 = v.infoLocation
      · rw [← hw, Disk.get_set_self]
        exact licensed1_info hg h.1 h32 hw i hi
      · rw [Disk.get_set_ne _ _ _ _ hw]

/-! ### The frame -/

theorem licensed1_frame {v : FatVolume} {d : Disk} {L : Licence} {w : Nat × Block} (h : Licensed1 v d L w) {i : Nat}
    (hn : ¬ Covers v L w.1 i) (h2 : ¬ IsFat2Block v w.1) : w.2.getD i 0 = (d.get w.1).getD i 0 := by
  rcases licensed1_cases h with h | h
  · exact WriteSetInv.licensed_frame h hn
  · exact absurd h.1 h2

/-- **A byte the licence does not cover, outside FAT copy 2, is the same after a list of `Licensed1` writes.** -/
theorem allLicensed1_frame {v : FatVolume} {L : Licence} {b i : Nat} (hn : ¬ Covers v L b i) (h2 : ¬ IsFat2Block v b) :
    ∀ (ws : List (Nat × Block)) (d : Disk), AllLicensed1 v d L ws →
      ((d.applyWrites ws).get b).getD i 0 = (d.get b).getD i 0
  | [], _, _ => rfl
  | w :: ws, d, h => by
    rw [Disk.applyWrites_cons, allLicensed1_frame hn h2 ws _ h.2]
    by_cases hb : w.1 = b
    · subst hb
      rw [Disk.get_set_self]
      exact licensed1_frame h.1 hn h2
    · rw [Disk.get_set_ne _ _ _ _ hb]

/-- A block of the FAT16 root region or of the data region is no block of FAT copy 2. -/
theorem not_fat2_of_region {v : FatVolume} (hg : WFGeom v) {b : Nat} (h : regionOf v b = .root ∨ regionOf v b = .data) :
    ¬ IsFat2Block v b := by
  intro h2
  have := fat2_region v hg h2
  rcases h with h | h <;> rw [this] at h <;> cases h

/-- The block of copy 1 that holds the entry of a cluster of the volume is no block of copy 2. -/
theorem not_fat2_fatBlock {v : FatVolume} (hg : WFGeom v) {c : Nat} (hc : c < endCluster v) : ¬ IsFat2Block v (fatBlock v c) := by
  rintro ⟨p, _, hp⟩
  exact FatOps.fatBlock_ne_fatBlock2 v hg c p _ hc hp rfl

/-- **An object the licence spares is unchanged by a list of `Licensed1` writes** — its slot, its chain as read through
FAT copy 1, the bytes of its chain. -/
theorem spared1_unchanged {v : FatVolume} (hg : WFGeom v) {L : Licence} {d : Disk} {ws : List (Nat × Block)}
    (hb : FatOps.BlocksOK d) (ha : AllLicensed1 v d L ws) (sb so c : Nat) (cs : List Nat) (hch : Chain v d c cs)
    (hsreg : regionOf v sb = .root ∨ regionOf v sb = .data) (hsp : Spares v L sb so cs) :
    slice ((d.applyWrites ws).get sb) so 32 = slice (d.get sb) so 32 ∧ Chain v (d.applyWrites ws) c cs ∧
    chainBytes v (d.applyWrites ws) cs = chainBytes v d cs := by
  have hb' := allLicensed1_blocksOK ws d hb ha
  have hin := ChainL.chain_inRange hch
  refine ⟨?_, ?_, ?_⟩
  · refine DirSlots.slice_congr _ _ so 32 (by rw [hb' sb, hb sb]) fun i h1 h2 => ?_
    exact allLicensed1_frame (hsp.1 i h1 h2) (not_fat2_of_region hg hsreg) ws d ha
  · refine ForestBase.chain_transfer hch rfl fun x hx => ?_
    refine ForestBase.nextOf_congr rfl ?_
    unfold fatRaw
    refine DirFrames.rawFatEntry_congr _ _ _ _ fun i h1 h2 => ?_
    exact allLicensed1_frame (hsp.2.1 x hx i h1 h2) (not_fat2_fatBlock hg (hin x hx).2) ws d ha
  · refine WriteRefines.chainBytes_congr v _ _ cs fun x hx j hj => ?_
    refine block_ext hb hb' _ fun i => ?_
    refine allLicensed1_frame (hsp.2.2 x hx j hj i) (not_fat2_of_region hg (.inr ?_)) ws d ha
    exact WriteSet.data_block_region v hg x _ (hin x hx) (Nat.le_add_right _ _) (by omega)

end Sdmmc.Lemmas.VolX.Lic
