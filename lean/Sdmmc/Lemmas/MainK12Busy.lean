/-
Bridging lemmas for `Props/C12Main2.lean`, part 6: the busy hypothesis is necessary — a card that
signals busy for more than the command budget makes the next command time out.
-/
import Sdmmc.Lemmas.MainK12Card
import Sdmmc.Lemmas.SdKeeps
import Sdmmc.Lemmas.SdCmdSeq

namespace Sdmmc.Lemmas.MainK12
open Sdmmc.Model Sdmmc.Spec.Card Sdmmc.Model.Sd Sdmmc.Lemmas.Sd Sdmmc.Gen Sdmmc.Lemmas.SdCardSim
open Sdmmc.Lemmas.SdCardSim2

/-- `wait_not_busy` with `n` retries against a card that stays busy for more than `n` bytes: timeout. -/
theorem waitNotBusy_card_timeout (n : Nat) : ∀ (s : St Card), Listening s.bus → s.bus.out = [] → n < s.bus.busyLeft →
    ∃ s', waitNotBusy cardBus n s = (.err .TimeoutWaitNotBusy, s') := by
  induction n with
  | zero =>
    intro s hL ho hb
    obtain ⟨k, hk⟩ : ∃ k, s.bus.busyLeft = k + 1 := ⟨s.bus.busyLeft - 1, by omega⟩
    simp only [waitNotBusy, bind_apply, readByte_busy s hL ho k hk]
    exact ⟨_, rfl⟩
  | succ n ih =>
    intro s hL ho hb
    obtain ⟨k, hk⟩ : ∃ k, s.bus.busyLeft = k + 1 := ⟨s.bus.busyLeft - 1, by omega⟩
    simp only [waitNotBusy, bind_apply, readByte_busy s hL ho k hk]
    obtain ⟨s', h⟩ := ih ⟨setBusy s.bus k, s.cardType, s.useCrc, s.acquireRetries, Event.poll 0 :: s.events, s.delays + 1⟩
      (hL.setBusy _) ho (by simp; omega)
    exact ⟨s', by simpa [delayTick_card] using h⟩

/-- A single-block `read` call on an identified driver whose card is busy beyond the command
budget: `TimeoutWaitNotBusy`. -/
theorem read1_call_busy_timeout (s : St Card) (ct : CardType) (hct : s.cardType = some ct) (idx start : Nat)
    (hstart : startIdx s.cardType idx = .ok start) (hL : Listening s.bus) (ho : s.bus.out = [])
    (hb : DEFAULT_COMMAND_RETRIES < s.bus.busyLeft) :
    ∃ s', call cardBus (.read 1 idx) s = (.err .TimeoutWaitNotBusy, s') := by
  obtain ⟨s', h⟩ := waitNotBusy_card_timeout DEFAULT_COMMAND_RETRIES s hL ho hb
  have hci := checkInit_of_some cardBus s (by simp [hct])
  refine ⟨s', ?_⟩
  simp only [call]
  rw [bind_ok hci]
  have hread : Sd.read cardBus 1 idx s = (.err .TimeoutWaitNotBusy, s') := by
    unfold Sd.read
    rw [bind_ok (get_apply s), bind_ok (show S.lift (startIdx s.cardType idx) s = (.ok start, s) by rw [hstart]; rfl),
      if_pos rfl]
    have hcmd : cardCommand cardBus CMD17 start s = (.err .TimeoutWaitNotBusy, s') := by
      unfold cardCommand
      dsimp only
      rw [if_pos (by decide), bind_err h]
    rw [bind_err hcmd]
  rw [bind_err hread]

/-- **The busy hypothesis is necessary.**  An identified driver on a conforming card whose `busy`
exceeds the command budget: a multi-block read succeeds (and returns the stored blocks), and the
single-block read that follows it returns `TimeoutWaitNotBusy`. -/
theorem call_after_multi_read_times_out (s : St Card) (hS : Props.C12EndToEnd.Settled s.bus)
    (hbl : s.bus.busyLeft ≤ DEFAULT_COMMAND_RETRIES) (hncr : s.bus.ncr ≤ DEFAULT_COMMAND_RETRIES)
    (hnac : s.bus.nac ≤ DEFAULT_READ_RETRIES) (n idx : Nat) (hn : n ≠ 1)
    (hadr : Props.C12EndToEnd.Addressable s.cardType s.bus.kind idx) (hidx : idx < s.bus.capacity) (hcap : idx + n ≤ s.bus.capacity)
    (hlen : ∀ j, idx ≤ j → j ≤ idx + n → j < s.bus.capacity → (getBlock s.bus j).length = 512)
    (hslow : DEFAULT_COMMAND_RETRIES < s.bus.busy) (j : Nat) (hadrj : Props.C12EndToEnd.Addressable s.cardType s.bus.kind j) :
    ∃ s1 s2, call cardBus (.read n idx) s = (.ok (.blocks ((List.range' idx n).map (getBlock s.bus))), s1) ∧
      call cardBus (.read 1 j) s1 = (.err .TimeoutWaitNotBusy, s2) := by
  obtain ⟨s1, hr, _, _, _, hS1, hb1, hct1, _⟩ :=
    Props.C12EndToEnd.read_multi_correct s hS hbl hncr hnac n idx hn hadr hidx hcap hlen
  obtain ⟨ct, hct, start, hstart⟩ : ∃ ct, s.cardType = some ct ∧ ∃ start, startIdx s.cardType j = .ok start := by
    rcases hadrj with ⟨h1, _, _⟩ | ⟨h1 | h1, _, h3⟩
    · exact ⟨_, h1, j, by rw [h1]; rfl⟩
    · exact ⟨_, h1, j * 512, by rw [h1]; exact startIdx_sd _ (Or.inl rfl) j h3⟩
    · exact ⟨_, h1, j * 512, by rw [h1]; exact startIdx_sd _ (Or.inr rfl) j h3⟩
  obtain ⟨s2, h2⟩ := read1_call_busy_timeout s1 ct (hct1.trans hct) j start (by rw [hct1]; exact hstart)
    ⟨hS1.2.2.1, by rw [hS1.2.2.2.1]; rfl⟩ hS1.2.2.2.2.2 (by rw [hb1]; exact hslow)
  refine ⟨s1, s2, ?_, h2⟩
  have hci := checkInit_of_some cardBus s (by simp [hct])
  simp only [call]
  have hr' : Sd.read cardBus n idx s = (.ok ((List.range' idx n).map (getBlock s.bus)), s1) := hr
  rw [bind_ok hci, bind_ok hr']
  rfl

end Sdmmc.Lemmas.MainK12
