/-
Lemmas for C14 over sessions, part 5: the statements in the form used by
`Sdmmc.Props.C14Session` (a data command is preceded by a complete identification run; the
multi-block clauses with "no command frame" spelled out).
-/
import Sdmmc.Lemmas.SdSessMulti

namespace Sdmmc.Lemmas.Sd
open Sdmmc.Model Sdmmc.Model.Sd Sdmmc.Gen Sdmmc.Spec.SdSession

variable {σ : Type} (B : BusOps σ)

/-- "Identified" after reading `pre` from state `b`: either it was so before and no `reset`
occurs, or there is a last `identified` mark with no `reset` after it. -/
theorem foldl_identStep_true {b : Bool} {pre : List Mark} (h : pre.foldl identStep b = true) :
    (b = true ∧ Mark.reset ∉ pre) ∨ ∃ p0 p1, pre = p0 ++ Mark.identified :: p1 ∧ Mark.reset ∉ p1 := by
  induction pre generalizing b with
  | nil => exact Or.inl ⟨h, by simp⟩
  | cons m l ih =>
    rcases ih (b := identStep b m) h with ⟨hb, hl⟩ | ⟨p0, p1, rfl, hp⟩
    · cases m with
      | identified => exact Or.inr ⟨[], l, rfl, hl⟩
      | reset => cases hb
      | call c => exact Or.inl ⟨hb, by simp [hl]⟩
      | ev e => exact Or.inl ⟨hb, by simp [hl]⟩
    · exact Or.inr ⟨m :: p0, p1, rfl, hp⟩

/-- Same body as `Sdmmc.Props.C14Session.IdentRunBefore`. -/
def IdentRunBefore (u : Bool) (pre : List Mark) : Prop :=
  ∃ p0 c body g p1, pre = p0 ++ Mark.call c :: (body ++ [Event.poll g]).map Mark.ev ++ Mark.identified :: p1 ∧
    Mark.reset ∉ p1 ∧ g < 256 ∧ IdentOnly body ∧ IdentOrder u (cmdIdxs body)

/-- Every data command of a session is preceded — with no `reset` in between — by a complete
identification run of the session, or (only for a driver that already had a card type when the
session began) by no `reset` at all. -/
theorem session_data_after_ident (cs : List Call) (s : St σ) (pre : List Mark) (f : Bytes) (post : List Mark)
    (hL : sessionMarks B cs s = pre ++ Mark.ev (.cmd f) :: post) (hn : cmdIdx f ∉ identCmds) :
    IdentRunBefore s.useCrc pre ∨ (s.cardType.isSome ∧ Mark.reset ∉ pre) := by
  have h := dataOK_spec (session_step B cs s).1 pre f post hL hn
  rcases foldl_identStep_true h with ⟨hb, hr⟩ | ⟨p0, p1, rfl, hp⟩
  · exact Or.inr ⟨hb, hr⟩
  · left
    have hL' : sessionMarks B cs s = p0 ++ Mark.identified :: (p1 ++ Mark.ev (.cmd f) :: post) := by
      rw [hL]; simp
    obtain ⟨q0, c, body, g, rfl, hg, hio, hord⟩ := session_identComplete B cs s p0 _ hL'
    exact ⟨q0, c, body, g, p1, by simp, hp, hg, hio, hord⟩

/-! ### The multi-block clauses, spelled out -/

/-- Same body as `Sdmmc.Props.C14Session.NoCmdFrames`. -/
def NoCmdFrames (evs : List Event) : Prop := ∀ f, Event.cmd f ∉ evs

theorem noCmdFrames_of_noCmds {evs : List Event} (h : NoCmds evs) : NoCmdFrames evs := by
  intro f hf
  have : Event.cmd f ∈ cmdEvs evs := by simp [cmdEvs, hf, isCmdEv]
  rw [h] at this; simp at this

/-- Same body as `Sdmmc.Props.C14Session.StoppedBy12`. -/
def StoppedBy12 (tail : List Event) : Prop :=
  ∃ mid post, tail = mid ++ Event.cmd (frame 12 0) :: post ∧ NoCmdFrames mid ∧ AllPolls post

/-- Same body as `Sdmmc.Props.C14Session.StoppedByToken`. -/
def StoppedByToken (tail : List Event) : Prop :=
  (∃ mid post, tail = mid ++ Event.byte 0xFD :: post ∧ NoCmdFrames mid ∧ AllPolls post) ∨
  (NoCmdFrames tail ∧ ∃ g, tail.getLast? = some (Event.poll g) ∧ g ≠ 255)

/-- Same body as `Sdmmc.Props.C14Session.MultiStopped`. -/
def MultiStopped (E : List Event) : Prop :=
  ∀ pre f post tail, E = pre ++ Event.cmd f :: post → AnsweredThen post tail →
    (cmdIdx f = 18 → StoppedBy12 tail) ∧ (cmdIdx f = 25 → StoppedByToken tail)

theorem multiStopped_of {E : List Event} (h : MultiTerminated E) : MultiStopped E := by
  intro pre f post tail hE hans
  obtain ⟨h18, h25⟩ := h pre f post tail hE hans
  refine ⟨fun hi => ?_, fun hi => ?_⟩
  · obtain ⟨mid, p, rfl, hm, hp⟩ := h18 hi
    exact ⟨mid, p, rfl, noCmdFrames_of_noCmds hm, hp⟩
  · rcases h25 hi with ⟨mid, p, rfl, hm, hp⟩ | ⟨hnc, hl⟩
    · exact Or.inl ⟨mid, p, rfl, noCmdFrames_of_noCmds hm, hp⟩
    · exact Or.inr ⟨noCmdFrames_of_noCmds hnc, hl⟩

theorem session_multiStopped (cs : List Call) (s : St σ) :
    ∀ blk ∈ sessionBlocks B cs s, MultiStopped (events blk) :=
  fun blk h => multiStopped_of (session_multi B cs s blk h)

theorem call_multiStopped (c : Call) (s : St σ) : MultiStopped (evsNew s (call B c s).2) := by
  rw [← events_callMarks]
  exact multiStopped_of (callMarks_multi B c s)

end Sdmmc.Lemmas.Sd
