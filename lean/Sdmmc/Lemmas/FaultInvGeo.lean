/-
C11 under the invariant, part 20: the geometry of the volume record and the shape of the volume table survive
every call under every fault schedule (`MTab`): the lock flag and the volume limit are constants, no volume record
appears, and every record that is there afterwards stems from one that was there before — same handle, same geometry
(only the two bookkeeping fields `free_clusters_count` / `next_free_cluster` may differ).  Every call except
`open_volume`.
-/
import Sdmmc.Lemmas.FaultInvLen
import Sdmmc.Lemmas.FaultApi
import Sdmmc.Lemmas.TablesInv

namespace Sdmmc.Lemmas.FaultInv
open Sdmmc.Model Sdmmc.Model.Fat Sdmmc.Spec.Volume
open Sdmmc.Spec hiding NoFault Coherent
open Sdmmc.Lemmas.Fault Sdmmc.Lemmas.FaultPre

/-! ### The engine -/

theorem truncateLoop_geo (fuel next : Nat) : Geo (truncateLoop fuel next) := by
  have := nextCluster_geo
  have := updateFat_geo
  induction fuel generalizing next with
  | zero => unfold truncateLoop; geo_auto
  | succ n ih => unfold truncateLoop; geo_auto

theorem truncateClusterChain_geo (c : Nat) : Geo (truncateClusterChain c) := by
  have := nextCluster_geo
  have := updateFat_geo
  have := truncateLoop_geo
  unfold truncateClusterChain; geo_auto

theorem freeClusterChain_geo (c : Nat) : Geo (freeClusterChain c) := by
  have := truncateClusterChain_geo
  have := updateFat_geo
  unfold freeClusterChain; geo_auto

theorem updateInfoSector_geo : Geo updateInfoSector := by
  unfold updateInfoSector; geo_auto

theorem writeEntryToDisk_geo (e : DirEntry) : Geo (writeEntryToDisk e) := by
  unfold writeEntryToDisk; geo_auto

theorem iterateBlocks_geo (n b : Nat) : Geo (iterateBlocks n b) := by
  induction n generalizing b with
  | zero => unfold iterateBlocks; geo_auto
  | succ n ih => unfold iterateBlocks; geo_auto

theorem iterateWalk_geo (fuel : Nat) (w : DirWalk) : Geo (iterateWalk fuel w) := by
  have := nextCluster_geo
  have := iterateBlocks_geo
  induction fuel generalizing w with
  | zero => unfold iterateWalk; geo_auto
  | succ n ih => unfold iterateWalk; geo_auto

theorem iterateRaw_geo (d : Nat) : Geo (iterateRaw d) := by
  have := iterateWalk_geo
  unfold iterateRaw; geo_auto

theorem findBlocks_geo (name : Bytes) (n b : Nat) : Geo (findBlocks name n b) := by
  induction n generalizing b with
  | zero => unfold findBlocks; geo_auto
  | succ n ih => unfold findBlocks; geo_auto

theorem findWalk_geo (name : Bytes) (fuel : Nat) (w : DirWalk) : Geo (findWalk name fuel w) := by
  have := nextCluster_geo
  have := findBlocks_geo
  induction fuel generalizing w with
  | zero => unfold findWalk; geo_auto
  | succ n ih => unfold findWalk; geo_auto

theorem findDirectoryEntry_geo (d : Nat) (name : Bytes) : Geo (Fat.findDirectoryEntry d name) := by
  have := findWalk_geo
  unfold Fat.findDirectoryEntry; geo_auto

theorem deleteBlocks_geo (name : Bytes) (n b : Nat) : Geo (deleteBlocks name n b) := by
  induction n generalizing b with
  | zero => unfold deleteBlocks; geo_auto
  | succ n ih => unfold deleteBlocks; geo_auto

theorem deleteWalk_geo (name : Bytes) (fuel : Nat) (w : DirWalk) : Geo (deleteWalk name fuel w) := by
  have := nextCluster_geo
  have := deleteBlocks_geo
  induction fuel generalizing w with
  | zero => unfold deleteWalk; geo_auto
  | succ n ih => unfold deleteWalk; geo_auto

theorem deleteDirectoryEntry_geo (d : Nat) (name : Bytes) : Geo (deleteDirectoryEntry d name) := by
  have := deleteWalk_geo
  unfold deleteDirectoryEntry; geo_auto

theorem makeDir_geo (parent : Nat) (sfn : Bytes) (att : Nat) (now : Timestamp) : Geo (makeDir parent sfn att now) := by
  have := allocCluster_geo
  have := zeroBlocks_geo
  have := writeNewDirectoryEntry_geo
  have := freeClusterChain_geo
  unfold makeDir; geo_auto

theorem walkClusters_geo (bpc n : Nat) (st : Nat × Nat) : Geo (walkClusters bpc n st) := by
  have := nextCluster_geo
  induction n generalizing st with
  | zero => unfold walkClusters; geo_auto
  | succ n ih => unfold walkClusters; geo_auto

theorem findDataOnDisk_geo (fileStart off : Nat) (start : Nat × Nat) : Geo (findDataOnDisk fileStart off start) := by
  have := walkClusters_geo
  unfold findDataOnDisk; geo_auto

theorem writeBlockPart_geo (b o : Nat) (data : Bytes) (whole : Bool) : Geo (writeBlockPart b o data whole) := by
  unfold writeBlockPart; geo_auto

theorem readBlock_geo (b : Nat) : Geo (do cacheRead b; cacheBlk : F Block) := by geo_auto

/-! ### The manager -/

/-- What every call (except `open_volume`) keeps of the tables' frame: lock flag, volume limit; no volume record is
added, every record stems from an old one with the same handle and the same geometry. -/
structure TabR (s s' : Mgr) : Prop where
  locked : s'.locked = s.locked
  maxVols : s'.maxVols = s.maxVols
  len : s'.vols.length ≤ s.vols.length
  stem : ∀ vi', vi' ∈ s'.vols → ∃ vi, vi ∈ s.vols ∧ vi'.rawVolume = vi.rawVolume ∧ SameGeom vi.vol vi'.vol

theorem TabR.refl (s : Mgr) : TabR s s := ⟨rfl, rfl, Nat.le_refl _, fun vi h => ⟨vi, h, rfl, sameGeom_refl' _⟩⟩
theorem TabR.trans {a b c : Mgr} (h1 : TabR a b) (h2 : TabR b c) : TabR a c :=
  ⟨h2.locked.trans h1.locked, h2.maxVols.trans h1.maxVols, Nat.le_trans h2.len h1.len, fun vi hv => by
    obtain ⟨v1, hv1, e1, g1⟩ := h2.stem vi hv
    obtain ⟨v0, hv0, e0, g0⟩ := h1.stem v1 hv1
    exact ⟨v0, hv0, e1.trans e0, sameGeom_trans' g0 g1⟩⟩

def MTab {α} (m : M α) : Prop := ∀ s, TabR s (m s).2

theorem MTab.of_eq {α} {m : M α} (h : ∀ s, (m s).2 = s) : MTab m := fun s => by rw [h s]; exact TabR.refl s
theorem MTab.of_same {α} {m : M α} (h : ∀ s, (m s).2.locked = s.locked ∧ (m s).2.maxVols = s.maxVols ∧ (m s).2.vols = s.vols) :
    MTab m := fun s => by
  obtain ⟨h1, h2, h3⟩ := h s
  exact ⟨h1, h2, by rw [h3]; exact Nat.le_refl _, fun vi hv => ⟨vi, by rw [← h3]; exact hv, rfl, sameGeom_refl' _⟩⟩

theorem MTab.pure {α} (a : α) : MTab (pure a : M α) := .of_eq fun _ => rfl
theorem MTab.lift {α} (r : Res α) : MTab (M.lift r) := .of_eq fun _ => rfl
theorem MTab.fail {α} (e : Err) : MTab (M.fail e : M α) := .of_eq fun _ => rfl
theorem MTab.panic {α} (msg : String) : MTab (M.panic msg : M α) := .of_eq fun _ => rfl
theorem MTab.get : MTab M.get := .of_eq fun _ => rfl
theorem MTab.generate : MTab generate := .of_same fun _ => ⟨rfl, rfl, rfl⟩
theorem MTab.setFile (i : Nat) (f : FileInfo) : MTab (setFile i f) := .of_same fun _ => ⟨rfl, rfl, rfl⟩
theorem MTab.modifyFile (i : Nat) (g : FileInfo → FileInfo) : MTab (modifyFile i g) := .of_same fun _ => ⟨rfl, rfl, rfl⟩
theorem MTab.modify {g : Mgr → Mgr} (h : ∀ s, (g s).locked = s.locked ∧ (g s).maxVols = s.maxVols ∧ (g s).vols = s.vols) :
    MTab (M.modify g) := .of_same h
theorem MTab.getVolumeById (raw : Nat) : MTab (getVolumeById raw) := .of_eq (getVolumeById_state raw)
theorem MTab.getDirById (raw : Nat) : MTab (getDirById raw) := .of_eq (getDirById_state raw)
theorem MTab.getFileById (raw : Nat) : MTab (getFileById raw) := .of_eq (getFileById_state raw)
theorem MTab.getDir (i : Nat) : MTab (getDir i) := .of_eq (getDir_state i)
theorem MTab.getFile (i : Nat) : MTab (getFile i) := .of_eq (getFile_state i)
theorem MTab.getVolInfo (i : Nat) : MTab (getVolInfo i) := .of_eq (getVolInfo_state i)
theorem MTab.toSfn (n : List Nat) : MTab (toSfn n) := .of_eq (toSfn_state n)

theorem MTab.withVol {α} {f : F α} (i : Nat) (hf : Geo f) : MTab (withVol i f) := by
  intro s
  rcases withVol_cases i f s with ⟨_, he⟩ | ⟨vi, hv, he⟩
  · rw [he]; exact TabR.refl s
  · rw [he]
    refine ⟨rfl, rfl, by simp only [List.length_set]; exact Nat.le_refl _, fun vi' hm => ?_⟩
    rcases List.mem_or_eq_of_mem_set hm with h | h
    · exact ⟨vi', h, rfl, sameGeom_refl' _⟩
    · subst h
      exact ⟨vi, List.mem_of_getElem? hv, rfl, hf { dev := s.dev, cache := s.cache, vol := vi.vol }⟩

theorem MTab.bind {α β} {m : M α} {f : α → M β} (hm : MTab m) (hf : ∀ a, MTab (f a)) : MTab (m >>= f) := by
  intro s
  have h1 := hm s
  rcases hr : m s with ⟨r, s'⟩
  rw [hr] at h1
  cases r with
  | ok a => rw [M.bind_ok hr]; exact h1.trans (hf a s')
  | err e => rw [M.bind_err hr]; exact h1
  | panic msg => rw [M.bind_panic hr]; exact h1
  | diverged => rw [M.bind_diverged hr]; exact h1

theorem MTab.attempt {α} {m : M α} (hm : MTab m) : MTab (M.attempt m) := fun s => hm s

/-- `close_volume`'s removal. -/
theorem MTab.removeVol (i : Nat) : MTab (M.modify fun s => { s with vols := swapRemove s.vols i }) := fun s =>
  ⟨rfl, rfl, Tables.swapRemove_length_le s.vols i, fun vi hv => by
    have hv' : vi ∈ swapRemove s.vols i := hv
    have := (Tables.swapRemove_map_subP s.vols id i).mem (x := vi) (by rw [List.map_id]; exact hv')
    rw [List.map_id] at this
    exact ⟨vi, this, rfl, sameGeom_refl' _⟩⟩

macro "mtab_step" : tactic => `(tactic| first
  | with_reducible first
    | apply_hyp
    | exact MTab.pure _
    | exact MTab.lift _
    | exact MTab.fail _
    | exact MTab.panic _
    | exact MTab.get
    | exact MTab.generate
    | exact MTab.setFile _ _
    | exact MTab.modifyFile _ _
    | exact MTab.getFileById _
    | exact MTab.getDirById _
    | exact MTab.getVolumeById _
    | exact MTab.getFile _
    | exact MTab.getDir _
    | exact MTab.getVolInfo _
    | exact MTab.toSfn _
    | exact MTab.removeVol _
    | refine MTab.modify ?_
    | apply MTab.withVol
    | apply MTab.attempt
    | apply MTab.bind
  | exact fun _ => ⟨rfl, rfl, rfl⟩
  | geo_step)

macro "mtab_auto" : tactic => `(tactic| repeat mtab_step)

theorem closeVolume_mtab (v : Nat) : MTab (closeVolume v) := by
  have := @updateInfoSector_geo
  unfold closeVolume; mtab_auto
theorem openRootDir_mtab (v : Nat) : MTab (openRootDir v) := by unfold openRootDir; mtab_auto
theorem openDir_mtab (d : Nat) (name : List Nat) : MTab (openDir d name) := by
  have := @findDirectoryEntry_geo
  unfold openDir; mtab_auto
theorem closeDir_mtab (d : Nat) : MTab (closeDir d) := by unfold closeDir; mtab_auto
theorem openFileInDir_mtab (d : Nat) (name : List Nat) (mode : Mode) : MTab (openFileInDir d name mode) := by
  have := @findDirectoryEntry_geo
  have := @writeNewDirectoryEntry_geo
  have := @truncateClusterChain_geo
  have := @writeEntryToDisk_geo
  unfold openFileInDir; mtab_auto
theorem readLoop_mtab (fi vi so fuel space : Nat) (acc : Bytes) : MTab (readLoop fi vi so fuel space acc) := by
  have := @findDataOnDisk_geo
  have := @readBlock_geo
  induction fuel generalizing space acc with
  | zero => unfold readLoop; mtab_auto
  | succ n ih => unfold readLoop; mtab_auto
theorem read_mtab (f n : Nat) : MTab (Model.read f n) := by
  have := @readLoop_mtab
  unfold Model.read; mtab_auto
theorem writeLoop_mtab (fi vi fuel : Nat) (buf : Bytes) : MTab (writeLoop fi vi fuel buf) := by
  have := @findDataOnDisk_geo
  have := @allocCluster_geo
  have := @writeBlockPart_geo
  induction fuel generalizing buf with
  | zero => unfold writeLoop; mtab_auto
  | succ n ih => unfold writeLoop; mtab_auto
theorem write_mtab (f : Nat) (buf : Bytes) : MTab (Model.write f buf) := by
  have := @writeLoop_mtab
  have := @allocCluster_geo
  unfold Model.write; mtab_auto
theorem fileSeekFromStart_mtab (f n : Nat) : MTab (fileSeekFromStart f n) := by unfold fileSeekFromStart; mtab_auto
theorem fileSeekFromCurrent_mtab (f : Nat) (n : Int) : MTab (fileSeekFromCurrent f n) := by unfold fileSeekFromCurrent; mtab_auto
theorem fileSeekFromEnd_mtab (f n : Nat) : MTab (fileSeekFromEnd f n) := by unfold fileSeekFromEnd; mtab_auto
theorem flushFile_mtab (f : Nat) : MTab (flushFile f) := by
  have := @updateInfoSector_geo
  have := @writeEntryToDisk_geo
  unfold flushFile; mtab_auto
theorem closeFile_mtab (f : Nat) : MTab (closeFile f) := by
  have := @flushFile_mtab
  unfold closeFile; mtab_auto
theorem deleteFileInDir_mtab (d : Nat) (name : List Nat) : MTab (deleteFileInDir d name) := by
  have := @findDirectoryEntry_geo
  have := @deleteDirectoryEntry_geo
  have := @freeClusterChain_geo
  unfold deleteFileInDir; mtab_auto
theorem makeDirInDir_mtab (d : Nat) (name : List Nat) : MTab (makeDirInDir d name) := by
  have := @findDirectoryEntry_geo
  have := @makeDir_geo
  unfold makeDirInDir; mtab_auto
theorem findDirectoryEntry_mtab (d : Nat) (name : List Nat) : MTab (Model.findDirectoryEntry d name) := by
  have := @findDirectoryEntry_geo
  unfold Model.findDirectoryEntry; mtab_auto
theorem iterateDir_mtab (d : Nat) : MTab (iterateDir d) := by
  have := @iterateRaw_geo
  unfold iterateDir; mtab_auto
theorem iterateDirLfn_mtab (d n : Nat) : MTab (iterateDirLfn d n) := by
  have := @iterateRaw_geo
  unfold iterateDirLfn; mtab_auto
theorem fileLength_mtab (f : Nat) : MTab (fileLength f) := by unfold fileLength; mtab_auto
theorem fileOffset_mtab (f : Nat) : MTab (fileOffset f) := by unfold fileOffset; mtab_auto
theorem fileEof_mtab (f : Nat) : MTab (fileEof f) := by unfold fileEof; mtab_auto
theorem getRootVolumeLabel_mtab (v : Nat) : MTab (getRootVolumeLabel v) := by
  have := @openRootDir_mtab
  have := @iterateDir_mtab
  have := @closeDir_mtab
  unfold getRootVolumeLabel; mtab_auto

theorem MTab.map {α β} {m : M α} (g : α → β) (h : MTab m) : MTab (m >>= fun a => (Pure.pure (g a) : M β)) :=
  MTab.bind h fun _ => MTab.pure _

/-- **Every call except `open_volume`.** -/
theorem runOp_mtab (op : Op) (h : ∀ i, op ≠ .openVolume i) : MTab (runOp op) := by
  cases op
  case openVolume i => exact absurd rfl (h i)
  case closeVolume v => exact .map _ (closeVolume_mtab v)
  case openRoot v => exact .map _ (openRootDir_mtab v)
  case openDir d n => exact .map _ (openDir_mtab d n)
  case closeDir d => exact .map _ (closeDir_mtab d)
  case openFile d n m => exact .map _ (openFileInDir_mtab d n m)
  case read f n => exact .map _ (read_mtab f n)
  case write f b => exact .map _ (write_mtab f b)
  case seekStart f n => exact .map _ (fileSeekFromStart_mtab f n)
  case seekCur f n => exact .map _ (fileSeekFromCurrent_mtab f n)
  case seekEnd f n => exact .map _ (fileSeekFromEnd_mtab f n)
  case flush f => exact .map _ (flushFile_mtab f)
  case closeFile f => exact .map _ (closeFile_mtab f)
  case delete d n => exact .map _ (deleteFileInDir_mtab d n)
  case mkdir d n => exact .map _ (makeDirInDir_mtab d n)
  case find d n => exact .map _ (findDirectoryEntry_mtab d n)
  case list d => exact .map _ (iterateDir_mtab d)
  case listLfn d n => exact .map _ (iterateDirLfn_mtab d n)
  case length f => exact .map _ (fileLength_mtab f)
  case offset f => exact .map _ (fileOffset_mtab f)
  case eof f => exact .map _ (fileEof_mtab f)
  case hasOpen => exact .of_eq fun _ => rfl
  case label v => exact .map _ (getRootVolumeLabel_mtab v)

end Sdmmc.Lemmas.FaultInv
