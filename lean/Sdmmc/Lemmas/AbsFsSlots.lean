/-
Refinement of the API to the abstract file system, part 4: slots of the tree are determined by their
position (`slot_unique`), the slot an open file sits at (`open_file_object`), and what the abstract
directory holds there (`handle_slot`).
-/
import Sdmmc.Lemmas.AbsFsSteps2
import Sdmmc.Lemmas.VolApiDelete

namespace Sdmmc.Lemmas.AbsFs
open Sdmmc.Model Sdmmc.Model.Fat Sdmmc.Spec.Volume Sdmmc.Lemmas.VolBase Sdmmc.Lemmas.VolTree
open Sdmmc.Spec hiding NoFault Coherent
open Sdmmc.Spec.AbsFs (Meta view storedMeta fatRound OpenFile OpenDir absStep)
open Sdmmc.Lemmas.VolDisk Sdmmc.Lemmas.VolMed Sdmmc.Lemmas.VolApi

theorem eq_of_nodup_map {α β : Type} (f : α → β) : ∀ {l : List α}, (l.map f).Nodup → ∀ {x y : α}, x ∈ l → y ∈ l → f x = f y → x = y
  | [], _, _, _, hx, _, _ => by cases hx
  | a :: l, hnd, x, y, hx, hy, he => by
    rw [List.map_cons, List.nodup_cons] at hnd
    rcases List.mem_cons.1 hx with ex | hx
    · rcases List.mem_cons.1 hy with ey | hy
      · rw [ex, ey]
      · exact absurd (List.mem_map.2 ⟨y, hy, by rw [← he, ex]⟩) hnd.1
    · rcases List.mem_cons.1 hy with ey | hy
      · exact absurd (List.mem_map.2 ⟨x, hx, by rw [he, ey]⟩) hnd.1
      · exact eq_of_nodup_map f hnd.2 hx hy he

section
variable {v : FatVolume} {d : Disk} {files : List FileInfo} {gh : Ghost} {X : List (List Nat)}

/-- A slot of the tree is determined by its position. -/
theorem slot_unique (hM : MedX v d files gh X) {h h' : Nat} (hh : h ∈ dirIds gh.dirs) (hh' : h' ∈ dirIds gh.dirs)
    {s t : Slot} (hs : s ∈ dirSlots v d gh.G h) (ht : t ∈ dirSlots v d gh.G h') (hp : spos s = spos t) : h = h' ∧ s = t := by
  have hhh : h = h' := by
    by_contra hne
    exact dirSlots_pos_disjoint hM hh hh' hne d d hs ht hp
  subst hhh
  exact ⟨rfl, eq_of_nodup_map spos (dirSlots_pos_nodup hM hh d) hs ht hp⟩

theorem mem_of_beforeEnd_getElem? {ss : List Slot} {i : Nat} {o : Slot} (h : (beforeEnd ss)[i]? = some o) : o ∈ ss :=
  (mem_beforeEnd (List.mem_of_getElem? h)).1

/-- The slot an open file sits at. -/
theorem open_file_object (hM : MedX v d files gh X) {f : FileInfo} (hf : f ∈ files) {h i : Nat} {o : Slot}
    (hh : h ∈ dirIds gh.dirs) (ho : (beforeEnd (dirSlots v d gh.G h))[i]? = some o) (hp : spos o = fkey f) :
    o ∈ objects h (dirSlots v d gh.G h) ∧ keep o = true ∧ isDirE o = false ∧ sName o = f.entry.name ∧
    pendOf files o = some f ∧ (f.dirty = false → sCluster v.fatType o = f.entry.cluster ∧ sSize o = f.entry.size) := by
  obtain ⟨h', hh', o', ho', h1, h2, h3, h4, h5⟩ := hM.tree.fileSlots f hf
  have hp' : spos o = spos o' := hp.trans (Prod.ext h1.symm h2.symm)
  obtain ⟨rfl, rfl⟩ := slot_unique hM hh hh' (mem_of_beforeEnd_getElem? ho) (mem_of_mem_objects ho') hp'
  obtain ⟨_, _, hE5, hfr⟩ := mem_entries (VolEng.mem_entries_of_objects ho')
  refine ⟨ho', ?_, h3, h4, (pendOf_some_iff hM.tree.filesDistinct o f).2 ⟨hf, hp.symm⟩, h5⟩
  unfold keep
  simp [hE5, hfr]

end

theorem absSlot_file {ft : FatType} {cont : Slot → Bytes} {o : Slot} (hk : keep o = true) (hd : isDirE o = false) :
    absSlot ft cont o = .file (metaOf ft o) (cont o) := by
  unfold keep at hk
  simp only [Bool.and_eq_true, decide_eq_true_eq, Bool.not_eq_true'] at hk
  unfold absSlot
  rw [if_neg hk.1, if_neg (by rw [hk.2]; exact Bool.false_ne_true), if_neg (by rw [hd]; exact Bool.false_ne_true)]

theorem absSlot_dir {ft : FatType} {cont : Slot → Bytes} {o : Slot} (hk : keep o = true) (hd : isDirE o = true) :
    absSlot ft cont o = .dir (metaOf ft o) (dirIdOf (Listing.decode ft o).cluster) := by
  unfold keep at hk
  simp only [Bool.and_eq_true, decide_eq_true_eq, Bool.not_eq_true'] at hk
  unfold absSlot
  rw [if_neg hk.1, if_neg (by rw [hk.2]; exact Bool.false_ne_true), if_pos hd]

/-- The bytes of the file an open record sits at: the content of the record's chain. -/
theorem contentOf_open {v : FatVolume} {d : Disk} {G : List (List Nat)} {files : List FileInfo} {o : Slot} {f : FileInfo}
    (hp : pendOf files o = some f) :
    contentOf v d G files o = fileContent v d (chainOf G f.entry.cluster) f.entry.size := by
  unfold contentOf
  rw [effCluster_of_pend hp, effSize_of_pend hp]

/-- What the abstract directory holds where an open file sits. -/
theorem handle_slot {s : Mgr} {gh : Ghost} {a : AState} (hI : VolInv s gh) (hA : Abs s gh a) {af : OpenFile} {f : FileInfo}
    (hf : f ∈ s.files) (hrel : FileRel s gh af f) :
    ∃ o, (beforeEnd (dirSlots gh.vol s.dev.disk gh.G af.dir))[af.idx]? = some o ∧ spos o = fkey f ∧
      o ∈ objects af.dir (dirSlots gh.vol s.dev.disk gh.G af.dir) ∧ keep o = true ∧ isDirE o = false ∧
      pendOf s.files o = some f ∧
      (a.slots af.dir)[af.idx]? =
        some (.file (metaOf gh.vol.fatType o) (fileContent gh.vol s.dev.disk (chainOf gh.G f.entry.cluster) f.entry.size)) := by
  obtain ⟨o, ho, hp⟩ := hrel.slot
  have hM := medX_of_med hI.med
  obtain ⟨h1, h2, h3, _, h5, _⟩ := open_file_object hM hf hrel.dirMem ho hp
  refine ⟨o, ho, hp, h1, h2, h3, h5, ?_⟩
  rw [hA.slots _ hrel.dirMem]
  unfold absSlots
  rw [List.getElem?_map, ho]
  simp only [Option.map_some]
  rw [absSlot_file h2 h3, contentOf_open h5]

end Sdmmc.Lemmas.AbsFs
