/-
Lemmas for C17, part 3: the exact text produced by pushing a sequence of fragments.
-/
import Sdmmc.Lemmas.C17Store

namespace Sdmmc.Lemmas.C17
open Sdmmc.Model Sdmmc.Model.Lfn
open Sdmmc.Spec.Utf (decodeUtf16Lossy isScalar encodeScalar ValidUtf8)

/-- Same body as `Sdmmc.Props.C17.nameUnits`. -/
def nameUnits (frags : List (List Nat)) : List Nat := (frags.reverse.map fun f => f.takeWhile (· ≠ 0)).flatten

/-- Same equations as `Sdmmc.Props.C17.pushAll`. -/
def pushAll (b : Buf) : List (List Nat) → Res Buf
  | [] => .ok b
  | f :: fs => (push b f).bind fun b' => pushAll b' fs

theorem nameUnits_nil : nameUnits [] = [] := rfl

theorem nameUnits_cons (f : List Nat) (fs : List (List Nat)) :
    nameUnits (f :: fs) = nameUnits fs ++ f.takeWhile (· ≠ 0) := by
  simp [nameUnits]

/-- The name pushed so far is `U`; `U'` is the part of it that has been emitted (all of it, or
all but a carried first unit).  A carried high surrogate is not followed by a low one, and the
emitted part never starts with a low surrogate unless a low surrogate is carried. -/
def NameInv (b : Buf) (U U' : List Nat) : Prop :=
  (b.unpaired = none → U = U' ∧ headLow U' = false) ∧
  (∀ u, b.unpaired = some u → U = u :: U' ∧ isSurrogate u = true ∧ (isHigh u = true → headLow U' = false))

/-- If the carried unit (if any) is high, the emitted part does not start with a low unit. -/
theorem NameInv.no_pair {b : Buf} {U U' : List Nat} (h : NameInv b U U') {x : Nat}
    (hx : ∀ c, b.unpaired = some c → c = x) (hh : isHigh x = true) : headLow U' = false := by
  cases hu : b.unpaired with
  | none => exact (h.1 hu).2
  | some c =>
    have := hx c hu
    subst this
    exact (h.2 c hu).2.2 hh

theorem pushUnits_append (b : Buf) (f : List Nat) {U U' : List Nat} (h : NameInv b U U') :
    pushUnits b f ++ U' = f.takeWhile (· ≠ 0) ++ U := by
  unfold pushUnits
  cases hu : b.unpaired with
  | none => rw [(h.1 hu).1]; simp
  | some c => rw [(h.2 c hu).1]; simp

/-- One `push` extends the described name by the fragment (cut at its first NUL). -/
theorem push_step (size : Nat) (b : Buf) (f : List Nat) (U U' : List Nat) (hf : f.length = 13)
    (hinv : NameInv b U U') (hh : Holds size b (Spec.Utf.encodeUtf8 (decodeUtf16Lossy U'))) :
    ∃ b' U'', push b f = .ok b' ∧ NameInv b' (f.takeWhile (· ≠ 0) ++ U) U'' ∧
      Holds size b' (Spec.Utf.encodeUtf8 (decodeUtf16Lossy U'')) := by
  have hspec := push_spec b f (pushUnits_length_le b f hf)
  have happ := pushUnits_append b f hinv
  generalize hW : pushUnits b f = W at hspec happ
  obtain ⟨P, hP⟩ := splitFirst_suffix W
  refine ⟨_, (splitFirst W).2 ++ U', hspec, ?_, ?_⟩
  · -- the name invariant
    have hup : (store { b with unpaired := (splitFirst W).1 }
        (decodeUtf16Lossy (splitFirst W).2).reverse).unpaired = (splitFirst W).1 := by
      rw [store_unpaired]
    refine ⟨fun hn => ?_, fun s hs => ?_⟩
    · rw [hup] at hn
      have ⟨h2, h3⟩ := splitFirst_none hn
      rw [h2, ← happ]
      refine ⟨rfl, ?_⟩
      by_cases hWn : W = []
      · subst hWn
        have : b.unpaired = none := by
          unfold pushUnits at hW
          cases hu : b.unpaired with
          | none => rfl
          | some c => rw [hu] at hW; simp at hW
        exact (hinv.1 this).2
      · rw [headLow_append_of_ne_nil _ hWn]; exact h3
    · rw [hup] at hs
      have ⟨h1, h2, h3⟩ := splitFirst_some hs
      refine ⟨?_, h2, fun hhs => ?_⟩
      · rw [← happ]
        conv => lhs; rw [h1]
        rfl
      · by_cases hWn : (splitFirst W).2 = []
        · rw [hWn, List.nil_append]
          rw [hWn] at h1
          -- `W = [s]`: either the fragment is `[s]` and nothing was carried, or `s` was carried
          apply hinv.no_pair (x := s) _ hhs
          intro c hc
          unfold pushUnits at hW
          rw [hc, h1] at hW
          simp only [Option.toList_some] at hW
          have := List.append_inj_right' (show _ ++ [c] = [] ++ [s] from hW) rfl
          cases this; rfl
        · rw [headLow_append_of_ne_nil _ hWn]; exact h3 hhs
  · -- the stored text
    have hst := store_holds size (decodeUtf16Lossy (splitFirst W).2).reverse
      { b with unpaired := (splitFirst W).1 } _ hh
    rw [List.reverse_reverse, ← encAll_append, ← lossy_append] at hst
    · exact hst
    · intro A' x hA hx
      apply hinv.no_pair (x := x) _ hx
      intro c hc
      unfold pushUnits at hW
      rw [hc, hP, hA] at hW
      simp only [Option.toList_some] at hW
      rw [← List.append_assoc] at hW
      have := List.append_inj_right' hW rfl
      cases this; rfl

/-- Pushing the fragments `fs` onto a buffer describing the name `U` gives a buffer describing
`nameUnits fs ++ U`. -/
theorem pushAll_inv (size : Nat) (fs : List (List Nat)) : ∀ (b : Buf) (U U' : List Nat),
    (∀ f ∈ fs, f.length = 13) → NameInv b U U' →
    Holds size b (Spec.Utf.encodeUtf8 (decodeUtf16Lossy U')) →
    ∃ b' U'', pushAll b fs = .ok b' ∧ NameInv b' (nameUnits fs ++ U) U'' ∧
      Holds size b' (Spec.Utf.encodeUtf8 (decodeUtf16Lossy U'')) := by
  induction fs with
  | nil => intro b U U' _ hinv hh; exact ⟨b, U', rfl, hinv, hh⟩
  | cons f fs ih =>
    intro b U U' hfs hinv hh
    obtain ⟨b1, U1, hp, hinv1, hh1⟩ :=
      push_step size b f U U' (hfs f (List.mem_cons_self ..)) hinv hh
    obtain ⟨b2, U2, hp2, hinv2, hh2⟩ :=
      ih b1 _ U1 (fun g hg => hfs g (List.mem_cons_of_mem _ hg)) hinv1 hh1
    refine ⟨b2, U2, ?_, ?_, hh2⟩
    · show (push b f).bind (fun b' => pushAll b' fs) = _
      rw [hp]; exact hp2
    · rw [nameUnits_cons, List.append_assoc]; exact hinv2

theorem new_nameInv (storage : Bytes) : NameInv (Lfn.new storage) [] [] :=
  ⟨fun _ => ⟨rfl, rfl⟩, fun u h => by cases h⟩

theorem new_holds (size : Nat) :
    Holds size (Lfn.new (zeros size)) (Spec.Utf.encodeUtf8 (decodeUtf16Lossy [])) := by
  have hz : (zeros size).length = size := by simp [zeros]
  rw [lossy_nil, encAll_nil]
  refine ⟨hz, ?_, fun h => (by cases h), fun _ => ⟨?_, ?_⟩⟩
  · show (zeros size).length ≤ size; omega
  · show (zeros size).length + 0 = size; omega
  · show (zeros size).drop (zeros size).length = []
    rw [List.drop_length]

theorem asStr_of_holds {size : Nat} {b : Buf} {T : Bytes} (h : Holds size b T) :
    asStr b = if T.length ≤ size then T else [] := by
  obtain ⟨_, _, hov, hno⟩ := h
  unfold asStr
  cases hb : b.overflow
  · have ⟨h1, h2⟩ := hno hb
    have hle : T.length ≤ size := by omega
    rw [if_pos hle]; simpa using h2
  · have := hov hb
    have hle : ¬ T.length ≤ size := by omega
    rw [if_neg hle]; rfl

/-- The result of pushing a whole fragment sequence into a fresh buffer. -/
theorem pushAll_new (size : Nat) (frags : List (List Nat)) (hf : ∀ f ∈ frags, f.length = 13) :
    ∃ b U', pushAll (Lfn.new (zeros size)) frags = .ok b ∧ NameInv b (nameUnits frags) U' ∧
      asStr b = if (Spec.Utf.encodeUtf8 (decodeUtf16Lossy U')).length ≤ size
        then Spec.Utf.encodeUtf8 (decodeUtf16Lossy U') else [] := by
  obtain ⟨b, U', h1, h2, h3⟩ :=
    pushAll_inv size frags _ [] [] hf (new_nameInv _) (new_holds size)
  rw [List.append_nil] at h2
  exact ⟨b, U', h1, h2, asStr_of_holds h3⟩

/-- Any function with the defining equations of `pushAll` is `pushAll`. -/
theorem pushAll_unique {pa : Buf → List (List Nat) → Res Buf}
    (h0 : ∀ b, pa b [] = .ok b)
    (h1 : ∀ b f fs, pa b (f :: fs) = (push b f).bind (fun b' => pa b' fs)) :
    ∀ fs b, pa b fs = pushAll b fs := by
  intro fs
  induction fs with
  | nil => intro b; rw [h0]; rfl
  | cons f fs ih =>
    intro b
    rw [h1]
    show _ = (push b f).bind (fun b' => pushAll b' fs)
    congr 1
    funext b'
    exact ih b'

end Sdmmc.Lemmas.C17
