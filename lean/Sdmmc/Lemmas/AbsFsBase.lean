/-
Refinement of the API to the abstract file system (`Sdmmc.Spec.AbsFs`), part 1: the abstraction —
how a directory slot, a directory, the handle tables of a manager state with `VolInv s gh` are read as
abstract objects (`absSlot`, `absSlots`, `FileRel`, `Abs`) — and the list lemmas the steps share:
lookup and listing of an abstracted directory, `Forall₂` over the file table.
-/
import Sdmmc.Spec.AbsFs
import Sdmmc.Lemmas.VolApiRO

namespace Sdmmc.Lemmas.AbsFs
open Sdmmc.Model Sdmmc.Model.Fat Sdmmc.Spec.Volume Sdmmc.Lemmas.VolBase Sdmmc.Lemmas.VolTree
open Sdmmc.Spec hiding NoFault Coherent
open Sdmmc.Spec.AbsFs (Meta view storedMeta fatRound OpenFile OpenDir)
open Sdmmc.Lemmas.VolDisk Sdmmc.Lemmas.VolMed

abbrev ASlot := Sdmmc.Spec.AbsFs.Slot
abbrev AState := Sdmmc.Spec.AbsFs.AbsFs

/-! ### One slot, one directory -/

/-- The stored entry of a slot, abstractly. -/
def metaOf (ft : FatType) (s : Slot) : Meta := view (Listing.decode ft s)

/-- A concrete slot (before the end marker) read as an abstract one; `cont` gives the bytes of a file. -/
def absSlot (ft : FatType) (cont : Slot → Bytes) (s : Slot) : ASlot :=
  if first s = 0xE5 then .deleted
  else if isFrag s then .frag s.2.2
  else if isDirE s then .dir (metaOf ft s) (dirIdOf (Listing.decode ft s).cluster)
  else .file (metaOf ft s) (cont s)

/-- The bytes of the file at slot `o`: the chain its (effective) first cluster names, cut at its
(effective) size. -/
def contentOf (v : FatVolume) (d : Disk) (G : List (List Nat)) (files : List FileInfo) (o : Slot) : Bytes :=
  fileContent v d (chainOf G (effCluster v.fatType files o)) (effSize files o)

/-- Directory `h`, abstractly. -/
def absSlots (s : Mgr) (gh : Ghost) (h : Nat) : List ASlot :=
  (beforeEnd (dirSlots gh.vol s.dev.disk gh.G h)).map
    (absSlot gh.vol.fatType (contentOf gh.vol s.dev.disk gh.G s.files))

/-- An open file and its abstract counterpart. -/
structure FileRel (s : Mgr) (gh : Ghost) (af : OpenFile) (f : FileInfo) : Prop where
  handle : af.handle = f.rawFile
  volume : af.volume = f.rawVolume
  mode : af.mode = f.mode
  pos : af.pos = f.currentOffset
  pm : af.pm = view f.entry
  dirty : af.dirty = f.dirty
  dirMem : af.dir ∈ dirIds gh.dirs
  slot : ∃ o, (beforeEnd (dirSlots gh.vol s.dev.disk gh.G af.dir))[af.idx]? = some o ∧ spos o = fkey f

def absDir (d : DirInfo) : OpenDir := ⟨d.rawDirectory, d.rawVolume, dirIdOf d.cluster⟩

/-- **The abstraction relation.** -/
structure Abs (s : Mgr) (gh : Ghost) (a : AState) : Prop where
  nextId : a.nextId = s.nextId
  maxDirs : a.maxDirs = s.maxDirs
  maxFiles : a.maxFiles = s.maxFiles
  clock : a.clock = s.clock
  locked : a.locked = s.locked
  vols : a.vols = s.vols.map fun v => (v.rawVolume, v.idx)
  dirs : a.dirs = s.dirs.map absDir
  files : List.Forall₂ (FileRel s gh) a.files s.files
  ids : a.ids = dirIds gh.dirs
  slots : ∀ h, h ∈ dirIds gh.dirs → a.slots h = absSlots s gh h

/-! ### `Forall₂` -/

theorem forall₂_getElem? {α β : Type} {R : α → β → Prop} {l1 : List α} {l2 : List β} (h : List.Forall₂ R l1 l2) (i : Nat) :
    (l1[i]? = none ∧ l2[i]? = none) ∨ ∃ x y, l1[i]? = some x ∧ l2[i]? = some y ∧ R x y := by
  induction h generalizing i with
  | nil => exact .inl ⟨rfl, rfl⟩
  | cons hxy _ ih =>
    cases i with
    | zero => exact .inr ⟨_, _, rfl, rfl, hxy⟩
    | succ i => simpa using ih i

theorem forall₂_right {α β : Type} {R : α → β → Prop} {l1 : List α} {l2 : List β} (h : List.Forall₂ R l1 l2) {i : Nat} {y : β}
    (hy : l2[i]? = some y) : ∃ x, l1[i]? = some x ∧ R x y := by
  rcases forall₂_getElem? h i with ⟨_, h2⟩ | ⟨x, y', h1, h2, hr⟩
  · rw [h2] at hy; cases hy
  · rw [h2] at hy; cases hy; exact ⟨x, h1, hr⟩

theorem forall₂_findIdx? {α β : Type} {R : α → β → Prop} {l1 : List α} {l2 : List β} (h : List.Forall₂ R l1 l2)
    (p : α → Bool) (q : β → Bool) (hpq : ∀ x y, R x y → p x = q y) : l1.findIdx? p = l2.findIdx? q := by
  induction h with
  | nil => rfl
  | cons hxy _ ih => rw [List.findIdx?_cons, List.findIdx?_cons, hpq _ _ hxy, ih]

theorem forall₂_any {α β : Type} {R : α → β → Prop} {l1 : List α} {l2 : List β} (h : List.Forall₂ R l1 l2)
    (p : α → Bool) (q : β → Bool) (hpq : ∀ x y, R x y → p x = q y) : l1.any p = l2.any q := by
  induction h with
  | nil => rfl
  | cons hxy _ ih => rw [List.any_cons, List.any_cons, hpq _ _ hxy, ih]

theorem forall₂_set {α β : Type} {R : α → β → Prop} {l1 : List α} {l2 : List β} (h : List.Forall₂ R l1 l2) (i : Nat)
    {x : α} {y : β} (hr : R x y) : List.Forall₂ R (l1.set i x) (l2.set i y) := by
  induction h generalizing i with
  | nil => exact .nil
  | cons hxy hrest ih =>
    cases i with
    | zero => exact .cons hr hrest
    | succ i => exact .cons hxy (ih i)

theorem forall₂_append {α β : Type} {R : α → β → Prop} {l1 l1' : List α} {l2 l2' : List β} (h : List.Forall₂ R l1 l2)
    (h' : List.Forall₂ R l1' l2') : List.Forall₂ R (l1 ++ l1') (l2 ++ l2') := by
  induction h with
  | nil => exact h'
  | cons hxy _ ih => exact .cons hxy ih

theorem forall₂_length {α β : Type} {R : α → β → Prop} {l1 : List α} {l2 : List β} (h : List.Forall₂ R l1 l2) :
    l1.length = l2.length := by
  induction h with
  | nil => rfl
  | cons _ _ ih => simp [ih]

theorem forall₂_mono {α β : Type} {R R' : α → β → Prop} {l1 : List α} {l2 : List β} (h : List.Forall₂ R l1 l2)
    (hm : ∀ x y, y ∈ l2 → R x y → R' x y) : List.Forall₂ R' l1 l2 := by
  induction h with
  | nil => exact .nil
  | cons hxy _ ih =>
    exact .cons (hm _ _ List.mem_cons_self hxy) (ih fun x y hy => hm x y (List.mem_cons_of_mem _ hy))

theorem forall₂_dropLast {α β : Type} {R : α → β → Prop} {l1 : List α} {l2 : List β} (h : List.Forall₂ R l1 l2) :
    List.Forall₂ R l1.dropLast l2.dropLast := by
  induction h with
  | nil => exact .nil
  | @cons x y t1 t2 hxy hrest ih =>
    cases hrest with
    | nil => exact .nil
    | cons h2 hr2 => exact .cons hxy ih

theorem forall₂_getLast? {α β : Type} {R : α → β → Prop} {l1 : List α} {l2 : List β} (h : List.Forall₂ R l1 l2) :
    (l1.getLast? = none ∧ l2.getLast? = none) ∨ ∃ x y, l1.getLast? = some x ∧ l2.getLast? = some y ∧ R x y := by
  have hl := forall₂_length h
  rw [List.getLast?_eq_getElem?, List.getLast?_eq_getElem?, hl]
  exact forall₂_getElem? h _

theorem forall₂_swapRemove {α β : Type} {R : α → β → Prop} {l1 : List α} {l2 : List β} (h : List.Forall₂ R l1 l2) (i : Nat) :
    List.Forall₂ R (swapRemove l1 i) (swapRemove l2 i) := by
  unfold swapRemove
  have hl := forall₂_length h
  rcases forall₂_getLast? h with ⟨e1, e2⟩ | ⟨x, y, e1, e2, hxy⟩
  · rw [e1, e2]; exact h
  · rw [e1, e2]
    rcases forall₂_getElem? h i with ⟨g1, g2⟩ | ⟨x', y', g1, g2, _⟩
    · rw [g1, g2]; exact h
    · rw [g1, g2, hl]
      by_cases hi : i = l2.length - 1
      · simp only [if_pos hi]; exact forall₂_dropLast h
      · simp only [if_neg hi]; exact forall₂_dropLast (forall₂_set h i hxy)

theorem map_swapRemove {α β : Type} (f : α → β) (l : List α) (i : Nat) : (swapRemove l i).map f = swapRemove (l.map f) i := by
  unfold swapRemove
  rw [List.getLast?_map, List.getElem?_map]
  cases h1 : l.getLast? with
  | none => simp
  | some last =>
    cases h2 : l[i]? with
    | none => simp
    | some x =>
      simp only [Option.map_some, List.length_map]
      split
      · rw [List.map_dropLast]
      · rw [List.map_dropLast, List.map_set]

/-! ### Lookup and listing of an abstracted directory -/

theorem named_absSlot (ft : FatType) (cont : Slot → Bytes) (name : Bytes) (s : Slot) :
    Spec.AbsFs.Slot.named name (absSlot ft cont s) = (keep s && decide (sName s = name)) := by
  unfold absSlot keep
  by_cases h1 : first s = 0xE5
  · rw [if_pos h1]
    simp [Spec.AbsFs.Slot.named, Spec.AbsFs.Slot.meta?, h1]
  · rw [if_neg h1]
    by_cases h2 : isFrag s = true
    · rw [if_pos h2]
      simp [Spec.AbsFs.Slot.named, Spec.AbsFs.Slot.meta?, h2]
    · rw [if_neg h2]
      have h2' : isFrag s = false := by simpa using h2
      have hname : (metaOf ft s).name = sName s := (decode_fields ft s).1
      by_cases h3 : isDirE s = true
      · rw [if_pos h3]
        simp [Spec.AbsFs.Slot.named, Spec.AbsFs.Slot.meta?, h1, h2', hname]
      · rw [if_neg h3]
        simp [Spec.AbsFs.Slot.named, Spec.AbsFs.Slot.meta?, h1, h2', hname]

/-- Abstract lookup is the concrete index search. -/
theorem lookup_abs (ft : FatType) (cont : Slot → Bytes) (name : Bytes) (ss : List Slot) :
    Spec.AbsFs.lookup (ss.map (absSlot ft cont)) name = ss.findIdx? fun s => keep s && decide (sName s = name) := by
  unfold Spec.AbsFs.lookup
  rw [List.findIdx?_map]
  congr 1
  funext s
  exact named_absSlot ft cont name s

theorem find?_filter' {α : Type} (p q : α → Bool) (l : List α) : (l.filter p).find? q = l.find? fun x => p x && q x := by
  induction l with
  | nil => rfl
  | cons a l ih =>
    by_cases hp : p a = true
    · rw [List.filter_cons_of_pos hp, List.find?_cons, List.find?_cons, hp, Bool.true_and, ih]
    · have hp' : p a = false := by simpa using hp
      rw [List.filter_cons_of_neg hp, List.find?_cons, hp', Bool.false_and, ih]

theorem find?_eq_findIdx? {α : Type} (p : α → Bool) (l : List α) : l.find? p = (l.findIdx? p).bind fun i => l[i]? := by
  induction l with
  | nil => rfl
  | cons a l ih =>
    rw [List.find?_cons, List.findIdx?_cons]
    cases hp : p a with
    | true => rfl
    | false =>
      simp only [Bool.false_eq_true, if_false]
      rw [ih]
      cases l.findIdx? p with
      | none => rfl
      | some i => rfl

/-- The concrete lookup (`find_spec`) in terms of the index search. -/
theorem entries_find (ss : List Slot) (name : Bytes) :
    (entries ss).find? (fun s => decide (sName s = name)) =
      ((beforeEnd ss).findIdx? fun s => keep s && decide (sName s = name)).bind fun i => (beforeEnd ss)[i]? := by
  rw [entries_eq, find?_filter', find?_eq_findIdx?]

theorem meta?_absSlot (ft : FatType) (cont : Slot → Bytes) (s : Slot) :
    Spec.AbsFs.Slot.meta? (absSlot ft cont s) = if keep s then some (metaOf ft s) else none := by
  unfold absSlot keep
  by_cases h1 : first s = 0xE5
  · rw [if_pos h1]; simp [Spec.AbsFs.Slot.meta?, h1]
  · rw [if_neg h1]
    by_cases h2 : isFrag s = true
    · rw [if_pos h2]; simp [Spec.AbsFs.Slot.meta?, h2]
    · rw [if_neg h2]
      have h2' : isFrag s = false := by simpa using h2
      by_cases h3 : isDirE s = true
      · rw [if_pos h3]; simp [Spec.AbsFs.Slot.meta?, h1, h2']
      · rw [if_neg h3]; simp [Spec.AbsFs.Slot.meta?, h1, h2']

/-- Abstract listing is the decoded entries. -/
theorem listing_abs (ft : FatType) (cont : Slot → Bytes) (ss : List Slot) :
    Spec.AbsFs.listing ((beforeEnd ss).map (absSlot ft cont)) = (entries ss).map (metaOf ft) := by
  unfold Spec.AbsFs.listing
  rw [entries_eq, List.filterMap_map]
  induction beforeEnd ss with
  | nil => rfl
  | cons a l ih =>
    rw [List.filterMap_cons]
    simp only [Function.comp]
    rw [meta?_absSlot]
    by_cases hk : keep a = true
    · rw [if_pos hk, List.filter_cons_of_pos hk, List.map_cons]
      simp only
      rw [← ih]; rfl
    · rw [if_neg hk, List.filter_cons_of_neg hk]
      simp only
      rw [← ih]; rfl

/-! ### The tables -/

theorem volOpen_abs {s : Mgr} {gh : Ghost} {a : AState} (hA : Abs s gh a) (v : Nat) :
    Spec.AbsFs.volOpen a v = s.vols.any fun x => decide (x.rawVolume = v) := by
  unfold Spec.AbsFs.volOpen
  rw [hA.vols, List.any_map]
  rfl

theorem dirIdx_abs {s : Mgr} {gh : Ghost} {a : AState} (hA : Abs s gh a) (d : Nat) :
    Spec.AbsFs.dirIdx a d = s.dirs.findIdx? fun x => decide (x.rawDirectory = d) := by
  unfold Spec.AbsFs.dirIdx
  rw [hA.dirs, List.findIdx?_map]
  rfl

theorem fileIdx_abs {s : Mgr} {gh : Ghost} {a : AState} (hA : Abs s gh a) (h : Nat) :
    Spec.AbsFs.fileIdx a h = s.files.findIdx? fun x => decide (x.rawFile = h) := by
  unfold Spec.AbsFs.fileIdx
  exact forall₂_findIdx? hA.files _ _ fun x y hr => by rw [hr.handle]

/-- The volume lookup of the concrete calls, from the abstract test. -/
theorem volume_found {s : Mgr} {gh : Ghost} (hI : VolInv s gh) {v : Nat}
    (h : (s.vols.any fun x => decide (x.rawVolume = v)) = true) :
    ∃ vi, s.vols = [vi] ∧ vi.vol = gh.vol ∧ vi.rawVolume = v ∧ s.vols.findIdx? (·.rawVolume = v) = some 0 := by
  rcases hI.vols with h0 | ⟨vi, hvs, hvol⟩
  · rw [h0] at h; cases h
  · rw [hvs] at h
    simp only [List.any_cons, List.any_nil, Bool.or_false, decide_eq_true_eq] at h
    refine ⟨vi, hvs, hvol, h, ?_⟩
    rw [hvs]; simp [h]

theorem volume_missing {s : Mgr} {v : Nat} (h : (s.vols.any fun x => decide (x.rawVolume = v)) = false) :
    s.vols.findIdx? (·.rawVolume = v) = none := by
  rw [List.findIdx?_eq_none_iff]
  intro x hx
  have := List.any_eq_false.1 h x hx
  simpa using this

end Sdmmc.Lemmas.AbsFs
