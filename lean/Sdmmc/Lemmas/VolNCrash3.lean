/-
Crash consistency with several open volumes, part 3 — every crash point of every call leaves EVERY open volume's partition
crash-consistent and mountable.

The volume the call works on: the call's block writes are those of the call on the projection (`step_proj`), where the
one-volume theorems `Lemmas.VolCrash.step_crashInv`, `step_mounts` apply.  Every other open volume: no write of the call
goes to a FAT, directory or data block of it (the writes stay in the partition of the volume worked on,
`Props.C04Multi.step_stays_in_volume`; `close_volume` writes one info sector), so its structure on the crashed medium is its
structure before the call — which is crash-consistent because `VolInvNC` holds between calls.
-/
import Sdmmc.Lemmas.VolNCrash2

namespace Sdmmc.Lemmas.VolNCrash
open Sdmmc.Model Sdmmc.Model.Fat Sdmmc.Spec.Volume
open Sdmmc.Spec hiding run step NoFault Coherent
open Sdmmc.Props
open Sdmmc.Props.C03Multi (CoveredN CoveredNRun)
open Sdmmc.Lemmas.VolN (LabelFresh)
open Sdmmc.Lemmas.MHoare

/-- The blocks `MedInv` reads: FAT, directory and data blocks. -/
def Structural (v : FatVolume) (b : Nat) : Prop := regionOf v b = .fat ∨ regionOf v b = .data ∨ regionOf v b = .root

/-- **`MedInv` depends on the medium only in the FAT, root-directory and data regions of the volume.** -/
theorem medInv_congr_regions {v : FatVolume} {d d' : Disk} {files : List FileInfo} {gh : Ghost}
    (hM : MedInv v d files gh) (hb : BlocksOK d') (hsame : ∀ b, Structural v b → d'.get b = d.get b) : MedInv v d' files gh := by
  have hX := Lemmas.VolMed.medX_of_med hM
  refine Lemmas.VolMed.med_of_medX (Lemmas.VolMed.med_congr hX (SameGeom.refl v) hM.hint hb ?_ ?_)
  · intro c hc
    exact hsame _ (.inl (FatLens.fat_blocks_in_fat_region v hM.geom c hc).1)
  · intro h hh
    apply Lemmas.VolMed.dirSlots_congr
    intro sl hs
    rcases Lemmas.VolMed.dirSlot_not_fat hX hh hs with e | e
    · exact hsame _ (.inr (.inl e))
    · exact hsame _ (.inr (.inr e))

/-- **A medium that agrees with the medium of a `VolInvNC` state on the structural blocks of an open volume is
crash-consistent for that volume.** -/
theorem volume_crashInv_of_agree {s : Mgr} {ghs : List Ghost} (hI : VolInvNC s ghs) {j : Nat} {vj : VolInfo} {gh : Ghost}
    (hvj : s.vols[j]? = some vj) (hgh : ghs[j]? = some gh) {dk : Disk} (hb : BlocksOK dk)
    (hsame : ∀ b, Structural gh.vol b → dk.get b = s.dev.disk.get b) :
    (∃ gh', CrashInv gh.vol dk gh') ∧ FatEntriesOK gh.vol dk := by
  have hvol := hI.inv.vols j vj gh hvj hgh
  have hM := medInv_congr_regions (hI.inv.med j vj gh hvj hgh) hb hsame
  have hR : RawOK gh.vol.fatType dk (volFiles s vj.rawVolume) := by
    intro f hf
    obtain ⟨hf1, hf2⟩ := List.mem_filter.1 hf
    obtain ⟨_, hreg⟩ := file_block_in_partition hI.inv hvj hf1 (by simpa using hf2)
    rw [hvol] at hreg
    rw [slotAt_congr (hsame _ (by rcases hreg with h | h; exact .inr (.inl h); exact .inr (.inr h))), ← hvol]
    exact hI.raw j vj hvj f hf
  exact ⟨⟨_, Lemmas.VolCrash.crash_of_medX (Lemmas.VolMed.medX_of_med hM) hR⟩, Lemmas.VolCrash.fatOK_of_owns hM.owns⟩

/-- A structural block of a volume lies in its partition, and is not its info sector. -/
theorem structural_inPartition {v : FatVolume} {b : Nat} (h : Structural v b) : InPartition v b :=
  Lemmas.VolN.inPartition_of_region h

theorem crashDisk_get_other (d : Disk) (ws : List (Nat × Block)) (k b : Nat) (h : ∀ w, w ∈ ws → w.1 ≠ b) :
    (crashDisk d ws k).get b = d.get b := by
  unfold crashDisk
  exact Lemmas.CrashBase.applyWrites_get_other _ d b (fun w hw => h w (List.mem_of_mem_take hw))

/-- What the theorem says of one open volume (record `vj`, ghost `gh`) at the medium `dk`, `d` being the medium the call
was issued on. -/
def VolumeSafe (gh : Ghost) (d dk : Disk) : Prop :=
  (∃ gh', CrashInv gh.vol dk gh') ∧ FatEntriesOK gh.vol dk ∧
  ∀ idx vm, mountPure (d.get 0) idx d.get = .ok vm → SameGeom vm gh.vol →
    ∃ w, mountPure (dk.get 0) idx dk.get = .ok w ∧ SameGeom gh.vol w

theorem volumeSafe_self {s : Mgr} {ghs : List Ghost} (hI : VolInvNC s ghs) {j : Nat} {vj : VolInfo} {gh : Ghost}
    (hvj : s.vols[j]? = some vj) (hgh : ghs[j]? = some gh) : VolumeSafe gh s.dev.disk s.dev.disk := by
  obtain ⟨a, b⟩ := volume_crashInv_of_agree hI hvj hgh (hI.inv.med j vj gh hvj hgh).blocksOK (fun _ _ => rfl)
  exact ⟨a, b, fun idx vm hm hsg => ⟨vm, hm, hsg.symm⟩⟩

/-- A medium that agrees with the medium of the state on block 0, on the boot sector, on the structural blocks of the
volume and (FAT32) on the info sector outside the two record words. -/
theorem volumeSafe_of_agree {s : Mgr} {ghs : List Ghost} (hI : VolInvNC s ghs) {j : Nat} {vj : VolInfo} {gh : Ghost}
    (hvj : s.vols[j]? = some vj) (hgh : ghs[j]? = some gh) {dk : Disk} (hb : BlocksOK dk)
    (h0 : dk.get 0 = s.dev.disk.get 0) (hboot : dk.get gh.vol.lbaStart = s.dev.disk.get gh.vol.lbaStart)
    (hstruct : ∀ b, Structural gh.vol b → dk.get b = s.dev.disk.get b)
    (hinfo : gh.vol.fatType = .fat32 → ∀ i, i < 488 ∨ 496 ≤ i →
      (dk.get gh.vol.infoLocation).getD i 0 = (s.dev.disk.get gh.vol.infoLocation).getD i 0) :
    VolumeSafe gh s.dev.disk dk := by
  obtain ⟨a, b⟩ := volume_crashInv_of_agree hI hvj hgh hb hstruct
  refine ⟨a, b, fun idx vm hm hsg => ?_⟩
  have hlba : vm.lbaStart = gh.vol.lbaStart := by obtain ⟨x, y, e⟩ := hsg; rw [e]
  have hiloc : vm.infoLocation = gh.vol.infoLocation := by obtain ⟨x, y, e⟩ := hsg; rw [e]
  obtain ⟨w, hw, hsw⟩ := C02Reopen.fresh_mount_same_geometry s.dev.disk dk idx vm hm h0
    (by rw [hlba]; exact hboot)
    (fun h32 i hi => by
      rw [hiloc]
      exact hinfo (by rw [hsg.fatType]; exact h32) i hi)
  exact ⟨w, hw, hsg.symm.trans ⟨_, _, hsw⟩⟩

/-- A volume none of whose partition blocks, and not block 0, is written. -/
theorem volumeSafe_untouched {s : Mgr} {ghs : List Ghost} (hI : VolInvNC s ghs) {j : Nat} {vj : VolInfo} {gh : Ghost}
    (hvj : s.vols[j]? = some vj) (hgh : ghs[j]? = some gh) {dk : Disk} (hb : BlocksOK dk)
    (h0 : dk.get 0 = s.dev.disk.get 0) (hsame : ∀ b, InPartition gh.vol b → dk.get b = s.dev.disk.get b) :
    VolumeSafe gh s.dev.disk dk := by
  have hg : WFGeom gh.vol := (hI.inv.med j vj gh hvj hgh).geom
  have hnb : 0 < gh.vol.numBlocks := by
    have := Reopen.fatStart_le_numBlocks gh.vol hg
    have := hg.fat_after_boot
    omega
  refine volumeSafe_of_agree hI hvj hgh hb h0 (hsame _ ⟨Nat.le_refl _, by omega⟩)
    (fun b hs => hsame b (structural_inPartition hs)) (fun h32 i _ => ?_)
  have hreg := FatLens.info_block_in_info_region gh.vol hg h32 (Reopen.fatStart_le_numBlocks gh.vol hg)
  have := FatLens.region_inside_partition gh.vol gh.vol.infoLocation (by rw [hreg]; simp)
  rw [hsame _ ⟨Nat.le_of_lt this.1, this.2⟩]

end Sdmmc.Lemmas.VolNCrash
