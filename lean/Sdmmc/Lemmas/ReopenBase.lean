/-
Vocabulary and basic lemmas for the "flush, remount, reopen, read" composition of C02
(`Sdmmc.Props.C02Reopen`):

* `SameGeom v w`: two volume records with the same geometry (they may differ in the free-cluster
  count and the next-free hint, which come from the FAT32 info sector); chains, cluster bytes and
  file contents are the same for both;
* `stored e`: what a FAT reader decodes from a slot that holds `e.serialize` (the two time stamps
  are rounded to the FAT resolution, everything else is `e`); `decode_serialize`;
* `DirOn`, `dirSlotsOf`, `dirLookup`: a directory handle (the FAT16 fixed root, or a cluster chain)
  on a medium, its slot list and what `find_directory_entry` computes on it (`find_dir_spec`);
* `FirstHit`: "the first slot before the end marker that the lookup would accept is `x`";
  `dirLookup_of_firstHit`: then the lookup returns the decoding of `x` — without any assumption on
  what follows the end marker.
-/
import Sdmmc.Lemmas.Listing
import Sdmmc.Lemmas.Chain
import Sdmmc.Lemmas.C18

namespace Sdmmc.Lemmas.Reopen
open Sdmmc.Model Sdmmc.Model.Fat Sdmmc.Spec
open Sdmmc.Lemmas.Listing

/-! ### Same geometry -/

/-- `w` is `v` up to the two fields that mounting reads from the FAT32 info sector. -/
def SameGeom (v w : FatVolume) : Prop :=
  w = { v with freeClustersCount := w.freeClustersCount, nextFreeCluster := w.nextFreeCluster }

theorem SameGeom.refl (v : FatVolume) : SameGeom v v := rfl

theorem SameGeom.cases {v w : FatVolume} (h : SameGeom v w) :
    ∃ a b, w = { v with freeClustersCount := a, nextFreeCluster := b } := ⟨_, _, h⟩

theorem SameGeom.symm {v w : FatVolume} (h : SameGeom v w) : SameGeom w v := by
  obtain ⟨a, b, rfl⟩ := h.cases
  rfl

theorem SameGeom.trans {u v w : FatVolume} (h1 : SameGeom u v) (h2 : SameGeom v w) : SameGeom u w := by
  obtain ⟨a, b, rfl⟩ := h1.cases
  obtain ⟨a', b', rfl⟩ := h2.cases
  rfl

theorem SameGeom.fatType {v w : FatVolume} (h : SameGeom v w) : w.fatType = v.fatType := by
  obtain ⟨a, b, rfl⟩ := h.cases; rfl

theorem SameGeom.clusterBytesLen {v w : FatVolume} (h : SameGeom v w) : clusterBytesLen w = clusterBytesLen v := by
  obtain ⟨a, b, rfl⟩ := h.cases; rfl

theorem SameGeom.clusterToBlock {v w : FatVolume} (h : SameGeom v w) (c : Nat) : clusterToBlock w c = clusterToBlock v c := by
  obtain ⟨a, b, rfl⟩ := h.cases; rfl

theorem SameGeom.fatBlock {v w : FatVolume} (h : SameGeom v w) (c : Nat) : fatBlock w c = fatBlock v c := by
  obtain ⟨a, b, rfl⟩ := h.cases; rfl

theorem SameGeom.infoLocation {v w : FatVolume} (h : SameGeom v w) : w.infoLocation = v.infoLocation := by
  obtain ⟨a, b, rfl⟩ := h.cases; rfl

theorem SameGeom.inRange {v w : FatVolume} (h : SameGeom v w) (c : Nat) : InRange w c ↔ InRange v c := by
  obtain ⟨a, b, rfl⟩ := h.cases; exact Iff.rfl

theorem SameGeom.nextOf {v w : FatVolume} (h : SameGeom v w) (d : Disk) (c : Nat) : nextOf w d c = nextOf v d c := by
  obtain ⟨a, b, rfl⟩ := h.cases; rfl

theorem SameGeom.regionOf {v w : FatVolume} (h : SameGeom v w) (i : Nat) : regionOf w i = regionOf v i := by
  obtain ⟨a, b, rfl⟩ := h.cases; rfl

theorem SameGeom.wfGeom {v w : FatVolume} (h : SameGeom v w) (hg : WFGeom v) : WFGeom w := by
  obtain ⟨a, b, rfl⟩ := h.cases
  exact ⟨hg.bpc_pos, hg.fat_after_boot, hg.second_after_first, hg.root16, hg.root32, hg.data_fits, hg.count_bound⟩

theorem SameGeom.chain {v w : FatVolume} (h : SameGeom v w) {d : Disk} {c : Nat} {cs : List Nat}
    (hc : Chain v d c cs) : Chain w d c cs := by
  induction hc with
  | last c hr he => exact .last c ((h.inRange c).2 hr) (by rw [h.nextOf]; exact he)
  | link c n rest hr hn hnot _ ih => exact .link c n rest ((h.inRange c).2 hr) (by rw [h.nextOf]; exact hn) hnot ih

theorem SameGeom.clusterBytes {v w : FatVolume} (h : SameGeom v w) (d : Disk) (c : Nat) :
    clusterBytes w d c = clusterBytes v d c := by
  obtain ⟨a, b, rfl⟩ := h.cases; rfl

theorem SameGeom.chainBytes {v w : FatVolume} (h : SameGeom v w) (d : Disk) (cs : List Nat) :
    chainBytes w d cs = chainBytes v d cs := by
  unfold Spec.chainBytes
  congr 1
  exact List.map_congr_left fun c _ => h.clusterBytes d c

theorem SameGeom.fileContent {v w : FatVolume} (h : SameGeom v w) (d : Disk) (cs : List Nat) (n : Nat) :
    fileContent w d cs n = fileContent v d cs n := by
  unfold Spec.fileContent; rw [h.chainBytes]

theorem SameGeom.chainSlots {v w : FatVolume} (h : SameGeom v w) (d : Disk) (cs : List Nat) :
    chainSlots w d cs = chainSlots v d cs := by
  obtain ⟨a, b, rfl⟩ := h.cases; rfl

theorem SameGeom.startCluster {v w : FatVolume} (h : SameGeom v w) (dc : Nat) : startCluster w dc = startCluster v dc := by
  obtain ⟨a, b, rfl⟩ := h.cases; rfl

theorem SameGeom.fatNext {v w : FatVolume} (h : SameGeom v w) (d : Disk) (c : Nat) : fatNext w d c = fatNext v d c := by
  obtain ⟨a, b, rfl⟩ := h.cases; rfl

theorem SameGeom.dirChain {v w : FatVolume} (h : SameGeom v w) (d : Disk) (cs : List Nat) :
    DirChain w d cs ↔ DirChain v d cs := by
  unfold DirChain
  simp only [h.fatNext]

/-! ### What a reader decodes from a flushed slot -/

/-- A time stamp after a round trip through its two FAT words (two-second resolution, years from
1980; the identity on every FAT-representable time stamp, see `fatRound_of_fatTime`). -/
@[irreducible] def fatRound (t : Timestamp) : Timestamp := Timestamp.fromFat t.fatDate t.fatTime

theorem fatRound_eq (t : Timestamp) : fatRound t = Timestamp.fromFat t.fatDate t.fatTime := by
  unfold fatRound; rfl

/-- What a FAT reader decodes from the slot holding `e.serialize`: `e` with both time stamps at
FAT resolution. -/
def stored (e : DirEntry) : DirEntry := { e with mtime := fatRound e.mtime, ctime := fatRound e.ctime }

theorem fatRound_of_fatTime (t : Timestamp)
    (h : ∃ date time, date < 65536 ∧ time < 65536 ∧ date / 32 % 16 ≠ 0 ∧ date % 32 ≠ 0 ∧ t = Timestamp.fromFat date time) :
    fatRound t = t := by rw [fatRound_eq]; exact (C18.fatTime_fix t h).2

theorem stored_of_fatTime (e : DirEntry)
    (hm : ∃ date time, date < 65536 ∧ time < 65536 ∧ date / 32 % 16 ≠ 0 ∧ date % 32 ≠ 0 ∧ e.mtime = Timestamp.fromFat date time)
    (hc : ∃ date time, date < 65536 ∧ time < 65536 ∧ date / 32 % 16 ≠ 0 ∧ date % 32 ≠ 0 ∧ e.ctime = Timestamp.fromFat date time) :
    stored e = e := by
  unfold stored
  rw [fatRound_of_fatTime _ hm, fatRound_of_fatTime _ hc]

/-- The fields of the 32-byte image of an entry, no assumption on the time stamps. -/
theorem serialize_layout (ft : FatType) (e : DirEntry) (hname : e.name.length = 11)
    (hattr : e.attributes < 256) (hsize : e.size < 4294967296) (hcl : e.cluster < 4294967296) :
    (e.serialize ft).length = 32 ∧ (e.serialize ft).take 11 = e.name ∧ byteAt (e.serialize ft) 11 = e.attributes ∧
    readU16 (e.serialize ft) 14 = e.ctime.fatTime ∧ readU16 (e.serialize ft) 16 = e.ctime.fatDate ∧
    readU16 (e.serialize ft) 20 = (match ft with | .fat16 => 0 | .fat32 => e.cluster / 65536) ∧
    readU16 (e.serialize ft) 22 = e.mtime.fatTime ∧ readU16 (e.serialize ft) 24 = e.mtime.fatDate ∧
    readU16 (e.serialize ft) 26 = e.cluster % 65536 ∧ readU32 (e.serialize ft) 28 = e.size := by
  obtain ⟨a0, a1, a2, a3, a4, a5, a6, a7, a8, a9, a10, hn⟩ := C18.list_len11 e.name hname
  rw [C18.serialize_eq ft e a0 a1 a2 a3 a4 a5 a6 a7 a8 a9 a10 hn, hn]
  refine ⟨rfl, rfl, ?_, ?_, ?_, ?_, ?_, ?_, ?_, ?_⟩
  · show (UInt8.ofNat e.attributes).toNat = _
    rw [UInt8.toNat_ofNat']; omega
  · exact C18.le16_read _ (C18.fatTime_lt _)
  · exact C18.le16_read _ (C18.fatDate_lt _)
  · cases ft
    · rfl
    · exact (C18.le16_read (e.cluster / 65536 % 65536) (by omega)).trans
        (show e.cluster / 65536 % 65536 = e.cluster / 65536 by omega)
  · exact C18.le16_read _ (C18.fatTime_lt _)
  · exact C18.le16_read _ (C18.fatDate_lt _)
  · exact C18.le16_read _ (by omega)
  · exact C18.le32_read _ hsize

/-- The entry is one a directory slot can hold: 11 name bytes, one attribute byte, a 32-bit size, a
cluster number of the FAT type's width, and not the encoding "directory with start cluster 0"
(which every reader takes for the root directory). -/
structure Storable (ft : FatType) (e : DirEntry) : Prop where
  name_len : e.name.length = 11
  attr_lt : e.attributes < 256
  size_lt : e.size < 4294967296
  cluster_lt : match ft with | .fat16 => e.cluster < 65536 | .fat32 => e.cluster < 4294967296
  not_root : ¬ (e.cluster = 0 ∧ Attr.isDirectory e.attributes = true)

/-- Decoding the image of a storable entry gives the entry back, time stamps at FAT resolution. -/
theorem getEntry_serialize (ft : FatType) (e : DirEntry) (he : Storable ft e) :
    OnDisk.getEntry ft (e.serialize ft) e.entryBlock e.entryOffset = stored e := by
  have hcl' : e.cluster < 4294967296 := by
    have := he.cluster_lt
    cases ft <;> simp only at this <;> omega
  have hl := serialize_layout ft e he.name_len he.attr_lt he.size_lt hcl'
  generalize e.serialize ft = d at hl
  obtain ⟨_, h0, h11, h14, h16, h20, h22, h24, h26, h28⟩ := hl
  refine C18.getEntry_eq ft d e.entryBlock e.entryOffset (stored e) h0 h11 ?_ ?_ ?_ h28 he.not_root rfl rfl
  · rw [h16, h14]; exact (fatRound_eq _).symm
  · rw [h24, h22]; exact (fatRound_eq _).symm
  · have := he.cluster_lt
    cases ft
    · simp only [C18.firstClusterLo_eq] at this ⊢
      show readU16 d 26 = e.cluster
      omega
    · simp only [C18.firstClusterLo_eq, C18.firstClusterHi_eq] at h20 ⊢
      show readU16 d 20 * 65536 + readU16 d 26 = e.cluster
      omega

theorem decode_serialize (ft : FatType) (e : DirEntry) (he : Storable ft e) :
    decode ft (e.entryBlock, e.entryOffset, e.serialize ft) = stored e := by
  rw [← Listing.getEntry_eq]; exact getEntry_serialize ft e he

/-! ### A directory handle on a medium -/

/-- First block and number of blocks of the FAT16 fixed root directory. -/
def rootStart (v : FatVolume) : Nat := v.lbaStart + v.firstRootDirBlock
def rootBlocks (v : FatVolume) : Nat := blockCountFromBytes (v.rootEntriesCount * 32)

/-- The handle cluster `dc` designates the FAT16 fixed root. -/
def IsFixedRoot (v : FatVolume) (dc : Nat) : Prop := v.fatType = .fat16 ∧ dc = 0xFFFFFFFC

instance (v : FatVolume) (dc : Nat) : Decidable (IsFixedRoot v dc) :=
  inferInstanceAs (Decidable (v.fatType = .fat16 ∧ dc = 0xFFFFFFFC))

/-- The directory a handle with cluster `dc` designates is on the medium: nothing to ask of the
FAT16 fixed root; otherwise `dcs` is its cluster chain in the FAT (starting at the cluster the walk
starts with, every link an ordinary link, the last entry an end-of-chain mark). -/
def DirOn (v : FatVolume) (d : Disk) (dc : Nat) (dcs : List Nat) : Prop :=
  ¬ IsFixedRoot v dc → ∃ rest, dcs = startCluster v dc :: rest ∧ DirChain v d dcs ∧ rest.length ≤ v.clusterCount + 2

/-- The slots of the directory, in on-disk order (`Props.C06`: `dirSlots` of the fixed root,
`chainSlots` of a chain). -/
def dirSlotsOf (v : FatVolume) (d : Disk) (dc : Nat) (dcs : List Nat) : List Slot :=
  if IsFixedRoot v dc then dirSlots d (rootStart v) (rootBlocks v) else chainSlots v d dcs

/-- What `find_directory_entry` computes on that directory (`Props.C06`: `lookupBlocks` /
`lookupChain`). -/
def dirLookup (v : FatVolume) (d : Disk) (dc : Nat) (dcs : List Nat) (name : Bytes) : Option DirEntry :=
  if IsFixedRoot v dc then lookupBlocks .fat16 d name (rootStart v) (rootBlocks v) else lookupChain v d name dcs

theorem SameGeom.dirOn {v w : FatVolume} (h : SameGeom v w) (d : Disk) (dc : Nat) (dcs : List Nat) :
    DirOn w d dc dcs ↔ DirOn v d dc dcs := by
  obtain ⟨a, b, rfl⟩ := h.cases; exact Iff.rfl

theorem SameGeom.dirSlotsOf {v w : FatVolume} (h : SameGeom v w) (d : Disk) (dc : Nat) (dcs : List Nat) :
    dirSlotsOf w d dc dcs = dirSlotsOf v d dc dcs := by
  obtain ⟨a, b, rfl⟩ := h.cases; rfl

/-- `find_directory_entry` through a directory handle, both kinds of directory: the outcome is
`dirLookup` read off the medium; nothing is written, the volume record is untouched. -/
theorem find_dir_spec (s : FS) (dc : Nat) (dcs : List Nat) (name : Bytes)
    (hn : FBasic.NoFault s) (hc : FBasic.Coherent s) (hdir : DirOn s.vol s.dev.disk dc dcs) :
    ∃ s', Fat.findDirectoryEntry dc name s =
        ((dirLookup s.vol s.dev.disk dc dcs name).elim (.err .NotFound) .ok, s') ∧
      s'.dev.disk = s.dev.disk ∧ s'.dev.wlog = s.dev.wlog ∧ s'.vol = s.vol ∧
      FBasic.NoFault s' ∧ FBasic.Coherent s' := by
  unfold dirLookup
  by_cases hk : IsFixedRoot s.vol dc
  · rw [if_pos hk]
    obtain ⟨h16, rfl⟩ := hk
    exact find_fat16_root_spec name s hn hc h16
  · rw [if_neg hk]
    obtain ⟨rest, rfl, hch, hlen⟩ := hdir hk
    exact find_chain_spec s dc name rest hn hc hk hch hlen

/-! ### The first hit before the end marker -/

/-- `x` is the first slot of `ss`, before the end marker, that a lookup of `name` accepts. -/
def FirstHit (ss : List Slot) (name : Bytes) (x : Slot) : Prop :=
  (beforeEnd ss).find? (nameHit name) = some x

/-- The same as a decomposition: no end marker and no hit before `x`, and `x` is a hit that is not
an end marker. -/
theorem firstHit_iff (ss : List Slot) (name : Bytes) (x : Slot) :
    FirstHit ss name x ↔ ∃ pre post, ss = pre ++ x :: post ∧
      (∀ p ∈ pre, firstByte p.2.2 ≠ 0 ∧ nameHit name p = false) ∧ firstByte x.2.2 ≠ 0 ∧ nameHit name x = true := by
  unfold FirstHit
  induction ss with
  | nil =>
    constructor
    · intro h; cases h
    · rintro ⟨pre, post, h, _⟩
      cases pre <;> cases h
  | cons s l ih =>
    by_cases h0 : firstByte s.2.2 = 0
    · rw [beforeEnd_cons_end s l h0]
      constructor
      · intro h; cases h
      · rintro ⟨pre, post, h, hpre, hx0, _⟩
        cases pre with
        | nil =>
          simp only [List.nil_append, List.cons.injEq] at h
          rw [← h.1] at hx0; exact absurd h0 hx0
        | cons p pre =>
          simp only [List.cons_append, List.cons.injEq] at h
          have := (hpre p List.mem_cons_self).1
          rw [← h.1] at this; exact absurd h0 this
    · rw [beforeEnd_cons_go s l h0, List.find?_cons]
      by_cases hm : nameHit name s = true
      · rw [hm]
        constructor
        · intro h
          cases h
          exact ⟨[], l, rfl, (fun _ hp => nomatch hp), h0, hm⟩
        · rintro ⟨pre, post, h, hpre, _, _⟩
          cases pre with
          | nil =>
            simp only [List.nil_append, List.cons.injEq] at h
            rw [h.1]
          | cons p pre =>
            simp only [List.cons_append, List.cons.injEq] at h
            have := (hpre p List.mem_cons_self).2
            rw [← h.1, hm] at this; cases this
      · have hm' : nameHit name s = false := by simpa using hm
        rw [hm']
        simp only
        rw [ih]
        constructor
        · rintro ⟨pre, post, h, hpre, hx0, hxm⟩
          refine ⟨s :: pre, post, by rw [h]; rfl, ?_, hx0, hxm⟩
          intro p hp
          rcases List.mem_cons.1 hp with rfl | hp
          · exact ⟨h0, hm'⟩
          · exact hpre p hp
        · rintro ⟨pre, post, h, hpre, hx0, hxm⟩
          cases pre with
          | nil =>
            simp only [List.nil_append, List.cons.injEq] at h
            rw [← h.1, hm'] at hxm; cases hxm
          | cons p pre =>
            simp only [List.cons_append, List.cons.injEq] at h
            exact ⟨pre, post, h.2, fun q hq => hpre q (List.mem_cons_of_mem _ hq), hx0, hxm⟩

/-- A first hit of `l ++ r` is a first hit of `l`, or `l` has neither end marker nor hit and it is
a first hit of `r`. -/
theorem firstHit_append (l r : List Slot) (name : Bytes) (x : Slot) (h : FirstHit (l ++ r) name x) :
    FirstHit l name x ∨ (endSeen l = false ∧ (beforeEnd l).find? (nameHit name) = none ∧ FirstHit r name x) := by
  unfold FirstHit at h ⊢
  rw [beforeEnd_append] at h
  by_cases he : endSeen l = true
  · rw [if_pos he] at h; exact .inl h
  · have he' : endSeen l = false := by simpa using he
    rw [if_neg he, List.find?_append] at h
    rw [beforeEnd_of_not_endSeen l he']
    cases hl : l.find? (nameHit name) with
    | some y => rw [hl] at h; exact .inl h
    | none => rw [hl] at h; exact .inr ⟨he', rfl, h⟩

theorem lookupBlocks_of_firstHit (ft : FatType) (disk : Disk) (name : Bytes) (x : Slot) : ∀ (n b : Nat),
    FirstHit (dirSlots disk b n) name x → lookupBlocks ft disk name b n = some (decode ft x)
  | 0, _, h => by cases h
  | n + 1, b, h => by
    rw [dirSlots_succ] at h
    rw [lookupBlocks_succ]
    rcases firstHit_append _ _ name x h with h1 | ⟨_, h2, h3⟩
    · unfold FirstHit at h1
      rw [h1]; rfl
    · rw [h2]
      exact lookupBlocks_of_firstHit ft disk name x n (b + 1) h3

theorem lookupBlocks_none_of_no_hit (ft : FatType) (disk : Disk) (name : Bytes) : ∀ (n b : Nat),
    endSeen (dirSlots disk b n) = false → (beforeEnd (dirSlots disk b n)).find? (nameHit name) = none →
    lookupBlocks ft disk name b n = none
  | 0, _, _, _ => rfl
  | n + 1, b, he, hf => by
    rw [dirSlots_succ] at he hf
    rw [endSeen_append, Bool.or_eq_false_iff] at he
    rw [beforeEnd_append, if_neg (by rw [he.1]; exact Bool.false_ne_true), List.find?_append] at hf
    rw [lookupBlocks_succ, beforeEnd_of_not_endSeen _ he.1]
    cases hl : (blockSlots b (disk.get b)).find? (nameHit name) with
    | some y => rw [hl] at hf; cases hf
    | none =>
      rw [hl] at hf
      exact lookupBlocks_none_of_no_hit ft disk name n (b + 1) he.2 hf

theorem lookupChain_of_firstHit (v : FatVolume) (disk : Disk) (name : Bytes) (x : Slot) : ∀ (cs : List Nat),
    FirstHit (chainSlots v disk cs) name x → lookupChain v disk name cs = some (decode v.fatType x)
  | [], h => by cases h
  | c :: cs, h => by
    have hsl : chainSlots v disk (c :: cs) =
        dirSlots disk (clusterToBlock v c) v.blocksPerCluster ++ chainSlots v disk cs := by simp [chainSlots]
    rw [hsl] at h
    unfold lookupChain
    rw [List.findSome?_cons]
    rcases firstHit_append _ _ name x h with h1 | ⟨he, h2, h3⟩
    · rw [lookupBlocks_of_firstHit v.fatType disk name x _ _ h1]
    · rw [lookupBlocks_none_of_no_hit v.fatType disk name _ _ he h2]
      exact lookupChain_of_firstHit v disk name x cs h3

/-- If `x` is the first slot of the directory, before the end marker, that matches `name`, the
lookup returns the decoding of `x` — whatever lies after the end marker. -/
theorem dirLookup_of_firstHit (v : FatVolume) (disk : Disk) (dc : Nat) (dcs : List Nat) (name : Bytes) (x : Slot)
    (h : FirstHit (dirSlotsOf v disk dc dcs) name x) :
    dirLookup v disk dc dcs name = some (decode v.fatType x) := by
  unfold dirSlotsOf at h
  unfold dirLookup
  by_cases hk : IsFixedRoot v dc
  · rw [if_pos hk] at h ⊢
    rw [lookupBlocks_of_firstHit .fat16 disk name x _ _ h, hk.1]
  · rw [if_neg hk] at h ⊢
    exact lookupChain_of_firstHit v disk name x dcs h

end Sdmmc.Lemmas.Reopen
