/-
The crash points of the API call `write`, assembled for `Props/C09CrashApi.lean`: from
`CrashWriteCall.write_crash` (record soundness and file bytes at every crash point) and the fact that
every device write of the call goes to a FAT block or to a block of the written file's own clusters
(`Touch`), the statements about other files' chains and bytes and about untouched blocks.
-/
import Sdmmc.Spec.CrashApi
import Sdmmc.Lemmas.CrashWriteCall

namespace Sdmmc.Lemmas.CrashWriteSpec
open Sdmmc.Model Sdmmc.Model.Fat Sdmmc.Spec
open Sdmmc.Lemmas.FBasic hiding NoFault Coherent
open Sdmmc.Lemmas.FatOps hiding BlocksOK Mirror HintOK
open Sdmmc.Lemmas.ChainL Sdmmc.Lemmas.ForestBase Sdmmc.Lemmas.ForestOwns Sdmmc.Lemmas.ReadRefines
open Sdmmc.Lemmas.WriteRefines Sdmmc.Lemmas.CrashBase Sdmmc.Lemmas.CrashMgr Sdmmc.Lemmas.CrashWriteCall

theorem newWritesM_eq (s s' : Mgr) : newWritesM s s' = newWrites (devFS s) (devFS s') := rfl

/-- At every prefix of writes all of which go to FAT blocks or to blocks of the clusters `cs'`, every other
block is untouched. -/
theorem untouched_of_touch {v : FatVolume} {cs' : List Nat} {s s' : Mgr} {ws : List (Nat × Block)}
    (ht : Touch v cs' s.dev s'.dev) (hw : s'.dev.wlog = ws.reverse ++ s.dev.wlog) (j b : Nat)
    (h1 : ¬ IsFatBlock v b) (h2 : ¬ IsClusterBlock v cs' b) : (s.dev.disk.applyWrites (ws.take j)).get b = s.dev.disk.get b := by
  obtain ⟨new, hnew, hall⟩ := ht.wlog
  have : new = ws.reverse := List.append_cancel_right (hnew.symm.trans hw)
  refine applyWrites_get_other _ _ _ fun w hwm e => ?_
  have hm : w ∈ new := by rw [this, List.mem_reverse]; exact List.mem_of_mem_take hwm
  rcases hall w hm with h | h
  · exact h1 (e ▸ h)
  · exact h2 (e ▸ h)

theorem write_crash_points (s : Mgr) (h i vi : Nat) (data : Bytes) (f : FileInfo) (v : VolInfo) (cs : List Nat)
    (A B : List (List Nat)) (hs : MOK s)
    (hh : s.files.findIdx? (·.rawFile = h) = some i) (hf : s.files[i]? = some f)
    (hv : s.vols.findIdx? (·.rawVolume = f.rawVolume) = some vi) (hvi : s.vols[vi]? = some v)
    (hmode : f.mode ≠ .ReadOnly) (hg : WFGeom v.vol) (hhint : HintOK v.vol)
    (hok : FileOK v.vol s.dev.disk f cs) (hcur : cs = [] → f.curCluster < 2)
    (hown : Owns v.vol s.dev.disk (withChain A cs B)) :
    ∃ (k : Nat) (r : Res Unit) (s' : Mgr) (v' : VolInfo) (cs' : List Nat), Model.write h data s = (r, s') ∧ k ≤ data.length ∧
      cs <+: cs' ∧ SameGeom v.vol v'.vol ∧ Owns v'.vol s'.dev.disk (withChain A cs' B) ∧
      ∀ j,
        (∃ m csk, m ≤ k ∧ cs <+: csk ∧ csk <+: cs' ∧
          OwnsLoose v.vol (crashDisk s.dev.disk (newWritesM s s') j) (withChain A csk B) ∧
          fileContent v.vol (crashDisk s.dev.disk (newWritesM s s') j) csk (max f.entry.size (f.currentOffset + m)) =
            splice (fileContent v.vol s.dev.disk cs f.entry.size) f.currentOffset (data.take m) ∧
          fileContent v.vol (crashDisk s.dev.disk (newWritesM s s') j) csk f.entry.size =
            (splice (fileContent v.vol s.dev.disk cs f.entry.size) f.currentOffset (data.take m)).take f.entry.size) ∧
        (∀ X, X ∈ A ++ B → Chain v.vol (crashDisk s.dev.disk (newWritesM s s') j) (X.headD 0) X ∧
          chainBytes v.vol (crashDisk s.dev.disk (newWritesM s s') j) X = chainBytes v.vol s.dev.disk X) ∧
        (∀ b, ¬ IsFatBlock v.vol b → ¬ IsClusterBlock v.vol cs' b →
          (crashDisk s.dev.disk (newWritesM s s') j).get b = s.dev.disk.get b) := by
  obtain ⟨k, r, s', v', cs', hrun, hk, hpre, hsg, hown', htouch, hcr⟩ :=
    write_crash s h i vi data f v cs A B hs hh hf hv hvi hmode hg hhint hok hcur hown
  refine ⟨k, r, s', v', cs', hrun, hk, hpre, hsg, hown', fun j => ?_⟩
  obtain ⟨ws, hw, hd, hp⟩ := hcr
  have hnw : newWritesM s s' = ws := by
    rw [newWritesM_eq]
    exact (Trace.newWrites (s := devFS s) (s' := devFS s') ⟨hw, hd⟩)
  rw [hnw]
  unfold crashDisk
  have hc : ∀ b, ¬ IsFatBlock v.vol b → ¬ IsClusterBlock v.vol cs' b →
      (s.dev.disk.applyWrites (ws.take j)).get b = s.dev.disk.get b := fun b h1 h2 => untouched_of_touch htouch hw j b h1 h2
  obtain ⟨m, csk, hm, hp1, hp2, hsound, hcont⟩ := hp j
  have hownv : Owns v.vol s'.dev.disk (withChain A cs' B) := owns_sameGeom hsg.symm hown'
  refine ⟨⟨m, csk, hm, hp1, hp2, hsound, hcont, ?_⟩, fun X hX => ⟨?_, ?_⟩, hc⟩
  · have := congrArg (List.take f.entry.size) hcont
    unfold fileContent at this ⊢
    rw [List.take_take, Nat.min_eq_left (Nat.le_max_left _ _)] at this
    exact this
  · exact hsound.1 X (mem_withChain_of_mem csk hX)
  · have hXin : ∀ x, x ∈ X → InRange v.vol x := fun x hx =>
      chain_inRange (hown.1 X (mem_withChain_of_mem cs hX)) x hx
    have hcs' : ∀ x, x ∈ cs' → InRange v.vol x := fun x hx => by
      have hne : cs' ≠ [] := by intro e; rw [e] at hx; cases hx
      rw [withChain_ne hne] at hownv
      exact chain_inRange (hownv.1 cs' (List.mem_append_left _ (List.mem_append_right _ (List.mem_singleton.2 rfl)))) x hx
    have hdis := withChain_disjoint hownv hX
    exact CrashBase.chainBytes_congr v.vol s.dev.disk _ X fun x hx jj hj =>
      hc _ (clusterBlock_not_fat hg (hXin x hx) hj) (clusterBlock_not_of_not_mem hg hcs' (hXin x hx) hj (hdis x hx))

end Sdmmc.Lemmas.CrashWriteSpec
