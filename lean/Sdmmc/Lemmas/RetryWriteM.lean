/-
C11, part 6 (manager level) — the loop of `write` under an arbitrary fault schedule: whatever device
call fails, the chains of the other files of the volume stay chains, keep their bytes, and every
block that is neither a FAT block nor a block of the written file's own chain is unchanged
(`writeLoop_any`).
-/
import Sdmmc.Lemmas.RetryWriteA

namespace Sdmmc.Lemmas.Retry
open Sdmmc.Model Sdmmc.Model.Fat Sdmmc.Spec Sdmmc.Lemmas.Fault
open Sdmmc.Lemmas.FBasic hiding cacheRead_cases cacheRead_ok_tag NoFault Coherent
open Sdmmc.Lemmas.FatOps hiding BlocksOK Mirror HintOK
open Sdmmc.Lemmas.ChainL Sdmmc.Lemmas.ForestBase Sdmmc.Lemmas.ForestOwns Sdmmc.Lemmas.ReadRefines
open Sdmmc.Lemmas.WriteRefines

/-! ### Erasure for the pieces of the loop -/

macro "wmagree_step" : tactic => `(tactic| first
  | with_reducible first
    | exact MAgree.withVol _ (allocCluster_agree _ _)
    | exact MAgree.withVol _ (writeBlockPart_agree _ _ _ _)
  | magree_step)
macro "wmagree_auto" : tactic => `(tactic| repeat wmagree_step)

theorem locate_magree (vi : Nat) (f : FileInfo) : MAgree (locate vi f) := by
  unfold locate; wmagree_auto

theorem finish_magree (i vi b o : Nat) (data : Bytes) (whole : Bool) (g : FileInfo → FileInfo) :
    MAgree (withVol vi (writeBlockPart b o data whole) >>= fun _ => modifyFile i g) := by
  wmagree_auto

theorem locate_reported (vi : Nat) (f : FileInfo) : FaultReported (locate vi f) := by
  unfold locate; mfault_auto

/-! ### The states of a manager up to the fault schedule -/

theorem wstep_of_mclr {i vi : Nat} {s s' : Mgr} {f' : FileInfo} {v' : VolInfo}
    (h : WStep i vi (mclr s) (mclr s') f' v') : WStep i vi s s' f' v' := by
  have e := h.eq
  cases s; cases s'
  simp only [msetFaults, Mgr.mk.injEq] at e
  obtain ⟨_, _, e3, e4, e5, e6, e7, e8, e9, e10, e11⟩ := e
  refine ⟨?_⟩
  simp only [Mgr.mk.injEq]
  exact ⟨trivial, trivial, e3, e4, e5, e6, e7, e8, e9, e10, e11⟩

/-! ### The other chains of the volume -/

/-- On medium `d` the chains `A ++ B` are chains and share no cluster with `cs`; and `d` agrees with
`d0` on every block that is neither a FAT block nor a block of a cluster of `cs`. -/
structure Others (v : FatVolume) (A B : List (List Nat)) (d0 : Disk) (cs : List Nat) (d : Disk) : Prop where
  chains : ∀ X, X ∈ A ++ B → Chain v d (X.headD 0) X ∧ ∀ x, x ∈ X → x ∉ cs
  frame : ∀ b, ¬ IsFatBlock v b → ¬ IsClusterBlock v cs b → d.get b = d0.get b
  inRange : ∀ x, x ∈ cs → InRange v x

theorem Others.trans {v : FatVolume} {A B : List (List Nat)} {d0 d1 d2 : Disk} {cs1 cs2 : List Nat}
    (h1 : Others v A B d0 cs1 d1) (h2 : Others v A B d1 cs2 d2) (hsub : ∀ x, x ∈ cs1 → x ∈ cs2) :
    Others v A B d0 cs2 d2 :=
  ⟨h2.chains, fun b hb hc => (h2.frame b hb hc).trans (h1.frame b hb fun h => hc (isClusterBlock_mono hsub h)), h2.inRange⟩

theorem Others.mono {v : FatVolume} {A B : List (List Nat)} {d0 d : Disk} {cs cs' : List Nat}
    (h : Others v A B d0 cs d) (hsub : ∀ x, x ∈ cs → x ∈ cs')
    (hdis : ∀ X, X ∈ A ++ B → ∀ x, x ∈ X → x ∉ cs') (hr : ∀ x, x ∈ cs' → InRange v x) : Others v A B d0 cs' d :=
  ⟨fun X hX => ⟨(h.chains X hX).1, hdis X hX⟩, fun b hb hc => h.frame b hb fun hc' => hc (isClusterBlock_mono hsub hc'), hr⟩

theorem owns3_disjoint {v : FatVolume} {d : Disk} {A B : List (List Nat)} {M : List (List Nat)} {X : List Nat}
    (ho : Owns v d (A ++ M ++ B)) (hX : X ∈ A ++ B) : ∀ x, x ∈ X → x ∉ M.flatten := by
  intro x hx hm
  have hnd := ho.2.1
  rw [flatten3, nodup3] at hnd
  obtain ⟨_, _, _, dAM, _, dMB⟩ := hnd
  rcases List.mem_append.1 hX with h | h
  · exact dAM x (List.mem_flatten_of_mem h hx) hm
  · exact dMB x hm (List.mem_flatten_of_mem h hx)

theorem mem_owns3 {A B M : List (List Nat)} {X : List Nat} (hX : X ∈ A ++ B) : X ∈ A ++ M ++ B := by
  rcases List.mem_append.1 hX with h | h
  · exact List.mem_append_left _ (List.mem_append_left _ h)
  · exact List.mem_append_right _ h

/-- The other chains after a change of the medium that touched only FAT entries of clusters that
were free or belong to the written file's chain. -/
theorem others_of_upd {v : FatVolume} {d d' : Disk} {A B M : List (List Nat)}
    (ho : Owns v d (A ++ M ++ B)) (hu : Upd v (fun x => isFree v d x ∨ x ∈ M.flatten) d d') :
    Others v A B d M.flatten d' := by
  have hin : ∀ x, x ∈ M.flatten → InRange v x := by
    intro x hx
    obtain ⟨m, hm, hxm⟩ := List.mem_flatten.1 hx
    exact chain_inRange (ho.1 m (List.mem_append_left _ (List.mem_append_right _ hm))) x hxm
  refine ⟨fun X hX => ⟨?_, owns3_disjoint ho hX⟩, fun b hb _ => hu.nonfat b hb, hin⟩
  have hch := ho.1 X (mem_owns3 hX)
  refine chain_transfer hch rfl fun x hx => ?_
  have hused := chain_mem_used hch x hx
  exact nextOf_congr rfl (hu.entries x hused.1.2 fun hk => hk.elim (fun hf => hused.2.1 hf) (owns3_disjoint ho hX x hx))

/-- The other chains in a state satisfying the loop invariant, with a frame. -/
theorem others_of_winv {i vi : Nat} {A B : List (List Nat)} {t : Mgr} {f' : FileInfo} {v v' : VolInfo} {cs' : List Nat}
    {d0 : Disk} (h : WInv i vi A B t f' v' cs') (hsg : Spec.SameGeom v.vol v'.vol)
    (hframe : ∀ b, ¬ IsFatBlock v.vol b → ¬ IsClusterBlock v.vol cs' b → t.dev.disk.get b = d0.get b) :
    Others v.vol A B d0 cs' t.dev.disk := by
  refine ⟨fun X hX => ⟨chain_sameGeom hsg.symm (h.owns.1 X (mem_owns3 hX)), fun x hx hc => ?_⟩, hframe,
    fun x hx => (hsg.inRange x).1 (chain_inRange h.chain x hx)⟩
  exact owns3_disjoint h.owns hX x hx (by rw [ForestStep.flatten_one]; exact hc)

/-! ### `locate` when a device call may fail -/

theorem findDataOnDisk_readOnly (a b : Nat) (st : Nat × Nat) : ReadOnly (findDataOnDisk a b st) :=
  findDataOnDisk_inv (R := RO) a b st

/-- Whatever fails inside `locate`: the file table is untouched, the volume record keeps its
geometry, and the medium changes at most in FAT entries of clusters that were free or belong to the
file's own chain. -/
theorem locate_any (i vi : Nat) (A B : List (List Nat)) (s : Mgr) (f : FileInfo) (v : VolInfo) (cs : List Nat)
    (h : WInv i vi A B (mclr s) f v cs) :
    ∃ v1, (locate vi f s).2 = { s with dev := (locate vi f s).2.dev, cache := (locate vi f s).2.cache, vols := s.vols.set vi v1 } ∧
      v1 = { v with vol := v1.vol } ∧ Spec.SameGeom v.vol v1.vol ∧
      Upd v.vol (fun x => isFree v.vol s.dev.disk x ∨ x ∈ cs) s.dev.disk (locate vi f s).2.dev.disk ∧
      (locate vi f s).2.dev.faults = s.dev.faults := by
  obtain ⟨_, hcoh, hblk, _⟩ := h.ok
  have hv : s.vols[vi]? = some v := h.vol
  have hch : Chain v.vol s.dev.disk f.entry.cluster cs := h.chain
  have hcur : ∃ k, k < cs.length ∧ f.curClusterOff = k * clusterBytesLen v.vol ∧ cs[k]? = some f.curCluster := by
    rcases h.fileOK.cursor with hc | hc
    · exact absurd hc h.ne
    · exact hc
  -- the first `find_data_on_disk`
  obtain ⟨k, z, r, fs1, hfind, hk, hz, hro1⟩ := find_cursor_on_chain f cs (fsOf s v) f.currentOffset hcoh h.geom hch hcur
  have hfindM := withVol_ro vi (findDataOnDisk f.entry.cluster f.currentOffset (f.curClusterOff, f.curCluster)) s v hv
    (by rw [hfind]; exact hro1)
  rw [hfind] at hfindM
  simp only [fsOf_vol] at hfindM
  generalize hsA : ({ s with dev := fs1.dev, cache := fs1.cache } : Mgr) = sA at hfindM
  have hsA_done : ∃ v1, sA = { s with dev := sA.dev, cache := sA.cache, vols := s.vols.set vi v1 } ∧
      v1 = { v with vol := v1.vol } ∧ Spec.SameGeom v.vol v1.vol ∧
      Upd v.vol (fun x => isFree v.vol s.dev.disk x ∨ x ∈ cs) s.dev.disk sA.dev.disk ∧ sA.dev.faults = s.dev.faults := by
    refine ⟨v, ?_, rfl, SameGeom.refl _, Upd.of_eq (by rw [← hsA]; exact hro1.disk), by rw [← hsA]; exact hro1.faults⟩
    rw [← hsA]
    show _ = ({ s with dev := fs1.dev, cache := fs1.cache, vols := s.vols.set vi v } : Mgr)
    rw [list_set_self _ _ _ hv]
  unfold locate
  rw [M.attempt_bind_apply, hfindM]
  simp only
  -- which arm?
  have hzr : InRange v.vol z := chain_inRange_get hch k z hz
  cases r with
  | ok x => exact hsA_done
  | panic m => exact hsA_done
  | diverged => exact hsA_done
  | err e =>
    by_cases he : e = .EndOfFile
    · subst he
      simp only
      -- the allocation
      have hvA : sA.vols[vi]? = some v := by rw [← hsA]; exact hv
      have hfsA : fsOf sA v = fs1 := by rw [← hsA]; exact fsOf_ro_eq s v fs1 hro1
      have hallocM := withVol_run vi (allocCluster (some z) false) sA v hvA
      rw [hfsA] at hallocM
      obtain ⟨hu2, hsg2, hf2⟩ := alloc_any fs1 (some z) (hro1.coherent hcoh) (by intro j; rw [hro1.disk]; exact hblk j)
        (by rw [hro1.vol]; exact h.geom) (by rw [hro1.vol]; exact h.hint)
        (fun p hp => by cases hp; rw [hro1.vol]; exact hzr.2)
      rw [hro1.vol, hro1.disk] at hu2
      simp only [fsOf_vol, fsOf_dev] at hu2 hsg2
      rw [hro1.vol] at hsg2
      simp only [fsOf_vol] at hsg2
      generalize hout : allocCluster (some z) false fs1 = out at hallocM hu2 hsg2 hf2
      obtain ⟨ra, fs2⟩ := out
      simp only at hallocM hu2 hsg2 hf2
      generalize hv1def : ({ v with vol := fs2.vol } : VolInfo) = v1 at hallocM
      have hv1vol : v1.vol = fs2.vol := by rw [← hv1def]
      generalize hsB : ({ sA with dev := fs2.dev, cache := fs2.cache, vols := sA.vols.set vi v1 } : Mgr) = sB at hallocM
      have hupd : Upd v.vol (fun x => isFree v.vol s.dev.disk x ∨ x ∈ cs) s.dev.disk fs2.dev.disk :=
        hu2.mono fun x hx => hx.imp id fun e => by cases e; exact List.mem_of_getElem? hz
      have hvilt : vi < s.vols.length := (List.getElem?_eq_some_iff.1 hv).1
      have hsB_done : ∃ v1', sB = { s with dev := sB.dev, cache := sB.cache, vols := s.vols.set vi v1' } ∧
          v1' = { v with vol := v1'.vol } ∧ Spec.SameGeom v.vol v1'.vol ∧
          Upd v.vol (fun x => isFree v.vol s.dev.disk x ∨ x ∈ cs) s.dev.disk sB.dev.disk ∧ sB.dev.faults = s.dev.faults := by
        refine ⟨v1, ?_, by rw [← hv1def], by rw [hv1vol]; exact hsg2, by rw [← hsB]; exact hupd,
          by rw [← hsB]; exact hf2.trans hro1.faults⟩
        rw [← hsB, ← hsA]
      rw [M.attempt_bind_apply, hallocM]
      simp only
      cases ra with
      | err e' => exact hsB_done
      | panic m => exact hsB_done
      | diverged => exact hsB_done
      | ok c =>
        simp only
        -- the second `find_data_on_disk` is read-only
        have hvB : sB.vols[vi]? = some v1 := by rw [← hsB, ← hsA]; exact List.getElem?_set_self hvilt
        have hfind2M := withVol_ro' vi (findDataOnDisk f.entry.cluster f.currentOffset (k * clusterBytesLen v.vol, z))
          (findDataOnDisk_readOnly _ _ _) sB v1 hvB
        have hro3 := findDataOnDisk_readOnly f.entry.cluster f.currentOffset (k * clusterBytesLen v.vol, z) (fsOf sB v1)
        generalize hout3 : findDataOnDisk f.entry.cluster f.currentOffset (k * clusterBytesLen v.vol, z) (fsOf sB v1) = out3
          at hfind2M hro3
        obtain ⟨r3, fs3⟩ := out3
        simp only at hfind2M hro3
        rw [M.attempt_bind_apply, hfind2M]
        have hsC_done : ∃ v1', ({ sB with dev := fs3.dev, cache := fs3.cache } : Mgr) =
            { s with dev := fs3.dev, cache := fs3.cache, vols := s.vols.set vi v1' } ∧
            v1' = { v with vol := v1'.vol } ∧ Spec.SameGeom v.vol v1'.vol ∧
            Upd v.vol (fun x => isFree v.vol s.dev.disk x ∨ x ∈ cs) s.dev.disk fs3.dev.disk ∧ fs3.dev.faults = s.dev.faults := by
          obtain ⟨v1', e1, e2, e3, e4, e5⟩ := hsB_done
          refine ⟨v1', by rw [e1], e2, e3, ?_, ?_⟩
          · rw [hro3.disk]; exact e4
          · rw [hro3.faults]; exact e5
        simp only
        cases r3 with
        | ok y =>
          obtain ⟨cc2, res⟩ := y
          cases res with
          | ok x => exact hsC_done
          | err e' => exact hsC_done
          | panic m => exact hsC_done
          | diverged => exact hsC_done
        | err e' => exact hsC_done
        | panic m => exact hsC_done
        | diverged => exact hsC_done
    · have : (match (Res.err e : Res (Nat × Nat × Nat)) with
          | .ok x => (pure ((k * clusterBytesLen v.vol, z), x) : M ((Nat × Nat) × (Nat × Nat × Nat)))
          | .err .EndOfFile => M.fail .DiskFull
          | other => M.lift (other.bind fun _ => .err .DiskFull)) = M.lift (.err e) := by
        cases e <;> first | exact absurd rfl he | rfl
      cases e <;> first | exact absurd rfl he | exact hsA_done

end Sdmmc.Lemmas.Retry
