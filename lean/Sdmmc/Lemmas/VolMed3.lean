/-
Volume invariant (C03), layer 1b: the FAT changes (a chain is extended, cut, freed, created) and/or
blocks outside the directories are written — `medX_fat_update`: with the directory chains and the
directory blocks untouched, the invariant is re-assembled from the new `Owns` and a `TreeOK` stated
over the OLD slot lists.  `Owns` does not depend on the order of the chain list (`owns_perm`).
-/
import Sdmmc.Lemmas.VolMed2

namespace Sdmmc.Lemmas.VolMed
open Sdmmc.Model Sdmmc.Model.Fat Sdmmc.Spec Sdmmc.Spec.Volume Sdmmc.Lemmas.VolBase Sdmmc.Lemmas.VolTree
open Sdmmc.Lemmas.VolDisk

theorem owns_perm {v : FatVolume} {d : Disk} {G G' : List (List Nat)} (hp : G.Perm G') (h : Owns v d G) : Owns v d G' := by
  obtain ⟨h1, h2, h3⟩ := h
  refine ⟨fun cs hcs => h1 cs (hp.symm.subset hcs), (hp.flatten.nodup_iff).1 h2, fun c => ?_⟩
  rw [h3 c]
  exact ⟨fun hm => hp.flatten.subset hm, fun hm => hp.flatten.symm.subset hm⟩

/-- A file record consistent with a chain stays consistent when that chain is still a chain. -/
theorem fileOK_of_owns {v v' : FatVolume} {d d' : Disk} {f : FileInfo} {cs : List Nat} {Gall : List (List Nat)}
    (hs : SameGeom v v') (hok : FileOK v d f cs) (ho : Owns v' d' Gall) (hm : cs = [] ∨ cs ∈ Gall) : FileOK v' d' f cs := by
  apply fileOK_congr hs hok
  intro hne
  rcases hm with hm | hm
  · exact absurd hm hne
  · have := ho.1 cs hm
    rcases hok.chain with ⟨_, h2, _⟩ | hch
    · exact absurd h2 hne
    · have hh := ForestBase.chain_head_eq hch
      rwa [hh] at this

/-- `MedX` does not look at the volume record kept in the ghost. -/
theorem medX_of_ghost {v : FatVolume} {d : Disk} {files : List FileInfo} {gh gh' : Ghost} {X : List (List Nat)}
    (h : MedX v d files gh X) (hG : gh'.G = gh.G) (hD : gh'.dirs = gh.dirs) : MedX v d files gh' X := by
  obtain ⟨h1, h2, h3, h4, h5, h6⟩ := h
  exact ⟨h1, h2, h3, by rw [hG]; exact h4, by rw [hG, hD]; exact h5, by rw [hG]; exact h6⟩

/-- **Assembling the invariant** for a new state `(v', d', G', files')` from: the new `Owns`; a reference
medium `dw` with chain list `G0` whose directory chains and directory blocks are those of the new
state; a `TreeOK` over the reference slot lists; `FileOK` of the open files. -/
theorem medX_assemble {v v' : FatVolume} {dw d' : Disk} (hg : WFGeom v) (hs : SameGeom v v') (hh : HintOK v')
    (hb : BlocksOK d') {G0 G' X' : List (List Nat)} {dirs : List (Nat × Nat)} (hown : Owns v' d' (G' ++ X'))
    (hdir : ∀ h, h ∈ dirIds dirs → ¬ isFixedRoot v h → chainOf G' (dirHead v h) = chainOf G0 (dirHead v h))
    (hblocks : ∀ h, h ∈ dirIds dirs → ∀ s, s ∈ dirSlots v dw G0 h → d'.get s.1 = dw.get s.1)
    {files' : List FileInfo}
    (htree : TreeOK v.fatType (clusterBytesLen v) (rootHead v) G' dirs (dirSlots v dw G0) files')
    (hfiles : ∀ f, f ∈ files' → FileOK v' d' f (chainOf G' f.entry.cluster) ∧
      (chainOf G' f.entry.cluster = [] → f.curCluster < 2)) :
    MedX v' d' files' { vol := v', G := G', dirs := dirs } X' := by
  have hslots : ∀ h, h ∈ dirIds dirs → dirSlots v' d' G' h = dirSlots v dw G0 h := by
    intro h hh'
    rw [dirSlots_sameGeom hs]
    by_cases hf : isFixedRoot v h
    · have := dirSlots_congr (G := G0) (hblocks h hh')
      rw [dirSlots_fixed hf] at this ⊢
      exact this
    · rw [dirSlots_chain hf, hdir h hh' hf, ← dirSlots_chain hf]
      exact dirSlots_congr (hblocks h hh')
  refine ⟨hb, hs.wfGeom hg, hh, hown, ?_, hfiles⟩
  show TreeOK v'.fatType (clusterBytesLen v') (rootHead v') G' dirs (dirSlots v' d' G') files'
  have hr : rootHead v' = rootHead v := by obtain ⟨a, b, rfl⟩ := hs; rfl
  rw [hs.fatType, WriteRefines.sameGeom_clusterBytesLen hs, hr]
  have hobj : ∀ x, x ∈ dirIds dirs → objects x (dirSlots v' d' G' x) = objects x (dirSlots v dw G0 x) := by
    intro x hx; rw [hslots x hx]
  refine
    { cleanTail := fun x hx => by rw [hslots x hx]; exact htree.cleanTail x hx
      names := fun x hx => by rw [hslots x hx]; exact htree.names x hx
      order := htree.order
      dots := fun x p hxp => by rw [hslots x (mem_dirIds.2 (.inr ⟨p, hxp⟩))]; exact htree.dots x p hxp
      subdirs := fun x hx o ho hd => htree.subdirs x hx o (by rw [← hobj x hx]; exact ho) hd
      dirRefs := ?_
      allRefs := ?_
      sizes := fun x hx o ho hd => htree.sizes x hx o (by rw [← hobj x hx]; exact ho) hd
      fileSlots := ?_
      fileAttrs := htree.fileAttrs
      filesDistinct := htree.filesDistinct }
  · have : ((dirIds dirs).flatMap fun x => subdirRefs v.fatType (objects x (dirSlots v' d' G' x))) =
        (dirIds dirs).flatMap fun x => subdirRefs v.fatType (objects x (dirSlots v dw G0 x)) :=
      List.flatMap_congr fun x hx => by rw [hobj x hx]
    rw [this]; exact htree.dirRefs
  · have : ((dirIds dirs).flatMap fun x => fileRefs v.fatType files' (objects x (dirSlots v' d' G' x))) =
        (dirIds dirs).flatMap fun x => fileRefs v.fatType files' (objects x (dirSlots v dw G0 x)) :=
      List.flatMap_congr fun x hx => by rw [hobj x hx]
    rw [this]; exact htree.allRefs
  · intro f hf
    obtain ⟨x, hx, o, ho, hrest⟩ := htree.fileSlots f hf
    exact ⟨x, hx, o, by rw [hobj x hx]; exact ho, hrest⟩

section
variable {v : FatVolume} {d : Disk} {files : List FileInfo} {gh : Ghost} {X : List (List Nat)}

/-- **The FAT and non-directory blocks change.**  `G'` are the new chains (with `X'` not yet referenced);
the chain of every directory is the same list as before and no block of a directory changed; the tree
clauses hold for `G'`, `files'` over the old slot lists; the open files are consistent with their
chains of `G'`. -/
theorem medX_fat_update (hM : MedX v d files gh X) {v' : FatVolume} {d' : Disk} (hs : SameGeom v v') (hh : HintOK v')
    (hb : BlocksOK d') {G' X' : List (List Nat)} (hown : Owns v' d' (G' ++ X'))
    (hdir : ∀ h, h ∈ dirIds gh.dirs → ¬ isFixedRoot v h → chainOf G' (dirHead v h) = chainOf gh.G (dirHead v h))
    (hblocks : ∀ h, h ∈ dirIds gh.dirs → ∀ s, s ∈ dirSlots v d gh.G h → d'.get s.1 = d.get s.1)
    {files' : List FileInfo} {dirs' : List (Nat × Nat)} (hdirs : dirs' = gh.dirs)
    (htree : TreeOK v.fatType (clusterBytesLen v) (rootHead v) G' dirs' (dirSlots v d gh.G) files')
    (hfiles : ∀ f, f ∈ files' → FileOK v' d' f (chainOf G' f.entry.cluster) ∧
      (chainOf G' f.entry.cluster = [] → f.curCluster < 2)) :
    MedX v' d' files' { vol := v', G := G', dirs := dirs' } X' := by
  subst hdirs
  exact medX_assemble hM.geom hs hh hb hown hdir hblocks htree hfiles

end

end Sdmmc.Lemmas.VolMed
