/-
C10 over whole API calls (`Props/C10Inv.lean`): basic facts about `CrashInv` (`Spec/VolumeCrash.lean`).

* `ownsLoose_sublist`, `headsOK_of_ownsLoose`: sub-records of a sound record are sound;
* `crash_congr`: `CrashInv` reads the medium only through the FAT entries of the clusters of its chains and the
  blocks its directory slots live in;
* `crash_sameGeom`: … and the volume record only through its geometry;
* `crash_of_medX` (**the bridge**): a medium satisfying the invariant of C03 with the open files `files` (and possibly
  unreferenced chains `X`) whose open files satisfy `RawOK` is crash-consistent; the crash ghost keeps exactly the
  chains the RAW medium references.
-/
import Sdmmc.Spec.VolumeCrash
import Sdmmc.Lemmas.VolMed5
import Sdmmc.Lemmas.CrashBase

namespace Sdmmc.Lemmas.VolCrash
open Sdmmc.Model Sdmmc.Model.Fat Sdmmc.Spec.Volume
open Sdmmc.Spec hiding NoFault Coherent
open Sdmmc.Lemmas.VolBase Sdmmc.Lemmas.VolTree Sdmmc.Lemmas.VolMed Sdmmc.Lemmas.VolDisk
open Sdmmc.Lemmas.CrashBase

/-! ### Lists -/

theorem sublist_flatten {α} {l₁ l₂ : List (List α)} (h : l₁.Sublist l₂) : l₁.flatten.Sublist l₂.flatten := by
  induction h with
  | slnil => exact List.Sublist.refl _
  | cons a _ ih => rw [List.flatten_cons]; exact ih.trans (List.sublist_append_right _ _)
  | cons_cons a _ ih => rw [List.flatten_cons, List.flatten_cons]; exact (List.Sublist.refl a).append ih

theorem sublist_flatMap {α β} (l : List α) {f g : α → List β} (h : ∀ x, x ∈ l → (f x).Sublist (g x)) :
    (l.flatMap f).Sublist (l.flatMap g) := by
  induction l with
  | nil => exact List.Sublist.refl _
  | cons a l ih =>
    rw [List.flatMap_cons, List.flatMap_cons]
    exact (h a List.mem_cons_self).append (ih fun x hx => h x (List.mem_cons_of_mem _ hx))

/-! ### Sound records -/

theorem ownsLoose_sublist {v : FatVolume} {d : Disk} {G G' : List (List Nat)} (h : OwnsLoose v d G) (hs : G'.Sublist G) :
    OwnsLoose v d G' :=
  ⟨fun cs hcs => h.1 cs (hs.subset hcs), (sublist_flatten hs).nodup h.2.1,
   fun c hc => h.2.2 c ((sublist_flatten hs).subset hc)⟩

theorem headsOK_of_ownsLoose {v : FatVolume} {d : Disk} {G : List (List Nat)} (ho : OwnsLoose v d G) : HeadsOK G := by
  have hne : ∀ cs, cs ∈ G → cs ≠ [] := fun cs hcs => ChainL.chain_ne_nil (ho.1 cs hcs)
  refine ⟨hne, ?_, ?_⟩
  · intro cs hcs
    have hch := ho.1 cs hcs
    exact (ChainL.chain_inRange hch _ (ForestBase.chain_head_mem hch)).1
  · have hnd := ho.2.1
    clear ho
    induction G with
    | nil => exact List.nodup_nil
    | cons cs G ih =>
      rw [List.flatten_cons, List.nodup_append] at hnd
      obtain ⟨_, h2, h3⟩ := hnd
      show (cs.headD 0 :: heads G).Nodup
      rw [List.nodup_cons]
      refine ⟨?_, ih (fun x hx => hne x (List.mem_cons_of_mem _ hx)) h2⟩
      intro hm
      obtain ⟨cs', hcs', he⟩ := List.mem_map.1 hm
      have h1 : cs.headD 0 ∈ cs := by
        have := hne cs List.mem_cons_self
        cases cs with
        | nil => exact absurd rfl this
        | cons a l => exact List.mem_cons_self
      have h2' : cs'.headD 0 ∈ G.flatten := by
        have := hne cs' (List.mem_cons_of_mem _ hcs')
        refine List.mem_flatten.2 ⟨cs', hcs', ?_⟩
        cases cs' with
        | nil => exact absurd rfl this
        | cons a l => exact List.mem_cons_self
      exact h3 _ h1 _ h2' he.symm

/-! ### Slots are what the medium holds at their position -/

theorem slotAt_of_mem_runSlots {d : Disk} {b n : Nat} {s : Slot} (h : s ∈ runSlots d b n) : s = slotAt d s.1 s.2.1 := by
  obtain ⟨j, i, _, _, rfl⟩ := mem_runSlots.1 h
  rfl

theorem slotAt_of_mem_chainSlots {v : FatVolume} {d : Disk} {cs : List Nat} {s : Slot} (h : s ∈ chainSlots v d cs) :
    s = slotAt d s.1 s.2.1 := by
  unfold chainSlots at h
  obtain ⟨c, _, hc⟩ := List.mem_flatMap.1 h
  exact slotAt_of_mem_runSlots hc

theorem slotAt_of_mem {v : FatVolume} {d : Disk} {G : List (List Nat)} {h : Nat} {s : Slot} (hs : s ∈ dirSlots v d G h) :
    s = slotAt d s.1 s.2.1 := by
  rw [dirSlots_eq] at hs
  split at hs
  · exact slotAt_of_mem_runSlots hs
  · exact slotAt_of_mem_chainSlots hs

/-! ### Congruence -/

/-- `TreeLoose` reads the slot lists of the directories of the ghost only. -/
theorem treeLoose_congr {ft : FatType} {root : List Nat} {G : List (List Nat)} {dirs : List (Nat × Nat)}
    {slots slots' : Nat → List Slot} (hT : TreeLoose ft root G dirs slots)
    (hs : ∀ h, h ∈ dirIds dirs → slots' h = slots h) : TreeLoose ft root G dirs slots' := by
  have hdir : ∀ h p, (h, p) ∈ dirs → h ∈ dirIds dirs := fun h p hp => mem_dirIds.2 (.inr ⟨p, hp⟩)
  refine ⟨fun h hh => by rw [hs h hh]; exact hT.cleanTail h hh, fun h hh => by rw [hs h hh]; exact hT.names h hh,
    hT.order, fun h p hp => by rw [hs h (hdir h p hp)]; exact hT.dots h p hp,
    fun h hh => by rw [hs h hh]; exact hT.subdirs h hh, ?_, ?_⟩
  · rw [List.flatMap_congr (g := fun h => subdirRefs ft (objects h (slots h))) fun h hh => by rw [hs h hh]]
    exact hT.dirRefs
  · rw [List.flatMap_congr (g := fun h => fileRefs ft [] (objects h (slots h))) fun h hh => by rw [hs h hh]]
    exact hT.allRefs

/-- `CrashInv` without the clause on block lengths (which is about ALL blocks of the medium and is proved separately:
every device write of the library is a 512-byte payload). -/
structure CrashCore (v : FatVolume) (d : Disk) (gh : Ghost) : Prop where
  geom : WFGeom v
  owns : OwnsLoose v d gh.G
  tree : TreeLoose v.fatType (rootHead v) gh.G gh.dirs (dirSlots v d gh.G)

theorem crashInv_iff {v : FatVolume} {d : Disk} {gh : Ghost} : CrashInv v d gh ↔ BlocksOK d ∧ CrashCore v d gh :=
  ⟨fun h => ⟨h.blocksOK, h.geom, h.owns, h.tree⟩, fun h => ⟨h.1, h.2.geom, h.2.owns, h.2.tree⟩⟩

/-! ### FAT entries -/

/-- The FAT entry (copy 1) of cluster `c` is free, a bad mark, an end-of-chain mark or a link to a data cluster. -/
def EntryOK (v : FatVolume) (d : Disk) (c : Nat) : Prop :=
  isFree v d c ∨ isBad v d c ∨ nextOf v d c = .err .EndOfFile ∨ ∃ n, nextOf v d c = .ok n ∧ InRange v n

theorem fatEntriesOK_iff {v : FatVolume} {d : Disk} : FatEntriesOK v d ↔ ∀ c, InRange v c → EntryOK v d c := Iff.rfl

theorem entryOK_congr {v : FatVolume} {d d' : Disk} {c : Nat} (h : fatRaw v d' c = fatRaw v d c) (hE : EntryOK v d c) :
    EntryOK v d' c := by
  rcases hE with h1 | h1 | h1 | ⟨n, h1, h2⟩
  · exact .inl ((ForestStep.isFree_congr_raw h).2 h1)
  · exact .inr (.inl ((isBad_congr_raw h).2 h1))
  · exact .inr (.inr (.inl (by rw [ForestBase.nextOf_congr rfl h]; exact h1)))
  · exact .inr (.inr (.inr ⟨n, by rw [ForestBase.nextOf_congr rfl h]; exact h1, h2⟩))

/-- A member of a chain has a valid entry. -/
theorem chain_entryOK {v : FatVolume} {d : Disk} {h : Nat} {cs : List Nat} (hch : Chain v d h cs) {c : Nat} (hc : c ∈ cs) :
    EntryOK v d c := by
  induction hch with
  | last c0 hr he =>
    rw [List.mem_singleton.1 hc]
    exact .inr (.inr (.inl he))
  | link c0 n rest hr hn _ hrest ih =>
    rcases List.mem_cons.1 hc with rfl | hc
    · exact .inr (.inr (.inr ⟨n, hn, ChainL.chain_inRange hrest n (ForestBase.chain_head_mem hrest)⟩))
    · exact ih hc

/-- On an exact record every entry is valid. -/
theorem fatOK_of_owns {v : FatVolume} {d : Disk} {G : List (List Nat)} (ho : Owns v d G) : FatEntriesOK v d := by
  intro c hc
  by_cases hf : isFree v d c
  · exact .inl hf
  by_cases hb : isBad v d c
  · exact .inr (.inl hb)
  obtain ⟨cs, hcs, hm⟩ := List.mem_flatten.1 ((ho.2.2 c).1 ⟨hc, hf, hb⟩)
  exact chain_entryOK (ho.1 cs hcs) hm

/-- Entries outside `t` as on a medium with valid entries, entries of `t` valid. -/
theorem fatOK_patch {v : FatVolume} {d d' : Disk} (hF : FatEntriesOK v d) (t : List Nat)
    (hother : ∀ y, y < endCluster v → y ∉ t → fatRaw v d' y = fatRaw v d y) (ht : ∀ y, y ∈ t → InRange v y → EntryOK v d' y) :
    FatEntriesOK v d' := by
  intro c hc
  by_cases hm : c ∈ t
  · exact ht c hm hc
  · exact entryOK_congr (hother c hc.2 hm) (hF c hc)

theorem fatOK_sameGeom {v v' : FatVolume} {d : Disk} (hs : SameGeom v v') (h : FatEntriesOK v d) : FatEntriesOK v' d := by
  obtain ⟨a, b, rfl⟩ := hs
  exact h

/-- The medium is crash-consistent (up to block lengths) for SOME ghost, and every FAT entry is valid. -/
def CI (v : FatVolume) (d : Disk) : Prop := (∃ gh, CrashCore v d gh) ∧ FatEntriesOK v d

/-- **`CrashCore` depends on the medium only through the FAT entries of the clusters of its chains and the blocks
its directory slots live in.** -/
theorem core_congr {v : FatVolume} {d d' : Disk} {gh : Ghost} (hC : CrashCore v d gh)
    (ho : OwnsLoose v d' gh.G)
    (hblk : ∀ h, h ∈ dirIds gh.dirs → ∀ s, s ∈ dirSlots v d gh.G h → d'.get s.1 = d.get s.1) : CrashCore v d' gh :=
  ⟨hC.geom, ho, treeLoose_congr hC.tree fun h hh => dirSlots_congr (hblk h hh)⟩

/-- The ghost's `vol` field is not used. -/
theorem core_ghost {v : FatVolume} {d : Disk} {gh gh' : Ghost} (hC : CrashCore v d gh) (hG : gh'.G = gh.G)
    (hD : gh'.dirs = gh.dirs) : CrashCore v d gh' :=
  ⟨hC.geom, by rw [hG]; exact hC.owns, by rw [hG, hD]; exact hC.tree⟩

theorem core_sameGeom {v v' : FatVolume} {d : Disk} {gh : Ghost} (hs : SameGeom v v') (hC : CrashCore v d gh) :
    CrashCore v' d gh := by
  have hr : rootHead v' = rootHead v := by
    obtain ⟨a, b, rfl⟩ := hs; rfl
  refine ⟨hs.wfGeom hC.geom, ownsLoose_sameGeom hs hC.owns, ?_⟩
  rw [hs.fatType, hr]
  exact treeLoose_congr hC.tree fun h _ => dirSlots_sameGeom hs d gh.G h

theorem CI.sameGeom {v v' : FatVolume} {d : Disk} (hs : SameGeom v v') (h : CI v d) : CI v' d := by
  obtain ⟨⟨gh, hC⟩, hF⟩ := h
  exact ⟨⟨gh, core_sameGeom hs hC⟩, fatOK_sameGeom hs hF⟩

/-! ### The bridge from the invariant of C03 -/

theorem effCluster_nil (ft : FatType) (o : Slot) : effCluster ft [] o = sCluster ft o := rfl

/-- Raw references are a sub-list of the effective ones when every raw cluster field is 0 or the effective one. -/
theorem fileRefs_raw_sublist {ft : FatType} {files : List FileInfo} (os : List Slot)
    (h : ∀ o, o ∈ os → isDirE o = false → sCluster ft o = 0 ∨ sCluster ft o = effCluster ft files o) :
    (fileRefs ft [] os).Sublist (fileRefs ft files os) := by
  induction os with
  | nil => exact List.Sublist.refl _
  | cons o os ih =>
    have ih' := ih fun x hx => h x (List.mem_cons_of_mem _ hx)
    have e1 : fileRefs ft [] (o :: os) = fileRefs ft [] [o] ++ fileRefs ft [] os := fileRefs_append ft [] [o] os
    have e2 : fileRefs ft files (o :: os) = fileRefs ft files [o] ++ fileRefs ft files os := fileRefs_append ft files [o] os
    rw [e1, e2]
    refine List.Sublist.append ?_ ih'
    rw [fileRefs_single, fileRefs_single, effCluster_nil]
    by_cases hd : isDirE o = false
    · rcases h o List.mem_cons_self hd with h0 | h1
      · rw [if_neg (fun hh => hh.2 h0)]; exact List.nil_sublist _
      · rw [h1]
    · rw [if_neg (fun hh => hd hh.1)]; exact List.nil_sublist _

section Bridge
variable {v : FatVolume} {d : Disk} {files : List FileInfo} {gh : Ghost} {X : List (List Nat)}

/-- The raw cluster field of an object is 0 or the effective one. -/
theorem raw_or_eff (hM : MedX v d files gh X) (hR : RawOK v.fatType d files) {h : Nat} {o : Slot}
    (ho : o ∈ objects h (dirSlots v d gh.G h)) :
    sCluster v.fatType o = 0 ∨ sCluster v.fatType o = effCluster v.fatType files o := by
  unfold effCluster
  cases hp : pendOf files o with
  | none => exact .inr rfl
  | some f =>
    obtain ⟨hf, hk⟩ := (pendOf_some_iff hM.tree.filesDistinct o f).1 hp
    have hk' : f.entry.entryBlock = o.1 ∧ f.entry.entryOffset = o.2.1 := Prod.mk.inj hk
    have := hR f hf
    rw [hk'.1, hk'.2, ← slotAt_of_mem (mem_of_mem_objects ho)] at this
    exact this

/-- The references of the raw medium. -/
def rawRefs (v : FatVolume) (d : Disk) (gh : Ghost) : List Nat :=
  rootHead v ++ gh.dirs.map Prod.fst ++
    (dirIds gh.dirs).flatMap fun h => fileRefs v.fatType [] (objects h (dirSlots v d gh.G h))

/-- The chains the raw medium references. -/
def rawChains (v : FatVolume) (d : Disk) (gh : Ghost) : List (List Nat) :=
  gh.G.filter fun cs => decide (cs.headD 0 ∈ rawRefs v d gh)

/-- The crash ghost of a state of the invariant of C03. -/
def crashGhost (v : FatVolume) (d : Disk) (gh : Ghost) : Ghost := { vol := v, G := rawChains v d gh, dirs := gh.dirs }

theorem rawChains_sublist (v : FatVolume) (d : Disk) (gh : Ghost) : (rawChains v d gh).Sublist gh.G := List.filter_sublist

theorem rawRefs_sublist (hM : MedX v d files gh X) (hR : RawOK v.fatType d files) :
    (rawRefs v d gh).Sublist
      (rootHead v ++ gh.dirs.map Prod.fst ++
        (dirIds gh.dirs).flatMap fun h => fileRefs v.fatType files (objects h (dirSlots v d gh.G h))) := by
  unfold rawRefs
  refine List.Sublist.append (List.Sublist.refl _) (sublist_flatMap _ fun h _ => fileRefs_raw_sublist _ fun o ho _ => ?_)
  exact raw_or_eff hM hR ho

theorem rawRefs_nodup (hM : MedX v d files gh X) (hR : RawOK v.fatType d files) : (rawRefs v d gh).Nodup :=
  (rawRefs_sublist hM hR).nodup ((hM.tree.allRefs.nodup_iff).2 (med_heads hM).nodup)

theorem rawRefs_heads (hM : MedX v d files gh X) (hR : RawOK v.fatType d files) {x : Nat} (hx : x ∈ rawRefs v d gh) :
    x ∈ heads gh.G :=
  hM.tree.allRefs.subset ((rawRefs_sublist hM hR).subset hx)

theorem heads_rawChains (v : FatVolume) (d : Disk) (gh : Ghost) :
    heads (rawChains v d gh) = (heads gh.G).filter fun x => decide (x ∈ rawRefs v d gh) := by
  unfold rawChains heads
  rw [List.filter_map]
  rfl

theorem rawRefs_perm (hM : MedX v d files gh X) (hR : RawOK v.fatType d files) :
    List.Perm (rawRefs v d gh) (heads (rawChains v d gh)) := by
  rw [heads_rawChains]
  refine (List.perm_ext_iff_of_nodup (rawRefs_nodup hM hR) ((med_heads hM).nodup.filter _)).2 fun a => ?_
  rw [List.mem_filter, decide_eq_true_eq]
  exact ⟨fun h => ⟨rawRefs_heads hM hR h, h⟩, fun h => h.2⟩

/-- A referenced chain is kept. -/
theorem chainOf_rawChains (hM : MedX v d files gh X) (hR : RawOK v.fatType d files) {x : Nat} (hx : x ∈ rawRefs v d gh) :
    chainOf (rawChains v d gh) x = chainOf gh.G x := by
  obtain ⟨hm, hh⟩ := chainOf_spec (med_heads hM) (rawRefs_heads hM hR hx)
  have hO : OwnsLoose v d (rawChains v d gh) :=
    ownsLoose_sublist (ownsLoose_of_owns hM.owns) ((rawChains_sublist v d gh).trans (List.sublist_append_left _ _))
  refine chainOf_of_mem (headsOK_of_ownsLoose hO) ?_ hh
  unfold rawChains
  rw [List.mem_filter, decide_eq_true_eq, headD_of_head? hh]
  exact ⟨hm, hx⟩

theorem dirHead_rawRefs {h : Nat} (hh : h ∈ dirIds gh.dirs) (hf : ¬ isFixedRoot v h) : dirHead v h ∈ rawRefs v d gh := by
  unfold rawRefs dirHead
  by_cases h0 : h = 0
  · rw [if_pos h0]
    have h32 : v.fatType = .fat32 := by
      cases hft : v.fatType with
      | fat16 => exact absurd ⟨h0, hft⟩ hf
      | fat32 => rfl
    refine List.mem_append_left _ (List.mem_append_left _ ?_)
    unfold rootHead; rw [h32]; exact List.mem_singleton.2 rfl
  · rw [if_neg h0]
    rcases mem_dirIds.1 hh with e | ⟨p, hp⟩
    · exact absurd e h0
    · exact List.mem_append_left _ (List.mem_append_right _ (List.mem_map.2 ⟨(h, p), hp, rfl⟩))

theorem dirSlots_rawChains (hM : MedX v d files gh X) (hR : RawOK v.fatType d files) {h : Nat} (hh : h ∈ dirIds gh.dirs) :
    dirSlots v d (rawChains v d gh) h = dirSlots v d gh.G h := by
  by_cases hf : isFixedRoot v h
  · rw [dirSlots_fixed hf, dirSlots_fixed hf]
  · rw [dirSlots_chain hf, dirSlots_chain hf, chainOf_rawChains hM hR (dirHead_rawRefs hh hf)]

/-- **The bridge.**  A state of the invariant of C03 (open files `files`, unreferenced chains `X`) whose open files
satisfy `RawOK` is a crash-consistent MEDIUM; the ghost keeps the chains the raw medium references. -/
theorem core_of_medX (hM : MedX v d files gh X) (hR : RawOK v.fatType d files) : CrashCore v d (crashGhost v d gh) := by
  have hO : OwnsLoose v d (rawChains v d gh) :=
    ownsLoose_sublist (ownsLoose_of_owns hM.owns) ((rawChains_sublist v d gh).trans (List.sublist_append_left _ _))
  refine ⟨hM.geom, hO, ?_⟩
  have hT := hM.tree
  have hbase : TreeLoose v.fatType (rootHead v) (rawChains v d gh) gh.dirs (dirSlots v d gh.G) :=
    ⟨hT.cleanTail, hT.names, hT.order, hT.dots, hT.subdirs, hT.dirRefs, rawRefs_perm hM hR⟩
  exact treeLoose_congr hbase fun h hh => dirSlots_rawChains hM hR hh

theorem crash_of_medX (hM : MedX v d files gh X) (hR : RawOK v.fatType d files) : CrashInv v d (crashGhost v d gh) :=
  crashInv_iff.2 ⟨hM.blocksOK, core_of_medX hM hR⟩

theorem ci_of_medX (hM : MedX v d files gh X) (hR : RawOK v.fatType d files) : CI v d :=
  ⟨⟨_, core_of_medX hM hR⟩, fatOK_of_owns hM.owns⟩

end Bridge

end Sdmmc.Lemmas.VolCrash
