/-
`Gen/FunsWrap.lean` against `Model/Wrap.lean`: the `File` wrapper's inherent methods and the embedded-io traits.
The statements are repeated, with their reading, in `Props/C01GenIo.lean`.
-/
import Sdmmc.Lemmas.GenWrap

namespace Sdmmc.Lemmas.GenWrapIo

open Sdmmc Sdmmc.Model Sdmmc.Gen Sdmmc.Lemmas.GenMgr Sdmmc.Lemmas.GenMgrIO Sdmmc.Lemmas.GenWrap
open Sdmmc.Lemmas.FatOps (BlocksOK)
open Sdmmc.Props.C01GenRead (outRead)

/-! ### Inherent methods -/

theorem is_eof_eq (f : Nat) : FunsWrap.File_is_eof f = Wrap.File.isEof f := by
  unfold FunsWrap.File_is_eof Wrap.File.isEof
  rw [file_eof_call, expectOk_eq]
theorem length_eq (f : Nat) : FunsWrap.File_length f = Wrap.File.length f := by
  unfold FunsWrap.File_length Wrap.File.length
  rw [file_length_call, expectOk_eq]
theorem offset_eq (f : Nat) : FunsWrap.File_offset f = Wrap.File.offset f := by
  unfold FunsWrap.File_offset Wrap.File.offset
  rw [file_offset_call, expectOk_eq]
theorem seek_from_start_eq (f n : Nat) : FunsWrap.File_seek_from_start f n = Wrap.File.seekFromStart f n :=
  file_seek_from_start_call f n
theorem seek_from_end_eq (f n : Nat) : FunsWrap.File_seek_from_end f n = Wrap.File.seekFromEnd f n :=
  file_seek_from_end_call f n
theorem seek_from_current_eq (f : Nat) (x : Int) (s : Mgr) (hsz : ∀ f ∈ s.files, f.entry.size < 4294967296) :
    FunsWrap.File_seek_from_current f x s = Wrap.File.seekFromCurrent f x s :=
  file_seek_from_current_call f x s hsz
theorem flush_eq (f : Nat) (s : Mgr) (hok : FlushOK s) : FunsWrap.File_flush f s = Wrap.File.flush f s :=
  flush_file_call f s hok

theorem read_locked (fuel f : Nat) (buf : List UInt8) (s : Mgr) (hl : s.locked = true) :
    FunsWrap.File_read fuel f buf s = (.err .LockError, s) :=
  Props.C01GenRead.read_locked fuel f buf s hl

theorem read_eq (fuel f : Nat) (buf : List UInt8) (s : Mgr)
    (hfuel : buf.length < fuel) (hsz : ∀ f ∈ s.files, f.entry.size < 4294967296)
    (hbk : BlocksOK s.dev.disk) (hbl : s.cache.blk.length = 512) :
    PEq (FunsWrap.File_read fuel f buf s) (outRead buf (Wrap.File.read f buf.length s)) := by
  cases hl : s.locked
  · unfold Wrap.File.read
    rw [call_free _ _ hl]
    exact Props.C01GenRead.read_eq fuel f buf s hl hfuel hsz hbk hbl
  · unfold Wrap.File.read
    rw [call_locked _ _ hl, read_locked fuel f buf s hl]
    exact PEq.rfl' _

theorem write_eq (fuel f : Nat) (buf : List UInt8) (s : Mgr) (hfuel : buf.length < fuel) :
    PEq (FunsWrap.File_write fuel f buf s) (Wrap.File.write f buf s) := by
  cases hl : s.locked
  · unfold Wrap.File.write
    rw [call_free _ _ hl]
    exact Props.C01GenWrite.write_eq fuel f buf s hl hfuel
  · unfold Wrap.File.write
    rw [call_locked _ _ hl]
    exact PEq.of_eq (Props.C01GenWrite.write_locked fuel f buf s hl)

/-! ### `embedded_io::Read` -/

theorem io_read_empty (fuel f : Nat) (s : Mgr) : FunsWrap.File_Read_read fuel f [] s = (.ok (0, []), s) := rfl

theorem io_read_nonempty (fuel f : Nat) (buf : List UInt8) (h : buf ≠ []) :
    FunsWrap.File_Read_read fuel f buf = FunsWrap.File_read fuel f buf := by
  unfold FunsWrap.File_Read_read
  cases buf with
  | nil => exact absurd rfl h
  | cons b bs => rfl

theorem io_read_eq (fuel f : Nat) (buf : List UInt8) (s : Mgr)
    (hfuel : buf.length < fuel) (hsz : ∀ f ∈ s.files, f.entry.size < 4294967296)
    (hbk : BlocksOK s.dev.disk) (hbl : s.cache.blk.length = 512) :
    PEq (FunsWrap.File_Read_read fuel f buf s) (outRead buf (Wrap.File.ioRead f buf.length s)) := by
  cases buf with
  | nil => exact PEq.of_eq rfl
  | cons b bs =>
    rw [io_read_nonempty fuel f (b :: bs) (by simp)]
    have : Wrap.File.ioRead f (b :: bs).length = Wrap.File.read f (b :: bs).length := by
      unfold Wrap.File.ioRead
      simp only [List.length_cons, Nat.succ_ne_zero, if_false]
    rw [this]
    exact read_eq fuel f (b :: bs) s hfuel hsz hbk hbl

/-! ### `embedded_io::Write` -/

theorem io_write_empty (fuel f : Nat) (s : Mgr) : FunsWrap.File_Write_write fuel f [] s = (.ok 0, s) := rfl

theorem io_write_eq (fuel f : Nat) (buf : List UInt8) (s : Mgr) (hfuel : buf.length < fuel) :
    PEq (FunsWrap.File_Write_write fuel f buf s) (Wrap.File.ioWrite f buf s) := by
  cases buf with
  | nil => exact PEq.of_eq rfl
  | cons b bs =>
    have hg : FunsWrap.File_Write_write fuel f (b :: bs) =
        (FunsWrap.File_write fuel f (b :: bs) >>= fun _ => pure (b :: bs).length) := by
      unfold FunsWrap.File_Write_write
      simp only [List.isEmpty_cons, Bool.false_eq_true, if_false]
    have hm : Wrap.File.ioWrite f (b :: bs) =
        (Wrap.File.write f (b :: bs) >>= fun _ => pure (b :: bs).length) := by
      unfold Wrap.File.ioWrite
      simp only [List.isEmpty_cons, Bool.false_eq_true, if_false]
    rw [hg, hm]
    exact PEq.bind (write_eq fuel f (b :: bs) s hfuel) _

theorem io_flush_eq (f : Nat) (s : Mgr) (hok : FlushOK s) : FunsWrap.File_Write_flush f s = Wrap.File.ioFlush f s :=
  flush_eq f s hok

/-! ### `embedded_io::Seek` -/

theorem io_seek_eq (f : Nat) (pos : FunsWrap.SeekFrom) :
    FunsWrap.File_Seek_seek f pos = Wrap.File.ioSeek f (toModel pos) := by
  unfold FunsWrap.File_Seek_seek Wrap.File.ioSeek
  cases pos with
  | Start o =>
    simp only [toModel, bind_assoc, ofOption_eq, seek_from_start_eq, offset_eq, Wrap.u64ToU32, U32_MAX]
    rfl
  | End o =>
    simp only [toModel, bind_assoc, ofOption_eq, seek_from_end_eq, offset_eq, Wrap.i64CheckedNeg, Wrap.i64ToU32, U32_MAX,
      Wrap.I64_MIN]
    rfl
  | Current o =>
    simp only [toModel, bind_assoc, ofOption_eq, seek_from_start_eq, offset_eq, Wrap.i64CheckedAdd, Wrap.i64ToU32, U32_MAX,
      Wrap.I64_MIN, Wrap.I64_MAX, file_offset_call]
    rfl

end Sdmmc.Lemmas.GenWrapIo
