/-
ROUTE (D) — THE INVARIANT WITH SIZE SLACK.  `MedD k v d files gh X` is `MedX` (`Lemmas/VolMed.lean`: the medium invariant of
C03 with lost chains `X`) with the clause `sizes` of the tree at `clusterBytesLen v + k` instead of `clusterBytesLen v`: the
size stored in the entry of a CLOSED file may exceed what its chain holds by up to `k` bytes per cluster — what a device
failure inside a truncating `open_file_in_dir` leaves (`Props/C11HistT`).  Everything else is kept, in particular `FileOK`
(with `size_fits` at `clusterBytesLen v`) of every OPEN file.  `VolInvD k X s gh`: `VolInvX` with `MedD k`.
`k = 0` is `MedX` / `VolInvX`.
-/
import Sdmmc.Lemmas.VolXBase
import Sdmmc.Lemmas.FaultXTrunc
import Sdmmc.Spec.VolumeSlack

namespace Sdmmc.Lemmas.VolD
open Sdmmc.Model Sdmmc.Model.Fat Sdmmc.Spec Sdmmc.Spec.Volume Sdmmc.Lemmas.VolMed Sdmmc.Lemmas.VolTree Sdmmc.Lemmas.VolX

/-- `MedX` with `k` bytes per cluster of slack in the clause `sizes`. -/
structure MedD (k : Nat) (v : FatVolume) (d : Disk) (files : List FileInfo) (gh : Ghost) (X : List (List Nat)) : Prop where
  blocksOK : BlocksOK d
  geom : WFGeom v
  hint : HintOK v
  owns : Owns v d (gh.G ++ X)
  tree : TreeOK v.fatType (clusterBytesLen v + k) (rootHead v) gh.G gh.dirs (dirSlots v d gh.G) files
  fileOK : ∀ f, f ∈ files → FileOK v d f (chainOf gh.G f.entry.cluster) ∧
    (chainOf gh.G f.entry.cluster = [] → f.curCluster < 2)

theorem medD_zero {v : FatVolume} {d : Disk} {files : List FileInfo} {gh : Ghost} {X : List (List Nat)} :
    MedD 0 v d files gh X ↔ MedX v d files gh X :=
  ⟨fun h => ⟨h.blocksOK, h.geom, h.hint, h.owns, by have := h.tree; rw [Nat.add_zero] at this; exact this, h.fileOK⟩,
   fun h => ⟨h.blocksOK, h.geom, h.hint, h.owns, by rw [Nat.add_zero]; exact h.tree, h.fileOK⟩⟩

theorem MedD.mono {k k' : Nat} {v : FatVolume} {d : Disk} {files : List FileInfo} {gh : Ghost} {X : List (List Nat)}
    (hk : k ≤ k') (h : MedD k v d files gh X) : MedD k' v d files gh X :=
  ⟨h.blocksOK, h.geom, h.hint, h.owns, FaultX.treeOK_mono (Nat.add_le_add_left hk _) h.tree, h.fileOK⟩

/-- `VolInvX` with size slack `k`. -/
structure VolInvD (k : Nat) (X : List (List Nat)) (s : Mgr) (gh : Ghost) : Prop where
  noFault : s.dev.faults = []
  coherent : ∀ i, s.cache.tag = some i → s.cache.blk = s.dev.disk.get i
  unlocked : s.locked = false
  maxVols : s.maxVols = 1
  vols : s.vols = [] ∨ ∃ vi, s.vols = [vi] ∧ vi.vol = gh.vol
  med : MedD k gh.vol s.dev.disk s.files gh X
  fileVols : ∀ f, f ∈ s.files → ∃ vi, s.vols = [vi] ∧ f.rawVolume = vi.rawVolume
  openDirs : ∀ di, di ∈ s.dirs → ValidDir gh.dirs di.cluster

theorem volInvD_zero {X : List (List Nat)} {s : Mgr} {gh : Ghost} : VolInvD 0 X s gh ↔ VolInvX X s gh :=
  ⟨fun h => ⟨h.noFault, h.coherent, h.unlocked, h.maxVols, h.vols, medD_zero.1 h.med, h.fileVols, h.openDirs⟩,
   fun h => ⟨h.noFault, h.coherent, h.unlocked, h.maxVols, h.vols, medD_zero.2 h.med, h.fileVols, h.openDirs⟩⟩

theorem VolInvD.mono {k k' : Nat} {X : List (List Nat)} {s : Mgr} {gh : Ghost} (hk : k ≤ k') (h : VolInvD k X s gh) :
    VolInvD k' X s gh :=
  ⟨h.noFault, h.coherent, h.unlocked, h.maxVols, h.vols, h.med.mono hk, h.fileVols, h.openDirs⟩

/-- Shims: in the restated files `medX_of_med` / `med_of_medX` are the identity. -/
theorem medX_of_med {k : Nat} {v : FatVolume} {d : Disk} {files : List FileInfo} {gh : Ghost} {X : List (List Nat)}
    (h : MedD k v d files gh X) : MedD k v d files gh X := h
theorem med_of_medX {k : Nat} {v : FatVolume} {d : Disk} {files : List FileInfo} {gh : Ghost} {X : List (List Nat)}
    (h : MedD k v d files gh X) : MedD k v d files gh X := h

/-- **No closed file with the name `name` in the open directory with handle `directory` is damaged**: the size its entry
stores fits its chain.  (The side condition of a NON-truncating `open_file_in_dir`; void when no volume is open.) -/
def FitsName (gh : Ghost) (disk : Disk) (vols : List VolInfo) (dirs : List DirInfo) (files : List FileInfo)
    (directory : Nat) (name : List Nat) : Prop :=
  vols ≠ [] → ∀ dir, dir ∈ dirs → dir.rawDirectory = directory → ∀ sfn, Sfn.createFromStr name = .ok sfn →
    ∀ o, o ∈ objects (dirIdOf dir.cluster) (dirSlots gh.vol disk gh.G (dirIdOf dir.cluster)) → sName o = sfn →
      isDirE o = false → pendOf files o = none →
      sSize o ≤ (chainOf gh.G (sCluster gh.vol.fatType o)).length * clusterBytesLen gh.vol

/-- The side condition of a call: a NON-truncating `open_file_in_dir` does not open a damaged file. -/
def FitsOp (gh : Ghost) (s : Mgr) : Op → Prop
  | .openFile directory name mode => keepsSize mode = true → FitsName gh s.dev.disk s.vols s.dirs s.files directory name
  | _ => True

end Sdmmc.Lemmas.VolD
