/-
Lemmas for C18: timestamp codec arithmetic, directory-entry layout and round trip,
8.3-name parser against the grammar of `Sdmmc.Spec.Name83`.
-/
import Sdmmc.Model.DirEntry
import Sdmmc.Spec.Name83

namespace Sdmmc.Lemmas.C18
open Sdmmc.Model Sdmmc.Gen
open Sdmmc.Spec.Name83 (nameChar pad padBase firstByte)

/-- Decidable equality of outcomes (`Except` has none in core); lets `decide` settle the closed
instances stated next to the property theorems. -/
instance instDecidableEqExcept {ε α : Type} [DecidableEq ε] [DecidableEq α] : DecidableEq (Except ε α)
  | .ok a, .ok b => if h : a = b then isTrue (by rw [h]) else isFalse (fun h' => h (Except.ok.inj h'))
  | .error a, .error b =>
    if h : a = b then isTrue (by rw [h]) else isFalse (fun h' => h (Except.error.inj h'))
  | .ok _, .error _ => isFalse nofun
  | .error _, .ok _ => isFalse nofun

/-! ## Timestamps -/

theorem ts_zero_fields (date time : Nat) (hd : date < 65536) (ht : time < 65536) :
    (Timestamp.fromFat date time).fatTime = time ∧
    (Timestamp.fromFat date time).fatDate =
      date + (if date / 32 % 16 = 0 then 32 else 0) + (if date % 32 = 0 then 1 else 0) := by
  unfold Timestamp.fromFat Timestamp.fatTime Timestamp.fatDate
  dsimp only
  constructor
  · omega
  · split <;> split <;> split <;> omega

theorem ts_decode_encode (date time : Nat) (hd : date < 65536) (ht : time < 65536)
    (hm : date / 32 % 16 ≠ 0) (hday : date % 32 ≠ 0) :
    (Timestamp.fromFat date time).fatTime = time ∧ (Timestamp.fromFat date time).fatDate = date := by
  have h := ts_zero_fields date time hd ht
  rw [if_neg hm, if_neg hday] at h
  exact h

theorem ts_fromFat_wf (date time : Nat) (_hd : date < 65536) (_ht : time < 65536) :
    (Timestamp.fromFat date time).WF := by
  unfold Timestamp.fromFat Timestamp.WF
  dsimp only
  refine ⟨?_, ?_, ?_, ?_, ?_, ?_⟩
  · omega
  · split <;> omega
  · split <;> omega
  · omega
  · omega
  · omega

theorem from_calendar_accepts_iff (y mo d h mi s : Nat) :
    (∃ t, Timestamp.fromCalendar y mo d h mi s = .ok t) ↔
      (1970 ≤ y ∧ y ≤ 2225 ∧ 1 ≤ mo ∧ mo ≤ 12 ∧ 1 ≤ d ∧ d ≤ 31 ∧ h ≤ 23 ∧ mi ≤ 59 ∧ s ≤ 59) := by
  unfold Timestamp.fromCalendar
  constructor
  · rintro ⟨t, ht⟩
    repeat' split at ht
    all_goals first | omega | cases ht
  · intro hc
    refine ⟨⟨y - 1970, mo - 1, d - 1, h, mi, s⟩, ?_⟩
    rw [if_neg (by omega), if_neg (by omega), if_neg (by omega), if_neg (by omega),
      if_neg (by omega), if_neg (by omega)]

theorem ts_encode_decode (y mo d h mi s : Nat) (t : Timestamp)
    (hy : 1980 ≤ y ∧ y ≤ 2107) (hok : Timestamp.fromCalendar y mo d h mi s = .ok t) :
    Timestamp.fromFat t.fatDate t.fatTime = { t with seconds := t.seconds / 2 * 2 } ∧
    t.fatDate = (y - 1980) * 512 + mo * 32 + d ∧ t.fatTime = h * 2048 + mi * 32 + s / 2 := by
  have hc := (from_calendar_accepts_iff y mo d h mi s).mp ⟨t, hok⟩
  unfold Timestamp.fromCalendar at hok
  rw [if_neg (by omega), if_neg (by omega), if_neg (by omega), if_neg (by omega),
    if_neg (by omega), if_neg (by omega)] at hok
  injection hok with hok
  subst hok
  have hD : Timestamp.fatDate ⟨y - 1970, mo - 1, d - 1, h, mi, s⟩ = (y - 1980) * 512 + mo * 32 + d := by
    unfold Timestamp.fatDate
    dsimp only
    split <;> omega
  have hT : Timestamp.fatTime ⟨y - 1970, mo - 1, d - 1, h, mi, s⟩ = h * 2048 + mi * 32 + s / 2 := by
    unfold Timestamp.fatTime
    dsimp only
    omega
  refine ⟨?_, hD, hT⟩
  rw [hD, hT]
  unfold Timestamp.fromFat
  dsimp only
  rw [Timestamp.mk.injEq]
  refine ⟨?_, ?_, ?_, ?_, ?_, ?_⟩
  · omega
  · split <;> omega
  · split <;> omega
  · omega
  · omega
  · omega

/-! ## Directory entries -/

theorem list_len_succ {α} (l : List α) (n : Nat) (h : l.length = n + 1) :
    ∃ a t, l = a :: t ∧ t.length = n := by
  cases l with
  | nil => simp at h
  | cons a t => exact ⟨a, t, rfl, by simpa using h⟩

theorem list_len11 {α} (l : List α) (h : l.length = 11) :
    ∃ a0 a1 a2 a3 a4 a5 a6 a7 a8 a9 a10, l = [a0, a1, a2, a3, a4, a5, a6, a7, a8, a9, a10] := by
  obtain ⟨a0, l0, rfl, h0⟩ := list_len_succ l 10 h
  obtain ⟨a1, l1, rfl, h1⟩ := list_len_succ l0 9 h0
  obtain ⟨a2, l2, rfl, h2⟩ := list_len_succ l1 8 h1
  obtain ⟨a3, l3, rfl, h3⟩ := list_len_succ l2 7 h2
  obtain ⟨a4, l4, rfl, h4⟩ := list_len_succ l3 6 h3
  obtain ⟨a5, l5, rfl, h5⟩ := list_len_succ l4 5 h4
  obtain ⟨a6, l6, rfl, h6⟩ := list_len_succ l5 4 h5
  obtain ⟨a7, l7, rfl, h7⟩ := list_len_succ l6 3 h6
  obtain ⟨a8, l8, rfl, h8⟩ := list_len_succ l7 2 h7
  obtain ⟨a9, l9, rfl, h9⟩ := list_len_succ l8 1 h8
  obtain ⟨a10, l10, rfl, h10⟩ := list_len_succ l9 0 h9
  cases l10 with
  | nil => exact ⟨_, _, _, _, _, _, _, _, _, _, _, rfl⟩
  | cons a t => simp at h10

theorem toNat_ofNat_mod (n : Nat) : (UInt8.ofNat (n % 256)).toNat = n % 256 := by
  rw [UInt8.toNat_ofNat']; omega

theorem fatTime_lt (t : Timestamp) : t.fatTime < 65536 := by
  unfold Timestamp.fatTime; dsimp only; omega
theorem fatDate_lt (t : Timestamp) : t.fatDate < 65536 := by
  unfold Timestamp.fatDate; dsimp only; split <;> omega

/-- An explicit 32-byte image. -/
theorem serialize_eq (ft : FatType) (e : DirEntry) (a0 a1 a2 a3 a4 a5 a6 a7 a8 a9 a10 : UInt8)
    (hn : e.name = [a0, a1, a2, a3, a4, a5, a6, a7, a8, a9, a10]) :
    e.serialize ft = [a0, a1, a2, a3, a4, a5, a6, a7, a8, a9, a10,
      UInt8.ofNat e.attributes, 0, 0,
      UInt8.ofNat (e.ctime.fatTime % 256), UInt8.ofNat (e.ctime.fatTime / 256 % 256),
      UInt8.ofNat (e.ctime.fatDate % 256), UInt8.ofNat (e.ctime.fatDate / 256 % 256),
      0, 0,
      (match ft with | .fat16 => 0 | .fat32 => UInt8.ofNat (e.cluster / 65536 % 65536 % 256)),
      (match ft with | .fat16 => 0 | .fat32 => UInt8.ofNat (e.cluster / 65536 % 65536 / 256 % 256)),
      UInt8.ofNat (e.mtime.fatTime % 256), UInt8.ofNat (e.mtime.fatTime / 256 % 256),
      UInt8.ofNat (e.mtime.fatDate % 256), UInt8.ofNat (e.mtime.fatDate / 256 % 256),
      UInt8.ofNat (e.cluster % 65536 % 256), UInt8.ofNat (e.cluster % 65536 / 256 % 256),
      UInt8.ofNat (e.size % 256), UInt8.ofNat (e.size / 256 % 256),
      UInt8.ofNat (e.size / 65536 % 256), UInt8.ofNat (e.size / 16777216 % 256)] := by
  unfold DirEntry.serialize
  rw [hn]
  cases ft <;> rfl

theorem le16_read (v : Nat) (h : v < 65536) :
    (UInt8.ofNat (v % 256)).toNat + 256 * (UInt8.ofNat (v / 256 % 256)).toNat = v := by
  rw [toNat_ofNat_mod, toNat_ofNat_mod]; omega

theorem le32_read (v : Nat) (h : v < 4294967296) :
    (UInt8.ofNat (v % 256)).toNat + 256 * (UInt8.ofNat (v / 256 % 256)).toNat
      + 65536 * (UInt8.ofNat (v / 65536 % 256)).toNat + 16777216 * (UInt8.ofNat (v / 16777216 % 256)).toNat = v := by
  rw [toNat_ofNat_mod, toNat_ofNat_mod, toNat_ofNat_mod, toNat_ofNat_mod]; omega

theorem dirent_layout (ft : FatType) (e : DirEntry) (hname : e.name.length = 11)
    (hattr : e.attributes < 256) (hsize : e.size < 4294967296) (hcl : e.cluster < 4294967296)
    (_hm : e.mtime.WF) (_hc : e.ctime.WF) :
    let d := e.serialize ft
    d.length = 32 ∧ d.take 11 = e.name ∧ byteAt d 11 = e.attributes ∧ byteAt d 12 = 0 ∧ byteAt d 13 = 0 ∧
    readU16 d 14 = e.ctime.fatTime ∧ readU16 d 16 = e.ctime.fatDate ∧ readU16 d 18 = 0 ∧
    readU16 d 20 = (match ft with | .fat16 => 0 | .fat32 => e.cluster / 65536) ∧
    readU16 d 22 = e.mtime.fatTime ∧ readU16 d 24 = e.mtime.fatDate ∧
    readU16 d 26 = e.cluster % 65536 ∧ readU32 d 28 = e.size := by
  obtain ⟨a0, a1, a2, a3, a4, a5, a6, a7, a8, a9, a10, hn⟩ := list_len11 e.name hname
  intro d
  have hd : d = _ := serialize_eq ft e a0 a1 a2 a3 a4 a5 a6 a7 a8 a9 a10 hn
  rw [hd, hn]
  refine ⟨rfl, rfl, ?_, rfl, rfl, ?_, ?_, rfl, ?_, ?_, ?_, ?_, ?_⟩
  · show (UInt8.ofNat e.attributes).toNat = _
    rw [UInt8.toNat_ofNat']; omega
  · exact le16_read _ (fatTime_lt _)
  · exact le16_read _ (fatDate_lt _)
  · cases ft
    · rfl
    · exact (le16_read (e.cluster / 65536 % 65536) (by omega)).trans
        (show e.cluster / 65536 % 65536 = e.cluster / 65536 by omega)
  · exact le16_read _ (fatTime_lt _)
  · exact le16_read _ (fatDate_lt _)
  · exact le16_read _ (by omega)
  · exact le32_read _ hsize

theorem fatTime_fix (t : Timestamp)
    (h : ∃ date time, date < 65536 ∧ time < 65536 ∧ date / 32 % 16 ≠ 0 ∧ date % 32 ≠ 0 ∧ t = Timestamp.fromFat date time) :
    t.WF ∧ Timestamp.fromFat t.fatDate t.fatTime = t := by
  obtain ⟨date, time, hd, ht, hm, hday, rfl⟩ := h
  obtain ⟨h1, h2⟩ := ts_decode_encode date time hd ht hm hday
  exact ⟨ts_fromFat_wf date time hd ht, by rw [h1, h2]⟩

theorem rawAttr_eq (d : Bytes) : OnDisk.rawAttr d = byteAt d 11 := rfl
theorem createTime_eq (d : Bytes) : OnDisk.createTime d = readU16 d 14 := rfl
theorem createDate_eq (d : Bytes) : OnDisk.createDate d = readU16 d 16 := rfl
theorem firstClusterHi_eq (d : Bytes) : OnDisk.firstClusterHi d = readU16 d 20 := rfl
theorem writeTime_eq (d : Bytes) : OnDisk.writeTime d = readU16 d 22 := rfl
theorem writeDate_eq (d : Bytes) : OnDisk.writeDate d = readU16 d 24 := rfl
theorem firstClusterLo_eq (d : Bytes) : OnDisk.firstClusterLo d = readU16 d 26 := rfl
theorem fileSize_eq (d : Bytes) : OnDisk.fileSize d = readU32 d 28 := rfl

theorem getEntry_eq (ft : FatType) (d : Bytes) (b o : Nat) (e : DirEntry)
    (h0 : d.take 11 = e.name) (h11 : byteAt d 11 = e.attributes)
    (hc : Timestamp.fromFat (readU16 d 16) (readU16 d 14) = e.ctime)
    (hm : Timestamp.fromFat (readU16 d 24) (readU16 d 22) = e.mtime)
    (hcl : (match ft with
      | .fat32 => OnDisk.firstClusterHi d * 65536 + OnDisk.firstClusterLo d
      | .fat16 => OnDisk.firstClusterLo d) = e.cluster)
    (hs : readU32 d 28 = e.size)
    (hroot : ¬ (e.cluster = 0 ∧ Attr.isDirectory e.attributes = true))
    (hb : b = e.entryBlock) (ho : o = e.entryOffset) :
    OnDisk.getEntry ft d b o = e := by
  unfold OnDisk.getEntry
  dsimp only
  rw [rawAttr_eq, createTime_eq, createDate_eq, writeTime_eq, writeDate_eq, fileSize_eq]
  rw [h0, h11, hc, hm, hs, hb, ho]
  cases ft <;> dsimp only at hcl ⊢ <;>
    rw [hcl, if_neg (by simpa [CLUSTER_EMPTY] using hroot)]

theorem dirent_roundtrip (ft : FatType) (e : DirEntry) (hname : e.name.length = 11)
    (hattr : e.attributes < 256) (hsize : e.size < 4294967296)
    (hcl : match ft with | .fat16 => e.cluster < 65536 | .fat32 => e.cluster < 4294967296)
    (hm : ∃ date time, date < 65536 ∧ time < 65536 ∧ date / 32 % 16 ≠ 0 ∧ date % 32 ≠ 0 ∧ e.mtime = Timestamp.fromFat date time)
    (hc : ∃ date time, date < 65536 ∧ time < 65536 ∧ date / 32 % 16 ≠ 0 ∧ date % 32 ≠ 0 ∧ e.ctime = Timestamp.fromFat date time)
    (hroot : ¬ (e.cluster = 0 ∧ Attr.isDirectory e.attributes = true)) :
    OnDisk.getEntry ft (e.serialize ft) e.entryBlock e.entryOffset = e := by
  obtain ⟨hmwf, hmfix⟩ := fatTime_fix _ hm
  obtain ⟨hcwf, hcfix⟩ := fatTime_fix _ hc
  have hcl' : e.cluster < 4294967296 := by cases ft <;> simp only at hcl <;> omega
  have hl := dirent_layout ft e hname hattr hsize hcl' hmwf hcwf
  generalize e.serialize ft = d at hl
  obtain ⟨_, h0, h11, _, _, h14, h16, _, h20, h22, h24, h26, h28⟩ := hl
  refine getEntry_eq ft d _ _ e h0 h11 ?_ ?_ ?_ h28 hroot rfl rfl
  · rw [h16, h14]; exact hcfix
  · rw [h24, h22]; exact hmfix
  · cases ft
    · simp only [firstClusterLo_eq] at hcl ⊢; omega
    · simp only [firstClusterLo_eq, firstClusterHi_eq] at h20 ⊢; omega

/-! ## 8.3 names -/

/-- The padding byte. -/
def sp : UInt8 := UInt8.ofNat 32
/-- Stored form of one character. -/
def up (c : Nat) : UInt8 := UInt8.ofNat (Sfn.upper c)

theorem nameChar_iff (c : Nat) :
    nameChar c = true ↔ (Sfn.invalidChar c = false ∧ ¬ c > 0xFF ∧ c ≠ 0x2E) := by
  simp [nameChar, Spec.Name83.forbidden, Sfn.invalidChar]
  omega

/-- Loop state after `pre.length` stored bytes. -/
def mkSt (pre : Bytes) (sd : Bool) : Sfn.PState :=
  ⟨pre ++ List.replicate (11 - pre.length) sp, pre.length, sd⟩

theorem set_pad (pre : Bytes) (b : UInt8) (h : pre.length < 11) :
    (pre ++ List.replicate (11 - pre.length) sp).set pre.length b
      = (pre ++ [b]) ++ List.replicate (11 - (pre ++ [b]).length) sp := by
  rw [List.set_append_right _ _ (Nat.le_refl _), Nat.sub_self]
  have : 11 - pre.length = (11 - (pre ++ [b]).length) + 1 := by
    simp only [List.length_append, List.length_cons, List.length_nil]; omega
  rw [this, List.replicate_succ, List.set_cons_zero, List.append_assoc]
  rfl

theorem step_ok_snoc (pre : Bytes) (sd : Bool) (c : Nat) (h : pre.length < 11) :
    (⟨(pre ++ List.replicate (11 - pre.length) sp).set pre.length (up c), pre.length + 1, sd⟩ : Sfn.PState)
      = mkSt (pre ++ [up c]) sd := by
  unfold mkSt
  rw [set_pad pre (up c) h]
  simp

theorem base_len : Sfn.BASE_LEN = 8 := rfl
theorem total_len : Sfn.TOTAL_LEN = 11 := rfl

theorem step_false (pre : Bytes) (c : Nat) (st' : Sfn.PState) (hl : pre.length ≤ 8) (hc : c ≠ 0x2E) :
    Sfn.step (mkSt pre false) c = .ok st' ↔
      nameChar c = true ∧ pre.length < 8 ∧ st' = mkSt (pre ++ [up c]) false := by
  rw [nameChar_iff]
  unfold Sfn.step
  by_cases h1 : Sfn.invalidChar c = true
  · simp [h1]
  by_cases h2 : c > 0xFF
  · simp [h1, h2]
  rw [if_neg h1, if_neg h2, if_neg hc]
  have h1' : Sfn.invalidChar c = false := by simpa using h1
  by_cases h3 : pre.length < 8
  · have e := step_ok_snoc pre false c (by omega)
    unfold mkSt at e ⊢
    dsimp only at e ⊢
    simp only [up] at e
    simp only [base_len, h3, if_true, Bool.false_eq_true, if_false, e]
    simp [h1', h2, hc, eq_comm, up]
  · unfold mkSt
    dsimp only
    simp [base_len, h3]

theorem step_true (pre : Bytes) (c : Nat) (st' : Sfn.PState) (hl8 : 8 ≤ pre.length) :
    Sfn.step (mkSt pre true) c = .ok st' ↔
      nameChar c = true ∧ pre.length < 11 ∧ st' = mkSt (pre ++ [up c]) true := by
  rw [nameChar_iff]
  unfold Sfn.step
  by_cases h1 : Sfn.invalidChar c = true
  · simp [h1]
  by_cases h2 : c > 0xFF
  · simp [h1, h2]
  rw [if_neg h1, if_neg h2]
  have h1' : Sfn.invalidChar c = false := by simpa using h1
  by_cases hc : c = 0x2E
  · unfold mkSt
    dsimp only
    simp [hc]
  rw [if_neg hc]
  by_cases h3 : pre.length < 11
  · have e := step_ok_snoc pre true c h3
    unfold mkSt at e ⊢
    dsimp only at e ⊢
    simp only [up] at e
    simp only [base_len, total_len, h3, hl8, and_self, if_true, e]
    simp [h1', h2, hc, eq_comm, up]
  · unfold mkSt
    dsimp only
    simp [base_len, total_len, h3]

theorem step_dot (pre : Bytes) (st' : Sfn.PState) (hl : pre.length ≤ 8) :
    Sfn.step (mkSt pre false) 0x2E = .ok st' ↔
      1 ≤ pre.length ∧ st' = mkSt (pre ++ List.replicate (8 - pre.length) sp) true := by
  have e : mkSt (pre ++ List.replicate (8 - pre.length) sp) true
      = ⟨pre ++ List.replicate (11 - pre.length) sp, 8, true⟩ := by
    unfold mkSt
    have h11 : 11 - pre.length = (8 - pre.length) + 3 := by omega
    simp only [List.length_append, List.length_replicate, Sfn.PState.mk.injEq, and_true]
    refine ⟨?_, by omega⟩
    rw [show pre.length + (8 - pre.length) = 8 by omega, h11, List.append_assoc,
      List.replicate_append_replicate]
  rw [e]
  unfold Sfn.step mkSt
  dsimp only
  have hi : Sfn.invalidChar 0x2E = false := by decide
  simp only [hi, base_len, hl, Bool.false_eq_true, if_false, Nat.reduceGT,
    if_true, Bool.not_false, and_true]
  by_cases h1 : 1 ≤ pre.length
  · simp [h1, eq_comm]
  · simp [h1]

theorem loop_nil (st : Sfn.PState) : Sfn.loop st [] = .ok st := rfl

theorem loop_cons (st : Sfn.PState) (c : Nat) (cs : List Nat) :
    Sfn.loop st (c :: cs) = (match Sfn.step st c with
      | .ok st' => Sfn.loop st' cs
      | .error e => .error e) := by rfl

theorem loop_cons_ok (st st' : Sfn.PState) (c : Nat) (cs : List Nat) :
    Sfn.loop st (c :: cs) = .ok st' ↔ ∃ st1, Sfn.step st c = .ok st1 ∧ Sfn.loop st1 cs = .ok st' := by
  rw [loop_cons]
  cases h : Sfn.step st c with
  | error e => simp
  | ok st1 => simp

theorem loop_append_ok (st st' : Sfn.PState) (as bs : List Nat) :
    Sfn.loop st (as ++ bs) = .ok st' ↔ ∃ st1, Sfn.loop st as = .ok st1 ∧ Sfn.loop st1 bs = .ok st' := by
  induction as generalizing st with
  | nil => simp [loop_nil]
  | cons a as ih =>
    rw [List.cons_append, loop_cons_ok]
    constructor
    · rintro ⟨s1, h1, h2⟩
      obtain ⟨s2, h3, h4⟩ := (ih s1).mp h2
      exact ⟨s2, (loop_cons_ok _ _ _ _).mpr ⟨s1, h1, h3⟩, h4⟩
    · rintro ⟨s2, h1, h4⟩
      obtain ⟨s1, h0, h3⟩ := (loop_cons_ok _ _ _ _).mp h1
      exact ⟨s1, h0, (ih s1).mpr ⟨s2, h3, h4⟩⟩

/-- Run of the loop over plain characters, given the one-step behaviour. -/
theorem loop_chars (sd : Bool) (lo L : Nat) (good : Nat → Prop)
    (hstep : ∀ (pre : Bytes) (c : Nat) (st' : Sfn.PState), lo ≤ pre.length → pre.length ≤ L → good c →
      (Sfn.step (mkSt pre sd) c = .ok st' ↔
        nameChar c = true ∧ pre.length < L ∧ st' = mkSt (pre ++ [up c]) sd))
    (cs : List Nat) : ∀ (pre : Bytes) (st' : Sfn.PState), (∀ c ∈ cs, good c) →
      lo ≤ pre.length → pre.length ≤ L →
      (Sfn.loop (mkSt pre sd) cs = .ok st' ↔
        cs.all nameChar = true ∧ pre.length + cs.length ≤ L ∧ st' = mkSt (pre ++ cs.map up) sd) := by
  induction cs with
  | nil =>
    intro pre st' _ _ hl
    simp [loop_nil, hl, eq_comm]
  | cons c cs ih =>
    intro pre st' hg hlo hl
    have hgc : good c := hg c (by simp)
    have hgcs : ∀ x ∈ cs, good x := fun x hx => hg x (by simp [hx])
    have hlo' : lo ≤ (pre ++ [up c]).length := by simp; omega
    rw [loop_cons_ok]
    constructor
    · rintro ⟨s1, h1, h2⟩
      obtain ⟨n1, l1, rfl⟩ := (hstep pre c s1 hlo hl hgc).mp h1
      have hl' : (pre ++ [up c]).length ≤ L := by simp; omega
      obtain ⟨n2, l2, e2⟩ := (ih (pre ++ [up c]) st' hgcs hlo' hl').mp h2
      refine ⟨by simp [n1, n2], ?_, ?_⟩
      · simp at l2 ⊢; omega
      · rw [e2]; simp
    · rintro ⟨n, l, e⟩
      simp only [List.all_cons, Bool.and_eq_true] at n
      simp only [List.length_cons] at l
      refine ⟨mkSt (pre ++ [up c]) sd, (hstep pre c _ hlo hl hgc).mpr ⟨n.1, by omega, rfl⟩, ?_⟩
      have hl' : (pre ++ [up c]).length ≤ L := by simp; omega
      refine (ih (pre ++ [up c]) st' hgcs hlo' hl').mpr ⟨n.2, by simp; omega, ?_⟩
      rw [e]; simp

theorem loop_false (cs : List Nat) (pre : Bytes) (st' : Sfn.PState) (hcs : ∀ c ∈ cs, c ≠ 0x2E)
    (hl : pre.length ≤ 8) :
    Sfn.loop (mkSt pre false) cs = .ok st' ↔
      cs.all nameChar = true ∧ pre.length + cs.length ≤ 8 ∧ st' = mkSt (pre ++ cs.map up) false :=
  loop_chars false 0 8 (· ≠ 0x2E) (fun pre c st' _ h1 h2 => step_false pre c st' h1 h2) cs pre st' hcs
    (Nat.zero_le _) hl

theorem loop_true (cs : List Nat) (pre : Bytes) (st' : Sfn.PState) (hl8 : 8 ≤ pre.length)
    (hl : pre.length ≤ 11) :
    Sfn.loop (mkSt pre true) cs = .ok st' ↔
      cs.all nameChar = true ∧ pre.length + cs.length ≤ 11 ∧ st' = mkSt (pre ++ cs.map up) true :=
  loop_chars true 8 11 (fun _ => True) (fun pre c st' h0 _ _ => step_true pre c st' h0) cs pre st'
    (fun _ _ => trivial) hl8 hl

theorem pad_eq (n : Nat) (cs : List Nat) :
    pad n cs = cs.map up ++ List.replicate (n - cs.length) sp := rfl

theorem init_eq : (⟨List.replicate Sfn.TOTAL_LEN (UInt8.ofNat 32), 0, false⟩ : Sfn.PState) = mkSt [] false := rfl

theorem create_nonspecial (s : List Nat) (n : Bytes) (h1 : s ≠ [0x2E, 0x2E]) (h2 : ¬ (s = [] ∨ s = [0x2E])) :
    Sfn.createFromStr s = .ok n ↔
      ∃ st, Sfn.loop (mkSt [] false) s = .ok st ∧ st.idx ≠ 0 ∧ n = Sfn.kanjiStore st.contents := by
  unfold Sfn.createFromStr
  rw [if_neg h1, if_neg h2, init_eq]
  cases h : Sfn.loop (mkSt [] false) s with
  | error e => simp
  | ok st =>
    by_cases h0 : st.idx = 0
    · simp [h0]
    · simp [h0, eq_comm]

/-! ### The 0x05 substitution -/

theorem nameChar_range (c : Nat) (h : nameChar c = true) : 0x20 < Sfn.upper c ∧ Sfn.upper c ≤ 0xFF := by
  have h32 : 0x20 < c ∧ c ≤ 0xFF := by
    simp [nameChar] at h
    omega
  unfold Sfn.upper
  split <;> omega

theorem up_toNat' (c : Nat) (h : nameChar c = true) : (up c).toNat = Sfn.upper c := by
  obtain ⟨_, h2⟩ := nameChar_range c h
  unfold up
  rw [UInt8.toNat_ofNat']
  omega

theorem firstByte_eq (c : Nat) (h : nameChar c = true) :
    firstByte c = if (up c).toNat = 0xE5 then UInt8.ofNat 0x05 else up c := by
  rw [up_toNat' c h]
  rfl

/-- Storing: `kanjiStore` on the padded name is the specification's `padBase`. -/
theorem store_eq (base ext : List Nat) (hne : base ≠ []) (ha : base.all nameChar = true) :
    Sfn.kanjiStore (pad 8 base ++ pad 3 ext) = padBase base ++ pad 3 ext := by
  cases base with
  | nil => exact absurd rfl hne
  | cons c rest =>
    simp only [List.all_cons, Bool.and_eq_true] at ha
    show Sfn.kanjiStore ((up c :: (rest.map up ++ List.replicate (8 - (rest.length + 1)) sp)) ++ pad 3 ext) =
      (firstByte c :: (rest.map up ++ List.replicate (7 - rest.length) sp)) ++ pad 3 ext
    rw [firstByte_eq c ha.1, show 8 - (rest.length + 1) = 7 - rest.length by omega]
    rfl

/-- Reading back: `kanjiShow` undoes it (a name character is never stored as 0x05). -/
theorem show_store (base ext : List Nat) (hne : base ≠ []) (ha : base.all nameChar = true) :
    Sfn.kanjiShow (padBase base ++ pad 3 ext) = pad 8 base ++ pad 3 ext := by
  cases base with
  | nil => exact absurd rfl hne
  | cons c rest =>
    simp only [List.all_cons, Bool.and_eq_true] at ha
    obtain ⟨hlo, hhi⟩ := nameChar_range c ha.1
    have hu := up_toNat' c ha.1
    show Sfn.kanjiShow ((firstByte c :: (rest.map up ++ List.replicate (7 - rest.length) sp)) ++ pad 3 ext) =
      (up c :: (rest.map up ++ List.replicate (8 - (rest.length + 1)) sp)) ++ pad 3 ext
    rw [show 8 - (rest.length + 1) = 7 - rest.length by omega]
    show (if (firstByte c).toNat = 0x05 then UInt8.ofNat 0xE5 else firstByte c) :: _ = _
    congr 1
    rw [firstByte_eq c ha.1]
    by_cases he : (up c).toNat = 0xE5
    · rw [if_pos he, if_pos (by decide)]
      apply UInt8.toNat_inj.1
      rw [he]; rfl
    · rw [if_neg he, if_neg (by rw [hu]; omega)]

theorem contents_base (base : List Nat) (hl : base.length ≤ 8) :
    (mkSt ([] ++ base.map up) false).contents = pad 8 base ++ pad 3 [] := by
  unfold mkSt
  dsimp only
  rw [pad_eq, pad_eq]
  simp only [List.nil_append, List.length_map, List.map_nil, List.length_nil, Nat.sub_zero,
    List.append_assoc, List.replicate_append_replicate]
  rw [show 8 - base.length + 3 = 11 - base.length by omega]

theorem contents_dot (base ext : List Nat) (hl : base.length ≤ 8) :
    (mkSt (([] ++ base.map up ++ List.replicate (8 - base.length) sp) ++ ext.map up) true).contents
      = pad 8 base ++ pad 3 ext := by
  unfold mkSt
  dsimp only
  rw [pad_eq, pad_eq]
  simp only [List.nil_append, List.length_map, List.length_append, List.length_replicate,
    List.append_assoc]
  rw [show 11 - (base.length + (8 - base.length + ext.length)) = 3 - ext.length by omega]

theorem create_base (base : List Nat) (n : Bytes) (hnd : ∀ c ∈ base, c ≠ 0x2E) (hne : base ≠ []) :
    Sfn.createFromStr base = .ok n ↔
      base.length ≤ 8 ∧ base.all nameChar = true ∧ n = padBase base ++ pad 3 [] := by
  have h1 : base ≠ [0x2E, 0x2E] := by
    intro h; exact hnd 0x2E (by simp [h]) rfl
  have h2 : ¬ (base = [] ∨ base = [0x2E]) := by
    rintro (h | h)
    · exact hne h
    · exact hnd 0x2E (by simp [h]) rfl
  have hpos : 0 < base.length := List.length_pos_iff.mpr hne
  rw [create_nonspecial base n h1 h2]
  constructor
  · rintro ⟨st, hst, _, rfl⟩
    obtain ⟨ha, hl, rfl⟩ := (loop_false base [] st hnd (by simp)).mp hst
    simp only [List.length_nil, Nat.zero_add] at hl
    exact ⟨hl, ha, by rw [contents_base base hl, store_eq base [] hne ha]⟩
  · rintro ⟨hl, ha, rfl⟩
    refine ⟨_, (loop_false base [] _ hnd (by simp)).mpr ⟨ha, by simpa using hl, rfl⟩, ?_, ?_⟩
    · show ([] ++ base.map up).length ≠ 0
      simp; omega
    · rw [contents_base base hl, store_eq base [] hne ha]

theorem create_dot (base ext : List Nat) (n : Bytes) (hnd : ∀ c ∈ base, c ≠ 0x2E)
    (h1 : base ++ 0x2E :: ext ≠ [0x2E, 0x2E]) (h2 : ¬ (base ++ 0x2E :: ext = [] ∨ base ++ 0x2E :: ext = [0x2E])) :
    Sfn.createFromStr (base ++ 0x2E :: ext) = .ok n ↔
      1 ≤ base.length ∧ base.length ≤ 8 ∧ base.all nameChar = true ∧ ext.length ≤ 3 ∧
        ext.all nameChar = true ∧ n = padBase base ++ pad 3 ext := by
  rw [create_nonspecial _ n h1 h2]
  constructor
  · rintro ⟨st, hst, _, rfl⟩
    obtain ⟨s1, hs1, hst⟩ := (loop_append_ok _ _ _ _).mp hst
    obtain ⟨ha, hl, rfl⟩ := (loop_false base [] s1 hnd (by simp)).mp hs1
    simp only [List.length_nil, Nat.zero_add] at hl
    obtain ⟨s2, hs2, hst⟩ := (loop_cons_ok _ _ _ _).mp hst
    obtain ⟨hb1, rfl⟩ := (step_dot _ s2 (by simpa using hl)).mp hs2
    have hlen : ([] ++ base.map up ++ List.replicate (8 - ([] ++ base.map up).length) sp).length = 8 := by
      simp; omega
    obtain ⟨hea, hel, rfl⟩ := (loop_true ext _ st (by omega) (by omega)).mp hst
    rw [hlen] at hel
    simp only [List.nil_append, List.length_map] at hb1
    refine ⟨hb1, hl, ha, by omega, hea, ?_⟩
    have hne : base ≠ [] := by intro e; rw [e] at hb1; simp at hb1
    have := contents_dot base ext hl
    rw [← store_eq base ext hne ha]
    exact congrArg Sfn.kanjiStore (by simpa using this)
  · rintro ⟨hb1, hl, ha, hel, hea, rfl⟩
    have hlen : ([] ++ base.map up ++ List.replicate (8 - ([] ++ base.map up).length) sp).length = 8 := by
      simp; omega
    refine ⟨_, (loop_append_ok _ _ _ _).mpr ⟨_, (loop_false base [] _ hnd (by simp)).mpr ⟨ha, by simpa using hl, rfl⟩,
      (loop_cons_ok _ _ _ _).mpr ⟨_, (step_dot _ _ (by simpa using hl)).mpr ⟨by simpa using hb1, rfl⟩,
        (loop_true ext _ _ (by omega) (by omega)).mpr ⟨hea, by omega, rfl⟩⟩⟩, ?_, ?_⟩
    · show (_ ++ ext.map up).length ≠ 0
      rw [List.length_append, hlen]; omega
    · have hne : base ≠ [] := by intro e; rw [e] at hb1; simp at hb1
      have := contents_dot base ext hl
      rw [← store_eq base ext hne ha]
      exact congrArg Sfn.kanjiStore (by simpa using this.symm)

theorem mem_takeWhile_true {α} (p : α → Bool) (l : List α) : ∀ c ∈ l.takeWhile p, p c = true := by
  induction l with
  | nil => simp
  | cons a l ih =>
    intro c hc
    rw [List.takeWhile_cons] at hc
    by_cases ha : p a = true
    · rw [if_pos ha] at hc
      rcases List.mem_cons.mp hc with rfl | h
      · exact ha
      · exact ih c h
    · rw [if_neg ha] at hc
      simp at hc

theorem parse_nonspecial (s : List Nat) (h1 : s ≠ [0x2E, 0x2E]) (h2 : ¬ (s = [] ∨ s = [0x2E])) :
    Spec.Name83.parse s =
      if 1 ≤ (s.takeWhile (· ≠ 0x2E)).length ∧ (s.takeWhile (· ≠ 0x2E)).length ≤ 8 ∧
          (s.takeWhile (· ≠ 0x2E)).all nameChar ∧ ((s.dropWhile (· ≠ 0x2E)).drop 1).length ≤ 3 ∧
          ((s.dropWhile (· ≠ 0x2E)).drop 1).all nameChar
      then some (padBase (s.takeWhile (· ≠ 0x2E)) ++ pad 3 ((s.dropWhile (· ≠ 0x2E)).drop 1)) else none := by
  unfold Spec.Name83.parse
  rw [if_neg h1, if_neg h2]

theorem split_dot (s : List Nat) :
    ∃ base rest, s.takeWhile (· ≠ 0x2E) = base ∧ s.dropWhile (· ≠ 0x2E) = rest ∧ s = base ++ rest ∧
      (∀ c ∈ base, c ≠ 0x2E) ∧ (rest = [] ∨ ∃ ext, rest = 0x2E :: ext) := by
  refine ⟨_, _, rfl, rfl, List.takeWhile_append_dropWhile.symm, ?_, ?_⟩
  · intro c hc
    simpa using mem_takeWhile_true _ s c hc
  · cases h : s.dropWhile (· ≠ 0x2E) with
    | nil => exact Or.inl rfl
    | cons x ext =>
      right
      have hne : s.dropWhile (· ≠ 0x2E) ≠ [] := by rw [h]; simp
      have := List.head_dropWhile_not (fun x => decide (x ≠ 0x2E)) hne
      simp only [h, List.head_cons] at this
      have : x = 0x2E := by simpa using this
      exact ⟨ext, by rw [this]⟩

theorem create_parent : Sfn.createFromStr [0x2E, 0x2E] = .ok Sfn.parentDir := by rfl
theorem create_this_nil : Sfn.createFromStr [] = .ok Sfn.thisDir := by rfl
theorem create_this_dot : Sfn.createFromStr [0x2E] = .ok Sfn.thisDir := by rfl
theorem parse_parent : Spec.Name83.parse [0x2E, 0x2E] = some Sfn.parentDir := by rfl
theorem parse_this_nil : Spec.Name83.parse [] = some Sfn.thisDir := by rfl
theorem parse_this_dot : Spec.Name83.parse [0x2E] = some Sfn.thisDir := by rfl

theorem ok_iff_some {ε α} (a n : α) : (Except.ok a : Except ε α) = .ok n ↔ some a = some n := by
  simp

theorem sfn_parse_iff (s : List Nat) (n : Bytes) :
    Sfn.createFromStr s = .ok n ↔ Spec.Name83.parse s = some n := by
  by_cases h1 : s = [0x2E, 0x2E]
  · rw [h1, create_parent, parse_parent]; exact ok_iff_some _ _
  by_cases h2 : s = [] ∨ s = [0x2E]
  · rcases h2 with h | h
    · rw [h, create_this_nil, parse_this_nil]; exact ok_iff_some _ _
    · rw [h, create_this_dot, parse_this_dot]; exact ok_iff_some _ _
  rw [parse_nonspecial s h1 h2]
  obtain ⟨base, rest, hb, hr, hs, hnd, hrest⟩ := split_dot s
  rw [hb, hr]
  rcases hrest with rfl | ⟨ext, rfl⟩
  · rw [List.append_nil] at hs
    subst hs
    have hne : s ≠ [] := fun h => h2 (Or.inl h)
    have hpos : 0 < s.length := List.length_pos_iff.mpr hne
    rw [create_base s n hnd hne]
    simp only [List.drop_nil, List.length_nil, List.all_nil, Nat.zero_le, and_true]
    constructor
    · rintro ⟨hl, ha, rfl⟩
      rw [if_pos ⟨hpos, hl, ha⟩]
    · intro h
      split at h
      · rename_i hc
        exact ⟨hc.2.1, hc.2.2, by simpa using h.symm⟩
      · cases h
  · subst hs
    rw [create_dot base ext n hnd h1 h2]
    simp only [List.drop_succ_cons, List.drop_zero]
    constructor
    · rintro ⟨hb1, hl, ha, hel, hea, rfl⟩
      rw [if_pos ⟨hb1, hl, ha, hel, hea⟩]
    · intro h
      split at h
      · rename_i hc
        exact ⟨hc.1, hc.2.1, hc.2.2.1, hc.2.2.2.1, hc.2.2.2.2, by simpa using h.symm⟩
      · cases h

/-! ### Display -/

theorem up_toNat (c : Nat) (h : nameChar c = true) :
    (up c).toNat = Sfn.upper c ∧ Sfn.upper c ≠ 32 ∧ Sfn.upper c ≠ 0x2E := by
  obtain ⟨hi, h255, hdot⟩ := (nameChar_iff c).mp h
  have h32 : 0x20 < c := by
    simp [nameChar] at h
    omega
  unfold up
  rw [UInt8.toNat_ofNat']
  unfold Sfn.upper
  split <;> omega

theorem nameChar_upper (c : Nat) (h : nameChar c = true) :
    nameChar (Sfn.upper c) = true ∧ Sfn.upper (Sfn.upper c) = Sfn.upper c := by
  have h' := h
  simp only [nameChar, Spec.Name83.forbidden] at h' ⊢
  simp at h' ⊢
  unfold Sfn.upper
  split <;> (try split) <;> omega

theorem displayAux_nil (i : Nat) : Sfn.displayAux i [] = [] := by rfl
theorem displayAux_cons (i : Nat) (c : UInt8) (rest : Bytes) :
    Sfn.displayAux i (c :: rest) =
      if c.toNat ≠ 32 then
        (if i = Sfn.BASE_LEN then [0x2E, c.toNat] else [c.toNat]) ++ Sfn.displayAux (i + 1) rest
      else Sfn.displayAux (i + 1) rest := by rfl

theorem displayAux_append (l1 l2 : Bytes) : ∀ i,
    Sfn.displayAux i (l1 ++ l2) = Sfn.displayAux i l1 ++ Sfn.displayAux (i + l1.length) l2 := by
  induction l1 with
  | nil => intro i; simp [displayAux_nil]
  | cons a l ih =>
    intro i
    rw [List.cons_append, displayAux_cons, displayAux_cons, ih (i + 1)]
    rw [List.length_cons, show i + 1 + l.length = i + (l.length + 1) by omega]
    split <;> simp

theorem displayAux_spaces (k : Nat) : ∀ i, Sfn.displayAux i (List.replicate k sp) = [] := by
  induction k with
  | zero => intro i; rfl
  | succ k ih =>
    intro i
    rw [List.replicate_succ, displayAux_cons, ih]
    have : sp.toNat = 32 := by decide
    simp [this]

theorem displayAux_chars (cs : List Nat) (ha : cs.all nameChar = true) : ∀ i,
    (i + cs.length ≤ 8 ∨ 8 < i) → Sfn.displayAux i (cs.map up) = cs.map Sfn.upper := by
  induction cs with
  | nil => intro i _; rfl
  | cons c cs ih =>
    intro i hi
    simp only [List.all_cons, Bool.and_eq_true] at ha
    obtain ⟨h1, h2, _⟩ := up_toNat c ha.1
    rw [List.map_cons, displayAux_cons, ih ha.2 (i + 1) (by simp only [List.length_cons] at hi; omega)]
    rw [h1, if_pos h2, base_len, if_neg (by simp only [List.length_cons] at hi; omega)]
    rfl

theorem displayAux_ext (c : Nat) (cs : List Nat) (ha : (c :: cs).all nameChar = true) :
    Sfn.displayAux 8 ((c :: cs).map up) = 0x2E :: (c :: cs).map Sfn.upper := by
  simp only [List.all_cons, Bool.and_eq_true] at ha
  obtain ⟨h1, h2, _⟩ := up_toNat c ha.1
  rw [List.map_cons, displayAux_cons, displayAux_chars cs ha.2 9 (by omega)]
  rw [h1, if_pos h2, base_len, if_pos rfl]
  rfl

/-- The printed extension part. -/
def dotExt : List Nat → List Nat
  | [] => []
  | c :: cs => 0x2E :: c :: cs

theorem display_padded (base ext : List Nat) (hne : base ≠ []) (hl : base.length ≤ 8)
    (ha : base.all nameChar = true) (hea : ext.all nameChar = true) :
    Sfn.display (padBase base ++ pad 3 ext) =
      base.map Sfn.upper ++ dotExt (ext.map Sfn.upper) := by
  unfold Sfn.display
  rw [show_store base ext hne ha]
  rw [pad_eq, pad_eq, displayAux_append, displayAux_append, displayAux_spaces, displayAux_append,
    displayAux_spaces, displayAux_chars base ha 0 (by omega)]
  have hlen : 0 + (base.map up ++ List.replicate (8 - base.length) sp).length = 8 := by
    simp; omega
  rw [hlen]
  cases ext with
  | nil => simp [displayAux_nil, dotExt]
  | cons c cs => rw [displayAux_ext c cs hea]; simp [dotExt]

theorem all_upper (cs : List Nat) (ha : cs.all nameChar = true) :
    (cs.map Sfn.upper).all nameChar = true ∧ (∀ c ∈ cs.map Sfn.upper, c ≠ 0x2E) ∧
      ∀ k, pad k (cs.map Sfn.upper) = pad k cs := by
  induction cs with
  | nil => simp
  | cons c cs ih =>
    simp only [List.all_cons, Bool.and_eq_true] at ha
    obtain ⟨i1, i2, i3⟩ := ih ha.2
    obtain ⟨u1, u2⟩ := nameChar_upper c ha.1
    obtain ⟨_, _, u3⟩ := up_toNat c ha.1
    refine ⟨by simp [u1, i1], ?_, ?_⟩
    · intro x hx
      rcases List.mem_cons.mp hx with rfl | hx
      · exact u3
      · exact i2 x hx
    · intro k
      have := i3 (k - 1)
      simp only [pad_eq, List.length_map] at this
      have e := List.append_cancel_right this
      simp only [pad_eq, List.map_cons, List.length_cons, List.length_map, e, up, u2]

/-- Upper-casing twice changes nothing in the stored base either. -/
theorem padBase_upper (cs : List Nat) (ha : cs.all nameChar = true) :
    padBase (cs.map Sfn.upper) = padBase cs := by
  cases cs with
  | nil => rfl
  | cons c rest =>
    simp only [List.all_cons, Bool.and_eq_true] at ha
    obtain ⟨_, u2⟩ := nameChar_upper c ha.1
    obtain ⟨_, _, i3⟩ := all_upper rest ha.2
    show firstByte (Sfn.upper c) :: pad 7 (rest.map Sfn.upper) = firstByte c :: pad 7 rest
    rw [i3 7]
    congr 1
    unfold firstByte
    show (if Sfn.upper (Sfn.upper c) = 0xE5 then _ else UInt8.ofNat (Sfn.upper (Sfn.upper c))) = _
    rw [u2]
    rfl

theorem display_create (base ext : List Nat) (hb1 : 1 ≤ base.length) (hl : base.length ≤ 8)
    (ha : base.all nameChar = true) (hel : ext.length ≤ 3) (hea : ext.all nameChar = true) :
    Sfn.createFromStr (Sfn.display (padBase base ++ pad 3 ext)) = .ok (padBase base ++ pad 3 ext) := by
  have hne0 : base ≠ [] := by intro e; rw [e] at hb1; simp at hb1
  rw [display_padded base ext hne0 hl ha hea]
  obtain ⟨ba, bnd, _⟩ := all_upper base ha
  have bpad := padBase_upper base ha
  obtain ⟨ea, _, epad⟩ := all_upper ext hea
  have bne : base.map Sfn.upper ≠ [] := by
    intro h
    have := congrArg List.length h
    simp only [List.length_map, List.length_nil] at this
    omega
  cases hext : ext.map Sfn.upper with
  | nil =>
    have : ext = [] := by simpa using hext
    subst this
    simp only [dotExt, List.append_nil]
    exact (create_base _ _ bnd bne).mpr ⟨by simpa using hl, ba, by rw [bpad]⟩
  | cons c cs =>
    simp only [dotExt]
    rw [← hext]
    obtain ⟨b, bt, hbt⟩ := List.exists_cons_of_ne_nil bne
    have hb46 : b ≠ 0x2E := bnd b (by rw [hbt]; simp)
    refine (create_dot _ _ _ bnd ?_ ?_).mpr
      ⟨by simpa using hb1, by simpa using hl, ba, by simpa using hel, ea, by rw [bpad, epad]⟩
    · rw [hbt]
      intro h
      injection h with h _
      exact hb46 h
    · rw [hbt]
      rintro (h | h)
      · cases h
      · injection h with h _
        exact hb46 h

theorem display_parent : Sfn.display Sfn.parentDir = [0x2E, 0x2E] := by decide
theorem display_this : Sfn.display Sfn.thisDir = [0x2E] := by decide

theorem sfn_display_parse (s : List Nat) (n : Bytes) (h : Sfn.createFromStr s = .ok n) :
    Sfn.createFromStr (Sfn.display n) = .ok n := by
  by_cases h1 : s = [0x2E, 0x2E]
  · rw [h1, create_parent] at h
    injection h with h
    rw [← h, display_parent, create_parent]
  by_cases h2 : s = [] ∨ s = [0x2E]
  · have : n = Sfn.thisDir := by
      rcases h2 with e | e
      · rw [e, create_this_nil] at h; injection h with h; exact h.symm
      · rw [e, create_this_dot] at h; injection h with h; exact h.symm
    rw [this, display_this, create_this_dot]
  obtain ⟨base, rest, _, _, hs, hnd, hrest⟩ := split_dot s
  rcases hrest with rfl | ⟨ext, rfl⟩
  · rw [List.append_nil] at hs
    subst hs
    have hne : s ≠ [] := fun h => h2 (Or.inl h)
    have hpos : 0 < s.length := List.length_pos_iff.mpr hne
    obtain ⟨hl, ha, rfl⟩ := (create_base s n hnd hne).mp h
    exact display_create s [] hpos hl ha (by simp) (by simp)
  · subst hs
    obtain ⟨hb1, hl, ha, hel, hea, rfl⟩ := (create_dot base ext n hnd h1 h2).mp h
    exact display_create base ext hb1 hl ha hel hea

/-! ### What the 0x05 substitution preserves (used by the volume-invariant lemmas) -/

theorem kanjiStore_length (c : Bytes) : (Sfn.kanjiStore c).length = c.length := by
  cases c <;> rfl

/-- The substitution introduces no zero byte. -/
theorem kanjiStore_mem_ne_zero (c : Bytes) (h : ∀ b, b ∈ c → b ≠ 0) : ∀ b, b ∈ Sfn.kanjiStore c → b ≠ 0 := by
  cases c with
  | nil => intro b hb; cases hb
  | cons a rest =>
    intro b hb
    rcases List.mem_cons.mp hb with rfl | hb
    · by_cases he : a.toNat = 0xE5
      · rw [if_pos he]; decide
      · rw [if_neg he]; exact h a List.mem_cons_self
    · exact h b (List.mem_cons_of_mem _ hb)

/-- … in particular not in the first byte. -/
theorem byteAt_kanjiStore_ne_zero (c : Bytes) (h : byteAt c 0 ≠ 0) : byteAt (Sfn.kanjiStore c) 0 ≠ 0 := by
  cases c with
  | nil => exact h
  | cons a rest =>
    show (if a.toNat = 0xE5 then UInt8.ofNat 0x05 else a).toNat ≠ 0
    by_cases he : a.toNat = 0xE5
    · rw [if_pos he]; decide
    · rw [if_neg he]; exact h

/-- The stored first byte is never the deleted-entry marker. -/
theorem kanjiStore_head_ne_e5 (c : Bytes) : (Sfn.kanjiStore c).head? ≠ some 0xE5 := by
  cases c with
  | nil => intro h; cases h
  | cons a rest =>
    show some (if a.toNat = 0xE5 then UInt8.ofNat 0x05 else a) ≠ some 0xE5
    by_cases he : a.toNat = 0xE5
    · rw [if_pos he]; decide
    · rw [if_neg he]
      intro h
      apply he
      rw [Option.some.inj h]; rfl

end Sdmmc.Lemmas.C18
