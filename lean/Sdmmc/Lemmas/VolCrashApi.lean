/-
C10 over whole API calls: the manager level.  What every API function has to deliver beyond C03 (`VolInv`
preserved) and C04 (`Mirror` preserved, writes licensed):

  `CallC v s s'` — every crash point between `s` and `s'` is crash-consistent (`MCrash (CI v) s s'`), and the open
  files of `s'` satisfy `RawOK` on the medium of `s'`.

Helpers: `ci_start`, `callC_same` (a call that writes nothing), `withVol_one_crash` (a FAT-level computation on the
one open volume), `rawOK_files` (changing the table of open files), and the byte-level frame `rawOK_blocks`
(`VolCrashStep`).
-/
import Sdmmc.Lemmas.VolCrashStep
import Sdmmc.Lemmas.VolApi
import Sdmmc.Lemmas.CrashMgr

namespace Sdmmc.Lemmas.VolCrash
open Sdmmc.Model Sdmmc.Model.Fat Sdmmc.Spec.Volume
open Sdmmc.Spec hiding NoFault Coherent run step
open Sdmmc.Lemmas.FBasic
open Sdmmc.Lemmas.VolBase Sdmmc.Lemmas.VolTree Sdmmc.Lemmas.VolMed Sdmmc.Lemmas.VolDisk Sdmmc.Lemmas.VolEng
open Sdmmc.Lemmas.VolApi Sdmmc.Lemmas.CrashBase Sdmmc.Lemmas.CrashMgr Sdmmc.Lemmas.MHoare

/-- What a call from `s` to `s'` delivers for C10. -/
structure CallC (v : FatVolume) (s s' : Mgr) : Prop where
  crash : MCrash (CI v) s s'
  raw : RawOK v.fatType s'.dev.disk s'.files

/-- The medium between two calls is crash-consistent. -/
theorem ci_start {s : Mgr} {gh : Ghost} (hI : VolInv s gh) (hR : RawOK gh.vol.fatType s.dev.disk s.files) :
    CI gh.vol s.dev.disk :=
  ci_of_medX (medX_of_med hI.med) hR

/-- `RawOK` for a table of open files each of which sits where an old one sat and names the same cluster. -/
theorem rawOK_files {ft : FatType} {d : Disk} {files files' : List FileInfo} (hR : RawOK ft d files)
    (h : ∀ g, g ∈ files' → ∃ f, f ∈ files ∧ g.entry.entryBlock = f.entry.entryBlock ∧
      g.entry.entryOffset = f.entry.entryOffset ∧ g.entry.cluster = f.entry.cluster) : RawOK ft d files' := by
  intro g hg
  obtain ⟨f, hf, h1, h2, h3⟩ := h g hg
  rw [h1, h2, h3]
  exact hR f hf

theorem rawOK_sub {ft : FatType} {d : Disk} {files files' : List FileInfo} (hR : RawOK ft d files)
    (h : ∀ g, g ∈ files' → g ∈ files) : RawOK ft d files' := fun g hg => hR g (h g hg)

/-- Replacing the record at index `i` by one with the same slot position and the same first cluster. -/
theorem rawOK_set {ft : FatType} {d : Disk} {files : List FileInfo} (hR : RawOK ft d files) {i : Nat} {f f' : FileInfo}
    (hi : files[i]? = some f) (hb : f'.entry.entryBlock = f.entry.entryBlock) (ho : f'.entry.entryOffset = f.entry.entryOffset)
    (hc : f'.entry.cluster = f.entry.cluster) : RawOK ft d (files.set i f') := by
  refine rawOK_files hR fun g hg => ?_
  rcases List.mem_or_eq_of_mem_set hg with hg | rfl
  · exact ⟨g, hg, rfl, rfl, rfl⟩
  · exact ⟨f, List.mem_of_getElem? hi, hb, ho, hc⟩

/-- A call that leaves the device alone. -/
theorem callC_same {v : FatVolume} {s s' : Mgr} (hw : s'.dev.wlog = s.dev.wlog) (hd : s'.dev.disk = s.dev.disk)
    (hci : CI v s.dev.disk) (hR : RawOK v.fatType s.dev.disk s'.files) : CallC v s s' :=
  ⟨MCrash.same' hw hd hci, by rw [hd]; exact hR⟩

theorem callC_refl {v : FatVolume} {s : Mgr} (hci : CI v s.dev.disk) (hR : RawOK v.fatType s.dev.disk s.files) :
    CallC v s s := callC_same rfl rfl hci hR

/-- A FAT-level computation on the one open volume. -/
theorem withVol_one_crash {α : Type} {P : Disk → Prop} (f : F α) {s : Mgr} {vi : VolInfo} {gh : Ghost} (hv : s.vols = [vi])
    (hvol : vi.vol = gh.vol) (h : CrashAll P (fsOf s gh) (f (fsOf s gh)).2) : MCrash P s (withVol 0 f s).2 := by
  rw [withVol_one f hv hvol]
  exact MCrash.of_fs h rfl rfl

theorem MCrash.of_eq {P : Disk → Prop} {s s' t : Mgr} (h : MCrash P s s') (e : t.dev = s'.dev) : MCrash P s t := by
  obtain ⟨ws, h1, h2, h3⟩ := h
  exact ⟨ws, by rw [e]; exact h1, by rw [e]; exact h2, h3⟩

theorem MCrash.of_eq_left {P : Disk → Prop} {s s' t : Mgr} (h : MCrash P s s') (e : t.dev = s.dev) : MCrash P t s' := by
  obtain ⟨ws, h1, h2, h3⟩ := h
  exact ⟨ws, by rw [e]; exact h1, by rw [e]; exact h2, by rw [e]; exact h3⟩

/-! ### From `runOp` on the state with cleared logs to `step` -/

/-- What `step` delivers for C10: every prefix of the writes it reports leaves a crash-consistent medium, and the
open files afterwards satisfy `RawOK`. -/
structure StepC (v : FatVolume) (s : Mgr) (op : Op) : Prop where
  crash : ∀ k, CI v (crashDisk s.dev.disk (Model.step s op).2.writes k)
  raw : RawOK v.fatType (Model.step s op).1.dev.disk (Model.step s op).1.files

theorem stepC_of_callC {v : FatVolume} {s : Mgr} {op : Op} (hl : s.locked = false)
    (h : CallC v (resetLogs s) (runOp op (resetLogs s)).2) : StepC v s op := by
  have hs := step_unlocked s op hl
  have e : newWrites (devFS (resetLogs s)) (devFS (runOp op (resetLogs s)).2) = (runOp op (resetLogs s)).2.dev.wlog.reverse := by
    unfold newWrites
    show (List.take ((runOp op (resetLogs s)).2.dev.wlog.length - ([] : List (Nat × Block)).length) _).reverse = _
    rw [List.length_nil, Nat.sub_zero]
    exact congrArg List.reverse (List.take_length (l := (runOp op (resetLogs s)).2.dev.wlog))
  refine ⟨fun k => ?_, ?_⟩
  · have := h.crash.spec k
    rw [e] at this
    rw [hs]
    exact this
  · rw [hs]; exact h.raw

end Sdmmc.Lemmas.VolCrash
