/-
Bridging lemmas for `Props/C12Main2.lean`, part 4: `Spec.Card2` (two busy parameters) with both
parameters equal IS `Spec.Card`.
-/
import Sdmmc.Spec.Card2
import Sdmmc.Lemmas.MainK12Card

namespace Sdmmc.Lemmas.MainK12
open Sdmmc.Model Sdmmc.Spec.Card

theorem respond_busy (c : Card) (b) : (respond c b).busy = c.busy := rfl
theorem violate_busy (c : Card) (w) : (violate c w).busy = c.busy := rfl

set_option linter.unusedSimpArgs false in
theorem execCommand_busy (c : Card) (idx arg : Nat) : (execCommand c idx arg).busy = c.busy := by
  unfold execCommand
  simp only []
  repeat' split
  all_goals simp only [respond_busy, violate_busy, respond, violate]

set_option linter.unusedSimpArgs false in
theorem frameDone_busy (c : Card) (f) : (frameDone c f).busy = c.busy := by
  unfold frameDone
  simp only []
  repeat' split
  all_goals simp only [execCommand_busy, respond_busy, violate_busy]

set_option linter.unusedSimpArgs false in
/-- No byte changes the card's timing parameter `busy`. -/
theorem step_busy (c : Card) (x : UInt8) : (step c x).1.busy = c.busy := by
  unfold step
  simp only []
  repeat' split
  all_goals simp only [frameDone_busy, violate_busy, violate]

/-- With both parameters equal to the card's `busy`, one byte of `Card2` is one byte of `Card`. -/
theorem card2_step_coincides (c : Card2) (h1 : c.progBusy = c.card.busy) (h2 : c.stopBusy = c.card.busy) (x : UInt8) :
    (Card2.step c x).1.card = (step c.card x).1 ∧ (Card2.step c x).2 = (step c.card x).2 ∧
    (Card2.step c x).1.progBusy = (Card2.step c x).1.card.busy ∧
    (Card2.step c x).1.stopBusy = (Card2.step c x).1.card.busy := by
  have hself : ({ c.card with busy := if completesCmd12 c.card then c.stopBusy else c.progBusy } : Card) = c.card := by
    rw [h1, h2, ite_self]
  unfold Card2.step
  simp only [hself]
  exact ⟨trivial, trivial, by rw [step_busy]; exact h1, by rw [step_busy]; exact h2⟩

/-- … and so for every byte sequence: same card afterwards, same bytes back. -/
theorem card2_run_coincides (xs : List UInt8) : ∀ (c : Card2), c.progBusy = c.card.busy → c.stopBusy = c.card.busy →
    (Card2.run c xs).1.card = (run c.card xs).1 ∧ (Card2.run c xs).2 = (run c.card xs).2 := by
  induction xs with
  | nil => intro c _ _; exact ⟨rfl, rfl⟩
  | cons x xs ih =>
    intro c h1 h2
    obtain ⟨e1, e2, e3, e4⟩ := card2_step_coincides c h1 h2 x
    obtain ⟨i1, i2⟩ := ih (Card2.step c x).1 e3 e4
    simp only [Card2.run, run]
    rw [e1] at i1 i2
    exact ⟨i1, by rw [e2, i2]⟩

end Sdmmc.Lemmas.MainK12
