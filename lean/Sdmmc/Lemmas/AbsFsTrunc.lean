/-
Refinement of the API to the abstract file system, part 11: the truncating branch of `open_file_in_dir`
(`trunc_refines`): the chain of the file is cut behind its first cluster, its entry is stored with size 0 and
the new modification time, the record is entered in the table.
-/
import Sdmmc.Lemmas.AbsFsCreate
import Sdmmc.Lemmas.VolEng7

namespace Sdmmc.Lemmas.AbsFs
open Sdmmc.Model Sdmmc.Model.Fat Sdmmc.Spec.Volume Sdmmc.Lemmas.VolBase Sdmmc.Lemmas.VolTree
open Sdmmc.Spec hiding NoFault Coherent
open Sdmmc.Spec.AbsFs (Meta view storedMeta fatRound OpenFile OpenDir absStep)
open Sdmmc.Lemmas.VolDisk Sdmmc.Lemmas.VolMed Sdmmc.Lemmas.VolApi Sdmmc.Lemmas.VolEng
open Sdmmc.Lemmas.FBasic (NoFault Coherent)
open Sdmmc.Lemmas.MHoare

section
variable {files : List FileInfo} {gh : Ghost}

/-- **A closed file is truncated**, with what the abstraction needs: the new ghost, the slot lists of all
directories, the chains and bytes of all other files. -/
theorem truncate_med_x {fs : FS} (hM : MedX fs.vol fs.dev.disk files gh []) (hn : NoFault fs) (hc : Coherent fs) {h : Nat}
    (hh : h ∈ dirIds gh.dirs) {o : Slot} (ho : o ∈ objects h (dirSlots fs.vol fs.dev.disk gh.G h)) (hod : isDirE o = false)
    (hfree : pendOf files o = none) (e : DirEntry) (hblk : e.entryBlock = o.1) (hoff : e.entryOffset = o.2.1)
    (hnm : e.name = sName o) (hat : e.attributes = sAttr o) (hcl : e.cluster = sCluster fs.vol.fatType o) (hsz : e.size = 0)
    {pre post : List Slot} (hsp : dirSlots fs.vol fs.dev.disk gh.G h = pre ++ o :: post) :
    ∃ fs1 fs2 G', truncateClusterChain e.cluster fs = (.ok (), fs1) ∧ writeEntryToDisk e fs1 = (.ok (), fs2) ∧ NoFault fs2 ∧
      Coherent fs2 ∧ SameGeom fs.vol fs1.vol ∧ fs2.vol = fs1.vol ∧
      MedX fs2.vol fs2.dev.disk files { vol := fs1.vol, G := G', dirs := gh.dirs } [] ∧
      dirSlots fs1.vol fs2.dev.disk G' h = pre ++ (o.1, o.2.1, DirEntry.serialize fs.vol.fatType e) :: post ∧
      (∀ x, x ∈ dirIds gh.dirs → x ≠ h → dirSlots fs1.vol fs2.dev.disk G' x = dirSlots fs.vol fs.dev.disk gh.G x) ∧
      (∀ x, x ≠ sCluster fs.vol.fatType o → chainOf G' x = chainOf gh.G x) ∧
      (∀ i, regionOf fs.vol i ≠ .fat → i ≠ o.1 → fs2.dev.disk.get i = fs.dev.disk.get i) ∧
      ((o.1, o.2.1, DirEntry.serialize fs.vol.fatType e) : Slot) ∈ objects h (dirSlots fs1.vol fs2.dev.disk G' h) ∧
      keep (o.1, o.2.1, DirEntry.serialize fs.vol.fatType e) = true ∧
      isDirE (o.1, o.2.1, DirEntry.serialize fs.vol.fatType e) = false ∧
      pendOf files (o.1, o.2.1, DirEntry.serialize fs.vol.fatType e) = none ∧
      sCluster fs.vol.fatType (o.1, o.2.1, DirEntry.serialize fs.vol.fatType e) = sCluster fs.vol.fatType o ∧
      sSize (o.1, o.2.1, DirEntry.serialize fs.vol.fatType e) = 0 ∧
      sName (o.1, o.2.1, DirEntry.serialize fs.vol.fatType e) = sName o ∧
      sAttr (o.1, o.2.1, DirEntry.serialize fs.vol.fatType e) = sAttr o ∧
      first (o.1, o.2.1, DirEntry.serialize fs.vol.fatType e) = first o := by
  have hco := closed_object_chain hM hh ho hod hfree
  obtain ⟨fs1, G', hrun1, hn1, hc1, hb1, hsg1, hh1, ho1, hheads, hchains, hnonfat, _⟩ :=
    truncate_fat hM hn hc (c := sCluster fs.vol.fatType o) (by
      rcases hco with ⟨h1, _, _⟩ | ⟨_, _, h3, h4⟩
      · exact .inl h1
      · exact .inr ⟨h4, h3⟩)
  obtain ⟨fs2, hrun2, hd2, hv2, hn2, hc2⟩ := writeEntryToDisk_exact fs1 e hn1 hc1
  have hft1 : fs1.vol.fatType = fs.vol.fatType := hsg1.fatType
  have hR := rewritten_of_entry hM hh ho hod hfree e hnm hat hcl hsz
  obtain ⟨htree, hobj, hnd, hpn⟩ := rewrite_tree hM hh ho hod hfree hR rfl hheads hchains
  have hd2' : fs2.dev.disk = fs1.dev.disk.set o.1
      (splice (fs1.dev.disk.get o.1) o.2.1 (DirEntry.serialize fs.vol.fatType e)) := by
    rw [hd2, hblk, hoff, hft1]
  obtain ⟨hM2, hsl2⟩ := assemble_after_rewrite hM hh ho hod hfree hR.len rfl hd2' hsg1 hh1 hb1 ho1 hheads hchains hnonfat htree
  set bytes := DirEntry.serialize fs.vol.fatType e with hbytes
  set dw := fs.dev.disk.set o.1 (splice (fs.dev.disk.get o.1) o.2.1 bytes) with hdw
  obtain ⟨_, _, hnewsl, hothers⟩ := slot_write hM hh hsp bytes hR.len
  have hmem : o ∈ dirSlots fs.vol fs.dev.disk gh.G h := mem_of_mem_objects ho
  obtain ⟨hdirne, _⟩ := closed_object_apart hM hh ho hod hfree
  have horeg : regionOf fs.vol o.1 ≠ .fat := by
    rcases dirSlot_not_fat hM hh hmem with h1 | h1 <;> rw [h1] <;> intro e' <;> cases e'
  have hblocks : ∀ x, x ∈ dirIds gh.dirs → ∀ s, s ∈ dirSlots fs.vol dw gh.G x → fs2.dev.disk.get s.1 = dw.get s.1 := by
    intro x hx s hs
    have hreg : regionOf fs.vol s.1 ≠ .fat := by
      rcases dirSlot_not_fat hM hx hs with h1 | h1 <;> rw [h1] <;> intro e' <;> cases e'
    rw [hd2', hdw, FBasic.Disk.get_set, FBasic.Disk.get_set]
    split
    · rw [hnonfat _ horeg]
    · exact hnonfat _ hreg
  have hdirs : ∀ x, x ∈ dirIds gh.dirs → ¬ isFixedRoot fs.vol x → chainOf G' (dirHead fs.vol x) = chainOf gh.G (dirHead fs.vol x) :=
    fun x hx hfx => hchains _ (hdirne x hx hfx)
  have hkeepo : keep o = true := by
    obtain ⟨_, _, hE5, hfr⟩ := mem_entries (VolEng.mem_entries_of_objects ho)
    unfold keep; simp [hE5, hfr]
  have hnewkeep : keep (o.1, o.2.1, bytes) = true := by
    unfold keep isFrag at hkeepo ⊢
    rw [hR.first, hR.attr]; exact hkeepo
  refine ⟨fs1, fs2, G', by rw [hcl]; exact hrun1, hrun2, hn2, hc2, hsg1, hv2, by rw [hv2]; exact hM2, ?_, ?_, hchains, ?_, ?_,
    hnewkeep, hnd, hpn, hR.cluster, hR.size, hR.name, hR.attr, hR.first⟩
  · rw [hsl2]; exact hnewsl
  · intro x hx hne
    rw [dirSlots_sameGeom hsg1]
    have h1 : dirSlots fs.vol fs2.dev.disk G' x = dirSlots fs.vol dw gh.G x := by
      by_cases hf : isFixedRoot fs.vol x
      · have := dirSlots_congr (G := gh.G) (hblocks x hx)
        rw [dirSlots_fixed hf] at this ⊢
        exact this
      · rw [dirSlots_chain hf, hdirs x hx hf, ← dirSlots_chain hf]
        exact dirSlots_congr (hblocks x hx)
    rw [h1]
    exact hothers x hx hne
  · intro i hi hne
    rw [hd2', FBasic.Disk.get_set_ne _ _ _ _ (fun e' => hne e'.symm)]
    exact hnonfat i hi
  · rw [hsl2]; exact hobj

end

/-! ### The truncating branch of `open_file_in_dir` -/

theorem trunc_refines {s : Mgr} {gh : Ghost} {a : AState} (hI : VolInv s gh) (hA : Abs s gh a) {vi : VolInfo} (hvs : s.vols = [vi])
    (hvol : vi.vol = gh.vol) {d : DirInfo} (hdv : ValidDir gh.dirs d.cluster) (hraw : vi.rawVolume = d.rawVolume) {sfn : Bytes}
    {e : DirEntry} {o : Slot} (hF : Found s gh d sfn e o) (hdir : Attr.isDirectory e.attributes = false)
    (hopen : fileIsOpen s d.rawVolume e = false) {i : Nat} (hoi : (DirView s gh (dirIdOf d.cluster))[i]? = some o)
    (id : Nat) (now : Timestamp) :
    ∃ gh', VolInv (Modes.truncRun d 0 e id now s).2 gh' ∧ SameGeom gh.vol gh'.vol ∧ (Modes.truncRun d 0 e id now s).1 = .ok id ∧
      Abs (Modes.truncRun d 0 e id now s).2 gh'
        { Spec.AbsFs.setSlot a (dirIdOf d.cluster) i (.file (storedMeta { metaOf gh.vol.fatType o with size := 0, mtime := now }) []) with
          files := a.files ++ [⟨id, d.rawVolume, .ReadWriteTruncate, dirIdOf d.cluster, i, 0, { metaOf gh.vol.fatType o with size := 0, mtime := now }, false⟩] } := by
  obtain ⟨hobj, hod, hfree⟩ := hF.object hI hvs hdv hraw hdir hopen
  obtain ⟨hnm, hat, hsz, hb, hoo, hnd⟩ := hF.fields
  obtain ⟨_, hcl⟩ := hnd hdir
  obtain ⟨hn, hc, hM⟩ := volInv_fs hI
  obtain ⟨hid, _⟩ := validDir_id hM hdv
  set h := dirIdOf d.cluster with hhdef
  obtain ⟨pre, post, hsp, hplen, hpre, hnz⟩ := view_index_split hoi
  set etr := (Modes.truncatedFile d id e now).entry with hetr
  obtain ⟨fs1, fs2, G', hr1, hr2, hn2, hc2, hsg, hv2, hM2, hsl_h, hsl_o, hchains, hframe, hobjn, hkeepn, hdirn, hpendn, hcln, hszn,
      hnmn, hatn, hfirstn⟩ :=
    truncate_med_x hM hn hc hid hobj hod hfree etr hb hoo hnm hat hcl rfl hsp
  set gh' : Ghost := { vol := fs1.vol, G := G', dirs := gh.dirs } with hgh'
  set new : Slot := (o.1, o.2.1, DirEntry.serialize gh.vol.fatType etr) with hnew
  replace hsl_h : dirSlots fs1.vol fs2.dev.disk G' h = pre ++ new :: post := hsl_h
  replace hobjn : new ∈ objects h (dirSlots fs1.vol fs2.dev.disk G' h) := hobjn
  replace hkeepn : keep new = true := hkeepn
  replace hdirn : isDirE new = false := hdirn
  replace hpendn : pendOf s.files new = none := hpendn
  replace hcln : sCluster gh.vol.fatType new = sCluster gh.vol.fatType o := hcln
  replace hszn : sSize new = 0 := hszn
  replace hnmn : sName new = sName o := hnmn
  replace hatn : sAttr new = sAttr o := hatn
  replace hfirstn : first new = first o := hfirstn
  have hmeta : metaOf gh.vol.fatType o = view e := by rw [hF.dec]; rfl
  -- the two runs on the volume
  have hw1 := withVol_one (Fat.truncateClusterChain e.cluster) hvs hvol
  have hr1' : Fat.truncateClusterChain e.cluster (fsOf s gh) = (.ok (), fs1) := hr1
  rw [hr1'] at hw1
  have hvs1 : (afterVol s vi fs1).vols = [{ vi with vol := fs1.vol }] := rfl
  have hw2 := withVol_one (gh := { gh with vol := fs1.vol }) (Fat.writeEntryToDisk etr) hvs1 rfl
  have hfs1 : fsOf (afterVol s vi fs1) { gh with vol := fs1.vol } = fs1 := rfl
  rw [hfs1, hr2] at hw2
  have hinner : ((do
      withVol 0 (Fat.truncateClusterChain e.cluster)
      withVol 0 (Fat.writeEntryToDisk (Modes.truncatedFile d id e now).entry)
      pure (Modes.truncatedFile d id e now) : M FileInfo)) s =
      (.ok (Modes.truncatedFile d id e now), afterVol (afterVol s vi fs1) { vi with vol := fs1.vol } fs2) := by
    rw [bind_ok hw1, bind_ok hw2]; rfl
  have hrunT : Modes.truncRun d 0 e id now s = (.ok id, { afterVol (afterVol s vi fs1) { vi with vol := fs1.vol } fs2 with files := s.files ++ [Modes.truncatedFile d id e now] }) := by
    unfold Modes.truncRun
    rw [bind_ok hinner, modify_bind]
    rfl
  rw [hrunT]
  set ftr := Modes.truncatedFile d id e now with hftr
  set s' : Mgr := { afterVol (afterVol s vi fs1) { vi with vol := fs1.vol } fs2 with files := s.files ++ [ftr] } with hs'
  have hidm : h ∈ dirIds gh'.dirs := hid
  -- the invariant
  have hfile : MedX fs2.vol fs2.dev.disk (s.files ++ [ftr]) gh' [] := by
    refine med_open hM2 hidm (by rw [hv2]; exact hobjn) hdirn hpendn (f := ftr) ?_ ?_ ?_ ?_ ?_ (Nat.zero_le _) rfl rfl
    · show (e.entryBlock, e.entryOffset) = spos new
      rw [hb, hoo]
    · show e.name = sName new
      rw [hnmn, hnm]
    · show e.attributes = sAttr new
      rw [hatn, hat]
    · show e.cluster = sCluster fs2.vol.fatType new
      rw [hv2, hsg.fatType]
      show e.cluster = sCluster gh.vol.fatType new
      rw [hcln, hcl]
    · show 0 = sSize new
      rw [hszn]
  have hI' : VolInv s' gh' := by
    have := volInv_after (s := s) (vi := vi) (files' := s.files ++ [ftr]) (dirs' := s.dirs) hI hn2 hc2
      (show gh'.vol = fs2.vol from hv2.symm) hfile
      (by
        intro g hg
        rcases List.mem_append.1 hg with hg | hg
        · obtain ⟨vi', hv', he'⟩ := hI.fileVols g hg
          rw [hvs] at hv'; cases hv'; exact he'
        · rw [List.mem_singleton.1 hg]; exact hraw.symm)
      (by intro di hdi; exact hI.openDirs di hdi) s.nextId
    exact this
  refine ⟨gh', hI', by show SameGeom gh.vol fs1.vol; exact hsg, rfl, ?_⟩
  -- the views
  have hs'disk : s'.dev.disk = fs2.dev.disk := rfl
  obtain ⟨hview, _, _⟩ := view_split (ss' := dirSlots fs1.vol fs2.dev.disk G' h) hsp hsl_h hpre (by rw [hfirstn]; exact hnz) (.inl hnz)
  rw [hplen] at hview
  have hview' : DirView s' gh' h = putL (DirView s gh h) i new := hview
  have hother' : ∀ x, x ∈ dirIds gh.dirs → x ≠ h → DirView s' gh' x = DirView s gh x := by
    intro x hx hne
    unfold DirView
    exact congrArg beforeEnd (hsl_o x hx hne)
  have hft : fs1.vol.fatType = gh.vol.fatType := hsg.fatType
  have hkeyn : fkey ftr = spos new := Prod.ext hb hoo
  have hG := med_heads hM
  obtain ⟨OA, OB, hOAB⟩ := List.append_of_mem hobj
  have hO : objects h (dirSlots gh.vol s.dev.disk gh.G h) = OA ++ [o] ++ OB := by rw [hOAB]; simp
  have hmemo : o ∈ dirSlots gh.vol s.dev.disk gh.G h := mem_of_mem_objects hobj
  have hcont : ∀ x, x ∈ dirIds gh.dirs → ∀ j o', (DirView s gh x)[j]? = some o' → (x = h → j ≠ i) →
      absSlot gh'.vol.fatType (contOf s' gh') o' = absSlot gh.vol.fatType (contOf s gh) o' := by
    intro x hx j o' ho' hne
    rw [show gh'.vol.fatType = gh.vol.fatType from hft]
    apply absSlot_cont_congr
    intro hk' hd'
    have hobj' := view_object hM hx (List.mem_of_getElem? ho') hk' hd'
    have hsp' : spos o' ≠ fkey ftr := by
      intro hsp'
      obtain ⟨hxe, hoe⟩ := slot_unique hM hx hid (mem_of_beforeEnd_getElem? ho') hmemo (hsp'.trans hkeyn)
      subst hxe
      subst hoe
      exact hne rfl (view_index_unique hM hx ho' hoi)
    unfold contOf contentOf
    have hp : pendOf s'.files o' = pendOf s.files o' := pendOf_append_other s.files ftr hsp'
    have e1 : effCluster gh'.vol.fatType s'.files o' = effCluster gh.vol.fatType s.files o' := by
      unfold effCluster; rw [hp]; show _ = _; rw [show gh'.vol.fatType = gh.vol.fatType from hft]
    have e2 : effSize s'.files o' = effSize s.files o' := by unfold effSize; rw [hp]
    rw [e1, e2]
    show fileContent fs1.vol fs2.dev.disk (chainOf G' _) _ = _
    rw [WriteRefines.sameGeom_fileContent hsg]
    by_cases hc0 : effCluster gh.vol.fatType s.files o' = 0
    · rw [hc0, chainOf_lt_two (h := 0) (med_heads hM2) (by decide), chainOf_lt_two (h := 0) hG (by decide), fileContent_nil,
        fileContent_nil]
    · have hne2 : effCluster gh.vol.fatType s.files o' ≠ sCluster gh.vol.fatType o := by
        have := eff_ne_of_split hM.tree hG hid hO hod x hx o' hobj' ?_ hd' hc0
        · rw [effCluster_of_none hfree] at this; exact this
        · intro exh
          subst exh
          have hm : o' ∈ OA ++ [o] ++ OB := by rw [← hO]; exact hobj'
          simp only [List.mem_append, List.mem_singleton] at hm ⊢
          rcases hm with (h1 | h1) | h1
          · exact .inl h1
          · exact absurd (by rw [h1]; exact hkeyn.symm) hsp'
          · exact .inr h1
      rw [hchains _ hne2]
      apply fileContent_congr'
      intro c hcm j hj
      have hhead := fileRef_mem_heads hM.tree hx hobj' hd' hc0
      obtain ⟨hmemG, _⟩ := chainOf_spec hG hhead
      have hcr := med_inRange hM hmemG hcm
      have hreg := FatLens.cluster_blocks_in_data_region gh.vol hM.geom c j hcr.1 hcr.2 hj
      have hneb : clusterToBlock gh.vol c + j ≠ o.1 := dirBlock_not_fileChain hM hid hmemo hx hobj' hd' c hcm j hj
      exact hframe _ (by rw [show (fsOf s gh).vol = gh.vol from rfl, hreg]; intro e'; cases e') hneb
  have hnewabs : absSlot gh'.vol.fatType (contOf s' gh') new =
      .file (storedMeta { metaOf gh.vol.fatType o with size := 0, mtime := now }) [] := by
    rw [absSlot_file hkeepn hdirn]
    have hol := mem_dirSlots_length hM.blocksOK hmemo
    have hname : etr.name.length = 11 := by
      show e.name.length = 11
      rw [hnm]; unfold sName; rw [List.length_take, hol]; rfl
    have hcl32 : etr.cluster < 4294967296 := by
      show e.cluster < 4294967296
      rw [hcl]
      have hbound := hM.geom.count_bound
      have hE : endCluster gh.vol ≤ 0x0FFFFFF7 := by
        cases hft2 : gh.vol.fatType <;> rw [show (fsOf s gh).vol = gh.vol from rfl, hft2] at hbound <;> simp only at hbound <;> omega
      rcases closed_object_chain hM hid hobj hod hfree with ⟨h1, _, _⟩ | ⟨_, _, h3, _⟩
      · have h1' : sCluster gh.vol.fatType o = 0 := h1
        rw [h1']; decide
      · have h3' : sCluster gh.vol.fatType o < endCluster gh.vol := (ChainL.chain_inRange h3 _ (ForestBase.chain_head_mem h3)).2
        omega
    congr 1
    · show metaOf fs1.vol.fatType (o.1, o.2.1, DirEntry.serialize gh.vol.fatType etr) = _
      rw [hft, metaOf_serialize _ _ _ _ hname (by show e.attributes < 256; rw [hat]; exact sAttr_lt o)
        (by show (0 : Nat) < 4294967296; decide) hcl32]
      show storedMeta (view etr) = _
      rw [hmeta]
      rfl
    · unfold contOf
      rw [contentOf_open (pendOf_append_new s.files ftr hpendn hkeyn)]
      show fileContent _ _ _ 0 = []
      unfold fileContent
      simp
  have hslotsE := slots_edit (s' := s') (gh' := gh') hA rfl hid hview' hother' hcont
  rw [hnewabs] at hslotsE
  refine ⟨hA.nextId, hA.maxDirs, hA.maxFiles, hA.clock, hA.locked, ?_, hA.dirs, ?_, hA.ids, hslotsE⟩
  · show a.vols = [({ vi with vol := fs2.vol } : VolInfo)].map _
    rw [hA.vols, hvs]; rfl
  · show List.Forall₂ (FileRel s' gh') (a.files ++ [_]) (s.files ++ [ftr])
    refine forall₂_append (forall₂_mono hA.files fun af1 f1 hf1 hr1 => ?_) (.cons ?_ .nil)
    · refine fileRel_edit hr1 rfl hview' hother' fun hd1 hi1 => ?_
      -- no open file sat at the slot
      exfalso
      obtain ⟨o1, ho1, hp1⟩ := hr1.slot
      rw [hd1, hi1] at ho1
      have : o1 = o := Option.some.inj (ho1.symm.trans hoi)
      subst this
      have := (pendOf_none_iff s.files o1).1 hfree f1 hf1
      exact this hp1.symm
    · refine ⟨rfl, rfl, rfl, rfl, ?_, rfl, hid, new, ?_, hkeyn.symm⟩
      · show ({ metaOf gh.vol.fatType o with size := 0, mtime := now } : Meta) = view ftr.entry
        rw [hmeta]; rfl
      · show (DirView s' gh' h)[i]? = some new
        rw [hview']
        exact putL_getElem?_self _ _ _ (Nat.le_of_lt (List.getElem?_eq_some_iff.1 hoi).1)

end Sdmmc.Lemmas.AbsFs
