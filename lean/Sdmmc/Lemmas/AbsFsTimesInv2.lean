/-
C02 over abstract histories, part 4: `AInv` holds of the outcome of every call that changes a directory slot
or the file table (`ainv_createdSt`, `ainv_truncatedSt`, `ainv_openedSt`, `ainv_writtenSt`, `ainv_flushedSt`,
`ainv_remove`, `ainv_deletedSt`).
-/
import Sdmmc.Lemmas.AbsFsTimesInv
import Sdmmc.Lemmas.TablesInv
import Mathlib.Data.List.Nodup

namespace Sdmmc.Lemmas.AbsFsTimes
open Sdmmc.Model Sdmmc.Spec.AbsFs Sdmmc.Lemmas.AbsFsTouch
open Sdmmc.Spec (ByteFile)

/-! ### Lists -/

theorem mem_set_cases {α β : Type} (k : α → β) {l : List α} (hn : (l.map k).Nodup) {i : Nat} {x y g : α}
    (hx : l[i]? = some x) (hg : g ∈ l.set i y) : g = y ∨ (g ∈ l ∧ k g ≠ k x) := by
  obtain ⟨j, hj⟩ := List.mem_iff_getElem?.1 hg
  rw [List.getElem?_set] at hj
  by_cases hij : i = j
  · rw [if_pos hij] at hj
    split at hj
    · left; exact (Option.some.inj hj).symm
    · cases hj
  · rw [if_neg hij] at hj
    right
    refine ⟨List.mem_of_getElem? hj, ?_⟩
    intro e
    have h1 : (l.map k)[j]? = some (k g) := by rw [List.getElem?_map, hj]; rfl
    have h2 : (l.map k)[i]? = some (k x) := by rw [List.getElem?_map, hx]; rfl
    rw [e] at h1
    have hlt1 : j < (l.map k).length := by
      rcases Nat.lt_or_ge j (l.map k).length with h | h
      · exact h
      · rw [List.getElem?_eq_none h] at h1; cases h1
    have hlt2 : i < (l.map k).length := by
      rcases Nat.lt_or_ge i (l.map k).length with h | h
      · exact h
      · rw [List.getElem?_eq_none h] at h2; cases h2
    rw [List.getElem?_eq_getElem hlt1] at h1
    rw [List.getElem?_eq_getElem hlt2] at h2
    have := (List.Nodup.getElem_inj_iff hn).1 ((Option.some.inj h1).trans (Option.some.inj h2).symm)
    exact hij this.symm

theorem mem_set_of_ne {α β : Type} (k : α → β) {l : List α} {i : Nat} {x y g : α}
    (hx : l[i]? = some x) (hg : g ∈ l) (hne : k g ≠ k x) : g ∈ l.set i y := by
  obtain ⟨j, hj⟩ := List.mem_iff_getElem?.1 hg
  have hij : i ≠ j := by
    intro e; subst e; rw [hx] at hj; exact hne (by rw [Option.some.inj hj])
  exact List.mem_iff_getElem?.2 ⟨j, by rw [List.getElem?_set, if_neg hij]; exact hj⟩

theorem mem_swapRemove_of_ne {α β : Type} (k : α → β) {l : List α} {i : Nat} {x g : α}
    (hx : l[i]? = some x) (hg : g ∈ l) (hne : k g ≠ k x) : g ∈ swapRemove l i := by
  have hi : i < l.length := by
    rcases Nat.lt_or_ge i l.length with h | h
    · exact h
    · rw [List.getElem?_eq_none h] at hx; cases hx
  refine (Sdmmc.Lemmas.Tables.swapRemove_perm l i hi).mem_iff.2 ?_
  obtain ⟨j, hj⟩ := List.mem_iff_getElem?.1 hg
  have hjl : j < l.length := by
    rcases Nat.lt_or_ge j l.length with h | h
    · exact h
    · rw [List.getElem?_eq_none h] at hj; cases hj
  refine List.mem_eraseIdx_iff_getElem.2 ⟨j, hjl, ?_, ?_⟩
  · intro e; subst e; rw [hx] at hj; exact hne (by rw [Option.some.inj hj])
  · rw [List.getElem?_eq_getElem hjl] at hj; exact Option.some.inj hj

theorem nodup_append_singleton {β : Type} {l : List β} {x : β} (h : l.Nodup) (hx : x ∉ l) : (l ++ [x]).Nodup := by
  rw [List.nodup_append]
  refine ⟨h, List.nodup_singleton x, ?_⟩
  intro a ha b hb
  rw [List.mem_singleton] at hb
  subst hb
  intro e; subst e; exact hx ha

def posOf (f : OpenFile) : Nat × Nat := (f.dir, f.idx)

theorem pos_not_mem {a : AbsFs} {x j : Nat} (h : NotOpenAt a x j) : (x, j) ∉ a.files.map fun f => (f.dir, f.idx) := by
  intro hm
  obtain ⟨f, hf, he⟩ := List.mem_map.1 hm
  injection he with e1 e2
  exact h f hf ⟨e1, e2⟩

theorem storedMeta_ctime (m : Meta) : (storedMeta m).ctime = fatRound m.ctime := by
  unfold storedMeta; rfl
theorem storedMeta_mtime (m : Meta) : (storedMeta m).mtime = fatRound m.mtime := by
  unfold storedMeta; rfl
theorem storedMeta_name (m : Meta) : (storedMeta m).name = m.name := by
  unfold storedMeta; rfl
theorem storedMeta_size (m : Meta) : (storedMeta m).size = m.size := by
  unfold storedMeta; rfl
theorem storedMeta_attr (m : Meta) : (storedMeta m).attr = m.attr := by
  unfold storedMeta; rfl

/-! ### Where a name leads -/

section
variable {a : AbsFs}

theorem ctx_facts (hA : AInv a) {d : Nat} {name : List Nat} {od : OpenDir} {sfn : Bytes}
    (hctx : dirCtx a d name = .ok (od, sfn)) : od.dir ∈ a.ids ∧ volOpen a od.volume = true := by
  obtain ⟨hm, hv⟩ := dirOf_ok (dirCtx_ok hctx).1
  exact ⟨hA.dirs od hm, hv⟩

/-! ### Create -/

theorem createdSt_get (od : OpenDir) (sfn : Bytes) (x j : Nat) :
    ((createdSt a od sfn).slots x)[j]? =
      if (x, j) = (od.dir, freeIdx (a.slots od.dir)) then some (.file (storedMeta (newMeta sfn 0 a.clock)) [])
      else (a.slots x)[j]? :=
  setSlot_get a _ _ _ (freeIdx_le _) x j

theorem ainv_createdSt (hA : AInv a) {od : OpenDir} {sfn : Bytes} (hod : od.dir ∈ a.ids)
    (hv : volOpen a od.volume = true) : AInv (createdSt a od sfn) := by
  have hget := createdSt_get (a := a) od sfn
  have hfree : ∀ m b, (a.slots od.dir)[freeIdx (a.slots od.dir)]? ≠ some (.file m b) := freeIdx_not_file _
  have hno : NotOpenAt a od.dir (freeIdx (a.slots od.dir)) := fun f hf hxy =>
    slot_ne_of_file (hA.files f hf) hfree (by rw [hxy.1, hxy.2])
  refine ainv_put hA hod rfl rfl rfl hA.dirs hget (fun m t e => by cases e)
    (fun m b e => by cases e; exact fatRound_rounded _) ?_ ?_
    (fun f hf _ => ⟨f, List.mem_append_left _ hf, rfl, rfl⟩) (fun m b e _ => by cases e; rfl)
  · intro f hf
    rcases List.mem_append.1 hf with hf | hf
    · exact fileAt_away (hA.files f hf) rfl rfl hget (slot_ne_of_file (hA.files f hf) hfree)
    · rw [List.mem_singleton] at hf
      subst hf
      refine ⟨hv, hod, storedMeta (newMeta sfn 0 a.clock), [], ?_, rfl, rfl, rfl, .inl rfl, fun _ => rfl⟩
      show ((createdSt a od sfn).slots od.dir)[freeIdx (a.slots od.dir)]? = _
      rw [hget, if_pos rfl]
  · show ((a.files ++ [createdRec a od sfn]).map fun f => (f.dir, f.idx)).Nodup
    rw [List.map_append]
    exact nodup_append_singleton hA.distinct (pos_not_mem hno)

/-! ### Truncate -/

theorem truncatedSt_get (od : OpenDir) (i : Nat) (m : Meta) (hi : i < (a.slots od.dir).length) (x j : Nat) :
    ((truncatedSt a od i m).slots x)[j]? =
      if (x, j) = (od.dir, i) then some (.file (storedMeta { m with size := 0, mtime := a.clock }) [])
      else (a.slots x)[j]? :=
  setSlot_get a _ _ _ (Nat.le_of_lt hi) x j

theorem ainv_truncatedSt (hA : AInv a) {od : OpenDir} {i : Nat} {m : Meta} {bytes : Bytes} (hod : od.dir ∈ a.ids)
    (hv : volOpen a od.volume = true) (hsl : (a.slots od.dir)[i]? = some (.file m bytes))
    (hno : NotOpenAt a od.dir i) : AInv (truncatedSt a od i m) := by
  have hget := truncatedSt_get (a := a) od i m (lt_of_getElem?_some hsl)
  have hne : ∀ f, f ∈ a.files → (f.dir, f.idx) ≠ (od.dir, i) := fun f hf e => by
    injection e with e1 e2; exact hno f hf ⟨e1, e2⟩
  refine ainv_put hA hod rfl rfl rfl hA.dirs hget (fun m t e => by cases e)
    (fun m' b e => by cases e; exact fatRound_rounded _) ?_ ?_
    (fun f hf _ => ⟨f, List.mem_append_left _ hf, rfl, rfl⟩) (fun m' b e _ => by cases e; rfl)
  · intro f hf
    rcases List.mem_append.1 hf with hf | hf
    · exact fileAt_away (hA.files f hf) rfl rfl hget (hne f hf)
    · rw [List.mem_singleton] at hf
      subst hf
      refine ⟨hv, hod, storedMeta { m with size := 0, mtime := a.clock }, [], ?_, rfl, rfl, rfl, .inl rfl, fun _ => rfl⟩
      show ((truncatedSt a od i m).slots od.dir)[i]? = _
      rw [hget, if_pos rfl]
  · show ((a.files ++ [truncatedRec a od i m]).map fun f => (f.dir, f.idx)).Nodup
    rw [List.map_append]
    exact nodup_append_singleton hA.distinct (pos_not_mem hno)

/-! ### Plain open -/

theorem ainv_openedSt (hA : AInv a) {od : OpenDir} {i : Nat} {m : Meta} {bytes : Bytes} (mode : Mode) (hod : od.dir ∈ a.ids)
    (hv : volOpen a od.volume = true) (hsl : (a.slots od.dir)[i]? = some (.file m bytes))
    (hno : NotOpenAt a od.dir i) : AInv (openedSt a od i m mode) := by
  have hget : ∀ x j, ((openedSt a od i m mode).slots x)[j]? =
      if (x, j) = (od.dir, i) then some (.file m bytes) else (a.slots x)[j]? := by
    intro x j
    by_cases he : (x, j) = (od.dir, i)
    · rw [if_pos he]; injection he with e1 e2; subst e1; subst e2; exact hsl
    · rw [if_neg he]; rfl
  have hne : ∀ f, f ∈ a.files → (f.dir, f.idx) ≠ (od.dir, i) := fun f hf e => by
    injection e with e1 e2; exact hno f hf ⟨e1, e2⟩
  have hsz : m.size = bytes.length := hA.sizes od.dir hod i m bytes hsl hno
  refine ainv_put hA hod rfl rfl rfl hA.dirs hget (fun m t e => by cases e)
    (fun m' b e => by cases e; exact hA.rounded od.dir hod i m bytes hsl) ?_ ?_
    (fun f hf _ => ⟨f, List.mem_append_left _ hf, rfl, rfl⟩) (fun m' b e _ => by cases e; exact hsz)
  · intro f hf
    rcases List.mem_append.1 hf with hf | hf
    · exact fileAt_away (hA.files f hf) rfl rfl hget (hne f hf)
    · rw [List.mem_singleton] at hf
      subst hf
      exact ⟨hv, hod, m, bytes, hsl, rfl, hA.rounded od.dir hod i m bytes hsl, hsz, .inl rfl, fun _ => hsz⟩
  · show ((a.files ++ [openedRec a od i m mode]).map fun f => (f.dir, f.idx)).Nodup
    rw [List.map_append]
    exact nodup_append_singleton hA.distinct (pos_not_mem hno)

/-! ### Write -/

theorem writtenSt_get (i : Nat) (f : OpenFile) (m : Meta) (nb : Bytes) (k : Nat) {bytes : Bytes}
    (hsl : (a.slots f.dir)[f.idx]? = some (.file m bytes)) (x j : Nat) :
    ((writtenSt a i f m nb k).slots x)[j]? = if (x, j) = (f.dir, f.idx) then some (.file m nb) else (a.slots x)[j]? :=
  setSlot_get { a with files := a.files.set i (writtenRec a f nb k) } _ _ _ (Nat.le_of_lt (lt_of_getElem?_some hsl)) x j

theorem ainv_writtenSt (hA : AInv a) {i : Nat} {f : OpenFile} {m : Meta} {bytes : Bytes} (nb : Bytes) (k : Nat)
    (hfi : a.files[i]? = some f) (hsl : (a.slots f.dir)[f.idx]? = some (.file m bytes)) :
    AInv (writtenSt a i f m nb k) := by
  have hfm : f ∈ a.files := List.mem_of_getElem? hfi
  have hF := hA.files f hfm
  have hget := writtenSt_get (a := a) i f m nb k hsl
  obtain ⟨m0, b0, hs0, hn0, hc0, _, hat0, _⟩ := hF.slot
  rw [hsl] at hs0
  injection hs0 with hs0
  injection hs0 with em eb
  subst em; subst eb
  refine ainv_put hA hF.dir rfl rfl rfl hA.dirs hget (fun m t e => by cases e)
    (fun m' b e => by cases e; exact hA.rounded f.dir hF.dir f.idx m bytes hsl) ?_ ?_ ?_ ?_
  · intro g hg
    rcases mem_set_cases (fun f => (f.dir, f.idx)) hA.distinct hfi hg with rfl | ⟨hg', hne⟩
    · refine ⟨hF.volume, hF.dir, m, nb, ?_, hn0, hc0, rfl, ?_, fun h => by cases h⟩
      · show ((writtenSt a i f m nb k).slots f.dir)[f.idx]? = _
        rw [hget, if_pos rfl]
      · show Attr.setArchive f.pm.attr = m.attr ∨ Attr.setArchive f.pm.attr = Attr.setArchive m.attr
        rcases hat0 with e | e
        · right; rw [e]
        · right; rw [e, setArchive_idem]
    · exact fileAt_away (hA.files g hg') rfl rfl hget hne
  · show ((a.files.set i (writtenRec a f nb k)).map fun f => (f.dir, f.idx)).Nodup
    rw [Sdmmc.Lemmas.MHoare.map_set_of_eq a.files (fun f => (f.dir, f.idx)) i f (writtenRec a f nb k) hfi rfl]
    exact hA.distinct
  · intro g hg hne
    exact ⟨g, mem_set_of_ne (fun f => (f.dir, f.idx)) hfi hg hne, rfl, rfl⟩
  · intro m' b e hno
    exfalso
    refine hno (writtenRec a f nb k) ?_ ⟨rfl, rfl⟩
    show writtenRec a f nb k ∈ a.files.set i (writtenRec a f nb k)
    exact List.mem_iff_getElem?.2 ⟨i, by rw [List.getElem?_set_self (lt_of_getElem?_some hfi)]⟩

/-! ### Flush -/

theorem flushedSt_get (f : OpenFile) (nb : Bytes) {m : Meta} {bytes : Bytes}
    (hsl : (a.slots f.dir)[f.idx]? = some (.file m bytes)) (x j : Nat) :
    ((flushedSt a f nb).slots x)[j]? =
      if (x, j) = (f.dir, f.idx) then some (.file (storedMeta f.pm) nb) else (a.slots x)[j]? :=
  setSlot_get a _ _ _ (Nat.le_of_lt (lt_of_getElem?_some hsl)) x j

theorem ainv_flushedSt (hA : AInv a) {f : OpenFile} {m : Meta} {bytes : Bytes} (hfm : f ∈ a.files)
    (hsl : (a.slots f.dir)[f.idx]? = some (.file m bytes)) : AInv (flushedSt a f bytes) := by
  have hF := hA.files f hfm
  have hget := flushedSt_get (a := a) f bytes hsl
  obtain ⟨m0, b0, hs0, _, _, hz0, _, _⟩ := hF.slot
  rw [hsl] at hs0
  injection hs0 with hs0
  injection hs0 with em eb
  subst em; subst eb
  refine ainv_put hA hF.dir rfl rfl rfl hA.dirs hget (fun m t e => by cases e)
    (fun m' b e => by cases e; exact fatRound_rounded _) ?_ hA.distinct (fun g hg _ => ⟨g, hg, rfl, rfl⟩) ?_
  · intro g hg
    by_cases he : (g.dir, g.idx) = (f.dir, f.idx)
    · injection he with e1 e2
      have := ainv_at_unique hA hg hfm e1 e2
      subst this
      refine ⟨hF.volume, hF.dir, storedMeta g.pm, bytes, ?_, (storedMeta_name _).symm, (storedMeta_ctime _).symm, hz0,
        .inl (storedMeta_attr _).symm, fun _ => by rw [storedMeta_size]; exact hz0⟩
      show ((flushedSt a g bytes).slots g.dir)[g.idx]? = _
      rw [hget, if_pos rfl]
    · exact fileAt_away (hA.files g hg) rfl rfl hget he
  · intro m' b e hno
    exact absurd ⟨rfl, rfl⟩ (hno f hfm)

/-! ### A record leaves the table -/

theorem ainv_remove (hA : AInv a) {i : Nat} {f : OpenFile} {m : Meta} {bytes : Bytes} (hfi : a.files[i]? = some f)
    (hsl : (a.slots f.dir)[f.idx]? = some (.file m bytes)) (hsz : m.size = bytes.length) :
    AInv { a with files := swapRemove a.files i } := by
  have hsub : ∀ g, g ∈ swapRemove a.files i → g ∈ a.files := fun g hg => by
    have := Tables.SubP.mem (Tables.swapRemove_map_subP a.files id i) (by simpa using hg)
    simpa using this
  refine ⟨hA.unlocked, hA.oneVol, hA.root, hA.dirs, hA.targets, ?_, ?_, hA.rounded, ?_⟩
  · intro g hg
    exact fileAt_of_key (hA.files g (hsub g hg)) rfl (hA.files g (hsub g hg)).volume (hA.files g (hsub g hg)).dir rfl
  · exact Tables.SubP.nodup (Tables.swapRemove_map_subP a.files _ i) hA.distinct
  · intro x hx j m' b hsl' hno
    by_cases he : (x, j) = (f.dir, f.idx)
    · injection he with e1 e2
      subst e1; subst e2
      rw [hsl] at hsl'
      injection hsl' with hsl'
      injection hsl' with em eb
      subst em; subst eb
      exact hsz
    · refine hA.sizes x hx j m' b hsl' ?_
      intro g hg hxy
      refine hno g (mem_swapRemove_of_ne (fun f => (f.dir, f.idx)) hfi hg ?_) hxy
      show (g.dir, g.idx) ≠ (f.dir, f.idx)
      rw [hxy.1, hxy.2]; exact he

/-! ### Delete -/

theorem deletedSt_get (od : OpenDir) (i : Nat) (hi : i < (a.slots od.dir).length) (x j : Nat) :
    ((deletedSt a od i).slots x)[j]? = if (x, j) = (od.dir, i) then some .deleted else (a.slots x)[j]? :=
  setSlot_get a _ _ _ (Nat.le_of_lt hi) x j

theorem ainv_deletedSt (hA : AInv a) {od : OpenDir} {i : Nat} {m : Meta} {bytes : Bytes} (hod : od.dir ∈ a.ids)
    (hsl : (a.slots od.dir)[i]? = some (.file m bytes)) (hno : NotOpenAt a od.dir i) : AInv (deletedSt a od i) := by
  have hget := deletedSt_get (a := a) od i (lt_of_getElem?_some hsl)
  have hne : ∀ f, f ∈ a.files → (f.dir, f.idx) ≠ (od.dir, i) := fun f hf e => by
    injection e with e1 e2; exact hno f hf ⟨e1, e2⟩
  exact ainv_put hA hod rfl rfl rfl hA.dirs hget (fun m t e => by cases e) (fun m' b e => by cases e)
    (fun f hf => fileAt_away (hA.files f hf) rfl rfl hget (hne f hf)) hA.distinct
    (fun f hf _ => ⟨f, hf, rfl, rfl⟩) (fun m' b e _ => by cases e)

end

end Sdmmc.Lemmas.AbsFsTimes
