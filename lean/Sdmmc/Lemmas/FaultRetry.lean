/-
C11 — retrying a failed `read`: the failed call leaves every file's offset where it was
(`readLoop` restores `startOffset` on both of its error paths, and `find_data_on_disk` hands its
error back inside `Ok`, so the unrestored `other` arm is never taken with an error).
-/
import Sdmmc.Lemmas.FaultHandles

namespace Sdmmc.Lemmas.Fault

open Sdmmc.Model

/-! ### Computations that never return `Err` -/

def FNoErr {α} (m : F α) : Prop := ∀ s e, (m s).1 ≠ .err e
def NoErr {α} (m : M α) : Prop := ∀ s e, (m s).1 ≠ .err e

theorem FNoErr.bind {α β} {m : F α} {f : α → F β} (hm : FNoErr m) (hf : ∀ a, FNoErr (f a)) : FNoErr (m >>= f) := by
  intro s e
  have hms := hm s
  rcases hr : m s with ⟨r, s'⟩
  rw [hr] at hms
  cases r with
  | ok a => rw [F.bind_ok hr]; exact hf a s' e
  | err e' => exact absurd rfl (hms e')
  | panic msg => rw [F.bind_panic hr]; intro h; cases h
  | diverged => rw [F.bind_diverged hr]; intro h; cases h

theorem FNoErr.attempt_bind {α β} {m : F α} {k : Res α → F β} (hk : ∀ r, FNoErr (k r)) :
    FNoErr (F.attempt m >>= k) := by
  intro s e
  rw [F.attempt_bind_apply]
  exact hk _ _ e

theorem walkClusters_noErr (bpc n : Nat) (st : Nat × Nat) : FNoErr (walkClusters bpc n st) := by
  induction n generalizing st with
  | zero => unfold walkClusters; intro s e h; cases h
  | succ n ih =>
    unfold walkClusters
    refine FNoErr.attempt_bind fun r => ?_
    split
    · exact ih _
    · intro s e h; cases h

theorem findDataOnDisk_noErr (fileStart off : Nat) (start : Nat × Nat) :
    FNoErr (findDataOnDisk fileStart off start) := by
  unfold findDataOnDisk
  refine FNoErr.bind (fun s e h => by cases h) fun v => ?_
  dsimp only
  split
  · intro s e h; cases h
  · refine FNoErr.bind (walkClusters_noErr _ _ _) ?_
    rintro ⟨st, r⟩
    dsimp only
    split
    · split
      · intro s e h; cases h
      · intro s e h; cases h
    · intro s e h; cases h

theorem NoErr.withVol {α} {f : F α} (i : Nat) (hf : FNoErr f) : NoErr (withVol i f) := by
  intro s e
  rcases withVol_cases i f s with ⟨_, he⟩ | ⟨vi, _, he⟩
  · rw [he]; intro h; cases h
  · rw [he]; exact hf _ e

theorem NoErr.getFile (i : Nat) : NoErr (getFile i) := by
  intro s e; unfold Model.getFile; split <;> (intro h; cases h)

theorem NoErr.modifyFile (i : Nat) (g : FileInfo → FileInfo) : NoErr (modifyFile i g) := by
  intro s e h; cases h

/-! ### "An error outcome comes with the start offset restored" -/

/-- If `m` returns an error, the file in slot `fi` (if any) has `currentOffset = start`. -/
def ErrRestores {α} (fi start : Nat) (m : M α) : Prop :=
  ∀ s e, (m s).1 = .err e → ∀ f', (m s).2.files[fi]? = some f' → f'.currentOffset = start

theorem ErrRestores.of_noErr {α} {fi start : Nat} {m : M α} (h : NoErr m) : ErrRestores fi start m :=
  fun s e he => absurd he (h s e)

theorem ErrRestores.bind {α β} {fi start : Nat} {m : M α} {f : α → M β} (hm : NoErr m)
    (hf : ∀ a, ErrRestores fi start (f a)) : ErrRestores fi start (m >>= f) := by
  intro s e
  have hms := hm s
  rcases hr : m s with ⟨r, s'⟩
  rw [hr] at hms
  cases r with
  | ok a => rw [M.bind_ok hr]; exact hf a s' e
  | err e' => exact absurd rfl (hms e')
  | panic msg => rw [M.bind_panic hr]; intro h; cases h
  | diverged => rw [M.bind_diverged hr]; intro h; cases h

theorem ErrRestores.attempt_bind {α β} {fi start : Nat} {m : M α} {k : Res α → M β}
    (hk : ∀ r, ErrRestores fi start (k r)) : ErrRestores fi start (M.attempt m >>= k) := by
  intro s e
  rw [M.attempt_bind_apply]
  exact hk _ _ e

theorem ErrRestores.attempt_bind_noErr {α β} {fi start : Nat} {m : M α} {k : Res α → M β} (hm : NoErr m)
    (hk : ∀ r, (∀ e, r ≠ .err e) → ErrRestores fi start (k r)) : ErrRestores fi start (M.attempt m >>= k) := by
  intro s e
  rw [M.attempt_bind_apply]
  exact hk _ (hm s) _ e

/-- The two restoring arms of `readLoop`. -/
theorem ErrRestores.restore {α} (fi start : Nat) (r : Res α) :
    ErrRestores fi start (modifyFile fi (fun f => { f with currentOffset := start }) >>= fun _ => (M.lift r : M α)) := by
  intro s e _ f' hf'
  have hst : ((modifyFile fi (fun f => { f with currentOffset := start }) >>= fun _ => (M.lift r : M α)) s).2
      = { s with files := s.files.modify fi (fun f => { f with currentOffset := start }) } := rfl
  rw [hst] at hf'
  simp only at hf'
  rw [List.getElem?_modify] at hf'
  cases hx : s.files[fi]? with
  | none => rw [hx] at hf'; cases hf'
  | some x =>
    rw [hx] at hf'
    simp only [Functor.map, Option.map_some, if_true, Option.some.injEq] at hf'
    subst hf'
    rfl

theorem readLoop_errRestores (fi vi start fuel space : Nat) (acc : Bytes) :
    ErrRestores fi start (readLoop fi vi start fuel space acc) := by
  induction fuel generalizing space acc with
  | zero => unfold readLoop; exact .of_noErr fun s e h => by cases h
  | succ n ih =>
    unfold readLoop
    refine .bind (NoErr.getFile _) fun f => ?_
    split
    · exact .of_noErr fun s e h => by cases h
    · refine .attempt_bind_noErr (NoErr.withVol _ (findDataOnDisk_noErr _ _ _)) fun r hr => ?_
      split
      · refine .bind (NoErr.modifyFile _ _) fun _ => ?_
        refine .attempt_bind fun rb => ?_
        split
        · dsimp only
          split
          · exact .of_noErr fun s e h => by cases h
          · exact .bind (NoErr.modifyFile _ _) fun _ => ih _ _
        · exact .restore fi start _
      · exact .restore fi start _
      · refine .of_noErr fun s e h => ?_
        cases r with
        | ok a => cases h
        | err e' => exact hr e' rfl
        | panic msg => cases h
        | diverged => cases h

/-! ### Everything else about the file table is untouched by `readLoop` -/

/-- Forget the position fields of slot `i`. -/
def normAt (i j : Nat) (f : FileInfo) : FileInfo :=
  if j = i then { f with currentOffset := 0, curClusterOff := 0, curCluster := 0 } else f

/-- The file tables agree except for the position fields of slot `i`. -/
def OffFrame (i : Nat) (s s' : Mgr) : Prop := s'.files.mapIdx (normAt i) = s.files.mapIdx (normAt i)
instance (i : Nat) : RelOK (OffFrame i) := ⟨fun _ => rfl, fun h1 h2 => Eq.trans h2 h1⟩

instance (i : Nat) : WithVolOK (OffFrame i) where
  withVol := fun j f s => by
    rcases withVol_cases j f s with ⟨_, he⟩ | ⟨vi, hv, he⟩
    · rw [he]; rfl
    · rw [he]; rfl

theorem OffFrame.modifyFile (i : Nat) {g : FileInfo → FileInfo} (hg : ∀ x, normAt i i (g x) = normAt i i x) :
    M.Inv (OffFrame i) (Model.modifyFile i g) := by
  intro s
  show List.mapIdx _ (s.files.modify i g) = _
  apply List.ext_getElem?
  intro j
  rw [List.getElem?_mapIdx, List.getElem?_mapIdx, List.getElem?_modify]
  cases s.files[j]? with
  | none => rfl
  | some x =>
    simp only [Functor.map, Option.map_some]
    by_cases hij : i = j
    · subst hij; rw [if_pos rfl, hg]
    · rw [if_neg hij]

macro "rfault_step" : tactic => `(tactic| first
  | exact OffFrame.modifyFile _ (fun _ => by unfold normAt; rw [if_pos rfl, if_pos rfl])
  | hfault_step)

theorem readLoop_offFrame (fi vi start fuel space : Nat) (acc : Bytes) :
    M.Inv (OffFrame fi) (readLoop fi vi start fuel space acc) := by
  induction fuel generalizing space acc with
  | zero => unfold readLoop; repeat rfault_step
  | succ n ih => unfold readLoop; repeat rfault_step

theorem offsets_of_frame (s s' : Mgr) (i : Nat) (x : FileInfo) (hx : s.files[i]? = some x)
    (hfr : OffFrame i s s') (hoff : ∀ f', s'.files[i]? = some f' → f'.currentOffset = x.currentOffset) :
    s'.files.map (fun f => (f.rawFile, f.currentOffset)) = s.files.map (fun f => (f.rawFile, f.currentOffset)) := by
  apply List.ext_getElem?
  intro j
  rw [List.getElem?_map, List.getElem?_map]
  have hj := congrArg (·[j]?) hfr
  simp only [List.getElem?_mapIdx] at hj
  by_cases hji : j = i
  · subst hji
    rw [hx] at hj ⊢
    cases hs' : s'.files[j]? with
    | none => rw [hs'] at hj; cases hj
    | some f' =>
      rw [hs'] at hj
      simp only [Option.map_some, Option.some.injEq] at hj ⊢
      have h1 := congrArg FileInfo.rawFile hj
      simp only [normAt, if_true] at h1
      rw [h1, hoff f' hs']
  · have hid : normAt i j = id := funext fun f => if_neg hji
    rw [hid, Option.map_id] at hj
    simp only [id] at hj
    rw [hj]

/-- A failed `read` leaves the offset of every open file — in particular of the file that was
read — unchanged, so the same `read` can simply be issued again. -/
theorem read_err_offsets (f n : Nat) (s : Mgr) (e : Err) (h : (Model.read f n s).1 = .err e) :
    (Model.read f n s).2.files.map (fun x => (x.rawFile, x.currentOffset)) =
      s.files.map (fun x => (x.rawFile, x.currentOffset)) := by
  unfold Model.read at h ⊢
  rcases hg : getFileById f s with ⟨r1, s1⟩
  have hs1 : s1 = s := by have := getFileById_state f s; rw [hg] at this; exact this
  subst hs1
  cases r1 with
  | err e1 => rw [M.bind_err hg]
  | panic msg => rw [M.bind_panic hg]
  | diverged => rw [M.bind_diverged hg]
  | ok i =>
    rw [M.bind_ok hg] at h ⊢
    cases hx : s1.files[i]? with
    | none =>
      have hgf : getFile i s1 = (.panic "file index out of range", s1) := by unfold getFile; rw [hx]
      rw [M.bind_panic hgf]
    | some x =>
      have hgf : getFile i s1 = (.ok x, s1) := by unfold getFile; rw [hx]
      rw [M.bind_ok hgf] at h ⊢
      rcases hv : getVolumeById x.rawVolume s1 with ⟨r3, s3⟩
      have hs3 : s3 = s1 := by have := getVolumeById_state x.rawVolume s1; rw [hv] at this; exact this
      subst hs3
      cases r3 with
      | err e1 => rw [M.bind_err hv]
      | panic msg => rw [M.bind_panic hv]
      | diverged => rw [M.bind_diverged hv]
      | ok vi =>
        rw [M.bind_ok hv] at h ⊢
        exact offsets_of_frame s3 _ i x hx (readLoop_offFrame i vi x.currentOffset (n + 1) n [] s3)
          (readLoop_errRestores i vi x.currentOffset (n + 1) n [] s3 e h)

end Sdmmc.Lemmas.Fault
