/-
C11, arbitrary fault placement — `make_dir_in_dir` UNDER ANY SCHEDULE (`mkdir_faulted`): the table checks, the lookup
(read-only), then `make_dir` (`Lemmas/FaultXMkdir.makeDir_faulted`).  Whatever device call fails, the tables are left
alone and the medium carries the invariant with lost chains: the new cluster is either the new directory, or free
again, or a chain nothing refers to.
-/
import Sdmmc.Lemmas.FaultXMkdir
import Sdmmc.Lemmas.FaultXOpen

namespace Sdmmc.Lemmas.FaultX
open Sdmmc.Model Sdmmc.Model.Fat Sdmmc.Spec.Volume Sdmmc.Lemmas.VolBase Sdmmc.Lemmas.VolTree
open Sdmmc.Spec hiding NoFault Coherent
open Sdmmc.Lemmas.VolDisk Sdmmc.Lemmas.VolMed Sdmmc.Lemmas.VolEng Sdmmc.Lemmas.VolX Sdmmc.Lemmas.VolApi
open Sdmmc.Lemmas.FBasic (NoFault Coherent)
open Sdmmc.Lemmas.CrashBase Sdmmc.Lemmas.Retry Sdmmc.Lemmas.FaultPre Sdmmc.Lemmas.FaultInv Sdmmc.Lemmas.FaultCoh Sdmmc.Lemmas.MHoare
open Sdmmc.Lemmas.Fault (Coh)

/-- **`make_dir_in_dir` under any fault schedule keeps the invariant** — up to the schedule, for some ghost of the same
geometry and some lost chains. -/
theorem mkdir_faulted {X : List (List Nat)} {s0 : Mgr} {gh : Ghost} (hI : VolInvX X s0 gh) (L : List Nat) (directory : Nat)
    (name : List Nat) (hname : ∀ sfn, Sfn.createFromStr name = .ok sfn → sfn.head? ≠ some 0xE5) :
    InvF gh (makeDirInDir directory name (withFaults L s0)).2 := by
  have h0 : InvF gh (withFaults L s0) := invF_of hI L
  unfold makeDirInDir
  rw [get_bind]
  by_cases hfull : (withFaults L s0).dirs.length ≥ (withFaults L s0).maxDirs
  · rw [if_pos hfull]; exact h0
  rw [if_neg hfull]
  cases hidx : s0.dirs.findIdx? (·.rawDirectory = directory) with
  | none => rw [bind_err (getDirById_bad (s := withFaults L s0) hidx)]; exact h0
  | some i =>
    obtain ⟨d, hdi, _⟩ := findIdx?_some_get hidx
    have hdm : d ∈ s0.dirs := List.mem_of_getElem? hdi
    rw [bind_ok (getDirById_ok (s := withFaults L s0) hidx), bind_ok (getDir_ok (s := withFaults L s0) hdi)]
    cases hv : s0.vols.findIdx? (·.rawVolume = d.rawVolume) with
    | none => rw [bind_err (getVolumeById_bad (s := withFaults L s0) hv)]; exact h0
    | some volIdx =>
      obtain ⟨hz, vi, hvs, hvol, hraw⟩ := VolX.vol_of_handle hI hv
      subst hz
      rw [bind_ok (getVolumeById_ok (s := withFaults L s0) hv)]
      cases hs : Sfn.createFromStr name with
      | error e => rw [bind_err (Modes.toSfn_err hs _)]; exact h0
      | ok sfn =>
        rw [bind_ok (Modes.toSfn_ok hs _), attempt_bind]
        have hdv := hI.openDirs d hdm
        obtain ⟨hn, hc, hM⟩ := VolX.volInv_fs hI
        obtain ⟨r, fs', hlk, hdisk, hvol', h1, hcase⟩ := VolX.lookup_found hI hvs hvol hdv sfn (hname sfn hs)
        obtain ⟨hinvL, _, _, hdich⟩ := withVol_F hI hvs hvol L (findDirectoryEntry_pre d.cluster sfn)
          (Fault.findDirectoryEntry_inv d.cluster sfn) (findDirectoryEntry_len _ _) (findDirectoryEntry_geo _ _)
          (findDirectoryEntry_coh _ _) (findDirectoryEntry_vk (K := HintOK) _ _ _ hM.hint) (fun _ h => h)
          (CrashAll.of_ro (DirMgr.findDirectoryEntry_readOnly d.cluster sfn (fsOf s0 gh)) (mx_of_med hM))
        rcases hdich with hq | he
        swap
        · rcases hrun : withVol 0 (Fat.findDirectoryEntry d.cluster sfn) (withFaults L s0) with ⟨r', s'⟩
          rw [hrun] at he hinvL
          simp only at he
          subst he
          exact hinvL
        rw [hlk] at hq
        rw [hq]
        set s1 := afterVol s0 vi fs' with hs1
        have hvs1 : s1.vols = [{ vi with vol := fs'.vol }] := rfl
        have h01 : InvF gh (withFaults L s1) := invF_of h1 L
        rcases hcase with ⟨hr, hfresh⟩ | ⟨e, o, hr, hF⟩
        · subst hr
          show InvF gh (withVol 0 (Fat.makeDir d.cluster sfn Gen.ATTR_DIRECTORY (withFaults L s0).clock) (withFaults L s1)).2
          obtain ⟨hlen, hz⟩ := VolSfn.sfn_facts hs
          obtain ⟨hn1, hc1, hM1⟩ := VolX.volInv_fs h1
          have hfresh1 : sfn ∉ (entries (dirSlots (fsOf s1 gh).vol (fsOf s1 gh).dev.disk gh.G (dirIdOf d.cluster))).map sName := by
            show sfn ∉ (entries (dirSlots gh.vol s1.dev.disk gh.G (dirIdOf d.cluster))).map sName
            rw [hdisk]; exact hfresh
          obtain ⟨hcF, hsgF, G', X', dirs', hM', hd'⟩ := makeDir_faulted hM1 hn1 hc1 hdv sfn hlen hz
            (VolSfn.sfn_first_ne_e5 (hname sfn hs)) hfresh1 (withFaults L s0).clock L
          have hw := withVol_one (Fat.makeDir d.cluster sfn Gen.ATTR_DIRECTORY (withFaults L s0).clock)
            (s := withFaults L s1) (gh := gh) hvs1 hvol'
          rw [fsOf_withFaults] at hw
          rw [hw]
          exact ⟨_, X', volInvX_afterVol_F h1 hvs1 L hcF hM' hd', hsgF⟩
        · subst hr
          by_cases hdir : Attr.isDirectory e.attributes = true
          · simp only [hdir, if_true]; exact h01
          · simp only [hdir]; exact h01

end Sdmmc.Lemmas.FaultX
