/-
C11 over histories, part 4 — HISTORIES UNDER ONE FAULT SCHEDULE.  The schedule is part of the device state and is
consumed across the calls of `run` (`run_faults`: no call changes it; `dev.calls` is never reset).

* facts that need no invariant at all: a call during which a device call failed answers an error; the cache stays
  coherent; the schedule is untouched (`hist_generic`);
* `history_inv_A`: from the invariant up to the schedule, a covered history in which device failures occur only in
  calls of `classA` (read-only calls, `flush_file`, `close_volume`) keeps the invariant up to the schedule after EVERY
  prefix, and every call answers `Ok` or an error.
-/
import Sdmmc.Lemmas.FaultHistClean
import Sdmmc.Lemmas.FaultCohApi
import Sdmmc.Lemmas.WriteSetInvHist

namespace Sdmmc.Lemmas.FaultHist
open Sdmmc.Model Sdmmc.Model.Fat Sdmmc.Spec.Volume
open Sdmmc.Spec hiding NoFault Coherent
open Sdmmc.Lemmas.VolApi Sdmmc.Lemmas.MHoare Sdmmc.Lemmas.FaultInv Sdmmc.Lemmas.Retry

theorem withFaults_mclr (s : Mgr) : withFaults s.dev.faults (mclr s) = s := by
  cases s with
  | mk dev cache nextId vols dirs files maxVols maxDirs maxFiles clock locked =>
    cases dev with
    | mk disk calls faults failed wlog rlog => rfl

theorem step_faults (s : Mgr) (op : Op) : (step s op).1.dev.faults = s.dev.faults := by
  unfold Model.step
  by_cases hl : s.locked = true
  · rw [if_pos hl]; split <;> rfl
  · rw [if_neg hl]
    exact faults_same op { s with dev := { s.dev with wlog := [], rlog := [] } }

theorem run_faults : ∀ (ops : List Op) (s : Mgr), (run s ops).1.dev.faults = s.dev.faults
  | [], _ => rfl
  | op :: ops, s => by
    rw [WriteSetInv.run_cons]
    exact (run_faults ops _).trans (step_faults s op)

/-- Every call of the history is covered in the state it is issued in. -/
def CoveredRunF : Mgr → List Op → Prop
  | _, [] => True
  | s, op :: ops => FCovered s op ∧ CoveredRunF (step s op).1 ops

/-- Device failures occur only during calls of the class `P`. -/
def FailsOnlyIn (P : Op → Bool) : Mgr → List Op → Prop
  | _, [] => True
  | s, op :: ops => ((step s op).1.dev.failed ≠ s.dev.failed → P op = true) ∧ FailsOnlyIn P (step s op).1 ops

theorem fcovered_mclr {s : Mgr} {op : Op} (h : FCovered s op) : FCovered (mclr s) op := by
  cases op <;> exact h

/-- **One call from the invariant up to the schedule** (any schedule pending in `s`). -/
theorem step_inv_F {s : Mgr} {gh : Ghost} (hI : VolInv (mclr s) gh) (op : Op) (hc : FCovered s op)
    (hA : (step s op).1.dev.failed ≠ s.dev.failed → classA op = true) :
    (∃ gh', VolInv (mclr (step s op).1) gh' ∧ SameGeom gh.vol gh'.vol) ∧ Clean (step s op).2.result := by
  have e := withFaults_mclr s
  have hA' : (step (withFaults s.dev.faults (mclr s)) op).1.dev.failed ≠ (mclr s).dev.failed → classA op = true := by
    rw [e]; exact hA
  refine ⟨by have := step_inv_A hI s.dev.faults op (fcovered_mclr hc) hA'; rw [e] at this; exact this, ?_⟩
  by_cases hq : (step s op).1.dev.failed = s.dev.failed
  · have := (quiet_step_inv hI s.dev.faults op (fcovered_mclr hc) (by rw [e]; exact hq)).1
    rw [e] at this
    rw [this]
    exact covered_call_clean hI op (fcovered_mclr hc)
  · obtain ⟨err, he⟩ := Fault.step_reported s op hq
    rw [he]; exact clean_err _

/-- **Histories**: after every prefix. -/
theorem history_inv_A : ∀ (ops : List Op) {s : Mgr} {gh : Ghost}, VolInv (mclr s) gh → CoveredRunF s ops →
    FailsOnlyIn classA s ops → ∀ k,
    (∃ gh', VolInv (mclr (run s (ops.take k)).1) gh' ∧ SameGeom gh.vol gh'.vol) ∧
    ∀ o, o ∈ (run s (ops.take k)).2 → Clean o.result
  | [], s, gh, hI, _, _, k => by
    rw [List.take_nil]
    exact ⟨⟨gh, hI, SameGeom.refl _⟩, fun o ho => by cases ho⟩
  | op :: ops, s, gh, hI, hc, hf, 0 => ⟨⟨gh, hI, SameGeom.refl _⟩, fun o ho => by cases ho⟩
  | op :: ops, s, gh, hI, hc, hf, k + 1 => by
    rw [List.take_succ_cons, WriteSetInv.run_cons]
    obtain ⟨⟨gh1, hI1, hg1⟩, hcl⟩ := step_inv_F hI op hc.1 hf.1
    obtain ⟨⟨gh2, hI2, hg2⟩, hcl2⟩ := history_inv_A ops hI1 hc.2 hf.2 k
    refine ⟨⟨gh2, hI2, hg1.trans hg2⟩, fun o ho => ?_⟩
    rcases List.mem_cons.1 ho with rfl | ho
    · exact hcl
    · exact hcl2 o ho

/-- What holds of EVERY history from EVERY state, with no hypothesis at all on the state: a call during which a
device call failed answers an error; a coherent cache stays coherent. -/
theorem hist_generic (ops : List Op) (s : Mgr) (k : Nat) :
    (Fault.MCoh s → Fault.MCoh (run s (ops.take k)).1) ∧
    (∀ op, ops[k]? = some op →
      (step (run s (ops.take k)).1 op).1.dev.failed ≠ (run s (ops.take k)).1.dev.failed →
      ∃ e, (step (run s (ops.take k)).1 op).2.result = .err e) := by
  refine ⟨fun hc => ?_, fun op _ h => Fault.step_reported _ op h⟩
  induction ops generalizing s k with
  | nil => rw [List.take_nil]; exact hc
  | cons op ops ih =>
    cases k with
    | zero => exact hc
    | succ k =>
      rw [List.take_succ_cons, WriteSetInv.run_cons]
      exact ih _ k (FaultCoh.step_coherent s op hc)

end Sdmmc.Lemmas.FaultHist
