/-
Volume invariant (C03), layer 1b: one slot of a directory block is rewritten on the medium
(`slot_write`: what `write_entry_to_disk` / `write_new_directory_entry` do; `slot_mark`: the first
byte set, what `delete_directory_entry` does) — the slot list of that directory changes at one place,
every other directory, every FAT entry is untouched; `medX_rebuild`: re-assembling the invariant from a
new `TreeOK`.
-/
import Sdmmc.Lemmas.VolMed

namespace Sdmmc.Lemmas.VolMed
open Sdmmc.Model Sdmmc.Model.Fat Sdmmc.Spec Sdmmc.Spec.Volume Sdmmc.Lemmas.VolBase Sdmmc.Lemmas.VolTree
open Sdmmc.Lemmas.VolDisk

section
variable {v : FatVolume} {d : Disk} {files : List FileInfo} {gh : Ghost} {X : List (List Nat)}

theorem mem_dirSlots_offset {G : List (List Nat)} {h : Nat} {d' : Disk} {s : Slot} (hs : s ∈ dirSlots v d' G h) :
    ∃ i, i < 16 ∧ s.2.1 = 32 * i := by
  rw [dirSlots_eq] at hs
  split at hs
  · exact slot_offset_fixedRoot hs
  · exact slot_offset_chain hs

theorem mem_dirSlots_length {G : List (List Nat)} {h : Nat} {d' : Disk} (hb : BlocksOK d') {s : Slot}
    (hs : s ∈ dirSlots v d' G h) : s.2.2.length = 32 := by
  rw [dirSlots_eq] at hs
  split at hs
  · exact slot_length_of_mem_fixedRootSlots hb hs
  · exact slot_length_of_mem_chainSlots hb hs

/-- A block holding a directory slot holds no FAT entry. -/
theorem dirBlock_ne_fat (hM : MedX v d files gh X) {h : Nat} (hh : h ∈ dirIds gh.dirs) {d' : Disk} {s : Slot}
    (hs : s ∈ dirSlots v d' gh.G h) (c : Nat) (hc : c < endCluster v) : fatBlock v c ≠ s.1 := by
  intro e
  have hfat := (FatLens.fat_blocks_in_fat_region v hM.geom c hc).1
  rw [e] at hfat
  rcases dirSlot_not_fat hM hh hs with h1 | h1 <;> rw [h1] at hfat <;> cases hfat

/-- Rewriting block `blk` by a function of its slots that only touches position `k`. -/
theorem dirSlots_set_gen (hM : MedX v d files gh X) {h : Nat} (hh : h ∈ dirIds gh.dirs) {pre post : List Slot} {old : Slot}
    (hsp : dirSlots v d gh.G h = pre ++ old :: post) {B' : Block} {f : Slot → Slot} {new : Slot}
    (hblk : blockSlots old.1 B' = (blockSlots old.1 (d.get old.1)).map f)
    (hother : ∀ s : Slot, spos s ≠ spos old → f s = s) (hold : f old = new) :
    dirSlots v (d.set old.1 B') gh.G h = pre ++ new :: post ∧
    (∀ x, x ∈ dirIds gh.dirs → x ≠ h → dirSlots v (d.set old.1 B') gh.G x = dirSlots v d gh.G x) := by
  have hob : ∀ s : Slot, s.1 ≠ old.1 → f s = s := fun s hs => hother s fun e => hs (Prod.mk.inj e).1
  have hgen : ∀ x, dirSlots v (d.set old.1 B') gh.G x = (dirSlots v d gh.G x).map f := by
    intro x
    rw [dirSlots_eq, dirSlots_eq]
    split
    · exact runSlots_set_gen _ _ hblk hob
    · exact chainSlots_set_gen _ hblk hob
  have hmem : old ∈ dirSlots v d gh.G h := by rw [hsp]; simp
  constructor
  · rw [hgen h, hsp, List.map_append, List.map_cons, hold]
    have hnd := dirSlots_pos_nodup hM hh d
    rw [hsp] at hnd
    obtain ⟨h1, h2⟩ := split_pos_ne hnd
    congr 1
    · conv => rhs; rw [← List.map_id pre]
      exact List.map_congr_left fun s hs => hother s (h1 s hs)
    · congr 1
      conv => rhs; rw [← List.map_id post]
      exact List.map_congr_left fun s hs => hother s (h2 s hs)
  · intro x hx hne
    rw [hgen x]
    conv => rhs; rw [← List.map_id (dirSlots v d gh.G x)]
    exact List.map_congr_left fun s hs => hother s (dirSlots_pos_disjoint hM hx hh hne d d hs hmem)

/-- **One directory slot is rewritten** with 32 new bytes. -/
theorem slot_write (hM : MedX v d files gh X) {h : Nat} (hh : h ∈ dirIds gh.dirs) {pre post : List Slot} {old : Slot}
    (hsp : dirSlots v d gh.G h = pre ++ old :: post) (bytes : Bytes) (hbytes : bytes.length = 32) :
    BlocksOK (d.set old.1 (splice (d.get old.1) old.2.1 bytes)) ∧
    (∀ c, c < endCluster v →
      (d.set old.1 (splice (d.get old.1) old.2.1 bytes)).get (fatBlock v c) = d.get (fatBlock v c)) ∧
    dirSlots v (d.set old.1 (splice (d.get old.1) old.2.1 bytes)) gh.G h = pre ++ (old.1, old.2.1, bytes) :: post ∧
    (∀ x, x ∈ dirIds gh.dirs → x ≠ h →
      dirSlots v (d.set old.1 (splice (d.get old.1) old.2.1 bytes)) gh.G x = dirSlots v d gh.G x) := by
  have hmem : old ∈ dirSlots v d gh.G h := by rw [hsp]; simp
  obtain ⟨i, hi, hoff⟩ := mem_dirSlots_offset hmem
  have hl := hM.blocksOK old.1
  refine ⟨?_, ?_, ?_⟩
  · intro j
    rw [FBasic.Disk.get_set]
    split
    · rw [FatLens.splice_length _ _ _ (by rw [hl, hbytes, hoff]; omega)]; exact hl
    · exact hM.blocksOK j
  · intro c hc
    exact FBasic.Disk.get_set_ne _ _ _ _ (dirBlock_ne_fat hM hh hmem c hc).symm
  · have hpo : spos old = (old.1, 32 * i) := by show (old.1, old.2.1) = _; rw [hoff]
    have hk : splice (d.get old.1) old.2.1 bytes = splice (d.get old.1) (32 * i) bytes := by rw [hoff]
    rw [hk]
    refine dirSlots_set_gen hM hh hsp (blockSlots_splice old.1 _ bytes i hl hi hbytes) ?_ ?_
    · intro s hs
      exact upd_of_ne (by rw [← hpo]; exact hs)
    · exact upd_of_eq hpo

/-- **The first byte of one directory slot is set** to `x`. -/
theorem slot_mark (hM : MedX v d files gh X) {h : Nat} (hh : h ∈ dirIds gh.dirs) {pre post : List Slot} {old : Slot}
    (hsp : dirSlots v d gh.G h = pre ++ old :: post) (x : UInt8) :
    BlocksOK (d.set old.1 ((d.get old.1).set old.2.1 x)) ∧
    (∀ c, c < endCluster v → (d.set old.1 ((d.get old.1).set old.2.1 x)).get (fatBlock v c) = d.get (fatBlock v c)) ∧
    dirSlots v (d.set old.1 ((d.get old.1).set old.2.1 x)) gh.G h = pre ++ (old.1, old.2.1, old.2.2.set 0 x) :: post ∧
    (∀ y, y ∈ dirIds gh.dirs → y ≠ h →
      dirSlots v (d.set old.1 ((d.get old.1).set old.2.1 x)) gh.G y = dirSlots v d gh.G y) := by
  have hmem : old ∈ dirSlots v d gh.G h := by rw [hsp]; simp
  obtain ⟨i, hi, hoff⟩ := mem_dirSlots_offset hmem
  have hl := hM.blocksOK old.1
  refine ⟨?_, ?_, ?_⟩
  · intro j
    rw [FBasic.Disk.get_set]
    split
    · rw [List.length_set]; exact hl
    · exact hM.blocksOK j
  · intro c hc
    exact FBasic.Disk.get_set_ne _ _ _ _ (dirBlock_ne_fat hM hh hmem c hc).symm
  · have hpo : spos old = (old.1, 32 * i) := by show (old.1, old.2.1) = _; rw [hoff]
    have hk : (d.get old.1).set old.2.1 x = (d.get old.1).set (32 * i) x := by rw [hoff]
    rw [hk]
    refine dirSlots_set_gen hM hh hsp (blockSlots_set_first old.1 _ i x) ?_ ?_
    · intro s hs
      exact updFirst_of_ne (by rw [← hpo]; exact hs)
    · exact updFirst_of_eq hpo

/-- Re-assembling the invariant on a medium with the same FAT entries from a new `TreeOK`. -/
theorem medX_rebuild (hM : MedX v d files gh X) {d' : Disk} (hb : BlocksOK d')
    (hfat : ∀ c, c < endCluster v → d'.get (fatBlock v c) = d.get (fatBlock v c))
    {gh' : Ghost} (hG : gh'.G = gh.G) {files' : List FileInfo}
    (htree : TreeOK v.fatType (clusterBytesLen v) (rootHead v) gh'.G gh'.dirs (dirSlots v d' gh'.G) files')
    (hfiles : ∀ f, f ∈ files' → FileOK v d f (chainOf gh.G f.entry.cluster) ∧
      (chainOf gh.G f.entry.cluster = [] → f.curCluster < 2)) :
    MedX v d' files' gh' X := by
  have hown : Owns v d' (gh.G ++ X) := WriteRefines.owns_of_fat_eq hfat hM.owns
  refine ⟨hb, hM.geom, hM.hint, by rw [hG]; exact hown, htree, ?_⟩
  intro f hf
  rw [hG]
  obtain ⟨hok, hcur⟩ := hfiles f hf
  refine ⟨fileOK_congr (SameGeom.refl v) hok ?_, hcur⟩
  intro hne
  have hm := chainOf_spec (med_heads hM) ((chainOf_ne_nil_iff (med_heads hM)).1 hne)
  have := hown.1 _ (List.mem_append_left _ hm.1)
  rwa [headD_of_head? hm.2] at this

/-! ### Directory handles -/

theorem validDir_id (hM : MedX v d files gh X) {dc : Nat} (hv : ValidDir gh.dirs dc) :
    dirIdOf dc ∈ dirIds gh.dirs ∧ (dc ≠ Gen.CLUSTER_ROOT_DIR → dirIdOf dc = dc ∧ 2 ≤ dc ∧ dc < endCluster v) := by
  unfold dirIdOf
  rcases hv with rfl | hm
  · exact ⟨by rw [if_pos rfl]; exact zero_mem_dirIds _, fun h => absurd rfl h⟩
  · obtain ⟨⟨h, p⟩, hp, rfl⟩ := List.mem_map.1 hm
    have hh : h ∈ dirIds gh.dirs := mem_dirIds.2 (.inr ⟨p, hp⟩)
    obtain ⟨cs, hcs, hce⟩ := List.mem_map.1 (dir_mem_heads hM.tree hp)
    have hne := (med_heads hM).ne cs hcs
    have hr : InRange v h := by
      have : h ∈ cs := by
        cases cs with
        | nil => exact absurd rfl hne
        | cons a l => simp only [List.headD_cons] at hce; rw [← hce]; exact List.mem_cons_self
      exact med_inRange hM hcs this
    have hnr : h ≠ Gen.CLUSTER_ROOT_DIR := FatLens.lt_end_ne_root v hM.geom h hr.2
    rw [if_neg hnr]
    exact ⟨hh, fun _ => ⟨rfl, hr.1, hr.2⟩⟩

end

end Sdmmc.Lemmas.VolMed
