/-
Lemmas for the wrapper layer (`Sdmmc.Model.Wrap`), second part: `embedded_io::Read::read` /
`Write::write` / `Write::flush`, `close` and `Drop` of the three wrappers.
Used by `Sdmmc.Props.C01Io` and `Sdmmc.Props.C08Wrap`.
-/
import Sdmmc.Lemmas.WrapBase

namespace Sdmmc.Lemmas.Wrap
open Sdmmc.Model Sdmmc.Model.Wrap Sdmmc.Spec.Wrap Sdmmc.Lemmas.MHoare
open Sdmmc.Gen

/-! ### `Read::read` -/

/-- The empty-buffer shortcut: no call at all — whatever the handle, borrowed manager or not. -/
theorem ioRead_zero (s : Mgr) (h : Nat) : File.ioRead h 0 s = (.ok [], s) := rfl

/-- A non-empty buffer: the raw `read`. -/
theorem ioRead_pos (s : Mgr) (h n : Nat) (hn : n ≠ 0) (hl : s.locked = false) :
    File.ioRead h n s = Model.read h n s := by
  unfold File.ioRead
  rw [if_neg hn]
  unfold File.read
  exact call_unlocked _ hl

/-- The raw `read` with an empty buffer, on an open file of an open volume: no bytes, nothing touched. -/
theorem read_zero_open {s : Mgr} {h i vi : Nat} {f : FileInfo}
    (hh : s.files.findIdx? (·.rawFile = h) = some i) (hf : s.files[i]? = some f)
    (hv : s.vols.findIdx? (·.rawVolume = f.rawVolume) = some vi) : Model.read h 0 s = (.ok [], s) := by
  unfold Model.read
  rw [bind_ok (getFileById_ok hh), bind_ok (getFile_ok hf), bind_ok (getVolumeById_ok hv)]
  unfold readLoop
  rw [bind_ok (getFile_ok hf), if_pos (Or.inl rfl)]
  rfl

/-- Hence on an open file of an open volume the wrapper is the raw call for EVERY buffer length. -/
theorem ioRead_open {s : Mgr} {h i vi : Nat} {f : FileInfo} (hl : s.locked = false)
    (hh : s.files.findIdx? (·.rawFile = h) = some i) (hf : s.files[i]? = some f)
    (hv : s.vols.findIdx? (·.rawVolume = f.rawVolume) = some vi) (n : Nat) :
    File.ioRead h n s = Model.read h n s := by
  by_cases hn : n = 0
  · subst hn; rw [ioRead_zero, read_zero_open hh hf hv]
  · exact ioRead_pos s h n hn hl

theorem ioRead_locked (s : Mgr) (h n : Nat) (hn : n ≠ 0) (hl : s.locked = true) :
    File.ioRead h n s = (.err .LockError, s) := by
  unfold File.ioRead
  rw [if_neg hn]
  unfold File.read
  exact call_locked _ hl

/-! ### `Write::write`, `Write::flush` -/

theorem ioWrite_nil (s : Mgr) (h : Nat) : File.ioWrite h [] s = (.ok 0, s) := rfl

/-- A non-empty buffer: the raw `write`; on success the answer is the buffer length. -/
theorem ioWrite_cons (s : Mgr) (h : Nat) (data : Bytes) (hne : data ≠ []) (hl : s.locked = false) :
    File.ioWrite h data s = ((write h data s).1.bind (fun _ => .ok data.length), (write h data s).2) := by
  unfold File.ioWrite
  have he : data.isEmpty = false := by
    cases data with
    | nil => exact absurd rfl hne
    | cons a t => rfl
  rw [he]
  show (File.write h data >>= fun _ => pure data.length) s = _
  rw [bind_def]
  unfold File.write
  rw [call_unlocked _ hl]
  rcases write h data s with ⟨r, s'⟩
  cases r <;> rfl

theorem ioWrite_locked (s : Mgr) (h : Nat) (data : Bytes) (hne : data ≠ []) (hl : s.locked = true) :
    File.ioWrite h data s = (.err .LockError, s) := by
  unfold File.ioWrite
  have he : data.isEmpty = false := by
    cases data with
    | nil => exact absurd rfl hne
    | cons a t => rfl
  rw [he]
  show (File.write h data >>= fun _ => pure data.length) s = _
  refine bind_err ?_
  unfold File.write
  exact call_locked _ hl

theorem ioFlush_eq (s : Mgr) (h : Nat) (hl : s.locked = false) : File.ioFlush h s = flushFile h s := by
  unfold File.ioFlush File.flush
  exact call_unlocked _ hl

/-! ### `close` -/

theorem file_close_eq (s : Mgr) (h : Nat) (hl : s.locked = false) : File.close h s = closeFile h s := by
  unfold File.close; exact call_unlocked _ hl
theorem dir_close_eq (s : Mgr) (d : Nat) (hl : s.locked = false) : Directory.close d s = closeDir d s := by
  unfold Directory.close; exact call_unlocked _ hl
theorem volume_close_eq (s : Mgr) (v : Nat) (hl : s.locked = false) : Volume.close v s = closeVolume v s := by
  unfold Volume.close; exact call_unlocked _ hl

/-! ### `Drop` -/

theorem file_drop_eq (s : Mgr) (h : Nat) (hl : s.locked = false) :
    File.drop h s = (swallow (closeFile h s).1, (closeFile h s).2) := by
  unfold File.drop; rw [ignoreErr_run, call_unlocked _ hl]
theorem dir_drop_eq (s : Mgr) (d : Nat) (hl : s.locked = false) :
    Directory.drop d s = (swallow (closeDir d s).1, (closeDir d s).2) := by
  unfold Directory.drop; rw [ignoreErr_run, call_unlocked _ hl]
theorem volume_drop_eq (s : Mgr) (v : Nat) (hl : s.locked = false) :
    Volume.drop v s = (swallow (closeVolume v s).1, (closeVolume v s).2) := by
  unfold Volume.drop; rw [ignoreErr_run, call_unlocked _ hl]

/-- With the manager borrowed a destructor does nothing and says nothing: the handle stays open. -/
theorem drop_locked (s : Mgr) (x : Nat) (hl : s.locked = true) :
    File.drop x s = (.ok (), s) ∧ Directory.drop x s = (.ok (), s) ∧ Volume.drop x s = (.ok (), s) := by
  refine ⟨?_, ?_, ?_⟩
  · unfold File.drop; rw [ignoreErr_run, call_locked _ hl]; rfl
  · unfold Directory.drop; rw [ignoreErr_run, call_locked _ hl]; rfl
  · unfold Volume.drop; rw [ignoreErr_run, call_locked _ hl]; rfl

/-- `close_dir` answers `Ok` or `BadHandle`, so dropping a directory always answers `Ok`. -/
theorem closeDir_result (s : Mgr) (d : Nat) :
    closeDir d s = (.err .BadHandle, s) ∨ ∃ s', closeDir d s = (.ok (), s') := by
  unfold closeDir
  rw [get_bind]
  cases s.dirs.findIdx? (·.rawDirectory = d) with
  | none => exact .inl rfl
  | some i => exact .inr ⟨_, rfl⟩

theorem dir_drop_ok (s : Mgr) (d : Nat) : (Directory.drop d s).1 = .ok () := by
  cases hl : s.locked with
  | true => rw [(drop_locked s d hl).2.1]
  | false =>
    rw [dir_drop_eq s d hl]
    rcases closeDir_result s d with he | ⟨s', he⟩ <;> rw [he] <;> rfl

/-! ### Closing a file: the flush, then the slot goes — whatever the flush answered -/

theorem withVol_files {α} (i : Nat) (f : F α) (s : Mgr) : (withVol i f s).2.files = s.files := by
  unfold withVol
  cases s.vols[i]? <;> rfl

theorem flushFile_files (h : Nat) (s : Mgr) : (flushFile h s).2.files = s.files := by
  unfold flushFile
  rw [bind_def]
  rcases h1 : getFileById h s with ⟨r1, s1⟩
  have hs1 : s1 = s := by
    have := congrArg Prod.snd h1
    unfold getFileById at this
    split at this <;> exact this.symm
  subst hs1
  cases r1 with
  | err e => rfl
  | panic m => rfl
  | diverged => rfl
  | ok i =>
    show ((getFile i >>= _) s1).2.files = _
    rw [bind_def]
    rcases h2 : getFile i s1 with ⟨r2, s2⟩
    have hs2 : s2 = s1 := by
      have := congrArg Prod.snd h2
      unfold getFile at this
      split at this <;> exact this.symm
    subst hs2
    cases r2 with
    | err e => rfl
    | panic m => rfl
    | diverged => rfl
    | ok f =>
      show ((if f.dirty = true then _ else (pure () : M Unit)) s2).2.files = _
      by_cases hd : f.dirty = true
      · rw [if_pos hd, bind_def]
        rcases h3 : getVolumeById f.rawVolume s2 with ⟨r3, s3⟩
        have hs3 : s3 = s2 := by
          have := congrArg Prod.snd h3
          unfold getVolumeById at this
          split at this <;> exact this.symm
        subst hs3
        cases r3 with
        | err e => rfl
        | panic m => rfl
        | diverged => rfl
        | ok vi =>
          show ((withVol vi Fat.updateInfoSector >>= _) s3).2.files = _
          rw [bind_def]
          have h4f := withVol_files vi Fat.updateInfoSector s3
          rcases h4 : withVol vi Fat.updateInfoSector s3 with ⟨r4, s4⟩
          rw [h4] at h4f
          cases r4 with
          | err e => exact h4f
          | panic m => exact h4f
          | diverged => exact h4f
          | ok u =>
            show ((if f.entry.size ≠ 0 ∧ f.entry.cluster = 0 then (_ : M Unit) else _) s4).2.files = _
            by_cases ha : f.entry.size ≠ 0 ∧ f.entry.cluster = 0
            · rw [if_pos ha]; exact h4f
            · rw [if_neg ha, withVol_files]; exact h4f
      · rw [if_neg hd]; rfl

/-- `close_file` on an open handle (slot `i`): what the flush answered, the state the flush left,
minus slot `i`. -/
theorem closeFile_open_at {s : Mgr} {h i : Nat} (hh : s.files.findIdx? (·.rawFile = h) = some i) :
    closeFile h s = ((flushFile h s).1, { (flushFile h s).2 with files := swapRemove s.files i }) := by
  have hfiles := flushFile_files h s
  have hh' : (flushFile h s).2.files.findIdx? (·.rawFile = h) = some i := by rw [hfiles]; exact hh
  unfold closeFile
  rw [attempt_bind, bind_ok (getFileById_ok hh'), modify_bind, hfiles]
  rfl

/-- Dropping an open `File`: `Ok(())` (unless the flush panicked), the slot is gone, everything
else — the medium included — is what the flush left. -/
theorem file_drop_open {s : Mgr} {h i : Nat} (hl : s.locked = false)
    (hh : s.files.findIdx? (·.rawFile = h) = some i) :
    File.drop h s = (swallow (flushFile h s).1, { (flushFile h s).2 with files := swapRemove s.files i }) := by
  rw [file_drop_eq s h hl, closeFile_open_at hh]

/-- A clean file: nothing to flush. -/
theorem flushFile_clean {s : Mgr} {h i : Nat} {f : FileInfo}
    (hh : s.files.findIdx? (·.rawFile = h) = some i) (hf : s.files[i]? = some f) (hd : f.dirty = false) :
    flushFile h s = (.ok (), s) := by
  unfold flushFile
  rw [bind_ok (getFileById_ok hh), bind_ok (getFile_ok hf)]
  show (if f.dirty = true then _ else (pure () : M Unit)) s = _
  rw [if_neg (by rw [hd]; exact Bool.false_ne_true)]
  rfl

/-- Dropping a `Volume` that still has open files or directories: `VolumeStillInUse` is swallowed —
`Ok(())`, nothing changed, the volume stays open. -/
theorem volume_drop_in_use (s : Mgr) (v : Nat) (hl : s.locked = false)
    (hu : s.files.any (·.rawVolume = v) = true ∨ s.dirs.any (·.rawVolume = v) = true) :
    closeVolume v s = (.err .VolumeStillInUse, s) ∧ Volume.drop v s = (.ok (), s) := by
  have hc : closeVolume v s = (.err .VolumeStillInUse, s) := by
    unfold closeVolume
    rw [get_bind]
    by_cases c1 : (s.files.any (·.rawVolume = v)) = true
    · rw [if_pos c1]; rfl
    · rw [if_neg c1]
      rcases hu with hu | hu
      · exact absurd hu c1
      · rw [if_pos hu]; rfl
  refine ⟨hc, ?_⟩
  rw [volume_drop_eq s v hl, hc]
  rfl

end Sdmmc.Lemmas.Wrap
